import MidiModel.Basic
/-!
# Port lifecycle (C17)

* `St`, `St.step`: the in-memory loop-back driver `drivers/testdrv/driver.go` as it is now, statement by
  statement: the two `isOpen` flags, the driver-wide `stopListening` flag, the reader `rd` (nil until the
  first `Listen`; its callback is bound to the listener that created it), and the number of `Listen` calls
  made so far (= the id of the next listener, = the number of stop functions handed out).
* `Spec`, `Spec.step`: the abstract port contract of `drivers/port.go` / the property text, written without
  looking at the driver: a message is delivered iff the out port is open and a listener is active; `Send` on
  a closed out port reports the port-closed error; a stop function deactivates its listener; a new `Listen`
  afterwards works; open/close are idempotent.  Calls outside the protocol get the strict answer of the
  contract (`Listen` on a closed port: port-closed error; second listener: error; `Close` ends listening;
  a stop function only stops *its* listener).
* `allowed`, `protocolOK`: the protocol of DESIGN §8 as an executable predicate over histories.
* lock-path checker (`checkPath`, `checkAll`) for the facts `tools/extract/lockpaths.go` reads from
  `drivers/midicatdrv/{in,out}.go`.

A `send` carries one complete note-on message identified by its note number; `drivers.Reader.EachMessage`
calling the callback exactly once for such a message is what C04/C06 establish and what the correspondence
run observes here.  Time stamps are not part of this property.
-/
namespace Midi.Ports

/-- one lifecycle call on the port pair of a driver -/
inductive Op where
  | openIn | openOut | closeIn | closeOut
  | listen
  /-- call the stop function returned by the `k`-th `Listen` (0-based) -/
  | stop (k : Nat)
  /-- `out.Send` of a note-on with this note number -/
  | send (note : Nat)
  deriving DecidableEq, Repr

/-- class of the value a call returns -/
inductive Res where
  | ok
  /-- `drivers.ErrPortClosed` -/
  | closed
  /-- any other error -/
  | err
  /-- there is no such stop function (outside the input language) -/
  | noFn
  deriving DecidableEq, Repr

/-- what one call lets an observer see: its result class, the listener callbacks made before it returned
    (listener id, note), and `IsOpen()` of both ports afterwards -/
structure Obs where
  res : Res
  calls : List (Nat × Nat)
  inOpen : Bool
  outOpen : Bool
  deriving DecidableEq, Repr

/-! ## testdrv as it is -/

structure St where
  /-- `in.isOpen` -/
  inOpen : Bool := false
  /-- `out.isOpen` -/
  outOpen : Bool := false
  /-- `Driver.rd`: `none` = nil, `some k` = the reader made by the `k`-th `Listen` (calls listener `k`) -/
  rd : Option Nat := none
  /-- `Driver.stopListening` -/
  stopListening : Bool := false
  /-- number of `Listen` calls so far -/
  listens : Nat := 0
  deriving DecidableEq, Repr

def St.init : St := {}

/-- one call: new state, result class, callbacks -/
def St.step (s : St) : Op → St × Res × List (Nat × Nat)
  -- func (f *in) Open(): if f.isOpen { return nil }; f.isOpen = true; return nil
  | .openIn => ({ s with inOpen := true }, .ok, [])
  | .openOut => ({ s with outOpen := true }, .ok, [])
  -- func (f *in) Close(): if !f.isOpen { return nil }; f.isOpen = false; return nil
  | .closeIn => ({ s with inOpen := false }, .ok, [])
  | .closeOut => ({ s with outOpen := false }, .ok, [])
  -- Listen: f.stopListening = false; stopFn = ...; f.rd = drivers.NewReader(conf, cb(onMsg)); return stopFn, nil
  -- (the in port's isOpen is not consulted)
  | .listen => ({ s with stopListening := false, rd := some s.listens, listens := s.listens + 1 }, .ok, [])
  -- stopFn = func() { f.stopListening = true }   (every stop function sets the one driver-wide flag)
  | .stop k => if k < s.listens then ({ s with stopListening := true }, .ok, []) else (s, .noFn, [])
  -- Send: if !f.isOpen { return ErrPortClosed }; if f.stopListening || f.rd == nil { return nil };
  --       f.rd.EachMessage(bt, ts)
  | .send n =>
    if !s.outOpen then (s, .closed, [])
    else if s.stopListening then (s, .ok, [])
    else match s.rd with
      | none => (s, .ok, [])
      | some k => (s, .ok, [(k, n)])

def St.exec (s : St) (op : Op) : St × Obs :=
  let r := s.step op
  (r.1, ⟨r.2.1, r.2.2, r.1.inOpen, r.1.outOpen⟩)

/-- state after a history -/
def St.final (s : St) : List Op → St
  | [] => s
  | op :: r => St.final (s.exec op).1 r

/-- per-call observations of a history -/
def St.trace (s : St) : List Op → List Obs
  | [] => []
  | op :: r => (s.exec op).2 :: St.trace (s.exec op).1 r

/-! ## the contract -/

structure Spec where
  inOpen : Bool := false
  outOpen : Bool := false
  /-- the listener that is listening now -/
  active : Option Nat := none
  /-- number of stop functions handed out so far -/
  listens : Nat := 0
  deriving DecidableEq, Repr

def Spec.init : Spec := {}

def Spec.step (a : Spec) : Op → Spec × Res × List (Nat × Nat)
  | .openIn => ({ a with inOpen := true }, .ok, [])
  | .openOut => ({ a with outOpen := true }, .ok, [])
  | .closeIn => ({ a with inOpen := false, active := none }, .ok, [])
  | .closeOut => ({ a with outOpen := false }, .ok, [])
  | .listen =>
    if !a.inOpen then (a, .closed, [])
    else if a.active.isSome then (a, .err, [])
    else ({ a with active := some a.listens, listens := a.listens + 1 }, .ok, [])
  | .stop k =>
    if k < a.listens then ({ a with active := if a.active = some k then none else a.active }, .ok, [])
    else (a, .noFn, [])
  | .send n =>
    if !a.outOpen then (a, .closed, [])
    else match a.active with
      | none => (a, .ok, [])
      | some k => (a, .ok, [(k, n)])

def Spec.exec (a : Spec) (op : Op) : Spec × Obs :=
  let r := a.step op
  (r.1, ⟨r.2.1, r.2.2, r.1.inOpen, r.1.outOpen⟩)

def Spec.final (a : Spec) : List Op → Spec
  | [] => a
  | op :: r => Spec.final (a.exec op).1 r

def Spec.trace (a : Spec) : List Op → List Obs
  | [] => []
  | op :: r => (a.exec op).2 :: Spec.trace (a.exec op).1 r

/-! ## the protocol (DESIGN §8) -/

/-- may `op` be called in contract state `a`?  `Listen` needs an open in port and no active listener (one
    listener at a time); the in port is closed only after listening was stopped; a stop function exists and
    is not the stale one of an earlier listener while a later one is active (calling the current stop
    function twice is fine).  Everything else — sending in any state, repeated open/close — is allowed. -/
def allowed (a : Spec) : Op → Bool
  | .listen => a.inOpen && a.active.isNone
  | .closeIn => a.active.isNone
  | .stop k => decide (k < a.listens) && (a.active.isNone || a.active == some k)
  | _ => true

def protocolOK (a : Spec) : List Op → Bool
  | [] => true
  | op :: r => allowed a op && protocolOK (a.exec op).1 r

/-- a protocol-respecting history, from the initial state -/
def ProtocolOK (ops : List Op) : Prop := protocolOK Spec.init ops = true

instance (ops : List Op) : Decidable (ProtocolOK ops) := by unfold ProtocolOK; infer_instance

/-- length of the longest protocol-respecting prefix -/
def protoPrefix (a : Spec) : List Op → Nat
  | [] => 0
  | op :: r => if allowed a op then protoPrefix (a.exec op).1 r + 1 else 0

/-- abstraction map: what the contract state of a testdrv state is -/
def abs (s : St) : Spec :=
  { inOpen := s.inOpen, outOpen := s.outOpen,
    active := if s.stopListening then none else s.rd, listens := s.listens }

/-- syntactic reading of a history: its last out-port open/close call, if any -/
def lastOutCall : List Op → Option Bool
  | [] => none
  | op :: r =>
    match lastOutCall r with
    | some b => some b
    | none => match op with | .openOut => some true | .closeOut => some false | _ => none

/-- the out port is open after a history iff the last of its open/close calls is an open -/
def outOpenAfter (ops : List Op) : Bool := lastOutCall ops == some true

/-- number of `Listen` calls of a history = number of stop functions that exist afterwards -/
def countListens : List Op → Nat
  | [] => 0
  | .listen :: r => countListens r + 1
  | _ :: r => countListens r

/-! ## lock paths of the process-backed driver

`tools/extract/lockpaths.go` prints, for every method and function literal of `midicatdrv/in.go` and
`out.go`, each control path (loops unrolled 0, 1 and 2 times) as a list of events `(kind, arg)`:
`(0,m)` Lock of mutex `m`, `(1,m)` Unlock, `(2,m)` RLock, `(3,m)` RUnlock, `(4,f)` call of function `f` of
the table on the same receiver, `(5,0)` return (after the deferred unlocks, which are emitted before it),
`(6,0)` cut (the path was followed through two rounds of an endless loop, or ends in `panic`).
Mutex 0 is the port's own embedded `sync.RWMutex`. -/

inductive Held where
  | free | w | r
  deriving DecidableEq, Repr

abbrev LockSt := List (Nat × Held)

def heldOf (st : LockSt) (m : Nat) : Held :=
  match st with
  | [] => .free
  | (k, h) :: r => if k = m then h else heldOf r m

def setHeld (st : LockSt) (m : Nat) (h : Held) : LockSt :=
  match st with
  | [] => [(m, h)]
  | (k, x) :: r => if k = m then (k, h) :: r else (k, x) :: setHeld r m h

def allFree : LockSt → Bool
  | [] => true
  | (_, h) :: r => h == .free && allFree r

/-- mutexes a function of the table locks itself (first event kinds 0 and 2) -/
def directLocks (paths : List (List (Nat × Nat))) : List Nat :=
  (paths.flatten.filter (fun e => e.1 = 0 || e.1 = 2)).map (·.2)

def directCalls (paths : List (List (Nat × Nat))) : List Nat :=
  (paths.flatten.filter (fun e => e.1 = 4)).map (·.2)

/-- mutexes `f` may lock, following calls `fuel` deep -/
def mayLock (table : List (Nat × List (List (Nat × Nat)))) : Nat → Nat → List Nat
  | 0, _ => []
  | fuel + 1, f =>
    match table.find? (fun e => e.1 = f) with
    | none => []
    | some e => directLocks e.2 ++ (directCalls e.2).flatMap (mayLock table fuel)

/-- one path is well nested: never Lock/RLock a mutex that is held, never Unlock/RUnlock one that is not
    held that way, never call a function that locks a mutex held here, nothing held at the return, and the
    return (or the cut of an endless loop) is the last event of the path (and there is one). -/
def checkPath (table : List (Nat × List (List (Nat × Nat)))) (st : LockSt) : List (Nat × Nat) → Bool
  | [] => false
  | (kind, arg) :: rest =>
    if kind = 0 then heldOf st arg == .free && checkPath table (setHeld st arg .w) rest
    else if kind = 1 then heldOf st arg == .w && checkPath table (setHeld st arg .free) rest
    else if kind = 2 then heldOf st arg == .free && checkPath table (setHeld st arg .r) rest
    else if kind = 3 then heldOf st arg == .r && checkPath table (setHeld st arg .free) rest
    else if kind = 4 then
      (mayLock table table.length arg).all (fun m => heldOf st m == .free) && checkPath table st rest
    else if kind = 5 then allFree st && rest.isEmpty
    else if kind = 6 then rest.isEmpty
    else false

def checkFn (table : List (Nat × List (List (Nat × Nat)))) (paths : List (List (Nat × Nat))) : Bool :=
  !paths.isEmpty && paths.all (checkPath table [])

def checkAll (table : List (Nat × List (List (Nat × Nat)))) : Bool :=
  table.all (fun e => checkFn table e.2)

/-- the paths of function `f`, empty if it is not in the table -/
def pathsOf (table : List (Nat × List (List (Nat × Nat)))) (f : Nat) : List (List (Nat × Nat)) :=
  match table.find? (fun e => e.1 = f) with
  | none => []
  | some e => e.2

/-- paths of `f` that take the port mutex -/
def lockingPaths (table : List (Nat × List (List (Nat × Nat)))) (f : Nat) : Nat :=
  ((pathsOf table f).filter (fun p => p.any (fun e => e.1 = 0 && e.2 = 0))).length

/-! ## line protocol -/

def showRes : Res → String
  | .ok => "ok" | .closed => "closed" | .err => "err" | .noFn => "nofn"

def showObs (o : Obs) : String :=
  showRes o.res ++ String.join (o.calls.map (fun c => s!"+{c.1}:{c.2}")) ++ "/" ++
    (if o.inOpen then "1" else "0") ++ (if o.outOpen then "1" else "0")

/-- `oi oo ci co l s<k> x<n>`; `L` = `midi.ListenTo` (opens the in port if needed, then listens) and
    `X<n>` = `midi.SendTo` + send (opens the out port if needed): two calls, the second one is reported -/
def parseOp (t : String) : Option (List Op) :=
  if t = "oi" then some [.openIn] else if t = "oo" then some [.openOut]
  else if t = "ci" then some [.closeIn] else if t = "co" then some [.closeOut]
  else if t = "l" then some [.listen] else if t = "L" then some [.openIn, .listen]
  else if t.startsWith "s" then (t.drop 1).toString.toNat?.map (fun k => [.stop k])
  else if t.startsWith "x" then (t.drop 1).toString.toNat?.map (fun n => [.send n])
  else if t.startsWith "X" then (t.drop 1).toString.toNat?.map (fun n => [.openOut, .send n])
  else none

def parseOps (s : String) : Option (List (List Op)) :=
  if s = "-" then some [] else (s.splitOn ",").mapM parseOp

/-- observations of grouped calls: the last observation of each group -/
def groupObs : List (List Op) → List Obs → List Obs
  | [], _ => []
  | g :: gs, obs =>
    match (obs.take g.length).getLast? with
    | some o => o :: groupObs gs (obs.drop g.length)
    | none => groupObs gs (obs.drop g.length)

/-- number of leading groups that lie within the first `n` calls -/
def groupsWithin : List (List Op) → Nat → Nat
  | [], _ => 0
  | g :: gs, n => if g.length ≤ n then groupsWithin gs (n - g.length) + 1 else 0

def mix (h c : UInt64) : UInt64 := (h ^^^ c) * 1099511628211

def resCode : Res → UInt64
  | .ok => 0 | .closed => 1 | .err => 2 | .noFn => 3

def obsCode (o : Obs) : UInt64 :=
  let c := resCode o.res * 4 + (if o.inOpen then 2 else 0) + (if o.outOpen then 1 else 0)
  o.calls.foldl (fun c x => c * 1000003 + (UInt64.ofNat (x.1 * 256 + x.2 + 1))) c

/-- the op alphabet of the exhaustive enumeration at a node: the six stateless calls, the newest stop
    function, and the oldest one if there are two or more -/
def alphabet (listens pos : Nat) : List Op :=
  [.openIn, .openOut, .closeIn, .closeOut, .listen, .send pos] ++
    (if listens ≥ 1 then [.stop (listens - 1)] else []) ++ (if listens ≥ 2 then [.stop 0] else [])

structure Acc where
  nodes : Nat := 0
  h : UInt64 := 14695981039346656037
  snodes : Nat := 0
  hs : UInt64 := 14695981039346656037

/-- pre-order walk over all extensions of the current history by `depth` more calls; the digest `h` takes
    the observation of every node of the testdrv model, `hs` the contract's observation of every node whose
    history respects the protocol (`a = none` once it does not) -/
def enum : Nat → Nat → St → Option Spec → Acc → Acc
  | 0, _, _, _, acc => acc
  | depth + 1, pos, s, a, acc =>
    (alphabet s.listens pos).foldl (fun acc op =>
      let r := s.exec op
      let acc := { acc with nodes := acc.nodes + 1, h := mix acc.h (obsCode r.2) }
      match a with
      | some a =>
        if allowed a op then
          let ra := a.exec op
          enum depth (pos + 1) r.1 (some ra.1)
            { acc with snodes := acc.snodes + 1, hs := mix acc.hs (obsCode ra.2) }
        else enum depth (pos + 1) r.1 none acc
      | none => enum depth (pos + 1) r.1 none acc) acc

--@driver ports. Ports.handle
/-- `ports.hist ops=<op,op,…>` → per-call observations of the testdrv model, the length of the longest
    protocol-respecting prefix (in ops of the line) and the contract's observations on it;
    `ports.enum pre=<ops> depth=<d>` → node counts and digests of the exhaustive walk below `pre`. -/
def handle (op : String) (args : List String) : String :=
  match op with
  | "ports.hist" =>
    match (field "ops" args).bind parseOps with
    | none => "bad-op"
    | some groups =>
      let ops := groups.flatten
      let tr := groupObs groups (St.trace St.init ops)
      let np := groupsWithin groups (protoPrefix Spec.init ops)
      let sp := (groupObs groups (Spec.trace Spec.init ops)).take np
      let sh := fun (l : List Obs) => if l.isEmpty then "-" else ",".intercalate (l.map showObs)
      s!"r={sh tr} proto={np} spec={sh sp}"
  | "ports.enum" =>
    match (field "pre" args).bind parseOps, natField "depth" args with
    | some groups, some d =>
      let ops := groups.flatten
      if d > 12 then "bad-op" else
      let s := St.final St.init ops
      let a := if protocolOK Spec.init ops then some (Spec.final Spec.init ops) else none
      let acc := enum d ops.length s a {}
      s!"nodes={acc.nodes} h={acc.h.toNat} snodes={acc.snodes} hs={acc.hs.toNat}"
    | _, _ => "bad-op"
  | _ => "bad-op"

end Midi.Ports
