import MidiModel.Msg
/-!
# Live MIDI input: `drivers.Reader` (byte-at-a-time receiver), the option filter of `testdrv`,
and the re-typing of raw driver frames into `midi.Message` by `midi.ListenTo`.

The decoder is modelled one function per Go function (`eachByte`, `cleanState`,
`withinChannelMessage`), state passing instead of mutation, an explicit `panicked` flag instead of the
two `panic` calls. The input is a stream of tokens: a byte, or a clock tick (`EachMessage(bt, Δ)` =
tick Δ followed by the bytes of `bt`), so that "how the stream is cut into chunks" is just the position
of the ticks.
-/
namespace Midi.Live

inductive Mode | clean | chan | sysc | sysex | unknown
deriving DecidableEq, Repr

/-- `drivers.ListenConfig` as far as the decoder and the filter use it -/
structure Cfg where
  sysex : Bool          -- SysEx
  buf : Nat             -- SysExBufferSize (0 = default 1024)
  as : Bool             -- ActiveSense
  tc : Bool             -- TimeCode
deriving Repr, DecidableEq

def Cfg.bufSize (c : Cfg) : Nat := if c.buf = 0 then 1024 else c.buf

structure St where
  mode : Mode := .clean
  status : Nat := 0                 -- statusByte (running status), 0 = none
  typ : Nat := 0
  pend : Option Nat := none         -- issetBf / bf
  sx : Bytes := []                  -- sysexBf[0:sysexlen]
  sxTs : Int := 0
  ts : Int := 0                     -- ts_ms
  panicked : Bool := false
deriving Repr, DecidableEq

abbrev Frame := Bytes × Int

/-- `withinChannelMessage` -/
def withinChan (s : St) (b : Nat) : St × List Frame :=
  if s.typ = 0xD ∨ s.typ = 0xC then
    ({ s with pend := none, mode := .clean }, [([s.status, b, 0], s.ts)])
  else if s.typ = 0xB ∨ s.typ = 0x9 ∨ s.typ = 0x8 ∨ s.typ = 0xA ∨ s.typ = 0xE then
    match s.pend with
    | some x => ({ s with pend := none, mode := .clean }, [([s.status, x, b], s.ts)])
    | none => ({ s with pend := some b }, [])
  else ({ s with panicked := true }, [])

/-- `cleanState` (`b < 0xF8`) -/
def cleanState (s : St) (b : Nat) : St × List Frame :=
  if b = 0xF0 then
    ({ s with status := 0, sx := [0xF0], sxTs := s.ts, mode := .sysex }, [])
  else if b = 0xF7 then
    ({ s with sx := [], status := 0 }, [([0xF7, 0, 0], s.ts)])
  else if 0xF0 < b ∧ b < 0xF7 then
    if b = 0xF1 ∨ b = 0xF2 ∨ b = 0xF3 then
      ({ s with status := 0, pend := none, mode := .sysc, typ := b }, [])
    else if b = 0xF6 then
      ({ s with status := 0, pend := none }, [([0xF6, 0, 0], s.ts)])
    else ({ s with status := 0, pend := none, mode := .unknown }, [])
  else if 0x80 ≤ b ∧ b ≤ 0xEF then
    ({ s with status := b, pend := none, typ := b / 16, mode := .chan }, [])
  else if s.status ≠ 0 then withinChan { s with mode := .chan } b
  else (s, [])

/-- the `readerStateInSysEx` branch of `eachByte` -/
def sysexStep (c : Cfg) (s : St) (b : Nat) : St × List Frame :=
  if b = 0xF0 then ({ s with status := 0, sx := [0xF0], sxTs := s.ts }, [])
  else if b = 0xF7 then
    ({ s with mode := .clean, sx := [] },
      if c.sysex ∧ s.sx ≠ [] ∧ s.sx.length < c.bufSize then [(s.sx ++ [0xF7], s.sxTs)] else [])
  else if 0x80 ≤ b then cleanState { s with sx := [], mode := .clean } b
  else if c.sysex ∧ s.sx ≠ [] then
    if s.sx.length < c.bufSize then ({ s with sx := s.sx ++ [b] }, []) else ({ s with sx := [] }, [])
  else (s, [])

/-- the `readerStateWithinSysCommon` branch (`b < 0x80` here) -/
def syscStep (s : St) (b : Nat) : St × List Frame :=
  if s.typ = 0xF1 ∨ s.typ = 0xF3 then
    ({ s with pend := none, mode := .clean }, [([s.typ, b, 0], s.ts)])
  else if s.typ = 0xF2 then
    match s.pend with
    | some x => ({ s with pend := none, mode := .clean }, [([0xF2, x, b], s.ts)])
    | none => ({ s with pend := some b }, [])
  else (s, [])       -- F6 / anything else: nothing (OnErr at most)

/-- `eachByte` -/
def step (c : Cfg) (s : St) (b : Nat) : St × List Frame :=
  if 0xF8 ≤ b then (s, [([b], s.ts)]) else
  -- a new (non real-time) status byte abandons an incomplete channel / system common message
  let s := if 0x80 ≤ b ∧ (s.mode = .chan ∨ s.mode = .sysc) then { s with pend := none, mode := .clean } else s
  match s.mode with
  | .sysex => sysexStep c s b
  | .clean => cleanState s b
  | .unknown => if 0x80 ≤ b then cleanState { s with mode := .clean } b else (s, [])
  | .sysc => syscStep s b
  | .chan => withinChan s b

inductive Tok
  | byte (b : Nat)
  | tick (d : Int)        -- `setDelta`: the clock advances (a new `EachMessage` call)
deriving Repr, DecidableEq

def stepTok (c : Cfg) (s : St) : Tok → St × List Frame
  | .byte b => step c s b
  | .tick d => ({ s with ts := s.ts + d }, [])

def feed (c : Cfg) : St → List Tok → St × List Frame
  | s, [] => (s, [])
  | s, t :: ts => ((feed c (stepTok c s t).1 ts).1, (stepTok c s t).2 ++ (feed c (stepTok c s t).1 ts).2)

/-- `Reset()` -/
def init : St := {}

/-- option filter of the `testdrv` in-port (on the raw frame) -/
def keep (c : Cfg) (f : Frame) : Bool :=
  match f.1 with
  | [] => true
  | h :: _ =>
    !((h = 0xFE && !c.as) || (h = 0xF8 && !c.tc) || ((h = 0xF0 || h = 0xF7) && !c.sysex))

/-- `onMsg` of `midi.ListenTo`: raw driver frame → `midi.Message` (`none` = listener not called;
    `some none` = index-out-of-range / constructor panic) -/
def retype (data : Bytes) : Option (Option Bytes) :=
  match data with
  | [] => some none
  | status :: rest =>
    if 0xF8 ≤ status then some (some [status])
    else if 0xF0 < status ∧ status < 0xF7 then
      if status = 0xF6 then some (some Msg.tune)
      else if status = 0xF1 then (match rest with | d1 :: _ => some (some (Msg.mtc d1)) | _ => some none)
      else if status = 0xF2 then (match rest with
        | d1 :: d2 :: _ => some (some (Msg.spp (Msg.parsePitchWheelVals d1 d2).2))
        | _ => some none)
      else if status = 0xF3 then (match rest with | d1 :: _ => some (some (Msg.songSelect d1)) | _ => some none)
      else none
    else if status = 0xF7 then none
    else if status = 0xF0 then some (some data)
    else if 0x80 ≤ status ∧ status ≤ 0xEF then
      match rest with
      | d1 :: d2 :: _ =>
        let typ := (Msg.parseStatus status).1
        let ch := (Msg.parseStatus status).2
        if typ = 0xD then some (some (Msg.afterTouch ch d1))
        else if typ = 0xC then some (some (Msg.programChange ch d1))
        else if typ = 0xB then some (some (Msg.controlChange ch d1 d2))
        else if typ = 0x9 then some (some (Msg.noteOn ch d1 d2))
        else if typ = 0x8 then some (some (Msg.noteOffVelocity ch d1 d2))
        else if typ = 0xA then some (some (Msg.polyAfterTouch ch d1 d2))
        else if typ = 0xE then some (Msg.pitchbend ch (Msg.parsePitchWheelVals d1 d2).1)
        else some none
      | _ => some none
    else none       -- a frame that starts with a data byte: `isStatusSet` is false initially (never produced by the reader)

/-- what the listener of `midi.ListenTo` on a `testdrv` port receives; `none` inside = panic -/
def listenFrames (c : Cfg) (frames : List Frame) : List (Option Bytes × Int) :=
  (frames.filter (keep c)).filterMap (fun f => (retype f.1).map (fun m => (m, f.2)))

def listen (c : Cfg) (toks : List Tok) : List (Option Bytes × Int) :=
  listenFrames c (feed c init toks).2

/-- `EachMessage` calls as tokens -/
def chunkToks : List (Int × Bytes) → List Tok
  | [] => []
  | (d, bs) :: r => .tick d :: (bs.map .byte ++ chunkToks r)

/-! ### line protocol -/

def parseChunk (s : String) : Option (Int × Bytes) :=
  match s.splitOn ":" with
  | [d, h] => do pure (← intOfString d, ← unhex h)
  | _ => none

def showFrames (l : List Frame) : String :=
  if l.isEmpty then "-" else joinWith "," (l.map fun f => s!"{f.2}:{hex f.1}")

def showMsgs (l : List (Option Bytes × Int)) : String :=
  if l.isEmpty then "-" else joinWith "," (l.map fun f => match f.1 with
    | some m => s!"{f.2}:{hex m}"
    | none => s!"{f.2}:panic")

--@driver live. Live.handle
def handle (op : String) (args : List String) : String :=
  match op with
  | "live.feed" =>
    match natField "cfg" args, natField "buf" args, field "chunks" args with
    | some k, some buf, some cs =>
      let c : Cfg := ⟨k % 2 = 1, buf, k / 2 % 2 = 1, k / 4 % 2 = 1⟩
      match (if cs = "-" then some [] else (cs.splitOn ",").mapM parseChunk) with
      | some chunks =>
        let (s, frames) := feed c init (chunkToks chunks)
        s!"panic={if s.panicked then 1 else 0} raw={showFrames frames} msgs={showMsgs (listenFrames c frames)}"
      | none => "bad-op"
    | _, _, _ => "bad-op"
  | _ => "bad-op"

end Midi.Live
