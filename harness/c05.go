package main

import (
	"bufio"
	"bytes"
	"fmt"
	"io"
	"runtime"
	"strings"
	"testing/iotest"

	"gitlab.com/gomidi/midi/v2/smf"
)

// C05: reading malformed or truncated SMF data fails cleanly and never fabricates.
func init() {
	register(&Prop{
		ID: "C05",
		Rule: "three streams: (a) valid grammar trees (as C02) cut at EVERY byte offset, judged by the event-prefix relation against the " +
			"tree's meaning; (b) the same files with byte flips, length-field edits, status/data swaps and inserted garbage; (c) raw random " +
			"bytes behind valid / broken headers. Every read is judged for panic, termination (watchdog) and allocation (TotalAlloc delta); " +
			"non-trivial = a valid tree with at least one event (a) or an input longer than the 14-byte header (b, c); distinct by op text",
		Gen: func(r *Rng, tier string, emit func(Case)) {
			na, nb, nc := 60, 1500, 1500
			if tier == "thorough" {
				na, nb, nc = 1500, 60000, 60000
			}
			for i := 0; i < na; i++ {
				c := genGram(r, "quick")
				c.Op = strings.Replace(c.Op, "gram.file", "gram.file", 1)
				c.Tags = append(c.Tags, "stream-a:truncation")
				// only valid trees are judged by the prefix relation; invalid ones still run (tie)
				emit(c)
			}
			for i := 0; i < nb; i++ {
				c := genGram(r, "quick")
				c.Op = c.Op + fmt.Sprintf(" mut=%d", r.U64()%1000000)
				c.Tags = []string{"stream-b:mutation"}
				c.NonTrivial = true
				emit(c)
			}
			// long tracks: allocation must stay proportional when the number of events grows
			longs := []int{1500, 6000}
			if tier == "thorough" {
				longs = []int{1500, 6000, 25000, 100000, 400000}
			}
			for _, n := range longs {
				for kind := 0; kind < 4; kind++ {
					emit(Case{Op: fmt.Sprintf("smf.long n=%d kind=%d seed=%d", n, kind, r.Intn(1<<20)), Tags: []string{"long-track"}, NonTrivial: true})
				}
			}
			// very many consecutive alien chunks (empty ones): reading must stay iterative
			for _, na := range []int{1000, 400000} {
				emit(Case{Op: fmt.Sprintf("smf.manyaliens n=%d", na), Tags: []string{"many-alien-chunks"}, NonTrivial: true})
			}
			// files with very many (mostly empty) tracks: beyond 2^15 and up to the 2^16-1 the header can declare; whole and cut
			for _, nt := range []int{300, 32767, 32768, 32769, 40000, 65535} {
				emit(Case{Op: fmt.Sprintf("smf.manytracks n=%d", nt), Tags: []string{"many-tracks"}, NonTrivial: true})
			}
			for i := 0; i < nc; i++ {
				b := genRawSMF(r)
				emit(Case{Op: "smf.read " + hx(b), Tags: []string{"stream-c:raw"}, NonTrivial: len(b) > 14})
			}
		},
		Run: runC05,
	})
}

func genRawSMF(r *Rng) []byte {
	var b []byte
	switch r.Intn(8) {
	case 0:
		return r.Bytes(r.Intn(40))
	case 1: // broken header
		b = append(b, []byte("MThd")...)
		b = append(b, r.Bytes(r.Intn(12))...)
		return b
	}
	format := r.Pick(0, 1, 2, 2, 3, 255)
	nt := r.Pick(0, 1, 1, 1, 2, 3, 65535)
	div := []byte{byte(r.Pick(0, 0, 1, 0x7F, 0x80, 0xE7, 0xE2, 0xFF)), byte(r.Pick(0, 0, 1, 96, r.Intn(256), r.Intn(256)))}
	b = append(b, 'M', 'T', 'h', 'd', 0, 0, 0, byte(r.Pick(6, 6, 6, 5, 7)), 0, byte(format), byte(nt>>8), byte(nt), div[0], div[1])
	chunks := r.Range(0, 3)
	for c := 0; c < chunks; c++ {
		if r.Chance(4, 5) {
			b = append(b, 'M', 'T', 'r', 'k')
		} else {
			b = append(b, r.Bytes(4)...)
		}
		n := r.Intn(30)
		ln := n
		if r.Chance(1, 4) {
			// also lengths that are negative as int32 and, added to the position behind the chunk header, land on the
			// chunk's own header, on the first chunk or on the MThd (a reader that seeks would go backwards)
			here := len(b) + 4
			ln = r.Pick(0, n+1, n+100, 0x7FFFFFFF, 0xFFFFFFFF, 0x80000000, 0x80000001, 1<<32-8, 1<<32-here, 1<<32-(here-14), 1<<32-(here-8))
		}
		b = append(b, byte(ln>>24), byte(ln>>16), byte(ln>>8), byte(ln))
		// body: a soup of plausible event bytes
		for len(b) < 14+1000 && n > 0 {
			switch r.Intn(10) {
			case 0:
				if r.Bool() {
					// a well-formed meta event with special values, on its own tick
					b = append(append(b, byte(r.Pick(0, 0, 1, 10, 0x7F))), canonicalMeta(r)...)
					n -= 2
					break
				}
				b = append(b, 0x00, 0xFF, 0x2F, 0x00)
			case 1:
				b = append(b, 0x00, 0xFF, r.Byte(), byte(r.Pick(0, 1, 2, 0x7F, 0x80, 0xFF)), r.Byte(), r.Byte())
			case 2:
				b = append(b, 0x00, byte(r.Pick(0xF0, 0xF7)), byte(r.Pick(0, 1, 3, 0xFF)), 0xFF, 0xFF, 0x7F)
			case 3:
				b = append(b, byte(r.Pick(0x81, 0xFF)), byte(r.Pick(0x80, 0xFF)), r.Byte())
			case 4:
				b = append(b, 0x00, byte(0xF1+r.Intn(6)), r.Byte())
			case 5:
				b = append(b, 0x00, byte(r.Intn(128)), byte(r.Intn(128)))
			default:
				st := byte(0x80 + r.Intn(0x70))
				b = append(b, byte(r.Intn(128)), st, byte(r.Intn(128)), byte(r.Intn(128)))
			}
			n -= 3
		}
	}
	if r.Chance(1, 3) && len(b) > 0 {
		b = b[:r.Intn(len(b))]
	}
	return b
}

// mutate applies one structured mutation chosen by seed.
func mutateSMF(b []byte, seed uint64) []byte {
	r := NewRng(seed)
	out := append([]byte{}, b...)
	if len(out) == 0 {
		return out
	}
	switch r.Intn(7) {
	case 0: // byte flip
		for k := r.Range(1, 3); k > 0; k-- {
			out[r.Intn(len(out))] ^= byte(1 << r.Intn(8))
		}
	case 1: // random byte
		out[r.Intn(len(out))] = r.Byte()
	case 2: // delete a byte
		i := r.Intn(len(out))
		out = append(out[:i], out[i+1:]...)
	case 3: // insert garbage
		i := r.Intn(len(out) + 1)
		g := r.Bytes(r.Range(1, 4))
		out = append(out[:i], append(g, out[i:]...)...)
	case 4: // status/data class swap
		i := r.Intn(len(out))
		out[i] ^= 0x80
	case 5: // make some byte a huge length prefix
		i := r.Intn(len(out))
		ins := []byte{0xFF, 0xFF, 0xFF, 0x7F}
		out = append(out[:i], append(ins, out[i:]...)...)
	case 6: // truncate and append
		out = append(out[:r.Intn(len(out))], r.Bytes(r.Intn(5))...)
	}
	return out
}

// readMeasured runs ReadFrom and reports class plus the bytes allocated meanwhile.
func readMeasured(b []byte) (class string, alloc uint64) {
	var m0, m1 runtime.MemStats
	runtime.ReadMemStats(&m0)
	class = readClass(b)
	runtime.ReadMemStats(&m1)
	return class, m1.TotalAlloc - m0.TotalAlloc
}

// allocBound: memory proportional to the input: the header may declare up to 65535 (empty) tracks
// (24 bytes each, grown by append: append growth and the copy into the result: about 8 MiB observed), everything else is bounded by a multiple of the input.
func allocBound(n int) uint64 { return 16<<20 + 512*uint64(n) }

func judgeRead(b []byte, v *Verdict) string {
	class, alloc := readMeasured(b)
	if class == "panic" {
		v.Oracle = append(v.Oracle, "ReadFrom panicked on "+short(hx(b)))
	}
	if alloc > allocBound(len(b)) {
		// showSMF of a big result also allocates: measure again without formatting
		var m0, m1 runtime.MemStats
		runtime.ReadMemStats(&m0)
		try(func() { smf.ReadFrom(bytes.NewReader(b)) })
		runtime.ReadMemStats(&m1)
		if a := m1.TotalAlloc - m0.TotalAlloc; a > allocBound(len(b)) {
			v.Oracle = append(v.Oracle, fmt.Sprintf("ReadFrom allocated %d bytes for an input of %d bytes: %s", a, len(b), short(hx(b))))
		}
	}
	// the same bytes from a source of another kind (no Len, no Stat, no Seek; buffered; a section of something larger)
	kind := len(b)
	for _, x := range b {
		kind += int(x)
	}
	names := []string{"plain io.Reader", "bufio.Reader", "io.SectionReader", "one-byte reader"}
	mk := func() io.Reader {
		switch kind % 4 {
		case 0:
			return struct{ io.Reader }{bytes.NewReader(b)}
		case 1:
			return bufio.NewReader(bytes.NewReader(b))
		case 2:
			return io.NewSectionReader(bytes.NewReader(b), 0, int64(len(b)))
		}
		return iotest.OneByteReader(bytes.NewReader(b))
	}
	var m0, m1 runtime.MemStats
	src := mk()
	runtime.ReadMemStats(&m0)
	p := try(func() { smf.ReadFrom(src) })
	runtime.ReadMemStats(&m1)
	if p != "" {
		v.Oracle = append(v.Oracle, "ReadFrom("+names[kind%4]+") panicked on "+short(hx(b))+": "+p)
	}
	if a := m1.TotalAlloc - m0.TotalAlloc; a > allocBound(len(b)) {
		v.Oracle = append(v.Oracle, fmt.Sprintf("ReadFrom(%s) allocated %d bytes for an input of %d bytes: %s", names[kind%4], a, len(b), short(hx(b))))
	}
	return class
}

// isEventPrefix: content c ("ok:fmt/tf/t|t") is an event-for-event prefix of the original o.
func isEventPrefix(c, o string) bool {
	cp := strings.SplitN(strings.TrimPrefix(c, "ok:"), "/", 3)
	op := strings.SplitN(strings.TrimPrefix(o, "ok:"), "/", 3)
	if len(cp) != 3 || len(op) != 3 || cp[0] != op[0] || cp[1] != op[1] {
		return false
	}
	ct, ot := strings.Split(cp[2], "|"), strings.Split(op[2], "|")
	if len(ct) != len(ot) {
		return false
	}
	for i := range ct {
		if ct[i] == "-" {
			continue
		}
		if ot[i] == "-" {
			return false
		}
		ce, oe := strings.Split(ct[i], ","), strings.Split(ot[i], ",")
		if len(ce) > len(oe) {
			return false
		}
		for j := range ce {
			if ce[j] != oe[j] {
				return false
			}
		}
	}
	return true
}

func runC05(c Case, m *Model) (v Verdict) {
	v.Counts = map[string]int{}
	if strings.HasPrefix(c.Op, "smf.manytracks") {
		runManyTracks(c.Op, &v)
		return
	}
	if strings.HasPrefix(c.Op, "smf.manyaliens") {
		var n int
		fmt.Sscanf(fields(c.Op)["n"], "%d", &n)
		b := make([]byte, 0, 14+8*n+12)
		b = append(b, 'M', 'T', 'h', 'd', 0, 0, 0, 6, 0, 0, 0, 1, 0, 96)
		for i := 0; i < n; i++ {
			b = append(b, 'X', 'F', 'I', 'H', 0, 0, 0, 0)
		}
		b = append(b, 'M', 'T', 'r', 'k', 0, 0, 0, 4, 0x00, 0xFF, 0x2F, 0x00)
		class, alloc := readMeasured(b)
		if class != "ok:0/m:96/0:FF2F00" {
			v.Oracle = append(v.Oracle, fmt.Sprintf("a valid file with %d empty alien chunks before its track reads as %s", n, short(class)))
		}
		if alloc > allocBound(len(b)) {
			v.Oracle = append(v.Oracle, fmt.Sprintf("ReadFrom allocated %d bytes for %d alien chunks (%d bytes)", alloc, n, len(b)))
		}
		return
	}
	if strings.HasPrefix(c.Op, "smf.long") {
		runLongTrack(c.Op, &v)
		return
	}
	if strings.HasPrefix(c.Op, "smf.read") {
		b := unhx(strings.Fields(c.Op)[1])
		class := judgeRead(b, &v)
		if mr := fields(m.Ask(c.Op))["r"]; mr != class {
			v.Mismatch = append(v.Mismatch, "reader model differs: model "+short(mr)+" impl "+short(class))
		}
		v.Counts["reads"]++
		v.Counts["class:"+strings.SplitN(class, ":", 2)[0]]++
		return
	}
	// grammar op, possibly with a mutation seed
	op := c.Op
	mut := ""
	if i := strings.Index(op, " mut="); i >= 0 {
		mut = op[i+5:]
		op = op[:i]
	}
	mf := fields(m.Ask(op))
	if mf["bytes"] == "" {
		v.Mismatch = append(v.Mismatch, "model rejected the op")
		return
	}
	b := unhx(mf["bytes"])
	if mut != "" {
		var seed uint64
		fmt.Sscanf(mut, "%d", &seed)
		mb := mutateSMF(b, seed)
		class := judgeRead(mb, &v)
		if mr := fields(m.Ask("smf.read " + hx(mb)))["r"]; mr != class {
			v.Mismatch = append(v.Mismatch, "reader model differs on "+short(hx(mb))+": model "+short(mr)+" impl "+short(class))
		}
		v.Counts["reads"]++
		v.Counts["class:"+strings.SplitN(class, ":", 2)[0]]++
		return
	}
	// every truncation offset (files above 1500 bytes: every offset of the first and last 300 bytes, a stride in between)
	stride := 1
	if len(b) > 1500 {
		stride = len(b) / 600
	}
	for k := 0; k < len(b); k++ {
		if stride > 1 && k > 300 && k < len(b)-300 && k%stride != 0 {
			continue
		}
		cut := b[:k]
		class := judgeRead(cut, &v)
		v.Counts["reads"]++
		v.Counts["truncations"]++
		if class != "error" {
			v.Counts["truncation-accepted"]++
		}
		if mf["valid"] == "1" && class != "error" && class != "panic" && !isEventPrefix(class, mf["meaning"]) {
			v.Oracle = append(v.Oracle, fmt.Sprintf("file cut at offset %d of %d reads as a value that is not an event prefix of the original: got %s original %s bytes %s",
				k, len(b), short(class), short(mf["meaning"]), short(hx(cut))))
		}
		if mr := fields(m.Ask("smf.read " + hx(cut)))["r"]; mr != class {
			v.Mismatch = append(v.Mismatch, fmt.Sprintf("reader model differs at cut %d: model %s impl %s bytes %s", k, short(mr), short(class), short(hx(cut))))
		}
		if len(v.Oracle)+len(v.Mismatch) > 3 {
			break
		}
	}
	return
}

// longTrackFile: one file with n events; kind 0 = one track of notes (running status), 1 = one track alternating
// channel / meta / sysex events, 2 = the events spread over 16 tracks, 3 = truncated in the middle of the last event.
func longTrackFile(n, kind int, r *Rng) []byte {
	ntr := 1
	if kind == 2 {
		ntr = 16
	}
	var out []byte
	out = append(out, 'M', 'T', 'h', 'd', 0, 0, 0, 6, 0, 1, 0, byte(ntr), 0x01, 0xE0)
	for t := 0; t < ntr; t++ {
		var body []byte
		var run byte
		for i := 0; i < n/ntr; i++ {
			body = append(body, byte(r.Intn(128)))
			switch {
			case kind == 1 && i%3 == 1:
				body = append(body, 0xFF, 0x01, 0x03, 'a', 'b', 'c')
				run = 0
			case kind == 1 && i%3 == 2:
				body = append(body, 0xF0, 0x03, 0x01, 0x02, 0xF7)
				run = 0
			default:
				st := byte(0x90 | r.Intn(2))
				if st != run {
					body = append(body, st)
					run = st
				}
				body = append(body, byte(r.Intn(128)), byte(r.Intn(128)))
			}
		}
		body = append(body, 0x00, 0xFF, 0x2F, 0x00)
		out = append(out, 'M', 'T', 'r', 'k', byte(len(body)>>24), byte(len(body)>>16), byte(len(body)>>8), byte(len(body)))
		out = append(out, body...)
	}
	if kind == 3 {
		out = out[:len(out)-5]
	}
	return out
}

func allocOfRead(b []byte) (alloc uint64, panicked string) {
	var m0, m1 runtime.MemStats
	runtime.ReadMemStats(&m0)
	panicked = try(func() { smf.ReadFrom(bytes.NewReader(b)) })
	runtime.ReadMemStats(&m1)
	return m1.TotalAlloc - m0.TotalAlloc, panicked
}

// runLongTrack: absolute bound (as for every read) and scaling: four times the events may cost at most eight times
// the memory (proportional growth gives about four, quadratic growth sixteen).
func runLongTrack(op string, v *Verdict) {
	f := fields(op)
	var n, kind, seed int
	fmt.Sscanf(f["n"], "%d", &n)
	fmt.Sscanf(f["kind"], "%d", &kind)
	fmt.Sscanf(f["seed"], "%d", &seed)
	small := longTrackFile(n/4, kind, NewRng(uint64(seed)))
	big := longTrackFile(n, kind, NewRng(uint64(seed)))
	a1, p1 := allocOfRead(small)
	a2, p2 := allocOfRead(big)
	if p1 != "" || p2 != "" {
		v.Oracle = append(v.Oracle, "ReadFrom panicked on a long track: "+p1+p2+" :: "+op)
		return
	}
	if a2 > allocBound(len(big)) {
		v.Oracle = append(v.Oracle, fmt.Sprintf("ReadFrom allocated %d bytes for an input of %d bytes (%d events) :: %s", a2, len(big), n, op))
	} else if a2 > 8*a1+(1<<20) {
		v.Oracle = append(v.Oracle, fmt.Sprintf("allocation is not proportional to the input: %d events (%d bytes) cost %d bytes, %d events (%d bytes) cost %d :: %s",
			n/4, len(small), a1, n, len(big), a2, op))
	}
	v.Counts = map[string]int{"reads": 2}
}

// runManyTracks: a well-formed format-1 file of n tracks (every 1000th carries a note, the others only their end-of-track):
// it reads back with n tracks and the notes where they were; cut after k complete chunks it fails cleanly or gives a prefix.
func runManyTracks(op string, v *Verdict) {
	var n int
	fmt.Sscanf(fields(op)["n"], "%d", &n)
	if n < 1 || n > 65535 {
		v.Mismatch = append(v.Mismatch, "bad op")
		return
	}
	b := make([]byte, 0, 14+12*n+n/100)
	b = append(b, 'M', 'T', 'h', 'd', 0, 0, 0, 6, 0, 1, byte(n>>8), byte(n), 0, 96)
	var ends []int
	for i := 0; i < n; i++ {
		if i%1000 == 7 {
			b = append(b, 'M', 'T', 'r', 'k', 0, 0, 0, 8, 0x00, 0x90, byte(i>>9)&0x7F, 0x40, 0x00, 0xFF, 0x2F, 0x00)
		} else {
			b = append(b, 'M', 'T', 'r', 'k', 0, 0, 0, 4, 0x00, 0xFF, 0x2F, 0x00)
		}
		ends = append(ends, len(b))
	}
	judge := func(data []byte, whole bool, what string) {
		var s *smf.SMF
		var err error
		if p := try(func() { s, err = smf.ReadFrom(bytes.NewReader(data)) }); p != "" {
			v.Oracle = append(v.Oracle, fmt.Sprintf("ReadFrom panicked on %s of a well-formed file of %d tracks: %s", what, n, short(p)))
			return
		}
		if whole {
			if err != nil || s == nil || len(s.Tracks) != n {
				got := -1
				if s != nil {
					got = len(s.Tracks)
				}
				v.Oracle = append(v.Oracle, fmt.Sprintf("a well-formed file of %d tracks reads as error %v with %d tracks", n, err, got))
				return
			}
			for i, tr := range s.Tracks {
				want := 1
				if i%1000 == 7 {
					want = 2
				}
				if len(tr) != want {
					v.Oracle = append(v.Oracle, fmt.Sprintf("file of %d tracks: track %d has %d events, the file has %d there", n, i, len(tr), want))
					return
				}
			}
		}
	}
	judge(b, true, "the whole")
	if len(v.Oracle) > 0 {
		return
	}
	for _, k := range []int{n / 2, 32767, 32768, 32769, n - 1} {
		if k >= 1 && k < n {
			judge(b[:ends[k-1]], false, fmt.Sprintf("the first %d chunks", k))
			judge(b[:ends[k-1]+9], false, fmt.Sprintf("the first %d chunks and 9 bytes", k))
		}
	}
}
