import Proofs.LiveInv
/-!
# Live decoder: the receiver rules (C06) — helper lemmas
-/
namespace Midi.Live
open Midi

/-! ## the listener level -/

theorem mem_listenFrames (c : Cfg) (frames : List Frame) (m : Option Bytes × Int) :
    m ∈ listenFrames c frames ↔ ∃ f ∈ frames, keep c f = true ∧ retype f.1 = some m.1 ∧ f.2 = m.2 := by
  simp only [listenFrames, List.mem_filterMap, List.mem_filter, Option.map_eq_some_iff]
  constructor
  · rintro ⟨f, ⟨hf, hk⟩, a, ha, rfl⟩
    exact ⟨f, hf, hk, ha, rfl⟩
  · rintro ⟨f, hf, hk, ha, ht⟩
    exact ⟨f, ⟨hf, hk⟩, m.1, ha, by rw [ht]⟩

/-- every message the listener gets from well-formed frames is a well-formed message (never the panic marker) -/
theorem listenFrames_wf (c : Cfg) (frames : List Frame) (h : ∀ f ∈ frames, WfFrame c f) :
    ∀ m ∈ listenFrames c frames, ∃ bs, m.1 = some bs ∧ WellFormedMsg c bs := by
  intro m hm
  obtain ⟨f, hf, _, hr, _⟩ := (mem_listenFrames c frames m).mp hm
  rcases retype_wf c f (h f hf) with ⟨_, hn⟩ | ⟨_, bs, hbs, hw, _⟩
  · rw [hn] at hr; cases hr
  · rw [hbs] at hr
    exact ⟨bs, (Option.some.inj hr).symm, hw⟩

/-! ## a new status byte abandons whatever was in progress -/

/-- the state in which nothing is in progress and no running status is set -/
def St.abandon (s : St) : St := { s with mode := .clean, status := 0, pend := none, sx := [] }

theorem cleanState_status_indep (s : St) (b st' : Nat) (hlo : 0x80 ≤ b) (hhi : b ≤ 0xF6) :
    cleanState { s with status := st' } b = cleanState s b := by
  unfold cleanState
  by_cases h0 : b = 0xF0
  · simp only [if_pos h0]
  · have h7 : ¬ b = 0xF7 := by omega
    by_cases hs : 0xF0 < b ∧ b < 0xF7
    · simp only [if_neg h0, if_neg h7, if_pos hs]
    · have hc : 0x80 ≤ b ∧ b ≤ 0xEF := by omega
      simp only [if_neg h0, if_neg h7, if_neg hs, if_pos hc]

theorem step_status (c : Cfg) (s : St) (b : Nat) (h : Inv c s) (hlo : 0x80 ≤ b) (hhi : b ≤ 0xF6) :
    step c s b = cleanState s.abandon b := by
  have hb : b < 0xF8 := by omega
  have h8 : (0x80 ≤ b) = True := by simp [hlo]
  unfold St.abandon
  cases hm : s.mode with
  | clean =>
    have hp := pend_none_of c s h (by simp [hm]) (by simp [hm])
    have hx := h.sx_other (by simp [hm])
    rw [step_clean c s b hb hm, ← cleanState_status_indep s b 0 hlo hhi]
    congr 1
    obtain ⟨m, st, ty, pe, sx, sxt, ts, pa⟩ := s
    simp only at hm hp hx; subst hm hp hx; rfl
  | unknown =>
    have hp := pend_none_of c s h (by simp [hm]) (by simp [hm])
    have hx := h.sx_other (by simp [hm])
    rw [step_unknown c s b hb hm, if_pos hlo, ← cleanState_status_indep _ b 0 hlo hhi]
    congr 1
    obtain ⟨m, st, ty, pe, sx, sxt, ts, pa⟩ := s
    simp only at hm hp hx; subst hm hp hx; rfl
  | chan =>
    have hx := h.sx_other (by simp [hm])
    rw [step_chan c s b hb hm, if_pos hlo, ← cleanState_status_indep _ b 0 hlo hhi]
    congr 1
    obtain ⟨m, st, ty, pe, sx, sxt, ts, pa⟩ := s
    simp only at hm hx; subst hm hx; rfl
  | sysc =>
    have hx := h.sx_other (by simp [hm])
    rw [step_sysc c s b hb hm, if_pos hlo, ← cleanState_status_indep _ b 0 hlo hhi]
    congr 1
    obtain ⟨m, st, ty, pe, sx, sxt, ts, pa⟩ := s
    simp only at hm hx; subst hm hx; rfl
  | sysex =>
    have hp := pend_none_of c s h (by simp [hm]) (by simp [hm])
    rw [step_sysex c s b hb hm]
    obtain ⟨m, st, ty, pe, sx, sxt, ts, pa⟩ := s
    simp only at hm hp; subst hm hp
    unfold sysexStep
    by_cases h0 : b = 0xF0
    · simp only [h0, if_true, cleanState]
    · have h7 : ¬ b = 0xF7 := by omega
      simp only [h0, h7, hlo, if_true, if_false]
      rw [← cleanState_status_indep _ b 0 hlo hhi]

/-- what `cleanState` does with a status byte `0x80..0xF6` when nothing is in progress: frames and the
    resulting mode / running status / pending byte / sysex buffer depend on the byte and the clock only -/
theorem cleanState_abandon_indep (s1 s2 : St) (b : Nat) (hlo : 0x80 ≤ b) (hhi : b ≤ 0xF6) (hts : s1.ts = s2.ts) :
    (cleanState s1.abandon b).2 = (cleanState s2.abandon b).2 ∧
    (cleanState s1.abandon b).1.mode = (cleanState s2.abandon b).1.mode ∧
    (cleanState s1.abandon b).1.status = (cleanState s2.abandon b).1.status ∧
    (cleanState s1.abandon b).1.pend = (cleanState s2.abandon b).1.pend ∧
    (cleanState s1.abandon b).1.sx = (cleanState s2.abandon b).1.sx ∧
    (cleanState s1.abandon b).1.ts = (cleanState s2.abandon b).1.ts ∧
    ((cleanState s1.abandon b).1.mode = .chan ∨ (cleanState s1.abandon b).1.mode = .sysc →
      (cleanState s1.abandon b).1.typ = (cleanState s2.abandon b).1.typ) ∧
    ((cleanState s1.abandon b).1.mode = .sysex →
      (cleanState s1.abandon b).1.sxTs = (cleanState s2.abandon b).1.sxTs) := by
  unfold cleanState St.abandon
  by_cases h0 : b = 0xF0
  · simp only [if_pos h0, hts]; simp
  · have h7 : ¬ b = 0xF7 := by omega
    by_cases hs : 0xF0 < b ∧ b < 0xF7
    · simp only [if_neg h0, if_neg h7, if_pos hs]
      by_cases h13 : b = 0xF1 ∨ b = 0xF2 ∨ b = 0xF3
      · simp only [if_pos h13, hts]; simp
      · by_cases h6 : b = 0xF6
        · simp only [if_neg h13, if_pos h6, hts]; simp
        · simp only [if_neg h13, if_neg h6, hts]; simp
    · have hc : 0x80 ≤ b ∧ b ≤ 0xEF := by omega
      simp only [if_neg h0, if_neg h7, if_neg hs, if_pos hc, hts]; simp

/-! ## single rules, from any state -/

theorem step_data_no_status (c : Cfg) (s : St) (b : Nat) (hm : s.mode = .clean) (hs : s.status = 0) (hb : b < 0x80) :
    step c s b = (s, []) := by
  rw [step_clean c s b (by omega) hm]
  have e1 : ¬ b = 0xF0 := by omega
  have e2 : ¬ b = 0xF7 := by omega
  have e3 : ¬ (0xF0 < b ∧ b < 0xF7) := by omega
  have e4 : ¬ (0x80 ≤ b ∧ b ≤ 0xEF) := by omega
  have e5 : ¬ s.status ≠ 0 := by simp [hs]
  simp only [cleanState, if_neg e1, if_neg e2, if_neg e3, if_neg e4, if_neg e5]

theorem feed_data_no_status (c : Cfg) (s : St) (ds : List Nat) (hm : s.mode = .clean) (hs : s.status = 0)
    (hds : ∀ d ∈ ds, d < 0x80) : feed c s (ds.map .byte) = (s, []) := by
  induction ds with
  | nil => rfl
  | cons d r ih =>
    have h1 := step_data_no_status c s d hm hs (hds d (by simp))
    simp only [List.map_cons, feed, stepTok, h1, List.nil_append]
    exact ih (fun x hx => hds x (by simp [hx]))

theorem step_unknown_data (c : Cfg) (s : St) (b : Nat) (hm : s.mode = .unknown) (hb : b < 0x80) :
    step c s b = (s, []) := by
  rw [step_unknown c s b (by omega) hm, if_neg (by omega)]

theorem feed_unknown_data (c : Cfg) (s : St) (ds : List Nat) (hm : s.mode = .unknown)
    (hds : ∀ d ∈ ds, d < 0x80) : feed c s (ds.map .byte) = (s, []) := by
  induction ds with
  | nil => rfl
  | cons d r ih =>
    have h1 := step_unknown_data c s d hm (hds d (by simp))
    simp only [List.map_cons, feed, stepTok, h1, List.nil_append]
    exact ih (fun x hx => hds x (by simp [hx]))

/-- F4 / F5 from any state whatsoever: nothing is emitted, the decoder waits for the next status byte -/
theorem step_undefined (c : Cfg) (s : St) (b : Nat) (hb : b = 0xF4 ∨ b = 0xF5) :
    (step c s b).2 = [] ∧ (step c s b).1.mode = .unknown ∧ (step c s b).1.status = 0 ∧ (step c s b).1.pend = none := by
  rcases hb with rfl | rfl <;> cases hm : s.mode <;>
    simp [step, hm, cleanState, sysexStep]

/-- F0 from any state whatsoever: nothing is emitted, a fresh sysex buffer is started -/
theorem step_F0 (c : Cfg) (s : St) :
    (step c s 0xF0).2 = [] ∧ (step c s 0xF0).1.mode = .sysex ∧ (step c s 0xF0).1.sx = [0xF0] ∧
    (step c s 0xF0).1.ts = s.ts := by
  cases hm : s.mode <;> simp [step, hm, cleanState, sysexStep]

/-! ## oversize sysex -/

/-- tokens between two (non-real-time) status bytes, e.g. between `F0` and `F7` of one sysex: data bytes,
    real-time bytes, clock ticks -/
def NonStatusTok : Tok → Prop
  | .byte b => b < 0x80 ∨ 0xF8 ≤ b
  | .tick _ => True

/-- number of data bytes among the tokens -/
def dataCount : List Tok → Nat
  | [] => 0
  | .byte b :: r => (if b < 0x80 then 1 else 0) + dataCount r
  | .tick _ :: r => dataCount r

/-- the real-time bytes among the tokens, in order -/
def rtBytes : List Tok → List Nat
  | [] => []
  | .byte b :: r => if 0xF8 ≤ b then b :: rtBytes r else rtBytes r
  | .tick _ :: r => rtBytes r

/-- inside a sysex whose remaining data bytes no longer fit, the buffer can only end dropped or full;
    the only frames are the interleaved real-time bytes -/
theorem feed_sysex_body (c : Cfg) (body : List Tok) (s : St) (hbody : ∀ t ∈ body, NonStatusTok t)
    (hm : s.mode = .sysex)
    (hfull : c.sysex = true → s.sx ≠ [] → c.bufSize ≤ s.sx.length + dataCount body) :
    (feed c s body).1.mode = .sysex ∧
    (c.sysex = true → (feed c s body).1.sx ≠ [] → c.bufSize ≤ (feed c s body).1.sx.length) ∧
    (feed c s body).2.map Prod.fst = (rtBytes body).map (fun r => [r]) := by
  induction body generalizing s with
  | nil => exact ⟨hm, by simpa [feed, dataCount] using hfull, rfl⟩
  | cons t r ih =>
    have hr : ∀ t ∈ r, NonStatusTok t := fun x hx => hbody x (by simp [hx])
    cases t with
    | tick d =>
      have := ih { s with ts := s.ts + d } hr hm (by simpa [dataCount] using hfull)
      simpa [feed, stepTok, rtBytes] using this
    | byte b =>
      have hb : b < 0x80 ∨ 0xF8 ≤ b := hbody (.byte b) (by simp)
      by_cases hrt : 0xF8 ≤ b
      · have h1 := step_rt c s b hrt
        have := ih s hr hm (by
          have e : ¬ b < 0x80 := by omega
          simpa [dataCount, e] using hfull)
        simp only [feed, stepTok, h1, rtBytes, if_pos hrt, List.map_cons, List.cons_append,
          List.nil_append]
        exact ⟨this.1, this.2.1, by rw [this.2.2]⟩
      · have hd : b < 0x80 := by omega
        have e0 : ¬ b = 0xF0 := by omega
        have e7 : ¬ b = 0xF7 := by omega
        have e8 : ¬ 0x80 ≤ b := by omega
        have h1 : step c s b = sysexStep c s b := step_sysex c s b (by omega) hm
        simp only [dataCount, if_pos hd] at hfull
        simp only [feed, stepTok, h1, rtBytes, if_neg hrt]
        unfold sysexStep
        simp only [if_neg e0, if_neg e7, if_neg e8]
        by_cases hc : c.sysex = true ∧ s.sx ≠ []
        · have hf := hfull hc.1 hc.2
          by_cases hl : s.sx.length < c.bufSize
          · simp only [if_pos hc, if_pos hl, List.nil_append]
            exact ih _ hr hm (fun _ _ => by
              simp only [List.length_append, List.length_cons, List.length_nil]; omega)
          · simp only [if_pos hc, if_neg hl, List.nil_append]
            exact ih _ hr hm (fun _ hne => absurd rfl hne)
        · simp only [if_neg hc, List.nil_append]
          exact ih s hr hm (fun h1 h2 => absurd ⟨h1, h2⟩ hc)

/-- `F0 body F7` with more data bytes than fit the buffer: no sysex frame, whatever the state before -/
theorem feed_oversize_sysex (c : Cfg) (s : St) (body : List Tok) (hbody : ∀ t ∈ body, NonStatusTok t)
    (hover : c.bufSize < dataCount body + 2) :
    (feed c s (.byte 0xF0 :: body ++ [.byte 0xF7])).2.map Prod.fst = (rtBytes body).map (fun r => [r]) ∧
    (feed c s (.byte 0xF0 :: body ++ [.byte 0xF7])).1.mode = .clean ∧
    (feed c s (.byte 0xF0 :: body ++ [.byte 0xF7])).1.sx = [] := by
  obtain ⟨f0, m0, x0, _⟩ := step_F0 c s
  obtain ⟨hm, hfull, hfr⟩ := feed_sysex_body c body (step c s 0xF0).1 hbody m0 (fun _ _ => by
    rw [x0]; simp only [List.length_cons, List.length_nil]; omega)
  have h7 : step c (feed c (step c s 0xF0).1 body).1 0xF7 = sysexStep c (feed c (step c s 0xF0).1 body).1 0xF7 :=
    step_sysex c _ _ (by omega) hm
  have hno : ¬ (c.sysex = true ∧ (feed c (step c s 0xF0).1 body).1.sx ≠ [] ∧
      (feed c (step c s 0xF0).1 body).1.sx.length < c.bufSize) := by
    rintro ⟨a, b, l⟩
    have := hfull a b
    omega
  simp only [feed, stepTok, f0, List.nil_append, feed_append, h7, List.append_nil]
  simp only [sysexStep, if_neg (show ¬ (0xF7 : Nat) = 0xF0 by omega), if_true, if_neg hno, List.append_nil]
  exact ⟨hfr, trivial, trivial⟩

/-! ## data bytes (with real-time bytes and ticks in between) that are ignored -/

theorem feed_unknown_body (c : Cfg) (body : List Tok) (s : St) (hbody : ∀ t ∈ body, NonStatusTok t)
    (hm : s.mode = .unknown) :
    (feed c s body).1.mode = .unknown ∧ (feed c s body).1.status = s.status ∧ (feed c s body).1.pend = s.pend ∧
    (feed c s body).2.map Prod.fst = (rtBytes body).map (fun r => [r]) := by
  induction body generalizing s with
  | nil => exact ⟨hm, rfl, rfl, rfl⟩
  | cons t r ih =>
    have hr : ∀ t ∈ r, NonStatusTok t := fun x hx => hbody x (by simp [hx])
    cases t with
    | tick d =>
      have := ih { s with ts := s.ts + d } hr hm
      simpa [feed, stepTok, rtBytes] using this
    | byte b =>
      have hb : b < 0x80 ∨ 0xF8 ≤ b := hbody (.byte b) (by simp)
      by_cases hrt : 0xF8 ≤ b
      · have h1 := step_rt c s b hrt
        have := ih s hr hm
        simp only [feed, stepTok, h1, rtBytes, if_pos hrt, List.map_cons, List.cons_append, List.nil_append]
        exact ⟨this.1, this.2.1, this.2.2.1, by rw [this.2.2.2]⟩
      · have h1 := step_unknown_data c s b hm (by omega)
        have := ih s hr hm
        simp only [feed, stepTok, h1, rtBytes, if_neg hrt, List.nil_append]
        exact this

theorem feed_no_status_body (c : Cfg) (body : List Tok) (s : St) (hbody : ∀ t ∈ body, NonStatusTok t)
    (hm : s.mode = .clean) (hs : s.status = 0) :
    (feed c s body).1.mode = .clean ∧ (feed c s body).1.status = 0 ∧ (feed c s body).1.pend = s.pend ∧
    (feed c s body).2.map Prod.fst = (rtBytes body).map (fun r => [r]) := by
  induction body generalizing s with
  | nil => exact ⟨hm, hs, rfl, rfl⟩
  | cons t r ih =>
    have hr : ∀ t ∈ r, NonStatusTok t := fun x hx => hbody x (by simp [hx])
    cases t with
    | tick d =>
      have := ih { s with ts := s.ts + d } hr hm hs
      simpa [feed, stepTok, rtBytes] using this
    | byte b =>
      have hb : b < 0x80 ∨ 0xF8 ≤ b := hbody (.byte b) (by simp)
      by_cases hrt : 0xF8 ≤ b
      · have h1 := step_rt c s b hrt
        have := ih s hr hm hs
        simp only [feed, stepTok, h1, rtBytes, if_pos hrt, List.map_cons, List.cons_append, List.nil_append]
        exact ⟨this.1, this.2.1, this.2.2.1, by rw [this.2.2.2]⟩
      · have h1 := step_data_no_status c s b hm hs (by omega)
        have := ih s hr hm hs
        simp only [feed, stepTok, h1, rtBytes, if_neg hrt, List.nil_append]
        exact this

/-! ## single-byte frames are real-time bytes of the input -/

theorem withinChan_len (s : St) (b : Nat) : ∀ f ∈ (withinChan s b).2, f.1.length = 3 := by
  unfold withinChan
  split
  · intro f hf; simp at hf; subst hf; rfl
  · split
    · split
      · intro f hf; simp at hf; subst hf; rfl
      · intro f hf; simp at hf
    · intro f hf; simp at hf

theorem cleanState_len (s : St) (b : Nat) : ∀ f ∈ (cleanState s b).2, f.1.length = 3 := by
  unfold cleanState
  split
  · intro f hf; simp at hf
  · split
    · intro f hf; simp at hf; subst hf; rfl
    · split
      · split
        · intro f hf; simp at hf
        · split
          · intro f hf; simp at hf; subst hf; rfl
          · intro f hf; simp at hf
      · split
        · intro f hf; simp at hf
        · split
          · exact withinChan_len _ b
          · intro f hf; simp at hf

theorem syscStep_len (s : St) (b : Nat) : ∀ f ∈ (syscStep s b).2, f.1.length = 3 := by
  unfold syscStep
  split
  · intro f hf; simp at hf; subst hf; rfl
  · split
    · split
      · intro f hf; simp at hf; subst hf; rfl
      · intro f hf; simp at hf
    · intro f hf; simp at hf

theorem sysexStep_len (c : Cfg) (s : St) (b : Nat) : ∀ f ∈ (sysexStep c s b).2, 2 ≤ f.1.length := by
  unfold sysexStep
  split
  · intro f hf; simp at hf
  · split
    · intro f hf
      split at hf
      · next hc =>
        simp at hf; subst hf
        have : s.sx.length ≠ 0 := fun h => hc.2.1 (List.length_eq_zero_iff.mp h)
        simp only [List.length_append, List.length_cons, List.length_nil]; omega
      · simp at hf
    · split
      · intro f hf; have := cleanState_len _ b f hf; omega
      · split
        · split <;> (intro f hf; simp at hf)
        · intro f hf; simp at hf

theorem step_len (c : Cfg) (s : St) (b : Nat) (hb : b < 0xF8) : ∀ f ∈ (step c s b).2, 2 ≤ f.1.length := by
  have h3 : ∀ l : List Frame, (∀ f ∈ l, f.1.length = 3) → ∀ f ∈ l, 2 ≤ f.1.length :=
    fun l h f hf => by have := h f hf; omega
  cases hm : s.mode with
  | sysex => rw [step_sysex c s b hb hm]; exact sysexStep_len c s b
  | clean => rw [step_clean c s b hb hm]; exact h3 _ (cleanState_len s b)
  | unknown =>
    rw [step_unknown c s b hb hm]
    split
    · exact h3 _ (cleanState_len _ b)
    · intro f hf; simp at hf
  | sysc =>
    rw [step_sysc c s b hb hm]
    split
    · exact h3 _ (cleanState_len _ b)
    · exact h3 _ (syscStep_len s b)
  | chan =>
    rw [step_chan c s b hb hm]
    split
    · exact h3 _ (cleanState_len _ b)
    · exact h3 _ (withinChan_len s b)

/-- a one-byte frame is a byte of the input (a real-time byte handed on) -/
theorem feed_single_mem (c : Cfg) (toks : List Tok) (s : St) :
    ∀ f ∈ (feed c s toks).2, ∀ r, f.1 = [r] → Tok.byte r ∈ toks := by
  induction toks generalizing s with
  | nil => intro f hf; simp [feed] at hf
  | cons t ts ih =>
    intro f hf r hr
    simp only [feed] at hf
    rcases List.mem_append.mp hf with h | h
    · cases t with
      | tick d => simp [stepTok] at h
      | byte b =>
        simp only [stepTok] at h
        by_cases hrt : 0xF8 ≤ b
        · rw [step_rt c s b hrt] at h
          simp at h; subst h
          simp only [List.cons.injEq, and_true] at hr; subst hr
          simp
        · have := step_len c s b (by omega) f h
          rw [hr] at this; simp at this
    · exact List.mem_cons_of_mem _ (ih _ f h r hr)

/-- if the input consists of bytes (`< 256`), so does every delivered message -/
theorem listen_bytes (c : Cfg) (toks : List Tok) (s : St) (hi : Inv c s) (hb : ∀ b, Tok.byte b ∈ toks → b < 256) :
    ∀ m ∈ listenFrames c (feed c s toks).2, ∀ bs, m.1 = some bs → ∀ x ∈ bs, x < 256 := by
  intro m hm bs hbs x hx
  obtain ⟨f, hf, _, hr, _⟩ := (mem_listenFrames c _ m).mp hm
  have hw := (feed_inv c toks s hi).2 f hf
  rcases retype_wf c f hw with ⟨_, hn⟩ | ⟨_, bs', hbs', hwm, hh⟩
  · rw [hn] at hr; cases hr
  · rw [hbs', hbs] at hr
    have e : bs' = bs := Option.some.inj (Option.some.inj hr)
    subst e
    rcases hwm with ⟨st, d1, d2, rfl, hs, h1, h2⟩ | ⟨st, d, rfl, hs1, hs2, h1⟩ | ⟨d, rfl, h1⟩ | ⟨d1, d2, rfl, h1, h2⟩ |
        ⟨d, rfl, h1⟩ | rfl | ⟨b, rfl, hb8⟩ | ⟨d, rfl, hd, _⟩
    · simp at hx; omega
    · simp at hx; omega
    · simp at hx; omega
    · simp at hx; omega
    · simp at hx; omega
    · simp at hx; omega
    · simp only [List.mem_cons, List.not_mem_nil, or_false] at hx; subst hx
      have hf1 : f.1 = [x] := by
        rcases hw with ⟨b', e, _⟩ | ⟨st, d1, d2, e, _, _, hst⟩ | ⟨_, d, e, _⟩
        · rw [e] at hh ⊢; simp at hh; rw [hh]
        · rw [e] at hh; simp at hh; omega
        · rw [e] at hh; simp at hh; omega
      exact hb x (feed_single_mem c toks s f hf x hf1)
    · simp at hx
      rcases hx with rfl | hx | rfl
      · omega
      · have := hd x hx; omega
      · omega

end Midi.Live
