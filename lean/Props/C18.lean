import Proofs.SysexRoland
import Proofs.SysexMmc
/-!
# C18 — checksummed and fixed-layout sysex helpers parse what they build

Model: `MidiModel/Sysex.lean` (`build`/`checksum`/`parse` = `sysex.Manufacturer.SysEx/Checksum`, `sysex.Parse`;
`GoTo.build/parse`, `Message.build/parse` = `mmc.GoTo`, `mmc.Message`; `wrap` = `midi.SysEx`).
Bytes are `Nat`s; no theorem below needs a range hypothesis on a field, and none bounds the payload
length: the `int32` sum of `Checksum` is modelled with its wrap-around and Go's truncated `%`, and the
checksum statements hold through the wrap.

Domain guards (all probed on the code): a data-set message needs at least one payload byte (`Parse`
rejects everything shorter than 11 bytes, so the 10-byte message built from an empty payload does not
parse); `Parse` returns the zero value in the field the message kind does not carry (`norm`);
`Message.SysEx` writes neither `IsResponse` nor `Data` and maps the device ids 0 and 128..255 to 127, and
`Message.Parse` reads a parameter list for commands from 0x40 on — hence device ids 1..127 and
single-byte commands below 0x40.
-/
namespace Midi.C18
open Midi Midi.Sysex

/-- the value carries nothing in the field its kind does not transmit -/
def Canonical (s : Manufacturer) : Prop :=
  if s.req then s.data = [] else (s.n0 = 0 ∧ s.n1 = 0 ∧ s.n2 = 0)

/-- data request, or data set with a non-empty payload -/
def Sendable (s : Manufacturer) : Prop := s.req = true ∨ s.data ≠ []

/-- Parsing the bytes built from a Roland-style value (data request with any size field, data set with
    any payload of at least one byte; any ids, any address) returns that value. -/
theorem roland_parse_build (s : Manufacturer) (hv : Sendable s) (hc : Canonical s) :
    parse (build s) = .ok s := by
  have h := parse_build s hv
  have hn : s.norm = s := by
    unfold Canonical at hc
    unfold Manufacturer.norm
    cases hr : s.req with
    | false => simp only [hr] at hc ⊢; obtain ⟨h0, h1, h2⟩ := hc; cases s; simp_all
    | true => simp only [hr] at hc ⊢; cases s; simp_all
  rw [hn] at h; exact h

/-- Without the canonicity hypothesis: the parse result is the value with the untransmitted field zeroed. -/
theorem roland_parse_build_norm (s : Manufacturer) (hv : Sendable s) :
    parse (build s) = .ok s.norm := parse_build s hv

/-- Layout of the built message: `midi.SysEx` framing around ids, kind byte, the summed bytes (address,
    then payload or request size) and the checksum. -/
theorem roland_layout (s : Manufacturer) :
    build s = wrap ([s.manu, s.dev, s.model, (if s.req then 0x11 else 0x12)] ++ summed s ++ [checksum s]) := by
  simp [build, wrap, summed]

/-- Address, payload (or request size) and checksum — the bytes of the built message from offset 5 up to
    the end marker — sum to zero modulo 128, and the checksum is a byte. For every payload length. -/
theorem roland_checksum_zero (s : Manufacturer) :
    (((build s).drop 5).dropLast).sum % 128 = 0 ∧
    ((build s).drop 5).dropLast = summed s ++ [checksum s] ∧ checksum s < 256 := by
  have hsp := cksumOf_spec (summed s)
  have hl : ((build s).drop 5).dropLast = summed s ++ [checksum s] := by
    have hb : build s = [0xF0, s.manu, s.dev, s.model, (if s.req then 0x11 else 0x12)] ++
        ((summed s ++ [checksum s]) ++ [0xF7]) := by simp [build, summed]
    rw [hb]
    simp only [List.cons_append, List.nil_append, List.drop_succ_cons, List.drop_zero]
    exact List.dropLast_concat
  refine ⟨?_, hl, hsp.2⟩
  rw [hl, List.sum_append]
  simpa [checksum] using hsp.1

/-- The checksum is a 7-bit data byte as long as the `int32` sum does not wrap (sum of address and payload
    below 2^31: every message shorter than 8 MB). -/
theorem roland_checksum_7bit (s : Manufacturer) (h : (summed s).sum < 2147483648) : checksum s < 128 :=
  cksumOf_lt_128 _ h

/-- Changing any single address, payload / request-size or checksum byte (position `i`, 7-bit value `b`)
    of a built message to another 7-bit value `b'` makes `Parse` fail with the checksum error — for every
    value, every payload, every position and every replacement. -/
theorem roland_corruption (s : Manufacturer) (hv : Sendable s) (i b b' : Nat)
    (hi : 5 ≤ i) (hi' : i + 2 ≤ (build s).length) (hb : (build s)[i]? = some b)
    (h7 : b < 128) (h7' : b' < 128) (hne : b' ≠ b) :
    parse ((build s).set i b') = .err .badSum := by
  cases hr : s.req with
  | true => exact corrupt_req s hr i b b' hi hi' hb h7 h7' hne
  | false =>
    have hd : s.data ≠ [] := by
      rcases hv with h | h
      · rw [hr] at h; cases h
      · exact h
    exact corrupt_set s hr hd i b b' hi hi' hb h7 h7' hne

/-- `sysex.Parse` has no index-out-of-range outcome on any byte string. -/
theorem roland_parse_no_panic (bt : Bytes) : parse bt ≠ .panic := parse_no_panic bt

/-- A locate message parses back to the value it was built from — all device ids and time codes, whatever
    the receiver held before. -/
theorem goto_parse_build (g0 v : GoTo) : GoTo.parse g0 v.build = .ok v := Sysex.goto_parse_build g0 v

/-- A plain machine-control command (device id 1..127, single-byte command below 0x40) parses back to the
    value it was built from (receiver = zero value, as after `var m mmc.Message`). -/
theorem mmc_parse_build (m : Message) (hd : 1 ≤ m.dev ∧ m.dev ≤ 127) (hc : m.cmd < 0x40)
    (hr : m.resp = false) (hdat : m.data = []) :
    Message.parse { dev := 0, cmd := 0, resp := false, data := [] } m.build = .ok m := by
  rw [msg_parse_build _ m hc]
  cases m
  simp only [Message.wireDev] at *
  subst hr hdat
  rw [if_neg (by omega)]

/-- For any receiver and any device id: the fields `SysEx` writes come back (device id as written on the
    wire), `IsResponse` is cleared, `Data` keeps the receiver's old value. -/
theorem mmc_parse_build_any (g0 m : Message) (hc : m.cmd < 0x40) :
    Message.parse g0 m.build = .ok { dev := m.wireDev, cmd := m.cmd, resp := false, data := g0.data } :=
  msg_parse_build g0 m hc

/-- Neither MMC parser has an index-out-of-range outcome on any byte string. -/
theorem mmc_parse_no_panic (g : Message) (h : GoTo) (bt : Bytes) :
    Message.parse g bt ≠ .panic ∧ GoTo.parse h bt ≠ .panic :=
  ⟨msg_parse_no_panic g bt, goto_parse_no_panic h bt⟩

/-! ## Non-vacuity: concrete instances meet the hypotheses, and the executable model computes them -/

/-- the library's `GMReset` value -/
def gmReset : Manufacturer :=
  { manu := 0x41, dev := 0x10, model := 0x42, req := false, a0 := 0x40, a1 := 0x00, a2 := 0x7F,
    data := [0x00], n0 := 0, n1 := 0, n2 := 0 }

/-- a data request (the example of the comment in `Checksum`: 40 11 00 41 63 has checksum 0B) -/
def sampleReq : Manufacturer :=
  { manu := 0x41, dev := 0x10, model := 0x42, req := true, a0 := 0x40, a1 := 0x11, a2 := 0x00,
    data := [], n0 := 0x00, n1 := 0x00, n2 := 0x24 }

example : Sendable gmReset ∧ Canonical gmReset := by
  constructor
  · right; simp [gmReset]
  · simp [Canonical, gmReset]
example : Sendable sampleReq ∧ Canonical sampleReq := by
  constructor
  · left; rfl
  · simp [Canonical, sampleReq]
example : build gmReset = [0xF0, 0x41, 0x10, 0x42, 0x12, 0x40, 0x00, 0x7F, 0x00, 0x41, 0xF7] := by decide
example : parse (build gmReset) = .ok gmReset := by decide
example : parse (build sampleReq) = .ok sampleReq := by decide
example : checksum { gmReset with a0 := 0x40, a1 := 0x11, a2 := 0x00, data := [0x41, 0x63] } = 0x0B := by decide
-- roland_checksum_zero on a non-trivial sum: 0x40 + 0x00 + 0x7F + 0x00 + 0x41 = 256
example : (((build gmReset).drop 5).dropLast).sum = 256 := by decide
-- roland_checksum_7bit: hypothesis met
example : (summed gmReset).sum < 2147483648 := by decide
-- roland_corruption: the hypotheses are met by payload position 8 (0x00 -> 0x01), by the checksum
-- position 9 (0x41 -> 0x40) and by address position 7 (0x7F -> 0x00) of the GM reset message
example : 5 ≤ 8 ∧ 8 + 2 ≤ (build gmReset).length ∧ (build gmReset)[8]? = some 0 ∧ (0:Nat) < 128 ∧ (1:Nat) < 128 ∧ (1:Nat) ≠ 0 := by
  decide
example : parse ((build gmReset).set 8 1) = .err .badSum := by decide
example : 5 ≤ 9 ∧ 9 + 2 ≤ (build gmReset).length ∧ (build gmReset)[9]? = some 0x41 ∧ (0x41:Nat) < 128 ∧ (0x40:Nat) < 128 := by
  decide
example : parse ((build gmReset).set 9 0x40) = .err .badSum := by decide
example : parse ((build gmReset).set 7 0) = .err .badSum := by decide
-- the 7-bit hypothesis is needed: 0x00 -> 0x80 in the payload keeps the sum modulo 128 and is accepted
example : parse ((build gmReset).set 8 0x80) = .ok { gmReset with data := [0x80] } := by decide
-- the payload guard is needed: the message built from an empty payload is rejected as too short
example : parse (build { gmReset with data := [] }) = .err .tooShort := by decide
-- locate and plain command instances
example : GoTo.parse ⟨0, 0, 0, 0, 0, 0⟩ (GoTo.build ⟨0x7F, 1, 2, 3, 4, 5⟩) = .ok ⟨0x7F, 1, 2, 3, 4, 5⟩ := by decide
example : (1 ≤ (5:Nat) ∧ (5:Nat) ≤ 127) ∧ (2:Nat) < 0x40 := by decide
example : Message.build ⟨5, 2, false, []⟩ = [0xF0, 0x7F, 5, 0x06, 2, 0xF7] := by decide
example : Message.parse ⟨0, 0, false, []⟩ (Message.build ⟨5, 2, false, []⟩) = .ok ⟨5, 2, false, []⟩ := by decide
-- the guards are needed: device id 0 comes back as 127; a command from 0x40 on does not parse
example : Message.parse ⟨0, 0, false, []⟩ (Message.build ⟨0, 2, false, []⟩) = .ok ⟨127, 2, false, []⟩ := by decide
example : Message.parse ⟨0, 0, false, []⟩ (Message.build ⟨5, 0x44, false, []⟩) = .err ⟨5, 0x44, false, []⟩ := by decide

end Midi.C18
