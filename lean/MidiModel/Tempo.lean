import MidiModel.Basic
/-!
# Tempo map and tick → time conversion (`v2/smf/smf.go`, `tempochanges.go`, `timeformat.go`, `track.go`)

The Go code stores each tempo change as `TempoChange{AbsTicks int64, AbsTimeMicroSec int64, BPM float64}` with
`BPM = 6e7 / u` (`u` = the 24-bit microseconds-per-quarter value of the `FF 51 03` meta event). Floats never enter
Lean: the model keeps `u` and takes the duration function

    dur u d  =  MetricTicks.duration64(6e7/u, int64 d).Microseconds()     (microseconds, for the file's resolution;
                                                                           exported `Duration` is the same on uint32)

as a *parameter*. Everything else follows the code statement by statement:

* `tempoChangeAt`  = `TempoChanges.TempoChangeAt` (loop with `break` at the first entry whose tick is larger),
* `calcAbs`        = `SMF.calculateAbsTimes` for metric time (in-place update of the entries while the *whole* slice
                     is searched with `TempoChangeAt(tc.AbsTicks-1)`; `diffTicks == 0` branch; the int64 tick difference
                     goes to `duration64` unconverted — since the repair c7c6d62 there is no `uint32(...)` any more),
* `timeAt`         = `SMF.TimeAt` (`TempoChangeAt(absTicks-1)`, 120 BPM if there is none, int64 tick difference),
* `doTrack`        = the inner loop of `TracksReader.Do` (absolute ticks and `TimeAt` per event),
* `collect`        = the tempo bookkeeping of the reader (`absTicks` per track, reset at end of track),
* `sortTc`         = `sort.Sort` on `AbsTicks` *where its result is determined*: an already non-decreasing slice is
                     left untouched (pdqsort: no swap happens), a slice with pairwise distinct ticks has exactly one
                     sorted arrangement. For an unsorted slice with repeated ticks the order of the equal entries —
                     hence the tempo that wins at that tick — is unspecified (`sort.Sort` is not stable); the model
                     refuses such an input (`sortDetermined = false`, driver answers `bad-op`) instead of guessing.

Times are `Nat` (the int64 microsecond values stay far below 2^63 on the horizon the driver accepts, see `handle`).
The rational reference of `dur` that the driver executes is `durRef` (`roundDiv` to nanoseconds like `math.Round`,
then the truncating `Duration.Microseconds()`).
-/
namespace Midi.Tempo

/-- one entry of `SMF.tempoChanges`; `u` = microseconds per quarter note (`BPM = 6e7/u` in the Go code) -/
structure Tc where
  tick : Nat
  time : Nat
  u : Nat
deriving Repr, DecidableEq

/-- 120 BPM -/
def defaultU : Nat := 500000

/-- tick count handed to `duration64` (an int64). A difference the code computes is negative only if the slice is not
    non-decreasing (`calcLoop`; never in `timeAt`, where the entry found has a tick `≤ absTicks-1`); `finish` sorts
    first (`sortTc_sorted`), so no op the driver accepts reaches a negative difference — the model does not claim
    anything about the (then negative) duration the Go code would produce there. -/
def tk (x : Int) : Nat := x.toNat

/-- loop of `TempoChangeAt`: `for _, tc := range t { if tc.AbsTicks > absTicks { break }; tch = tc }` -/
def tcaLoop : List Tc → Int → Option Tc → Option Tc
  | [], _, acc => acc
  | tc :: r, t, acc => if (tc.tick : Int) > t then acc else tcaLoop r t (some tc)

/-- `TempoChanges.TempoChangeAt(absTicks)` (`none` = nil) -/
def tempoChangeAt (l : List Tc) (t : Int) : Option Tc := tcaLoop l t none

/-- `TempoChanges.TempoAt(absTicks)` as microseconds per quarter (120 BPM = 500000 if there is no change) -/
def tempoAt (l : List Tc) (t : Int) : Nat :=
  match tempoChangeAt l t with
  | none => defaultU
  | some tc => tc.u

/-- loop of `calculateAbsTimes`: `pre` = entries already visited (their time is final), second list = entries still
    to visit; the lookups see the whole slice `pre ++ tc :: rest` (entries not yet visited still have time 0). -/
def calcLoop (dur : Nat → Nat → Nat) : List Tc → List Tc → Nat → Nat → List Tc
  | pre, [], _, _ => pre
  | pre, tc :: rest, lastTick, lastTime =>
    let diff : Int := (tc.tick : Int) - lastTick
    if diff = 0 then
      calcLoop dur (pre ++ [{ tc with time := lastTime }]) rest lastTick lastTime
    else
      let whole := pre ++ tc :: rest
      let prevTime := match tempoChangeAt whole ((tc.tick : Int) - 1) with
        | some p => p.time
        | none => 0
      let prevU := tempoAt whole ((tc.tick : Int) - 1)
      let tm := prevTime + dur prevU (tk diff)
      calcLoop dur (pre ++ [{ tc with time := tm }]) rest tc.tick tm

/-- `calculateAbsTimes` on the (sorted) slice -/
def calcAbs (dur : Nat → Nat → Nat) (l : List Tc) : List Tc := calcLoop dur [] l 0 0

/-- `SMF.TimeAt(absTicks)` on the finished tempo changes -/
def timeAt (dur : Nat → Nat → Nat) (l : List Tc) (t : Nat) : Nat :=
  match tempoChangeAt l ((t : Int) - 1) with
  | none => dur defaultU (tk t)
  | some p => p.time + dur p.u (tk ((t : Int) - p.tick))

/-- a tempo map as collected by the reader: (absolute tick, microseconds per quarter) in collection order -/
abbrev Map := List (Nat × Nat)

def ofMap (m : Map) : List Tc := m.map fun p => { tick := p.1, time := 0, u := p.2 }

/-! ### `sort.Sort(s.tempoChanges)` -/

def isSorted : Map → Bool
  | [] => true
  | [_] => true
  | a :: b :: r => a.1 ≤ b.1 && isSorted (b :: r)

def distinctTicks : Map → Bool
  | [] => true
  | a :: r => r.all (fun b => b.1 ≠ a.1) && distinctTicks r

/-- the result of `sort.Sort` is determined by the input (see the module comment) -/
def sortDetermined (m : Map) : Bool := isSorted m || distinctTicks m

def insertTc (a : Nat × Nat) : Map → Map
  | [] => [a]
  | b :: r => if a.1 ≤ b.1 then a :: b :: r else b :: insertTc a r

/-- insertion sort by tick (stable). Only meaningful under `sortDetermined`. -/
def sortTc : Map → Map
  | [] => []
  | a :: r => insertTc a (sortTc r)

/-- `finishTempoChanges`: sort, then `calculateAbsTimes` -/
def finish (dur : Nat → Nat → Nat) (m : Map) : List Tc := calcAbs dur (ofMap (sortTc m))

/-! ### reader bookkeeping and `TracksReader.Do` -/

/-- event of a track as far as timing is concerned: delta and, for a tempo event, its `u` -/
structure TEv where
  delta : Nat
  tempo : Option Nat
  eot : Bool
deriving Repr, DecidableEq

/-- tempo changes of one track: `absTicks += delta` for every event but the end of track -/
def collectTrack : List TEv → Nat → Map
  | [], _ => []
  | e :: r, abs =>
    if e.eot then collectTrack r 0
    else
      let abs' := abs + e.delta
      match e.tempo with
      | some u => (abs', u) :: collectTrack r abs'
      | none => collectTrack r abs'

/-- the reader's `tempoChanges` in collection order (tracks in file order; `absTicks = 0` after each end of track) -/
def collect (tracks : List (List TEv)) : Map := (tracks.map fun t => collectTrack t 0).flatten

/-- inner loop of `TracksReader.Do` for one track: `(AbsTicks, AbsMicroSeconds)` of every event -/
def doTrack (dur : Nat → Nat → Nat) (l : List Tc) : List Nat → Nat → List (Nat × Nat)
  | [], _ => []
  | d :: r, abs =>
    let a := abs + d
    (a, timeAt dur l a) :: doTrack dur l r a

/-! ### exact integral of the tempo map (specification side, no `dur`) -/

/-- numerator (denominator = resolution `q`) of the exact time between tick `a` and tick `t` when the tempo in force
    at `a` is `lu` and `r` holds the later changes: sum of `u * ticks` over the segments -/
def exactFrom : Nat → Nat → Map → Nat → Nat
  | a, lu, [], t => lu * (t - a)
  | a, lu, (τ, u) :: r, t =>
    if t ≤ τ then lu * (t - a)
    else lu * (τ - a) + exactFrom τ u r t

/-- numerator of the exact time of tick `t` in microseconds times `q` -/
def exactNum (m : Map) (t : Nat) : Nat := exactFrom 0 defaultU m t

/-- number of tempo segments completed before tick `t`: entries below `t` whose tick differs from the previous one
    (`a` = previous tick, 0 at the start) -/
def segFrom : Nat → Map → Nat → Nat
  | _, [], _ => 0
  | a, (τ, _) :: r, t =>
    if t ≤ τ then 0 else (if τ = a then 0 else 1) + segFrom τ r t

def segments (m : Map) (t : Nat) : Nat := segFrom 0 m t

/-! ### rational reference of the float code -/

/-- `math.Round` of the non-negative rational `n/d` (half away from zero), `d > 0` -/
def roundDiv (n d : Nat) : Nat := (2 * n + d) / (2 * d)

/-- `MetricTicks.Duration(6e7/u, d)` in nanoseconds, exact arithmetic: `round(1000·u·d / q)` -/
def durNsRef (q u d : Nat) : Nat := roundDiv (1000 * u * d) q

/-- `…Duration(…).Microseconds()`: truncating division of the nanoseconds -/
def durRef (q u d : Nat) : Nat := durNsRef q u d / 1000

/-- `MetricTicks.Ticks(6e7/u, D ns)`, exact arithmetic: `round(D·q / (1000·u))` -/
def ticksRef (q u D : Nat) : Nat := roundDiv (q * D) (1000 * u)

/-- `MetricTicks(q)` with the documented alias `0 = 960` -/
def effQ (q : Nat) : Nat := if q = 0 then 960 else q

/-- The float64 result of `Duration` may differ from `durRef` only where the exact nanosecond value lies within the
    float error (relative 2^-50, generous) of a rounding tie `1000·j − 1/2` that decides the microsecond. -/
def nearTie (q u d : Nat) : Bool :=
  let n := 1000 * u * d
  let r := (2 * n + q) % (2000 * q)
  let dist := min r (2000 * q - r)
  dist * 1125899906842624 ≤ 2 * n

/-- number of `dur` calls on the way to `timeAt t` that are near a tie (tolerance of the model/implementation
    comparison), same recursion as `exactFrom` -/
def slackFrom (q : Nat) : Nat → Nat → Map → Nat → Nat
  | a, lu, [], t => if nearTie q lu (t - a) then 1 else 0
  | a, lu, (τ, u) :: r, t =>
    if t ≤ τ then (if nearTie q lu (t - a) then 1 else 0)
    else (if nearTie q lu (τ - a) then 1 else 0) + slackFrom q τ u r t

/-! ### line protocol -/

def parseNatList (s : String) : Option (List Nat) :=
  if s = "-" then some [] else (s.splitOn ",").mapM String.toNat?

def parseTEv (s : String) : Option TEv :=
  match s.splitOn ":" with
  | [d, "n"] => d.toNat?.map fun δ => ⟨δ, none, false⟩
  | [d, "e"] => d.toNat?.map fun δ => ⟨δ, none, true⟩
  | [d, u] => do pure ⟨← d.toNat?, some (← u.toNat?), false⟩
  | _ => none

def parseTrack (s : String) : Option (List TEv) :=
  if s = "-" then some [] else (s.splitOn ",").mapM parseTEv

def parseTracks (s : String) : Option (List (List TEv)) := (s.splitOn "|").mapM parseTrack

def showNats (l : List Nat) : String :=
  if l.isEmpty then "-" else ",".intercalate (l.map toString)

def showDo (l : List (Nat × Nat)) : String :=
  if l.isEmpty then "-" else ",".intercalate (l.map fun p => s!"{p.1}:{p.2}")

/-- the track ends with its end-of-track event and has no other one (what `Track.Close` produces) -/
def trackShapeOK : List TEv → Bool
  | [] => false
  | [e] => e.eot
  | e :: r => !e.eot && trackShapeOK r

/-- largest absolute tick the op speaks about -/
def maxTick (tracks : List (List TEv)) (ts : List Nat) : Nat :=
  let tt := tracks.map fun t => (t.map (·.delta)).foldl (· + ·) 0
  (tt ++ ts).foldl max 0

--@driver tempo. Tempo.handle
/-- line protocol.
    `tempo.file q=<res> trk=<d>:<u|n|e>,…|… ts=<tick>,…` answers the sorted map, per query tick the reference time,
    exact numerator, segment count and near-tie slack, and the `Do` times per track;
    `tempo.dur q= u= d=<d>,…` the reference microseconds and near-tie flags; `tempo.inv q= u= n=<n>,…` the reference
    nanoseconds and the ticks recovered from them. -/
def handle (op : String) (args : List String) : String :=
  match op with
  | "tempo.file" =>
    match natField "q" args, (field "trk" args).bind parseTracks, (field "ts" args).bind parseNatList with
    | some q0, some tracks, some ts =>
      let q := effQ q0
      let m := collect tracks
      if q0 ≥ 32768 || !(tracks.all trackShapeOK) || !(sortDetermined m) then "bad-op"
      -- keeps every int64 nanosecond / microsecond value of the Go code below 2^62
      else if m.any (fun p => p.2 ≥ 16777216) ||
          1000 * exactNum (sortTc m) (maxTick tracks ts) ≥ 4611686018427387904 * q then "bad-op"
      else
        let sm := sortTc m
        let fin := finish (durRef q) m
        let ref := ts.map (timeAt (durRef q) fin)
        let ex := ts.map (exactNum sm)
        let sg := ts.map (segments sm)
        let sl := ts.map (slackFrom q 0 defaultU sm)
        let dos := tracks.map fun t => showDo (doTrack (durRef q) fin (t.map (·.delta)) 0)
        let mp := if sm.isEmpty then "-" else ",".intercalate (sm.map fun p => s!"{p.1}:{p.2}")
        let tcs := if fin.isEmpty then "-" else ",".intercalate (fin.map fun c => s!"{c.tick}:{c.time}")
        s!"r=ok q={q} map={mp} tc={tcs} ref={showNats ref} ex={showNats ex} seg={showNats sg} sl={showNats sl} do={"|".intercalate dos}"
    | _, _, _ => "bad-op"
  | "tempo.dur" =>
    match natField "q" args, natField "u" args, (field "d" args).bind parseNatList with
    | some q0, some u, some ds =>
      let q := effQ q0
      if q0 ≥ 32768 || u ≥ 16777216 || ds.any (fun d => 1000 * u * d ≥ 4611686018427387904 * q || d ≥ 4611686018427387904) then "bad-op"
      else
        let us := ds.map (durRef q u)
        let nt := ds.map fun d => if nearTie q u d then 1 else 0
        s!"r=ok us={showNats us} near={showNats nt}"
    | _, _, _ => "bad-op"
  | "tempo.inv" =>
    match natField "q" args, natField "u" args, (field "n" args).bind parseNatList with
    | some q0, some u, some ns =>
      let q := effQ q0
      if q0 ≥ 32768 || u = 0 || u ≥ 16777216 || ns.any (· ≥ 4294967296) then "bad-op"
      else
        let dn := ns.map (durNsRef q u)
        let back := dn.map (ticksRef q u)
        s!"r=ok ns={showNats dn} ticks={showNats back}"
    | _, _, _ => "bad-op"
  | _ => "bad-op"

end Midi.Tempo
