import MidiModel.Msg
import MidiModel.Generated.SmfMetaGo
import Props.C08_Code
/-!
# C08, tie to the source: the SMF-level classification — `smf.Message.Type`, `smf.getType`, `IsMeta`, `getMetaType`
with the `metaMessages` table, `smf.Message.Is` (`smf/message.go`, `smf/meta.go`) — as translated by `tools/go2lean` on
every run is the model's `smfGetType` / `msgIs .smf`, for every byte string and every type code.
-/
open Midi Midi.Go Midi.Msg
set_option linter.unusedSimpArgs false
set_option linter.unusedVariables false
namespace Midi.C08

theorem metaType_fin : ∀ c : Fin 256, smf.getMetaType c.val = getMetaType c.val := by decide +kernel

theorem code_getMetaType (c : Nat) : smf.getMetaType c = getMetaType c := by
  by_cases h : c < 256
  · exact metaType_fin ⟨c, h⟩
  · have hne : c ≠ 47 ∧ c ≠ 0 ∧ c ≠ 1 ∧ c ≠ 2 ∧ c ≠ 3 ∧ c ≠ 4 ∧ c ≠ 5 ∧ c ≠ 6 ∧ c ≠ 7 ∧ c ≠ 32 ∧ c ≠ 9 ∧ c ≠ 33 ∧ c ≠ 81 ∧ c ≠ 88 ∧
        c ≠ 89 ∧ c ≠ 84 ∧ c ≠ 127 ∧ c ≠ 8 := by omega
    unfold smf.getMetaType smf.metaMessages getMetaType metaMessages
    simp [hne, Id.run]; rfl

/-- `smf.Message.Type()` (through `smf.getType`, `IsMeta`, `getMetaType`) is the model's `smfGetType`, for every byte string -/
theorem code_smf_Type (m : Bytes) : ∃ t, smfGetType m = some t ∧ smf.Message.Type' m = .ok t := by
  unfold smf.Message.Type' smf.getType smf.Message.IsMeta smfGetType smfIsMeta
  rcases m with _ | ⟨b, _ | ⟨c, r⟩⟩
  · exact ⟨0, rfl, rfl⟩
  · by_cases hb : b = 255
    · subst hb; exact ⟨0, by simp [UnknownMsg], by simp [bind, Except.bind, pure, Except.pure, Go.idx]⟩
    · obtain ⟨t, h1, h2⟩ := code_Type [b]
      exact ⟨t, by simp [hb, h2], by simp [bind, Except.bind, pure, Except.pure, Go.idx, hb, h1]⟩
  · have n0 : ¬ ((r.length : Int) + 1 + 1 = 0) := by omega
    have n1 : ¬ ((r.length : Int) + 1 + 1 = 1) := by omega
    by_cases hb : b = 255
    · subst hb
      exact ⟨getMetaType c, by simp, by simp [bind, Except.bind, pure, Except.pure, Go.idx, n0, n1, code_getMetaType]⟩
    · obtain ⟨t, h1, h2⟩ := code_Type (b :: c :: r)
      exact ⟨t, by simp [hb, h2], by simp [bind, Except.bind, pure, Except.pure, Go.idx, hb, h1, n0, n1]⟩

/-- `smf.Message.Is(t)` = the model's `msgIs` in the smf view, every byte string, every type code -/
theorem code_smf_Is (m : Bytes) (c : Int) : ∃ b, msgIs .smf m c = some b ∧ smf.Message.Is m c = .ok b := by
  obtain ⟨t, h1, h2⟩ := code_smf_Type m
  refine ⟨typeIs t c, by simp [msgIs, typeOf, h1], ?_⟩
  unfold smf.Message.Is
  simp [h2, bind, Except.bind, pure, Except.pure, code_Type_Is]

/-- `smf.Message.IsOneOf(checkers...)` -/
theorem code_smf_IsOneOf (m : Bytes) (cs : List Int) :
    ∃ b, isOneOf .smf m cs = some b ∧ smf.Message.IsOneOf m cs = .ok b := by
  unfold smf.Message.IsOneOf
  induction cs with
  | nil => exact ⟨false, rfl, rfl⟩
  | cons c r ih =>
    obtain ⟨b, hb, hr⟩ := ih
    obtain ⟨x, hm, h2⟩ := code_smf_Is m c
    simp only [List.forIn_cons] at hr ⊢
    cases x
    · refine ⟨b, by simp [isOneOf, hm, hb], ?_⟩
      simp only [h2, bind, Except.bind, pure, Except.pure] at hr ⊢
      simpa using hr
    · refine ⟨true, by simp [isOneOf, hm], ?_⟩
      simp [h2, bind, Except.bind, pure, Except.pure]

end Midi.C08
