package main

import (
	"bytes"
	"fmt"
	"strings"

	"gitlab.com/gomidi/midi/v2/smf"
)

// C01: write/read round trip is the identity on content.
func init() {
	register(&Prop{
		ID: "C01",
		Rule: "API histories (New/NewSMF1/NewSMF2, Track.Add single+multi, Track.Close early/late/omitted, SMF.Add) " +
			"from the seeded PRNG, biased to VLQ boundaries, running-status positions, long payloads, SMPTE divisions; " +
			"non-trivial = at least one message was added; distinct by op text",
		Gen: func(r *Rng, tier string, emit func(Case)) {
			n := 1500
			if tier == "thorough" {
				n = 40000
			}
			for i := 0; i < n; i++ {
				h := genHistory(r, tier, true)
				tags, nt := histTags(h)
				emit(Case{Op: h.String(), Tags: tags, NonTrivial: nt})
			}
			// tracks whose chunk body crosses 2^16 bytes (thorough: also a multiple of it and 2^17)
			bodies := []int{65530, 70000}
			if tier == "thorough" {
				bodies = []int{65400, 65530, 65600, 70000, 131072, 200000}
			}
			for _, b := range bodies {
				emit(Case{Op: bigTrackHistory(r, b).String(), Tags: []string{"chunk-body>=2^16"}, NonTrivial: true})
			}
			// one file with more than 32767 tracks (the reader's track counter must not wrap); judged by the
			// oracle only: the list-based model is quadratic in the number of tracks
			nt := 33000
			if tier == "thorough" {
				nt = 65535
			}
			emit(Case{Op: fmt.Sprintf("c01.manytracks n=%d", nt), Tags: []string{">32767-tracks"}, NonTrivial: true})
		},
		Run: runC01,
	})
}

var c01Prev *smf.SMF
var c01PrevShown string

func runC01(c Case, m *Model) (v Verdict) {
	if strings.HasPrefix(c.Op, "c01.manytracks") {
		var n int
		fmt.Sscanf(fields(c.Op)["n"], "%d", &n)
		s := smf.NewSMF1()
		s.TimeFormat = smf.MetricTicks(96)
		for i := 0; i < n; i++ {
			var t smf.Track
			if i%1000 == 0 {
				t.Add(uint32(i), []byte{0x90, byte(i % 128), 1})
			}
			t.Close(0)
			s.Add(t)
		}
		var w bytes.Buffer
		if p := try(func() {
			if _, err := s.WriteTo(&w); err != nil {
				panic(err)
			}
		}); p != "" {
			v.Oracle = append(v.Oracle, "writing "+c.Op+": "+p)
			return
		}
		if rb := readClass(w.Bytes()); rb != "ok:"+showSMF(s) {
			v.Oracle = append(v.Oracle, fmt.Sprintf("a file with %d tracks does not read back to what was written: %s", n, short(rb)))
		}
		return
	}
	h, _ := parseHistory(c.Op)
	mf := fields(m.Ask(c.Op))
	// implementation
	var s *smf.SMF
	var w bytes.Buffer
	var werr error
	if p := try(func() {
		s = h.build()
		_, werr = s.WriteTo(&w)
	}); p != "" {
		v.Oracle = append(v.Oracle, "panic while building/writing: "+p)
		return
	}
	implErr := "0"
	if werr != nil {
		implErr = "1"
	}
	built := showSMF(s)
	if mf["built"] != built {
		v.Mismatch = append(v.Mismatch, "built value differs: model "+short(mf["built"])+" impl "+short(built))
	}
	if mf["err"] != implErr {
		v.Mismatch = append(v.Mismatch, "write error class differs: model "+mf["err"]+" impl "+implErr)
	}
	if werr != nil {
		v.Tags = append(v.Tags, "write-error")
		return
	}
	// property oracle: read back == what was written
	rb := readClass(w.Bytes())
	if rb != "ok:"+built {
		v.Oracle = append(v.Oracle, "read-back differs from the written value: wrote "+short(built)+" read "+short(rb))
	}
	// the value read back is a full citizen: written again (same running-status setting) it gives the same bytes, and
	// it keeps its content while the library reads and writes other files (checked at the next case)
	if c01Prev != nil {
		if now := showSMF(c01Prev); now != c01PrevShown {
			v.Oracle = append(v.Oracle, "a value returned by an earlier ReadFrom changed while the library was used again: was "+short(c01PrevShown)+" now "+short(now))
		}
		c01Prev = nil
	}
	if rb == "ok:"+built {
		var s2 *smf.SMF
		var w2 bytes.Buffer
		var e2 error
		if p := try(func() {
			s2, e2 = smf.ReadFrom(bytes.NewReader(w.Bytes()))
			if e2 == nil {
				s2.NoRunningStatus = s.NoRunningStatus
				_, e2 = s2.WriteTo(&w2)
			}
		}); p != "" {
			v.Oracle = append(v.Oracle, "panic while writing the value that was read back: "+p)
		} else if e2 != nil {
			v.Oracle = append(v.Oracle, "the value that was read back cannot be written: "+e2.Error())
		} else if !bytes.Equal(w2.Bytes(), w.Bytes()) {
			v.Oracle = append(v.Oracle, fmt.Sprintf("writing the value that was read back gives other bytes (first difference at %d of %d/%d)", firstDiff(w2.Bytes(), w.Bytes()), w2.Len(), w.Len()))
		} else {
			c01Prev, c01PrevShown = s2, showSMF(s2)
		}
	}
	// tie (content only): model reader on the implementation's bytes, implementation reader on the model's bytes
	if mr := fields(m.Ask("smf.read " + hx(w.Bytes())))["r"]; mr != rb {
		v.Mismatch = append(v.Mismatch, "model reader on implementation bytes: model "+short(mr)+" impl "+short(rb))
	}
	if mw := mf["w"]; mw != "" && mw != hx(w.Bytes()) {
		if ir := readClass(unhx(mw)); ir != mf["rb"] {
			v.Mismatch = append(v.Mismatch, "implementation reader on model bytes: model "+short(mf["rb"])+" impl "+short(ir))
		}
	} else if mf["rb"] != rb {
		v.Mismatch = append(v.Mismatch, "read-back differs: model "+short(mf["rb"])+" impl "+short(rb))
	}
	return
}
