package main

// C08: classification is total, unambiguous and consistent with the accessors, for midi.Message and
// smf.Message, on arbitrary byte strings.
//
// ops:  msg.cls <hex>        one byte string: signature of everything both message types answer
//       msg.clsblk <hex>     the 256 one-byte extensions of the prefix; the model answers an FNV-1a hash
//       msg.isrow <t>        Type(t).Is(c) for all c in int8
//       msg.oneof <view> <hex> <c1,c2,..>   IsOneOf with an arbitrary checker list
//       msg.alloc <hex>      smf.Message.String(): branch and the allocation the length-prefixed reads request
// oracle: partition / uniqueness / consistency computed on the implementation's own answers (no model
// involved), the MIDI 1.0 category of the status byte, and "no panic"; tie: signatures against the model.

import (
	"bytes"
	"fmt"
	"runtime"
	"strconv"
	"strings"

	"gitlab.com/gomidi/midi/v2"
	"gitlab.com/gomidi/midi/v2/smf"
)

func init() {
	register(&Prop{
		ID: "C08",
		Rule: "byte strings: quick = every string of length 0..2 (blocks of 256), length 3 with every status byte x boundary second bytes and " +
			"every FF xx prefix (blocks), random longer strings biased to status bytes / sysex / meta framing, metas built by the smf constructors and " +
			"read back by smf.ReadFrom, their truncations / extensions / byte flips, VLQ length fields up to 2^32-1, the full Type.Is table; " +
			"thorough = all 65536 two-byte prefixes x 256 (every string of length <= 3) plus 10^5 longer strings; " +
			"non-trivial = the string is non-empty (a block always is); distinct by op text",
		Gen: genC08,
		Run: runC08,
	})
}

func genC08(r *Rng, tier string, emit func(Case)) {
	cls := func(b []byte, tags ...string) {
		emit(Case{Op: "msg.cls " + hx(b), Tags: append([]string{"string", fmt.Sprintf("len%s", lenClass(len(b)))}, tags...), NonTrivial: len(b) > 0})
	}
	blk := func(b []byte, tags ...string) {
		emit(Case{Op: "msg.clsblk " + hx(b), Tags: append([]string{"block", fmt.Sprintf("blocklen%d", len(b)+1)}, tags...), NonTrivial: true})
	}
	// the Type.Is table
	for t := -128; t <= 127; t++ {
		emit(Case{Op: fmt.Sprintf("msg.isrow %d", t), Tags: []string{"isrow"}, NonTrivial: true})
	}
	// all strings of length 0, 1, 2
	cls(nil)
	blk(nil)
	for b := 0; b < 256; b++ {
		blk([]byte{byte(b)})
	}
	if tier == "thorough" {
		// every string of length 3: one op per first byte, 256 block hashes each
		for a := 0; a < 256; a++ {
			emit(Case{Op: "msg.clsblk2 " + hx([]byte{byte(a)}), Tags: []string{"block2", "65536-strings-of-length-3"}, NonTrivial: true})
		}
	} else {
		// structured length 3: every status byte x boundary data, every FF xx, some data-byte prefixes
		for s := 0x80; s < 0x100; s++ {
			for _, d := range []int{0, 1, 0x3F, 0x40, 0x7F, 0x80, 0xF7, 0xFF} {
				blk([]byte{byte(s), byte(d)}, "status-prefix")
			}
		}
		for x := 0; x < 256; x++ {
			blk([]byte{0xFF, byte(x)}, "meta-prefix")
		}
		for i := 0; i < 300; i++ {
			blk([]byte{r.Byte(), r.Byte()}, "random-prefix")
		}
	}
	// longer strings
	n := 6000
	if tier == "thorough" {
		n = 100000
	}
	metas := metaSamples(r)
	for i := 0; i < n; i++ {
		switch r.Intn(10) {
		case 0, 1: // random bytes behind a status byte
			b := r.Bytes(r.Range(3, 12))
			b[0] |= 0x80
			cls(b, "status+random")
		case 2: // any bytes
			cls(r.Bytes(r.Range(3, 9)), "random")
		case 3: // sysex shapes
			b := append([]byte{0xF0}, r.Bytes(r.Pick(0, 1, 2, 3, 10, 200))...)
			for j := 1; j < len(b); j++ {
				if r.Chance(9, 10) {
					b[j] &= 0x7F
				}
			}
			if r.Chance(3, 4) {
				b = append(b, 0xF7)
			}
			if r.Chance(1, 8) {
				b[0] = 0xF7
			}
			cls(b, "sysex-shape")
		case 4, 5: // a constructor- or reader-produced meta
			cls(metas[r.Intn(len(metas))], "meta-valid")
		case 6, 7: // mutated meta: truncate, extend, flip, retarget the type byte, edit the length
			b := append([]byte(nil), metas[r.Intn(len(metas))]...)
			switch r.Intn(5) {
			case 0:
				b = b[:r.Intn(len(b)+1)]
			case 1:
				b = append(b, r.Bytes(r.Range(1, 4))...)
			case 2:
				b[r.Intn(len(b))] ^= 1 << uint(r.Intn(8))
			case 3:
				if len(b) > 1 {
					b[1] = byte(r.Pick(0x00, 0x01, 0x02, 0x03, 0x04, 0x05, 0x06, 0x07, 0x08, 0x09, 0x20, 0x21, 0x2F, 0x51, 0x54, 0x58, 0x59, 0x7F, 0x0A, 0x60))
				}
			case 4:
				if len(b) > 2 {
					b[2] = byte(r.Pick(0, 1, 2, 3, 4, 5, 0x7F, 0x80, 0x81, 0xFF))
				}
			}
			if len(b) > 300 {
				b = b[:300]
			}
			cls(b, "meta-mutated")
		case 8: // meta frame with an arbitrary VLQ length field
			b := []byte{0xFF, byte(r.Pick(0x01, 0x03, 0x05, 0x7F, 0x7F, 0x51, 0x00, 0x58, 0x2F, 0x33))}
			for k := r.Intn(6); k > 0; k-- {
				b = append(b, r.Byte()|0x80)
			}
			if r.Chance(7, 8) {
				b = append(b, r.Byte()&0x7F)
			}
			b = append(b, r.Bytes(r.Pick(0, 1, 2, 3, 5, 8, 130))...)
			cls(b, "meta-vlq")
		case 9: // channel / system-common message with a wrong number of data bytes
			st := byte(r.Pick(0x80, 0x90, 0xA0, 0xB0, 0xC0, 0xD0, 0xE0)) | byte(r.Intn(16))
			if r.Chance(1, 4) {
				st = byte(r.Pick(0xF1, 0xF2, 0xF3, 0xF4, 0xF5, 0xF6, 0xF8, 0xF9, 0xFD, 0xFE))
			}
			b := append([]byte{st}, r.Bytes(r.Range(3, 5))...)
			cls(b, "wrong-length")
		}
	}
	// String() on metas whose length field asks for far more than is there (and for exactly what is there)
	for _, b := range [][]byte{
		{0xFF, 0x01, 0x8F, 0xFF, 0xFF, 0xFF, 0x7F}, {0xFF, 0x7F, 0x8F, 0xFF, 0xFF, 0xFF, 0x7F}, {0xFF, 0x03, 0xFF, 0xFF, 0xFF, 0x7F, 0x41},
		{0xFF, 0x05, 0x9F, 0x7F}, {0xFF, 0x7F, 0xA0, 0x00}, {0xFF, 0x06, 0xA0, 0x01, 0x41}, {0xFF, 0x01, 0x80}, {0xFF, 0x7F, 0x80, 0x80},
	} {
		emit(Case{Op: "msg.alloc " + hx(b), Tags: []string{"alloc", "huge-length-field"}, NonTrivial: true})
	}
	for _, k := range []int{0, 1, 127, 128, 4095, 4096, 4097, 20000} {
		emit(Case{Op: "msg.alloc " + hx(smf.MetaText(strings.Repeat("x", k))), Tags: []string{"alloc", "exact-length"}, NonTrivial: true})
		emit(Case{Op: "msg.alloc " + hx(smf.MetaSequencerData(bytes.Repeat([]byte{7}, k))), Tags: []string{"alloc", "exact-length"}, NonTrivial: true})
	}
	for i := 0; i < 200; i++ {
		b := []byte{0xFF, byte(r.Pick(0x01, 0x02, 0x03, 0x04, 0x05, 0x06, 0x07, 0x08, 0x09, 0x7F))}
		for k := r.Intn(5); k > 0; k-- {
			b = append(b, r.Byte()|0x80)
		}
		b = append(b, r.Byte()&0x7F)
		b = append(b, r.Bytes(r.Pick(0, 1, 5, 100, 5000))...)
		emit(Case{Op: "msg.alloc " + hx(b), Tags: []string{"alloc", "random-length-field"}, NonTrivial: true})
	}
	// IsOneOf with arbitrary checker lists
	for i := 0; i < 400; i++ {
		var b []byte
		if r.Chance(1, 2) {
			b = metas[r.Intn(len(metas))]
			if len(b) > 40 {
				b = b[:40]
			}
		} else {
			b = r.Bytes(r.Range(0, 4))
			if len(b) > 0 && r.Chance(3, 4) {
				b[0] |= 0x80
			}
		}
		cs := []string{}
		for k := r.Intn(5); k > 0; k-- {
			if r.Chance(1, 2) {
				cs = append(cs, strconv.Itoa(int(typeConsts[r.Intn(len(typeConsts))])))
			} else {
				cs = append(cs, strconv.Itoa(r.Range(-128, 127)))
			}
		}
		l := strings.Join(cs, ",")
		if l == "" {
			l = "-"
		}
		emit(Case{Op: "msg.oneof " + []string{"midi", "smf"}[r.Intn(2)] + " " + hx(b) + " " + l, Tags: []string{"oneof"}, NonTrivial: true})
	}
}

func lenClass(n int) string {
	switch {
	case n <= 3:
		return strconv.Itoa(n)
	case n <= 8:
		return "4-8"
	case n <= 64:
		return "9-64"
	}
	return ">64"
}

// metaSamples: metas as the smf constructors build them, and as smf.ReadFrom delivers them from a file
func metaSamples(r *Rng) [][]byte {
	var out [][]byte
	add := func(m smf.Message) { out = append(out, append([]byte(nil), m...)) }
	text := func(n int) string {
		b := make([]byte, n)
		for i := range b {
			b[i] = byte(r.Range(0x20, 0x7E))
		}
		return string(b)
	}
	for _, n := range []int{0, 1, 2, 126, 127, 128, 129, 300} {
		add(smf.MetaText(text(n)))
		add(smf.MetaLyric(text(n)))
		add(smf.MetaCopyright(text(n)))
		add(smf.MetaCuepoint(text(n)))
		add(smf.MetaDevice(text(n)))
		add(smf.MetaInstrument(text(n)))
		add(smf.MetaMarker(text(n)))
		add(smf.MetaProgram(text(n)))
		add(smf.MetaTrackSequenceName(text(n)))
		add(smf.MetaSequencerData(r.Bytes(n)))
		add(smf.MetaUndefined(byte(r.Pick(0x0A, 0x33, 0x60, 0x7E)), r.Bytes(n)))
	}
	for i := 0; i < 12; i++ {
		add(smf.MetaChannel(r.Byte()))
		add(smf.MetaPort(r.Byte()))
		add(smf.MetaSequenceNo(uint16(r.Intn(65536))))
		add(smf.MetaSMPTE(r.Byte(), r.Byte(), r.Byte(), r.Byte(), r.Byte()))
		add(smf.MetaTempo(float64(r.Range(1, 999)) + float64(r.Intn(100))/100))
		add(smf.MetaTimeSig(r.Byte(), uint8(1<<uint(r.Intn(8))), r.Byte(), r.Byte()))
		add(smf.MetaMeter(r.Byte(), r.Byte()))
		add(smf.MetaKey(uint8(r.Intn(12)), r.Bool(), uint8(r.Intn(8)), r.Bool()))
	}
	add(smf.EOT)
	// through a file: what the reader hands to the application
	if p := try(func() {
		s := smf.New()
		var tr smf.Track
		for i, m := range out {
			if !bytes.Equal(m, smf.EOT) && len(m) < 200 {
				tr.Add(uint32(i%3), m)
			}
		}
		tr.Add(0, midi.NoteOn(1, 60, 100))
		tr.Add(0, midi.SysEx([]byte{1, 2, 3}))
		tr.Close(0)
		s.Add(tr)
		var bf bytes.Buffer
		if _, err := s.WriteTo(&bf); err != nil {
			return
		}
		rd, err := smf.ReadFrom(bytes.NewReader(bf.Bytes()))
		if err != nil {
			return
		}
		for _, t := range rd.Tracks {
			for _, ev := range t {
				add(ev.Message)
			}
		}
	}); p != "" {
		_ = p // a panic here belongs to C01/C05, not to this property
	}
	return out
}

// specType: MIDI 1.0 status byte table. F4, F5, FD are undefined (unknown); F9 is undefined in MIDI 1.0 too,
// the library deliberately names it Tick (some devices send a 10 ms tick) and that choice is accepted here.
func specType(b byte) midi.Type {
	switch {
	case b < 0x80:
		return midi.UnknownMsg
	case b < 0xF0:
		return [7]midi.Type{midi.NoteOffMsg, midi.NoteOnMsg, midi.PolyAfterTouchMsg, midi.ControlChangeMsg,
			midi.ProgramChangeMsg, midi.AfterTouchMsg, midi.PitchBendMsg}[(b>>4)-8]
	}
	return [16]midi.Type{midi.SysExMsg, midi.MTCMsg, midi.SPPMsg, midi.SongSelectMsg, midi.UnknownMsg, midi.UnknownMsg, midi.TuneMsg,
		midi.SysExMsg, midi.TimingClockMsg, midi.TickMsg, midi.StartMsg, midi.ContinueMsg, midi.StopMsg, midi.UnknownMsg,
		midi.ActiveSenseMsg, midi.ResetMsg}[b&0x0F]
}

// specMetaType: SMF 1.0 meta event types (plus 08 program name, 09 device name of RP-019); anything else unknown
func specMetaType(b byte) midi.Type {
	switch b {
	case 0x00:
		return smf.MetaSeqNumberMsg
	case 0x01:
		return smf.MetaTextMsg
	case 0x02:
		return smf.MetaCopyrightMsg
	case 0x03:
		return smf.MetaTrackNameMsg
	case 0x04:
		return smf.MetaInstrumentMsg
	case 0x05:
		return smf.MetaLyricMsg
	case 0x06:
		return smf.MetaMarkerMsg
	case 0x07:
		return smf.MetaCuepointMsg
	case 0x08:
		return smf.MetaProgramNameMsg
	case 0x09:
		return smf.MetaDeviceMsg
	case 0x20:
		return smf.MetaChannelMsg
	case 0x21:
		return smf.MetaPortMsg
	case 0x2F:
		return smf.MetaEndOfTrackMsg
	case 0x51:
		return smf.MetaTempoMsg
	case 0x54:
		return smf.MetaSMPTEOffsetMsg
	case 0x58:
		return smf.MetaTimeSigMsg
	case 0x59:
		return smf.MetaKeySigMsg
	case 0x7F:
		return smf.MetaSeqDataMsg
	}
	return midi.UnknownMsg
}

// MIDI 1.0 message lengths of the types the accessors (order of midiView.acc) are for; 0 = variable (sysex)
var midiAccLen = [11]int{3, 3, 3, 2, 3, 2, 3, 2, 3, 2, 0}

// index into the category list (unknown, real-time, system common, channel, sysex, meta) per MIDI 1.0 class of a first byte
var specCat = [5]int{0, 3, 4, 2, 1}

// c08Oracle judges the implementation's own answers about b.
func c08Oracle(b []byte, mv *midiView, sv *smfView) (bad []string) {
	add := func(format string, args ...interface{}) {
		if len(bad) < 4 {
			bad = append(bad, fmt.Sprintf("% X: ", b)+fmt.Sprintf(format, args...))
		}
	}
	catNames := []string{"unknown", "real-time", "system common", "channel", "sysex", "meta"}
	// exactly one category
	count := func(cat [6]bool, n int) (k int, which []string) {
		for i := 0; i < n; i++ {
			if cat[i] {
				k++
				which = append(which, catNames[i])
			}
		}
		return
	}
	if k, w := count(mv.cat, 5); k != 1 {
		add("midi.Message belongs to %d categories %v (type %d)", k, w, mv.typ)
	}
	if mv.cat[5] {
		add("midi.Message is a meta message (type %d)", mv.typ)
	}
	if k, w := count(sv.cat, 6); k != 1 {
		add("smf.Message belongs to %d categories %v (type %d)", k, w, sv.typ)
	}
	// MIDI 1.0 category of the status byte (independent of the library): the reported category is that one or unknown
	want := 0
	if len(b) > 0 {
		want = specCat[specClass(b[0])]
	}
	if !mv.cat[0] && !mv.cat[want] {
		add("midi.Message category is not %s (MIDI 1.0 class of the first byte) nor unknown: type %d", catNames[want], mv.typ)
	}
	swant := want
	if len(b) > 0 && b[0] == 0xFF {
		swant = 5
	}
	if !sv.cat[0] && !sv.cat[swant] {
		add("smf.Message category is not %s nor unknown: type %d", catNames[swant], sv.typ)
	}
	// the type itself, from the MIDI 1.0 status table and the SMF 1.0 meta event table (written here, not read from the library)
	if len(b) > 0 {
		if t := specType(b[0]); mv.typ != t {
			add("midi.Message.Type() = %d, the MIDI 1.0 status table says %d", mv.typ, t)
		}
		if b[0] == 0xFF && len(b) > 1 {
			if t := specMetaType(b[1]); sv.typ != t {
				add("smf.Message.Type() = %d, the SMF 1.0 meta event table says %d", sv.typ, t)
			}
		}
	}
	if sv.isMeta != (len(b) > 0 && b[0] == 0xFF) {
		add("IsMeta = %v", sv.isMeta)
	}
	if !sv.isMeta && sv.typ != mv.typ {
		add("non-meta smf.Message has type %d, midi.Message %d", sv.typ, mv.typ)
	}
	// accessors: at most one accepts; accept => the reported type is the accessor's type
	var acc []string
	for i, ok := range mv.acc {
		if ok {
			acc = append(acc, midiAccNames[i])
			if mv.typ != midiAccTypes[i] {
				add("%s accepts, midi.Message.Type() = %d, the accessor's type is %d", midiAccNames[i], mv.typ, midiAccTypes[i])
			}
			if sv.typ != midiAccTypes[i] {
				add("%s accepts, smf.Message.Type() = %d, the accessor's type is %d", midiAccNames[i], sv.typ, midiAccTypes[i])
			}
		}
	}
	if len(acc) > 1 {
		add("more than one midi accessor accepts: %v", acc)
	}
	// MIDI 1.0 fixes the length of every channel-voice and system-common message (status + 1 or 2 data bytes)
	for i, n := range midiAccLen {
		if n > 0 && mv.acc[i] && len(b) != n {
			add("%s accepts a string of %d bytes, a MIDI 1.0 message of its type has %d", midiAccNames[i], len(b), n)
		}
	}
	for i, ok := range sv.acc {
		if ok {
			acc = append(acc, smfAccNames[i])
			if sv.typ != smfAccTypes[i] {
				add("%s accepts, smf.Message.Type() = %d, the accessor's type is %d", smfAccNames[i], sv.typ, smfAccTypes[i])
			}
		}
	}
	if len(acc) > 1 {
		add("more than one accessor accepts: %v", acc)
	}
	if sv.meter != sv.acc[1] || sv.key != sv.acc[7] {
		add("wrapper disagrees with wrapped accessor: meter %v timesig %v key %v keysig %v", sv.meter, sv.acc[1], sv.key, sv.acc[7])
	}
	// Is(specific type) <=> Type() is that type
	m, s := midi.Message(b), smf.Message(b)
	for _, c := range typeConsts {
		if c <= 0 && c != midi.SysExMsg {
			continue
		}
		if m.Is(c) != (mv.typ == c) {
			add("midi.Message.Is(%d) = %v but Type() = %d", c, m.Is(c), mv.typ)
		}
		if s.Is(c) != (sv.typ == c) {
			add("smf.Message.Is(%d) = %v but Type() = %d", c, s.Is(c), sv.typ)
		}
	}
	// derived views follow the accessors they are derived from
	if mv.noteStart != (mv.acc[0] && mv.val[0][2] > 0) || (mv.noteStart && mv.nsVal != mv.val[0]) {
		add("GetNoteStart = %v %v, GetNoteOn = %v %v", mv.noteStart, mv.nsVal, mv.acc[0], mv.val[0])
	}
	wantEnd := (mv.acc[0] && mv.val[0][2] == 0) || mv.acc[1]
	if mv.noteEnd != wantEnd {
		add("GetNoteEnd = %v, GetNoteOn = %v %v, GetNoteOff = %v", mv.noteEnd, mv.acc[0], mv.val[0], mv.acc[1])
	}
	if mv.nilProblem != "" {
		add("%s", mv.nilProblem)
	}
	if len(b) > 0 && b[0] == 0xFF {
		var np string
		if p := try(func() { np = smfNilSubsets(smf.Message(b)) }); p != "" {
			np = "a meta accessor called with nil out parameters panics: " + p
		}
		if np != "" {
			add("%s", np)
		}
	}
	if mv.ch != mv.cat[3] {
		add("GetChannel = %v, Is(ChannelMsg) = %v", mv.ch, mv.cat[3])
	}
	// String() prints what the accepting accessor returns (or only the type name)
	if mv.strBranch == 99 {
		add("midi.Message.String() = %q is not the type name plus the accepting accessor's values", mv.str)
	}
	if sv.strBranch == 99 {
		add("smf.Message.String() = %q does not fit the accessors' answers (midi.Message.String() = %q)", sv.str, mv.str)
	}
	return
}

// c08String computes the signature and the oracle entries for one byte string.
func c08String(buf []int32, b []byte, mv *midiView, sv *smfView) (sig []int32, oracle []string) {
	*mv, *sv = midiView{}, smfView{}
	sig, p := sigAll(buf, b, mv, sv)
	if p != "" {
		oracle = append(oracle, fmt.Sprintf("% X: panic: %s", b, p))
		oracle = append(oracle, whichPanics(b)...)
		return append(sig, -999), oracle
	}
	return sig, c08Oracle(b, mv, sv)
}

func isRow(t int) (row string, bad []string) {
	var sb strings.Builder
	cats := 0
	for c := -128; c <= 127; c++ {
		is := midi.Type(t).Is(midi.Type(c))
		if is {
			sb.WriteByte('1')
		} else {
			sb.WriteByte('0')
		}
		if is && c <= 0 && c >= -5 {
			cats++
		}
	}
	if cats > 1 {
		bad = append(bad, fmt.Sprintf("Type(%d) belongs to %d categories", t, cats))
	}
	return sb.String(), bad
}

func runC08(c Case, m *Model) (v Verdict) {
	f := strings.Fields(c.Op)
	var mv midiView
	var sv smfView
	switch {
	case len(f) == 2 && f[0] == "msg.cls":
		b := unhx(f[1])
		sig, oracle := c08String(nil, b, &mv, &sv)
		v.Oracle = oracle
		for i, ok := range mv.acc {
			if ok {
				v.Tags = append(v.Tags, "accepts:"+midiAccNames[i])
			}
		}
		for i, ok := range sv.acc {
			if ok {
				v.Tags = append(v.Tags, "accepts:"+smfAccNames[i])
			}
		}
		ans := fields(m.Ask(c.Op))["sig"]
		if ans != showInts(sig) {
			v.Mismatch = append(v.Mismatch, "signature differs: model "+short(ans)+" impl "+short(showInts(sig)))
		}
	case len(f) == 2 && f[0] == "msg.clsblk":
		pre := unhx(f[1])
		b := make([]byte, len(pre)+1)
		copy(b, pre)
		h := fnvInit
		var buf []int32
		for x := 0; x < 256; x++ {
			b[len(pre)] = byte(x)
			var oracle []string
			buf, oracle = c08String(buf[:0], b, &mv, &sv)
			h = fnvInts(h, buf)
			if len(oracle) > 0 && len(v.Oracle) < 4 {
				v.Oracle = append(v.Oracle, oracle[0])
			}
		}
		ans := fields(m.Ask(c.Op))["h"]
		if ans != strconv.FormatUint(h, 10) {
			detail := "block hash differs (model " + ans + ")"
			for x := 0; x < 256; x++ {
				b[len(pre)] = byte(x)
				sig, _ := c08String(nil, b, &mv, &sv)
				op := "msg.cls " + hx(b)
				if ms := fields(m.Ask(op))["sig"]; ms != showInts(sig) {
					detail = op + ": model " + short(ms) + " impl " + short(showInts(sig))
					break
				}
			}
			v.Mismatch = append(v.Mismatch, detail)
		}
	case len(f) == 2 && f[0] == "msg.clsblk2":
		pre := unhx(f[1])
		if len(pre) != 1 {
			panic("harness: bad op " + c.Op)
		}
		// the model works on the op while the implementation is evaluated
		m.n++
		m.in.WriteString(c.Op)
		m.in.WriteByte('\n')
		m.in.Flush()
		b := []byte{pre[0], 0, 0}
		var hs [256]uint64
		var buf []int32
		for y := 0; y < 256; y++ {
			b[1] = byte(y)
			h := fnvInit
			for x := 0; x < 256; x++ {
				b[2] = byte(x)
				var oracle []string
				buf, oracle = c08String(buf[:0], b, &mv, &sv)
				h = fnvInts(h, buf)
				if len(oracle) > 0 && len(v.Oracle) < 4 {
					v.Oracle = append(v.Oracle, oracle[0])
				}
			}
			hs[y] = h
		}
		line, err := m.out.ReadString('\n')
		if err != nil {
			v.Mismatch = append(v.Mismatch, "model died")
			return
		}
		ans := strings.Split(fields(strings.TrimRight(line, "\n"))["h"], ",")
		if len(ans) != 256 {
			v.Mismatch = append(v.Mismatch, "model answer malformed: "+short(line))
			return
		}
		for y := 0; y < 256 && len(v.Mismatch) == 0; y++ {
			if ans[y] == strconv.FormatUint(hs[y], 10) {
				continue
			}
			b[1] = byte(y)
			detail := fmt.Sprintf("block hash of prefix %02X%02X differs", b[0], b[1])
			for x := 0; x < 256; x++ {
				b[2] = byte(x)
				sig, _ := c08String(nil, b, &mv, &sv)
				op := "msg.cls " + hx(b)
				if ms := fields(m.Ask(op))["sig"]; ms != showInts(sig) {
					detail = op + ": model " + short(ms) + " impl " + short(showInts(sig))
					break
				}
			}
			v.Mismatch = append(v.Mismatch, detail)
		}
	case len(f) == 2 && f[0] == "msg.isrow":
		t, err := strconv.Atoi(f[1])
		if err != nil {
			panic("harness: bad op " + c.Op)
		}
		var row string
		if p := try(func() { row, v.Oracle = isRow(t) }); p != "" {
			v.Oracle = append(v.Oracle, "Type.Is panics: "+p)
			return
		}
		if ans := fields(m.Ask(c.Op))["row"]; ans != row {
			v.Mismatch = append(v.Mismatch, "Type.Is row differs: model "+ans+" impl "+row)
		}
	case len(f) == 4 && f[0] == "msg.oneof":
		b := unhx(f[2])
		var cs []midi.Type
		if f[3] != "-" {
			for _, s := range strings.Split(f[3], ",") {
				n, err := strconv.Atoi(s)
				if err != nil {
					panic("harness: bad op " + c.Op)
				}
				cs = append(cs, midi.Type(n))
			}
		}
		var got, want bool
		if p := try(func() {
			if f[1] == "midi" {
				got = midi.Message(b).IsOneOf(cs...)
				for _, x := range cs {
					want = want || midi.Message(b).Is(x)
				}
			} else {
				got = smf.Message(b).IsOneOf(cs...)
				for _, x := range cs {
					want = want || smf.Message(b).Is(x)
				}
			}
		}); p != "" {
			v.Oracle = append(v.Oracle, "IsOneOf panics: "+p)
			return
		}
		if got != want {
			v.Oracle = append(v.Oracle, fmt.Sprintf("IsOneOf = %v but the disjunction of Is over the checkers is %v", got, want))
		}
		if ans := fields(m.Ask(c.Op))["r"]; ans != strconv.Itoa(int(b2i(got))) {
			v.Mismatch = append(v.Mismatch, "IsOneOf differs: model "+ans+" impl "+strconv.Itoa(int(b2i(got))))
		}
	case len(f) == 2 && f[0] == "msg.alloc":
		b := unhx(f[1])
		sig, oracle := c08String(nil, b, &mv, &sv)
		_ = sig
		v.Oracle = oracle
		if len(oracle) > 0 {
			return
		}
		var m0, m1 runtime.MemStats
		s := smf.Message(b)
		runtime.ReadMemStats(&m0)
		str := s.String()
		runtime.ReadMemStats(&m1)
		delta := int64(m1.TotalAlloc - m0.TotalAlloc)
		_ = str
		if delta > 64<<20+16*int64(len(b)) {
			v.Oracle = append(v.Oracle, fmt.Sprintf("String() of a %d-byte message allocated %d bytes", len(b), delta))
		}
		mf := fields(m.Ask(c.Op))
		a, err := strconv.ParseInt(mf["a"], 10, 64)
		if err != nil || mf["b"] != strconv.Itoa(sv.strBranch) {
			v.Mismatch = append(v.Mismatch, fmt.Sprintf("String() branch differs: model %v impl %d", mf, sv.strBranch))
		} else if delta < a || delta > 16*(a+int64(len(b)))+65536 {
			v.Mismatch = append(v.Mismatch, fmt.Sprintf("String() allocated %d bytes, the model's length-prefixed reads request %d (message %d bytes)", delta, a, len(b)))
		}
		v.Tags = append(v.Tags, "str-branch:"+mf["b"])
	default:
		panic("harness: bad op " + c.Op)
	}
	return
}
