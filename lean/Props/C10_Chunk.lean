import MidiModel.Smf
import MidiModel.Generated.ChunkGo
/-!
# C10 (and C03), tie to the source: `chunk.WriteTo` (`smf/chunk.go`) — the one place where the writer hands bytes to the
destination — as translated by `tools/go2lean` on every run, the destination's `Write` an uninterpreted function:
for a chunk with a 4-byte type it calls `Write` exactly once, with `type ++ big-endian int32(len) ++ body`
(= `Smf.encChunk`), and returns the count `Write` returned and an error exactly when `Write` reported one; a chunk whose
type was never set writes nothing and reports an error.
-/
namespace Midi.C10
open Midi Midi.Go

set_option linter.unusedSimpArgs false

theorem len_bytes (n : Nat) :
    [(Go.toU 32 (Go.wrapS 32 (n : Int))) / 16777216 % 256, (Go.toU 32 (Go.wrapS 32 (n : Int))) / 65536 % 256,
     (Go.toU 32 (Go.wrapS 32 (n : Int))) / 256 % 256, (Go.toU 32 (Go.wrapS 32 (n : Int))) % 256] = be32 (n % 4294967296) := by
  have : Go.toU 32 (Go.wrapS 32 (n : Int)) = n % 4294967296 := by
    unfold Go.toU Go.wrapS; omega
  rw [this]; rfl

/-- a chunk with a proper type: one `Write` of the encoded chunk; count and error are the destination's -/
theorem code_chunk_WriteTo (w : Go.Iface → List Nat → Int × Bool) (typ body : Bytes) (wr : Go.Iface)
    (h4 : typ.length = 4) :
    smf.chunk.WriteTo w ⟨typ, body⟩ wr =
      ((w wr (Smf.encChunk typ body)).1, (w wr (Smf.encChunk typ body)).2) := by
  have hl : smf.chunk.Len ⟨typ, body⟩ = (body.length : Int) := rfl
  unfold smf.chunk.WriteTo Smf.encChunk
  have h4i : ¬ ((typ.length : Int) ≠ 4) := by omega
  simp only [hl, len_bytes, h4i, if_false, List.nil_append]
  generalize w wr (typ ++ be32 (body.length % 4294967296) ++ body) = r
  obtain ⟨n, e⟩ := r
  cases e <;> rfl

/-- a chunk without a proper type: nothing is written, an error is returned -/
theorem code_chunk_WriteTo_untyped (w : Go.Iface → List Nat → Int × Bool) (typ body : Bytes) (wr : Go.Iface)
    (h4 : typ.length ≠ 4) : smf.chunk.WriteTo w ⟨typ, body⟩ wr = (0, true) := by
  unfold smf.chunk.WriteTo
  have h4i : (typ.length : Int) ≠ 4 := by omega
  simp [Id.run, h4i]
  rfl

/-- `chunk.Write` appends to the body and never fails; `Clear` empties the body and keeps the type -/
theorem code_chunk_Write (typ body b : Bytes) :
    smf.chunk.Write ⟨typ, body⟩ b = .ok (⟨typ, body ++ b⟩, (b.length : Int), false) := rfl
theorem code_chunk_Clear (typ body : Bytes) : smf.chunk.Clear ⟨typ, body⟩ = .ok ⟨typ, []⟩ := rfl

end Midi.C10
