import MidiModel.Vlq
/-!
# Meta-event constructors and accessors (`smf/meta.go`, `smf/message.go`, `smf/key.go`, `smf/helpers.go`,
# `internal/utils`: `ReadVarLengthData`, `KeyFromSharpsOrFlats`, `ReadUint24`, `ParseUint16`)

The model follows the Go code statement by statement. Arguments that are `uint8`/`uint16` in Go are `Nat`s
here which the driver only accepts below 256 / 65536; conversions that can wrap (`uint32(len(data))`,
`int8(num) * -1`, `int8(sharpsOrFlats * 7)`, `2 << (bin-1)` in `uint8`, `uint8(_num)`) carry an explicit `%`.
Accessors are modelled with all out-parameters non-nil; `none` = the accessor returned `false`.
Floats do not occur: `MetaTempo` is modelled from the point where `uint32(math.Round(bpmFac/bpm))` is an
integer (`metaTempoMicros`), `GetMetaTempo` up to the integer field it divides 60000000 by
(`getMetaTempo`). The last section (`Spec`) is *not* a model of the code: it is the reference the
theorems compare with (event grammar, circle of fifths written from music theory, rational rounding).
-/
namespace Midi.Meta

/-! ## Types (`meta.go`: `MetaChannelMsg midi.Type = 70 + iota`, …) -/

abbrev tUnknown : Nat := 0        -- midi.UnknownMsg
abbrev tChannel : Nat := 70
abbrev tCopyright : Nat := 71
abbrev tCuepoint : Nat := 72
abbrev tDevice : Nat := 73
abbrev tEndOfTrack : Nat := 74
abbrev tInstrument : Nat := 75
abbrev tKeySig : Nat := 76
abbrev tLyric : Nat := 77
abbrev tText : Nat := 78
abbrev tMarker : Nat := 79
abbrev tPort : Nat := 80
abbrev tSeqNumber : Nat := 81
abbrev tSeqData : Nat := 82
abbrev tTempo : Nat := 83
abbrev tTimeSig : Nat := 84
abbrev tTrackName : Nat := 85
abbrev tSMPTEOffset : Nat := 86
abbrev tUndefined : Nat := 87
abbrev tProgramName : Nat := 88

/-- the exported type constants by name (compared with the compiled library's values on every run) -/
def typeConsts : List (String × Nat) :=
  [("MetaChannelMsg", tChannel), ("MetaCopyrightMsg", tCopyright), ("MetaCuepointMsg", tCuepoint),
   ("MetaDeviceMsg", tDevice), ("MetaEndOfTrackMsg", tEndOfTrack), ("MetaInstrumentMsg", tInstrument),
   ("MetaKeySigMsg", tKeySig), ("MetaLyricMsg", tLyric), ("MetaTextMsg", tText), ("MetaMarkerMsg", tMarker),
   ("MetaPortMsg", tPort), ("MetaSeqNumberMsg", tSeqNumber), ("MetaSeqDataMsg", tSeqData),
   ("MetaTempoMsg", tTempo), ("MetaTimeSigMsg", tTimeSig), ("MetaTrackNameMsg", tTrackName),
   ("MetaSMPTEOffsetMsg", tSMPTEOffset), ("MetaUndefinedMsg", tUndefined), ("MetaProgramNameMsg", tProgramName)]

/-- `getMetaType(b)` = `metaMessages[b]` (a missing map entry is the zero value `UnknownMsg`) -/
def metaTypeOf (b : Nat) : Nat :=
  match b with
  | 0x2F => tEndOfTrack
  | 0x00 => tSeqNumber
  | 0x01 => tText
  | 0x02 => tCopyright
  | 0x03 => tTrackName
  | 0x04 => tInstrument
  | 0x05 => tLyric
  | 0x06 => tMarker
  | 0x07 => tCuepoint
  | 0x20 => tChannel
  | 0x09 => tDevice
  | 0x21 => tPort
  | 0x51 => tTempo
  | 0x58 => tTimeSig
  | 0x59 => tKeySig
  | 0x54 => tSMPTEOffset
  | 0x7F => tSeqData
  | 0x08 => tProgramName
  | _ => tUnknown

/-- `m.Is(t)` for a meta type constant `t` (≥ 70): `smf.getType` looks at `m[1]` when `m[0] = 0xFF` and
    `len(m) ≥ 2`; `Type.Is` is equality for two types above `UnknownMsg` and `false` when the message
    type is `UnknownMsg`. A message that does not start with `0xFF` gets a `midi` type, all of which are
    below `firstMetaMsg = 70` (fact `c15NonMetaTypeMax`, re-checked on every run), so the answer is `false`. -/
def isType (t : Nat) (m : Bytes) : Bool :=
  match m with
  | 0xFF :: b :: _ => metaTypeOf b != tUnknown && metaTypeOf b == t
  | _ => false

/-! ## Constructors -/

/-- `_MetaMessage(typ, data)` -/
def metaMessage (typ : Nat) (data : Bytes) : Bytes :=
  [0xFF, typ] ++ Vlq.encode (data.length % 4294967296) ++ data

/-- the nine text-carrying constructors / accessors -/
inductive TextKind
  | lyric | copyright | cuepoint | device | instrument | marker | program | text | trackName
deriving DecidableEq, Repr

def TextKind.all : List TextKind :=
  [.lyric, .copyright, .cuepoint, .device, .instrument, .marker, .program, .text, .trackName]

/-- type byte used by the constructor (`MetaLyric` → `byteLyric`, …) -/
def TextKind.byte : TextKind → Nat
  | .lyric => 0x05        -- MetaLyric: byteLyric
  | .copyright => 0x02    -- MetaCopyright: byteCopyright
  | .cuepoint => 0x07     -- MetaCuepoint: byteCuepoint
  | .device => 0x09       -- MetaDevice: byteDevicePort
  | .instrument => 0x04   -- MetaInstrument: byteInstrument
  | .marker => 0x06       -- MetaMarker: byteMarker
  | .program => 0x08      -- MetaProgram: byteProgramName
  | .text => 0x01         -- MetaText: byteText
  | .trackName => 0x03    -- MetaTrackSequenceName: byteTrackSequenceName

/-- type constant tested by the accessor (`GetMetaLyric` → `MetaLyricMsg`, …) -/
def TextKind.type : TextKind → Nat
  | .lyric => tLyric
  | .copyright => tCopyright
  | .cuepoint => tCuepoint
  | .device => tDevice
  | .instrument => tInstrument
  | .marker => tMarker
  | .program => tProgramName
  | .text => tText
  | .trackName => tTrackName

def TextKind.name : TextKind → String
  | .lyric => "lyric" | .copyright => "copyright" | .cuepoint => "cuepoint" | .device => "device"
  | .instrument => "instrument" | .marker => "marker" | .program => "program" | .text => "text"
  | .trackName => "trackname"

/-- `MetaLyric(text)` … `MetaTrackSequenceName(text)`; `[]byte(text)` is the identity on bytes -/
def metaText (k : TextKind) (text : Bytes) : Bytes := metaMessage k.byte text

/-- `MetaChannel(ch uint8)` -/
def metaChannel (ch : Nat) : Bytes := metaMessage 0x20 [ch]

/-- `MetaPort(p uint8)` -/
def metaPort (p : Nat) : Bytes := metaMessage 0x21 [p]

/-- `MetaSequenceNo(no uint16)`: `binary.Write(&bf, binary.BigEndian, no)` -/
def metaSequenceNo (no : Nat) : Bytes := metaMessage 0x00 (be16 no)

/-- `MetaSequencerData(data)` -/
def metaSequencerData (data : Bytes) : Bytes := metaMessage 0x7F data

/-- `MetaSMPTE(hour, minute, second, frame, fractionalFrame byte)` -/
def metaSMPTE (h mi s f ff : Nat) : Bytes := metaMessage 0x54 [h, mi, s, f, ff]

/-- `MetaUndefined(typ, data)` -/
def metaUndefined (typ : Nat) (data : Bytes) : Bytes := metaMessage typ data

/-- `big.NewInt(r).Bytes()` for `r < 2^32`: big-endian, no leading zeros, empty for 0 -/
def bigBytesLE : Nat → Nat → Bytes
  | 0, _ => []
  | f+1, n => if n = 0 then [] else (n % 256) :: bigBytesLE f (n / 256)

def bigBytes (n : Nat) : Bytes := (bigBytesLE 4 n).reverse

/-- `MetaTempo` after `r := uint32(math.Round(bpmFac / bpm))` (`r : uint32`):
    clamp at `0x0FFFFFFF`, `big.Int.Bytes`, the `switch len(b4)` that fills `b` from the right
    (no case for 4 bytes: `b` stays `00 00 00`). -/
def metaTempoMicros (r : Nat) : Bytes :=
  let r := if r > 0x0FFFFFFF then 0x0FFFFFFF else r
  let b4 := bigBytes r
  let b : Bytes :=
    match b4 with
    | [] => [0, 0, 0]
    | [x] => [0, 0, x]
    | [x, y] => [0, x, y]
    | [x, y, z] => [x, y, z]
    | _ => [0, 0, 0]
  metaMessage 0x51 b

/-- `math.Round(a/b)` for positive rationals: half away from zero = half up -/
def roundDiv (a b : Nat) : Nat := (2 * a + b) / (2 * b)

/-- `MetaTempo(bpm)` for the rational `bpm = p/q` (`p, q > 0`): `bpmFac/bpm = 60000000·q/p`, rounded,
    converted to `uint32` (values that do not fit are outside the input language of the driver) -/
def metaTempoRat (p q : Nat) : Bytes := metaTempoMicros (roundDiv (60000000 * q) p)

/-- `MetaKey(key, isMajor, num, isFlat)` — `key` is not used by the Go function.
    `sf := int8(num); if isFlat { sf = sf * (-1) }; byte(sf)`: negation modulo 256. -/
def metaKey (_key : Nat) (isMajor : Bool) (num : Nat) (isFlat : Bool) : Bytes :=
  let mi := if !isMajor then 1 else 0
  let sf := if isFlat then (256 - num % 256) % 256 else num % 256
  metaMessage 0x59 [sf, mi]

/-- `dec2binDenom`: `for dec > 2 { bin++; dec = dec >> 1 }` (at most 7 rounds for a `uint8`) -/
def dec2binLoop : Nat → Nat → Nat → Nat
  | 0, bin, _ => bin
  | f+1, bin, dec => if dec > 2 then dec2binLoop f ((bin + 1) % 256) (dec / 2) else bin

def dec2binDenom (dec : Nat) : Nat :=
  if dec ≤ 1 then 0 else (dec2binLoop 8 0 dec + 1) % 256

/-- `bin2decDenom`: `2 << (bin - 1)` in `uint8` (0 once `bin ≥ 8`) -/
def bin2decDenom (bin : Nat) : Nat :=
  if bin = 0 then 1 else (2 * 2 ^ (bin - 1)) % 256

/-- `MetaTimeSig(numerator, denominator, clocksPerClick, demiSemiQuaverPerQuarter uint8)` -/
def metaTimeSig (num denom cpcl dsqpq : Nat) : Bytes :=
  let cpcl := if cpcl = 0 then 8 else cpcl
  let dsqpq := if dsqpq = 0 then 8 else dsqpq
  metaMessage 0x58 [num, dec2binDenom denom, cpcl, dsqpq]

/-- `MetaMeter(num, denom)` -/
def metaMeter (num denom : Nat) : Bytes :=
  let denom := if denom = 0 then 1 else denom
  metaTimeSig num denom 8 8

/-- `key.go`: the named constructors, `func X() Message { return key(k, n, isMajor, isFlat) }` with
    `key(key, num, isMajor, isFlat) = MetaKey(key, isMajor, num, isFlat)`; the same literals are the keys of
    `keyStrings` (filled by the `init` functions), which is what `Key.String()` looks up. -/
def namedKeys : List (String × Nat × Nat × Bool × Bool) :=
  [("CMaj", 0, 0, true, false), ("DMaj", 2, 2, true, false), ("EMaj", 4, 4, true, false),
   ("FsharpMaj", 6, 6, true, false), ("GMaj", 7, 1, true, false), ("AMaj", 9, 3, true, false),
   ("BMaj", 11, 5, true, false), ("FMaj", 5, 1, true, true), ("BbMaj", 10, 2, true, true),
   ("EbMaj", 3, 3, true, true), ("AbMaj", 8, 4, true, true), ("DbMaj", 1, 5, true, true),
   ("GbMaj", 6, 6, true, true), ("AMin", 9, 0, false, false), ("BMin", 11, 2, false, false),
   ("CsharpMin", 1, 4, false, false), ("DsharpMin", 3, 6, false, false), ("EMin", 4, 1, false, false),
   ("FsharpMin", 6, 3, false, false), ("GsharpMin", 8, 5, false, false), ("DMin", 2, 1, false, true),
   ("GMin", 7, 2, false, true), ("CMin", 0, 3, false, true), ("FMin", 5, 4, false, true),
   ("BbMin", 10, 5, false, true), ("EbMin", 3, 6, false, true)]

/-- `CMaj()`, `DMaj()`, … by name; `none` = no such constructor -/
def namedKey (name : String) : Option Bytes :=
  match namedKeys.find? (fun e => e.1 == name) with
  | some (_, k, n, maj, fl) => some (metaKey k maj n fl)
  | none => none

/-! ## Accessors -/

/-- `utils.ReadVarLengthData(bytes.NewReader(bs))`: VLQ length, then exactly that many bytes
    (`ReadNBytes`: fewer available → `io.EOF`/`io.ErrUnexpectedEOF` → error); `none` = error.
    Bytes after the payload are ignored. -/
def readVarLengthData (bs : Bytes) : Option Bytes :=
  match Vlq.read bs with
  | none => none
  | some (n, rest) => if n ≤ rest.length then some (rest.take n) else none

/-- `GetMetaLyric` … `GetMetaTrackName` with a non-nil `text`: `Is(type)`, `len(m) ≥ 3`, then
    `m.text`: `*text, _ = utils.ReadText(bytes.NewReader(m[2:]))` — on a read error the text is `""`
    and the accessor still returns `true`. -/
def getMetaText (k : TextKind) (m : Bytes) : Option Bytes :=
  if !isType k.type m then none
  else if m.length < 3 then none
  else match readVarLengthData (m.drop 2) with
    | some d => some d
    | none => some []

/-- `GetMetaChannel` -/
def getMetaChannel (m : Bytes) : Option Nat :=
  if !isType tChannel m then none
  else if m.length ≠ 4 then none
  else (m.drop 3).head?

/-- `GetMetaPort` -/
def getMetaPort (m : Bytes) : Option Nat :=
  if !isType tPort m then none
  else if m.length ≠ 4 then none
  else (m.drop 3).head?

/-- `GetMetaSeqNumber`: `len(m) == 2` → 0, otherwise `utils.ParseUint16(m[3], m[4])` (needs `len ≥ 5`) -/
def getMetaSeqNumber (m : Bytes) : Option Nat :=
  if !isType tSeqNumber m then none
  else if m.length ≠ 2 ∧ m.length < 5 then none
  else if m.length = 2 then some 0
  else match m.drop 3 with
    | b1 :: b2 :: _ => some ((b1 % 256 * 256 + b2 % 256) % 65536)
    | _ => none

/-- `GetMetaSeqData` (after the repair of DESIGN §7-14): `utils.ReadVarLengthData(bytes.NewReader(m[2:]))` -/
def getMetaSeqData (m : Bytes) : Option Bytes :=
  if !isType tSeqData m then none
  else if m.length < 4 then none
  else readVarLengthData (m.drop 2)

/-- `int8(b)` -/
def toInt8 (b : Nat) : Int := if b % 256 < 128 then ((b % 256 : Nat) : Int) else ((b % 256 : Nat) : Int) - 256

/-- an `int` result stored in an `int8` -/
def wrapInt8 (i : Int) : Int := toInt8 (i % 256).toNat

/-- `for tmp < 0 { tmp += 12 }` (`tmp ≥ -131`: 11 rounds suffice) -/
def clampOctave : Nat → Int → Int
  | 0, t => t
  | f+1, t => if t < 0 then clampOctave f (t + 12) else t

/-- `utils.KeyFromSharpsOrFlats(sharpsOrFlats int8, mode uint8)`: `tmp := int(sharpsOrFlats * 7)`
    (the product is an `int8`), `-3` for minor, clamp, `uint8(tmp % 12)` (Go `%` truncates) -/
def keyFromSharpsOrFlats (sf : Int) (mode : Nat) : Nat :=
  let tmp := wrapInt8 (sf * 7)
  let tmp := if mode = 1 then tmp - 3 else tmp
  let tmp := clampOctave 11 tmp
  ((Int.tmod tmp 12) % 256).toNat

structure Key where
  key : Nat
  num : Nat
  isMajor : Bool
  isFlat : Bool
deriving DecidableEq, Repr

/-- `GetMetaKeySig` / `GetMetaKey` -/
def getMetaKeySig (m : Bytes) : Option Key :=
  if !isType tKeySig m then none
  else if m.length ≠ 5 then none
  else match m.drop 3 with
    | [d0, d1] =>
      let sf := toInt8 d0
      let num := if sf < 0 then wrapInt8 (sf * (-1)) else sf
      some ⟨keyFromSharpsOrFlats sf d1, (num % 256).toNat, d1 == 0, sf < 0⟩
    | _ => none

/-- `Key.String()`: `keyStrings[k]`, `""` for a key that no named constructor registered -/
def keyString (k : Key) : String :=
  match namedKeys.find? (fun e => e.2.1 == k.key && e.2.2.1 == k.num && e.2.2.2.1 == k.isMajor && e.2.2.2.2 == k.isFlat) with
  | some e => e.1
  | none => ""

/-- `GetMetaSMPTEOffsetMsg` -/
def getMetaSMPTE (m : Bytes) : Option (Nat × Nat × Nat × Nat × Nat) :=
  if !isType tSMPTEOffset m then none
  else if m.length ≠ 8 then none
  else match m.drop 3 with
    | [a, b, c, d, e] => some (a, b, c, d, e)
    | _ => none

/-- `GetMetaTimeSig` (numerator, denominator, clocksPerClick, demiSemiQuaverPerQuarter) -/
def getMetaTimeSig (m : Bytes) : Option (Nat × Nat × Nat × Nat) :=
  if !isType tTimeSig m then none
  else if m.length ≠ 7 then none
  else match m.drop 3 with
    | [n, d, c, q] => some (n, bin2decDenom d, c, q)
    | _ => none

/-- `GetMetaMeter` = `GetMetaTimeSig(num, denom, nil, nil)` -/
def getMetaMeter (m : Bytes) : Option (Nat × Nat) :=
  (getMetaTimeSig m).map (fun r => (r.1, r.2.1))

/-- `utils.ReadUint24(bytes.NewReader(bs))`; `none` = fewer than three bytes -/
def readUint24 : Bytes → Option Nat
  | b0 :: b1 :: b2 :: _ => some ((b0 % 256 * 65536 + b1 % 256 * 256 + b2 % 256) % 4294967296)
  | _ => none

/-- `GetMetaTempo` up to `microsecondsPerCrotchet`; the Go function stores
    `float64(60000000) / float64(microsecondsPerCrotchet)`. -/
def getMetaTempo (m : Bytes) : Option Nat :=
  if !isType tTempo m then none
  else if m.length < 4 then none
  else readUint24 (m.drop 3)

/-! ## Reference notions the theorems compare with (not derived from the code) -/
namespace Spec

/-- SMF 1.0 meta event `FF type length data`: the type byte and the payload, if `m` is exactly that -/
def parse (m : Bytes) : Option (Nat × Bytes) :=
  match m with
  | 0xFF :: t :: r =>
    match Vlq.read r with
    | some (n, d) => if d.length = n then some (t, d) else none
    | none => none
  | _ => none

/-- pitch class of a natural note letter -/
def letterPc : Char → Option Nat
  | 'C' => some 0 | 'D' => some 2 | 'E' => some 4 | 'F' => some 5 | 'G' => some 7 | 'A' => some 9 | 'B' => some 11
  | _ => none

/-- pitch class of a spelled note: a letter, optionally followed by `sharp` (+1) or `b` (−1) -/
def notePc (s : String) : Option Nat :=
  match s.toList with
  | [l] => letterPc l
  | [l, 'b'] => (letterPc l).map (fun p => (p + 11) % 12)
  | l :: r => if r = "sharp".toList then (letterPc l).map (fun p => (p + 1) % 12) else none
  | [] => none

/-- The circle of fifths, spelled. Index = number of accidentals in the key signature.
    Sharp side: each step a fifth up; flat side: each step a fifth down; the minor key is the relative
    minor (a minor third below the major tonic). -/
def sharpMajor : List String := ["C", "G", "D", "A", "E", "B", "Fsharp", "Csharp"]
def flatMajor : List String := ["C", "F", "Bb", "Eb", "Ab", "Db", "Gb", "Cb"]
def sharpMinor : List String := ["A", "E", "B", "Fsharp", "Csharp", "Gsharp", "Dsharp", "Asharp"]
def flatMinor : List String := ["A", "D", "G", "C", "F", "Bb", "Eb", "Ab"]

/-- spelled tonic of the key with `n` accidentals -/
def tonicName (isMajor isFlat : Bool) (n : Nat) : Option String :=
  (match isMajor, isFlat with
   | true, false => sharpMajor
   | true, true => flatMajor
   | false, false => sharpMinor
   | false, true => flatMinor)[n]?

/-- pitch class (0 = C … 11 = B) of the tonic of the key with `n` sharps / flats -/
def tonic (isMajor isFlat : Bool) (n : Nat) : Option Nat := (tonicName isMajor isFlat n).bind notePc

/-- the key a name such as `FsharpMin` denotes: the entry of the circle with that spelled tonic and mode.
    (`C`/`A` with no accidentals are found on the sharp side first, i.e. with `isFlat = false`.) -/
def keyOfName (name : String) : Option Key :=
  let cands : List (Bool × Bool × Nat) :=
    [true, false].flatMap (fun maj => [false, true].flatMap (fun fl => (List.range 8).map (fun n => (maj, fl, n))))
  match cands.find? (fun c => (tonicName c.1 c.2.1 c.2.2).map (· ++ (if c.1 then "Maj" else "Min")) == some name) with
  | some (maj, fl, n) => (tonic maj fl n).map (fun pc => ⟨pc, n, maj, fl && n != 0⟩)
  | none => none

end Spec

/-! ## Line protocol -/

def showOpt {α : Type} (f : α → String) : Option α → String
  | none => "no"
  | some a => f a

def b01 (b : Bool) : String := if b then "1" else "0"

def showKey (k : Key) : String := s!"{k.key},{k.num},{b01 k.isMajor},{b01 k.isFlat}"

def parseKind (s : String) : Option TextKind := TextKind.all.find? (fun k => k.name == s)

def byteArg (s : String) : Option Nat := s.toNat?.bind (fun n => if n < 256 then some n else none)

def boolArg (s : String) : Option Bool := if s = "1" then some true else if s = "0" then some false else none

/-- all accessors on one message -/
def showAll (m : Bytes) : String :=
  let texts := TextKind.all.map (fun k => k.name ++ "=" ++ showOpt hex (getMetaText k m))
  let k := getMetaKeySig m
  joinWith " " (texts ++
    ["channel=" ++ showOpt toString (getMetaChannel m),
     "port=" ++ showOpt toString (getMetaPort m),
     "seqno=" ++ showOpt toString (getMetaSeqNumber m),
     "seqdata=" ++ showOpt hex (getMetaSeqData m),
     "smpte=" ++ showOpt (fun (a, b, c, d, e) => s!"{a},{b},{c},{d},{e}") (getMetaSMPTE m),
     "timesig=" ++ showOpt (fun (a, b, c, d) => s!"{a},{b},{c},{d}") (getMetaTimeSig m),
     "meter=" ++ showOpt (fun (a, b) => s!"{a},{b}") (getMetaMeter m),
     "key=" ++ showOpt showKey k,
     "keystr=" ++ showOpt (fun k => if keyString k = "" then "-" else keyString k) k,
     "tempo=" ++ showOpt toString (getMetaTempo m)])

/-- deterministic payload of the length sweeps: `d[i] = (a + b·i) mod 256` -/
def fill (n a b : Nat) : Bytes := (List.range n).map (fun i => (a + b * i) % 256)

/-- order-sensitive checksum of a byte string (length sweeps answer with this instead of the bytes) -/
def digest (l : Bytes) : Nat := l.foldl (fun h x => (h * 257 + x + 1) % 4294967291) 7

def showDigest (l : Bytes) : String := s!"{l.length}:{digest l}"

--@driver meta. Meta.handle
def handle (op : String) (args : List String) : String :=
  match op, args with
  | "meta.get", [h] => match unhex h with
    | some m => showAll m
    | none => "bad-op"
  | "meta.text", [k, h] => match parseKind k, unhex h with
    | some k, some d => let m := metaText k d; s!"m={hex m} get={showOpt hex (getMetaText k m)}"
    | _, _ => "bad-op"
  | "meta.textfill", [k, n, a, b] => match parseKind k, n.toNat?, byteArg a, byteArg b with
    | some k, some n, some a, some b =>
      let m := metaText k (fill n a b); s!"m={showDigest m} get={showOpt showDigest (getMetaText k m)}"
    | _, _, _, _ => "bad-op"
  | "meta.seqdata", [h] => match unhex h with
    | some d => let m := metaSequencerData d; s!"m={hex m} get={showOpt hex (getMetaSeqData m)}"
    | none => "bad-op"
  | "meta.seqfill", [n, a, b] => match n.toNat?, byteArg a, byteArg b with
    | some n, some a, some b =>
      let m := metaSequencerData (fill n a b); s!"m={showDigest m} get={showOpt showDigest (getMetaSeqData m)}"
    | _, _, _ => "bad-op"
  | "meta.undef", [t, h] => match byteArg t, unhex h with
    | some t, some d => s!"m={hex (metaUndefined t d)}"
    | _, _ => "bad-op"
  | "meta.channel", [c] => match byteArg c with
    | some c => let m := metaChannel c; s!"m={hex m} get={showOpt toString (getMetaChannel m)}"
    | none => "bad-op"
  | "meta.port", [c] => match byteArg c with
    | some c => let m := metaPort c; s!"m={hex m} get={showOpt toString (getMetaPort m)}"
    | none => "bad-op"
  | "meta.seqno", [n] => match n.toNat? with
    | some n => if n < 65536 then
        let m := metaSequenceNo n; s!"m={hex m} get={showOpt toString (getMetaSeqNumber m)}"
      else "bad-op"
    | none => "bad-op"
  | "meta.smpte", [a, b, c, d, e] => match byteArg a, byteArg b, byteArg c, byteArg d, byteArg e with
    | some a, some b, some c, some d, some e =>
      let m := metaSMPTE a b c d e
      s!"m={hex m} get={showOpt (fun (a, b, c, d, e) => s!"{a},{b},{c},{d},{e}") (getMetaSMPTE m)}"
    | _, _, _, _, _ => "bad-op"
  | "meta.timesig", [a, b, c, d] => match byteArg a, byteArg b, byteArg c, byteArg d with
    | some a, some b, some c, some d =>
      let m := metaTimeSig a b c d
      s!"m={hex m} get={showOpt (fun (a, b, c, d) => s!"{a},{b},{c},{d}") (getMetaTimeSig m)}"
    | _, _, _, _ => "bad-op"
  | "meta.meter", [a, b] => match byteArg a, byteArg b with
    | some a, some b =>
      let m := metaMeter a b
      s!"m={hex m} get={showOpt (fun (a, b) => s!"{a},{b}") (getMetaMeter m)}"
    | _, _ => "bad-op"
  | "meta.key", [k, maj, n, fl] => match byteArg k, boolArg maj, byteArg n, boolArg fl with
    | some k, some maj, some n, some fl =>
      let m := metaKey k maj n fl
      let g := getMetaKeySig m
      s!"m={hex m} get={showOpt showKey g} spec={showOpt toString (Spec.tonic maj fl n)}"
    | _, _, _, _ => "bad-op"
  | "meta.named", [name] => match namedKey name with
    | some m =>
      let g := getMetaKeySig m
      s!"m={hex m} get={showOpt showKey g} str={showOpt (fun k => if keyString k = "" then "-" else keyString k) g} spec={showOpt showKey (Spec.keyOfName name)}"
    | none => "bad-op"
  | "meta.tempous", [r] => match r.toNat? with
    | some r => if r < 4294967296 then
        let m := metaTempoMicros r; s!"m={hex m} get={showOpt toString (getMetaTempo m)}"
      else "bad-op"
    | none => "bad-op"
  | "meta.temporat", [p, q] => match p.toNat?, q.toNat? with
    | some p, some q =>
      if p = 0 ∨ q = 0 ∨ roundDiv (60000000 * q) p ≥ 4294967296 then "bad-op"
      else
        let m := metaTempoRat p q
        s!"m={hex m} get={showOpt toString (getMetaTempo m)} r={roundDiv (60000000 * q) p}"
    | _, _ => "bad-op"
  | _, _ => "bad-op"

end Midi.Meta
