import MidiModel.Vlq
import MidiModel.Smf
/-! Line-protocol driver: one op per input line, one canonical answer per output line. -/
open Midi

def dispatch (line : String) : String :=
  let toks := (line.trimAscii.toString.splitOn " ").filter (· ≠ "")
  match toks with
  | [] => "bad-op"
  | op :: args =>
    if op.startsWith "vlq." then Vlq.handle op args
    else if op.startsWith "smf." then Smf.handle op args
    else "bad-op"

partial def loop (h : IO.FS.Stream) (out : IO.FS.Stream) : IO Unit := do
  let line ← h.getLine
  if line.isEmpty then return ()
  out.putStrLn (dispatch line)
  out.flush
  loop h out

def main : IO Unit := do
  let stdin ← IO.getStdin
  let stdout ← IO.getStdout
  loop stdin stdout
