import Proofs.Msg
/-! Totality and exclusiveness of the classification and of the accessors (C08). -/
namespace Midi.Msg

/-! ## an accepting accessor fixes the reported type -/

theorem specific_accept_type (m : Bytes) (p : Int × Bool) (hp : p ∈ specificAccepts m) (ha : p.2 = true) :
    getType m = some p.1 := by
  simp only [specificAccepts, List.mem_cons, List.not_mem_nil, or_false] at hp
  have key : ∀ T, Specific T → msgIs .midi m T = some true → getType m = some T :=
    fun T hT h => (msgIs_true_iff .midi m T hT).1 h
  rcases hp with rfl | rfl | rfl | rfl | rfl | rfl | rfl | rfl | rfl | rfl | rfl
  · exact key _ (Or.inl (by simp only; decide)) (get3_is ha)
  · exact key _ (Or.inl (by simp only; decide)) (get3_is ha)
  · exact key _ (Or.inl (by simp only; decide)) (get3_is ha)
  · exact key _ (Or.inl (by simp only; decide)) (get2_is ha)
  · exact key _ (Or.inl (by simp only; decide)) (get3_is ha)
  · exact key _ (Or.inl (by simp only; decide)) (get2_is ha)
  · exact key _ (Or.inl (by simp only; decide)) (getPitchBend_is ha)
  · exact key _ (Or.inl (by simp only; decide)) (get1_is ha)
  · exact key _ (Or.inl (by simp only; decide)) (getSPP_is ha)
  · exact key _ (Or.inl (by simp only; decide)) (get1_is ha)
  · exact key _ (Or.inr rfl) (getSysEx_is ha)

theorem specific_types_ne_reset : ∀ p ∈ specificAccepts m, p.1 ≠ ResetMsg := by
  intro p hp
  simp only [specificAccepts, List.mem_cons, List.not_mem_nil, or_false] at hp
  rcases hp with rfl | rfl | rfl | rfl | rfl | rfl | rfl | rfl | rfl | rfl | rfl <;> (simp only; decide)

theorem smf_specific_accept_type (m : Bytes) (p : Int × Bool) (hp : p ∈ smfSpecificAccepts m) (ha : p.2 = true) :
    smfGetType m = some p.1 := by
  simp only [smfSpecificAccepts, List.mem_append] at hp
  have key : ∀ T, Specific T → msgIs .smf m T = some true → smfGetType m = some T :=
    fun T hT h => (msgIs_true_iff .smf m T hT).1 h
  rcases hp with (hp | hp) | hp
  · exact smfGetType_of_getType m p.1 (specific_accept_type m p hp ha) (specific_types_ne_reset p hp)
  · simp only [List.mem_cons, List.not_mem_nil, or_false] at hp
    rcases hp with rfl | rfl | rfl | rfl | rfl | rfl | rfl | rfl
    · exact key _ (Or.inl (by simp only; decide)) (getMetaTempo_is ha)
    · exact key _ (Or.inl (by simp only; decide)) (getMetaFixed_is ha)
    · exact key _ (Or.inl (by simp only; decide)) (getMeta1_is ha)
    · exact key _ (Or.inl (by simp only; decide)) (getMeta1_is ha)
    · exact key _ (Or.inl (by simp only; decide)) (getMetaSeqNumber_is ha)
    · exact key _ (Or.inl (by simp only; decide)) (getMetaFixed_is ha)
    · exact key _ (Or.inl (by simp only; decide)) (getMetaSeqData_is ha)
    · exact key _ (Or.inl (by simp only; decide)) (getMetaFixed_is ha)
  · simp only [List.mem_map] at hp
    obtain ⟨t, ht, rfl⟩ := hp
    have hpos : 0 < t := by
      simp only [textTypes, List.mem_cons, List.not_mem_nil, or_false] at ht
      rcases ht with rfl | rfl | rfl | rfl | rfl | rfl | rfl | rfl | rfl <;> decide
    exact key _ (Or.inl hpos) (getMetaText_is ha)

theorem specific_types_nodup (m : Bytes) : ((specificAccepts m).map (·.1)).Nodup := by
  simp only [specificAccepts, List.map]; decide

theorem smf_specific_types_nodup (m : Bytes) : ((smfSpecificAccepts m).map (·.1)).Nodup := by
  simp only [smfSpecificAccepts, specificAccepts, textTypes, List.map, List.cons_append, List.nil_append]; decide

/-! ## no accessor panics -/

theorem idx_some {m : Bytes} {i : Nat} (h : i < m.length) : ∃ x, m[i]? = some x :=
  ⟨m[i], List.getElem?_eq_getElem h⟩

theorem get3_ne_panic (T : Int) (m : Bytes) : get3 T m ≠ .panic := by
  unfold get3
  obtain ⟨t, _, h⟩ := msgIs_eq .midi m T
  rw [h]
  cases typeIs t T <;> simp only
  · simp
  · split
    · simp
    · rename_i hl
      have hl : m.length = 3 := by omega
      obtain ⟨a, ha⟩ := idx_some (m := m) (i := 0) (by omega)
      obtain ⟨b, hb⟩ := idx_some (m := m) (i := 1) (by omega)
      obtain ⟨c, hc⟩ := idx_some (m := m) (i := 2) (by omega)
      simp [ha, hb, hc]

theorem get2_ne_panic (T : Int) (m : Bytes) : get2 T m ≠ .panic := by
  unfold get2
  obtain ⟨t, _, h⟩ := msgIs_eq .midi m T
  rw [h]
  cases typeIs t T <;> simp only
  · simp
  · split
    · simp
    · rename_i hl
      have hl : m.length = 2 := by omega
      obtain ⟨a, ha⟩ := idx_some (m := m) (i := 0) (by omega)
      obtain ⟨b, hb⟩ := idx_some (m := m) (i := 1) (by omega)
      simp [ha, hb]

theorem get1_ne_panic (T : Int) (m : Bytes) : get1 T m ≠ .panic := by
  unfold get1
  obtain ⟨t, _, h⟩ := msgIs_eq .midi m T
  rw [h]
  cases typeIs t T <;> simp only
  · simp
  · split
    · simp
    · rename_i hl
      have hl : m.length = 2 := by omega
      obtain ⟨b, hb⟩ := idx_some (m := m) (i := 1) (by omega)
      simp [hb]

theorem getPitchBend_ne_panic (m : Bytes) : getPitchBend m ≠ .panic := by
  unfold getPitchBend
  obtain ⟨t, _, h⟩ := msgIs_eq .midi m PitchBendMsg
  rw [h]
  cases typeIs t PitchBendMsg <;> simp only
  · simp
  · split
    · simp
    · rename_i hl
      have hl : m.length = 3 := by omega
      obtain ⟨a, ha⟩ := idx_some (m := m) (i := 0) (by omega)
      obtain ⟨b, hb⟩ := idx_some (m := m) (i := 1) (by omega)
      obtain ⟨c, hc⟩ := idx_some (m := m) (i := 2) (by omega)
      simp [ha, hb, hc]

theorem getSPP_ne_panic (m : Bytes) : getSPP m ≠ .panic := by
  unfold getSPP
  obtain ⟨t, _, h⟩ := msgIs_eq .midi m SPPMsg
  rw [h]
  cases typeIs t SPPMsg <;> simp only
  · simp
  · split
    · simp
    · rename_i hl
      have hl : m.length = 3 := by omega
      obtain ⟨b, hb⟩ := idx_some (m := m) (i := 1) (by omega)
      obtain ⟨c, hc⟩ := idx_some (m := m) (i := 2) (by omega)
      simp [hb, hc]

theorem getSysEx_ne_panic (m : Bytes) : getSysEx m ≠ .panic := by
  unfold getSysEx
  split
  · simp
  · rename_i hl
    obtain ⟨t, _, h⟩ := msgIs_eq .midi m SysExMsg
    rw [h]
    cases typeIs t SysExMsg <;> simp only
    · simp
    · obtain ⟨a, ha⟩ := idx_some (m := m) (i := 0) (by omega)
      obtain ⟨b, hb⟩ := idx_some (m := m) (i := m.length - 1) (by omega)
      have hs : slice m 1 (m.length - 1) = some ((m.take (m.length - 1)).drop 1) := by
        unfold slice; rw [if_pos (by omega)]
      simp only [ha, hb, hs]
      split <;> simp

theorem getNoteStart_ne_panic (m : Bytes) : getNoteStart m ≠ .panic := by
  unfold getNoteStart
  have := get3_ne_panic NoteOnMsg m
  unfold getNoteOn
  split <;> simp_all
  split <;> simp

theorem noteEndBody_ne_panic (m : Bytes) : noteEndBody m ≠ .panic := by
  unfold noteEndBody
  have h1 := get3_ne_panic NoteOnMsg m
  have h2 := get3_ne_panic NoteOffMsg m
  unfold getNoteOn getNoteOff
  split
  · simp_all
  · split <;> simp
  · split <;> simp_all

theorem getNoteEnd_ne_panic (m : Bytes) : getNoteEnd m ≠ .panic := by
  unfold getNoteEnd
  obtain ⟨t, _, h⟩ := msgIs_eq .midi m NoteOnMsg
  obtain ⟨t', _, h'⟩ := msgIs_eq .midi m NoteOffMsg
  rw [h, h']
  cases typeIs t NoteOnMsg <;> cases typeIs t' NoteOffMsg <;> simp [noteEndBody_ne_panic]

theorem getChannel_ne_panic (m : Bytes) : getChannel m ≠ .panic := by
  unfold getChannel
  obtain ⟨t, _, h⟩ := msgIs_eq .midi m ChannelMsg
  rw [h]
  cases typeIs t ChannelMsg <;> simp only
  · simp
  · split
    · simp
    · obtain ⟨a, ha⟩ := idx_some (m := m) (i := 0) (by omega)
      simp [ha]

theorem firstYes_ne_panic (l : List (Nat × Res Unit)) (h : ∀ p ∈ l, p.2 ≠ .panic) : firstYes l ≠ .panic := by
  induction l with
  | nil => simp [firstYes]
  | cons p r ih =>
    obtain ⟨i, x⟩ := p
    have hx := h (i, x) (by simp)
    unfold firstYes
    cases x with
    | panic => exact absurd rfl hx
    | yes _ => simp
    | no => exact ih (fun q hq => h q (by simp [hq]))

theorem unit_ne_panic {α : Type} (r : Res α) (h : r ≠ .panic) : r.unit ≠ .panic := by
  cases r <;> simp_all [Res.unit]

theorem strBranch_ne_panic (m : Bytes) : strBranch m ≠ .panic := by
  unfold strBranch
  obtain ⟨t, ht⟩ := getType_total m
  rw [ht]
  apply firstYes_ne_panic
  intro p hp
  simp only [List.mem_cons, List.not_mem_nil, or_false] at hp
  rcases hp with rfl | rfl | rfl | rfl | rfl | rfl | rfl | rfl | rfl | rfl | rfl <;> apply unit_ne_panic
  · exact get3_ne_panic _ m
  · exact get3_ne_panic _ m
  · exact get3_ne_panic _ m
  · exact get2_ne_panic _ m
  · exact get3_ne_panic _ m
  · exact get2_ne_panic _ m
  · exact getPitchBend_ne_panic m
  · exact get1_ne_panic _ m
  · exact getSPP_ne_panic m
  · exact get1_ne_panic _ m
  · exact getSysEx_ne_panic m

end Midi.Msg

namespace Midi.Msg

/-! ## meta accessors never panic -/

theorem sliceFrom_some {m : Bytes} {k : Nat} (h : k ≤ m.length) : sliceFrom m k = some (m.drop k) := by
  unfold sliceFrom; rw [if_pos h]

theorem getMeta1_ne_panic (T : Int) (m : Bytes) : getMeta1 T m ≠ .panic := by
  unfold getMeta1
  obtain ⟨t, _, h⟩ := msgIs_eq .smf m T
  rw [h]
  cases typeIs t T <;> simp only
  · simp
  · split
    · simp
    · rename_i hl
      have hl : m.length = 4 := by omega
      obtain ⟨a, ha⟩ := idx_some (m := m.drop 3) (i := 0) (by simp; omega)
      simp [sliceFrom_some (m := m) (k := 3) (by omega), ha]

theorem getMetaSeqNumber_ne_panic (m : Bytes) : getMetaSeqNumber m ≠ .panic := by
  unfold getMetaSeqNumber
  obtain ⟨t, _, h⟩ := msgIs_eq .smf m MetaSeqNumberMsg
  rw [h]
  cases typeIs t MetaSeqNumberMsg <;> simp only
  · simp
  · split
    · simp
    · split
      · simp
      · obtain ⟨a, ha⟩ := idx_some (m := m) (i := 3) (by omega)
        obtain ⟨b, hb⟩ := idx_some (m := m) (i := 4) (by omega)
        simp [ha, hb]

theorem getMetaSeqData_ne_panic (m : Bytes) : getMetaSeqData m ≠ .panic := by
  unfold getMetaSeqData
  obtain ⟨t, _, h⟩ := msgIs_eq .smf m MetaSeqDataMsg
  rw [h]
  cases typeIs t MetaSeqDataMsg <;> simp only
  · simp
  · split
    · simp
    · rw [sliceFrom_some (m := m) (k := 2) (by omega)]
      simp only
      split <;> simp

theorem getMetaFixed_ne_panic (T : Int) (total dlen : Nat) (ht : 3 ≤ total) (m : Bytes) :
    getMetaFixed T total dlen m ≠ .panic := by
  unfold getMetaFixed
  obtain ⟨t, _, h⟩ := msgIs_eq .smf m T
  rw [h]
  cases typeIs t T <;> simp only
  · simp
  · split
    · simp
    · rename_i hl
      rw [sliceFrom_some (m := m) (k := 3) (by omega)]
      simp only
      split
      · simp
      · rename_i hd
        have : (List.range dlen).all (fun i => (m.drop 3)[i]?.isSome) = true := by
          rw [List.all_eq_true]
          intro i hi
          rw [List.mem_range] at hi
          have : i < (m.drop 3).length := by omega
          simp [List.getElem?_eq_getElem this]
        rw [if_pos this]
        simp

theorem readNBytes_len (n : Nat) (avail b : Bytes) (h : (readNBytes n avail).2 = some b) : b.length = n := by
  unfold readNBytes at h
  split at h <;> simp only at h <;> split at h <;> simp at h <;> subst h <;> simp <;> omega

theorem getMetaTempo_ne_panic (m : Bytes) : getMetaTempo m ≠ .panic := by
  unfold getMetaTempo
  obtain ⟨t, _, h⟩ := msgIs_eq .smf m MetaTempoMsg
  rw [h]
  cases typeIs t MetaTempoMsg <;> simp only
  · simp
  · split
    · simp
    · rw [sliceFrom_some (m := m) (k := 3) (by omega)]
      simp only
      cases hr : (readNBytes 3 (m.drop 3)).2 with
      | none => simp
      | some b =>
        have hl := readNBytes_len _ _ _ hr
        obtain ⟨x, hx⟩ := idx_some (m := b) (i := 0) (by omega)
        obtain ⟨y, hy⟩ := idx_some (m := b) (i := 1) (by omega)
        obtain ⟨z, hz⟩ := idx_some (m := b) (i := 2) (by omega)
        simp [hx, hy, hz]

theorem textAlloc_some {m : Bytes} (h : 2 ≤ m.length) : ∃ a, textAlloc m = some a := by
  unfold textAlloc; rw [sliceFrom_some h]; exact ⟨_, rfl⟩

theorem getMetaText_ne_panic (T : Int) (m : Bytes) : getMetaText T m ≠ .panic := by
  unfold getMetaText
  obtain ⟨t, _, h⟩ := msgIs_eq .smf m T
  rw [h]
  cases typeIs t T <;> simp only
  · simp
  · split
    · simp
    · obtain ⟨a, ha⟩ := textAlloc_some (m := m) (by omega)
      simp [ha]

/-- a meta message with a known (non-zero) type has at least the two bytes `FF type` -/
theorem meta_len (m : Bytes) (t : Int) (hm : smfIsMeta m = some true) (ht : smfGetType m = some t)
    (hne : t ≠ UnknownMsg) : 2 ≤ m.length := by
  rcases m with _ | ⟨b, _ | ⟨c, r⟩⟩
  · simp at hm
  · simp only [smfIsMeta_cons, Option.some.injEq, decide_eq_true_eq] at hm
    subst hm
    simp only [smfGetType_ff, Option.some.injEq] at ht
    exact absurd ht.symm hne
  · simp

theorem smfStrBranch_ne_panic (m : Bytes) : smfStrBranch m ≠ .panic := by
  unfold smfStrBranch
  obtain ⟨b, hb⟩ := smfIsMeta_total m
  rw [hb]
  cases b <;> simp only
  · have := strBranch_ne_panic m
    split <;> simp_all
  · obtain ⟨t, ht⟩ := smfGetType_total m
    rw [ht]
    simp only
    have hf : firstYes [(1, (getMetaTempo m).unit), (2, (getMetaTimeSig m).unit),
          (3, (getMeta1 MetaChannelMsg m).unit), (4, (getMeta1 MetaPortMsg m).unit),
          (5, (getMetaSeqNumber m).unit), (6, (getMetaSMPTEOffset m).unit),
          (7, (getMetaSeqData m).unit), (8, (getMetaKeySig m).unit)] ≠ .panic := by
      apply firstYes_ne_panic
      intro p hp
      simp only [List.mem_cons, List.not_mem_nil, or_false] at hp
      rcases hp with rfl | rfl | rfl | rfl | rfl | rfl | rfl | rfl <;> apply unit_ne_panic
      · exact getMetaTempo_ne_panic m
      · exact getMetaFixed_ne_panic _ _ _ (by omega) m
      · exact getMeta1_ne_panic _ m
      · exact getMeta1_ne_panic _ m
      · exact getMetaSeqNumber_ne_panic m
      · exact getMetaFixed_ne_panic _ _ _ (by omega) m
      · exact getMetaSeqData_ne_panic m
      · exact getMetaFixed_ne_panic _ _ _ (by omega) m
    split
    · rename_i h; exact absurd h hf
    · simp
    · split
      · rename_i hc
        have hne : t ≠ UnknownMsg := by
          intro h0; subst h0; revert hc; decide
        obtain ⟨a, ha⟩ := textAlloc_some (meta_len m t hb ht hne)
        simp [ha]
      · simp
    · simp

/-! ## allocation requested by the length-prefixed reads -/

theorem readAux_rest (f acc : Nat) (bs : Bytes) (n : Nat) (rest : Bytes)
    (h : Vlq.readAux f acc bs = some (n, rest)) : rest.length ≤ bs.length := by
  induction f generalizing acc bs with
  | zero => simp [Vlq.readAux] at h
  | succ f ih =>
    cases bs with
    | nil => simp [Vlq.readAux] at h
    | cons b bs =>
      simp only [Vlq.readAux] at h
      split at h
      · simp only [Option.some.injEq, Prod.mk.injEq] at h
        rw [← h.2]; simp
      · have := ih _ _ h
        simp only [List.length_cons]; omega

theorem readVarLengthData_alloc (bs : Bytes) : (readVarLengthData bs).1 ≤ max 4096 bs.length := by
  unfold readVarLengthData
  cases h : Vlq.read bs with
  | none => simp
  | some p =>
    obtain ⟨n, rest⟩ := p
    have := readAux_rest _ _ _ _ _ h
    simp only [readNBytes]
    split <;> simp only <;> omega

theorem smfStrBranch_alloc (m : Bytes) (b a : Nat) (h : smfStrBranch m = .yes (b, a)) : a ≤ max 4096 m.length := by
  have hd : (readVarLengthData (m.drop 2)).1 ≤ max 4096 m.length := by
    have := readVarLengthData_alloc (m.drop 2)
    simp only [List.length_drop] at this
    omega
  have ha7 : ∀ t : Int, (if t = MetaSeqDataMsg ∧ m.length ≥ 4 then (readVarLengthData (m.drop 2)).1 else 0) ≤ max 4096 m.length := by
    intro t; split
    · exact hd
    · omega
  unfold smfStrBranch at h
  split at h
  · simp at h
  · split at h <;> simp at h
    omega
  · split at h
    · simp at h
    · rename_i t ht
      simp only at h
      split at h
      · simp at h
      · simp at h
      · split at h
        · split at h
          · simp at h
          · rename_i a' ha'
            simp only [Res.yes.injEq, Prod.mk.injEq] at h
            rw [← h.2]
            unfold textAlloc at ha'
            split at ha'
            · simp at ha'
            · rename_i r hr
              unfold sliceFrom at hr
              split at hr <;> simp at hr
              subst hr
              simp only [Option.some.injEq] at ha'
              rw [← ha']; exact hd
        · simp only [Res.yes.injEq, Prod.mk.injEq] at h
          rw [← h.2]; exact ha7 t
      · simp only [Res.yes.injEq, Prod.mk.injEq] at h
        rw [← h.2]; exact ha7 t

end Midi.Msg

namespace Midi.Msg

/-! ## categories -/

/-- the five wire categories of `midi.Message` -/
def midiCategories : List Int := [UnknownMsg, RealTimeMsg, SysCommonMsg, ChannelMsg, SysExMsg]

/-- number of categories among `cs` a type belongs to -/
def catCount (cs : List Int) (t : Int) : Nat := (cs.filter (fun c => typeIs t c)).length

theorem status_cat : ∀ b < 256, catCount midiCategories (typeOfStatus b) = 1 ∧ catCount categories (typeOfStatus b) = 1 ∧
    typeIs (typeOfStatus b) MetaMsg = false := by decide +kernel

theorem meta_cat : ∀ b < 256, catCount categories (getMetaType b) = 1 ∧
    (getMetaType b = UnknownMsg ∨ typeIs (getMetaType b) MetaMsg = true) := by decide +kernel

theorem msgIs_of_type {v : View} {m : Bytes} {t : Int} (h : typeOf v m = some t) (T : Int) :
    msgIs v m T = some (typeIs t T) := by simp [msgIs, h]

theorem filter_cat {v : View} {m : Bytes} {t : Int} (h : typeOf v m = some t) (cs : List Int) :
    (cs.filter (fun c => msgIs v m c == some true)).length = catCount cs t := by
  unfold catCount
  congr 1
  apply List.filter_congr
  intro c _
  rw [msgIs_of_type h]
  cases typeIs t c <;> rfl

/-- the type `midi.Message` reports is the type of a status byte `< 256`, or unknown for the empty message -/
theorem getType_cases (m : Bytes) (h : AllBytes m) :
    getType m = some UnknownMsg ∨ ∃ b, b < 256 ∧ getType m = some (typeOfStatus b) := by
  cases m with
  | nil => left; rfl
  | cons b r => right; exact ⟨b, h b (by simp), getType_cons b r⟩

theorem smfGetType_cases (m : Bytes) (h : AllBytes m) :
    smfGetType m = some UnknownMsg ∨ (∃ b, b < 256 ∧ smfGetType m = some (typeOfStatus b)) ∨
    (∃ b, b < 256 ∧ smfGetType m = some (getMetaType b)) := by
  rcases m with _ | ⟨b, _ | ⟨c, r⟩⟩
  · left; rfl
  · by_cases hb : b = 0xFF
    · subst hb; left; simp
    · right; left; exact ⟨b, h b (by simp), smfGetType_plain _ _ hb⟩
  · by_cases hb : b = 0xFF
    · subst hb; right; right; exact ⟨c, h c (by simp), smfGetType_meta c r⟩
    · right; left; exact ⟨b, h b (by simp), smfGetType_plain _ _ hb⟩

end Midi.Msg
