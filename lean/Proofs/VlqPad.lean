import Proofs.Vlq
/-! Non-minimal variable-length quantities: leading `0x80` bytes do not change the value read. -/
namespace Midi.Vlq

theorem tailLE_length (f q : Nat) : (tailLE f q).length ≤ f := by
  induction f generalizing q with
  | zero => simp [tailLE]
  | succ f ih => unfold tailLE; split <;> simp [ih]

theorem encode_length_le (n : Nat) : (encode n).length ≤ 6 := by
  have := tailLE_length 5 (n / 128)
  simp [encode]; omega

/-- `ReadVarLength` with any sufficient fuel -/
theorem readAux_encode (n : Nat) (hn : n < 4294967296) (rest : List Nat) (fuel : Nat) (hf : 6 ≤ fuel) :
    readAux fuel 0 (encode n ++ rest) = some (n, rest) := by
  unfold encode
  have hq : n / 128 < 128 ^ 5 := by
    rw [Nat.div_lt_iff_lt_mul (by decide)]; omega
  obtain ⟨hv, hd⟩ := tailLE_val 5 (n / 128) hq
  simp only [List.reverse_cons, List.append_assoc, List.singleton_append]
  have hlen := tailLE_length 5 (n / 128)
  have := readAux_digits (tailLE 5 (n/128)).reverse (n % 128) rest 0 fuel
    (by intro d hd'; exact hd d (by simpa using hd')) (by omega)
    (by simp; omega) (by rw [hv]; omega)
  rw [this, hv]
  congr 2; omega

theorem readAux_pad (p : Nat) (bs : List Nat) (fuel : Nat) :
    readAux (fuel + p) 0 (List.replicate p 0x80 ++ bs) = readAux fuel 0 bs := by
  induction p with
  | zero => simp
  | succ p ih =>
    have : fuel + (p + 1) = (fuel + p) + 1 := by omega
    rw [this]
    simp only [List.replicate_succ, List.cons_append, readAux]
    simpa using ih

/-- the reader accepts non-minimal quantities -/
theorem read_padded (p n : Nat) (hn : n < 4294967296) (rest : List Nat) :
    read (List.replicate p 0x80 ++ encode n ++ rest) = some (n, rest) := by
  unfold read
  have h1 : 1 ≤ (encode n).length := by simp [encode]
  have hl : (List.replicate p 0x80 ++ encode n ++ rest).length + 1 = ((encode n).length + rest.length + 1) + p := by
    simp only [List.length_append, List.length_replicate]; omega
  rw [hl, List.append_assoc, readAux_pad]
  by_cases h6 : 6 ≤ (encode n).length + rest.length + 1
  · exact readAux_encode n hn rest _ h6
  · -- short input: fall back on the exact-fuel theorem
    have := read_encode n hn rest
    unfold read at this
    simpa [List.length_append] using this

end Midi.Vlq
