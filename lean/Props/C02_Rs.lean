import Props.C01_Rs
/-!
# C02, tie to the source: the running-status reader of `internal/runningstatus` (`smfreader.Read`) as translated on
every run follows the rule the reader model `Smf.readEvent` applies (proved in `Props/C01_Rs.lean`).
-/
namespace Midi.C02
open Midi Midi.Go

theorem code_rsRead (rr c : Nat) :
    runningstatus.smfreader.Read ⟨⟨rr⟩⟩ c =
      .ok (if c = 0xFF ∨ c = 0xF0 ∨ c = 0xF7 then (⟨⟨0⟩⟩, 0, true)
           else if Smf.isChanStatus c then (⟨⟨c⟩⟩, c, true) else (⟨⟨rr⟩⟩, rr, false)) :=
  Midi.C01.code_rsRead rr c

end Midi.C02
