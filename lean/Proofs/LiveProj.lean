import Proofs.LiveInv
import Proofs.LiveRules
/-!
# Live decoder: the listen options are projections (C14) — helper lemmas

`Rel c s s'`: `s` runs under the options `c`, `s'` under `allOn c` (same buffer size). The control state
(mode, running status, typ, pending byte, clock, panic flag) is the same; the sysex buffer is the same when
the sysex option is on. With sysex off the `c` run produces no sysex frame and the all-on run's sysex frames
start with `F0`, so the filter removes them.
-/
namespace Midi.Live
open Midi

/-- all three options on, same sysex buffer size -/
def allOn (c : Cfg) : Cfg := { c with sysex := true, as := true, tc := true }

/-- the option filter judged on the delivered message: drops exactly active sense (FE) / timing clock (F8) /
    sysex (F0…) messages whose option is off -/
def keepMsg (c : Cfg) (m : Option Bytes × Int) : Bool :=
  match m.1 with
  | some (h :: _) => !((h = 0xFE && !c.as) || (h = 0xF8 && !c.tc) || (h = 0xF0 && !c.sysex))
  | _ => true

theorem allOn_bufSize (c : Cfg) : (allOn c).bufSize = c.bufSize := rfl

theorem keep_allOn (c : Cfg) (f : Frame) : keep (allOn c) f = true := by
  unfold keep allOn
  split <;> simp

/-- everything the options cannot influence -/
structure Ctrl where
  mode : Mode
  status : Nat
  typ : Nat
  pend : Option Nat
  ts : Int
  panicked : Bool
deriving DecidableEq

def ctrl (s : St) : Ctrl := ⟨s.mode, s.status, s.typ, s.pend, s.ts, s.panicked⟩

structure Rel (c : Cfg) (s s' : St) : Prop where
  ctrl_eq : ctrl s = ctrl s'
  sx_eq : c.sysex = true → s.sx = s'.sx ∧ s.sxTs = s'.sxTs

theorem Rel.refl (c : Cfg) (s : St) : Rel c s s := ⟨rfl, fun _ => ⟨rfl, rfl⟩⟩

theorem withinChan_rel (c : Cfg) (s s' : St) (b : Nat) (h : Rel c s s') :
    Rel c (withinChan s b).1 (withinChan s' b).1 ∧ (withinChan s b).2 = (withinChan s' b).2 := by
  obtain ⟨m, st, ty, pe, sx, sxt, ts, pa⟩ := s
  obtain ⟨m', st', ty', pe', sx', sxt', ts', pa'⟩ := s'
  obtain ⟨hc, hs⟩ := h
  simp only [ctrl, Ctrl.mk.injEq] at hc
  obtain ⟨rfl, rfl, rfl, rfl, rfl, rfl⟩ := hc
  unfold withinChan
  simp only
  split
  · exact ⟨⟨rfl, hs⟩, rfl⟩
  · split
    · split
      · exact ⟨⟨rfl, hs⟩, rfl⟩
      · exact ⟨⟨rfl, hs⟩, rfl⟩
    · exact ⟨⟨rfl, hs⟩, rfl⟩

theorem cleanState_rel (c : Cfg) (s s' : St) (b : Nat) (h : Rel c s s') :
    Rel c (cleanState s b).1 (cleanState s' b).1 ∧ (cleanState s b).2 = (cleanState s' b).2 := by
  have hw := withinChan_rel c { s with mode := .chan } { s' with mode := .chan } b
    (by obtain ⟨hc, hs⟩ := h
        simp only [ctrl, Ctrl.mk.injEq] at hc
        exact ⟨by simp [ctrl, hc], hs⟩)
  obtain ⟨m, st, ty, pe, sx, sxt, ts, pa⟩ := s
  obtain ⟨m', st', ty', pe', sx', sxt', ts', pa'⟩ := s'
  obtain ⟨hc, hs⟩ := h
  simp only [ctrl, Ctrl.mk.injEq] at hc
  obtain ⟨rfl, rfl, rfl, rfl, rfl, rfl⟩ := hc
  unfold cleanState
  simp only
  split
  · exact ⟨⟨rfl, fun _ => ⟨rfl, rfl⟩⟩, rfl⟩
  · split
    · exact ⟨⟨rfl, fun hh => ⟨rfl, (hs hh).2⟩⟩, rfl⟩
    · split
      · split
        · exact ⟨⟨rfl, hs⟩, rfl⟩
        · split
          · exact ⟨⟨rfl, hs⟩, rfl⟩
          · exact ⟨⟨rfl, hs⟩, rfl⟩
      · split
        · exact ⟨⟨rfl, hs⟩, rfl⟩
        · split
          · exact hw
          · exact ⟨⟨rfl, hs⟩, rfl⟩

theorem syscStep_rel (c : Cfg) (s s' : St) (b : Nat) (h : Rel c s s') :
    Rel c (syscStep s b).1 (syscStep s' b).1 ∧ (syscStep s b).2 = (syscStep s' b).2 := by
  obtain ⟨m, st, ty, pe, sx, sxt, ts, pa⟩ := s
  obtain ⟨m', st', ty', pe', sx', sxt', ts', pa'⟩ := s'
  obtain ⟨hc, hs⟩ := h
  simp only [ctrl, Ctrl.mk.injEq] at hc
  obtain ⟨rfl, rfl, rfl, rfl, rfl, rfl⟩ := hc
  unfold syscStep
  simp only
  split
  · exact ⟨⟨rfl, hs⟩, rfl⟩
  · split
    · split
      · exact ⟨⟨rfl, hs⟩, rfl⟩
      · exact ⟨⟨rfl, hs⟩, rfl⟩
    · exact ⟨⟨rfl, hs⟩, rfl⟩

/-- a complete sysex frame passes the filter iff the sysex option is on -/
theorem keep_sysex_frame (c : Cfg) (u : Bytes) (t : Int) :
    keep c ((0xF0 :: u) ++ [0xF7], t) = c.sysex := by
  cases hh : c.sysex <;> simp [keep, hh]

theorem sysexStep_congr (c c' : Cfg) (s : St) (b : Nat) (h1 : c.sysex = c'.sysex) (h2 : c.bufSize = c'.bufSize) :
    sysexStep c s b = sysexStep c' s b := by
  unfold sysexStep; rw [h1, h2]

theorem sysexStep_rel (c : Cfg) (s s' : St) (b : Nat) (h : Rel c s s') (hi : Inv (allOn c) s')
    (hm : s'.mode = .sysex) :
    Rel c (sysexStep c s b).1 (sysexStep (allOn c) s' b).1 ∧
    (sysexStep c s b).2.filter (keep c) = (sysexStep (allOn c) s' b).2.filter (keep c) := by
  cases hh : c.sysex with
  | true =>
    have hst : s = s' := by
      obtain ⟨m, st, ty, pe, sx, sxt, ts, pa⟩ := s
      obtain ⟨m', st', ty', pe', sx', sxt', ts', pa'⟩ := s'
      obtain ⟨hc, hs⟩ := h
      simp only [ctrl, Ctrl.mk.injEq] at hc
      obtain ⟨rfl, rfl, rfl, rfl, rfl, rfl⟩ := hc
      obtain ⟨h1, h2⟩ := hs hh
      simp only at h1 h2; subst h1 h2; rfl
    subst hst
    rw [sysexStep_congr c (allOn c) s b (by rw [hh]; rfl) rfl]
    exact ⟨Rel.refl _ _, rfl⟩
  | false =>
    have hcs := fun t t' (ht : Rel c t t') => cleanState_rel c t t' b ht
    have hsx := hi.sx_sysex hm
    obtain ⟨m, st, ty, pe, sx, sxt, ts, pa⟩ := s
    obtain ⟨m', st', ty', pe', sx', sxt', ts', pa'⟩ := s'
    obtain ⟨hc, hs⟩ := h
    simp only [ctrl, Ctrl.mk.injEq] at hc
    obtain ⟨rfl, rfl, rfl, rfl, rfl, rfl⟩ := hc
    simp only at hm hsx; subst hm
    have hsf : ∀ x y : Bytes × Int, c.sysex = true → x.1 = y.1 ∧ x.2 = y.2 := fun _ _ h => by simp [hh] at h
    have hrel : ∀ x y : St, ctrl x = ctrl y → Rel c x y := fun x y hx => ⟨hx, fun h => by simp [hh] at h⟩
    unfold sysexStep
    have ea : (allOn c).sysex = true := rfl
    simp only [ea, hh, true_and]
    by_cases hF0 : b = 0xF0
    · rw [if_pos hF0, if_pos hF0]
      exact ⟨hrel _ _ rfl, rfl⟩
    · by_cases hF7 : b = 0xF7
      · rw [if_neg hF0, if_pos hF7, if_neg hF0, if_pos hF7]
        refine ⟨hrel _ _ rfl, ?_⟩
        have e : ¬ (false = true ∧ sx ≠ [] ∧ sx.length < c.bufSize) := by simp
        rw [if_neg e]
        by_cases hcond : sx' ≠ [] ∧ sx'.length < (allOn c).bufSize
        · rw [if_pos hcond]
          rcases hsx with he | ⟨d, hd, _, _⟩
          · exact absurd he hcond.1
          · subst hd
            have hk : keep c (0xF0 :: (d ++ [0xF7]), sxt') = false := by
              have := keep_sysex_frame c d sxt'
              rw [hh] at this; exact this
            simp [hk]
        · rw [if_neg hcond]
      · by_cases hst : 0x80 ≤ b
        · rw [if_neg hF0, if_neg hF7, if_pos hst, if_neg hF0, if_neg hF7, if_pos hst]
          have := hcs ⟨.clean, st, ty, pe, [], sxt, ts, pa⟩ ⟨.clean, st, ty, pe, [], sxt', ts, pa⟩
            (hrel _ _ rfl)
          rw [this.2]; exact ⟨this.1, rfl⟩
        · rw [if_neg hF0, if_neg hF7, if_neg hst, if_neg hF0, if_neg hF7, if_neg hst]
          have e : ¬ (false = true ∧ sx ≠ []) := by simp
          rw [if_neg e]
          by_cases hne : sx' ≠ []
          · rw [if_pos hne]
            by_cases hl : sx'.length < (allOn c).bufSize
            · rw [if_pos hl]; exact ⟨hrel _ _ rfl, rfl⟩
            · rw [if_neg hl]; exact ⟨hrel _ _ rfl, rfl⟩
          · rw [if_neg hne]; exact ⟨hrel _ _ rfl, rfl⟩

theorem Rel.mode_eq {c : Cfg} {s s' : St} (h : Rel c s s') : s.mode = s'.mode := by
  have := h.ctrl_eq; simp only [ctrl, Ctrl.mk.injEq] at this; exact this.1

theorem Rel.ts_eq {c : Cfg} {s s' : St} (h : Rel c s s') : s.ts = s'.ts := by
  have := h.ctrl_eq; simp only [ctrl, Ctrl.mk.injEq] at this; exact this.2.2.2.2.1

theorem Rel.with_clean {c : Cfg} {s s' : St} (h : Rel c s s') :
    Rel c { s with pend := none, mode := .clean } { s' with pend := none, mode := .clean } := by
  obtain ⟨hc, hs⟩ := h
  simp only [ctrl, Ctrl.mk.injEq] at hc
  exact ⟨by simp [ctrl, hc], hs⟩

theorem Rel.with_mode_clean {c : Cfg} {s s' : St} (h : Rel c s s') :
    Rel c { s with mode := .clean } { s' with mode := .clean } := by
  obtain ⟨hc, hs⟩ := h
  simp only [ctrl, Ctrl.mk.injEq] at hc
  exact ⟨by simp [ctrl, hc], hs⟩

/-- one byte: the relation is preserved and the filtered frames agree -/
theorem step_rel (c : Cfg) (s s' : St) (b : Nat) (h : Rel c s s') (hi : Inv (allOn c) s') :
    Rel c (step c s b).1 (step (allOn c) s' b).1 ∧
    (step c s b).2.filter (keep c) = (step (allOn c) s' b).2.filter (keep c) := by
  have hmode := h.mode_eq
  by_cases hrt : 0xF8 ≤ b
  · rw [step_rt c s b hrt, step_rt (allOn c) s' b hrt, h.ts_eq]; exact ⟨h, rfl⟩
  · have hb : b < 0xF8 := by omega
    cases hm : s'.mode with
    | sysex =>
      rw [step_sysex c s b hb (hmode.trans hm), step_sysex (allOn c) s' b hb hm]
      exact sysexStep_rel c s s' b h hi hm
    | clean =>
      rw [step_clean c s b hb (hmode.trans hm), step_clean (allOn c) s' b hb hm]
      have := cleanState_rel c s s' b h
      rw [this.2]; exact ⟨this.1, rfl⟩
    | unknown =>
      rw [step_unknown c s b hb (hmode.trans hm), step_unknown (allOn c) s' b hb hm]
      split
      · have := cleanState_rel c _ _ b h.with_mode_clean
        rw [this.2]; exact ⟨this.1, rfl⟩
      · exact ⟨h, rfl⟩
    | sysc =>
      rw [step_sysc c s b hb (hmode.trans hm), step_sysc (allOn c) s' b hb hm]
      split
      · have := cleanState_rel c _ _ b h.with_clean
        rw [this.2]; exact ⟨this.1, rfl⟩
      · have := syscStep_rel c s s' b h
        rw [this.2]; exact ⟨this.1, rfl⟩
    | chan =>
      rw [step_chan c s b hb (hmode.trans hm), step_chan (allOn c) s' b hb hm]
      split
      · have := cleanState_rel c _ _ b h.with_clean
        rw [this.2]; exact ⟨this.1, rfl⟩
      · have := withinChan_rel c s s' b h
        rw [this.2]; exact ⟨this.1, rfl⟩

theorem stepTok_rel (c : Cfg) (s s' : St) (t : Tok) (h : Rel c s s') (hi : Inv (allOn c) s') :
    Rel c (stepTok c s t).1 (stepTok (allOn c) s' t).1 ∧
    (stepTok c s t).2.filter (keep c) = (stepTok (allOn c) s' t).2.filter (keep c) := by
  cases t with
  | byte b => exact step_rel c s s' b h hi
  | tick d =>
    obtain ⟨hc, hs⟩ := h
    simp only [ctrl, Ctrl.mk.injEq] at hc
    exact ⟨⟨by simp [stepTok, ctrl, hc], hs⟩, rfl⟩

theorem feed_rel (c : Cfg) (toks : List Tok) (s s' : St) (h : Rel c s s') (hi : Inv (allOn c) s') :
    Rel c (feed c s toks).1 (feed (allOn c) s' toks).1 ∧
    (feed c s toks).2.filter (keep c) = (feed (allOn c) s' toks).2.filter (keep c) := by
  induction toks generalizing s s' with
  | nil => exact ⟨h, rfl⟩
  | cons t ts ih =>
    have h1 := stepTok_rel c s s' t h hi
    have h2 := ih _ _ h1.1 (stepTok_inv (allOn c) s' t hi).1
    simp only [feed, List.filter_append]
    exact ⟨h2.1, by rw [h1.2, h2.2]⟩

/-- raw frame level: what the driver hands on under options `c` is the projection of what it hands on with
    all options on -/
theorem frames_projection (c : Cfg) (toks : List Tok) (s : St) (hi : Inv (allOn c) s) :
    (feed c s toks).2.filter (keep c) = (feed (allOn c) s toks).2.filter (keep c) :=
  (feed_rel c toks s s (Rel.refl c s) hi).2

/-! ## through `retype` -/

theorem filter_filterMap_of {α β : Type} (p : β → Bool) (q : α → Bool) (g : α → Option β) (l : List α)
    (h : ∀ x ∈ l, ∀ y, g x = some y → p y = q x) : (l.filterMap g).filter p = (l.filter q).filterMap g := by
  induction l with
  | nil => rfl
  | cons x xs ih =>
    have ih' := ih (fun a ha => h a (by simp [ha]))
    cases hg : g x with
    | none =>
      rw [List.filterMap_cons_none hg]
      by_cases hq : q x = true
      · rw [List.filter_cons_of_pos hq, List.filterMap_cons_none hg]; exact ih'
      · rw [List.filter_cons_of_neg hq]; exact ih'
    | some y =>
      have hpq := h x (by simp) y hg
      rw [List.filterMap_cons_some hg]
      by_cases hq : q x = true
      · rw [List.filter_cons_of_pos hq, List.filterMap_cons_some hg, List.filter_cons_of_pos (by rw [hpq]; exact hq), ih']
      · rw [List.filter_cons_of_neg hq, List.filter_cons_of_neg (by rw [hpq]; exact hq), ih']

/-- `retype` never moves a frame of the reader into another option class: the filter on the raw frame and the
    filter on the delivered message agree -/
theorem keepMsg_retype (c c' : Cfg) (f : Frame) (hw : WfFrame c' f) (m : Option Bytes) (hr : retype f.1 = some m) :
    keepMsg c (m, f.2) = keep c f := by
  rcases retype_wf c' f hw with ⟨_, hn⟩ | ⟨h7, bs, hbs, _, hh⟩
  · rw [hn] at hr; cases hr
  · rw [hbs] at hr
    have hm : m = some bs := (Option.some.inj hr).symm
    subst hm
    cases hf : f.1 with
    | nil =>
      rcases hw with ⟨b, e, _⟩ | ⟨st, d1, d2, e, _⟩ | ⟨_, d, e, _⟩ <;> rw [hf] at e <;> cases e
    | cons x r =>
      rw [hf] at hh h7
      cases bs with
      | nil => simp at hh
      | cons y r' =>
        simp only [List.head?_cons, Option.some.injEq] at hh h7
        subst hh
        have h7' : ¬ y = 0xF7 := fun e => h7 (by rw [e])
        simp only [keepMsg, keep, hf]
        simp [h7']

/-- listener level, from any state satisfying the invariant -/
theorem listenFrames_projection (c : Cfg) (toks : List Tok) (s : St) (hi : Inv (allOn c) s) :
    listenFrames c (feed c s toks).2 =
      (listenFrames (allOn c) (feed (allOn c) s toks).2).filter (keepMsg c) := by
  have hall : (feed (allOn c) s toks).2.filter (keep (allOn c)) = (feed (allOn c) s toks).2 :=
    List.filter_eq_self.mpr (fun f _ => keep_allOn c f)
  unfold listenFrames
  rw [hall, frames_projection c toks s hi]
  symm
  apply filter_filterMap_of
  intro f hf y hy
  have hw := (feed_inv (allOn c) toks s hi).2 f hf
  obtain ⟨m, hm, rfl⟩ := Option.map_eq_some_iff.mp hy
  exact keepMsg_retype c (allOn c) f hw m hm

end Midi.Live
