import MidiModel.Basic
/-!
# The midicat text line protocol (`drivers/midicat/midicat.go`, encoder side `drivers/midicatdrv/out.go`)

One record per line: `fmt.Fprintf(wr, "%d %X\n", ts, bytes)`; the reader `ReadAndConvert` pulls single
bytes out of an `io.Reader` up to `'\n'`, hands what preceded the `' '` to `strconv.ParseInt(…, 10, 32)`
and what followed to `encoding/hex.Decode` (the code after the repair `fix: midicat line reader accepted
malformed lines`; before it both fields went through `fmt.Sscanf`, which ignores trailing garbage).

Everything is over explicit byte lists (`List Nat`, ASCII codes: `' '` = 32, `'\n'` = 10, `'-'` = 45,
`'+'` = 43). `ParseInt` and `hex.Decode` are modelled from the Go 1.23 sources at byte level and
validated differentially (harness/c19.go, garbage streams).
-/
namespace Midi.Midicat

/-! ## Encoder: `fmt.Fprintf(wr, "%d %X\n", ts, bytes)` -/

/-- decimal digits of `n`, most significant first; 10 rounds suffice for `n < 10^11` (int32 needs 10) -/
def natDecF : Nat → Nat → Bytes
  | 0, n => [48 + n % 10]
  | f+1, n => if n < 10 then [48 + n] else natDecF f (n / 10) ++ [48 + n % 10]

def natDec (n : Nat) : Bytes := natDecF 10 n

/-- `%d` of an `int32` -/
def decimal (i : Int) : Bytes := if i < 0 then 45 :: natDec i.natAbs else natDec i.toNat

/-- upper-case hex digit `0-9A-F` of a nibble -/
def hexChar (n : Nat) : Nat := if n < 10 then 48 + n else 55 + n

/-- `%X` of one byte -/
def hexUp (b : Nat) : Bytes := [hexChar (b / 16 % 16), hexChar (b % 16)]

/-- `%X` of a byte slice -/
def hexStr (bs : Bytes) : Bytes := bs.flatMap hexUp

/-- one record in the driver's line format -/
def encodeRec (ts : Int) (bs : Bytes) : Bytes := decimal ts ++ 32 :: (hexStr bs ++ [10])

def encodeStream : List (Int × Bytes) → Bytes
  | [] => []
  | (ts, bs) :: r => encodeRec ts bs ++ encodeStream r

/-! ## The field parsers: `strconv.ParseInt(s, 10, 32)` and `encoding/hex.Decode` -/

def isDigit (b : Nat) : Bool := 48 ≤ b && b ≤ 57

/-- value of a digit string -/
def digitsVal (ds : Bytes) : Nat := ds.foldl (fun a d => a * 10 + (d - 48)) 0

/-- `convertDelta`: `strconv.ParseInt(string(b), 10, 32)`; `none` = error. The whole field must be an optional
    sign followed by at least one decimal digit and nothing else (no blanks, no underscores in base 10), and
    the value must fit into an `int32` (`ErrRange` otherwise). -/
def parseInt (bf : Bytes) : Option Int :=
  match bf with
  | [] => none
  | c :: r =>
    let neg := c = 45
    let body := if c = 45 ∨ c = 43 then r else c :: r
    if body = [] then none
    else if body.all isDigit then
      let v : Int := if neg then -(digitsVal body : Int) else (digitsVal body : Int)
      if -2147483648 ≤ v ∧ v ≤ 2147483647 then some v else none
    else none

/-- `reverseHexTable` of `encoding/hex`: both cases accepted -/
def hexVal (b : Nat) : Option Nat :=
  if 48 ≤ b ∧ b ≤ 57 then some (b - 48)
  else if 65 ≤ b ∧ b ≤ 70 then some (b - 55)
  else if 97 ≤ b ∧ b ≤ 102 then some (b - 87)
  else none

def isHex (b : Nat) : Bool := (hexVal b).isSome

/-- `hex.Decode(out, b)`: every pair must consist of two hex digits (`InvalidByteError` otherwise), a
    single digit left over is `ErrLength`; `none` = error -/
def hexDecode : Bytes → Option Bytes
  | [] => some []
  | [_] => none
  | c1 :: c2 :: r =>
    match hexVal c1 with
    | none => none
    | some v1 =>
      match hexVal c2 with
      | none => none
      | some v2 => (hexDecode r).map (fun t => (v1 * 16 + v2) :: t)

/-- `convert`: an empty field is an error ("missing message bytes"), otherwise `hex.Decode` of the whole field -/
def scanHex (b : Bytes) : Option Bytes :=
  if b = [] then none else hexDecode b

/-! ## The reader on an in-memory stream -/

inductive ErrKind
  /-- `rd.Read` returned an error (`io.EOF` at the end of the stream) -/
  | read
  /-- `convertDelta` failed (reported at the blank; the rest of the line stays in the stream) -/
  | delta
  /-- a second blank inside a line (reported at once; the rest of the line stays in the stream) -/
  | sep
  /-- `convert` failed (after the whole line was consumed) -/
  | hex
  deriving DecidableEq, Repr

/-- outcome of one `ReadAndConvert` call, by class -/
inductive Res
  | ok (ts : Int) (msg : Bytes)
  | err (k : ErrKind)
  deriving DecidableEq, Repr

/-- local variables of `Read` -/
structure St where
  deltaRead : Bool := false
  deltaBf : Bytes := []
  out : Bytes := []
  deltams : Int := 0
  deriving DecidableEq, Repr

/-- the `for` loop of `Read` on the bytes obtained from the reader; returns `Read`'s result and the bytes
    not consumed. The first blank converts `deltaBf`, a second one is an error; newline returns; other bytes
    go to `out` after the blank, to `deltaBf` before. -/
def readLoop : Bytes → St → Except ErrKind (Int × Bytes) × Bytes
  | [], _ => (.error .read, [])
  | b :: rest, st =>
    if b = 32 then
      if st.deltaRead then (.error .sep, rest)
      else match parseInt st.deltaBf with
        | none => (.error .delta, rest)
        | some d => readLoop rest { st with deltams := d, deltaRead := true }
    else if b = 10 then (.ok (st.deltams, st.out), rest)
    else if st.deltaRead then readLoop rest { st with out := st.out ++ [b] }
    else readLoop rest { st with deltaBf := st.deltaBf ++ [b] }

/-- `ReadAndConvert` on an in-memory stream: result class and remaining stream -/
def readAndConvert (inp : Bytes) : Res × Bytes :=
  match readLoop inp {} with
  | (.error k, rest) => (.err k, rest)
  | (.ok (d, out), rest) =>
    match scanHex out with
    | none => (.err .hex, rest)
    | some bs => (.ok d bs, rest)

/-- `n` successive calls -/
def readMany : Nat → Bytes → List Res × Bytes
  | 0, inp => ([], inp)
  | n+1, inp =>
    let (r, rest) := readAndConvert inp
    let (rs, rest') := readMany n rest
    (r :: rs, rest')

/-! ## The reader on a fragmenting source -/

/-- An `io.Reader` holding `data`. `frags` are the sizes of the pieces in which the underlying stream
    arrives (a `Read` never crosses a piece border; a piece of size 0 is a `Read` returning `(0, nil)`;
    once the list is used up the remainder is one piece). `eofWithData`: the `Read` that delivers the last
    byte returns `io.EOF` together with it (allowed by the `io.Reader` contract). -/
structure Src where
  data : Bytes
  frags : List Nat := []
  eofWithData : Bool := false
  deriving DecidableEq, Repr

/-- one `Read(p)` with `len(p) = k`: delivered bytes, "an error (`io.EOF`) was returned", source after -/
def Src.read (s : Src) (k : Nat) : Bytes × Bool × Src :=
  if s.data = [] then ([], true, s)
  else
    match s.frags with
    | [] =>
      let n := min k s.data.length
      (s.data.take n, s.eofWithData && n = s.data.length, { s with data := s.data.drop n })
    | f :: fs =>
      if f = 0 then ([], false, { s with frags := fs })
      else
        let n := min k (min f s.data.length)
        (s.data.take n, s.eofWithData && n = s.data.length,
         { s with data := s.data.drop n, frags := if f - n = 0 then fs else (f - n) :: fs })

/-- the helper `read(rd)`: `Read` into a 1-byte buffer until a byte or an error arrives. A byte delivered
    together with an error is returned (the error shows up again on the next `Read`); `(0, nil)` is retried
    (fuel: one round per empty piece). `none` = error. -/
def read1 : Nat → Src → Option Nat × Src
  | 0, s => (none, s)
  | fuel+1, s =>
    match s.read 1 with
    | (bs, eof, s') =>
      match bs with
      | [b] => (some b, s')
      | _ => if eof then (none, s') else read1 fuel s'

/-- the loop of `Read` against a source (fuel: every round uses up a data byte) -/
def readLoopS : Nat → Src → St → Except ErrKind (Int × Bytes) × Src
  | 0, s, _ => (.error .read, s)
  | fuel+1, s, st =>
    match read1 (s.frags.length + 1) s with
    | (none, s') => (.error .read, s')
    | (some b, s') =>
      if b = 32 then
        if st.deltaRead then (.error .sep, s')
        else match parseInt st.deltaBf with
          | none => (.error .delta, s')
          | some d => readLoopS fuel s' { st with deltams := d, deltaRead := true }
      else if b = 10 then (.ok (st.deltams, st.out), s')
      else if st.deltaRead then readLoopS fuel s' { st with out := st.out ++ [b] }
      else readLoopS fuel s' { st with deltaBf := st.deltaBf ++ [b] }

def Src.fuel (s : Src) : Nat := s.data.length + 1

def readAndConvertS (s : Src) : Res × Src :=
  match readLoopS s.fuel s {} with
  | (.error k, s') => (.err k, s')
  | (.ok (d, out), s') =>
    match scanHex out with
    | none => (.err .hex, s')
    | some bs => (.ok d bs, s')

def readManyS : Nat → Src → List Res × Src
  | 0, s => ([], s)
  | n+1, s =>
    let (r, s') := readAndConvertS s
    let (rs, s'') := readManyS n s'
    (r :: rs, s'')

/-- call until the first read error (end of stream), at most `n` calls: what a consumer loop sees -/
def readAllS : Nat → Src → List (Res × Nat)
  | 0, _ => []
  | n+1, s =>
    match readAndConvertS s with
    | (.err .read, s') => [(.err .read, s'.data.length)]
    | (r, s') => (r, s'.data.length) :: readAllS n s'

/-! ## Line protocol of the model driver -/

def showInt (i : Int) : String := if i < 0 then "-" ++ toString i.natAbs else toString i.toNat

def showRes : Res × Nat → String
  | (.ok ts m, rem) => s!"ok:{showInt ts}:{hex m}:{rem}"
  | (.err .read, rem) => s!"err:read:{rem}"
  | (.err .delta, rem) => s!"err:delta:{rem}"
  | (.err .sep, rem) => s!"err:sep:{rem}"
  | (.err .hex, rem) => s!"err:hex:{rem}"

/-- piece sizes: `-` or a comma separated list of `a` / `a*n` (n pieces of size a) -/
def parseFrags (s : String) : Option (List Nat) :=
  if s = "-" then some []
  else do
    let items ← (s.splitOn ",").mapM (fun it =>
      match it.splitOn "*" with
      | [a] => a.toNat?.map (fun x => [x])
      | [a, n] => do
        let x ← a.toNat?
        let k ← n.toNat?
        pure (List.replicate k x)
      | _ => none)
    pure items.flatten

--@driver midicat. Midicat.handle
/-- `midicat.stream d=<hex stream> f=<piece sizes|-> e=<0|1>` → every call up to the first read error:
      `n=<calls> rs=<ok:ts:HEX:remaining | err:kind:remaining>;…`
    `midicat.enc ts=<int32> m=<hex>` → `l=<hex of the line>` -/
def handle (op : String) (args : List String) : String :=
  match op with
  | "midicat.stream" =>
    match (field "d" args).bind unhex, (field "f" args).bind parseFrags, field "e" args with
    | some d, some fr, some e =>
      if e ≠ "0" ∧ e ≠ "1" then "bad-op"
      else if d.any (· ≥ 256) then "bad-op"
      else
        let s : Src := { data := d, frags := fr, eofWithData := e = "1" }
        let rs := readAllS (s.data.length + 2) s
        s!"n={rs.length} rs={joinWith ";" (rs.map showRes)}"
    | _, _, _ => "bad-op"
  | "midicat.enc" =>
    match (field "ts" args).bind intOfString, (field "m" args).bind unhex with
    | some ts, some m =>
      if -2147483648 ≤ ts ∧ ts ≤ 2147483647 then s!"l={hex (encodeRec ts m)}" else "bad-op"
    | _, _ => "bad-op"
  | _ => "bad-op"

end Midi.Midicat
