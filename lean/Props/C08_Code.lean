import MidiModel.Msg
import MidiModel.Generated.MidiGo
/-!
# C08, tie to the source: the classification core of `midi.Message` as translated from the working tree on every run
(`v2/type.go`: `Type.Is`, `getType`, `getChannelType`, `getRealtimeType`, `getSysCommonType`, the two map literals of
`realtime.go` / `syscommon.go`; `v2/message.go`: `Type`, `Is`, `IsPlayable`) equals the model's functions for every
byte string and every type code. `none` in the model = a Go panic (it does not occur).
-/
namespace Midi.C08
open Midi Midi.Msg Midi.Go

set_option linter.unusedSimpArgs false

theorem code_rtMessages (b : Nat) : midi.rtMessages b = rtMessages b := by
  unfold midi.rtMessages rtMessages
  rfl

theorem code_syscommMessages (b : Nat) : midi.syscommMessages b = syscommMessages b := by
  unfold midi.syscommMessages syscommMessages
  rfl

theorem code_Type_Is (t c : Int) : midi.Type'.Is t c = typeIs t c := by
  unfold midi.Type'.Is typeIs
  simp only [Id.run, UnknownMsg, SysExMsg, RealTimeMsg, SysCommonMsg, ChannelMsg, MetaMsg, reservedRealTimeMsg14, MTCMsg,
    reservedSysCommonMsg10, NoteOnMsg, reservedChannelMsg16, firstMetaMsg]
  by_cases h0 : t = 0
  · simp [h0] <;> rfl
  by_cases h4 : t = -4
  · simp [h0, h4] <;> rfl
  by_cases hlt : t < 0
  · simp [h0, h4, hlt] <;> rfl
  by_cases c0 : c = 0
  · simp [h0, h4, hlt, c0] <;> rfl
  by_cases cg : c > 0
  · simp [h0, h4, hlt, c0, cg] <;> rfl
  by_cases c1 : c = -1
  · subst c1; simp [h0, h4, hlt] <;> rfl
  by_cases c2 : c = -2
  · subst c2; simp [h0, h4, hlt] <;> rfl
  by_cases c3 : c = -3
  · subst c3; simp [h0, h4, hlt] <;> rfl
  by_cases c5 : c = -5
  · subst c5; simp [h0, h4, hlt] <;> rfl
  simp [h0, h4, hlt, c0, cg, c1, c2, c3, c5] <;> rfl

theorem code_getChannelType (b : Nat) : midi.getChannelType b = getChannelType b := by
  unfold midi.getChannelType getChannelType
  have : (utils.ParseStatus b).1 = (parseStatus b).1 := rfl
  simp only [Id.run, this]
  generalize (parseStatus b).1 = tp
  by_cases hC : tp = 12
  · simp [hC]; rfl
  by_cases hD : tp = 13
  · simp [hD]; rfl
  by_cases h8 : tp = 8
  · simp [h8]; rfl
  by_cases h9 : tp = 9
  · simp [h9]; rfl
  by_cases hA : tp = 10
  · simp [hA]; rfl
  by_cases hB : tp = 11
  · simp [hB]; rfl
  by_cases hE : tp = 14
  · simp [hE]; rfl
  simp [hC, hD, h8, h9, hA, hB, hE]; rfl

theorem code_getRealtimeType (b : Nat) : midi.getRealtimeType b = getRealtimeType b := by
  unfold midi.getRealtimeType getRealtimeType
  rw [code_rtMessages]
  cases rtMessages b <;> rfl

theorem code_getSysCommonType (b : Nat) : midi.getSysCommonType b = getSysCommonType b := by
  unfold midi.getSysCommonType getSysCommonType
  rw [code_syscommMessages]
  cases syscommMessages b <;> rfl

/-- `getType` / `Message.Type()`: never panics; the model's `some t` -/
theorem code_getType (bt : Bytes) : (midi.getType bt).toOption = getType bt := by
  unfold midi.getType getType
  cases bt with
  | nil => rfl
  | cons b r =>
    have hl : ¬ (((b :: r).length : Int) = 0) := by simp; omega
    have hl' : ¬ ((b :: r).length = 0) := by simp
    have hi : Go.idx (b :: r) 0 = .ok b := rfl
    simp only [hl, hl', ↓reduceIte, hi, List.getElem?_cons_zero, typeOfStatus, code_getChannelType,
      code_getRealtimeType, code_getSysCommonType]
    have okb : ∀ {α β : Type} (x : α) (f : α → Except String β), (Except.ok x >>= f) = f x := fun _ _ => rfl
    simp only [okb, SysExMsg, UnknownMsg]
    by_cases h1 : b ≥ 128 ∧ b ≤ 239
    · simp only [h1, and_self, ↓reduceIte]; rfl
    by_cases h2 : b = 240 ∨ b = 247
    · simp only [h1, h2, ↓reduceIte]; rfl
    by_cases h3 : b = 255
    · simp only [h1, h2, h3, ↓reduceIte]; rfl
    by_cases h4 : b < 247
    · simp only [h1, h2, h3, h4, ↓reduceIte]; rfl
    by_cases h5 : b > 247
    · simp only [h1, h2, h3, h4, h5, ↓reduceIte]; rfl
    · simp only [h1, h2, h3, h4, h5, ↓reduceIte]; rfl

/-- the same as an equation: `Message.Type()` returns normally with the model's type -/
theorem code_Type (m : Bytes) : ∃ t, midi.Message.Type' m = .ok t ∧ getType m = some t := by
  unfold midi.Message.Type'
  have h := code_getType m
  cases hg : midi.getType m with
  | error e =>
    rw [hg] at h
    cases m with
    | nil => cases hg
    | cons b r => simp [Except.toOption, getType] at h
  | ok t => rw [hg] at h; exact ⟨t, rfl, h.symm⟩

/-- `Message.Is(t)` = `typeIs (Type()) t` -/
theorem code_Is (m : Bytes) (c : Int) : ∃ t, getType m = some t ∧ midi.Message.Is m c = .ok (typeIs t c) := by
  obtain ⟨t, h1, h2⟩ := code_Type m
  refine ⟨t, h2, ?_⟩
  unfold midi.Message.Is
  simp only [h1, code_Type_Is]
  rfl

/-- `Message.IsPlayable()` = the model's `isPlayable` -/
theorem code_IsPlayable (m : Bytes) : ∃ p, isPlayable m = some p ∧ midi.Message.IsPlayable m = .ok p := by
  obtain ⟨t, h1, h2⟩ := code_Type m
  unfold isPlayable midi.Message.IsPlayable
  simp only [h1, h2, UnknownMsg, firstMetaMsg]
  have okb : ∀ {α β : Type} (x : α) (f : α → Except String β), (Except.ok x >>= f) = f x := fun _ _ => rfl
  simp only [okb]
  by_cases h : t ≤ 0
  · exact ⟨false, by simp [h], by simp only [h, ↓reduceIte]; rfl⟩
  · exact ⟨decide (t < 70), by simp [h], by simp only [h, ↓reduceIte]; rfl⟩

/-- `Message.IsOneOf(checkers...)`: the loop answers at the first checker that matches -/
theorem code_IsOneOf (m : Bytes) (cs : List Int) :
    ∃ b, isOneOf .midi m cs = some b ∧ midi.Message.IsOneOf m cs = .ok b := by
  unfold midi.Message.IsOneOf
  induction cs with
  | nil => exact ⟨false, rfl, rfl⟩
  | cons c r ih =>
    obtain ⟨b, hb, hr⟩ := ih
    obtain ⟨t, h1, h2⟩ := code_Is m c
    simp only [List.forIn_cons] at hr ⊢
    have hm : msgIs .midi m c = some (typeIs t c) := by simp [msgIs, typeOf, h1]
    cases hc : typeIs t c
    · refine ⟨b, by simp [isOneOf, hm, hc, hb], ?_⟩
      simp only [h2, hc, bind, Except.bind, pure, Except.pure] at hr ⊢
      simpa using hr
    · refine ⟨true, by simp [isOneOf, hm, hc], ?_⟩
      simp [h2, hc, bind, Except.bind, pure, Except.pure]

end Midi.C08
