package main

import (
	"bytes"
	"fmt"
	"io"
	"strings"
)

// C02: decoding conforms to SMF 1.0 (independent grammar spec on the Lean side: serialize / meaning).
func init() {
	register(&Prop{
		ID: "C02",
		Rule: "SMF syntax trees generated at byte level (not through the library's writer): alien chunks before/between/after tracks, " +
			"padded (non-minimal) VLQs, running status at every legal position, unknown meta types, F0/F7 packets, long payloads; " +
			"serialised and given a meaning by the independent Lean grammar; a small share of trees is deliberately invalid (illegal elision) " +
			"and only used for the model/implementation tie; non-trivial = valid tree with at least one event besides end-of-track; distinct by op text",
		Gen: func(r *Rng, tier string, emit func(Case)) {
			n := 1500
			if tier == "thorough" {
				n = 60000
			}
			// alien chunks whose length does not fit 31 bits (streams of 2 GiB and more, produced on the fly)
			huge := []uint64{1<<31 - 1, 1 << 31, 1<<31 + 12345}
			if tier == "thorough" {
				huge = append(huge, 1<<32-1, 3<<30)
			}
			for _, n := range huge {
				emit(Case{Op: fmt.Sprintf("c02.hugealien len=%d pos=%d", n, r.Intn(2)), Tags: []string{"huge-alien-chunk"}, NonTrivial: true})
			}
			// very many tracks (beyond 2^15, up to what the header can declare)
			for _, nt := range []int{32767, 32768, 32769, 40000, 65535} {
				emit(Case{Op: fmt.Sprintf("smf.manytracks n=%d", nt), Tags: []string{"many-tracks"}, NonTrivial: true})
			}
			for i := 0; i < n; i++ {
				emit(genGram(r, tier))
			}
		},
		Run: runC02,
	})
}

func gvlq(r *Rng, v uint32) string {
	l := len(vlq(v))
	pad := 0
	if r.Chance(1, 3) {
		pad = r.Intn(4 - l + 1)
	}
	return fmt.Sprintf("%d+%d", pad, v)
}

func gramAlien(r *Rng, tier string) string {
	var typ []byte
	switch r.Intn(6) {
	case 0:
		typ = []byte("MThd")
	case 1:
		typ = []byte("XFIH")
	case 2:
		typ = []byte("MTrK")
	case 3:
		typ = r.Bytes(4)
	default:
		typ = []byte{byte('A' + r.Intn(26)), byte('a' + r.Intn(26)), byte('0' + r.Intn(10)), ' '}
	}
	if string(typ) == "MTrk" {
		typ[0] = 'N'
	}
	n := r.Pick(0, 0, 1, 2, 7, 8, 9, 20)
	if r.Chance(1, 10) {
		n = r.Pick(127, 128, 300, 511, 512, 513, 1024, 1536, 4096, 8192)
	}
	data := r.Bytes(n)
	if r.Chance(1, 4) && n >= 8 { // data that looks like a track chunk
		copy(data, []byte("MTrk"))
	}
	return "a." + hx(typ) + "." + hx(data)
}

func genGram(r *Rng, tier string) Case {
	tags := map[string]bool{}
	format := r.Intn(3)
	tf := showTF(genTF(r))
	ng := 1
	if format != 0 {
		ng = r.Pick(1, 2, 2, 3, 5)
	} else if r.Chance(1, 5) {
		ng = 2 // format 0 with two tracks: the reader does not care
	}
	maxEv := 10
	if tier == "thorough" {
		maxEv = 40
	}
	nontrivial := false
	valid := true
	var groups []string
	for g := 0; g < ng; g++ {
		var parts []string
		na := r.Pick(0, 0, 0, 1, 1, 2, 3)
		for a := 0; a < na; a++ {
			parts = append(parts, gramAlien(r, tier))
			tags["alien-before-track"] = true
		}
		var evs []string
		pool := genStatusPool(r)
		rs := byte(0)
		ne := r.Intn(maxEv)
		for e := 0; e < ne; e++ {
			delta := genDelta(r, false)
			d := gvlq(r, delta)
			if strings.HasPrefix(d, "0+") == false {
				tags["padded-delta"] = true
			}
			switch k := r.Intn(20); {
			case k < 13:
				m := genChannelMsg(r, pool)
				el := 0
				if m[0] == rs && r.Chance(3, 4) {
					el = 1
					tags["elided-status"] = true
					if len(m) == 2 {
						tags["elided-1-data-byte"] = true
					}
				} else if m[0] != rs && r.Chance(1, 60) {
					el = 1 // illegal elision: tie only
					valid = false
					tags["invalid-elision"] = true
				}
				rs = m[0]
				evs = append(evs, fmt.Sprintf("c.%s.%d.%s", d, el, hx(m)))
			case k < 17:
				typ := r.Intn(256)
				if r.Chance(1, 2) {
					typ = r.Pick(0x00, 0x01, 0x03, 0x20, 0x21, 0x51, 0x54, 0x58, 0x59, 0x7F, 0x60, 0x2E, 0x30, 0x80, 0xFF)
				}
				if typ == 0x2F {
					typ = 0x2E
				}
				if typ >= 0x60 && typ != 0x7F {
					tags["unknown-meta-type"] = true
				}
				n := genLen(r, tier)
				if n > 127 {
					tags["payload>127"] = true
				}
				payload := r.Bytes(n)
				if r.Chance(1, 3) {
					// an event of the exact size its type prescribes, with special values (tempo 0, repeated tempi ...)
					cm := canonicalMeta(r)
					typ, n, payload = int(cm[1]), int(cm[2]), cm[3:]
					tags["canonical-meta"] = true
				}
				evs = append(evs, fmt.Sprintf("m.%s.%s.%d.%s", d, gvlq(r, uint32(n)), typ, hx(payload)))
				rs = 0
			default:
				lead := 0xF0
				n := genLen(r, tier)
				data := r.Bytes(n)
				if r.Chance(1, 2) {
					lead = 0xF7
					tags["F7-packet"] = true
				} else if n > 0 && r.Chance(1, 2) {
					data[n-1] = 0xF7
				} else {
					tags["F0-without-F7"] = true
				}
				evs = append(evs, fmt.Sprintf("x.%s.%s.%d.%s", d, gvlq(r, uint32(n)), lead, hx(data)))
				rs = 0
			}
			nontrivial = true
		}
		evs = append(evs, fmt.Sprintf("e.%s.%d", gvlq(r, genDelta(r, false)), r.Pick(0, 0, 0, 1, 2, 3)))
		parts = append(parts, strings.Join(evs, ","))
		groups = append(groups, strings.Join(parts, ";"))
	}
	trailer := "-"
	if r.Chance(1, 3) {
		var tr []string
		for a := r.Range(1, 2); a > 0; a-- {
			tr = append(tr, gramAlien(r, tier))
		}
		trailer = strings.Join(tr, ";")
		tags["alien-after-tracks"] = true
	}
	if ng > 1 {
		tags["multi-track"] = true
	}
	var tl []string
	for t := range tags {
		tl = append(tl, t)
	}
	op := fmt.Sprintf("gram.file fmt=%d tf=%s g=%s trailer=%s", format, tf, strings.Join(groups, "|"), trailer)
	return Case{Op: op, Tags: tl, NonTrivial: nontrivial && valid}
}

// zeros is an endless source of zero bytes (limited by io.LimitReader)
type zeros struct{}

func (zeros) Read(p []byte) (int, error) {
	for i := range p {
		p[i] = 0
	}
	return len(p), nil
}

// runHugeAlien: MThd (format 1, 2 tracks), [track], alien chunk "XFIH" of n zero bytes, track: the alien chunk is
// skipped whatever its length, both tracks are read (oracle only: the stream is never held in memory)
func runHugeAlien(op string, v *Verdict) {
	f := fields(op)
	var n uint64
	var pos int
	fmt.Sscanf(f["len"], "%d", &n)
	fmt.Sscanf(f["pos"], "%d", &pos)
	hdr := []byte{'M', 'T', 'h', 'd', 0, 0, 0, 6, 0, 1, 0, 2, 0, 96}
	trk := func(key byte) []byte {
		return []byte{'M', 'T', 'r', 'k', 0, 0, 0, 8, 0x00, 0x90, key, 0x40, 0x00, 0xFF, 0x2F, 0x00}
	}
	alien := []byte{'X', 'F', 'I', 'H', byte(n >> 24), byte(n >> 16), byte(n >> 8), byte(n)}
	parts := []io.Reader{bytes.NewReader(hdr)}
	if pos == 1 {
		parts = append(parts, bytes.NewReader(trk(60)))
	}
	parts = append(parts, bytes.NewReader(alien), io.LimitReader(zeros{}, int64(n)))
	if pos == 0 {
		parts = append(parts, bytes.NewReader(trk(60)))
	}
	parts = append(parts, bytes.NewReader(trk(62)))
	got := readClassFrom(io.MultiReader(parts...))
	want := "ok:1/m:96/0:903C40,0:FF2F00|0:903E40,0:FF2F00"
	if got != want {
		v.Oracle = append(v.Oracle, fmt.Sprintf("a valid file with an alien chunk of %d bytes between/before its tracks reads as %s, expected %s", n, short(got), want))
	}
}

func runC02(c Case, m *Model) (v Verdict) {
	if strings.HasPrefix(c.Op, "c02.hugealien") {
		runHugeAlien(c.Op, &v)
		return
	}
	if strings.HasPrefix(c.Op, "smf.manytracks") {
		runManyTracks(c.Op, &v)
		return
	}
	mf := fields(m.Ask(c.Op))
	if mf["bytes"] == "" {
		v.Mismatch = append(v.Mismatch, "model rejected the op: "+short(fmt.Sprint(mf)))
		return
	}
	b := unhx(mf["bytes"])
	rb := readClass(b)
	if mf["valid"] == "1" {
		// oracle: the implementation returns exactly the events the independent grammar prescribes
		if rb != mf["meaning"] {
			v.Oracle = append(v.Oracle, "ReadFrom differs from the SMF 1.0 reference decoding: spec "+short(mf["meaning"])+" impl "+short(rb)+" bytes "+short(mf["bytes"]))
		}
	} else {
		v.Tags = append(v.Tags, "invalid-tree(tie only)")
	}
	if rb != mf["r"] {
		v.Mismatch = append(v.Mismatch, "reader model differs: model "+short(mf["r"])+" impl "+short(rb))
	}
	// the same bytes through other kinds of sources (file, SectionReader, bufio ...) and with a logger configured
	if len(c.Op)%3 == 0 && rb != "panic" {
		if msg := otherSources(b, rb); msg != "" {
			v.Oracle = append(v.Oracle, msg+" bytes "+short(mf["bytes"]))
		}
		if lg := readClassLogged(b); lg != rb {
			v.Oracle = append(v.Oracle, "reading with a logger configured gives "+short(lg)+", without "+short(rb)+" bytes "+short(mf["bytes"]))
		}
		v.Tags = append(v.Tags, "other-sources")
	}
	return
}
