import Proofs.SequencerLayout
/-!
# C20 helper lemmas: from a tick-ordered event list to a track (deltas, closing delta)
-/
namespace Midi.Sequencer
open Midi Midi.Smf

theorem u32sub_eq {a b : Nat} (h1 : b ≤ a) (h2 : a < 4294967296) : u32sub a b = a - b := by
  unfold u32sub; omega

/-- tick of the last event of a track -/
def endTick : Track → Nat
  | [] => 0
  | e :: r => e.delta + endTick r

theorem endTick_append : ∀ (a b : Track), endTick (a ++ b) = endTick a + endTick b
  | [], b => by simp [endTick]
  | e :: r, b => by simp [endTick, endTick_append r b]; omega

theorem timeline_append : ∀ (a b : Track) (acc : Nat),
    timeline acc (a ++ b) = timeline acc a ++ timeline (acc + endTick a) b
  | [], b, acc => by simp [timeline, endTick]
  | e :: r, b, acc => by
    simp [timeline, endTick, timeline_append r b, Nat.add_assoc]

theorem isClosed_snoc (t : Track) (e : Smf.Event) : Track.isClosed (t ++ [e]) = (e.msg == EOT) := by
  simp [Track.isClosed]

theorem add_open (t : Track) (δ : Nat) (m : Msg) (h : t.isClosed = false) :
    t.add δ [m] = t ++ [⟨δ, m⟩] := by
  simp [Track.add, h, addEvents]

theorem close_open (t : Track) (δ : Nat) (h : t.isClosed = false) : t.close δ = t ++ [⟨δ, EOT⟩] := by
  simp [Track.close, h]

theorem nil_open : Track.isClosed [] = false := by simp [Track.isClosed]

theorem snoc_open (t : Track) (δ : Nat) (m : Msg) (h : m ≠ EOT) : Track.isClosed (t ++ [⟨δ, m⟩]) = false := by
  rw [isClosed_snoc]; simpa using h

/-- `addAll` on an open track and a tick-ordered list: the events land on their ticks -/
theorem addAll_spec : ∀ (l : List TEv) (t : Track) (last : Nat),
    t.isClosed = false → endTick t = last →
    l.Pairwise (fun a b => a.abs ≤ b.abs) → (∀ e ∈ l, last ≤ e.abs) → (∀ e ∈ l, e.abs < 4294967296) →
    (∀ e ∈ l, e.msg ≠ EOT) →
    (addAll t last l).1.isClosed = false ∧
    timeline 0 (addAll t last l).1 = timeline 0 t ++ l.map tm ∧
    endTick (addAll t last l).1 = (addAll t last l).2 ∧
    ((addAll t last l).2 = last ∨ ∃ e ∈ l, (addAll t last l).2 = e.abs)
  | [], t, last, ho, he, _, _, _, _ => by simp [addAll, ho, he]
  | e :: r, t, last, ho, he, hs, hge, hlt, hm => by
    rw [List.pairwise_cons] at hs
    have h1 : last ≤ e.abs := hge e (by simp)
    have h2 : e.abs < 4294967296 := hlt e (by simp)
    have hme : e.msg ≠ EOT := hm e (by simp)
    have hadd : t.add (u32sub e.abs last) [e.msg] = t ++ [⟨e.abs - last, e.msg⟩] := by
      rw [add_open t _ _ ho, u32sub_eq h1 h2]
    have ho' := snoc_open t (e.abs - last) e.msg hme
    have he' : endTick (t ++ [⟨e.abs - last, e.msg⟩]) = e.abs := by
      rw [endTick_append]; simp only [endTick]; omega
    obtain ⟨i1, i2, i3, i4⟩ := addAll_spec r _ e.abs ho' he' hs.2 (fun x hx => hs.1 x hx)
      (fun x hx => hlt x (by simp [hx])) (fun x hx => hm x (by simp [hx]))
    simp only [addAll, hadd]
    refine ⟨i1, ?_, i3, ?_⟩
    · rw [i2, timeline_append]
      simp only [timeline, Nat.zero_add, he, List.map_cons, tm, List.append_assoc, List.cons_append,
        List.nil_append]
      congr 3
      omega
    · rcases i4 with i4 | ⟨x, hx, i4⟩
      · exact Or.inr ⟨e, by simp, i4⟩
      · exact Or.inr ⟨x, by simp [hx], i4⟩

/-- events added in tick order, then `Close(uint32(lastTick - lasttick))` -/
theorem emit_timeline (t : Track) (l : List TEv) (L : Nat)
    (ho : t.isClosed = false) (he : endTick t = 0)
    (hs : l.Pairwise (fun a b => a.abs ≤ b.abs)) (hle : ∀ e ∈ l, e.abs ≤ L) (hL : L < 4294967296)
    (hm : ∀ e ∈ l, e.msg ≠ EOT) :
    timeline 0 ((addAll t 0 l).1.close (u32sub L (addAll t 0 l).2)) = timeline 0 t ++ l.map tm ++ [(L, EOT)] := by
  obtain ⟨i1, i2, i3, i4⟩ := addAll_spec l t 0 ho he hs (fun e _ => Nat.zero_le _)
    (fun e h => by have := hle e h; omega) hm
  have hl : (addAll t 0 l).2 ≤ L := by
    rcases i4 with i4 | ⟨x, hx, i4⟩
    · omega
    · have := hle x hx; omega
  rw [close_open _ _ i1, timeline_append, i2, i3, u32sub_eq hl hL]
  simp only [timeline, Nat.zero_add]
  congr 3
  omega

theorem addWithDeltas_setDeltas : ∀ (l : List TEv) (t : Track) (last : Nat),
    addWithDeltas t last (setDeltas last l) = addAll t last l
  | [], _, _ => rfl
  | e :: r, t, last => by
    simp only [setDeltas, addWithDeltas, addAll]
    exact addWithDeltas_setDeltas r _ _

theorem addTrackNo_eq (n : Nat) : ∀ (l : List TEv) (t : Track) (last : Nat),
    addTrackNo n t last l = addAll t last (l.filter (fun e => e.trackNo = n))
  | [], _, _ => rfl
  | e :: r, t, last => by
    by_cases h : e.trackNo = n
    · simp only [addTrackNo, h, if_true, List.filter_cons, decide_true, addAll]
      exact addTrackNo_eq n r _ _
    · simp only [addTrackNo, h, if_false, List.filter_cons, decide_false]
      exact addTrackNo_eq n r _ _

/-! ## Messages that never close a track -/

theorem metaMsg_ne_EOT (typ : Nat) (d : Bytes) (h : typ ≠ 0x2F) : metaMsg typ d ≠ EOT := by
  simp [metaMsg, EOT, h]

theorem msgOK_ne_EOT (m : Msg) (h : MsgOK m) : m ≠ EOT := by
  obtain ⟨s, r, rfl, hs⟩ := h
  intro hc
  simp only [EOT, List.cons.injEq] at hc
  obtain ⟨rfl, _⟩ := hc
  rcases hs with hs | hs | hs
  · revert hs; decide
  · omega
  · omega

theorem noteOff_ne_EOT (ch key : Nat) (h : ch < 16) : noteOffMsg ch key ≠ EOT := by
  simp only [noteOffMsg, EOT, ne_eq, List.cons.injEq, not_and]
  intro hc; omega

theorem meterBytes_ne_EOT (n d : Nat) : meterBytes n d ≠ EOT := by
  simp [meterBytes, EOT]

end Midi.Sequencer
