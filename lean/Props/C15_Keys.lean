import Props.C15_Ctor
/-!
# C15, tie to the source: the 26 named key constructors of `smf/key.go` (`CMaj()` … `EbMin()`, through `key` and
`MetaKey`) as translated on every run produce the bytes the model's `namedKey` gives for that name.
(The table `Meta.namedKeys` itself is compared with the regenerated facts in `Props/C15.lean`.)
-/
namespace Midi.C15
open Midi Midi.Go

set_option linter.unusedSimpArgs false

theorem code_CMaj : ∃ b, Meta.namedKey "CMaj" = some b ∧ smf.CMaj = .ok b := by
  refine ⟨Meta.metaKey 0 true 0 false, by decide, ?_⟩
  unfold smf.CMaj smf.key
  simp only [code_MetaKey 0 true 0 false (by decide)]

theorem code_DMaj : ∃ b, Meta.namedKey "DMaj" = some b ∧ smf.DMaj = .ok b := by
  refine ⟨Meta.metaKey 2 true 2 false, by decide, ?_⟩
  unfold smf.DMaj smf.key
  simp only [code_MetaKey 2 true 2 false (by decide)]

theorem code_EMaj : ∃ b, Meta.namedKey "EMaj" = some b ∧ smf.EMaj = .ok b := by
  refine ⟨Meta.metaKey 4 true 4 false, by decide, ?_⟩
  unfold smf.EMaj smf.key
  simp only [code_MetaKey 4 true 4 false (by decide)]

theorem code_FsharpMaj : ∃ b, Meta.namedKey "FsharpMaj" = some b ∧ smf.FsharpMaj = .ok b := by
  refine ⟨Meta.metaKey 6 true 6 false, by decide, ?_⟩
  unfold smf.FsharpMaj smf.key
  simp only [code_MetaKey 6 true 6 false (by decide)]

theorem code_GMaj : ∃ b, Meta.namedKey "GMaj" = some b ∧ smf.GMaj = .ok b := by
  refine ⟨Meta.metaKey 7 true 1 false, by decide, ?_⟩
  unfold smf.GMaj smf.key
  simp only [code_MetaKey 7 true 1 false (by decide)]

theorem code_AMaj : ∃ b, Meta.namedKey "AMaj" = some b ∧ smf.AMaj = .ok b := by
  refine ⟨Meta.metaKey 9 true 3 false, by decide, ?_⟩
  unfold smf.AMaj smf.key
  simp only [code_MetaKey 9 true 3 false (by decide)]

theorem code_BMaj : ∃ b, Meta.namedKey "BMaj" = some b ∧ smf.BMaj = .ok b := by
  refine ⟨Meta.metaKey 11 true 5 false, by decide, ?_⟩
  unfold smf.BMaj smf.key
  simp only [code_MetaKey 11 true 5 false (by decide)]

theorem code_FMaj : ∃ b, Meta.namedKey "FMaj" = some b ∧ smf.FMaj = .ok b := by
  refine ⟨Meta.metaKey 5 true 1 true, by decide, ?_⟩
  unfold smf.FMaj smf.key
  simp only [code_MetaKey 5 true 1 true (by decide)]

theorem code_BbMaj : ∃ b, Meta.namedKey "BbMaj" = some b ∧ smf.BbMaj = .ok b := by
  refine ⟨Meta.metaKey 10 true 2 true, by decide, ?_⟩
  unfold smf.BbMaj smf.key
  simp only [code_MetaKey 10 true 2 true (by decide)]

theorem code_EbMaj : ∃ b, Meta.namedKey "EbMaj" = some b ∧ smf.EbMaj = .ok b := by
  refine ⟨Meta.metaKey 3 true 3 true, by decide, ?_⟩
  unfold smf.EbMaj smf.key
  simp only [code_MetaKey 3 true 3 true (by decide)]

theorem code_AbMaj : ∃ b, Meta.namedKey "AbMaj" = some b ∧ smf.AbMaj = .ok b := by
  refine ⟨Meta.metaKey 8 true 4 true, by decide, ?_⟩
  unfold smf.AbMaj smf.key
  simp only [code_MetaKey 8 true 4 true (by decide)]

theorem code_DbMaj : ∃ b, Meta.namedKey "DbMaj" = some b ∧ smf.DbMaj = .ok b := by
  refine ⟨Meta.metaKey 1 true 5 true, by decide, ?_⟩
  unfold smf.DbMaj smf.key
  simp only [code_MetaKey 1 true 5 true (by decide)]

theorem code_GbMaj : ∃ b, Meta.namedKey "GbMaj" = some b ∧ smf.GbMaj = .ok b := by
  refine ⟨Meta.metaKey 6 true 6 true, by decide, ?_⟩
  unfold smf.GbMaj smf.key
  simp only [code_MetaKey 6 true 6 true (by decide)]

theorem code_AMin : ∃ b, Meta.namedKey "AMin" = some b ∧ smf.AMin = .ok b := by
  refine ⟨Meta.metaKey 9 false 0 false, by decide, ?_⟩
  unfold smf.AMin smf.key
  simp only [code_MetaKey 9 false 0 false (by decide)]

theorem code_BMin : ∃ b, Meta.namedKey "BMin" = some b ∧ smf.BMin = .ok b := by
  refine ⟨Meta.metaKey 11 false 2 false, by decide, ?_⟩
  unfold smf.BMin smf.key
  simp only [code_MetaKey 11 false 2 false (by decide)]

theorem code_CsharpMin : ∃ b, Meta.namedKey "CsharpMin" = some b ∧ smf.CsharpMin = .ok b := by
  refine ⟨Meta.metaKey 1 false 4 false, by decide, ?_⟩
  unfold smf.CsharpMin smf.key
  simp only [code_MetaKey 1 false 4 false (by decide)]

theorem code_DsharpMin : ∃ b, Meta.namedKey "DsharpMin" = some b ∧ smf.DsharpMin = .ok b := by
  refine ⟨Meta.metaKey 3 false 6 false, by decide, ?_⟩
  unfold smf.DsharpMin smf.key
  simp only [code_MetaKey 3 false 6 false (by decide)]

theorem code_EMin : ∃ b, Meta.namedKey "EMin" = some b ∧ smf.EMin = .ok b := by
  refine ⟨Meta.metaKey 4 false 1 false, by decide, ?_⟩
  unfold smf.EMin smf.key
  simp only [code_MetaKey 4 false 1 false (by decide)]

theorem code_FsharpMin : ∃ b, Meta.namedKey "FsharpMin" = some b ∧ smf.FsharpMin = .ok b := by
  refine ⟨Meta.metaKey 6 false 3 false, by decide, ?_⟩
  unfold smf.FsharpMin smf.key
  simp only [code_MetaKey 6 false 3 false (by decide)]

theorem code_GsharpMin : ∃ b, Meta.namedKey "GsharpMin" = some b ∧ smf.GsharpMin = .ok b := by
  refine ⟨Meta.metaKey 8 false 5 false, by decide, ?_⟩
  unfold smf.GsharpMin smf.key
  simp only [code_MetaKey 8 false 5 false (by decide)]

theorem code_DMin : ∃ b, Meta.namedKey "DMin" = some b ∧ smf.DMin = .ok b := by
  refine ⟨Meta.metaKey 2 false 1 true, by decide, ?_⟩
  unfold smf.DMin smf.key
  simp only [code_MetaKey 2 false 1 true (by decide)]

theorem code_GMin : ∃ b, Meta.namedKey "GMin" = some b ∧ smf.GMin = .ok b := by
  refine ⟨Meta.metaKey 7 false 2 true, by decide, ?_⟩
  unfold smf.GMin smf.key
  simp only [code_MetaKey 7 false 2 true (by decide)]

theorem code_CMin : ∃ b, Meta.namedKey "CMin" = some b ∧ smf.CMin = .ok b := by
  refine ⟨Meta.metaKey 0 false 3 true, by decide, ?_⟩
  unfold smf.CMin smf.key
  simp only [code_MetaKey 0 false 3 true (by decide)]

theorem code_FMin : ∃ b, Meta.namedKey "FMin" = some b ∧ smf.FMin = .ok b := by
  refine ⟨Meta.metaKey 5 false 4 true, by decide, ?_⟩
  unfold smf.FMin smf.key
  simp only [code_MetaKey 5 false 4 true (by decide)]

theorem code_BbMin : ∃ b, Meta.namedKey "BbMin" = some b ∧ smf.BbMin = .ok b := by
  refine ⟨Meta.metaKey 10 false 5 true, by decide, ?_⟩
  unfold smf.BbMin smf.key
  simp only [code_MetaKey 10 false 5 true (by decide)]

theorem code_EbMin : ∃ b, Meta.namedKey "EbMin" = some b ∧ smf.EbMin = .ok b := by
  refine ⟨Meta.metaKey 3 false 6 true, by decide, ?_⟩
  unfold smf.EbMin smf.key
  simp only [code_MetaKey 3 false 6 true (by decide)]

end Midi.C15
