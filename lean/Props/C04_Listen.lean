import MidiModel.Live
import Props.C07_Code
/-!
# C04 (and C06, C13, C14), tie to the source: the re-typing closure of `midi.ListenTo`

`MidiModel/Generated/MidiGo.lean` contains, regenerated on every run, the translation of the function literal `onMsg`
inside `midi.ListenTo` (`v2/listen.go`): the captured variables `isStatusSet`, `typ`, `channel` are the fields of
`midi.ListenTo.onMsg.Env`, a call of the captured `recv` is an event of its `trace`. The theorem says that on every
frame that starts with a status byte — the only frames `drivers.Reader` hands on (`Props/C06_Code`, `WfFrame`) — the
closure calls the listener exactly as the model's `Live.retype` says, and panics exactly where the model says so.
(`msg == nil` is translated as "msg is empty": every message the closure builds is non-empty.)
-/
namespace Midi.C04
open Midi Midi.Live Midi.Go Midi.C07

set_option linter.unusedSimpArgs false

@[simp] theorem throw_bind' {α β : Type} (e : String) (f : α → Except String β) :
    ((throw e : Except String α) >>= f) = throw e := rfl
@[simp] theorem ok_bind' {α β : Type} (x : α) (f : α → Except String β) : (Except.ok x >>= f) = f x := rfl
@[simp] theorem pure_bind' {α β : Type} (x : α) (f : α → Except String β) : ((pure x : Except String α) >>= f) = f x := rfl
theorem throw_ne_ok {α : Type} (e : String) : ∃ e', (throw e : Except String α) = .error e' := ⟨e, rfl⟩

theorem parseStatus_code (s : Nat) : utils.ParseStatus s = Msg.parseStatus s := rfl

theorem code_channelMessage_dispatch (typ ch d1 d2 : Nat) :
    midi.u_channelMessage typ ch d1 d2 =
      (if typ = 0xD then .ok (Msg.afterTouch ch d1)
       else if typ = 0xC then .ok (Msg.programChange ch d1)
       else if typ = 0xB then .ok (Msg.controlChange ch d1 d2)
       else if typ = 0x9 then .ok (Msg.noteOn ch d1 d2)
       else if typ = 0x8 then .ok (Msg.noteOffVelocity ch d1 d2)
       else if typ = 0xA then .ok (Msg.polyAfterTouch ch d1 d2)
       else if typ = 0xE then (match Msg.pitchbend ch (Msg.parsePitchWheelVals d1 d2).1 with
          | some m => .ok m | none => .error "panic")
       else .error "panic") := by
  unfold midi.u_channelMessage
  by_cases hD : typ = 13
  · simp [hD, code_AfterTouch]
  by_cases hC : typ = 12
  · simp [hC, code_ProgramChange]
  by_cases hB : typ = 11
  · simp [hB, code_ControlChange]
  by_cases h9 : typ = 9
  · simp [h9, code_NoteOn]
  by_cases h8 : typ = 8
  · simp [h8, code_NoteOffVelocity]
  by_cases hA : typ = 10
  · simp [hA, code_PolyAfterTouch]
  by_cases hE : typ = 14
  · simp [hE, code_Pitchbend, code_ParsePitchWheelVals]
    generalize Msg.pitchbend ch _ = o; cases o <;> rfl
  · simp [hD, hC, hB, h9, h8, hA, hE]
    rfl

theorem pitchbend_nonempty (ch : Nat) (v : Int) (m : Bytes) (h : Msg.pitchbend ch v = some m) : m.length = 3 := by
  unfold Msg.pitchbend at h
  cases hm : Msg.msbLsbSigned (Msg.clampPitch v) with
  | none => rw [hm] at h; cases h
  | some r => rw [hm] at h; simp only [Option.some.injEq] at h; subst h; rfl

/-- what the listener is called with: `none` = not called -/
def recvOf (env : midi.ListenTo.onMsg.Env) (o : Option Bytes) (ms : Int) : List midi.ListenTo.onMsg.Ev :=
  match o with
  | some m => env.trace ++ [.recv m ms]
  | none => env.trace

/-- One call of the closure on a frame that starts with a status byte: it panics iff the model's `retype` says
    `some none`; otherwise it returns and has called the listener with exactly the model's message (or not at all). -/
theorem code_onMsg_follows_retype (env : midi.ListenTo.onMsg.Env) (data : Bytes) (ms : Int)
    (hs : ∀ s r, data = s :: r → 0x80 ≤ s) (hb : ∀ b ∈ data, b < 256) :
    match retype data with
    | some none => ∃ e, midi.ListenTo.onMsg env data ms = .error e
    | some (some m) => ∃ env', midi.ListenTo.onMsg env data ms = .ok env' ∧ env'.trace = env.trace ++ [.recv m ms]
    | none => ∃ env', midi.ListenTo.onMsg env data ms = .ok env' ∧ env'.trace = env.trace := by
  cases data with
  | nil => simp [retype, midi.ListenTo.onMsg, Go.idx]; exact ⟨_, rfl⟩
  | cons s rest =>
    have hs' := hs s rest rfl
    unfold retype midi.ListenTo.onMsg
    have hidx0 : Go.idx (s :: rest) 0 = .ok s := rfl
    by_cases hrt : 248 ≤ s
    · simp [hrt, hidx0]
      exact ⟨_, rfl, rfl⟩
    simp only [hrt, ↓reduceIte, hidx0, ok_bind']
    by_cases h6 : s = 246
    · subst h6; simp [code_Tune, Msg.tune]; exact ⟨_, rfl, rfl⟩
    by_cases h1 : s = 241
    · subst h1
      cases rest with
      | nil => simp [Go.idx]; exact ⟨_, rfl⟩
      | cons d1 r =>
        have hd1 : d1 < 256 := hb d1 (by simp)
        have : Go.idx (241 :: d1 :: r) 1 = .ok d1 := rfl
        simp [this, code_MTC d1 hd1, Msg.mtc]; exact ⟨_, rfl, rfl⟩
    by_cases h2 : s = 242
    · subst h2
      cases rest with
      | nil => simp [Go.idx]; exact ⟨_, rfl⟩
      | cons d1 r =>
        cases r with
        | nil =>
          have : Go.idx [242, d1] 1 = .ok d1 := rfl
          have h2' : Go.idx [242, d1] 2 = throw "index out of range" := rfl
          simp [this, h2']; exact ⟨_, rfl⟩
        | cons d2 r2 =>
          have e1 : Go.idx (242 :: d1 :: d2 :: r2) 1 = .ok d1 := rfl
          have e2 : Go.idx (242 :: d1 :: d2 :: r2) 2 = .ok d2 := rfl
          simp [e1, e2, code_SPP, code_ParsePitchWheelVals, Msg.spp]; exact ⟨_, rfl, rfl⟩
    by_cases h3 : s = 243
    · subst h3
      cases rest with
      | nil => simp [Go.idx]; exact ⟨_, rfl⟩
      | cons d1 r =>
        have : Go.idx (243 :: d1 :: r) 1 = .ok d1 := rfl
        simp [this, code_SongSelect, Msg.songSelect]; exact ⟨_, rfl, rfl⟩
    by_cases hsc : 240 < s ∧ s < 247
    · have : s = 244 ∨ s = 245 := by omega
      rcases this with h | h <;> subst h <;> simp <;> exact ⟨_, rfl, rfl⟩
    by_cases h7 : s = 247
    · subst h7; simp; exact ⟨_, rfl, rfl⟩
    by_cases h0 : s = 240
    · subst h0; simp; exact ⟨_, rfl, rfl⟩
    have hch : 128 ≤ s ∧ s ≤ 239 := by omega
    have hsc' : ¬ (s > 240 ∧ s < 247) := hsc
    simp only [hsc, hsc', h7, h0, hch, and_self, ↓reduceIte, parseStatus_code]
    cases rest with
    | nil =>
      have : Go.idx [s] 1 = throw "index out of range" := rfl
      simp [this]; exact ⟨_, rfl⟩
    | cons d1 r =>
      cases r with
      | nil =>
        have e1 : Go.idx [s, d1] 1 = .ok d1 := rfl
        have e2 : Go.idx [s, d1] 2 = throw "index out of range" := rfl
        simp [e1, e2]; exact ⟨_, rfl⟩
      | cons d2 r2 =>
        have e1 : Go.idx (s :: d1 :: d2 :: r2) 1 = .ok d1 := rfl
        have e2 : Go.idx (s :: d1 :: d2 :: r2) 2 = .ok d2 := rfl
        simp only [e1, e2, ok_bind', code_channelMessage_dispatch]
        generalize (Msg.parseStatus s).1 = typ
        generalize (Msg.parseStatus s).2 = ch
        by_cases hD : typ = 13
        · simp [hD, Msg.afterTouch, Msg.channelMessage1]; exact ⟨_, rfl, rfl⟩
        by_cases hC : typ = 12
        · simp [hC, Msg.programChange, Msg.channelMessage1]; exact ⟨_, rfl, rfl⟩
        by_cases hB : typ = 11
        · simp [hB, Msg.controlChange, Msg.channelMessage2]; exact ⟨_, rfl, rfl⟩
        by_cases h9 : typ = 9
        · simp [h9, Msg.noteOn, Msg.channelMessage2]; exact ⟨_, rfl, rfl⟩
        by_cases h8 : typ = 8
        · simp [h8, Msg.noteOffVelocity, Msg.channelMessage2]; exact ⟨_, rfl, rfl⟩
        by_cases hA : typ = 10
        · simp [hA, Msg.polyAfterTouch, Msg.channelMessage2]; exact ⟨_, rfl, rfl⟩
        by_cases hE : typ = 14
        · simp only [hD, hC, hB, h9, h8, hA, hE, ↓reduceIte]
          simp only [show ((14 : Nat) = 13) = False from by decide, show ((14 : Nat) = 12) = False from by decide,
            show ((14 : Nat) = 11) = False from by decide, show ((14 : Nat) = 9) = False from by decide,
            show ((14 : Nat) = 8) = False from by decide, show ((14 : Nat) = 10) = False from by decide, ↓reduceIte]
          cases hp : Msg.pitchbend ch (Msg.parsePitchWheelVals d1 d2).fst with
          | none => simp; exact ⟨_, rfl⟩
          | some m =>
            have hl := pitchbend_nonempty _ _ _ hp
            have hne : m ≠ [] := by intro h0; rw [h0] at hl; cases hl
            simp [hl, hne]; exact ⟨_, rfl, rfl⟩
        · simp [hD, hC, hB, h9, h8, hA, hE]; exact ⟨_, rfl⟩

end Midi.C04
