import MidiModel.Meta
import MidiModel.Generated.SmfMetaGo
import Props.C03_Code
/-!
# C15, tie to the source: the meta constructors of `smf/meta.go`, `smf/message.go` (`_MetaMessage`) and
`smf/helpers.go` as translated by `tools/go2lean` on every run are the model's constructors (`MidiModel/Meta.lean`)
— for every argument, texts and payloads of every length (the length field is `utils.VlqEncode(uint32(len))`, tied to
`Vlq.encode` in `Props/C03_Code.lean`). A Go string is the list of its bytes in this translation (`strings_as_bytes`):
`[]byte(text)` is the identity.
-/
namespace Midi.C15
open Midi Midi.Go

set_option linter.unusedSimpArgs false
set_option linter.unusedVariables false

theorem toU32_len (l : List Nat) : Go.toU 32 (l.length : Int) = l.length % 4294967296 := by
  unfold Go.toU; omega

/-- `_MetaMessage(typ, data)` = `FF typ vlq(len) data`, every type byte, every payload -/
theorem code_MetaMessage (typ : Nat) (data : Bytes) :
    smf.u_MetaMessage typ data = .ok (Meta.metaMessage typ data) := by
  unfold smf.u_MetaMessage Meta.metaMessage
  rw [toU32_len, Midi.C03.code_VlqEncode _ (Nat.mod_lt _ (by decide))]
  cases data with
  | nil => rfl
  | cons a r =>
    have : ¬ ((r.length : Int) + 1 = 0) := by omega
    simp [this]
    rfl

/-- the nine text constructors, by kind -/
def goText : Meta.TextKind → Bytes → Except String Bytes
  | .lyric => smf.MetaLyric | .copyright => smf.MetaCopyright | .cuepoint => smf.MetaCuepoint
  | .device => smf.MetaDevice | .instrument => smf.MetaInstrument | .marker => smf.MetaMarker
  | .program => smf.MetaProgram | .text => smf.MetaText | .trackName => smf.MetaTrackSequenceName

theorem code_MetaText (k : Meta.TextKind) (text : Bytes) : goText k text = .ok (Meta.metaText k text) := by
  cases k <;>
    simp [goText, smf.MetaLyric, smf.MetaCopyright, smf.MetaCuepoint, smf.MetaDevice, smf.MetaInstrument,
      smf.MetaMarker, smf.MetaProgram, smf.MetaText, smf.MetaTrackSequenceName, code_MetaMessage, Meta.metaText,
      Meta.TextKind.byte] <;> rfl

theorem code_MetaChannel (ch : Nat) : smf.MetaChannel ch = .ok (Meta.metaChannel ch) := by
  simp [smf.MetaChannel, code_MetaMessage, Meta.metaChannel]

theorem code_MetaPort (p : Nat) : smf.MetaPort p = .ok (Meta.metaPort p) := by
  simp [smf.MetaPort, code_MetaMessage, Meta.metaPort]

theorem code_MetaSequencerData (d : Bytes) : smf.MetaSequencerData d = .ok (Meta.metaSequencerData d) := by
  simp [smf.MetaSequencerData, code_MetaMessage, Meta.metaSequencerData]

theorem code_MetaSMPTE (h mi s f ff : Nat) : smf.MetaSMPTE h mi s f ff = .ok (Meta.metaSMPTE h mi s f ff) := by
  simp [smf.MetaSMPTE, code_MetaMessage, Meta.metaSMPTE]

theorem code_MetaUndefined (typ : Nat) (d : Bytes) : smf.MetaUndefined typ d = .ok (Meta.metaUndefined typ d) := by
  simp [smf.MetaUndefined, code_MetaMessage, Meta.metaUndefined]

/-! ## time signature: the denominator loop -/

abbrev dCond : Nat × Nat → Prop := fun s => s.1 > 2
def dStep (s : Nat × Nat) : Nat × Nat := (s.1 >>> 1, (s.2 + 1) % 256)

theorem d2b_fin : ∀ d : Fin 256, (Go.iter dCond dStep 8 (d.val, 0)).2 = Meta.dec2binLoop 8 0 d.val
    ∧ ¬ dCond (Go.iter dCond dStep 8 (d.val, 0)) := by decide +kernel

theorem code_dec2binDenom (dec : Nat) (h : dec < 256) : smf.dec2binDenom dec = .ok (Meta.dec2binDenom dec) := by
  unfold smf.dec2binDenom Meta.dec2binDenom
  simp only []
  by_cases h1 : dec ≤ 1
  · simp [h1]; rfl
  · simp only [h1, if_false]
    have hbody : (fun (_ : Nat) (s : Nat × Nat) =>
          if ¬ s.fst > 2 then (pure (ForInStep.done (s.fst, s.snd)) : Except String (ForInStep (Nat × Nat)))
          else pure (ForInStep.yield (s.fst >>> 1, (s.snd + 1) % 256))) =
        (fun _ st => if ¬ dCond st then pure (ForInStep.done st) else pure (ForInStep.yield (dStep st))) := by
      funext _ st; rfl
    have ⟨e1, e2⟩ := d2b_fin ⟨dec, h⟩
    simp only at e1 e2
    rw [hbody, Go.forIn_range_while dCond dStep, show Go.loopFuel = 8 + 1016 from rfl,
      Go.iter_add_of_stop dCond dStep 8 1016 _ e2]
    simp only [pure_bind]
    rw [if_neg e2, e1]; rfl

theorem b2d_fin : ∀ b : Fin 256, smf.bin2decDenom b.val = Meta.bin2decDenom b.val := by decide +kernel
theorem code_bin2decDenom (bin : Nat) (h : bin < 256) : smf.bin2decDenom bin = Meta.bin2decDenom bin :=
  b2d_fin ⟨bin, h⟩

theorem code_MetaTimeSig (n d c q : Nat) (hd : d < 256) :
    smf.MetaTimeSig n d c q = .ok (Meta.metaTimeSig n d c q) := by
  unfold smf.MetaTimeSig Meta.metaTimeSig
  simp only [code_dec2binDenom d hd, code_MetaMessage]
  by_cases hc : c = 0 <;> by_cases hq : q = 0 <;> simp [hc, hq] <;> rfl

theorem code_MetaMeter (n d : Nat) (hd : d < 256) : smf.MetaMeter n d = .ok (Meta.metaMeter n d) := by
  unfold smf.MetaMeter Meta.metaMeter
  by_cases h0 : d = 0
  · simp [h0, code_MetaTimeSig n 1 8 8 (by decide)]
  · simp [h0, code_MetaTimeSig n d 8 8 hd]

/-! ## key signature: `int8` negation -/

theorem key_fin : ∀ (num : Fin 256) (fl : Bool),
    Go.toU 8 (if fl = true then Go.wrapS 8 (Go.wrapS 8 (num.val : Int) * (-1 : Int)) else Go.wrapS 8 (num.val : Int))
      = (if fl then (256 - num.val % 256) % 256 else num.val % 256) := by decide +kernel

theorem code_MetaKey (key : Nat) (isMajor : Bool) (num : Nat) (isFlat : Bool) (hn : num < 256) :
    smf.MetaKey key isMajor num isFlat = .ok (Meta.metaKey key isMajor num isFlat) := by
  have hk := key_fin ⟨num, hn⟩ isFlat
  simp only at hk
  unfold smf.MetaKey Meta.metaKey
  cases isMajor <;> cases isFlat <;> simp [code_MetaMessage] at hk ⊢ <;> simp [hk] <;> rfl

/-- `MetaSequenceNo(no uint16)` (`binary.Write(&bf, binary.BigEndian, no)` into a `bytes.Buffer`) -/
theorem code_MetaSequenceNo (no : Nat) : smf.MetaSequenceNo no = .ok (Meta.metaSequenceNo no) := by
  unfold smf.MetaSequenceNo Meta.metaSequenceNo
  simp [code_MetaMessage, be16, bind, Except.bind, pure, Except.pure]

end Midi.C15
