package main

import (
	"bytes"
	"fmt"
	"io"
	"os"
	"path/filepath"
	"strconv"
	"strings"

	"gitlab.com/gomidi/midi/v2/smf"
)

// failWriter accepts k bytes in total, then fails (short write + error).
type failWriter struct {
	k         int
	acc       bytes.Buffer
	calls     []string // data-less calls (Flush, Sync, Close) the library made
	transient bool     // only the Write that crosses offset k fails; later ones are accepted again
	fullCount bool     // the failing Write takes all bytes and reports the error with the full count (write-then-sync style)
	failed    bool
}

func (w *failWriter) Write(p []byte) (int, error) {
	if w.transient && w.failed {
		w.acc.Write(p)
		return len(p), nil
	}
	room := w.k - w.acc.Len()
	if len(p) <= room {
		w.acc.Write(p)
		return len(p), nil
	}
	if room < 0 {
		room = 0
	}
	w.failed = true
	if w.fullCount {
		w.acc.Write(p)
		return len(p), errInjected
	}
	w.acc.Write(p[:room])
	return room, errInjected
}

// C10: I/O failures are reported, never swallowed.
func init() {
	register(&Prop{
		ID: "C10",
		Rule: "write side: API histories (as C01) written into a destination that fails after k accepted bytes, for EVERY k below the file " +
			"size (capped per tier) and some k beyond; read side: files (valid grammar trees, truncations, soups) read through a source that " +
			"fails from offset f on (sticky, non-EOF), every f (capped) x fragmentation. non-trivial = the failure offset lies inside the " +
			"stream; distinct by op text",
		Gen: func(r *Rng, tier string, emit func(Case)) {
			nw, nr := 100, 100
			if tier == "thorough" {
				nw, nr = 500, 500
			}
			for i := 0; i < nw; i++ {
				h := genHistory(r, "quick", true)
				emit(Case{Op: h.String(), Tags: []string{"write-side"}, NonTrivial: true})
			}
			// one long payload (beyond the 4096-byte path of the payload reader), faults on and around its first and last byte
			for i, ln := range []int{100, 4095, 4096, 4097, 5000, 8192, 20000} {
				for j, kind := range []string{"sysex", "text", "seqdata"} {
					if tier != "thorough" && (i+j)%2 == 1 {
						continue
					}
					for _, last := range []int{0, 1} {
						emit(Case{Op: fmt.Sprintf("c10.bigpayload kind=%s len=%d last=%d", kind, ln, last), Tags: []string{"read-side", "big-payload"}, NonTrivial: true})
					}
				}
			}
			for i := 0; i < nr; i++ {
				emit(Case{Op: fmt.Sprintf("c10.file seed=%d", r.U64()%1000000000), Tags: []string{"read-side"}, NonTrivial: true})
			}
		},
		Run: runC10,
	})
}

func runC10(c Case, m *Model) (v Verdict) {
	v.Counts = map[string]int{}
	switch {
	case strings.HasPrefix(c.Op, "smf.hist"):
		runC10Write(c, m, &v)
	case strings.HasPrefix(c.Op, "c10.bigpayload"):
		f := fields(c.Op)
		ln, _ := strconv.Atoi(f["len"])
		b, start := c10BigPayloadFile(f["kind"], ln, f["last"] == "1")
		for _, k := range []int{start - 3, start - 2, start - 1, start, start + 1, start + 2, start + ln/2, start + ln - 2, start + ln - 1, start + ln, start + ln + 1, len(b) - 1, len(b)} {
			if k < 0 || k > len(b) {
				continue
			}
			cuts := "-"
			if k%2 == 1 {
				cuts = strconv.Itoa(start) // the read that fails starts exactly at the payload
			}
			judgeFault(b, cuts, k%3 == 0, k, m, &v)
			if len(v.Oracle)+len(v.Mismatch) > 2 {
				return
			}
		}
	case strings.HasPrefix(c.Op, "stream.read"):
		f := strings.Fields(c.Op)
		fl := fields(strings.Join(f[2:], " "))
		k, _ := strconv.Atoi(fl["fault"])
		judgeFault(unhx(f[1]), fl["cuts"], fl["eofdata"] == "1", k, m, &v)
	default:
		var seed uint64
		fmt.Sscanf(fields(c.Op)["seed"], "%d", &seed)
		r := NewRng(seed)
		b := genStreamFile(r, m)
		n := len(b)
		// the number of fault offsets shrinks with the size of the file (every ask carries the whole file)
		maxOff := 300
		if n > 8000 {
			maxOff = 40
		} else if n > 2000 {
			maxOff = 100
		}
		step := 1
		if n > maxOff {
			step = n / maxOff
		}
		for k := 0; k <= n; k += step {
			cuts := "-"
			if k%3 == 1 {
				cuts = cutsString(randomCuts(r, n))
			}
			judgeFault(b, cuts, k%2 == 0, k, m, &v)
			if len(v.Oracle)+len(v.Mismatch) > 2 {
				return
			}
		}
	}
	return
}

func judgeFault(b []byte, cuts string, eofData bool, k int, m *Model, v *Verdict) {
	fr := &cutReader{data: b, cuts: parseCuts(cuts), eofWithData: eofData, fault: k}
	got := readClassFrom(readerVariant(fr, k+len(cuts)))
	// the same fault reported with another error value (none of them io.EOF itself)
	if ek := (k + len(b)) % len(faultErrors); ek != 0 {
		fr2 := &cutReader{data: b, cuts: parseCuts(cuts), eofWithData: eofData, fault: k, faultErr: faultErrors[ek]}
		got2 := readClassFrom(readerVariant(fr2, k+len(cuts)))
		v.Counts["read-faults-other-error-values"]++
		if fr2.hit && got2 != "error" {
			v.Oracle = append(v.Oracle, fmt.Sprintf("the source failed with the non-EOF error %q but ReadFrom returned %s :: stream.read %s cuts=%s fault=%d", faultErrors[ek].Error(), short(got2), short(hx(b)), cuts, k))
		}
	}
	v.Counts["read-faults"]++
	v.Counts["reader:"+readerVariantNames[(k+len(cuts))%5]]++
	ed := 0
	if eofData {
		ed = 1
	}
	op := fmt.Sprintf("stream.read %s cuts=%s eofdata=%d fault=%d", hx(b), cuts, ed, k)
	if fr.hit {
		v.Counts["read-fault-hit"]++
		if got != "error" {
			v.Oracle = append(v.Oracle, "the source failed with a non-EOF error but ReadFrom returned "+short(got)+" :: "+short(op))
		}
	} else if mem := readClass(b); got != mem {
		// the reader never saw the failure: it must behave as if there were none
		v.Oracle = append(v.Oracle, "fault never touched, yet the result differs from the fault-free read: "+short(got)+" vs "+short(mem)+" :: "+short(op))
	}
	mf := fields(m.Ask(op))
	hit := "0"
	if fr.hit {
		hit = "1"
	}
	if mf["r"] != got || mf["hit"] != hit {
		v.Mismatch = append(v.Mismatch, "model r="+short(mf["r"])+" hit="+mf["hit"]+" impl r="+short(got)+" hit="+hit+" :: "+short(op))
	}
}

func runC10Write(c Case, m *Model, v *Verdict) {
	h, _ := parseHistory(c.Op)
	var full bytes.Buffer
	s := h.build()
	if _, err := s.WriteTo(&full); err != nil {
		v.Tags = append(v.Tags, "write-error-without-fault")
		return
	}
	n := full.Len()
	c10WriteFile(h, full.Bytes(), c.Op, v)
	step := 1
	if n > 300 {
		step = n / 300
	}
	ks := []int{}
	for k := 0; k < n; k += step {
		ks = append(ks, k)
	}
	ks = append(ks, n-1, n, n+1, n+100)
	for i, k := range ks {
		if k < 0 {
			continue
		}
		fw := &failWriter{k: k}
		var size int64
		var err error
		// the destination also offers optional interfaces (Flush, Sync, Close, WriteString, ReadFrom ...), in turn
		dst := writerVariant(fw, i)
		v.Counts["writer:"+writerVariantNames[i%6]]++
		if p := try(func() { size, err = h.build().WriteTo(dst) }); p != "" {
			v.Oracle = append(v.Oracle, fmt.Sprintf("panic while writing into a failing destination (k=%d): %s", k, p))
			return
		}
		v.Counts["write-faults"]++
		// oracle
		if k < n && err == nil {
			v.Oracle = append(v.Oracle, fmt.Sprintf("destination failed after %d of %d bytes but WriteTo returned nil :: %s", k, n, short(c.Op)))
		}
		if err == nil && (size != int64(fw.acc.Len()) || !bytes.Equal(fw.acc.Bytes(), full.Bytes())) {
			v.Oracle = append(v.Oracle, fmt.Sprintf("WriteTo returned nil with size %d but the destination holds %d bytes (file has %d) :: %s", size, fw.acc.Len(), n, short(c.Op)))
		}
		// the same offset as a transient failure: that one Write fails (short), the destination recovers afterwards
		if k < n {
			ft := &failWriter{k: k, transient: true}
			var errT error
			if p := try(func() { _, errT = h.build().WriteTo(writerVariant(ft, i+1)) }); p != "" {
				v.Oracle = append(v.Oracle, fmt.Sprintf("panic while writing into a destination with a transient failure (k=%d): %s", k, p))
				return
			}
			v.Counts["write-faults-transient"]++
			if ft.failed && errT == nil {
				v.Oracle = append(v.Oracle, fmt.Sprintf("one Write of the destination failed (at offset %d of %d, later Writes succeeded) but WriteTo returned nil :: %s", k, n, short(c.Op)))
			}
		}
		// the same fault with a logger configured (SMF.Logger): logging must not swallow the error
		if k < n && i%2 == 0 {
			fl := &failWriter{k: k}
			var errL error
			if p := try(func() {
				sl := h.build()
				sl.Logger = smf.LogTo(io.Discard)
				_, errL = sl.WriteTo(writerVariant(fl, i))
			}); p != "" {
				v.Oracle = append(v.Oracle, fmt.Sprintf("panic while writing with a logger into a failing destination (k=%d): %s", k, p))
				return
			}
			v.Counts["write-faults-with-logger"]++
			if errL == nil {
				v.Oracle = append(v.Oracle, fmt.Sprintf("with SMF.Logger set: destination failed after %d of %d bytes but WriteTo returned nil :: %s", k, n, short(c.Op)))
			}
		}
		// ... and as a failure reported together with the full count (the bytes were taken, committing them failed),
		// once for good and once recovering
		if k < n {
			for _, tr := range []bool{false, true} {
				ff := &failWriter{k: k, fullCount: true, transient: tr}
				var errF error
				if p := try(func() { _, errF = h.build().WriteTo(writerVariant(ff, i+2)) }); p != "" {
					v.Oracle = append(v.Oracle, fmt.Sprintf("panic while writing into a destination that reports a failure with the full count (k=%d): %s", k, p))
					return
				}
				v.Counts["write-faults-fullcount"]++
				if ff.failed && errF == nil {
					v.Oracle = append(v.Oracle, fmt.Sprintf("a Write of the destination returned an error together with the full count (at offset %d of %d, transient=%v) but WriteTo returned nil :: %s", k, n, tr, short(c.Op)))
					break
				}
			}
		}
		// tie
		mf := fields(m.Ask(c.Op + " failat=" + strconv.Itoa(k)))
		e := "0"
		if err != nil {
			e = "1"
		}
		if mf["err"] != e || mf["size"] != strconv.FormatInt(size, 10) || mf["acc"] != hx(fw.acc.Bytes()) {
			v.Mismatch = append(v.Mismatch, fmt.Sprintf("k=%d model err=%s size=%s acc=%s impl err=%s size=%d acc=%s", k, mf["err"], mf["size"], short(mf["acc"]), e, size, short(hx(fw.acc.Bytes()))))
		}
		if len(v.Oracle)+len(v.Mismatch) > 2 {
			return
		}
	}
}

// c10DevFull: does this system have a file on which every write fails (ENOSPC)?
var c10DevFull = func() bool {
	f, err := os.OpenFile("/dev/full", os.O_WRONLY, 0)
	if err != nil {
		return false
	}
	defer f.Close()
	_, err = f.Write([]byte{0})
	return err != nil
}()

// c10WriteFile: the file-system entry point.  A good destination: nil, and the file holds exactly the bytes WriteTo
// produces.  A destination on which every write(2) fails (a link to /dev/full) and one that cannot be created: an error.
func c10WriteFile(h *history, want []byte, op string, v *Verdict) {
	dir, err := os.MkdirTemp("", "verif-c10-")
	if err != nil {
		v.Tags = append(v.Tags, "no-temp-dir")
		return
	}
	defer os.RemoveAll(dir)
	good := filepath.Join(dir, "good.mid")
	var e1, e2, e3 error
	if p := try(func() { e1 = h.build().WriteFile(good) }); p != "" {
		v.Oracle = append(v.Oracle, "panic in WriteFile: "+p)
		return
	}
	got, rerr := os.ReadFile(good)
	v.Counts["writefile-good"]++
	if e1 != nil {
		v.Oracle = append(v.Oracle, fmt.Sprintf("WriteFile into a fresh directory returned %v although WriteTo succeeds :: %s", e1, short(op)))
	} else if rerr != nil || !bytes.Equal(got, want) {
		v.Oracle = append(v.Oracle, fmt.Sprintf("WriteFile returned nil but the file holds %d bytes (read error %v), WriteTo produces %d :: %s", len(got), rerr, len(want), short(op)))
	}
	if p := try(func() { e2 = h.build().WriteFile(filepath.Join(dir, "missing", "x.mid")) }); p != "" {
		v.Oracle = append(v.Oracle, "panic in WriteFile (destination cannot be created): "+p)
		return
	}
	v.Counts["writefile-nocreate"]++
	if e2 == nil {
		v.Oracle = append(v.Oracle, "WriteFile returned nil for a destination that cannot be created :: "+short(op))
	}
	if c10DevFull {
		full := filepath.Join(dir, "full.mid")
		if os.Symlink("/dev/full", full) == nil {
			if p := try(func() { e3 = h.build().WriteFile(full) }); p != "" {
				v.Oracle = append(v.Oracle, "panic in WriteFile (device full): "+p)
				return
			}
			v.Counts["writefile-devfull"]++
			if e3 == nil {
				v.Oracle = append(v.Oracle, fmt.Sprintf("every write to the destination fails (no space left on device) but WriteFile of this %d-byte file returned nil :: %s", len(want), short(op)))
			}
		}
	}
}

// c10BigPayloadFile: a two-track file with one event that carries ln payload bytes, in the first or in the last track;
// returns the file and the offset of the first payload byte
func c10BigPayloadFile(kind string, ln int, last bool) ([]byte, int) {
	small := []byte{0x00, 0x90, 0x3C, 0x40, 0x10, 0x80, 0x3C, 0x00, 0x00, 0xFF, 0x2F, 0x00}
	var ev []byte
	switch kind {
	case "sysex":
		ev = []byte{0x00, 0xF0}
	case "text":
		ev = []byte{0x00, 0xFF, 0x01}
	default:
		ev = []byte{0x00, 0xFF, 0x7F}
	}
	ev = append(ev, specVLQ(uint32(ln))...)
	off := len(ev)
	for i := 0; i < ln; i++ {
		x := byte((i*7 + 3) & 0x7F)
		if kind == "sysex" && i == ln-1 {
			x = 0xF7
		}
		ev = append(ev, x)
	}
	big := append([]byte{0x00, 0xB0, 0x07, 0x64}, ev...)
	off += 4
	big = append(big, 0x05, 0xC0, 0x01, 0x00, 0xFF, 0x2F, 0x00)
	chunk := func(body []byte) []byte {
		n := len(body)
		return append([]byte{'M', 'T', 'r', 'k', byte(n >> 24), byte(n >> 16), byte(n >> 8), byte(n)}, body...)
	}
	b := []byte{'M', 'T', 'h', 'd', 0, 0, 0, 6, 0, 1, 0, 2, 0, 96}
	if last {
		b = append(b, chunk(small)...)
		start := len(b) + 8 + off
		return append(b, chunk(big)...), start
	}
	start := len(b) + 8 + off
	b = append(b, chunk(big)...)
	return append(b, chunk(small)...), start
}
