// Command harness_midicat exercises the process-backed driver drivers/midicatdrv against the stand-in helper
// `fakemidicat` (C17, support level: what the Lean model cannot exhibit — goroutines, mutexes, a helper
// process).  It must be started with a directory first on PATH that contains the stand-in under the name
// `midicat` (the driver's init() panics otherwise), FAKE_FIFO = path prefix for the loop-back FIFOs and
// FAKE_BIN = path of that stand-in binary (mode nostart makes it unstartable).
//
//	harness_midicat -mode normal|nostart -seed S -n N -out verdict.json
//
// normal: N seeded random protocol-respecting lifecycle histories (open/close both ports, listen, stop, single
// sends, bursts of concurrent senders, bursts that overlap a stop/listen pair or a close/open of the out port)
// on fresh port objects and a
// fresh FIFO each.  Checked per call: it returns within 10 s (watchdog; an expiry is reported with the history
// so far and ends the run), its error class and IsOpen() of both ports are what the port contract says.
// Checked per message (each carries sender and sequence number): one sent while out port open, in port open and
// a listener active arrives at that listener within 10 s, exactly once, in order per sender; a listener is never
// called after its stop function returned; nothing arrives that was not sent or whose Send was refused.
// One-sided: a message sent while nobody listened may still be in the pipe when the next listener starts
// (the transport is asynchronous) — counted as `stale`, not a violation.
package main

import (
	"encoding/json"
	"errors"
	"flag"
	"fmt"
	"os"
	"strconv"
	"strings"
	"sync"
	"sync/atomic"
	"syscall"
	"time"

	"gitlab.com/gomidi/midi/v2/drivers"
	"gitlab.com/gomidi/midi/v2/drivers/midicatdrv"
)

const callDeadline = 10 * time.Second

type violation struct {
	Kind    string `json:"kind"` // timeout | lost | contract | delivery
	Detail  string `json:"detail"`
	History string `json:"history"`
	Index   int    `json:"index"`
}

type trace struct {
	Ops string `json:"ops"`
	Res string `json:"res"`
}

type verdict struct {
	Mode       string         `json:"mode"`
	Seed       uint64         `json:"seed"`
	Histories  int            `json:"histories"`
	Calls      int            `json:"calls"`
	Sent       int            `json:"sent"`
	Expected   int            `json:"expected"`
	Delivered  int            `json:"delivered"`
	Stale      int            `json:"stale"`
	Violations []violation    `json:"violations"`
	Tags       map[string]int `json:"tags"`
	Traces     []trace        `json:"traces"`
	Complete   bool           `json:"complete"`
}

var (
	vd      = verdict{Tags: map[string]int{}}
	vdMu    sync.Mutex
	outPath string
)

func writeVerdict() {
	vdMu.Lock()
	defer vdMu.Unlock()
	data, _ := json.MarshalIndent(&vd, "", " ")
	os.WriteFile(outPath+".tmp", data, 0o644)
	os.Rename(outPath+".tmp", outPath)
}

type rng struct{ s uint64 }

func (r *rng) u64() uint64 {
	r.s += 0x9E3779B97F4A7C15
	z := r.s
	z = (z ^ (z >> 30)) * 0xBF58476D1CE4E5B9
	z = (z ^ (z >> 27)) * 0x94D049BB133111EB
	return z ^ (z >> 31)
}
func (r *rng) intn(n int) int       { return int(r.u64() % uint64(n)) }
func (r *rng) rng(lo, hi int) int   { return lo + r.intn(hi-lo+1) }
func (r *rng) chance(n, d int) bool { return r.intn(d) < n }

type msgRec struct {
	expect int // listener that must get it; -1 = nobody has to (may arrive late at a later listener)
	never  bool
	count  int
}

type runner struct {
	index   int
	in      drivers.In
	out     drivers.Out
	inOpen  bool
	outOpen bool
	active  int
	stops   []func()

	mu       sync.Mutex
	msgs     map[int]*msgRec
	stopped  []bool
	lastSeq  map[[2]int]int
	pending  int
	nextSeq  [16]int
	viol     []violation
	opsDone  []string
	trOps    []string
	trRes    []string
	hmu      sync.Mutex // guards opsDone (read by listener and sender goroutines when they report)
	aborted  atomic.Bool
	slow     atomic.Bool  // listeners dawdle (set while sends overlap a stop call)
	calls    atomic.Int64 // listener calls so far
	watchdog bool

	// While the in port is closed nobody reads the stand-in's FIFO: the harness drains it then, as a MIDI cable
	// with no receiver loses what is sent (otherwise the FIFO fills up and the stand-in `out` helper, and with
	// it Send, would block — an artefact of the stand-in, not of the driver).
	staleWorth bool // the in port was opened while stop functions of earlier listeners exist
	hold       *os.File
	drainStop  chan struct{}
	drainDone  chan struct{}
}

func (r *runner) startDrain() {
	if r.hold == nil || r.drainStop != nil {
		return
	}
	r.drainStop, r.drainDone = make(chan struct{}), make(chan struct{})
	go func(stop, done chan struct{}) {
		defer close(done)
		buf := make([]byte, 1<<16)
		for {
			select {
			case <-stop:
				return
			default:
			}
			r.hold.SetReadDeadline(time.Now().Add(10 * time.Millisecond))
			r.hold.Read(buf)
		}
	}(r.drainStop, r.drainDone)
}

func (r *runner) stopDrain() {
	if r.drainStop == nil {
		return
	}
	close(r.drainStop)
	<-r.drainDone
	r.drainStop, r.drainDone = nil, nil
	r.hold.SetReadDeadline(time.Time{})
}

func (r *runner) history() string {
	r.hmu.Lock()
	defer r.hmu.Unlock()
	return strings.Join(r.opsDone, ",")
}

func (r *runner) did(op string) {
	r.hmu.Lock()
	r.opsDone = append(r.opsDone, op)
	r.hmu.Unlock()
}

func (r *runner) violate(kind, detail string) {
	// r.mu may or may not be held by the caller: viol has its own lock via vdMu
	h := r.history()
	vdMu.Lock()
	if len(vd.Violations) < 20 {
		vd.Violations = append(vd.Violations, violation{kind, detail, fmt.Sprintf("seed=%d history#%d: %s", vd.Seed, r.index, h), r.index})
	}
	vdMu.Unlock()
	r.aborted.Store(true)
}

// call runs one driver call under the watchdog.
func (r *runner) call(name string, f func()) bool {
	vdMu.Lock()
	vd.Calls++
	vdMu.Unlock()
	done := make(chan string, 1)
	go func() {
		defer func() {
			if p := recover(); p != nil {
				done <- fmt.Sprint(p)
				return
			}
			done <- ""
		}()
		f()
	}()
	select {
	case p := <-done:
		if p != "" {
			r.violate("contract", name+" panicked: "+p)
			return false
		}
		return true
	case <-time.After(callDeadline):
		r.violate("timeout", fmt.Sprintf("%s did not return within %v", name, callDeadline))
		r.watchdog = true
		return false
	}
}

func errClass(err error) string {
	if err == nil {
		return "ok"
	}
	if errors.Is(err, drivers.ErrPortClosed) {
		return "closed"
	}
	return "err"
}

func (r *runner) listener(k int) func([]byte, int32) {
	return func(b []byte, ms int32) {
		// now and then the listener is slow, so that a stop call meets a callback that is under way: the stop
		// function must then wait for it (the driver calls listeners under its read lock)
		if r.slow.Load() && r.calls.Add(1)%5 == 0 {
			time.Sleep(150 * time.Microsecond)
		}
		r.mu.Lock()
		defer r.mu.Unlock()
		if r.stopped[k] {
			r.violate("delivery", fmt.Sprintf("listener %d was called or still being called (% X) after its stop function had returned", k, b))
			return
		}
		sender, seq, okMsg := parseTestMsg(b)
		if !okMsg {
			r.violate("delivery", fmt.Sprintf("listener %d got % X, which was never sent", k, b))
			return
		}
		rec := r.msgs[sender<<14|seq]
		if rec == nil {
			r.violate("delivery", fmt.Sprintf("listener %d got message sender=%d seq=%d, which was never sent", k, sender, seq))
			return
		}
		rec.count++
		if rec.never {
			r.violate("delivery", fmt.Sprintf("listener %d got message sender=%d seq=%d although its Send was refused", k, sender, seq))
			return
		}
		if rec.count > 1 {
			r.violate("delivery", fmt.Sprintf("message sender=%d seq=%d was delivered %d times", sender, seq, rec.count))
			return
		}
		key := [2]int{k, sender}
		if last, ok := r.lastSeq[key]; ok && seq <= last {
			r.violate("delivery", fmt.Sprintf("listener %d got sender %d's message %d after message %d (order)", k, sender, seq, last))
		}
		r.lastSeq[key] = seq
		switch {
		case rec.expect == k:
			r.pending--
			vdMu.Lock()
			vd.Delivered++
			vdMu.Unlock()
		case rec.expect < 0:
			vdMu.Lock()
			vd.Stale++
			vdMu.Unlock()
		default:
			r.violate("delivery", fmt.Sprintf("message sender=%d seq=%d sent to listener %d arrived at listener %d", sender, seq, rec.expect, k))
		}
	}
}

// send one message from `sender`.  mode 0: the lifecycle is at rest; 1: the listening state changes while the
// message is under way (it may or may not be delivered); 2: the out port is being closed and reopened
// meanwhile (Send may succeed or report the closed port, and the message may or may not be delivered)
// testMsg: the message that identifies (sender, seq): a note-on, or (two out of three) a sysex of 6..2006 bytes whose
// padding is a function of seq, so that a damaged or spliced line cannot pass for a message that was sent
var testPad = []int{0, 10, 40, 56, 57, 58, 59, 60, 61, 62, 122, 123, 124, 125, 200, 509, 1000, 2000}

func testMsg(sender, seq int) []byte {
	if seq%3 == 0 {
		return []byte{0x90 | byte(sender), byte(seq >> 7), byte(seq & 0x7F)}
	}
	n := testPad[(sender*7+seq*13)%len(testPad)]
	m := make([]byte, 0, n+6)
	m = append(m, 0xF0, 0x7D, byte(sender), byte(seq>>7), byte(seq&0x7F))
	for i := 0; i < n; i++ {
		m = append(m, byte((i*31+seq)&0x7F))
	}
	return append(m, 0xF7)
}

func parseTestMsg(b []byte) (sender, seq int, ok bool) {
	if len(b) == 3 && b[0]&0xF0 == 0x90 && b[1] <= 127 && b[2] <= 127 {
		sender, seq = int(b[0]&0x0F), int(b[1])<<7|int(b[2])
		return sender, seq, seq%3 == 0
	}
	if len(b) >= 6 && b[0] == 0xF0 && b[1] == 0x7D && b[2] < 16 && b[3] <= 127 && b[4] <= 127 {
		sender, seq = int(b[2]), int(b[3])<<7|int(b[4])
		return sender, seq, seq%3 != 0 && string(b) == string(testMsg(sender, seq))
	}
	return 0, 0, false
}

func (r *runner) send(sender int, mode int) {
	r.mu.Lock()
	seq := r.nextSeq[sender]
	r.nextSeq[sender]++
	rec := &msgRec{expect: -1}
	if !r.outOpen && mode != 2 {
		rec.never = true
	} else if r.inOpen && r.active >= 0 && mode == 0 {
		rec.expect = r.active
		r.pending++
	}
	r.msgs[sender<<14|seq] = rec
	outOpen := r.outOpen
	r.mu.Unlock()
	vdMu.Lock()
	vd.Sent++
	if rec.expect >= 0 {
		vd.Expected++
	}
	vdMu.Unlock()
	err := r.out.Send(testMsg(sender, seq))
	got := errClass(err)
	if mode == 2 {
		if got == "closed" {
			r.mu.Lock()
			rec.never = true
			if rec.count > 0 {
				r.violate("delivery", fmt.Sprintf("message sender=%d seq=%d was delivered although its Send reported the closed port", sender, seq))
			}
			r.mu.Unlock()
		} else if got != "ok" {
			r.violate("contract", fmt.Sprintf("Send returned %s (%v) while the out port was closed and reopened; the contract says ok or port-closed", got, err))
		}
		return
	}
	want := "ok"
	if !outOpen {
		want = "closed"
	}
	if got != want {
		r.mu.Lock()
		if rec.expect >= 0 && rec.count == 0 {
			r.pending--
			rec.expect = -1
		}
		r.mu.Unlock()
		r.violate("contract", fmt.Sprintf("Send returned %s (%v), the contract says %s", got, err, want))
	}
}

// settle waits until every message that has to arrive has arrived.
func (r *runner) settle() bool {
	deadline := time.Now().Add(callDeadline)
	for {
		r.mu.Lock()
		p := r.pending
		r.mu.Unlock()
		if p == 0 {
			return true
		}
		if time.Now().After(deadline) {
			r.violate("lost", fmt.Sprintf("%d message(s) sent while the out port was open and a listener was active did not arrive within %v", p, callDeadline))
			return false
		}
		time.Sleep(50 * time.Microsecond)
	}
}

func (r *runner) checkOpen() bool {
	var i, o bool
	if !r.call("IsOpen", func() { i, o = r.in.IsOpen(), r.out.IsOpen() }) {
		return false
	}
	if i != r.inOpen || o != r.outOpen {
		r.violate("contract", fmt.Sprintf("IsOpen() in=%v out=%v, the contract says in=%v out=%v", i, o, r.inOpen, r.outOpen))
		return false
	}
	return true
}

func b01(b bool) string {
	if b {
		return "1"
	}
	return "0"
}

func (r *runner) record(op, res string) {
	r.trOps = append(r.trOps, op)
	r.trRes = append(r.trRes, res+"/"+b01(r.inOpen)+b01(r.outOpen))
}

func (r *runner) expectErr(name string, err error, want string) bool {
	if got := errClass(err); got != want {
		r.violate("contract", fmt.Sprintf("%s returned %s (%v), the contract says %s", name, got, err, want))
		return false
	}
	return true
}

// step runs one op of a history; false = stop this history
func (r *runner) step(op string, g *rng) bool {
	r.did(op)
	var err error
	switch op[0] {
	case 'o', 'c':
		var f func() error
		name := ""
		switch op {
		case "oi":
			f, name = r.in.Open, "in.Open"
		case "oo":
			f, name = r.out.Open, "out.Open"
		case "ci":
			f, name = r.in.Close, "in.Close"
		case "co":
			f, name = r.out.Close, "out.Close"
		}
		if op == "oi" {
			r.stopDrain() // from now on the in helper reads the FIFO
		}
		if !r.call(name, func() { err = f() }) {
			return false
		}
		if op == "ci" || (op == "oi" && err != nil) {
			r.startDrain()
		}
		r.mu.Lock()
		switch op {
		case "oi":
			if !r.inOpen && len(r.stops) > 0 {
				r.staleWorth = true
			}
			r.inOpen = true
		case "oo":
			r.outOpen = true
		case "ci":
			r.inOpen = false
		case "co":
			r.outOpen = false
		}
		r.mu.Unlock()
		r.record(op, errClass(err))
		if !r.expectErr(name, err, "ok") {
			return false
		}
	case 'l':
		k := len(r.stops)
		r.mu.Lock()
		r.stopped = append(r.stopped, false)
		r.mu.Unlock()
		var stop func()
		if !r.call("in.Listen", func() { stop, err = r.in.Listen(r.listener(k), drivers.ListenConfig{SysEx: true}) }) {
			return false
		}
		r.record("l", errClass(err))
		if !r.expectErr("in.Listen", err, "ok") {
			return false
		}
		if stop == nil {
			r.violate("contract", "in.Listen returned no stop function and no error")
			return false
		}
		r.stops = append(r.stops, stop)
		r.mu.Lock()
		r.active = k
		r.mu.Unlock()
	case 's':
		k := len(r.stops) - 1
		if !r.call("stop function", r.stops[k]) {
			return false
		}
		r.mu.Lock()
		r.stopped[k] = true
		r.active = -1
		r.mu.Unlock()
		r.record("s"+strconv.Itoa(k), "ok")
	case 'S':
		k, _ := strconv.Atoi(op[1:])
		if k >= len(r.stops) {
			k = len(r.stops) - 1
		}
		if !r.call("stop function of an earlier listener (called again, nobody listening)", r.stops[k]) {
			return false
		}
		// not recorded in the trace for the Lean contract: with nobody listening it is a no-op there
	case 'x':
		if !r.call("out.Send", func() { r.send(0, 0) }) {
			return false
		}
		r.record("x1", map[bool]string{true: "ok", false: "closed"}[r.outOpen])
		if r.aborted.Load() || !r.settle() {
			return false
		}
	case 'b', 'C', 'D':
		// b<k>x<m>: k concurrent senders, m messages each; C…: the same while this goroutine stops and listens
		// again; D…: the same while this goroutine closes and reopens the out port
		var k, m int
		fmt.Sscanf(op[1:], "%dx%d", &k, &m)
		overlap := op[0] == 'C'
		mode := map[byte]int{'b': 0, 'C': 1, 'D': 2}[op[0]]
		var wg sync.WaitGroup
		started := make(chan struct{})
		for s := 1; s <= k; s++ {
			wg.Add(1)
			go func(s int) {
				defer wg.Done()
				<-started
				for i := 0; i < m; i++ {
					r.send(s, mode)
				}
			}(s)
		}
		ok := true
		if overlap {
			ok = r.call("concurrent sends + stop + Listen", func() {
				r.slow.Store(true)
				defer r.slow.Store(false)
				close(started)
				time.Sleep(time.Duration(g.intn(600)) * time.Microsecond)
				kk := len(r.stops) - 1
				r.stops[kk]()
				r.mu.Lock()
				r.stopped[kk] = true
				r.active = -1
				r.mu.Unlock()
				r.record("s"+strconv.Itoa(kk), "ok")
				nk := len(r.stops)
				r.mu.Lock()
				r.stopped = append(r.stopped, false)
				r.mu.Unlock()
				stop, e := r.in.Listen(r.listener(nk), drivers.ListenConfig{SysEx: true})
				r.record("l", errClass(e))
				if e != nil || stop == nil {
					r.violate("contract", fmt.Sprintf("in.Listen after stop returned %v", e))
				} else {
					r.stops = append(r.stops, stop)
					r.mu.Lock()
					r.active = nk
					r.mu.Unlock()
				}
				wg.Wait()
			})
		} else if mode == 2 {
			ok = r.call("concurrent sends + out.Close + out.Open", func() {
				close(started)
				time.Sleep(time.Duration(g.intn(400)) * time.Microsecond)
				e := r.out.Close()
				r.mu.Lock()
				r.outOpen = false
				r.mu.Unlock()
				r.record("co", errClass(e))
				r.expectErr("out.Close", e, "ok")
				time.Sleep(time.Duration(g.intn(200)) * time.Microsecond)
				e = r.out.Open()
				r.mu.Lock()
				r.outOpen = true
				r.mu.Unlock()
				r.record("oo", errClass(e))
				r.expectErr("out.Open", e, "ok")
				wg.Wait()
			})
		} else {
			ok = r.call("concurrent sends", func() { close(started); wg.Wait() })
			r.record("x1", map[bool]string{true: "ok", false: "closed"}[r.outOpen])
		}
		if !ok || r.aborted.Load() || !r.settle() {
			return false
		}
		if mode != 0 {
			// let what the overlapping senders left in the pipe drain before going on
			time.Sleep(2 * time.Millisecond)
		}
	}
	if r.aborted.Load() {
		return false
	}
	return r.checkOpen()
}

// genOp: the next call of a random protocol-respecting history
func (r *runner) genOp(g *rng) string {
	// the in port has just been (re)opened and there are stop functions from before: call one of them now
	if r.staleWorth && r.active < 0 && r.inOpen && len(r.stops) > 0 {
		r.staleWorth = false
		if g.chance(2, 3) {
			return "S" + strconv.Itoa(g.intn(len(r.stops)))
		}
	}
	for {
		switch k := g.intn(28); {
		case k < 2:
			return "oi"
		case k < 4:
			return "oo"
		case k < 5:
			if r.active < 0 {
				return "ci"
			}
		case k < 6:
			return "co"
		case k < 10:
			if r.inOpen && r.active < 0 {
				return "l"
			}
			if !r.inOpen {
				return "oi"
			}
		case k < 12:
			if len(r.stops) > 0 {
				return "s"
			}
		case k < 13:
			// a stop function that has returned long ago is called once more while nobody listens (also after the
			// port was closed and reopened): nothing to stop, it must simply return
			if len(r.stops) > 0 && r.active < 0 {
				return "S" + strconv.Itoa(g.intn(len(r.stops)))
			}
		case k < 16:
			return "x"
		case k < 21:
			return fmt.Sprintf("b%dx%d", g.rng(2, 4), g.rng(3, 30))
		case k < 25:
			if r.active >= 0 && r.inOpen && r.outOpen {
				return fmt.Sprintf("C%dx%d", g.rng(2, 3), g.rng(5, 30))
			}
		default:
			if r.outOpen {
				return fmt.Sprintf("D%dx%d", g.rng(2, 3), g.rng(5, 30))
			}
		}
	}
}

func runHistory(drv *midicatdrv.Driver, index int, g *rng, fifoBase string) (watchdog bool) {
	fifo := fmt.Sprintf("%s.%d", fifoBase, index)
	os.Remove(fifo)
	if err := syscall.Mkfifo(fifo, 0o600); err != nil {
		fmt.Fprintln(os.Stderr, "mkfifo:", err)
		os.Exit(2)
	}
	defer os.Remove(fifo)
	// keep the FIFO alive (its content must not vanish when no helper has it open)
	hold, err := os.OpenFile(fifo, os.O_RDWR, 0)
	if err != nil {
		fmt.Fprintln(os.Stderr, "open fifo:", err)
		os.Exit(2)
	}
	defer hold.Close()
	os.Setenv("FAKE_FIFO", fifo)
	r := &runner{index: index, active: -1, msgs: map[int]*msgRec{}, lastSeq: map[[2]int]int{}, hold: hold}
	r.startDrain()
	defer r.stopDrain()
	var ins []drivers.In
	var outs []drivers.Out
	if !r.call("Driver.Ins/Outs", func() {
		ins, err = drv.Ins()
		if err == nil {
			outs, err = drv.Outs()
		}
	}) {
		return r.watchdog
	}
	if err != nil || len(ins) != 1 || len(outs) != 1 {
		r.violate("contract", fmt.Sprintf("Ins/Outs: %v (%d ins, %d outs)", err, len(ins), len(outs)))
		return false
	}
	r.in, r.out = ins[0], outs[0]
	n := g.rng(6, 22)
	var pre []string
	if g.chance(2, 3) { // most histories get both ports open and a listener early
		if g.chance(1, 2) {
			pre = []string{"oi", "oo", "l"}
		} else {
			pre = []string{"oo", "oi", "l"}
		}
	}
	for i := 0; i < n; i++ {
		var op string
		if i < len(pre) {
			op = pre[i]
		} else {
			op = r.genOp(g)
		}
		if !r.step(op, g) {
			break
		}
	}
	if r.watchdog {
		return true
	}
	// wind down: stop, close both (twice: idempotent), nothing may arrive afterwards
	if r.active >= 0 {
		r.step("s", g)
	}
	for _, op := range []string{"ci", "co", "ci", "co"} {
		if r.watchdog {
			return true
		}
		r.aborted.Store(false)
		r.step(op, g)
	}
	time.Sleep(time.Millisecond)
	vdMu.Lock()
	vd.Histories++
	if len(vd.Traces) < 40 && !r.watchdog {
		vd.Traces = append(vd.Traces, trace{strings.Join(r.trOps, ","), strings.Join(r.trRes, ",")})
	}
	for _, op := range r.opsDone {
		vd.Tags["midicat-op:"+op[:1]]++
	}
	vdMu.Unlock()
	return r.watchdog
}

// runNoStart: the helper cannot be started; Open must fail, not hang, and leave the port closed and usable.
func runNoStart(drv *midicatdrv.Driver, g *rng, fifoBase string) {
	bin := os.Getenv("FAKE_BIN")
	if bin == "" {
		fmt.Fprintln(os.Stderr, "FAKE_BIN not set")
		os.Exit(2)
	}
	good, err := os.ReadFile(bin)
	if err != nil {
		fmt.Fprintln(os.Stderr, err)
		os.Exit(2)
	}
	fifo := fifoBase + ".nostart"
	os.Remove(fifo)
	syscall.Mkfifo(fifo, 0o600)
	defer os.Remove(fifo)
	os.Setenv("FAKE_FIFO", fifo)
	path := os.Getenv("PATH")
	variants := []struct {
		name    string
		breakIt func()
		mend    func()
	}{
		{"helper removed", func() { os.Remove(bin) }, func() { os.WriteFile(bin, good, 0o755) }},
		{"helper not executable", func() { os.Chmod(bin, 0o644) }, func() { os.Chmod(bin, 0o755) }},
		{"helper is not a program", func() { os.Remove(bin); os.WriteFile(bin, []byte("\x00\x01 not a program\n"), 0o755) },
			func() { os.Remove(bin); os.WriteFile(bin, good, 0o755) }},
		{"PATH without helper", func() { os.Setenv("PATH", "/nonexistent-c17") }, func() { os.Setenv("PATH", path) }},
	}
	for vi, v := range variants {
		r := &runner{index: vi, active: -1, msgs: map[int]*msgRec{}, lastSeq: map[[2]int]int{}}
		var ins []drivers.In
		var outs []drivers.Out
		if !r.call("Driver.Ins/Outs", func() { ins, _ = drv.Ins(); outs, _ = drv.Outs() }) || len(ins) != 1 || len(outs) != 1 {
			r.violate("contract", "Ins/Outs failed with the helper in place")
			return
		}
		r.in, r.out = ins[0], outs[0]
		v.breakIt()
		r.did("[" + v.name + "]")
		probe := func(name string, f func() error, want string) bool {
			var e error
			r.did(name)
			if !r.call(name, func() { e = f() }) {
				return false
			}
			got := errClass(e)
			if want == "fail" {
				if e == nil {
					r.violate("contract", name+" returned nil although the helper cannot be started")
				}
			} else if got != want {
				r.violate("contract", fmt.Sprintf("%s returned %s (%v), the contract says %s", name, got, e, want))
			}
			return r.checkOpen()
		}
		ok := probe("in.Open", r.in.Open, "fail") &&
			probe("in.Open", r.in.Open, "fail") &&
			probe("out.Open", r.out.Open, "fail") &&
			probe("out.Open", r.out.Open, "fail") &&
			probe("in.Listen", func() error { _, e := r.in.Listen(func([]byte, int32) {}, drivers.ListenConfig{SysEx: true}); return e }, "closed") &&
			probe("out.Send", func() error { return r.out.Send([]byte{0x90, 1, 1}) }, "closed") &&
			probe("in.Close", r.in.Close, "ok") &&
			probe("out.Close", r.out.Close, "ok")
		v.mend()
		if r.watchdog {
			return
		}
		if ok {
			// the same port objects work once the helper is back
			r.did("[helper restored]")
			for _, op := range []string{"oi", "oo", "l", "b2x5", "s", "x", "ci", "co"} {
				if !r.step(op, g) {
					break
				}
			}
			if r.watchdog {
				return
			}
		}
		vdMu.Lock()
		vd.Histories++
		vd.Tags["midicat-nostart:"+v.name]++
		vdMu.Unlock()
	}
}

func main() {
	mode := flag.String("mode", "normal", "normal|nostart")
	seed := flag.Uint64("seed", 1, "seed")
	n := flag.Int("n", 10, "number of histories")
	flag.StringVar(&outPath, "out", "verdict.json", "verdict file")
	flag.Parse()
	fifoBase := os.Getenv("FAKE_FIFO")
	if fifoBase == "" {
		fmt.Fprintln(os.Stderr, "FAKE_FIFO not set")
		os.Exit(2)
	}
	vd.Mode, vd.Seed = *mode, *seed
	drv, err := midicatdrv.New()
	if err != nil {
		fmt.Fprintln(os.Stderr, err)
		os.Exit(2)
	}
	g := &rng{*seed*0x9E3779B97F4A7C15 + 17}
	switch *mode {
	case "nostart":
		runNoStart(drv, g, fifoBase)
	default:
		for i := 0; i < *n; i++ {
			if runHistory(drv, i, &rng{g.u64()}, fifoBase) {
				break // a call hangs: the goroutine is stuck inside the driver, nothing more can be learnt here
			}
		}
	}
	hang := false
	vdMu.Lock()
	for _, v := range vd.Violations {
		if v.Kind == "timeout" {
			hang = true
		}
	}
	vdMu.Unlock()
	if !hang {
		done := make(chan struct{})
		go func() { drv.Close(); close(done) }()
		select {
		case <-done:
		case <-time.After(callDeadline):
			vdMu.Lock()
			vd.Violations = append(vd.Violations, violation{"timeout", "Driver.Close did not return within 10s", "end of run", -1})
			vdMu.Unlock()
		}
	}
	vdMu.Lock()
	vd.Complete = true
	vdMu.Unlock()
	writeVerdict()
}
