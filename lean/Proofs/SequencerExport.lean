import Proofs.SequencerEmit
/-!
# C20: complete description of both exports on the domain

`toSMF0_exact` / `toSMF1_exact`: every exported track, seen as absolute ticks, is its header text events,
then a tick-ordered body that is a permutation of what the property text prescribes, then the end of
track at the end of the last bar.
-/
namespace Midi.Sequencer
open Midi Midi.Smf

/-! ## generic list facts -/

theorem flatMap_perm {α β : Type} (f g : α → List β) : ∀ (l : List α), (∀ a ∈ l, (f a).Perm (g a)) →
    (l.flatMap f).Perm (l.flatMap g)
  | [], _ => by simp
  | a :: r, h => by
    simp only [List.flatMap_cons]
    exact (h a (by simp)).append (flatMap_perm f g r (fun x hx => h x (by simp [hx])))

theorem flatMap_congr' {α β : Type} (f g : α → List β) : ∀ (l : List α), (∀ a ∈ l, f a = g a) →
    l.flatMap f = l.flatMap g
  | [], _ => by simp
  | a :: r, h => by
    simp only [List.flatMap_cons]
    rw [h a (by simp), flatMap_congr' f g r (fun x hx => h x (by simp [hx]))]

/-- (tick, message) of a key -/
def proj (k : Nat × Nat × Msg) : Nat × Msg := (k.1, k.2.2)

theorem tm_eq_proj_key : tm = proj ∘ key := rfl

theorem map_tm (l : List TEv) : l.map tm = (l.map key).map proj := by
  rw [List.map_map]; rfl

/-! ## one event -/

theorem noteStart_ch (m : Msg) (ch k : Nat) (h : noteStart m = some (ch, k)) : ch < 16 := by
  unfold noteStart at h
  split at h
  · split at h
    · simp only [Option.some.injEq, Prod.mk.injEq] at h
      omega
    · simp at h
  · simp at h

/-- inside the domain the `uint32` products of `Event.AbsTicks` do not wrap and `end != 0` is `Duration > 0` -/
theorem evTEvs_eq (t st : Nat) (e : Event) (ht1 : 1 ≤ t) (ht : t ≤ 8191) (hp : e.pos < 256) (hd : e.dur < 256) :
    evTEvs t st e = evSpec t st e := by
  have hp1 : t * (e.pos % 4294967296) % 4294967296 = e.pos * t := by
    rw [Nat.mod_eq_of_lt (by omega : e.pos < 4294967296), Nat.mul_comm]
    apply Nat.mod_eq_of_lt
    have := Nat.mul_le_mul (Nat.le_of_lt_succ (by omega : e.pos < 255 + 1)) ht
    omega
  have hd1 : t * (e.dur % 4294967296) % 4294967296 = e.dur * t := by
    rw [Nat.mod_eq_of_lt (by omega : e.dur < 4294967296), Nat.mul_comm]
    apply Nat.mod_eq_of_lt
    have := Nat.mul_le_mul (Nat.le_of_lt_succ (by omega : e.dur < 255 + 1)) ht
    omega
  unfold evTEvs evSpec Event.absTicks
  by_cases h0 : e.dur = 0
  · simp only [hp1, h0, if_true]
    cases noteStart e.msg with
    | none => rfl
    | some ck => simp
  · have hpos : 1 ≤ e.dur * t := Nat.mul_pos (by omega) ht1
    simp only [hp1, hd1, h0, if_false]
    cases noteStart e.msg with
    | none => rfl
    | some ck =>
      simp only [Nat.add_mul, Nat.add_assoc]
      rw [if_pos (by omega)]

/-! ## the song of the domain -/

section
variable (s : Song) (hd : Dom s)
include hd

theorem dom_t : 1 ≤ tq s ∧ tq s ≤ 8191 := (t32_eq s hd.res).2

theorem dom_placed_sig : ∀ sb ∈ laid (tq s) 0 s.bars, SigOK sb.2 :=
  fun sb h => hd.sigs _ (laid_mem _ _ _ sb h).2.2

theorem dom_event (sb : Nat × Bar) (hsb : sb ∈ laid (tq s) 0 s.bars) (e : Event) (he : e ∈ sb.2.events) :
    e.pos < len32 sb.2 ∧ len32 sb.2 ≤ 255 ∧ e.dur < 256 ∧ MsgOK e.msg := by
  have hb := (laid_mem _ _ _ sb hsb).2.2
  obtain ⟨h1, h2, h3⟩ := hd.evs _ hb e he
  exact ⟨h1, (len32_pos _ (hd.sigs _ hb)).2, h2, h3⟩

theorem dom_evTEvs (sb : Nat × Bar) (hsb : sb ∈ laid (tq s) 0 s.bars) :
    sb.2.events.flatMap (evTEvs (tq s) sb.1) = sb.2.events.flatMap (evSpec (tq s) sb.1) := by
  apply flatMap_congr'
  intro e he
  obtain ⟨h1, h2, h3, _⟩ := dom_event s hd sb hsb e he
  exact evTEvs_eq _ _ _ (dom_t s hd).1 (dom_t s hd).2 (by omega) h3

/-- everything the property prescribes lies within the song and is no end-of-track message -/
theorem spec_good (x : TEv) (hx : x ∈ specEvents (tq s) (laid (tq s) 0 s.bars)) :
    x.abs ≤ songEnd s ∧ x.msg ≠ EOT := by
  simp only [specEvents, List.mem_flatMap] at hx
  obtain ⟨sb, hsb, e, he, hx⟩ := hx
  obtain ⟨h1, h2, h3, h4⟩ := dom_event s hd sb hsb e he
  have hm := laid_mem _ _ _ sb hsb
  simp only [evSpec, List.mem_cons] at hx
  rcases hx with hx | hx
  · subst hx
    refine ⟨?_, msgOK_ne_EOT _ h4⟩
    have : e.pos * tq s ≤ len32 sb.2 * tq s := Nat.mul_le_mul_right _ (by omega)
    show sb.1 + e.pos * tq s ≤ songEnd s
    unfold songEnd; omega
  · cases hns : noteStart e.msg with
    | none => simp [hns] at hx
    | some ck =>
      obtain ⟨ch, k⟩ := ck
      simp only [hns] at hx
      by_cases h0 : e.dur = 0
      · simp [h0] at hx
      · simp only [h0, if_false, List.mem_singleton] at hx
        subst hx
        exact ⟨hd.notes sb hsb e he (by simp [hns]), noteOff_ne_EOT _ _ (noteStart_ch _ _ _ hns)⟩

theorem sig_good (x : Nat × Msg) (hx : x ∈ sigChanges (4, 4) (laid (tq s) 0 s.bars)) :
    x.1 ≤ songEnd s ∧ x.2 ≠ EOT := by
  rw [← sigEvts_tm _ _ (dom_placed_sig s hd), List.mem_map] at hx
  obtain ⟨e, he, rfl⟩ := hx
  obtain ⟨sb, hsb, rfl⟩ := sigEvts_mem _ _ _ he
  have hm := laid_mem _ _ _ sb hsb
  refine ⟨?_, ?_⟩
  · show sb.1 ≤ songEnd s
    unfold songEnd; omega
  · show metaMeter sb.2.num sb.2.den ≠ EOT
    exact metaMsg_ne_EOT _ _ (by decide)

variable (srt : List TEv → List TEv) (hs : SortSpec srt)
include hs

/-- all events the bars hand over (`Bar.trackEvents`), up to order and the scratch field -/
theorem all_key_perm :
    ((laid (tq s) 0 s.bars).flatMap (trackEvents srt (tq s))).map key |>.Perm
      ((specEvents (tq s) (laid (tq s) 0 s.bars)).map key) := by
  simp only [specEvents, List.map_flatMap]
  apply flatMap_perm
  intro sb hsb
  simp only [trackEvents, setDeltas_key, dom_evTEvs s hd sb hsb]
  have := ((hs (sb.2.events.flatMap (evSpec (tq s) sb.1))).1).map key
  simpa [List.map_flatMap] using this

theorem all_tm_perm :
    ((laid (tq s) 0 s.bars).flatMap (trackEvents srt (tq s))).map tm |>.Perm
      ((specEvents (tq s) (laid (tq s) 0 s.bars)).map tm) := by
  rw [map_tm, map_tm]
  exact (all_key_perm s hd srt hs).map proj

omit hs in
theorem mkBarLine_eq :
    mkBarLine (tq s) s.bars =
      some (laid (tq s) 0 s.bars, songEnd s, setDeltas 0 (sigEvts (4, 4) (laid (tq s) 0 s.bars))) := by
  simp only [mkBarLine, place_eq (tq s) s.bars 0 hd.sigs, songEnd]

end

theorem header2 (a b : Bytes) :
    (Track.add [] 0 [metaText a]).add 0 [metaCopyright b] = [⟨0, metaText a⟩, ⟨0, metaCopyright b⟩] := by
  have h1 : Track.isClosed [⟨0, metaText a⟩] = false := snoc_open [] 0 _ (metaMsg_ne_EOT 1 a (by decide))
  rw [add_open _ _ _ nil_open, List.nil_append, add_open _ _ _ h1]
  rfl

theorem header3 (a b c : Bytes) :
    ((Track.add [] 0 [metaText a]).add 0 [metaCopyright b]).add 0 [metaSeqName c] =
      [⟨0, metaText a⟩, ⟨0, metaCopyright b⟩, ⟨0, metaSeqName c⟩] := by
  have h2 : Track.isClosed [⟨0, metaText a⟩, ⟨0, metaCopyright b⟩] = false :=
    snoc_open [⟨0, metaText a⟩] 0 _ (metaMsg_ne_EOT 2 b (by decide))
  rw [header2, add_open _ _ _ h2]
  rfl

theorem header1 (c : Bytes) : Track.add [] 0 [metaSeqName c] = [⟨0, metaSeqName c⟩] := by
  rw [add_open _ _ _ nil_open]; rfl

/-- `ToSMF0` on the domain -/
theorem toSMF0_exact (s : Song) (srt : List TEv → List TEv) (hd : Dom s) (hs : SortSpec srt) :
    ∃ tr body, toSMF0 srt s = some ⟨0, .metric (if s.ticks = 0 then 960 else s.ticks), [tr]⟩ ∧
      timeline 0 tr = [(0, metaText s.title), (0, metaCopyright s.composer)] ++ body ++ [(songEnd s, EOT)] ∧
      body.Perm (specSigs s ++ specAll s) ∧
      body.Pairwise (fun a b => a.1 ≤ b.1) := by
  let evts := setDeltas 0 (sigEvts (4, 4) (laid (tq s) 0 s.bars)) ++
    (laid (tq s) 0 s.bars).flatMap (trackEvents srt (tq s))
  have hperm : ((srt evts).map tm).Perm
      (sigChanges (4, 4) (laid (tq s) 0 s.bars) ++ (specEvents (tq s) (laid (tq s) 0 s.bars)).map tm) := by
    refine ((hs evts).1.map tm).trans ?_
    simp only [evts, List.map_append, setDeltas_tm, sigEvts_tm _ _ (dom_placed_sig s hd)]
    exact (List.Perm.refl _).append (all_tm_perm s hd srt hs)
  have hgood : ∀ e ∈ srt evts, e.abs ≤ songEnd s ∧ e.msg ≠ EOT := by
    intro e he
    have : tm e ∈ (srt evts).map tm := List.mem_map.2 ⟨e, he, rfl⟩
    rw [hperm.mem_iff, List.mem_append] at this
    rcases this with h | h
    · exact sig_good s hd _ h
    · obtain ⟨x, hx, hxe⟩ := List.mem_map.1 h
      have := spec_good s hd x hx
      simp only [tm, Prod.mk.injEq] at hxe
      rw [← hxe.1, ← hxe.2]; exact this
  let t0 : Track := [⟨0, metaText s.title⟩, ⟨0, metaCopyright s.composer⟩]
  refine ⟨(addAll t0 0 (srt evts)).1.close (u32sub (songEnd s) (addAll t0 0 (srt evts)).2),
    (srt evts).map tm, ?_, ?_, hperm, ?_⟩
  · simp only [toSMF0, (t32_eq s hd.res).1, mkBarLine_eq s hd, File.addTrack, emptyFile]
    simp [evts, t0, header2]
  · have := emit_timeline [⟨0, metaText s.title⟩, ⟨0, metaCopyright s.composer⟩] (srt evts) (songEnd s)
      (snoc_open [⟨0, metaText s.title⟩] 0 _ (metaMsg_ne_EOT 2 _ (by decide))) (by simp [endTick])
      (hs evts).2 (fun e he => (hgood e he).1) hd.fits (fun e he => (hgood e he).2)
    simpa [timeline] using this
  · rw [List.pairwise_map]
    exact (hs evts).2

/-! ## `ToSMF1` -/

theorem mem_insertNo (n x : Nat) : ∀ (l : List Nat), x ∈ insertNo n l ↔ x = n ∨ x ∈ l
  | [] => by simp [insertNo]
  | a :: r => by
    simp only [insertNo]
    split
    · simp
    · split
      · rename_i h1 h2; subst h2; simp
      · simp only [List.mem_cons, mem_insertNo n x r]
        constructor
        · rintro (h | h | h)
          · exact Or.inr (Or.inl h)
          · exact Or.inl h
          · exact Or.inr (Or.inr h)
        · rintro (h | h | h)
          · exact Or.inr (Or.inl h)
          · exact Or.inl h
          · exact Or.inr (Or.inr h)

theorem insertNo_sorted (n : Nat) : ∀ (l : List Nat), l.Pairwise (· < ·) → (insertNo n l).Pairwise (· < ·)
  | [], _ => by simp [insertNo]
  | a :: r, h => by
    have h' := List.pairwise_cons.1 h
    simp only [insertNo]
    split
    · rename_i hlt
      refine List.Pairwise.cons ?_ h
      intro x hx
      simp only [List.mem_cons] at hx
      rcases hx with hx | hx
      · omega
      · have := h'.1 x hx; omega
    · split
      · exact h
      · rename_i h1 h2
        refine List.Pairwise.cons ?_ (insertNo_sorted n r h'.2)
        intro x hx
        rw [mem_insertNo] at hx
        rcases hx with hx | hx
        · omega
        · exact h'.1 x hx

theorem mem_trackNos (n : Nat) : ∀ (l : List TEv), n ∈ trackNos l ↔ ∃ e ∈ l, e.trackNo = n
  | [] => by simp [trackNos]
  | e :: r => by
    have ih := mem_trackNos n r
    simp only [trackNos, List.foldr_cons] at ih ⊢
    rw [mem_insertNo, ih]
    constructor
    · rintro (h | ⟨x, hx, h⟩)
      · exact ⟨e, by simp, h.symm⟩
      · exact ⟨x, by simp [hx], h⟩
    · rintro ⟨x, hx, h⟩
      simp only [List.mem_cons] at hx
      rcases hx with hx | hx
      · subst hx; exact Or.inl h.symm
      · exact Or.inr ⟨x, hx, h⟩

theorem trackNos_sorted : ∀ (l : List TEv), (trackNos l).Pairwise (· < ·)
  | [] => by simp [trackNos]
  | e :: r => by
    have ih := trackNos_sorted r
    simp only [trackNos, List.foldr_cons] at ih ⊢
    exact insertNo_sorted _ _ ih

theorem foldl_addTrack (f : Nat → Track) : ∀ (l : List Nat) (sm : File),
    (l.foldl (fun sm n => sm.addTrack (f n)) sm).tracks = sm.tracks ++ l.map f ∧
    (l.foldl (fun sm n => sm.addTrack (f n)) sm).tf = sm.tf
  | [], sm => by simp
  | a :: r, sm => by
    obtain ⟨h1, h2⟩ := foldl_addTrack f r (sm.addTrack (f a))
    simp only [List.foldl_cons, h1, h2]
    simp [File.addTrack]

/-- one event track of `ToSMF1` -/
theorem eventTrack_timeline (names : List Bytes) (L : Nat) (sorted : List TEv) (n : Nat)
    (hs : sorted.Pairwise (fun a b => a.abs ≤ b.abs)) (hgood : ∀ e ∈ sorted, e.abs ≤ L ∧ e.msg ≠ EOT)
    (hL : L < 4294967296) :
    timeline 0 (eventTrack names L sorted n) =
      (0, metaSeqName (trackName names n)) :: (sorted.filter (fun e => e.trackNo = n)).map tm ++ [(L, EOT)] := by
  have h1 : Track.isClosed [⟨0, metaSeqName (trackName names n)⟩] = false :=
    snoc_open [] 0 _ (metaMsg_ne_EOT 3 _ (by decide))
  have := emit_timeline [⟨0, metaSeqName (trackName names n)⟩] (sorted.filter (fun e => e.trackNo = n)) L h1
    (by simp [endTick]) (hs.filter _) (fun e he => (hgood e (List.mem_filter.1 he).1).1) hL
    (fun e he => (hgood e (List.mem_filter.1 he).1).2)
  simp only [eventTrack, header1, addTrackNo_eq]
  simpa [timeline] using this

theorem sorted_ext : ∀ (a b : List Nat), a.Pairwise (· < ·) → b.Pairwise (· < ·) → (∀ n, n ∈ a ↔ n ∈ b) → a = b
  | [], [], _, _, _ => rfl
  | [], y :: ys, _, _, h => by have := (h y).2 (by simp); simp at this
  | x :: xs, [], _, _, h => by have := (h x).1 (by simp); simp at this
  | x :: xs, y :: ys, ha, hb, h => by
    have ha' := List.pairwise_cons.1 ha
    have hb' := List.pairwise_cons.1 hb
    have hxy : x = y := by
      have h1 := (h x).1 (by simp)
      have h2 := (h y).2 (by simp)
      simp only [List.mem_cons] at h1 h2
      rcases h1 with h1 | h1
      · exact h1
      · rcases h2 with h2 | h2
        · exact h2.symm
        · have := hb'.1 x h1; have := ha'.1 y h2; omega
    subst hxy
    congr 1
    apply sorted_ext xs ys ha'.2 hb'.2
    intro n
    constructor
    · intro hn
      have := (h n).1 (by simp [hn])
      simp only [List.mem_cons] at this
      rcases this with h1 | h1
      · have := ha'.1 n hn; omega
      · exact h1
    · intro hn
      have := (h n).2 (by simp [hn])
      simp only [List.mem_cons] at this
      rcases this with h1 | h1
      · have := hb'.1 n hn; omega
      · exact h1

/-- `ToSMF1` on the domain: the bar track, then one track per used track number in ascending order -/
theorem toSMF1_exact (s : Song) (srt : List TEv → List TEv) (hd : Dom s) (hs : SortSpec srt) :
    ∃ (f : File) (bt : Track) (g : Nat → Track), toSMF1 srt s = some f ∧
      f.tf = .metric (if s.ticks = 0 then 960 else s.ticks) ∧
      f.tracks = bt :: (usedTracks s).map g ∧
      timeline 0 bt = [(0, metaText s.title), (0, metaCopyright s.composer), (0, metaSeqName [0x62, 0x61, 0x72, 0x73])] ++
        specSigs s ++ [(songEnd s, EOT)] ∧
      ∀ n ∈ usedTracks s, ∃ body,
        timeline 0 (g n) = (0, metaSeqName (trackName s.trackNames n)) :: body ++ [(songEnd s, EOT)] ∧
        body.Perm (specOn s n) ∧ body.Pairwise (fun a b => a.1 ≤ b.1) := by
  let placed := laid (tq s) 0 s.bars
  let all := placed.flatMap (trackEvents srt (tq s))
  let sigs := sigEvts (4, 4) placed
  let bt0 : Track := [⟨0, metaText s.title⟩, ⟨0, metaCopyright s.composer⟩, ⟨0, metaSeqName [0x62, 0x61, 0x72, 0x73]⟩]
  let bt := (addAll bt0 0 sigs).1.close (u32sub (songEnd s) (addAll bt0 0 sigs).2)
  let f := fun n => eventTrack s.trackNames (songEnd s) (srt all) n
  have hkey : ((srt all).map key).Perm ((specEvents (tq s) placed).map key) :=
    ((hs all).1.map key).trans (all_key_perm s hd srt hs)
  have hgood : ∀ e ∈ srt all, e.abs ≤ songEnd s ∧ e.msg ≠ EOT := by
    intro e he
    have : key e ∈ (srt all).map key := List.mem_map.2 ⟨e, he, rfl⟩
    rw [hkey.mem_iff] at this
    obtain ⟨x, hx, hxe⟩ := List.mem_map.1 this
    have := spec_good s hd x hx
    simp only [key, Prod.mk.injEq] at hxe
    rw [← hxe.1, ← hxe.2.2]; exact this
  have hfold := foldl_addTrack f (trackNos all) ((emptyFile (if s.ticks = 0 then 960 else s.ticks)).addTrack bt)
  have hnos : trackNos all = usedTracks s := by
    apply sorted_ext _ _ (trackNos_sorted _) (trackNos_sorted _)
    intro n
    rw [mem_trackNos, mem_trackNos]
    constructor
    · rintro ⟨e, he, rfl⟩
      have : key e ∈ (srt all).map key := List.mem_map.2 ⟨e, ((hs all).1.mem_iff).2 he, rfl⟩
      rw [hkey.mem_iff] at this
      obtain ⟨x, hx, hxe⟩ := List.mem_map.1 this
      simp only [key, Prod.mk.injEq] at hxe
      exact ⟨x, hx, hxe.2.1⟩
    · rintro ⟨x, hx, rfl⟩
      have : key x ∈ (specEvents (tq s) placed).map key := List.mem_map.2 ⟨x, hx, rfl⟩
      rw [← hkey.mem_iff] at this
      obtain ⟨e, he, hxe⟩ := List.mem_map.1 this
      simp only [key, Prod.mk.injEq] at hxe
      exact ⟨e, ((hs all).1.mem_iff).1 he, hxe.2.1⟩
  refine ⟨(trackNos all).foldl (fun sm n => sm.addTrack (f n))
      ((emptyFile (if s.ticks = 0 then 960 else s.ticks)).addTrack bt), bt, f, ?_, ?_, ?_, ?_, ?_⟩
  · simp only [toSMF1, (t32_eq s hd.res).1, mkBarLine_eq s hd, header3, addWithDeltas_setDeltas]
    rfl
  · rw [hfold.2]; rfl
  · rw [hfold.1, hnos]; rfl
  · have hsig : ∀ e ∈ sigs, e.abs ≤ songEnd s ∧ e.msg ≠ EOT := by
      intro e he
      have : tm e ∈ sigChanges (4, 4) placed := by
        rw [← sigEvts_tm _ _ (dom_placed_sig s hd)]; exact List.mem_map.2 ⟨e, he, rfl⟩
      exact sig_good s hd _ this
    have hp : sigs.Pairwise (fun a b => a.abs ≤ b.abs) :=
      sigEvts_pairwise (· ≤ ·) placed (4, 4)
        ((laid_pairwise (tq s) s.bars 0).imp (fun {a b} h => by omega))
    have h3 : Track.isClosed bt0 = false :=
      snoc_open [⟨0, metaText s.title⟩, ⟨0, metaCopyright s.composer⟩] 0 _ (metaMsg_ne_EOT 3 _ (by decide))
    have := emit_timeline bt0 sigs (songEnd s) h3 (by simp [bt0, endTick]) hp (fun e he => (hsig e he).1) hd.fits
      (fun e he => (hsig e he).2)
    rw [sigEvts_tm _ _ (dom_placed_sig s hd)] at this
    simpa [bt0, timeline, specSigs] using this
  · intro n _
    refine ⟨((srt all).filter (fun e => e.trackNo = n)).map tm, ?_, ?_, ?_⟩
    · exact eventTrack_timeline _ _ _ _ (hs all).2 hgood hd.fits
    · rw [specOn, map_tm, map_tm]
      apply List.Perm.map
      have h1 : ((srt all).filter (fun e => e.trackNo = n)).map key =
          ((srt all).map key).filter (fun k => k.2.1 = n) := by
        rw [List.filter_map]; rfl
      have h2 : ((specEvents (tq s) placed).filter (fun e => e.trackNo = n)).map key =
          ((specEvents (tq s) placed).map key).filter (fun k => k.2.1 = n) := by
        rw [List.filter_map]; rfl
      rw [h1, h2]
      exact hkey.filter _
    · rw [List.pairwise_map]
      exact (hs all).2.filter _

end Midi.Sequencer
