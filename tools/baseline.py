#!/usr/bin/env python3
"""Run the repository's pinned test suite (hook guard OFF) and compare with /root/.vp/BASELINE.json.
usage: baseline.py [repo_dir]   exit 0 iff every stable_pass test passed."""
import json, os, subprocess, sys
repo = sys.argv[1] if len(sys.argv) > 1 else os.environ.get("VERIF_REPO", "/repo")
env = dict(os.environ, GOFLAGS="-mod=mod", GOPROXY="off", GOSUMDB="off", GOTOOLCHAIN="local")
p = subprocess.run(["go", "test", "-json", "-vet=off", "-count=1", "-timeout", "25m", "./..."],
                   cwd=os.path.join(repo, "v2"), env=env, capture_output=True, text=True)
res = {}
for ln in p.stdout.splitlines():
    try: d = json.loads(ln)
    except Exception: continue
    if d.get("Test") and d.get("Action") in ("pass", "fail", "skip"):
        res[d["Package"] + "::" + d["Test"]] = d["Action"]
want = None
try:
    want = json.load(open("/root/.vp/BASELINE.json"))["stable_pass"]
except Exception:
    pass
if want is None:
    bad = [k for k, v in res.items() if v == "fail"]
    print(f"baseline file not found; {len(res)} tests ran, {len(bad)} failed")
    sys.exit(1 if bad else 0)
bad = [t for t in want if res.get(t) != "pass"]
print(f"baseline: {len(want) - len(bad)}/{len(want)} stable tests pass")
for t in bad: print("NOT PASSING:", t, res.get(t))
sys.exit(1 if bad else 0)
