// Command fakemidicat is the stand-in for the `midicat` helper binary that drivers/midicatdrv starts
// (C17, support level).  It is installed under the name `midicat` in a directory that is first on PATH.
//
//	midicat version -s      prints 0.6.9 (no newline: the driver parses the output as it is)
//	midicat ins --json      {"0":"fake-in"}
//	midicat outs --json     {"0":"fake-out"}
//	midicat out --index=N   copies each line of stdin into the FIFO $FAKE_FIFO (one write per line)
//	midicat in --index=N    copies whatever arrives in the FIFO to stdout
//
// The FIFO is opened O_RDWR, so opening never blocks and the reader never sees EOF; lines are at most a
// few dozen bytes, i.e. each write is atomic and a read of 64 KiB always returns whole lines.
// The process ends when its parent goes away (the parent pid is polled) or after $FAKE_MAXLIFE seconds
// (default 900), so that nothing is left behind when a harness is killed.
package main

import (
	"bufio"
	"fmt"
	"os"
	"strconv"
	"time"
)

func guard() {
	ppid := os.Getppid()
	life := 900
	if n, err := strconv.Atoi(os.Getenv("FAKE_MAXLIFE")); err == nil && n > 0 {
		life = n
	}
	deadline := time.Now().Add(time.Duration(life) * time.Second)
	go func() {
		for {
			time.Sleep(100 * time.Millisecond)
			if os.Getppid() != ppid || time.Now().After(deadline) {
				os.Exit(3)
			}
		}
	}()
}

func fifo() *os.File {
	p := os.Getenv("FAKE_FIFO")
	if p == "" {
		fmt.Fprintln(os.Stderr, "fakemidicat: FAKE_FIFO not set")
		os.Exit(1)
	}
	f, err := os.OpenFile(p, os.O_RDWR, 0)
	if err != nil {
		fmt.Fprintln(os.Stderr, "fakemidicat:", err)
		os.Exit(1)
	}
	return f
}

func main() {
	if len(os.Args) < 2 {
		os.Exit(2)
	}
	switch os.Args[1] {
	case "version":
		fmt.Print("0.6.9")
	case "ins":
		fmt.Print(`{"0":"fake-in"}`)
	case "outs":
		fmt.Print(`{"0":"fake-out"}`)
	case "out":
		guard()
		f := fifo()
		rd := bufio.NewReaderSize(os.Stdin, 1<<16)
		for {
			line, err := rd.ReadBytes('\n')
			if len(line) > 0 && line[len(line)-1] == '\n' {
				if _, werr := f.Write(line); werr != nil {
					os.Exit(1)
				}
			}
			if err != nil {
				return // stdin closed: the driver closed the port or went away
			}
		}
	case "in":
		guard()
		f := fifo()
		buf := make([]byte, 1<<16)
		for {
			n, err := f.Read(buf)
			if n > 0 {
				if _, werr := os.Stdout.Write(buf[:n]); werr != nil {
					os.Exit(1)
				}
			}
			if err != nil {
				os.Exit(1)
			}
		}
	default:
		os.Exit(2)
	}
}
