package main

// Rng is splitmix64: every random choice of a run derives from one seed.
type Rng struct{ s uint64 }

func NewRng(seed uint64) *Rng {
	// mix the seed non-linearly: with a linear start state, seed n+1 would be seed n advanced by one draw
	z := seed + 0x632BE59BD9B4E019
	z = (z ^ (z >> 30)) * 0xBF58476D1CE4E5B9
	z = (z ^ (z >> 27)) * 0x94D049BB133111EB
	z ^= z >> 31
	return &Rng{z}
}

func (r *Rng) U64() uint64 {
	r.s += 0x9E3779B97F4A7C15
	z := r.s
	z = (z ^ (z >> 30)) * 0xBF58476D1CE4E5B9
	z = (z ^ (z >> 27)) * 0x94D049BB133111EB
	return z ^ (z >> 31)
}

// Intn returns a value in [0,n).
func (r *Rng) Intn(n int) int {
	if n <= 0 {
		return 0
	}
	return int(r.U64() % uint64(n))
}

// Range returns a value in [lo,hi].
func (r *Rng) Range(lo, hi int) int { return lo + r.Intn(hi-lo+1) }

func (r *Rng) Bool() bool { return r.U64()&1 == 1 }

// Chance is true with probability num/den.
func (r *Rng) Chance(num, den int) bool { return r.Intn(den) < num }

func (r *Rng) Byte() byte { return byte(r.U64()) }

func (r *Rng) Bytes(n int) []byte {
	b := make([]byte, n)
	for i := range b {
		b[i] = r.Byte()
	}
	return b
}

// Pick returns one of the given ints.
func (r *Rng) Pick(xs ...int) int { return xs[r.Intn(len(xs))] }

// Fork derives an independent generator.
func (r *Rng) Fork() *Rng { return &Rng{r.U64()} }
