package main

import (
	"bytes"

	"gitlab.com/gomidi/midi/v2/smf"
)

// C01: write/read round trip is the identity on content.
func init() {
	register(&Prop{
		ID: "C01",
		Rule: "API histories (New/NewSMF1/NewSMF2, Track.Add single+multi, Track.Close early/late/omitted, SMF.Add) " +
			"from the seeded PRNG, biased to VLQ boundaries, running-status positions, long payloads, SMPTE divisions; " +
			"non-trivial = at least one message was added; distinct by op text",
		Gen: func(r *Rng, tier string, emit func(Case)) {
			n := 1500
			if tier == "thorough" {
				n = 60000
			}
			for i := 0; i < n; i++ {
				h := genHistory(r, tier, true)
				tags, nt := histTags(h)
				emit(Case{Op: h.String(), Tags: tags, NonTrivial: nt})
			}
			if tier == "thorough" {
				// one file with 40 000 tracks (track counter must not wrap)
				h := &history{format: 1, tf: smf.MetricTicks(96)}
				for i := 0; i < 40000; i++ {
					h.ops = append(h.ops, histOp{'s', 0, 0, nil})
				}
				emit(Case{Op: h.String(), Tags: []string{"40000-tracks"}, NonTrivial: true})
			}
		},
		Run: runC01,
	})
}

func runC01(c Case, m *Model) (v Verdict) {
	h, _ := parseHistory(c.Op)
	mf := fields(m.Ask(c.Op))
	// implementation
	var s *smf.SMF
	var w bytes.Buffer
	var werr error
	if p := try(func() {
		s = h.build()
		_, werr = s.WriteTo(&w)
	}); p != "" {
		v.Oracle = append(v.Oracle, "panic while building/writing: "+p)
		return
	}
	implErr := "0"
	if werr != nil {
		implErr = "1"
	}
	built := showSMF(s)
	if mf["built"] != built {
		v.Mismatch = append(v.Mismatch, "built value differs: model "+short(mf["built"])+" impl "+short(built))
	}
	if mf["err"] != implErr {
		v.Mismatch = append(v.Mismatch, "write error class differs: model "+mf["err"]+" impl "+implErr)
	}
	if werr != nil {
		v.Tags = append(v.Tags, "write-error")
		return
	}
	// property oracle: read back == what was written
	rb := readClass(w.Bytes())
	if rb != "ok:"+built {
		v.Oracle = append(v.Oracle, "read-back differs from the written value: wrote "+short(built)+" read "+short(rb))
	}
	// tie (content only): model reader on the implementation's bytes, implementation reader on the model's bytes
	if mr := fields(m.Ask("smf.read " + hx(w.Bytes())))["r"]; mr != rb {
		v.Mismatch = append(v.Mismatch, "model reader on implementation bytes: model "+short(mr)+" impl "+short(rb))
	}
	if mw := mf["w"]; mw != "" && mw != hx(w.Bytes()) {
		if ir := readClass(unhx(mw)); ir != mf["rb"] {
			v.Mismatch = append(v.Mismatch, "implementation reader on model bytes: model "+short(mf["rb"])+" impl "+short(ir))
		}
	} else if mf["rb"] != rb {
		v.Mismatch = append(v.Mismatch, "read-back differs: model "+short(mf["rb"])+" impl "+short(rb))
	}
	return
}
