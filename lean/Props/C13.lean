import Proofs.RecordValid
import Proofs.RecordTicks
import Props.C01
import Props.C03
/-!
# C13 — recording a live stream yields a valid file with faithful timing

Model: `MidiModel/Record.lean` (`record` = the listener callback of `Track.RecordFrom`, statement by statement,
folded over what the listener receives; `received toks` = what `midi.ListenTo` *without options* hands to that
callback for the token stream `toks` on the port — `Live.listen` with sysex, active sense and timing clock off;
`recordLive` = their composition; `fileOf` = `Close(0)`, `smf.New()`, `MetricTicks(res)`, `Add`).
The conversion `MetricTicks.Ticks` (float64) is the parameter `ticksOf`; `ticksRef` is its exact rational
reference (the named partial aspect: that the float code agrees with `ticksRef` is validated differentially).

All theorems quantify over **every** token stream `toks`: any bytes (channel, real-time, system common, sysex,
stray data — not even restricted to values < 256), any chunking, any clock ticks; over every tempo message and
every conversion function, unless a hypothesis says otherwise. Hypotheses:
* `tempoMsg ≠ EOT` — the first event is not an end-of-track (with `EOT` the Go code, too, would record
  nothing: `Add` on a closed track is a no-op; `MetaTempo` never yields it, see the examples);
* `Forward toks`, `elapsed toks < 2^31` — the driver's clock does not run backwards and the recording is
  shorter than 2^31 ms (the `int32` stamp of the drivers), needed only where *exact* differences are claimed;
* `record_valid`: deltas < 2^28 (4-byte VLQ of the strict format), fewer than 2^27 events (32-bit chunk
  length), a resolution 1..32767.
-/
namespace Midi.C13
open Midi Midi.Smf Midi.Live Midi.Record

/-- Recording never panics: for every token stream the re-typing step of `ListenTo` succeeds on every
    frame, the callback is invoked on a well-defined list `ms` of (message, stamp) pairs — exactly the
    re-typed, unfiltered frames of the decoder, in order — and the outcome is `record … ms`. -/
theorem record_total (ticksOf : Int → Nat) (tempoMsg : Bytes) (toks : List Tok) :
    ∃ ms, received toks = some ms ∧
      ms = (feed recCfg init toks).2.filterMap (msgOfFrame recCfg) ∧
      recordLive ticksOf tempoMsg toks = some (record ticksOf tempoMsg ms) := by
  obtain ⟨ms, h1, h2, _⟩ := received_spec toks
  exact ⟨ms, h1, h2, by simp [recordLive, h1]⟩

/-- The recorded track is the tempo event followed by exactly the channel messages the listener
    received, bytes unchanged, in arrival order; everything else that arrived is not recorded. -/
theorem record_track (ticksOf : Int → Nat) (tempoMsg : Bytes) (toks : List Tok) (ms : List (Bytes × Int))
    (ht : tempoMsg ≠ EOT) (_h : received toks = some ms) :
    (record ticksOf tempoMsg ms).map (·.msg) = tempoMsg :: (chanMsgs ms).map (·.1) ∧
    (record ticksOf tempoMsg ms).length = (chanMsgs ms).length + 1 := by
  obtain ⟨h1, _⟩ := record_eq ticksOf tempoMsg ms ht
  rw [h1]
  simp [recEvents_msgs, recEvents_length]

/-- Deltas: 0 for the tempo event; for the i-th recorded message the conversion of the (int32) difference
    between its stamp and the stamp of the previously *recorded* message (0 before the first). -/
theorem record_deltas (ticksOf : Int → Nat) (tempoMsg : Bytes) (toks : List Tok) (ms : List (Bytes × Int))
    (ht : tempoMsg ≠ EOT) (_h : received toks = some ms) :
    (record ticksOf tempoMsg ms).map (·.delta) =
      0 :: List.zipWith (fun t p => ticksOf (wrap32 (t - p)))
        ((chanMsgs ms).map (·.2)) (0 :: (chanMsgs ms).map (·.2)) := by
  obtain ⟨h1, _⟩ := record_eq ticksOf tempoMsg ms ht
  rw [h1]
  simp [recEvents_deltas]

/-- With a clock that only moves forward and a recording shorter than 2^31 ms the stamps of the recorded
    messages are non-negative and non-decreasing, no `int32` wrap occurs, and the deltas are the conversion
    of the exact stamp differences. -/
theorem record_deltas_forward (ticksOf : Int → Nat) (tempoMsg : Bytes) (toks : List Tok)
    (ms : List (Bytes × Int)) (ht : tempoMsg ≠ EOT) (h : received toks = some ms)
    (hfw : Forward toks) (hel : elapsed toks < 2147483648) :
    (0 :: (chanMsgs ms).map (·.2)).Pairwise (· ≤ ·) ∧
    (record ticksOf tempoMsg ms).map (·.delta) =
      0 :: List.zipWith (fun t p => ticksOf (t - p)) ((chanMsgs ms).map (·.2)) (0 :: (chanMsgs ms).map (·.2)) := by
  obtain ⟨hb, hp⟩ := received_stamps toks hfw ms h
  have hsub : ((chanMsgs ms).map (·.2)).Sublist (ms.map (·.2)) := (List.filter_sublist).map _
  have hb' : ∀ t ∈ (chanMsgs ms).map (·.2), 0 ≤ t ∧ t < 2147483648 := by
    intro t ht'
    obtain ⟨m, hm, rfl⟩ := List.mem_map.1 (hsub.subset ht')
    have := hb m hm; omega
  have hpw : (0 :: (chanMsgs ms).map (·.2)).Pairwise (· ≤ ·) :=
    List.pairwise_cons.2 ⟨fun t ht' => (hb' t ht').1, hp.sublist hsub⟩
  refine ⟨hpw, ?_⟩
  rw [record_deltas ticksOf tempoMsg toks ms ht h]
  congr 1
  generalize (chanMsgs ms).map (·.2) = st at hb' hpw
  -- every pair the zip looks at lies in [0, 2^31): the wrap is the identity
  have key : ∀ (l2 l1 : List Int), (∀ t ∈ l1, 0 ≤ t ∧ t < 2147483648) → (∀ t ∈ l2, 0 ≤ t ∧ t < 2147483648) →
      List.zipWith (fun t p => ticksOf (wrap32 (t - p))) l1 l2 = List.zipWith (fun t p => ticksOf (t - p)) l1 l2 := by
    intro l2
    induction l2 with
    | nil => intro l1 _ _; simp
    | cons p r ih =>
      intro l1 h1 h2
      cases l1 with
      | nil => simp
      | cons t r1 =>
        have a := h1 t (by simp)
        have b := h2 p (by simp)
        simp only [List.zipWith_cons_cons]
        rw [wrap32_id (t - p) (by omega) (by omega),
          ih r1 (fun x hx => h1 x (by simp [hx])) (fun x hx => h2 x (by simp [hx]))]
  exact key (0 :: st) st hb' (by
    intro t ht'
    rcases List.mem_cons.1 ht' with rfl | ht'
    · omega
    · exact hb' t ht')

/-- Faithful timing for the rational reference conversion at resolution `q` and tempo `bn/bd` BPM: the
    delta of the i-th recorded message is `ticksRef` of the non-negative stamp difference `Δ = t − p`
    to its predecessor, and `|delta − q·(bn/bd)·Δ/60000| ≤ 1/2` (multiplied out by `60000·bd`). -/
theorem record_delta_exact (q bn bd : Nat) (hbd : 0 < bd) (tempoMsg : Bytes) (toks : List Tok)
    (ms : List (Bytes × Int)) (ht : tempoMsg ≠ EOT) (h : received toks = some ms)
    (hfw : Forward toks) (hel : elapsed toks < 2147483648) (i : Nat) (t p : Int)
    (hti : ((chanMsgs ms).map (·.2))[i]? = some t) (hpi : (0 :: (chanMsgs ms).map (·.2))[i]? = some p) :
    0 ≤ t - p ∧
    ((record (ticksRef q bn bd) tempoMsg ms)[i + 1]?).map (·.delta) = some (ticksRef q bn bd (t - p)) ∧
    2 * ((ticksRef q bn bd (t - p) : Int) * (60000 * bd) - q * bn * (t - p)).natAbs ≤ 60000 * bd := by
  obtain ⟨hpw, hd⟩ := record_deltas_forward (ticksRef q bn bd) tempoMsg toks ms ht h hfw hel
  have hle := adj_le _ 0 hpw i t p hti hpi
  have hΔ : 0 ≤ t - p := by omega
  refine ⟨hΔ, ?_, ticksRef_exact q bn bd hbd (t - p) hΔ⟩
  have := congrArg (fun l => l[i + 1]?) hd
  simp only [List.getElem?_map, List.getElem?_cons_succ, List.getElem?_zipWith] at this
  rw [this]
  simp only [List.getElem?_map] at hti
  rw [hti, hpi]

/-- Every recorded message after the tempo event is a well-formed channel message: status 0x80..0xEF, one
    data byte for program change / channel pressure and two otherwise, all data bytes < 0x80 — whatever
    bytes arrived on the port. -/
theorem record_only_channel (ticksOf : Int → Nat) (tempoMsg : Bytes) (toks : List Tok)
    (ms : List (Bytes × Int)) (ht : tempoMsg ≠ EOT) (h : received toks = some ms) :
    ∀ e ∈ (record ticksOf tempoMsg ms).drop 1,
      ∃ st d1 d2, (Ev.chan st d1 d2).Valid ∧ e.msg = (Ev.chan st d1 d2).toBytes := by
  obtain ⟨ms', h1, _, hwf, _⟩ := received_spec toks
  rw [h] at h1; cases h1
  obtain ⟨hr, _⟩ := record_eq ticksOf tempoMsg ms ht
  intro e he
  rw [hr] at he
  simp only [List.drop_succ_cons, List.drop_zero] at he
  obtain ⟨m, hm, hc, em⟩ := recEvents_mem ticksOf ms 0 e he
  obtain ⟨st, d1, d2, hv, eb⟩ := hwf m hm hc
  exact ⟨st, d1, d2, hv, by rw [em, eb]⟩

/-- The recording, closed with delta 0 and added to a new format-0 file with a metric division, lies in
    the domain of C01's `roundtrip` and of C03's `strict_of_write`; hence (corollaries of those two
    theorems) `WriteTo` succeeds, the strict SMF 1.0 parser accepts the bytes, and both it and `ReadFrom`
    return exactly the recorded events followed by the end-of-track. -/
theorem record_valid (rsOn : Bool) (ticksOf : Int → Nat) (ty : Nat) (d : Bytes) (res : Nat)
    (toks : List Tok) (ms : List (Bytes × Int))
    (hty : ty < 256) (hne : ty ≠ 0x2F) (hd : d.length < 268435456) (hres : 1 ≤ res ∧ res ≤ 32767)
    (h : received toks = some ms)
    (hδ : ∀ e ∈ record ticksOf (Ev.metaEv ty d).toBytes ms, e.delta < 268435456)
    (hn : (record ticksOf (Ev.metaEv ty d).toBytes ms).length < 134217728) :
    Dom (fileOf res (record ticksOf (Ev.metaEv ty d).toBytes ms)) ∧
    C03.StrictDom rsOn (fileOf res (record ticksOf (Ev.metaEv ty d).toBytes ms)) ∧
    ∃ w, writeTo rsOn (fileOf res (record ticksOf (Ev.metaEv ty d).toBytes ms)) = .ok w ∧
      Strict.parse w = some ⟨0, .metric res, [record ticksOf (Ev.metaEv ty d).toBytes ms ++ [⟨0, EOT⟩]]⟩ ∧
      readFrom w = .ok ⟨0, .metric res, [record ticksOf (Ev.metaEv ty d).toBytes ms ++ [⟨0, EOT⟩]]⟩ := by
  obtain ⟨ms', h1, _, hwf, _⟩ := received_spec toks
  rw [h] at h1; cases h1
  have hT : (Ev.metaEv ty d).toBytes ≠ EOT := by
    intro h0
    have := toBytes_ne_EOT (.metaEv ty d) hne ⟨hty, by omega⟩
    rw [h0] at this; simp at this
  obtain ⟨_, hopen⟩ := record_eq ticksOf _ ms hT
  obtain ⟨body, hb, hsb, hbody⟩ := record_body ticksOf ty d ms hty hne hd hwf hδ
  have hfile := fileOf_eq res _ hopen
  have hprep := fileOf_prepared res _ hopen
  have hdom : Dom (fileOf res (record ticksOf (Ev.metaEv ty d).toBytes ms)) := by
    rw [hfile]
    refine ⟨by simp, hres, by simp, by simp, ?_⟩
    intro t ht
    simp only [List.mem_singleton] at ht
    subst ht
    exact ⟨body, hb, Or.inr ⟨0, by omega, by rw [hbody]⟩⟩
  have hsdom : C03.StrictDom rsOn (fileOf res (record ticksOf (Ev.metaEv ty d).toBytes ms)) := by
    refine ⟨by rw [hfile]; simp, by rw [hfile]; exact hres, by rw [hfile]; simp, by rw [hfile]; simp, ?_, ?_⟩
    · intro t ht
      rw [hfile] at ht
      simp only [List.mem_singleton] at ht
      subst ht
      exact ⟨body, hb, hsb, Or.inr ⟨0, by omega, by rw [hbody]⟩⟩
    · intro t ht b hbt
      rw [hprep] at ht
      simp only [List.mem_singleton] at ht
      subst ht
      exact record_chunk_size rsOn ticksOf ty d ms hT hd hwf hn b hbt
  refine ⟨hdom, hsdom, ?_⟩
  obtain ⟨w, hw, hr⟩ := C01.roundtrip rsOn _ hdom
  obtain ⟨w', hw', hs⟩ := C03.strict_of_write rsOn _ hsdom
  rw [hw] at hw'
  cases hw'
  rw [hprep] at hr hs
  exact ⟨w, hw, hs, hr⟩

/-! ## Non-vacuity

A concrete stream: a note-on, then in one chunk a real-time `FA`, the note-off under a new status, then a
system-common `F3 05` and a stray data byte, a sysex `F0 01 F7`, an active-sense `FE`, finally a program
change and — under running status — a second one. -/
def sampleToks : List Tok :=
  chunkToks [(10, [0x90, 0x3C, 0x40]), (500, [0xFA, 0x80, 0x3C, 0x00]), (0, [0xF3, 0x05, 0x12]),
    (7, [0xF0, 0x01, 0xF7, 0xFE]), (250, [0xC0, 0x05]), (1, [0x06])]

def sampleMs : List (Bytes × Int) :=
  [([0x90, 0x3C, 0x40], 10), ([0xFA], 510), ([0x80, 0x3C, 0x00], 510), ([0xF3, 0x05], 510),
   ([0xC0, 0x05], 767), ([0xC0, 0x06], 768)]

/-- the hypothesis `received toks = some ms` of the theorems is met (and non-channel messages do arrive) -/
example : received sampleToks = some sampleMs := by decide +kernel

example : Forward sampleToks ∧ elapsed sampleToks < 2147483648 := by
  constructor
  · intro d hd
    simp [sampleToks, chunkToks] at hd
    omega
  · decide

/-- `MetaTempo` yields `FF 51 03 …` (C15: `tempo_field`), which is not the end-of-track message, a meta
    event of type `0x51 ≠ 0x2F` with a 3-byte payload -/
example (u : Nat) : [0xFF, 0x51, 0x03, u / 65536, u / 256 % 256, u % 256] ≠ EOT := by simp [EOT]
example (a b c : Nat) : (Ev.metaEv 0x51 [a, b, c]).toBytes = [0xFF, 0x51, 0x03, a, b, c] := by
  simp [Ev.toBytes, Vlq.encode, Vlq.tailLE]
example : Meta.metaTempoRat 120 1 = (Ev.metaEv 0x51 [0x07, 0xA1, 0x20]).toBytes := by decide +kernel

/-- the executable model on the sample at 480 ticks per quarter note and 120 BPM: four channel messages
    recorded, `FA`, `F3 05`, the stray byte, the sysex and `FE` are not; 10 ms = 9.6 → 10 ticks, 500 ms =
    480 ticks, 257 ms = 246.72 → 247 ticks, 1 ms = 0.96 → 1 tick -/
example : recordLive (ticksRef 480 120 1) (Meta.metaTempoRat 120 1) sampleToks =
    some [⟨0, [0xFF, 0x51, 0x03, 0x07, 0xA1, 0x20]⟩, ⟨10, [0x90, 0x3C, 0x40]⟩, ⟨480, [0x80, 0x3C, 0x00]⟩,
      ⟨247, [0xC0, 0x05]⟩, ⟨1, [0xC0, 0x06]⟩] := by decide +kernel

/-- the bounds of `record_valid` hold for it -/
example : (∀ e ∈ record (ticksRef 480 120 1) (Ev.metaEv 0x51 [0x07, 0xA1, 0x20]).toBytes sampleMs, e.delta < 268435456) ∧
    (record (ticksRef 480 120 1) (Ev.metaEv 0x51 [0x07, 0xA1, 0x20]).toBytes sampleMs).length < 134217728 := by
  decide +kernel

/-- and the written file of the executable model is what the theorem says -/
example : (match writeTo true (fileOf 480 (record (ticksRef 480 120 1) (Meta.metaTempoRat 120 1) sampleMs)) with
    | .ok w => Strict.parse w == some ⟨0, .metric 480, [record (ticksRef 480 120 1) (Meta.metaTempoRat 120 1) sampleMs ++ [⟨0, EOT⟩]]⟩
        && readFrom w == .ok ⟨0, .metric 480, [record (ticksRef 480 120 1) (Meta.metaTempoRat 120 1) sampleMs ++ [⟨0, EOT⟩]]⟩
    | _ => false) = true := by decide +kernel

/-- a tie of the reference conversion is rounded up like `math.Round` (1 ms at resolution 100 and 300 BPM
    is exactly half a tick → 1), and there the bound of `record_delta_exact` is attained -/
example : ticksRef 100 300 1 1 = 1 ∧
    2 * ((ticksRef 100 300 1 1 : Int) * (60000 * 1) - 100 * 300 * 1).natAbs = 60000 * 1 := by decide +kernel

end Midi.C13
