import Proofs.Sysex
/-!
# C18, machine control: `GoTo.Parse ∘ GoTo.SysEx`, `Message.Parse ∘ Message.SysEx`; no panic outcome of
  any of the three parsers on any input
-/
namespace Midi.Sysex

theorem goto_parse_build (g0 v : GoTo) : GoTo.parse g0 v.build = .ok v := by
  cases v
  simp [GoTo.parse, GoTo.build, idx]

/-- the device id `Message.SysEx` writes -/
def Message.wireDev (m : Message) : Nat := if m.dev = 0 ∨ m.dev > 127 then 127 else m.dev

theorem msg_parse_build (g0 m : Message) (hc : m.cmd < 0x40) :
    Message.parse g0 m.build = .ok { dev := m.wireDev, cmd := m.cmd, resp := false, data := g0.data } := by
  have hc' : ¬ (m.cmd ≥ 0x40) := by omega
  simp [Message.parse, Message.build, idx, Message.wireDev, hc']

theorem idx_some (bt : Bytes) (i : Nat) (h : i < bt.length) : ∃ b, idx bt i = some b :=
  ⟨bt[i], List.getElem?_eq_getElem h⟩

theorem slice_some (bt : Bytes) (lo hi : Nat) (h : lo ≤ hi ∧ hi ≤ bt.length) : ∃ d, slice bt lo hi = some d := by
  unfold slice; rw [if_pos h]; exact ⟨_, rfl⟩

theorem parseTail_no_panic (bt : Bytes) (s : Manufacturer) (h : 2 ≤ bt.length) : parseTail bt s ≠ .panic := by
  obtain ⟨c, hc⟩ := idx_some bt (bt.length - 2) (by omega)
  obtain ⟨e, he⟩ := idx_some bt (bt.length - 1) (by omega)
  unfold parseTail
  rw [hc, he]
  simp only []
  split
  · simp
  · split <;> simp

/-- the index-out-of-range outcome of the model of `sysex.Parse` is unreachable: the length guards cover
    every access -/
theorem parse_no_panic (bt : Bytes) : parse bt ≠ .panic := by
  unfold parse
  split
  · simp
  · next hl =>
    obtain ⟨b0, h0⟩ := idx_some bt 0 (by omega)
    obtain ⟨b1, h1⟩ := idx_some bt 1 (by omega)
    obtain ⟨b2, h2⟩ := idx_some bt 2 (by omega)
    obtain ⟨b3, h3⟩ := idx_some bt 3 (by omega)
    obtain ⟨b4, h4⟩ := idx_some bt 4 (by omega)
    obtain ⟨b5, h5⟩ := idx_some bt 5 (by omega)
    obtain ⟨b6, h6⟩ := idx_some bt 6 (by omega)
    obtain ⟨b7, h7⟩ := idx_some bt 7 (by omega)
    rw [h0, h1, h2, h3, h4, h5, h6, h7]
    simp only []
    split
    · simp
    · split
      · simp
      · split
        · split
          · simp
          · next hl13 =>
            obtain ⟨n0, hn0⟩ := idx_some bt 8 (by omega)
            obtain ⟨n1, hn1⟩ := idx_some bt 9 (by omega)
            obtain ⟨n2, hn2⟩ := idx_some bt 10 (by omega)
            rw [hn0, hn1, hn2]
            exact parseTail_no_panic bt _ (by omega)
        · obtain ⟨d, hd⟩ := slice_some bt 8 (bt.length - 2) (by omega)
          rw [hd]
          exact parseTail_no_panic bt _ (by omega)

theorem goto_parse_no_panic (g : GoTo) (bt : Bytes) : GoTo.parse g bt ≠ .panic := by
  unfold GoTo.parse
  split
  · simp
  · next hl =>
    have hl : bt.length = 13 := by omega
    obtain ⟨b0, h0⟩ := idx_some bt 0 (by omega)
    obtain ⟨b1, h1⟩ := idx_some bt 1 (by omega)
    obtain ⟨b2, h2⟩ := idx_some bt 2 (by omega)
    obtain ⟨b3, h3⟩ := idx_some bt 3 (by omega)
    obtain ⟨b4, h4⟩ := idx_some bt 4 (by omega)
    obtain ⟨b5, h5⟩ := idx_some bt 5 (by omega)
    obtain ⟨b6, h6⟩ := idx_some bt 6 (by omega)
    obtain ⟨b7, h7⟩ := idx_some bt 7 (by omega)
    obtain ⟨b8, h8⟩ := idx_some bt 8 (by omega)
    obtain ⟨b9, h9⟩ := idx_some bt 9 (by omega)
    obtain ⟨b10, h10⟩ := idx_some bt 10 (by omega)
    obtain ⟨b11, h11⟩ := idx_some bt 11 (by omega)
    obtain ⟨b12, h12⟩ := idx_some bt 12 (by omega)
    rw [h0, h1, h2, h3, h4, h5, h6, h7, h8, h9, h10, h11, h12]
    simp only []
    repeat' split
    all_goals simp

theorem msg_parse_no_panic (g : Message) (bt : Bytes) : Message.parse g bt ≠ .panic := by
  unfold Message.parse
  split
  · simp
  · next hl =>
    obtain ⟨b0, h0⟩ := idx_some bt 0 (by omega)
    obtain ⟨b1, h1⟩ := idx_some bt 1 (by omega)
    obtain ⟨bl, hbl⟩ := idx_some bt (bt.length - 1) (by omega)
    obtain ⟨b2, h2⟩ := idx_some bt 2 (by omega)
    obtain ⟨b3, h3⟩ := idx_some bt 3 (by omega)
    rw [h0, h1, hbl, h2, h3]
    simp only []
    split
    · simp
    · split
      · simp
      · split
        · simp
        · split
          · split
            · simp
            · next hl6 =>
              obtain ⟨b4, h4⟩ := idx_some bt 4 (by omega)
              rw [h4]
              simp only []
              split
              · split
                · simp
                · next hl8 =>
                  obtain ⟨d, hd⟩ := slice_some bt 5 (bt.length - 2) (by omega)
                  rw [hd]; simp
              · simp
          · split
            · split
              · next hl5 =>
                obtain ⟨d, hd⟩ := slice_some bt 4 (bt.length - 2) (by omega)
                rw [hd]; simp
              · simp
            · simp

end Midi.Sysex
