import MidiModel.LiveWire
/-!
# Single steps of the live decoder (`MidiModel/Live.lean`) on the byte classes of the wire model

State predicates (`Clean`, `WaitC`, `WaitS`, `InSx`) describe the decoder between the bytes of a
message; every lemma says what one byte (or one gap of real-time bytes and ticks) does to them.
-/
namespace Midi.LiveWire
open Midi.Live

theorem feed_append (c : Cfg) (s : St) (a b : List Tok) :
    feed c s (a ++ b) = ((feed c (feed c s a).1 b).1, (feed c s a).2 ++ (feed c (feed c s a).1 b).2) := by
  induction a generalizing s with
  | nil => simp [feed]
  | cons x a ih => simp only [List.cons_append, feed, ih, List.append_assoc]

theorem feed_cons (c : Cfg) (s : St) (t : Tok) (r : List Tok) :
    feed c s (t :: r) = ((feed c (stepTok c s t).1 r).1, (stepTok c s t).2 ++ (feed c (stepTok c s t).1 r).2) := rfl

theorem feed_nil (c : Cfg) (s : St) : feed c s [] = (s, []) := rfl

/-- the clock advances by `d` -/
def adv (s : St) (d : Int) : St := { s with ts := s.ts + d }

@[simp] theorem adv_mode (s : St) (d : Int) : (adv s d).mode = s.mode := rfl
@[simp] theorem adv_status (s : St) (d : Int) : (adv s d).status = s.status := rfl
@[simp] theorem adv_typ (s : St) (d : Int) : (adv s d).typ = s.typ := rfl
@[simp] theorem adv_pend (s : St) (d : Int) : (adv s d).pend = s.pend := rfl
@[simp] theorem adv_sx (s : St) (d : Int) : (adv s d).sx = s.sx := rfl
@[simp] theorem adv_sxTs (s : St) (d : Int) : (adv s d).sxTs = s.sxTs := rfl
@[simp] theorem adv_ts (s : St) (d : Int) : (adv s d).ts = s.ts + d := rfl
@[simp] theorem adv_panicked (s : St) (d : Int) : (adv s d).panicked = s.panicked := rfl

theorem adv_zero (s : St) : adv s 0 = s := by cases s; simp [adv]
theorem adv_adv (s : St) (a b : Int) : adv (adv s a) b = adv s (a + b) := by
  cases s; simp [adv, Int.add_assoc]

theorem stepTok_tick (c : Cfg) (s : St) (d : Int) : stepTok c s (.tick d) = (adv s d, []) := rfl

theorem step_rt (c : Cfg) (s : St) (b : Nat) (h : 0xF8 ≤ b) : step c s b = (s, [([b], s.ts)]) := by
  simp [step, h]

/-- a gap: the real-time bytes are handed on one by one with the clock of their arrival, the decoder
    state is untouched except for the clock -/
theorem feed_gap (c : Cfg) (s : St) (g : Gap) (h : gapOk g = true) :
    feed c s g = (adv s (tickSum g), gapMsgs s.ts g) := by
  induction g generalizing s with
  | nil => simp [feed, tickSum, gapMsgs, adv_zero]
  | cons x g ih =>
    cases x with
    | byte b =>
      simp only [gapOk, Bool.and_eq_true, decide_eq_true_eq] at h
      rw [feed_cons, stepTok, step_rt c s b h.1]
      simp only [ih s h.2, tickSum, gapMsgs, List.singleton_append]
    | tick d =>
      simp only [gapOk] at h
      rw [feed_cons, stepTok_tick]
      simp only [ih (adv s d) h, tickSum, gapMsgs, adv_adv, adv_ts, List.nil_append]

/-- a gap followed by more tokens -/
theorem feed_gap_then (c : Cfg) (s : St) (g : Gap) (rest : List Tok) (h : gapOk g = true) :
    feed c s (g ++ rest) =
      ((feed c (adv s (tickSum g)) rest).1, gapMsgs s.ts g ++ (feed c (adv s (tickSum g)) rest).2) := by
  rw [feed_append, feed_gap c s g h]

/-! ## state predicates -/

/-- between messages: running status `run` (`0` = none), clock `t` -/
structure Clean (s : St) (run : Nat) (t : Int) : Prop where
  mode : s.mode = .clean
  status : s.status = run
  ts : s.ts = t
  typ : run ≠ 0 → s.typ = run / 16
  pend : run ≠ 0 → s.pend = none

/-- inside a channel message with status `st`: `pend` = the first data byte if it has arrived -/
structure WaitC (s : St) (st : Nat) (pend : Option Nat) (t : Int) : Prop where
  mode : s.mode = .chan
  status : s.status = st
  typ : s.typ = st / 16
  pend : s.pend = pend
  ts : s.ts = t

/-- inside a system common message with status `st` -/
structure WaitS (s : St) (st : Nat) (pend : Option Nat) (t : Int) : Prop where
  mode : s.mode = .sysc
  status : s.status = 0
  typ : s.typ = st
  pend : s.pend = pend
  ts : s.ts = t

/-- inside a sysex: `data` collected so far, started at clock `t0` -/
structure InSx (s : St) (data : Bytes) (t0 t : Int) : Prop where
  mode : s.mode = .sysex
  status : s.status = 0
  sx : s.sx = 0xF0 :: data
  sxTs : s.sxTs = t0
  ts : s.ts = t

theorem Clean.adv {s : St} {run : Nat} {t : Int} (h : Clean s run t) (d : Int) : Clean (adv s d) run (t + d) :=
  ⟨h.mode, h.status, by simp [h.ts], h.typ, h.pend⟩
theorem WaitC.adv {s : St} {st : Nat} {p : Option Nat} {t : Int} (h : WaitC s st p t) (d : Int) :
    WaitC (adv s d) st p (t + d) := ⟨h.mode, h.status, h.typ, h.pend, by simp [h.ts]⟩
theorem WaitS.adv {s : St} {st : Nat} {p : Option Nat} {t : Int} (h : WaitS s st p t) (d : Int) :
    WaitS (adv s d) st p (t + d) := ⟨h.mode, h.status, h.typ, h.pend, by simp [h.ts]⟩
theorem InSx.adv {s : St} {data : Bytes} {t0 t : Int} (h : InSx s data t0 t) (d : Int) :
    InSx (adv s d) data t0 (t + d) := ⟨h.mode, h.status, h.sx, h.sxTs, by simp [h.ts]⟩

theorem clean_init : Clean init 0 0 := ⟨rfl, rfl, rfl, fun h => absurd rfl h, fun h => absurd rfl h⟩

/-! ## status bytes, from ANY state -/

/-- a new non-real-time status byte `≠ F0, F7`: whatever the decoder was doing, it goes on as
    `cleanState` on a state whose mode is clean (an incomplete message or sysex is abandoned) -/
theorem step_status (c : Cfg) (s : St) (b : Nat) (h1 : 0x80 ≤ b) (h2 : b < 0xF8) (h3 : b ≠ 0xF0) (h4 : b ≠ 0xF7) :
    ∃ s', step c s b = cleanState s' b ∧ s'.mode = .clean ∧ s'.ts = s.ts ∧ s'.status = s.status := by
  have hrt : ¬ 0xF8 ≤ b := by omega
  unfold step
  simp only [hrt, if_false, h1, true_and]
  cases hm : s.mode with
  | clean => exact ⟨s, by simp [hm], hm, rfl, rfl⟩
  | unknown => exact ⟨{ s with mode := .clean }, by simp [hm], rfl, rfl, rfl⟩
  | sysex => exact ⟨{ s with sx := [], mode := .clean }, by simp [hm, sysexStep, h1, h3, h4], rfl, rfl, rfl⟩
  | chan => exact ⟨{ s with pend := none, mode := .clean }, by simp, rfl, rfl, rfl⟩
  | sysc => exact ⟨{ s with pend := none, mode := .clean }, by simp, rfl, rfl, rfl⟩

theorem cleanState_chanStatus (s : St) (st : Nat) (h1 : 0x80 ≤ st) (h2 : st ≤ 0xEF) :
    cleanState s st = ({ s with status := st, pend := none, typ := st / 16, mode := .chan }, []) := by
  have e1 : ¬ st = 0xF0 := by omega
  have e2 : ¬ st = 0xF7 := by omega
  have e3 : ¬ (0xF0 < st ∧ st < 0xF7) := by omega
  simp only [cleanState, e1, e2, e3, h1, h2, if_false, and_self, if_true]

theorem cleanState_syscStatus (s : St) (st : Nat) (h : st = 0xF1 ∨ st = 0xF2 ∨ st = 0xF3) :
    cleanState s st = ({ s with status := 0, pend := none, mode := .sysc, typ := st }, []) := by
  have e1 : ¬ st = 0xF0 := by omega
  have e2 : ¬ st = 0xF7 := by omega
  have e3 : 0xF0 < st ∧ st < 0xF7 := by omega
  simp only [cleanState, e1, e2, e3, h, if_false, and_self, if_true]

theorem cleanState_tune (s : St) :
    cleanState s 0xF6 = ({ s with status := 0, pend := none }, [([0xF6, 0, 0], s.ts)]) := by
  simp [cleanState]

theorem cleanState_sxStart (s : St) :
    cleanState s 0xF0 = ({ s with status := 0, sx := [0xF0], sxTs := s.ts, mode := .sysex }, []) := by
  simp [cleanState]

theorem step_chanStatus (c : Cfg) (s : St) (st : Nat) (h1 : 0x80 ≤ st) (h2 : st ≤ 0xEF) :
    (step c s st).2 = [] ∧ WaitC (step c s st).1 st none s.ts := by
  obtain ⟨s', e, _, hts, _⟩ := step_status c s st h1 (by omega) (by omega) (by omega)
  rw [e, cleanState_chanStatus s' st h1 h2]
  exact ⟨rfl, rfl, rfl, rfl, rfl, hts⟩

theorem step_syscStatus (c : Cfg) (s : St) (st : Nat) (h : st = 0xF1 ∨ st = 0xF2 ∨ st = 0xF3) :
    (step c s st).2 = [] ∧ WaitS (step c s st).1 st none s.ts := by
  obtain ⟨s', e, _, hts, _⟩ := step_status c s st (by omega) (by omega) (by omega) (by omega)
  rw [e, cleanState_syscStatus s' st h]
  exact ⟨rfl, rfl, rfl, rfl, rfl, hts⟩

theorem step_tune (c : Cfg) (s : St) :
    (step c s 0xF6).2 = [([0xF6, 0, 0], s.ts)] ∧ Clean (step c s 0xF6).1 0 s.ts := by
  obtain ⟨s', e, hm, hts, _⟩ := step_status c s 0xF6 (by omega) (by omega) (by omega) (by omega)
  rw [e, cleanState_tune s', hts]
  exact ⟨rfl, hm, rfl, rfl, fun h => absurd rfl h, fun h => absurd rfl h⟩

theorem step_sxStart (c : Cfg) (s : St) :
    (step c s 0xF0).2 = [] ∧ InSx (step c s 0xF0).1 [] s.ts s.ts := by
  obtain ⟨mode, status, typ, pend, sx, sxTs, ts, panicked⟩ := s
  cases mode <;> simp [step, cleanState, sysexStep] <;> exact ⟨rfl, rfl, rfl, rfl, rfl⟩

/-! ## data bytes -/

theorem step_chan_data (c : Cfg) (s : St) (d : Nat) (hm : s.mode = .chan) (hd : d < 0x80) :
    step c s d = withinChan s d := by
  have h1 : ¬ 0xF8 ≤ d := by omega
  have h2 : ¬ 0x80 ≤ d := by omega
  simp [step, h1, h2, hm]

theorem step_sysc_data (c : Cfg) (s : St) (d : Nat) (hm : s.mode = .sysc) (hd : d < 0x80) :
    step c s d = syscStep s d := by
  have h1 : ¬ 0xF8 ≤ d := by omega
  have h2 : ¬ 0x80 ≤ d := by omega
  simp [step, h1, h2, hm]

theorem step_sysex (c : Cfg) (s : St) (b : Nat) (hm : s.mode = .sysex) (hb : b < 0xF8) :
    step c s b = sysexStep c s b := by
  have h1 : ¬ 0xF8 ≤ b := by omega
  simp [step, h1, hm]

/-- running status: a data byte between messages continues with the status of the last channel message -/
theorem step_clean_data (c : Cfg) (s : St) (d : Nat) (hm : s.mode = .clean) (hs : s.status ≠ 0) (hd : d < 0x80) :
    step c s d = withinChan { s with mode := .chan } d := by
  have h1 : ¬ 0xF8 ≤ d := by omega
  have h2 : ¬ 0x80 ≤ d := by omega
  have e1 : ¬ d = 0xF0 := by omega
  have e2 : ¬ d = 0xF7 := by omega
  have e3 : ¬ (0xF0 < d ∧ d < 0xF7) := by omega
  simp [step, h1, h2, hm, cleanState, e1, e2, e3, hs]

theorem chanLen_one {st : Nat} (h : chanLen st = 1) : st / 16 = 0xD ∨ st / 16 = 0xC := by
  unfold chanLen at h
  by_cases hh : st / 16 = 0xC ∨ st / 16 = 0xD
  · omega
  · simp [hh] at h

theorem chanLen_two {st : Nat} (h1 : 0x80 ≤ st) (h2 : st ≤ 0xEF) (h : chanLen st = 2) :
    ¬ (st / 16 = 0xD ∨ st / 16 = 0xC) ∧
    (st / 16 = 0xB ∨ st / 16 = 0x9 ∨ st / 16 = 0x8 ∨ st / 16 = 0xA ∨ st / 16 = 0xE) := by
  unfold chanLen at h
  by_cases hh : st / 16 = 0xC ∨ st / 16 = 0xD
  · simp [hh] at h
  · omega

/-- the only data byte of a program change / channel pressure -/
theorem step_chan_only (c : Cfg) (s : St) (st d : Nat) (t : Int) (h : WaitC s st none t)
    (hl : chanLen st = 1) (hd : d < 0x80) :
    (step c s d).2 = [([st, d, 0], t)] ∧ Clean (step c s d).1 st t := by
  have hty := chanLen_one hl
  rw [step_chan_data c s d h.mode hd]
  obtain ⟨mode, status, typ, pend, sx, sxTs, ts, panicked⟩ := s
  obtain ⟨hm, hs, ht, hp, hts⟩ := h
  simp only at hm hs ht hp hts
  subst hm hs ht hp hts
  have e : withinChan ⟨.chan, status, status / 16, none, sx, sxTs, ts, panicked⟩ d
      = (⟨.clean, status, status / 16, none, sx, sxTs, ts, panicked⟩, [([status, d, 0], ts)]) := by
    simp [withinChan, hty]
  rw [e]
  exact ⟨rfl, rfl, rfl, rfl, fun _ => rfl, fun _ => rfl⟩

/-- the first of two data bytes -/
theorem step_chan_first (c : Cfg) (s : St) (st d : Nat) (t : Int) (h : WaitC s st none t)
    (h1 : 0x80 ≤ st) (h2 : st ≤ 0xEF) (hl : chanLen st = 2) (hd : d < 0x80) :
    (step c s d).2 = [] ∧ WaitC (step c s d).1 st (some d) t := by
  obtain ⟨n1, n2⟩ := chanLen_two h1 h2 hl
  rw [step_chan_data c s d h.mode hd]
  obtain ⟨mode, status, typ, pend, sx, sxTs, ts, panicked⟩ := s
  obtain ⟨hm, hs, ht, hp, hts⟩ := h
  simp only at hm hs ht hp hts
  subst hm hs ht hp hts
  have e : withinChan ⟨.chan, status, status / 16, none, sx, sxTs, ts, panicked⟩ d
      = (⟨.chan, status, status / 16, some d, sx, sxTs, ts, panicked⟩, []) := by
    simp [withinChan, n1, n2]
  rw [e]
  exact ⟨rfl, rfl, rfl, rfl, rfl, rfl⟩

/-- the second of two data bytes -/
theorem step_chan_second (c : Cfg) (s : St) (st x d : Nat) (t : Int) (h : WaitC s st (some x) t)
    (h1 : 0x80 ≤ st) (h2 : st ≤ 0xEF) (hl : chanLen st = 2) (hd : d < 0x80) :
    (step c s d).2 = [([st, x, d], t)] ∧ Clean (step c s d).1 st t := by
  obtain ⟨n1, n2⟩ := chanLen_two h1 h2 hl
  rw [step_chan_data c s d h.mode hd]
  obtain ⟨mode, status, typ, pend, sx, sxTs, ts, panicked⟩ := s
  obtain ⟨hm, hs, ht, hp, hts⟩ := h
  simp only at hm hs ht hp hts
  subst hm hs ht hp hts
  have e : withinChan ⟨.chan, status, status / 16, some x, sx, sxTs, ts, panicked⟩ d
      = (⟨.clean, status, status / 16, none, sx, sxTs, ts, panicked⟩, [([status, x, d], ts)]) := by
    simp [withinChan, n1, n2]
  rw [e]
  exact ⟨rfl, rfl, rfl, rfl, fun _ => rfl, fun _ => rfl⟩

/-- between messages with running status `st` the decoder is as good as waiting for the data of `st` -/
theorem clean_running (c : Cfg) (s : St) (st d : Nat) (t : Int) (h : Clean s st t) (hst : st ≠ 0) (hd : d < 0x80) :
    step c s d = step c { s with mode := .chan } d ∧ WaitC { s with mode := .chan } st none t := by
  have hs : s.status ≠ 0 := by rw [h.status]; exact hst
  rw [step_clean_data c s d h.mode hs hd, step_chan_data c _ d rfl hd]
  exact ⟨rfl, rfl, h.status, h.typ hst, h.pend hst, h.ts⟩

/-- the data byte of `F1` / `F3` -/
theorem step_sysc_only (c : Cfg) (s : St) (st d : Nat) (t : Int) (h : WaitS s st none t)
    (hst : st = 0xF1 ∨ st = 0xF3) (hd : d < 0x80) :
    (step c s d).2 = [([st, d, 0], t)] ∧ Clean (step c s d).1 0 t := by
  rw [step_sysc_data c s d h.mode hd]
  obtain ⟨mode, status, typ, pend, sx, sxTs, ts, panicked⟩ := s
  obtain ⟨hm, hs, ht, hp, hts⟩ := h
  simp only at hm hs ht hp hts
  subst hm hs ht hp hts
  have e : syscStep ⟨.sysc, 0, typ, none, sx, sxTs, ts, panicked⟩ d
      = (⟨.clean, 0, typ, none, sx, sxTs, ts, panicked⟩, [([typ, d, 0], ts)]) := by
    simp [syscStep, hst]
  rw [e]
  exact ⟨rfl, rfl, rfl, rfl, fun hh => absurd rfl hh, fun _ => rfl⟩

theorem step_spp_first (c : Cfg) (s : St) (d : Nat) (t : Int) (h : WaitS s 0xF2 none t) (hd : d < 0x80) :
    (step c s d).2 = [] ∧ WaitS (step c s d).1 0xF2 (some d) t := by
  rw [step_sysc_data c s d h.mode hd]
  obtain ⟨mode, status, typ, pend, sx, sxTs, ts, panicked⟩ := s
  obtain ⟨hm, hs, ht, hp, hts⟩ := h
  simp only at hm hs ht hp hts
  subst hm hs ht hp hts
  have e : syscStep ⟨.sysc, 0, 0xF2, none, sx, sxTs, ts, panicked⟩ d
      = (⟨.sysc, 0, 0xF2, some d, sx, sxTs, ts, panicked⟩, []) := by
    simp [syscStep]
  rw [e]
  exact ⟨rfl, rfl, rfl, rfl, rfl, rfl⟩

theorem step_spp_second (c : Cfg) (s : St) (x d : Nat) (t : Int) (h : WaitS s 0xF2 (some x) t) (hd : d < 0x80) :
    (step c s d).2 = [([0xF2, x, d], t)] ∧ Clean (step c s d).1 0 t := by
  rw [step_sysc_data c s d h.mode hd]
  obtain ⟨mode, status, typ, pend, sx, sxTs, ts, panicked⟩ := s
  obtain ⟨hm, hs, ht, hp, hts⟩ := h
  simp only at hm hs ht hp hts
  subst hm hs ht hp hts
  have e : syscStep ⟨.sysc, 0, 0xF2, some x, sx, sxTs, ts, panicked⟩ d
      = (⟨.clean, 0, 0xF2, none, sx, sxTs, ts, panicked⟩, [([0xF2, x, d], ts)]) := by
    simp [syscStep]
  rw [e]
  exact ⟨rfl, rfl, rfl, rfl, fun hh => absurd rfl hh, fun _ => rfl⟩

/-- a data byte inside a sysex that still fits into the buffer -/
theorem step_sx_data (c : Cfg) (s : St) (data : Bytes) (d : Nat) (t0 t : Int) (h : InSx s data t0 t)
    (hc : c.sysex = true) (hlen : data.length + 1 < c.bufSize) (hd : d < 0x80) :
    (step c s d).2 = [] ∧ InSx (step c s d).1 (data ++ [d]) t0 t := by
  have e1 : ¬ d = 0xF0 := by omega
  have e2 : ¬ d = 0xF7 := by omega
  have e3 : ¬ 0x80 ≤ d := by omega
  rw [step_sysex c s d h.mode (by omega)]
  obtain ⟨mode, status, typ, pend, sx, sxTs, ts, panicked⟩ := s
  obtain ⟨hm, hs, hsx, hst, hts⟩ := h
  simp only at hm hs hsx hst hts
  subst hm hs hsx hst hts
  have e : sysexStep c ⟨.sysex, 0, typ, pend, 0xF0 :: data, sxTs, ts, panicked⟩ d
      = (⟨.sysex, 0, typ, pend, 0xF0 :: (data ++ [d]), sxTs, ts, panicked⟩, []) := by
    simp [sysexStep, e1, e2, e3, hc, hlen]
  rw [e]
  exact ⟨rfl, rfl, rfl, rfl, rfl, rfl⟩

/-- the closing `F7` of a sysex that fits into the buffer: delivered with the clock of its `F0` -/
theorem step_sx_end (c : Cfg) (s : St) (data : Bytes) (t0 t : Int) (h : InSx s data t0 t)
    (hc : c.sysex = true) (hlen : data.length + 1 < c.bufSize) :
    (step c s 0xF7).2 = [(0xF0 :: (data ++ [0xF7]), t0)] ∧ Clean (step c s 0xF7).1 0 t := by
  rw [step_sysex c s 0xF7 h.mode (by omega)]
  obtain ⟨mode, status, typ, pend, sx, sxTs, ts, panicked⟩ := s
  obtain ⟨hm, hs, hsx, hst, hts⟩ := h
  simp only at hm hs hsx hst hts
  subst hm hs hsx hst hts
  have e : sysexStep c ⟨.sysex, 0, typ, pend, 0xF0 :: data, sxTs, ts, panicked⟩ 0xF7
      = (⟨.clean, 0, typ, pend, [], sxTs, ts, panicked⟩, [(0xF0 :: (data ++ [0xF7]), sxTs)]) := by
    simp [sysexStep, hc, hlen]
  rw [e]
  exact ⟨rfl, rfl, rfl, rfl, fun hh => absurd rfl hh, fun hh => absurd rfl hh⟩

end Midi.LiveWire
