import MidiModel.Smf
import Proofs.Vlq
/-! Totality of the reader model: the fuel never runs out, for every byte string (C05). -/
namespace Midi.Smf
open Midi.Vlq

theorem readAux_rest (f acc : Nat) (bs : Bytes) (v : Nat) (rest : Bytes)
    (h : readAux f acc bs = some (v, rest)) : rest.length < bs.length := by
  induction f generalizing acc bs with
  | zero => simp [readAux] at h
  | succ f ih =>
    cases bs with
    | nil => simp [readAux] at h
    | cons b bs =>
      simp only [readAux] at h
      split at h
      · simp only [Option.some.injEq, Prod.mk.injEq] at h
        obtain ⟨_, rfl⟩ := h
        simp
      · have := ih _ _ h
        simp only [List.length_cons]; omega

theorem readVlq_rest (bs : Bytes) (v : Nat) (rest : Bytes) (h : readVlq bs = .ok (v, rest)) :
    rest.length < bs.length := by
  unfold readVlq at h
  split at h
  · cases h
  · rename_i x hx
    simp only [Except.ok.injEq] at h
    subst h
    exact readAux_rest _ _ _ _ _ hx

theorem readVlq_err (bs : Bytes) (e : RErr) (h : readVlq bs = .error e) : e = .ueof := by
  unfold readVlq at h
  split at h
  · simp only [Except.error.injEq] at h; exact h.symm
  · cases h

theorem readByte_rest (bs : Bytes) (b : Nat) (rest : Bytes) (h : readByte bs = .ok (b, rest)) :
    rest.length < bs.length := by
  cases bs with
  | nil => simp [readByte] at h
  | cons x xs =>
    simp only [readByte, Except.ok.injEq, Prod.mk.injEq] at h
    obtain ⟨_, rfl⟩ := h; simp

theorem readByte_err (bs : Bytes) (e : RErr) (h : readByte bs = .error e) : e = .eof := by
  cases bs with
  | nil => simp only [readByte, Except.error.injEq] at h; exact h.symm
  | cons x xs => simp [readByte] at h

theorem readN_rest (n : Nat) (bs d rest : Bytes) (h : readN n bs = .ok (d, rest)) :
    rest.length + n = bs.length ∧ d.length = n := by
  unfold readN at h
  split at h
  · rename_i h0
    simp only [Except.ok.injEq, Prod.mk.injEq] at h
    obtain ⟨rfl, rfl⟩ := h
    simp [h0]
  · split at h
    · cases h
    · split at h
      · cases h
      · rename_i hl
        simp only [Except.ok.injEq, Prod.mk.injEq] at h
        obtain ⟨rfl, rfl⟩ := h
        simp; omega

theorem readN_err (n : Nat) (bs : Bytes) (e : RErr) (h : readN n bs = .error e) : e = .eof ∨ e = .ueof := by
  unfold readN at h
  split at h
  · cases h
  · split at h
    · simp only [Except.error.injEq] at h; exact Or.inl h.symm
    · split at h
      · simp only [Except.error.injEq] at h; exact Or.inr h.symm
      · cases h

theorem finishChan_rest (δ s a : Nat) (bs : Bytes) : (finishChan δ s a bs).rest.length ≤ bs.length := by
  unfold finishChan
  split
  · simp
  · split <;> simp

/-- a decoded event consumed at least one byte; a failed one failed with an I/O class or `other` -/
theorem readEvent_spec (rr : Nat) (bs : Bytes) :
    (∀ ev, readEvent rr bs = .ok ev → ev.rest.length < bs.length) ∧
    (∀ e, readEvent rr bs = .error e → e ≠ .fuel) := by
  unfold readEvent
  simp only [bind, Except.bind, pure, Except.pure]
  cases h1 : readVlq bs with
  | error e => have := readVlq_err _ _ h1; subst this; simp
  | ok x =>
    obtain ⟨δ, bs1⟩ := x
    have l1 := readVlq_rest _ _ _ h1
    simp only
    cases h2 : readByte bs1 with
    | error e => have := readByte_err _ _ h2; subst this; simp
    | ok y =>
      obtain ⟨c, bs2⟩ := y
      have l2 := readByte_rest _ _ _ h2
      simp only
      by_cases hFF : c = 0xFF
      · simp only [hFF, if_true]
        cases h3 : readByte bs2 with
        | error e => have := readByte_err _ _ h3; subst this; simp
        | ok z =>
          obtain ⟨t, bs3⟩ := z
          have l3 := readByte_rest _ _ _ h3
          simp only
          cases h4 : readVlq bs3 with
          | error e => have := readVlq_err _ _ h4; subst this; simp
          | ok w =>
            obtain ⟨n, bs4⟩ := w
            have l4 := readVlq_rest _ _ _ h4
            simp only
            cases h5 : readN n bs4 with
            | error e => rcases readN_err _ _ _ h5 with rfl | rfl <;> simp
            | ok u =>
              obtain ⟨d, bs5⟩ := u
              have l5 := readN_rest _ _ _ _ h5
              simp only [Except.ok.injEq, reduceCtorEq, false_implies, implies_true, and_true]
              intro ev hev; subst hev; simp only; omega
      · simp only [hFF, if_false]
        by_cases hF0 : c = 0xF0 ∨ c = 0xF7
        · simp only [hF0, if_true]
          cases h4 : readVlq bs2 with
          | error e => have := readVlq_err _ _ h4; subst this; simp
          | ok w =>
            obtain ⟨n, bs4⟩ := w
            have l4 := readVlq_rest _ _ _ h4
            simp only
            cases h5 : readN n bs4 with
            | error e => rcases readN_err _ _ _ h5 with rfl | rfl <;> simp
            | ok u =>
              obtain ⟨d, bs5⟩ := u
              have l5 := readN_rest _ _ _ _ h5
              simp only [Except.ok.injEq, reduceCtorEq, false_implies, implies_true, and_true]
              intro ev hev; subst hev; simp only; omega
        · simp only [hF0, if_false]
          by_cases hc : isChanStatus c = true
          · simp only [hc, if_true]
            cases h3 : readByte bs2 with
            | error e => have := readByte_err _ _ h3; subst this; simp
            | ok z =>
              obtain ⟨a1, bs3⟩ := z
              have l3 := readByte_rest _ _ _ h3
              simp only [Except.ok.injEq, reduceCtorEq, false_implies, implies_true, and_true]
              intro ev hev; subst hev
              have := finishChan_rest δ c a1 bs3
              omega
          · simp only [hc, Bool.false_eq_true, if_false]
            by_cases h0 : rr = 0
            · simp [h0]
            · simp only [h0, if_false, Except.ok.injEq, reduceCtorEq, false_implies, implies_true, and_true]
              intro ev hev; subst hev
              have := finishChan_rest δ rr c bs2
              omega

theorem chunkLoop_spec : ∀ (f k : Nat) (bs : Bytes), bs.length ≤ f →
    (∀ k' rest, chunkLoop (f+1) k bs = .ok (k', rest) → rest.length + 8 ≤ bs.length) ∧
    (∀ e, chunkLoop (f+1) k bs = .error e → e ≠ .fuel) := by
  intro f
  induction f using Nat.strongRecOn with
  | _ f ih =>
    intro k bs hf
    unfold chunkLoop
    simp only [bind, Except.bind, pure, Except.pure]
    cases h1 : readN 4 bs with
    | error e => rcases readN_err _ _ _ h1 with rfl | rfl <;> simp
    | ok x =>
      obtain ⟨typ, bs1⟩ := x
      have l1 := readN_rest _ _ _ _ h1
      simp only
      cases h2 : readN 4 bs1 with
      | error e => rcases readN_err _ _ _ h2 with rfl | rfl <;> simp
      | ok y =>
        obtain ⟨len4, bs2⟩ := y
        have l2 := readN_rest _ _ _ _ h2
        simp only
        generalize lenOf4 len4 = L
        by_cases hm : typ = MTrk
        · simp only [hm, if_true, Except.ok.injEq, Prod.mk.injEq, reduceCtorEq, false_implies, implies_true, and_true]
          intro k' rest h
          obtain ⟨_, rfl⟩ := h
          omega
        · simp only [hm, if_false]
          by_cases hl : bs2.length < L
          · simp [hl]
          · simp only [hl, if_false]
            have hdl : (bs2.drop L).length ≤ bs2.length := by simp
            cases f with
            | zero => omega
            | succ f' =>
              have := ih f' (by omega) k (bs2.drop L) (by omega)
              constructor
              · intro k' rest h
                have := this.1 k' rest h
                omega
              · exact this.2

/-- `ReadTracks` never exhausts the fuel `|input| + 1` -/
theorem readLoop_total : ∀ (f : Nat) (s : RState) (bs : Bytes), bs.length ≤ f → (readLoop (f+1) s bs).2 ≠ .fuel := by
  intro f
  induction f with
  | zero =>
    intro s bs hf
    have hb : bs = [] := List.eq_nil_of_length_eq_zero (by omega)
    subst hb
    unfold readLoop
    split
    · simp
    · cases he : s.expectChunk <;> simp [he, chunkLoop, readN, readEvent, readVlq, Vlq.read, Vlq.readAux, bind, Except.bind] <;> split <;> simp
  | succ f ih =>
    intro s bs hf
    unfold readLoop
    split
    · simp
    · -- chunk loop
      have hc := chunkLoop_spec bs.length s.started bs (Nat.le_refl _)
      generalize hr1 : (if s.expectChunk = true then chunkLoop (bs.length + 1) s.started bs else Except.ok (s.started, bs)) = r1
      have hr1' : (∀ k' rest, r1 = .ok (k', rest) → rest.length ≤ bs.length) ∧ (∀ e, r1 = .error e → e ≠ .fuel) := by
        subst hr1
        split
        · exact ⟨fun k' rest h => by have := hc.1 k' rest h; omega, hc.2⟩
        · exact ⟨fun k' rest h => by simp only [Except.ok.injEq, Prod.mk.injEq] at h; obtain ⟨_, rfl⟩ := h; omega,
            fun e h => by cases h⟩
      cases r1 with
      | error e =>
        have := hr1'.2 e rfl
        simp only
        split
        · simp
        · exact this
      | ok x =>
        obtain ⟨started, bs1⟩ := x
        have l1 := hr1'.1 started bs1 rfl
        simp only
        have hev := readEvent_spec s.rs bs1
        cases hre : readEvent s.rs bs1 with
        | error e =>
          have := hev.2 e hre
          simp only
          split
          · simp
          · exact this
        | ok ev =>
          have l2 := hev.1 ev hre
          simp only
          split
          · simp
          · exact ih _ _ (by omega)

/-- reading terminates normally for every byte string: the model never runs out of fuel -/
theorem readFrom_total (bs : Bytes) : readFrom bs ≠ .error .fuel := by
  unfold readFrom
  have hN : ∀ n b e, readN n b = .error e → e ≠ .fuel := by
    intro n b e h
    rcases readN_err _ _ _ h with rfl | rfl <;> simp
  cases h1 : readN 4 bs with
  | error e => have := hN _ _ _ h1; simpa using this
  | ok x1 =>
  obtain ⟨typ, bs1⟩ := x1
  simp only
  cases h2 : readN 4 bs1 with
  | error e => have := hN _ _ _ h2; simpa using this
  | ok x2 =>
  obtain ⟨l4, bs2⟩ := x2
  simp only
  split
  · simp
  · cases h3 : readN 2 bs2 with
    | error e => have := hN _ _ _ h3; simpa using this
    | ok x3 =>
    obtain ⟨fm, bs3⟩ := x3
    simp only
    split
    · simp
    · cases h4 : readN 2 bs3 with
      | error e => have := hN _ _ _ h4; simpa using this
      | ok x4 =>
      obtain ⟨nt, bs4⟩ := x4
      simp only
      cases h5 : readN 2 bs4 with
      | error e => have := hN _ _ _ h5; simpa using this
      | ok x5 =>
      obtain ⟨dv, bs5⟩ := x5
      simp only
      have ht := readLoop_total (bs5.length + 1) ⟨val16 nt, 0, true, 0, false, List.replicate (val16 nt) []⟩ bs5 (by omega)
      split
      · simp
      · split
        · simp
        · intro hcontra
          simp only [RRes.error.injEq] at hcontra
          exact ht hcontra

end Midi.Smf
