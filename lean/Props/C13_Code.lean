import MidiModel.Record
import MidiModel.Generated.RecordGo
import Props.C01_Track
import Props.C14_Filter
/-!
# C13, tie to the source: the function literal `Track.RecordFrom` hands to `midi.ListenTo` (`smf/track.go`) as translated
by `tools/go2lean` on every run — its captured variables (`t`, `absmillisec`, `ticks`, `bpm`) an environment structure,
`t.Add` the translated `Track.Add` (tied in `Props/C01_Track.lean`), the `int32` subtraction with its wrap, and the float
conversion `MetricTicks.Ticks` an uninterpreted function on both sides — is the model's `Record.onMsg`: only channel
messages are stored, each with the ticks of the time since the previous stored message.
-/
open Midi Midi.Go
set_option linter.unusedSimpArgs false
set_option linter.unusedVariables false
namespace Midi.C13

theorem wrap32_eq (x : Int) : Go.wrapS 32 x = Record.wrap32 x := by
  unfold Go.wrapS Record.wrap32; rfl

theorem is_chan (msg : Bytes) : midi.Message.Is msg (-3 : Int) = .ok (Record.isChannelMsg msg) := by
  cases msg with
  | nil =>
    obtain ⟨t, h1, h2⟩ := Midi.C08.code_Is [] (-3)
    have : t = Msg.UnknownMsg := by simpa [Msg.getType] using h1.symm
    subst this
    simpa [Record.isChannelMsg] using h2
  | cons b r => rw [Midi.C14.is_cons]; rfl

/-- **the listener callback of `Track.RecordFrom` as it stands in the source is the model's `Record.onMsg`**, with the
    tick conversion `MetricTicks.Ticks` (float arithmetic) left uninterpreted on both sides -/
theorem code_record_onMsg (ext : Nat → Float → Int → Nat) (tr : Smf.Track) (abs0 : Int) (q : Nat) (bpm : Float)
    (msg : Bytes) (absms : Int) (hlen : tr.length < 4611686018427387904) :
    smf.Track.RecordFrom.arg_ListenTo ext ⟨abs0, q, bpm, Midi.C01.toGo tr⟩ msg absms =
      .ok (let s' := Record.onMsg (fun d => ext q bpm (Go.wrapS 64 (d * 1000000))) ⟨tr, abs0⟩ (msg, absms)
           ⟨s'.absms, q, bpm, Midi.C01.toGo s'.track⟩) := by
  unfold smf.Track.RecordFrom.arg_ListenTo Record.onMsg
  simp only [is_chan, wrap32_eq]
  cases hc : Record.isChannelMsg msg
  · simp [bind, Except.bind, pure, Except.pure]
  · simp [bind, Except.bind, pure, Except.pure, Midi.C01.code_Add tr _ [msg] hlen]

end Midi.C13
