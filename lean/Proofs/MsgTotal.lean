import Proofs.Msg
/-! Totality and exclusiveness of the classification and of the accessors (C08). -/
namespace Midi.Msg

/-! ## an accepting accessor fixes the reported type -/

theorem specific_accept_type (m : Bytes) (p : Int × Bool) (hp : p ∈ specificAccepts m) (ha : p.2 = true) :
    getType m = some p.1 := by
  simp only [specificAccepts, List.mem_cons, List.not_mem_nil, or_false] at hp
  have key : ∀ T, Specific T → msgIs .midi m T = some true → getType m = some T :=
    fun T hT h => (msgIs_true_iff .midi m T hT).1 h
  rcases hp with rfl | rfl | rfl | rfl | rfl | rfl | rfl | rfl | rfl | rfl | rfl
  · exact key _ (Or.inl (by simp only; decide)) (get3_is ha)
  · exact key _ (Or.inl (by simp only; decide)) (get3_is ha)
  · exact key _ (Or.inl (by simp only; decide)) (get3_is ha)
  · exact key _ (Or.inl (by simp only; decide)) (get2_is ha)
  · exact key _ (Or.inl (by simp only; decide)) (get3_is ha)
  · exact key _ (Or.inl (by simp only; decide)) (get2_is ha)
  · exact key _ (Or.inl (by simp only; decide)) (getPitchBend_is ha)
  · exact key _ (Or.inl (by simp only; decide)) (get1_is ha)
  · exact key _ (Or.inl (by simp only; decide)) (getSPP_is ha)
  · exact key _ (Or.inl (by simp only; decide)) (get1_is ha)
  · exact key _ (Or.inr rfl) (getSysEx_is ha)

theorem specific_types_ne_reset : ∀ p ∈ specificAccepts m, p.1 ≠ ResetMsg := by
  intro p hp
  simp only [specificAccepts, List.mem_cons, List.not_mem_nil, or_false] at hp
  rcases hp with rfl | rfl | rfl | rfl | rfl | rfl | rfl | rfl | rfl | rfl | rfl <;> (simp only; decide)

theorem smf_specific_accept_type (m : Bytes) (p : Int × Bool) (hp : p ∈ smfSpecificAccepts m) (ha : p.2 = true) :
    smfGetType m = some p.1 := by
  simp only [smfSpecificAccepts, List.mem_append] at hp
  have key : ∀ T, Specific T → msgIs .smf m T = some true → smfGetType m = some T :=
    fun T hT h => (msgIs_true_iff .smf m T hT).1 h
  rcases hp with (hp | hp) | hp
  · exact smfGetType_of_getType m p.1 (specific_accept_type m p hp ha) (specific_types_ne_reset p hp)
  · simp only [List.mem_cons, List.not_mem_nil, or_false] at hp
    rcases hp with rfl | rfl | rfl | rfl | rfl | rfl | rfl | rfl
    · exact key _ (Or.inl (by simp only; decide)) (getMetaTempo_is ha)
    · exact key _ (Or.inl (by simp only; decide)) (getMetaFixed_is ha)
    · exact key _ (Or.inl (by simp only; decide)) (getMeta1_is ha)
    · exact key _ (Or.inl (by simp only; decide)) (getMeta1_is ha)
    · exact key _ (Or.inl (by simp only; decide)) (getMetaSeqNumber_is ha)
    · exact key _ (Or.inl (by simp only; decide)) (getMetaFixed_is ha)
    · exact key _ (Or.inl (by simp only; decide)) (getMetaSeqData_is ha)
    · exact key _ (Or.inl (by simp only; decide)) (getMetaFixed_is ha)
  · simp only [List.mem_map] at hp
    obtain ⟨t, ht, rfl⟩ := hp
    have hpos : 0 < t := by
      simp only [textTypes, List.mem_cons, List.not_mem_nil, or_false] at ht
      rcases ht with rfl | rfl | rfl | rfl | rfl | rfl | rfl | rfl | rfl <;> decide
    exact key _ (Or.inl hpos) (getMetaText_is ha)

theorem specific_types_nodup (m : Bytes) : ((specificAccepts m).map (·.1)).Nodup := by
  simp only [specificAccepts, List.map]; decide

theorem smf_specific_types_nodup (m : Bytes) : ((smfSpecificAccepts m).map (·.1)).Nodup := by
  simp only [smfSpecificAccepts, specificAccepts, textTypes, List.map, List.cons_append, List.nil_append]; decide

/-! ## no accessor panics -/

theorem idx_some {m : Bytes} {i : Nat} (h : i < m.length) : ∃ x, m[i]? = some x :=
  ⟨m[i], List.getElem?_eq_getElem h⟩

theorem get3_ne_panic (T : Int) (m : Bytes) : get3 T m ≠ .panic := by
  unfold get3
  obtain ⟨t, _, h⟩ := msgIs_eq .midi m T
  rw [h]
  cases typeIs t T <;> simp only
  · simp
  · split
    · simp
    · rename_i hl
      have hl : m.length = 3 := by omega
      obtain ⟨a, ha⟩ := idx_some (m := m) (i := 0) (by omega)
      obtain ⟨b, hb⟩ := idx_some (m := m) (i := 1) (by omega)
      obtain ⟨c, hc⟩ := idx_some (m := m) (i := 2) (by omega)
      simp [ha, hb, hc]

theorem get2_ne_panic (T : Int) (m : Bytes) : get2 T m ≠ .panic := by
  unfold get2
  obtain ⟨t, _, h⟩ := msgIs_eq .midi m T
  rw [h]
  cases typeIs t T <;> simp only
  · simp
  · split
    · simp
    · rename_i hl
      have hl : m.length = 2 := by omega
      obtain ⟨a, ha⟩ := idx_some (m := m) (i := 0) (by omega)
      obtain ⟨b, hb⟩ := idx_some (m := m) (i := 1) (by omega)
      simp [ha, hb]

theorem get1_ne_panic (T : Int) (m : Bytes) : get1 T m ≠ .panic := by
  unfold get1
  obtain ⟨t, _, h⟩ := msgIs_eq .midi m T
  rw [h]
  cases typeIs t T <;> simp only
  · simp
  · split
    · simp
    · rename_i hl
      have hl : m.length = 2 := by omega
      obtain ⟨b, hb⟩ := idx_some (m := m) (i := 1) (by omega)
      simp [hb]

theorem getPitchBend_ne_panic (m : Bytes) : getPitchBend m ≠ .panic := by
  unfold getPitchBend
  obtain ⟨t, _, h⟩ := msgIs_eq .midi m PitchBendMsg
  rw [h]
  cases typeIs t PitchBendMsg <;> simp only
  · simp
  · split
    · simp
    · rename_i hl
      have hl : m.length = 3 := by omega
      obtain ⟨a, ha⟩ := idx_some (m := m) (i := 0) (by omega)
      obtain ⟨b, hb⟩ := idx_some (m := m) (i := 1) (by omega)
      obtain ⟨c, hc⟩ := idx_some (m := m) (i := 2) (by omega)
      simp [ha, hb, hc]

theorem getSPP_ne_panic (m : Bytes) : getSPP m ≠ .panic := by
  unfold getSPP
  obtain ⟨t, _, h⟩ := msgIs_eq .midi m SPPMsg
  rw [h]
  cases typeIs t SPPMsg <;> simp only
  · simp
  · split
    · simp
    · rename_i hl
      have hl : m.length = 3 := by omega
      obtain ⟨b, hb⟩ := idx_some (m := m) (i := 1) (by omega)
      obtain ⟨c, hc⟩ := idx_some (m := m) (i := 2) (by omega)
      simp [hb, hc]

theorem getSysEx_ne_panic (m : Bytes) : getSysEx m ≠ .panic := by
  unfold getSysEx
  split
  · simp
  · rename_i hl
    obtain ⟨t, _, h⟩ := msgIs_eq .midi m SysExMsg
    rw [h]
    cases typeIs t SysExMsg <;> simp only
    · simp
    · obtain ⟨a, ha⟩ := idx_some (m := m) (i := 0) (by omega)
      obtain ⟨b, hb⟩ := idx_some (m := m) (i := m.length - 1) (by omega)
      have hs : slice m 1 (m.length - 1) = some ((m.take (m.length - 1)).drop 1) := by
        unfold slice; rw [if_pos (by omega)]
      simp only [ha, hb, hs]
      split <;> simp

theorem getNoteStart_ne_panic (m : Bytes) : getNoteStart m ≠ .panic := by
  unfold getNoteStart
  have := get3_ne_panic NoteOnMsg m
  unfold getNoteOn
  split <;> simp_all
  split <;> simp

theorem noteEndBody_ne_panic (m : Bytes) : noteEndBody m ≠ .panic := by
  unfold noteEndBody
  have h1 := get3_ne_panic NoteOnMsg m
  have h2 := get3_ne_panic NoteOffMsg m
  unfold getNoteOn getNoteOff
  split
  · simp_all
  · split <;> simp
  · split <;> simp_all

theorem getNoteEnd_ne_panic (m : Bytes) : getNoteEnd m ≠ .panic := by
  unfold getNoteEnd
  obtain ⟨t, _, h⟩ := msgIs_eq .midi m NoteOnMsg
  obtain ⟨t', _, h'⟩ := msgIs_eq .midi m NoteOffMsg
  rw [h, h']
  cases typeIs t NoteOnMsg <;> cases typeIs t' NoteOffMsg <;> simp [noteEndBody_ne_panic]

theorem getChannel_ne_panic (m : Bytes) : getChannel m ≠ .panic := by
  unfold getChannel
  obtain ⟨t, _, h⟩ := msgIs_eq .midi m ChannelMsg
  rw [h]
  cases typeIs t ChannelMsg <;> simp only
  · simp
  · split
    · simp
    · obtain ⟨a, ha⟩ := idx_some (m := m) (i := 0) (by omega)
      simp [ha]

theorem firstYes_ne_panic (l : List (Nat × Res Unit)) (h : ∀ p ∈ l, p.2 ≠ .panic) : firstYes l ≠ .panic := by
  induction l with
  | nil => simp [firstYes]
  | cons p r ih =>
    obtain ⟨i, x⟩ := p
    have hx := h (i, x) (by simp)
    unfold firstYes
    cases x with
    | panic => exact absurd rfl hx
    | yes _ => simp
    | no => exact ih (fun q hq => h q (by simp [hq]))

theorem unit_ne_panic {α : Type} (r : Res α) (h : r ≠ .panic) : r.unit ≠ .panic := by
  cases r <;> simp_all [Res.unit]

theorem strBranch_ne_panic (m : Bytes) : strBranch m ≠ .panic := by
  unfold strBranch
  obtain ⟨t, ht⟩ := getType_total m
  rw [ht]
  apply firstYes_ne_panic
  intro p hp
  simp only [List.mem_cons, List.not_mem_nil, or_false] at hp
  rcases hp with rfl | rfl | rfl | rfl | rfl | rfl | rfl | rfl | rfl | rfl | rfl <;> apply unit_ne_panic
  · exact get3_ne_panic _ m
  · exact get3_ne_panic _ m
  · exact get3_ne_panic _ m
  · exact get2_ne_panic _ m
  · exact get3_ne_panic _ m
  · exact get2_ne_panic _ m
  · exact getPitchBend_ne_panic m
  · exact get1_ne_panic _ m
  · exact getSPP_ne_panic m
  · exact get1_ne_panic _ m
  · exact getSysEx_ne_panic m

end Midi.Msg
