package main

import (
	"io"
)

// Destinations and sources with the optional interfaces that I/O code likes to sniff for (Flush, Sync, Close,
// WriteString, WriteByte, ReadFrom / ReadByte, WriteTo, Seek, Len). Every method funnels into the same
// fault-injecting Write / Read, so that a failure at byte k is a failure whatever path the library takes; the
// methods that carry no data (Flush, Sync, Close) succeed, as those of a write-through wrapper do.

type wFlush struct{ *failWriter }

func (w wFlush) Flush() error { w.failWriter.calls = append(w.failWriter.calls, "Flush"); return nil }

type wSyncClose struct{ *failWriter }

func (w wSyncClose) Sync() error { w.failWriter.calls = append(w.failWriter.calls, "Sync"); return nil }
func (w wSyncClose) Close() error {
	w.failWriter.calls = append(w.failWriter.calls, "Close")
	return nil
}

type wString struct{ *failWriter }

func (w wString) WriteString(s string) (int, error) { return w.failWriter.Write([]byte(s)) }
func (w wString) WriteByte(b byte) error {
	_, err := w.failWriter.Write([]byte{b})
	return err
}

type wReaderFrom struct{ *failWriter }

func (w wReaderFrom) ReadFrom(r io.Reader) (n int64, err error) {
	buf := make([]byte, 7)
	for {
		k, rerr := r.Read(buf)
		if k > 0 {
			m, werr := w.failWriter.Write(buf[:k])
			n += int64(m)
			if werr != nil {
				return n, werr
			}
		}
		if rerr == io.EOF {
			return n, nil
		}
		if rerr != nil {
			return n, rerr
		}
	}
}

type wAll struct{ *failWriter }

func (w wAll) Flush() error                        { return wFlush{w.failWriter}.Flush() }
func (w wAll) Sync() error                         { return wSyncClose{w.failWriter}.Sync() }
func (w wAll) Close() error                        { return wSyncClose{w.failWriter}.Close() }
func (w wAll) WriteString(s string) (int, error)   { return w.failWriter.Write([]byte(s)) }
func (w wAll) WriteByte(b byte) error              { return wString{w.failWriter}.WriteByte(b) }
func (w wAll) ReadFrom(r io.Reader) (int64, error) { return wReaderFrom{w.failWriter}.ReadFrom(r) }

var writerVariantNames = []string{"plain", "flush", "sync+close", "string+byte", "readerfrom", "all"}

func writerVariant(fw *failWriter, i int) io.Writer {
	switch i % 6 {
	case 1:
		return wFlush{fw}
	case 2:
		return wSyncClose{fw}
	case 3:
		return wString{fw}
	case 4:
		return wReaderFrom{fw}
	case 5:
		return wAll{fw}
	}
	return fw
}

// ---- sources ----

type rByte struct{ *cutReader }

func (r rByte) ReadByte() (byte, error) {
	var b [1]byte
	for {
		n, err := r.cutReader.Read(b[:])
		if n == 1 {
			return b[0], nil // an EOF delivered together with the byte comes again on the next call
		}
		if err != nil {
			return 0, err
		}
	}
}

type rWriterTo struct{ *cutReader }

func (r rWriterTo) WriteTo(w io.Writer) (n int64, err error) {
	buf := make([]byte, 5)
	for {
		k, rerr := r.cutReader.Read(buf)
		if k > 0 {
			m, werr := w.Write(buf[:k])
			n += int64(m)
			if werr != nil {
				return n, werr
			}
		}
		if rerr == io.EOF {
			return n, nil
		}
		if rerr != nil {
			return n, rerr
		}
	}
}

type rLenClose struct{ *cutReader }

func (r rLenClose) Len() int     { return len(r.cutReader.data) - r.cutReader.pos }
func (r rLenClose) Size() int64  { return int64(len(r.cutReader.data)) }
func (r rLenClose) Close() error { return nil }

type rAll struct{ *cutReader }

func (r rAll) ReadByte() (byte, error)            { return rByte{r.cutReader}.ReadByte() }
func (r rAll) WriteTo(w io.Writer) (int64, error) { return rWriterTo{r.cutReader}.WriteTo(w) }
func (r rAll) Len() int                           { return rLenClose{r.cutReader}.Len() }
func (r rAll) Size() int64                        { return rLenClose{r.cutReader}.Size() }
func (r rAll) Close() error                       { return nil }

var readerVariantNames = []string{"plain", "bytereader", "writerto", "len+size+close", "all"}

func readerVariant(cr *cutReader, i int) io.Reader {
	switch i % 5 {
	case 1:
		return rByte{cr}
	case 2:
		return rWriterTo{cr}
	case 3:
		return rLenClose{cr}
	case 4:
		return rAll{cr}
	}
	return cr
}
