#!/usr/bin/env python3
"""Records the sha256 of every non-test Go file of /repo/v2 (the tree the model was written and validated against)
in lib/source_baseline.json. ./check compares the working tree with it: a property whose anchored files differ
gets the deeper (thorough-generator) search added to its quick run -- drift never raises an alarm by itself."""
import hashlib, json, os, sys
repo = sys.argv[1] if len(sys.argv) > 1 else "/repo"
out = {}
for d, _, fs in os.walk(os.path.join(repo, "v2")):
    for f in fs:
        if f.endswith(".go") and not f.endswith("_test.go"):
            p = os.path.join(d, f)
            out[os.path.relpath(p, repo)] = hashlib.sha256(open(p, "rb").read()).hexdigest()
import subprocess
head = subprocess.run(["git", "-C", repo, "rev-parse", "--short", "HEAD"], capture_output=True, text=True).stdout.strip()
json.dump({"commit": head, "files": dict(sorted(out.items()))},
          open(os.path.join(os.path.dirname(os.path.abspath(__file__)), "..", "lib", "source_baseline.json"), "w"), indent=0)
print(len(out), "files at", head)
