import Proofs.Midicat
import MidiModel.Generated.Facts
/-!
# C19 — the midicat text line protocol is lossless and self-framing

Model: `MidiModel/Midicat.lean`. `encodeRec ts bs` = `fmt.Fprintf(wr, "%d %X\n", ts, bs)` as a byte list;
`readAndConvert inp` = one `midicat.ReadAndConvert` call on an in-memory stream (result class and what is
left of the stream); `readAndConvertS s` = the same call against a fragmenting `io.Reader` model `Src`
(arbitrary piece sizes incl. empty reads, EOF alone or together with the last byte); `readMany n` /
`readManyS n` = `n` successive calls. Bytes are `Nat`s (`' '` = 32, `'\n'` = 10).

Domain (`RecOK`): time stamp in the `int32` range, at least one message byte, every byte < 256 (no upper
bound on the message length: 1..2000 of the property text is covered).
-/
namespace Midi.C19
open Midi Midi.Midicat

/-! ## lossless, one record per call -/

/-- One call on a stream that starts with an encoded record returns exactly that record and consumes
    exactly its line, whatever follows. -/
theorem decode_encode_record (ts : Int) (bs rest : Bytes) (h : RecOK (ts, bs)) :
    readAndConvert (encodeRec ts bs ++ rest) = (.ok ts bs, rest) :=
  readAndConvert_encodeRec ts bs rest h

/-- ANY sequence of records decodes back record by record, one record per call, and the calls consume
    exactly the encoded records (`rest` is untouched). -/
theorem decode_encode_stream (recs : List (Int × Bytes)) (rest : Bytes) (h : ∀ r ∈ recs, RecOK r) :
    readMany recs.length (encodeStream recs ++ rest) = (recs.map (fun r => Res.ok r.1 r.2), rest) :=
  readMany_encodeStream recs rest h

/-- after the last record the end of the stream is reported as an error, not as a record -/
theorem end_of_stream_is_error : readAndConvert [] = (.err .read, []) := rfl

example : RecOK (-2147483648, [0x90, 0x0A, 0x20, 0x00, 0xFF]) := by
  refine ⟨by simp [Int32Range], by simp, ?_⟩
  intro b hb; simp at hb; omega

example : readMany 3 (encodeStream [(-2147483648, [0x90, 0x0A, 0x20]), (0, [0x00]), (2147483647, [0xFF, 0x0F])] ++ [55])
    = ([.ok (-2147483648) [0x90, 0x0A, 0x20], .ok 0 [0x00], .ok 2147483647 [0xFF, 0x0F]], [55]) := by decide

/-! ## fragmentation independence -/

/-- The reader asks its source for one byte at a time, so the results of any number of calls against ANY
    source (any piece sizes, empty reads, EOF with or after the last byte) are those of the in-memory
    reader on the source's data, and the source is left with the same unread bytes. -/
theorem fragmentation_independent (n : Nat) (s : Src) :
    (readManyS n s).1 = (readMany n s.data).1 ∧ (readManyS n s).2.data = (readMany n s.data).2 := by
  obtain ⟨s', h1, h2⟩ := readManyS_eq n s
  rw [h1]; exact ⟨rfl, h2⟩

/-- two sources with the same data cannot be told apart through `ReadAndConvert` -/
theorem fragmentation_irrelevant (n : Nat) (data : Bytes) (f1 f2 : List Nat) (e1 e2 : Bool) :
    (readManyS n ⟨data, f1, e1⟩).1 = (readManyS n ⟨data, f2, e2⟩).1 := by
  rw [(fragmentation_independent n ⟨data, f1, e1⟩).1, (fragmentation_independent n ⟨data, f2, e2⟩).1]

/-- the round trip over every fragmenting source -/
theorem decode_encode_stream_fragmented (recs : List (Int × Bytes)) (rest : Bytes) (fr : List Nat) (e : Bool)
    (h : ∀ r ∈ recs, RecOK r) :
    (readManyS recs.length ⟨encodeStream recs ++ rest, fr, e⟩).1 = recs.map (fun r => Res.ok r.1 r.2) ∧
    (readManyS recs.length ⟨encodeStream recs ++ rest, fr, e⟩).2.data = rest := by
  have := fragmentation_independent recs.length ⟨encodeStream recs ++ rest, fr, e⟩
  rw [this.1, this.2]
  simp [decode_encode_stream recs rest h]

example : (readManyS 2 ⟨encodeStream [(12, [0x90, 0x40]), (-5, [0x80])], [3, 0, 0, 1, 2, 0, 50], true⟩).1
    = [.ok 12 [0x90, 0x40], .ok (-5) [0x80]] := by decide

/-! ## a record comes from exactly one well-formed line, from nothing else -/

/-- Whenever a call returns a record, the stream started with exactly one line `time ' ' hex '\n'`: no blank or
    newline inside the fields, the time field a complete `int32` numeral giving the returned stamp, the hex
    field an even, non-zero number of hex digits giving the returned bytes; exactly that line was consumed.
    (Contrapositive: every malformed line is an error; no record is made up from neighbouring lines.) -/
theorem record_only_from_wellformed_line (inp rest : Bytes) (ts : Int) (bs : Bytes)
    (h : readAndConvert inp = (.ok ts bs, rest)) :
    ∃ a hs, inp = a ++ 32 :: (hs ++ 10 :: rest) ∧ Plain a ∧ parseInt a = some ts ∧
      AllHex hs ∧ scanHex hs = some bs ∧ hs.length = 2 * bs.length ∧ bs ≠ [] :=
  readAndConvert_ok inp rest ts bs h

/-- self-framing: the outcome of a call depends only on the bytes up to the first newline, and what it leaves
    behind is what it would leave of that line alone, followed by the untouched rest -/
theorem self_framing (l rest : Bytes) (hl : ∀ b ∈ l, b ≠ 10) :
    readAndConvert (l ++ 10 :: rest) = ((readAndConvert (l ++ [10])).1, (readAndConvert (l ++ [10])).2 ++ rest) :=
  readAndConvert_framing l rest hl

/-! ## the four mutation kinds -/

/-- a line (without its newline) damaged by one of: odd hex length (a digit dropped or added), a byte that
    is no hex digit in the hex field, the separator missing -/
inductive BadLine : Bytes → Prop
  | oddHex (ts : Int) (hs : Bytes) : Int32Range ts → Plain hs → hs.length % 2 = 1 → BadLine (decimal ts ++ 32 :: hs)
  | nonHex (ts : Int) (h1 : Bytes) (c : Nat) (h2 : Bytes) : Int32Range ts → Plain h1 → Plain h2 → c ≠ 32 → c ≠ 10 →
      isHex c = false → BadLine (decimal ts ++ 32 :: (h1 ++ c :: h2))
  | noSep (a : Bytes) : Plain a → BadLine a

/-- odd hex length, non-hex character, missing separator: the call returns an error and consumes exactly the
    damaged line -/
theorem malformed_errors (l : Bytes) (hb : BadLine l) (rest : Bytes) :
    readAndConvert (l ++ 10 :: rest) = (.err .hex, rest) := by
  cases hb with
  | oddHex ts hs hts hp hodd =>
    rw [List.append_assoc, List.cons_append,
      readAndConvert_line _ _ rest ts (plain_decimal ts) hp (parseInt_decimal ts hts), scanHex_none_of_odd hs hodd]
  | nonHex ts h1 c h2 hts hp1 hp2 h32 h10 hc =>
    have hp : Plain (h1 ++ c :: h2) := by
      intro b hb
      simp only [List.mem_append, List.mem_cons] at hb
      rcases hb with hb | rfl | hb
      · exact hp1 b hb
      · exact ⟨h32, h10⟩
      · exact hp2 b hb
    rw [List.append_assoc, List.cons_append,
      readAndConvert_line _ _ rest ts (plain_decimal ts) hp (parseInt_decimal ts hts),
      scanHex_none_of_nonhex _ c hc (by simp)]
  | noSep _ hp =>
    unfold readAndConvert
    rw [readLoop_nosep _ rest hp]
    rfl

/-- … and the records behind the damaged line are decoded intact, one per call -/
theorem later_records_intact (l : Bytes) (hb : BadLine l) (recs : List (Int × Bytes)) (rest : Bytes)
    (h : ∀ r ∈ recs, RecOK r) :
    readMany (recs.length + 1) (l ++ 10 :: (encodeStream recs ++ rest)) =
      (.err .hex :: recs.map (fun r => Res.ok r.1 r.2), rest) := by
  rw [readMany_succ _ _ _ _ (malformed_errors l hb _), decode_encode_stream recs rest h]

/-- non-hex character = a blank inside the hex field: the call fails at the blank; what is left of the line
    fails as a line of its own; then the later records are decoded intact -/
theorem malformed_blank_in_hex (ts : Int) (h1 h2 : Bytes) (recs : List (Int × Bytes)) (rest : Bytes)
    (hts : Int32Range ts) (hp1 : Plain h1) (hp2 : Plain h2) (h : ∀ r ∈ recs, RecOK r) :
    readMany (recs.length + 2) (decimal ts ++ 32 :: (h1 ++ 32 :: (h2 ++ 10 :: (encodeStream recs ++ rest)))) =
      (.err .sep :: .err .hex :: recs.map (fun r => Res.ok r.1 r.2), rest) := by
  have e1 : readAndConvert (decimal ts ++ 32 :: (h1 ++ 32 :: (h2 ++ 10 :: (encodeStream recs ++ rest)))) =
      (.err .sep, h2 ++ 10 :: (encodeStream recs ++ rest)) := by
    unfold readAndConvert
    rw [readLoop_sep _ _ _ ts (plain_decimal ts) hp1 (parseInt_decimal ts hts)]
  rw [readMany_succ _ _ _ _ e1, later_records_intact h2 (.noSep h2 hp2) recs rest h]

/-- missing terminator at the end of the stream (more generally: no newline in what is left): an error,
    never a record -/
theorem malformed_missing_terminator (tail : Bytes) (hl : ∀ b ∈ tail, b ≠ 10) :
    ∃ k rem, readAndConvert tail = (.err k, rem) := by
  obtain ⟨k, rem, h, _⟩ := readLoop_no_terminator tail {} hl
  exact ⟨k, rem, by unfold readAndConvert; rw [h]⟩

/-- missing terminator between two records: the second blank is an error, the rest of the merged line is an
    error, neither record nor a mixture of them is returned, and the later records are decoded intact -/
theorem malformed_missing_terminator_mid (ts1 ts2 : Int) (bs1 bs2 : Bytes) (recs : List (Int × Bytes)) (rest : Bytes)
    (h1 : Int32Range ts1) (h : ∀ r ∈ recs, RecOK r) :
    readMany (recs.length + 2)
      (decimal ts1 ++ 32 :: (hexStr bs1 ++ (encodeRec ts2 bs2 ++ (encodeStream recs ++ rest)))) =
      (.err .sep :: .err .hex :: recs.map (fun r => Res.ok r.1 r.2), rest) := by
  have hp : Plain (hexStr bs1 ++ decimal ts2) := by
    intro b hb
    simp only [List.mem_append] at hb
    rcases hb with hb | hb
    · exact plain_of_allHex (allHex_hexStr bs1) b hb
    · exact plain_decimal ts2 b hb
  have := malformed_blank_in_hex ts1 (hexStr bs1 ++ decimal ts2) (hexStr bs2) recs rest h1 hp
    (plain_of_allHex (allHex_hexStr bs2)) h
  rw [← this]
  simp [encodeRec, List.append_assoc]

/-! Non-vacuity and the three inputs that the reader accepted before the repair
    `fix: midicat line reader accepted malformed lines` (now errors). -/

-- "12 90x040\n" (was: record (12, [90]))
example : readAndConvert [49, 50, 32, 57, 48, 120, 48, 52, 48, 10] = (.err .hex, []) := by decide
example : BadLine [49, 50, 32, 57, 48, 120, 48, 52, 48] := by
  have := BadLine.nonHex 12 [57, 48] 120 [48, 52, 48] (by simp [Int32Range])
    (by intro b hb; simp at hb; omega) (by intro b hb; simp at hb; omega) (by omega) (by omega) (by decide)
  simpa [decimal, natDec, natDecF] using this
-- "12 904\n" (odd), "129040\n" (no separator)
example : BadLine [49, 50, 32, 57, 48, 52] := by
  have := BadLine.oddHex 12 [57, 48, 52] (by simp [Int32Range]) (by intro b hb; simp at hb; omega) (by decide)
  simpa [decimal, natDec, natDecF] using this
example : BadLine [49, 50, 57, 48, 52, 48] := .noSep _ (by intro b hb; simp at hb; omega)
-- "12 9040" ++ "13 8030\n" ++ "7 C0\n" (was: ONE record (12, [90 40 13 80 30]))
example : readMany 3 [49, 50, 32, 57, 48, 52, 48, 49, 51, 32, 56, 48, 51, 48, 10, 55, 32, 67, 48, 10]
    = ([.err .sep, .err .hex, .ok 7 [0xC0]], []) := by decide
-- "12 9040\n" with the newline delivered together with io.EOF (was: error, record lost)
example : (readManyS 2 ⟨[49, 50, 32, 57, 48, 52, 48, 10], [], true⟩).1 = [.ok 12 [0x90, 0x40], .err .read] := by decide

/-! ## the finite tables of the standard library the model relies on, as the compiled library has them now -/

/-- `%X` of every single byte is the model's `hexUp` -/
theorem fmt_hex_table : Facts.midicatHexUp = (List.range 256).map hexUp := by decide +kernel

/-- `encoding/hex` accepts exactly the model's hex digits, with the model's values -/
theorem hex_decode_table :
    Facts.midicatHexVal = (List.range 256).map (fun c => match Midicat.hexVal c with | some v => v | none => 16) := by
  decide +kernel

end Midi.C19
