package main

import (
	"fmt"
	"strconv"
	"strings"
	"time"

	"gitlab.com/gomidi/midi/v2"
	"gitlab.com/gomidi/midi/v2/drivers"
	"gitlab.com/gomidi/midi/v2/drivers/testdrv"
)

// ---------- running the implementation ----------

type liveChunk struct {
	delta int32
	bytes []byte
}

type liveMsg struct {
	ts int32
	b  []byte
}

func showLive(ms []liveMsg) string {
	if len(ms) == 0 {
		return "-"
	}
	p := make([]string, len(ms))
	for i, m := range ms {
		p[i] = strconv.Itoa(int(m.ts)) + ":" + hx(m.b)
	}
	return strings.Join(p, ",")
}

func parseLive(s string) []liveMsg {
	if s == "-" || s == "" {
		return nil
	}
	var out []liveMsg
	for _, t := range strings.Split(s, ",") {
		p := strings.SplitN(t, ":", 2)
		ts, _ := strconv.Atoi(p[0])
		out = append(out, liveMsg{int32(ts), unhx(p[1])})
	}
	return out
}

func chunksString(cs []liveChunk) string {
	if len(cs) == 0 {
		return "-"
	}
	p := make([]string, len(cs))
	for i, c := range cs {
		p[i] = strconv.Itoa(int(c.delta)) + ":" + hx(c.bytes)
	}
	return strings.Join(p, ",")
}

func parseChunks(s string) []liveChunk {
	if s == "-" || s == "" {
		return nil
	}
	var out []liveChunk
	for _, t := range strings.Split(s, ",") {
		p := strings.SplitN(t, ":", 2)
		d, _ := strconv.Atoi(p[0])
		out = append(out, liveChunk{int32(d), unhx(p[1])})
	}
	return out
}

// cfg bits: 1 = sysex, 2 = active sense, 4 = time code
func liveOp(cfg int, buf int, cs []liveChunk) string {
	return fmt.Sprintf("live.feed cfg=%d buf=%d chunks=%s", cfg, buf, chunksString(cs))
}

// runRawReader feeds drivers.Reader directly (exact virtual time); returns the raw frames.
func runRawReader(cfg, buf int, cs []liveChunk) (frames []liveMsg, panicked string) {
	panicked = try(func() {
		conf := drivers.ListenConfig{SysEx: cfg&1 != 0, ActiveSense: cfg&2 != 0, TimeCode: cfg&4 != 0, SysExBufferSize: uint32(buf)}
		rd := drivers.NewReader(conf, func(m []byte, ms int32) {
			frames = append(frames, liveMsg{ms, append([]byte{}, m...)})
		})
		for _, c := range cs {
			rd.EachMessage(c.bytes, c.delta)
		}
	})
	return
}

// runListen sends the chunks through a testdrv loopback and collects what a midi.ListenTo listener receives.
// The first time stamp of testdrv depends on the wall clock between New and Listen (it is the virtual
// clock minus the real time that passed, truncated to ms). It is calibrated with a probe: a Start
// byte (FA: real-time, never filtered, transparent to the decoder) sent after one virtual second; the
// probe is removed from the result and its deviation from 1000 ms is added back to every later stamp.
func runListen(cfg, buf int, cs []liveChunk) (msgs []liveMsg, panicked string) {
	panicked = try(func() {
		drv := testdrv.New("verif")
		ins, _ := drv.Ins()
		outs, _ := drv.Outs()
		in, out := ins[0], outs[0]
		in.Open()
		out.Open()
		msgs = listenOnce(drv, in, out, cfg, buf, cs)
	})
	return
}

// runListenSeq: ONE driver and port pair, listened to once per entry of cfgs (ListenTo, send the stream, stop, next):
// what each listener receives. A port that has been listened to before must behave like a fresh one.
func runListenSeq(cfgs []int, buf int, cs []liveChunk) (res [][]liveMsg, panicked string) {
	panicked = try(func() {
		drv := testdrv.New("verif")
		ins, _ := drv.Ins()
		outs, _ := drv.Outs()
		in, out := ins[0], outs[0]
		in.Open()
		out.Open()
		for _, cfg := range cfgs {
			res = append(res, listenOnce(drv, in, out, cfg, buf, cs))
		}
	})
	return
}

func listenOnce(drv *testdrv.Driver, in drivers.In, out drivers.Out, cfg, buf int, cs []liveChunk) (msgs []liveMsg) {
	return listenOnceUnit(drv, in, out, cfg, buf, cs, time.Millisecond)
}

// listenOnceUnit: the chunk deltas count in `unit` (the test driver's clock is virtual: drv.Sleep adds to it)
func listenOnceUnit(drv *testdrv.Driver, in drivers.In, out drivers.Out, cfg, buf int, cs []liveChunk, unit time.Duration) (msgs []liveMsg) {
	var opts []midi.Option
	if cfg&1 != 0 {
		opts = append(opts, midi.UseSysEx())
	}
	if cfg&2 != 0 {
		opts = append(opts, midi.UseActiveSense())
	}
	if cfg&4 != 0 {
		opts = append(opts, midi.UseTimeCode())
	}
	opts = append(opts, midi.SysExBufferSize(uint32(buf)))
	var raw []liveMsg
	stop, err := midi.ListenTo(in, func(m midi.Message, ms int32) {
		raw = append(raw, liveMsg{ms, append([]byte{}, m...)})
	}, opts...)
	if err != nil {
		panic("ListenTo: " + err.Error())
	}
	const probeMs = 1000
	drv.Sleep(probeMs * time.Millisecond)
	if e := out.Send([]byte{0xFA}); e != nil {
		panic("Send: " + e.Error())
	}
	for _, c := range cs {
		drv.Sleep(time.Duration(c.delta) * unit)
		if e := out.Send(c.bytes); e != nil {
			panic("Send: " + e.Error())
		}
	}
	stop()
	// calibrate
	// (on a port that was listened to before, the first stamp also contains the virtual time that had passed before:
	// the base of the stamps is the driver's business, the property speaks about the stamps relative to it)
	if len(raw) > 0 && len(raw[0].b) == 1 && raw[0].b[0] == 0xFA {
		base := raw[0].ts
		for _, m := range raw[1:] {
			msgs = append(msgs, liveMsg{m.ts - base, m.b})
		}
	} else { // the probe did not come back as sent: report what was received, uncalibrated
		for _, m := range raw {
			msgs = append(msgs, liveMsg{m.ts - probeMs, m.b})
		}
	}
	return
}

// ---------- independent reference receiver (MIDI 1.0 receiver rules, written from the spec text) ----------

type refRx struct {
	buf   int
	run   byte   // running status (channel status) or 0
	cur   []byte // message under construction (status first), nil = none
	need  int    // total length of cur when complete
	inSx  bool
	sx    []byte
	sxTs  int32
	sxBad bool
	out   []liveMsg
}

func chanLen(st byte) int {
	if k := st >> 4; k == 0xC || k == 0xD {
		return 2
	}
	return 3
}

func (r *refRx) feed(b byte, ts int32) {
	switch {
	case b >= 0xF8: // real-time: any time, does not disturb anything
		r.out = append(r.out, liveMsg{ts, []byte{b}})
	case b >= 0x80: // a status byte abandons whatever was incomplete
		wasSx := r.inSx
		r.cur, r.need = nil, 0
		r.inSx = false
		switch {
		case b == 0xF0:
			r.run = 0
			r.inSx, r.sx, r.sxTs, r.sxBad = true, []byte{0xF0}, ts, false
		case b == 0xF7:
			r.run = 0
			if wasSx && !r.sxBad && len(r.sx)+1 <= r.buf {
				r.out = append(r.out, liveMsg{r.sxTs, append(append([]byte{}, r.sx...), 0xF7)})
			}
		case b >= 0xF1: // system common: cancels running status
			r.run = 0
			switch b {
			case 0xF1, 0xF3:
				r.cur, r.need = []byte{b}, 2
			case 0xF2:
				r.cur, r.need = []byte{b}, 3
			case 0xF6:
				r.out = append(r.out, liveMsg{ts, []byte{0xF6}})
			}
		default: // channel status
			r.run = b
			r.cur, r.need = []byte{b}, chanLen(b)
		}
		r.sx = nil
		if r.inSx {
			r.sx = []byte{0xF0}
		}
	default: // data byte
		switch {
		case r.inSx:
			if len(r.sx)+1 > r.buf { // too large for the receiver's buffer: dropped
				r.sxBad = true
			} else {
				r.sx = append(r.sx, b)
			}
		case r.cur != nil:
			r.cur = append(r.cur, b)
			if len(r.cur) == r.need {
				r.out = append(r.out, liveMsg{ts, r.cur})
				r.cur, r.need = nil, 0
			}
		case r.run != 0: // running status
			r.cur, r.need = []byte{r.run, b}, chanLen(r.run)
			if len(r.cur) == r.need {
				r.out = append(r.out, liveMsg{ts, r.cur})
				r.cur, r.need = nil, 0
			}
		default: // data without status: ignored
		}
	}
}

// refListen: what a listener with the given options must receive.
func refListen(cfg, buf int, cs []liveChunk) []liveMsg {
	if buf == 0 {
		buf = 1024
	}
	r := &refRx{buf: buf}
	var ts int32
	for _, c := range cs {
		ts += c.delta
		for _, b := range c.bytes {
			r.feed(b, ts)
		}
	}
	var out []liveMsg
	for _, m := range r.out {
		switch {
		case m.b[0] == 0xFE && cfg&2 == 0, m.b[0] == 0xF8 && cfg&4 == 0, m.b[0] == 0xF0 && cfg&1 == 0:
			continue
		}
		out = append(out, m)
	}
	return out
}

// wellFormedMsg: status first, then only data bytes, correct length.
func wellFormedMsg(m []byte, buf int) bool {
	if len(m) == 0 || m[0] < 0x80 {
		return false
	}
	st := m[0]
	for _, d := range m[1:] {
		if d >= 0x80 && !(st == 0xF0 && d == 0xF7) {
			return false
		}
	}
	switch {
	case st >= 0xF8:
		return len(m) == 1
	case st == 0xF0:
		return len(m) >= 2 && m[len(m)-1] == 0xF7 && len(m) <= buf && countByte(m[1:], 0xF7) == 1
	case st == 0xF1, st == 0xF3:
		return len(m) == 2
	case st == 0xF2:
		return len(m) == 3
	case st == 0xF6:
		return len(m) == 1
	case st >= 0xF0:
		return false
	default:
		return len(m) == chanLen(st)
	}
}

func countByte(b []byte, x byte) int {
	n := 0
	for _, y := range b {
		if y == x {
			n++
		}
	}
	return n
}

// ---------- generators ----------

var rtBytes = []byte{0xF8, 0xF8, 0xFE, 0xFA, 0xFB, 0xFC, 0xFF, 0xF9, 0xFD}

type wireByte struct {
	b        byte
	complete []byte // message completed by this byte (nil = none)
	sxStart  bool   // first byte of a sysex (its time stamp counts)
}

// genWire produces a well-formed message sequence on the wire: legal running-status elisions,
// real-time bytes at arbitrary gaps (also inside messages and sysex), sysex around the buffer size.
func genWire(r *Rng, buf int, nmsg int, rtRate int) []wireByte {
	var w []wireByte
	var run byte
	pool := genStatusPool(r)
	emitRT := func() {
		for r.Chance(rtRate, 100) {
			b := rtBytes[r.Intn(len(rtBytes))]
			w = append(w, wireByte{b: b, complete: []byte{b}})
		}
	}
	for i := 0; i < nmsg; i++ {
		emitRT()
		var m []byte
		switch k := r.Intn(20); {
		case k < 12:
			m = genChannelMsg(r, pool)
		case k < 13:
			m = []byte{0xF1, byte(r.Intn(128))}
		case k < 14:
			m = []byte{0xF2, byte(r.Intn(128)), byte(r.Intn(128))}
		case k < 15:
			m = []byte{0xF3, byte(r.Intn(128))}
		case k < 16:
			m = []byte{0xF6}
		case k < 17:
			b := rtBytes[r.Intn(len(rtBytes))]
			w = append(w, wireByte{b: b, complete: []byte{b}})
			continue
		default:
			eff := buf
			if eff == 0 {
				eff = 1024
			}
			n := r.Intn(6)
			switch r.Intn(5) {
			case 0:
				n = eff - 2 // exactly fills the buffer
			case 1:
				n = eff - 3
			}
			if n < 0 {
				n = 0
			}
			m = append([]byte{0xF0}, make([]byte, n)...)
			for j := 1; j <= n; j++ {
				m[j] = byte(r.Intn(128))
			}
			m = append(m, 0xF7)
			if r.Chance(1, 4) {
				// the universal sysex messages a receiver might know by name: they are sysex like any other
				dev := byte(r.Pick(0, 1, 0x10, 0x7F))
				m = [][]byte{
					{0xF0, 0x7F, dev, 0x01, 0x01, byte(r.Intn(128)), byte(r.Intn(60)), byte(r.Intn(60)), byte(r.Intn(30)), 0xF7}, // MTC full frame
					{0xF0, 0x7F, dev, 0x01, 0x02, 1, 2, 3, 4, 5, 6, 7, 8, 9, 0xF7},                                               // MTC user bits
					{0xF0, 0x7F, dev, 0x06, byte(r.Pick(1, 2, 3, 4, 9)), 0xF7},                                                   // MMC command
					{0xF0, 0x7F, dev, 0x06, 0x44, 0x06, 0x01, 1, 2, 3, 4, 0, 0xF7},                                               // MMC locate
					{0xF0, 0x7E, dev, 0x09, byte(r.Pick(1, 2, 3)), 0xF7},                                                         // GM on / off
					{0xF0, 0x7E, dev, 0x06, 0x01, 0xF7},                                                                          // identity request
					{0xF0, 0x7F, dev, 0x04, 0x01, byte(r.Intn(128)), byte(r.Intn(128)), 0xF7},                                   // master volume
					{0xF0, 0x41, dev, 0x42, 0x12, 0x40, 0x00, 0x7F, 0x00, 0x41, 0xF7},                                            // GS reset
					{0xF0, 0x43, dev, 0x4C, 0x00, 0x00, 0x7E, 0x00, 0xF7},                                                        // XG on
				}[r.Intn(9)]
				if len(m) > eff {
					m = []byte{0xF0, 0x7E, dev, 0xF7}
				}
			}
		}
		bytes := m
		if m[0] < 0xF0 && m[0] == run && r.Chance(3, 4) {
			bytes = m[1:] // running status
		}
		if m[0] < 0xF0 {
			run = m[0]
		} else {
			run = 0
		}
		for j, b := range bytes {
			wb := wireByte{b: b}
			if j == 0 && b == 0xF0 {
				wb.sxStart = true
			}
			if j == len(bytes)-1 {
				wb.complete = m
			}
			w = append(w, wb)
			if j < len(bytes)-1 {
				emitRT()
			}
		}
		if r.Chance(1, 10) {
			pool = genStatusPool(r)
		}
	}
	emitRT()
	return w
}

// cutWire partitions the wire into chunks with time deltas and computes the expected listener messages
// (all options on): every message at the accumulated time of the chunk that completed it, sysex at the
// time of its first byte.
func cutWire(r *Rng, w []wireByte, mode int) (cs []liveChunk, exp []liveMsg) {
	var ts, sxTs int32
	i := 0
	first := true
	for i < len(w) || first {
		first = false
		n := 1
		switch mode {
		case 0: // one chunk
			n = len(w)
		case 1: // byte per chunk
			n = 1
		case 2:
			n = r.Range(1, 4)
		default:
			n = r.Range(1, 12)
		}
		if n > len(w)-i {
			n = len(w) - i
		}
		d := int32(r.Pick(0, 0, 1, 2, 5, 17, 250))
		ts += d
		c := liveChunk{delta: d}
		for _, wb := range w[i : i+n] {
			c.bytes = append(c.bytes, wb.b)
			if wb.sxStart {
				sxTs = ts
			}
			if wb.complete != nil {
				t := ts
				if wb.complete[0] == 0xF0 {
					t = sxTs
				}
				exp = append(exp, liveMsg{t, wb.complete})
			}
		}
		cs = append(cs, c)
		i += n
		if len(w) == 0 {
			break
		}
	}
	return
}

// garbage over the class alphabet of the property: data low/high, each channel status kind, F0-F7 each, real-time
var classAlphabet = []byte{0x00, 0x7F, 0x80, 0x90, 0xA0, 0xB0, 0xC0, 0xD0, 0xE0, 0xF0, 0xF1, 0xF2, 0xF3, 0xF4, 0xF5, 0xF6, 0xF7, 0xF8}

func genGarbage(r *Rng, n int) []byte {
	b := make([]byte, n)
	for i := range b {
		if r.Chance(1, 8) {
			b[i] = r.Byte()
		} else {
			b[i] = classAlphabet[r.Intn(len(classAlphabet))]
		}
	}
	return b
}

func randomChunks(r *Rng, b []byte) []liveChunk {
	var cs []liveChunk
	mode := r.Intn(4)
	for i := 0; i < len(b); {
		n := 1
		switch mode {
		case 0:
			n = len(b)
		case 1:
			n = 1
		default:
			n = r.Range(1, 6)
		}
		if n > len(b)-i {
			n = len(b) - i
		}
		cs = append(cs, liveChunk{int32(r.Pick(0, 0, 1, 3, 40)), b[i : i+n]})
		i += n
	}
	return cs
}

func sameLive(a, b []liveMsg) bool {
	if len(a) != len(b) {
		return false
	}
	for i := range a {
		if a[i].ts != b[i].ts || string(a[i].b) != string(b[i].b) {
			return false
		}
	}
	return true
}

// compareWithModel asks the model for the op and compares raw frames (drivers.Reader) and listener
// messages (midi.ListenTo over testdrv); returns the implementation's listener messages.
func compareWithModel(cfg, buf int, cs []liveChunk, m *Model, v *Verdict) (msgs []liveMsg, ok bool) {
	op := liveOp(cfg, buf, cs)
	mf := fields(m.Ask(op))
	frames, p1 := runRawReader(cfg, buf, cs)
	msgs, p2 := runListen(cfg, buf, cs)
	if p1 != "" || p2 != "" {
		v.Oracle = append(v.Oracle, "live decoder panicked: "+p1+" "+p2+" :: "+short(op))
		return msgs, false
	}
	if got := showLive(frames); got != mf["raw"] {
		v.Mismatch = append(v.Mismatch, "raw frames differ: model "+short(mf["raw"])+" impl "+short(got)+" :: "+short(op))
	}
	if got := showLive(msgs); got != mf["msgs"] {
		// the first testdrv time stamp depends on the wall clock: retry once before reporting
		msgs2, _ := runListen(cfg, buf, cs)
		if showLive(msgs2) != mf["msgs"] {
			v.Mismatch = append(v.Mismatch, "listener messages differ: model "+short(mf["msgs"])+" impl "+short(got)+" :: "+short(op))
		} else {
			msgs = msgs2
		}
	}
	return msgs, true
}

// ---------- sysex length sweeps (buffers above the default; boundary and all lengths) ----------

// sysexSweepLengths: total message lengths (F0 .. F7 inclusive) to try against buffer size buf.
// quick: powers of two, 3*2^k, 1024*1.5^j and the buffer size, each -1/0/+1; thorough: every length up to buf+2.
func sysexSweepLengths(buf int, tier string) []int {
	seen := map[int]bool{}
	var out []int
	add := func(n int) {
		if n >= 2 && n <= buf+2 && !seen[n] {
			seen[n] = true
			out = append(out, n)
		}
	}
	if tier == "thorough" {
		for n := 2; n <= buf+2; n++ {
			add(n)
		}
		return out
	}
	for k := 2; k <= 17; k++ {
		for d := -1; d <= 1; d++ {
			add(1<<k + d)
			add(3<<k + d)
		}
	}
	for x := 1024; x < 1<<17; x += x / 2 {
		for d := -1; d <= 1; d++ {
			add(x + d)
		}
	}
	for d := -3; d <= 2; d++ {
		add(buf + d)
	}
	return out
}

// sysexWire: channel message, sysex of total length n, channel message (the bracketing messages show that the
// decoder is in step before and after)
func sysexWire(r *Rng, n int) []wireByte {
	var w []wireByte
	put := func(m []byte) {
		for j, b := range m {
			wb := wireByte{b: b, sxStart: j == 0 && b == 0xF0}
			if j == len(m)-1 {
				wb.complete = m
			}
			w = append(w, wb)
		}
	}
	put([]byte{0x90 | byte(r.Intn(16)), byte(r.Intn(128)), byte(1 + r.Intn(127))})
	sx := make([]byte, n)
	sx[0], sx[n-1] = 0xF0, 0xF7
	for i := 1; i < n-1; i++ {
		sx[i] = byte(r.Intn(128))
	}
	put(sx)
	put([]byte{0x80 | byte(r.Intn(16)), byte(r.Intn(128)), byte(r.Intn(128))})
	return w
}

// genSysexSweep emits, for a few buffer sizes above the default, one stream per length of sysexSweepLengths.
func genSysexSweep(r *Rng, tier string, emit func(buf int, w []wireByte)) {
	bufs := []int{r.Range(1100, 1500), r.Range(2400, 3600)}
	if tier == "thorough" {
		bufs = []int{r.Range(1100, 1500), r.Range(2400, 3600), 0}
	}
	for _, buf := range bufs {
		eff := buf
		if eff == 0 {
			eff = 1024
		}
		for _, n := range sysexSweepLengths(eff, tier) {
			emit(buf, sysexWire(r, n))
		}
	}
}

// "live.big": sysex too long for the Lean model's quadratic list appends; implementation vs reference receiver only.
// live.big buf=<B> len=<n> mode=<chunking 0 whole / 1 blocks of 4096 / 2 blocks of 333> seed=<k>
func bigSysexOps(r *Rng, tier string) []string {
	var ops []string
	bufs := []int{70000}
	if tier == "thorough" {
		bufs = []int{70000, 140000, 1 << 20}
	}
	for _, buf := range bufs {
		lens := []int{32767, 32768, 32769, 65534, 65535, 65536, 65537, 66000, buf - 1, buf, buf + 1}
		if buf > 140000 {
			lens = append(lens, 131071, 131072, 131073, 1<<20-1, 1<<20, 1<<20+1)
		}
		for _, n := range lens {
			ops = append(ops, fmt.Sprintf("live.big buf=%d len=%d mode=%d seed=%d", buf, n, r.Intn(3), r.Intn(1<<20)))
		}
	}
	return ops
}

func runBigSysex(op string, v *Verdict) {
	f := fields(op)
	var buf, n, mode, seed int
	fmt.Sscanf(f["buf"], "%d", &buf)
	fmt.Sscanf(f["len"], "%d", &n)
	fmt.Sscanf(f["mode"], "%d", &mode)
	fmt.Sscanf(f["seed"], "%d", &seed)
	r := NewRng(uint64(seed))
	w := sysexWire(r, n)
	bs := make([]byte, len(w))
	for i, wb := range w {
		bs[i] = wb.b
	}
	var cs []liveChunk
	step := []int{len(bs), 4096, 333}[mode%3]
	for i := 0; i < len(bs); i += step {
		j := i + step
		if j > len(bs) {
			j = len(bs)
		}
		cs = append(cs, liveChunk{int32(1 + i%3), bs[i:j]})
	}
	ref := refListen(7, buf, cs)
	msgs, p := runListen(7, buf, cs)
	if p != "" {
		v.Oracle = append(v.Oracle, "live decoder panicked: "+p+" :: "+op)
		return
	}
	if !sameLive(ref, msgs) {
		msgs, _ = runListen(7, buf, cs)
	}
	if !sameLive(ref, msgs) {
		v.Oracle = append(v.Oracle, fmt.Sprintf("sysex of %d bytes with buffer %d: listener received %d messages %s, the wire carried %d %s :: %s",
			n, buf, len(msgs), short(showLive(msgs)), len(ref), short(showLive(ref)), op))
	}
	v.Tags = append(v.Tags, "big-sysex")
}
