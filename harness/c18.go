package main

import (
	"bytes"
	"fmt"
	"strconv"
	"strings"

	"gitlab.com/gomidi/midi/v2"
	"gitlab.com/gomidi/midi/v2/mmc"
	"gitlab.com/gomidi/midi/v2/sysex"
)

// C18: checksummed (Roland-style) and fixed-layout (MMC) sysex helpers parse what they build.
//
// Ops (model side: lean/MidiModel/Sysex.lean)
//   roland.build man= dev= model= req= addr= data= nreq= cd=   build, parse back, checksum, every corruption
//   roland.parse HEX                                            malformed stream (mutated valid messages)
//   roland.cksrep addr= b= n=                                   checksum of a payload of n equal bytes (int32 wrap)
//   mmc.goto.build v= g=   mmc.goto.parse g= w=                 locate: build+parse into receiver g / parse bytes
//   mmc.msg.build v= g=    mmc.msg.parse g= w=                  plain command: same
//   sysex.wrap HEX                                              midi.SysEx framing
func init() {
	register(&Prop{
		ID: "C18",
		Rule: "Roland values from the seeded PRNG (ids/addresses 7-bit, sometimes 8-bit; payload 1..512 biased to 1, 2, 3, 127..129, 511, 512, " +
			"sums forced to 0 mod 128 in 1 of 12; requests with random size fields; rarely an empty payload or a non-zero unused field), " +
			"each built, parsed back, and corrupted at EVERY address/payload/checksum position with every other 7-bit value (large payloads in the " +
			"thorough tier: 19 values per position); a malformed stream of mutated messages (truncation, extension, kind/start/end byte, 8-bit " +
			"replacements, two-byte compensating changes); MMC locate with all byte values, MMC commands over all device ids and command bytes " +
			"with clean and dirty receivers, mutated MMC bytes. non-trivial = a build op whose value is in the property's domain " +
			"(request or payload >= 1; device 1..127 and command < 0x40) or a parse op that passes the first length guard; distinct by op text",
		Gen: genC18,
		Run: runC18,
	})
}

// ---------- values and canonical forms ----------

func showManuGo(s *sysex.Manufacturer) string {
	return fmt.Sprintf("%d,%d,%d,%s,%s,%s,%s", byte(s.ManufacturerID), s.DeviceID, s.ModelID, b01(s.InfoRequest),
		hx(s.Address[:]), hx(s.SendingData), hx(s.NumReqBytes[:]))
}

func b01(b bool) string {
	if b {
		return "1"
	}
	return "0"
}

func showMsgGo(m mmc.Message) string {
	return fmt.Sprintf("%d,%d,%s,%s", m.DeviceID, byte(m.Command), b01(m.IsResponse), hx(m.Data))
}

func showGoToGo(g mmc.GoTo) string {
	return fmt.Sprintf("%d,%d,%d,%d,%d,%d", g.DeviceID, g.Hour, g.Minute, g.Second, g.Frame, g.SubFrame)
}

func parseMsgGo(s string) mmc.Message {
	p := strings.Split(s, ",")
	if len(p) != 4 {
		panic("bad message in op: " + s)
	}
	return mmc.Message{DeviceID: byte(atoi(p[0])), Command: mmc.Command(atoi(p[1])), IsResponse: p[2] == "1", Data: unhx(p[3])}
}

func parseGoToGo(s string) mmc.GoTo {
	p := strings.Split(s, ",")
	if len(p) != 6 {
		panic("bad goto in op: " + s)
	}
	return mmc.GoTo{DeviceID: byte(atoi(p[0])), Hour: byte(atoi(p[1])), Minute: byte(atoi(p[2])), Second: byte(atoi(p[3])),
		Frame: byte(atoi(p[4])), SubFrame: byte(atoi(p[5]))}
}

func atoi(s string) int {
	n, err := strconv.Atoi(s)
	if err != nil {
		panic("bad number in op: " + s)
	}
	return n
}

// cd = replacement deltas the model tries per position (all | list), sw = those the implementation is swept with (all | s19)
func manuOp(s sysex.Manufacturer, cd, sw string) string {
	return fmt.Sprintf("roland.build man=%d dev=%d model=%d req=%s addr=%s data=%s nreq=%s cd=%s sw=%s", byte(s.ManufacturerID),
		s.DeviceID, s.ModelID, b01(s.InfoRequest), hx(s.Address[:]), hx(s.SendingData), hx(s.NumReqBytes[:]), cd, sw)
}

func manuFromOp(f map[string]string) sysex.Manufacturer {
	var s sysex.Manufacturer
	s.ManufacturerID = sysex.ManufacturerID(atoi(f["man"]))
	s.DeviceID = byte(atoi(f["dev"]))
	s.ModelID = byte(atoi(f["model"]))
	s.InfoRequest = f["req"] == "1"
	copy(s.Address[:], unhx(f["addr"]))
	s.SendingData = unhx(f["data"])
	copy(s.NumReqBytes[:], unhx(f["nreq"]))
	return s
}

// rolandParseClass runs sysex.Parse and canonicalises: ok:<fields> | err | panic
func rolandParseClass(bt []byte) (cls string, val *sysex.Manufacturer) {
	var err error
	in := append([]byte(nil), bt...)
	if p := try(func() { val, err = sysex.Parse(in) }); p != "" {
		return "panic", nil
	}
	if err != nil {
		return "err", nil
	}
	if val == nil {
		return "ok:nil", nil
	}
	shown := showManuGo(val)
	// the caller writes into what Parse returned; parsing the same bytes again must give the same value
	shown2 := ""
	scribbled(val.SendingData, func() []byte {
		try(func() {
			if val2, _ := sysex.Parse(append([]byte(nil), bt...)); val2 != nil {
				shown2 = showManuGo(val2)
			}
		})
		return nil
	})
	if shown2 != shown {
		c18Isolation = "after the caller overwrote the payload of a parsed message, parsing the same bytes again gives another value (the result shares memory with the library): " + hx(bt)
	}
	return "ok:" + shown, val
}

var c18Isolation string

// ---------- generators ----------

func gen7or8(r *Rng, eight bool) byte {
	if eight {
		return r.Byte()
	}
	return r.Byte() & 0x7F
}

func payloadLen(r *Rng) int {
	switch r.Intn(10) {
	case 0, 1:
		return r.Pick(1, 1, 2, 3, 4)
	case 2, 3, 4:
		return r.Range(1, 16)
	case 5, 6:
		return r.Range(17, 128)
	case 7:
		return r.Pick(126, 127, 128, 129, 255, 256, 257, 510, 511, 512)
	default:
		return r.Range(129, 512)
	}
}

func genManu(r *Rng) (s sysex.Manufacturer, tags []string) {
	eight := r.Chance(1, 8)
	if eight {
		tags = append(tags, "roland:8bit-fields")
	}
	s.ManufacturerID = sysex.ManufacturerID(gen7or8(r, eight))
	s.DeviceID = gen7or8(r, eight)
	s.ModelID = gen7or8(r, eight)
	for i := range s.Address {
		s.Address[i] = gen7or8(r, eight)
	}
	if r.Chance(1, 10) { // extreme addresses
		v := byte(r.Pick(0, 0x7F))
		s.Address = [3]byte{v, v, v}
	}
	s.InfoRequest = r.Chance(1, 4)
	if s.InfoRequest {
		tags = append(tags, "roland:request")
		for i := range s.NumReqBytes {
			s.NumReqBytes[i] = gen7or8(r, eight)
		}
		if r.Chance(1, 12) {
			s.SendingData = r.Bytes(r.Range(1, 5)) // not transmitted: comes back empty
			tags = append(tags, "roland:noncanonical")
		}
	} else {
		n := payloadLen(r)
		if r.Chance(1, 40) {
			n = 0
			tags = append(tags, "roland:empty-payload")
		}
		s.SendingData = make([]byte, n)
		for i := range s.SendingData {
			s.SendingData[i] = gen7or8(r, eight)
		}
		switch r.Intn(12) {
		case 0: // all zero / all 0x7F
			v := byte(r.Pick(0, 0x7F))
			for i := range s.SendingData {
				s.SendingData[i] = v
			}
		}
		switch {
		case n == 0:
		case n <= 3:
			tags = append(tags, "roland:payload<=3")
		case n <= 16:
			tags = append(tags, "roland:payload<=16")
		case n <= 128:
			tags = append(tags, "roland:payload<=128")
		default:
			tags = append(tags, "roland:payload<=512")
		}
		if r.Chance(1, 12) {
			s.NumReqBytes = [3]byte{r.Byte() & 0x7F, 1, 2}
			tags = append(tags, "roland:noncanonical")
		}
	}
	// force the remainder-zero branch of Checksum: make the summed bytes 0 mod 128 by adjusting one 7-bit byte
	if r.Chance(1, 12) {
		sum := 0
		for _, b := range rolandSummed(s) {
			sum += int(b)
		}
		if s.InfoRequest {
			rest := sum - int(s.NumReqBytes[2])
			s.NumReqBytes[2] = byte((128 - rest%128) % 128)
		} else if len(s.SendingData) > 0 {
			k := len(s.SendingData) - 1
			rest := sum - int(s.SendingData[k])
			s.SendingData[k] = byte((128 - rest%128) % 128)
		}
		sum = 0
		for _, b := range rolandSummed(s) {
			sum += int(b)
		}
		if sum%128 == 0 {
			tags = append(tags, "roland:sum=0mod128")
		}
	}
	return
}

// the bytes the checksum covers, by the message specification (not by calling the library)
func rolandSummed(s sysex.Manufacturer) []byte {
	b := []byte{s.Address[0], s.Address[1], s.Address[2]}
	if s.InfoRequest {
		return append(b, s.NumReqBytes[:]...)
	}
	return append(b, s.SendingData...)
}

func genC18(r *Rng, tier string, emit func(Case)) {
	nRoland, nMal, nMmc := 900, 1500, 1500
	if tier == "thorough" {
		nRoland, nMal, nMmc = 30000, 80000, 80000
	}
	// the library's own constant first
	emit(Case{Op: manuOp(sysex.GMReset, "all", "all"), Tags: []string{"roland:build", "roland:GMReset"}, NonTrivial: true})
	var pool [][]byte // valid messages to mutate
	for i := 0; i < nRoland; i++ {
		s, tags := genManu(r)
		tags = append(tags, "roland:build")
		// deltas for the *model's* corruption sweep: all for short messages, a few otherwise
		cd := "all"
		allUpTo := 24
		if tier == "thorough" { // 30 000 values: keep the model's share of the run below a few minutes
			allUpTo = 8
		}
		if len(s.SendingData) > allUpTo {
			ds := []string{"1", "64", "127"}
			used := map[int]bool{64: true}
			want := 6
			if len(s.SendingData) > 128 { // the model's list-based parser costs ~60 µs per 500-byte message
				want = 2
				ds = []string{strconv.Itoa(r.Pick(1, 127, 64))}
				used = map[int]bool{1: true, 64: true, 127: true}
			}
			for len(ds) < want {
				if d := r.Range(2, 126); !used[d] {
					used[d] = true
					ds = append(ds, strconv.Itoa(d))
				}
			}
			cd = strings.Join(ds, ",")
			if tier == "thorough" && len(s.SendingData) > 128 {
				// the implementation is swept on every such message; the model's parser on one in four, one value per position
				cd = ds[0]
				if r.Chance(3, 4) {
					cd = "-"
				}
			}
		}
		sw := "all"
		if tier == "thorough" && len(s.SendingData) > 128 {
			sw = "s19" // large payloads in the thorough tier: 19 replacement values per position instead of 127
		}
		sendable := s.InfoRequest || len(s.SendingData) >= 1
		emit(Case{Op: manuOp(s, cd, sw), Tags: tags, NonTrivial: sendable})
		if sendable && len(pool) < 4000 {
			pool = append(pool, rolandSpecBytes(s))
		}
	}
	// int32 wrap-around of the checksum sum (payload of n equal bytes; 255*8421505 > 2^31)
	// (thorough tier only: the model builds the 8-million-element list, which costs seconds)
	reps := [][2]int{{255, 1000}, {255, 65536}}
	if tier == "thorough" {
		reps = append(reps, [2]int{255, 8421505}, [2]int{255, 8421502}, [2]int{255, 8421600}, [2]int{127, 16909321}, [2]int{128, 16777216})
	}
	for _, bn := range reps {
		emit(Case{Op: fmt.Sprintf("roland.cksrep addr=%s b=%d n=%d", hx([]byte{r.Byte(), r.Byte(), r.Byte()}), bn[0], bn[1]),
			Tags: []string{"roland:int32-wrap"}, NonTrivial: true})
	}
	emit(Case{Op: "roland.cksrep addr=000000 b=0 n=0", Tags: []string{"roland:cksrep-small"}, NonTrivial: true})
	emit(Case{Op: "roland.cksrep addr=400000 b=64 n=1000", Tags: []string{"roland:cksrep-small"}, NonTrivial: true})
	// the messages the package itself exports as values (GM reset), parsed twice in a row
	for k := 0; k < 2; k++ {
		emit(Case{Op: "roland.parse " + hx(sysex.GMReset.SysEx()), Tags: []string{"roland:parse", "roland:exported-value"}, NonTrivial: true})
	}
	// malformed stream
	for i := 0; i < nMal; i++ {
		base := pool[r.Intn(len(pool))]
		if r.Chance(1, 6) { // prefer short ones: the length guards 11 / 13 live there
			for k := 0; k < 8 && len(base) > 14; k++ {
				base = pool[r.Intn(len(pool))]
			}
		}
		bt, tag := mutateRoland(r, base)
		emit(Case{Op: "roland.parse " + hx(bt), Tags: []string{"roland:parse", "roland:mut:" + tag}, NonTrivial: len(bt) >= 11})
	}
	// midi.SysEx framing
	for i := 0; i < 40; i++ {
		emit(Case{Op: "sysex.wrap " + hx(r.Bytes(r.Pick(0, 1, 2, 9, 60))), Tags: []string{"sysex.wrap"}, NonTrivial: true})
	}
	// MMC
	for i := 0; i < nMmc; i++ {
		switch r.Intn(4) {
		case 0: // locate, all byte values; receiver clean or dirty
			v := mmc.GoTo{DeviceID: r.Byte(), Hour: r.Byte(), Minute: r.Byte(), Second: r.Byte(), Frame: r.Byte(), SubFrame: r.Byte()}
			if r.Chance(1, 3) { // plausible time codes
				v = mmc.GoTo{DeviceID: byte(r.Range(0, 127)), Hour: byte(r.Range(0, 23)), Minute: byte(r.Range(0, 59)),
					Second: byte(r.Range(0, 59)), Frame: byte(r.Range(0, 29)), SubFrame: byte(r.Range(0, 99))}
			}
			var g mmc.GoTo
			tags := []string{"mmc:goto.build"}
			if r.Chance(1, 3) {
				g = mmc.GoTo{DeviceID: r.Byte(), Hour: r.Byte(), Minute: r.Byte(), Second: r.Byte(), Frame: r.Byte(), SubFrame: r.Byte()}
				tags = append(tags, "mmc:dirty-receiver")
			}
			emit(Case{Op: "mmc.goto.build v=" + showGoToGo(v) + " g=" + showGoToGo(g), Tags: tags, NonTrivial: true})
		case 1: // mutated locate bytes
			v := mmc.GoTo{DeviceID: r.Byte(), Hour: r.Byte(), Minute: r.Byte(), Second: r.Byte(), Frame: r.Byte(), SubFrame: r.Byte()}
			bt := []byte{0xF0, 0x7F, v.DeviceID, 0x06, 0x44, 0x06, 0x01, v.Hour, v.Minute, v.Second, v.Frame, v.SubFrame, 0xF7}
			bt, tag := mutateFixed(r, bt)
			g := mmc.GoTo{DeviceID: r.Byte(), Hour: r.Byte(), Minute: r.Byte(), Second: r.Byte(), Frame: r.Byte(), SubFrame: r.Byte()}
			emit(Case{Op: "mmc.goto.parse g=" + showGoToGo(g) + " w=" + hx(bt), Tags: []string{"mmc:goto.parse", "mmc:mut:" + tag}, NonTrivial: len(bt) == 13})
		case 2: // plain commands
			var v mmc.Message
			tags := []string{"mmc:msg.build"}
			switch r.Intn(8) {
			case 0: // device ids outside 1..127
				v.DeviceID = byte(r.Pick(0, 128, 129, 200, 255))
				tags = append(tags, "mmc:dev-outside")
			case 1:
				v.DeviceID = byte(r.Pick(1, 2, 126, 127))
			default:
				v.DeviceID = byte(r.Range(1, 127))
			}
			switch r.Intn(8) {
			case 0: // commands with parameters: outside the property
				v.Command = mmc.Command(r.Pick(0x40, 0x41, 0x44, 0x47, 0x7F, 0x80, 0xFF))
				tags = append(tags, "mmc:cmd>=0x40")
			case 1:
				v.Command = mmc.Command(r.Pick(0, 1, 0x3E, 0x3F))
			case 2, 3:
				v.Command = mmc.Command(r.Pick(1, 2, 3, 4, 5, 6, 7, 8, 9, 10, 11, 13))
			default:
				v.Command = mmc.Command(r.Range(0, 0x3F))
			}
			var g mmc.Message
			if r.Chance(1, 6) {
				g = mmc.Message{DeviceID: r.Byte(), Command: mmc.Command(r.Byte()), IsResponse: r.Bool(), Data: r.Bytes(r.Range(0, 3))}
				tags = append(tags, "mmc:dirty-receiver")
			}
			if r.Chance(1, 10) { // fields SysEx does not write
				v.IsResponse = r.Bool()
				v.Data = r.Bytes(r.Range(0, 3))
				tags = append(tags, "mmc:unwritten-fields")
			}
			in := v.DeviceID >= 1 && v.DeviceID <= 127 && v.Command < 0x40
			emit(Case{Op: "mmc.msg.build v=" + showMsgGo(v) + " g=" + showMsgGo(g), Tags: tags, NonTrivial: in})
		default: // mutated / longer MMC bytes
			var bt []byte
			switch r.Intn(4) {
			case 0:
				bt = []byte{0xF0, 0x7F, r.Byte() & 0x7F, 0x06, byte(r.Range(0, 0x3F)), 0xF7}
			case 1: // command with parameters
				bt = append([]byte{0xF0, 0x7F, r.Byte() & 0x7F, 0x06, byte(r.Range(0x40, 0x7F))}, r.Bytes(r.Range(0, 8))...)
				bt = append(bt, 0xF7)
			case 2: // response
				bt = append([]byte{0xF0, 0x7F, r.Byte() & 0x7F, 0x07}, r.Bytes(r.Range(0, 6))...)
				bt = append(bt, 0xF7)
			default:
				bt = append([]byte{0xF0, 0x7F, r.Byte(), byte(r.Pick(5, 6, 7, 8))}, r.Bytes(r.Range(0, 5))...)
				bt = append(bt, 0xF7)
			}
			tag := "none"
			if r.Chance(1, 2) {
				bt, tag = mutateFixed(r, bt)
			}
			g := mmc.Message{}
			if r.Chance(1, 3) {
				g = mmc.Message{DeviceID: r.Byte(), Command: mmc.Command(r.Byte()), IsResponse: r.Bool(), Data: r.Bytes(r.Range(0, 3))}
			}
			emit(Case{Op: "mmc.msg.parse g=" + showMsgGo(g) + " w=" + hx(bt), Tags: []string{"mmc:msg.parse", "mmc:mut:" + tag}, NonTrivial: len(bt) >= 5})
		}
	}
}

// the message the specification prescribes for s (computed here, not by the library)
func rolandSpecBytes(s sysex.Manufacturer) []byte {
	kind := byte(0x12)
	if s.InfoRequest {
		kind = 0x11
	}
	bt := []byte{0xF0, byte(s.ManufacturerID), s.DeviceID, s.ModelID, kind}
	sm := rolandSummed(s)
	bt = append(bt, sm...)
	sum := 0
	for _, b := range sm {
		sum += int(b)
	}
	bt = append(bt, byte((128-sum%128)%128), 0xF7)
	return bt
}

func mutateRoland(r *Rng, base []byte) ([]byte, string) {
	bt := append([]byte(nil), base...)
	switch r.Intn(12) {
	case 0: // truncate (often around the guards)
		n := r.Range(0, len(bt)-1)
		if r.Bool() {
			n = r.Pick(0, 1, 9, 10, 11, 12, 13)
			if n > len(bt) {
				n = len(bt) - 1
			}
		}
		return bt[:n], "truncate"
	case 1: // drop the end marker or the checksum
		if r.Bool() {
			return bt[:len(bt)-1], "no-end"
		}
		return append(bt[:len(bt)-2], 0xF7), "no-checksum"
	case 2: // extend
		k := r.Range(0, len(bt))
		ins := r.Bytes(r.Range(1, 3))
		out := append(append(append([]byte(nil), bt[:k]...), ins...), bt[k:]...)
		return out, "insert"
	case 3: // kind byte
		bt[4] = byte(r.Pick(0x10, 0x11, 0x12, 0x13, 0x00, 0x92))
		return bt, "kind"
	case 4: // start / end byte
		if r.Bool() {
			bt[0] = byte(r.Pick(0xF7, 0x00, 0xF1, 0x70))
			return bt, "start"
		}
		bt[len(bt)-1] = byte(r.Pick(0xF0, 0x00, 0x77, 0xF6))
		return bt, "end"
	case 5: // header byte (ids are not covered by the checksum)
		bt[r.Range(1, 3)] = r.Byte()
		return bt, "id"
	case 6: // one covered byte gets its high bit flipped (same value mod 128)
		k := r.Range(5, len(bt)-2)
		bt[k] ^= 0x80
		return bt, "flip-bit7"
	case 7: // two covered bytes changed so that the sum is kept
		i, j := r.Range(5, len(bt)-2), r.Range(5, len(bt)-2)
		if i != j && bt[i] < 0x7F && bt[j] > 0 && bt[j] < 0x80 {
			bt[i]++
			bt[j]--
			return bt, "compensating-pair"
		}
		bt[i] = (bt[i] + 1) & 0x7F
		return bt, "one-byte"
	case 8: // one covered byte to any 8-bit value
		k := r.Range(5, len(bt)-2)
		bt[k] = r.Byte()
		return bt, "one-byte-8bit"
	case 9: // request <-> data-set relabelling, checksum left
		bt[4] ^= 0x03
		return bt, "relabel"
	case 10: // random bytes of a guard-relevant length
		return r.Bytes(r.Pick(0, 5, 10, 11, 12, 13, 14, 20)), "random"
	default:
		return bt, "valid"
	}
}

func mutateFixed(r *Rng, base []byte) ([]byte, string) {
	bt := append([]byte(nil), base...)
	switch r.Intn(6) {
	case 0:
		return bt[:r.Range(0, len(bt)-1)], "truncate"
	case 1:
		k := r.Range(0, len(bt))
		out := append(append(append([]byte(nil), bt[:k]...), r.Byte()), bt[k:]...)
		return out, "insert"
	case 2:
		if len(bt) > 0 {
			bt[r.Intn(len(bt))] = r.Byte()
		}
		return bt, "one-byte"
	case 3:
		if len(bt) > 0 {
			k := r.Intn(len(bt))
			bt[k] ^= byte(1 << uint(r.Intn(8)))
		}
		return bt, "bit-flip"
	case 4:
		return r.Bytes(r.Pick(0, 4, 5, 6, 7, 8, 12, 13, 14)), "random"
	default:
		return bt, "valid"
	}
}

// ---------- running ----------

func runC18(c Case, m *Model) (v Verdict) {
	v = runC18Op(c, m)
	if c18Isolation != "" {
		v.Oracle = append(v.Oracle, c18Isolation)
		c18Isolation = ""
	}
	if msg := retainCheck(); msg != "" {
		v.Oracle = append(v.Oracle, msg+" (building / parsing one message must not disturb another)")
	}
	return
}

func runC18Op(c Case, m *Model) (v Verdict) {
	toks := strings.Fields(c.Op)
	f := fields(c.Op)
	switch toks[0] {
	case "roland.build":
		return runRolandBuild(c, m, f)
	case "roland.parse":
		return runRolandParse(c, m, toks)
	case "roland.cksrep":
		return runCksRep(c, m, f)
	case "sysex.wrap":
		in := unhx(toks[1])
		got := hx(midi.SysEx(in))
		want := hx(append(append([]byte{0xF0}, in...), 0xF7))
		if got != want {
			v.Oracle = append(v.Oracle, "midi.SysEx: got "+short(got)+" expected "+short(want))
		}
		if mw := fields(m.Ask(c.Op))["w"]; mw != got {
			v.Mismatch = append(v.Mismatch, "midi.SysEx: model "+short(mw)+" impl "+short(got))
		}
		return
	case "mmc.goto.build":
		return runGoToBuild(c, m, f)
	case "mmc.goto.parse":
		g := parseGoToGo(f["g"])
		bt := unhx(f["w"])
		got := gotoParseClass(&g, bt)
		if got == "panic" {
			v.Oracle = append(v.Oracle, "GoTo.Parse panicked on "+hx(bt))
		}
		mr := fields(m.Ask(c.Op))["r"]
		if mr != got {
			v.Mismatch = append(v.Mismatch, "GoTo.Parse: model "+mr+" impl "+got)
		}
		v.Tags = append(v.Tags, "mmc:goto.parse:"+class(got))
		return
	case "mmc.msg.build":
		return runMsgBuild(c, m, f)
	case "mmc.msg.parse":
		g := parseMsgGo(f["g"])
		bt := unhx(f["w"])
		got := msgParseClass(&g, bt)
		if got == "panic" {
			v.Oracle = append(v.Oracle, "Message.Parse panicked on "+hx(bt))
		}
		mr := fields(m.Ask(c.Op))["r"]
		if mr != got {
			v.Mismatch = append(v.Mismatch, "Message.Parse: model "+mr+" impl "+got)
		}
		v.Tags = append(v.Tags, "mmc:msg.parse:"+class(got))
		return
	}
	v.Mismatch = append(v.Mismatch, "unknown op")
	return
}

func class(r string) string {
	if i := strings.IndexByte(r, ':'); i > 0 {
		return r[:i]
	}
	return r
}

func gotoParseClass(g *mmc.GoTo, bt []byte) string {
	var err error
	in := append([]byte(nil), bt...)
	if p := try(func() { err = g.Parse(in) }); p != "" {
		return "panic"
	}
	if err != nil {
		return "err:" + showGoToGo(*g)
	}
	return "ok:" + showGoToGo(*g)
}

func msgParseClass(g *mmc.Message, bt []byte) string {
	var err error
	in := append([]byte(nil), bt...)
	if p := try(func() { err = g.Parse(in) }); p != "" {
		return "panic"
	}
	if err != nil {
		return "err:" + showMsgGo(*g)
	}
	return "ok:" + showMsgGo(*g)
}

func runGoToBuild(c Case, m *Model, f map[string]string) (v Verdict) {
	val := parseGoToGo(f["v"])
	g := parseGoToGo(f["g"])
	mf := fields(m.Ask(c.Op))
	var w []byte
	if p := try(func() { w = val.SysEx() }); p != "" {
		v.Oracle = append(v.Oracle, "GoTo.SysEx panicked: "+p)
		return
	}
	retain("mmc GoTo.SysEx", w)
	if mf["w"] != hx(w) {
		v.Mismatch = append(v.Mismatch, "GoTo.SysEx bytes: model "+mf["w"]+" impl "+hx(w))
	}
	got := gotoParseClass(&g, w)
	// property oracle: the message parses back to the value it was built from
	if got != "ok:"+showGoToGo(val) {
		v.Oracle = append(v.Oracle, "GoTo.Parse(GoTo.SysEx(v)) is not v: built "+showGoToGo(val)+" bytes "+hx(w)+" parsed "+got)
	}
	if mf["rb"] != got {
		v.Mismatch = append(v.Mismatch, "GoTo parse-back: model "+mf["rb"]+" impl "+got)
	}
	return
}

func runMsgBuild(c Case, m *Model, f map[string]string) (v Verdict) {
	val := parseMsgGo(f["v"])
	g := parseMsgGo(f["g"])
	g0 := g
	mf := fields(m.Ask(c.Op))
	var w []byte
	if p := try(func() { w = val.SysEx() }); p != "" {
		v.Oracle = append(v.Oracle, "Message.SysEx panicked: "+p)
		return
	}
	retain("mmc Message.SysEx", w)
	if mf["w"] != hx(w) {
		v.Mismatch = append(v.Mismatch, "Message.SysEx bytes: model "+mf["w"]+" impl "+hx(w))
	}
	got := msgParseClass(&g, w)
	inDomain := val.DeviceID >= 1 && val.DeviceID <= 127 && val.Command < 0x40
	if inDomain {
		// property oracle: device id and command come back, the message is a command (not a response);
		// Data is not transmitted: it is what the receiver held (nothing for a fresh receiver)
		want := "ok:" + showMsgGo(mmc.Message{DeviceID: val.DeviceID, Command: val.Command, IsResponse: false, Data: g0.Data})
		if got != want {
			v.Oracle = append(v.Oracle, "Message.Parse(Message.SysEx(v)) is not v: built "+showMsgGo(val)+" bytes "+hx(w)+" parsed "+got+" expected "+want)
		}
		v.Tags = append(v.Tags, "mmc:msg.build:in-domain")
	} else if got == "panic" {
		v.Oracle = append(v.Oracle, "Message.Parse panicked on "+hx(w))
	}
	if mf["rb"] != got {
		v.Mismatch = append(v.Mismatch, "Message parse-back: model "+mf["rb"]+" impl "+got)
	}
	return
}

func runCksRep(c Case, m *Model, f map[string]string) (v Verdict) {
	var s sysex.Manufacturer
	copy(s.Address[:], unhx(f["addr"]))
	b, n := byte(atoi(f["b"])), atoi(f["n"])
	s.SendingData = bytes.Repeat([]byte{b}, n)
	var cks byte
	if p := try(func() { cks = s.Checksum() }); p != "" {
		v.Oracle = append(v.Oracle, "Checksum panicked: "+p)
		return
	}
	sum := int64(s.Address[0]) + int64(s.Address[1]) + int64(s.Address[2]) + int64(b)*int64(n)
	if (sum+int64(cks))%128 != 0 {
		v.Oracle = append(v.Oracle, fmt.Sprintf("address + payload + checksum is not 0 mod 128: sum %d checksum %d", sum, cks))
	}
	if sum < 1<<31 && cks >= 128 {
		v.Oracle = append(v.Oracle, fmt.Sprintf("checksum %d is not a 7-bit value (sum %d)", cks, sum))
	}
	if mc := fields(m.Ask(c.Op))["cks"]; mc != strconv.Itoa(int(cks)) {
		v.Mismatch = append(v.Mismatch, fmt.Sprintf("Checksum: model %s impl %d", mc, cks))
	}
	if sum >= 1<<31 {
		v.Tags = append(v.Tags, "roland:int32-wrapped")
	}
	return
}

func runRolandParse(c Case, m *Model, toks []string) (v Verdict) {
	bt := unhx(toks[1])
	got, val := rolandParseClass(bt)
	mf := fields(m.Ask(c.Op))
	if mf["r"] != got {
		v.Mismatch = append(v.Mismatch, "Parse: model "+short(mf["r"])+" impl "+short(got))
	}
	v.Tags = append(v.Tags, "roland:parse:"+mf["br"])
	if got == "panic" {
		v.Oracle = append(v.Oracle, "Parse panicked on "+short(hx(bt)))
	}
	// independent oracle: an accepted message is framed and carries a correct checksum over the bytes it covers
	if val != nil {
		sum := 0
		if bt[4] == 0x11 && len(bt) >= 13 {
			for _, b := range bt[5:11] {
				sum += int(b)
			}
			sum += int(bt[len(bt)-2])
		} else {
			for _, b := range bt[5 : len(bt)-1] {
				sum += int(b)
			}
		}
		if sum%128 != 0 || bt[0] != 0xF0 || bt[len(bt)-1] != 0xF7 || (bt[4] != 0x11 && bt[4] != 0x12) {
			v.Oracle = append(v.Oracle, "Parse accepted a message whose framing or checksum is wrong: "+short(hx(bt)))
		}
	}
	return
}

func runRolandBuild(c Case, m *Model, f map[string]string) (v Verdict) {
	s := manuFromOp(f)
	mf := fields(m.Ask(c.Op))
	var w []byte
	var cks byte
	if p := try(func() { w = s.SysEx(); cks = s.Checksum() }); p != "" {
		v.Oracle = append(v.Oracle, "SysEx/Checksum panicked: "+p)
		return
	}
	retain("sysex Manufacturer.SysEx", w)
	if w2 := scribbled(w, func() []byte { return s.SysEx() }); string(w2) != string(w) {
		v.Oracle = append(v.Oracle, "after the caller overwrote the returned message, SysEx() of the same value returns "+short(hx(w2))+" instead of "+short(hx(w)))
	}
	if mf["w"] != hx(w) {
		v.Mismatch = append(v.Mismatch, "SysEx bytes: model "+short(mf["w"])+" impl "+short(hx(w)))
	}
	if mf["cks"] != strconv.Itoa(int(cks)) {
		v.Mismatch = append(v.Mismatch, fmt.Sprintf("Checksum: model %s impl %d", mf["cks"], cks))
	}
	got, _ := rolandParseClass(w)
	if mf["rb"] != got {
		v.Mismatch = append(v.Mismatch, "parse-back: model "+short(mf["rb"])+" impl "+short(got))
	}
	sendable := s.InfoRequest || len(s.SendingData) >= 1
	if !sendable {
		v.Tags = append(v.Tags, "roland:parse-back:"+class(got))
		return
	}
	// --- property oracle 1: parse(build(v)) == v (the field the message kind does not carry comes back as zero value)
	want := s
	if s.InfoRequest {
		want.SendingData = nil
	} else {
		want.NumReqBytes = [3]byte{}
	}
	if got != "ok:"+showManuGo(&want) {
		v.Oracle = append(v.Oracle, "Parse(SysEx(v)) is not v: built "+short(showManuGo(&want))+" bytes "+short(hx(w))+" parsed "+short(got))
	}
	// --- property oracle 2: address + payload (or request size) + checksum = 0 mod 128; the checksum is a 7-bit byte
	if len(w) < 10 || w[0] != 0xF0 || w[len(w)-1] != 0xF7 {
		v.Oracle = append(v.Oracle, "built message is not framed F0 .. F7: "+short(hx(w)))
		return
	}
	sum := 0
	for _, b := range rolandSummed(s) {
		sum += int(b)
	}
	if (sum+int(w[len(w)-2]))%128 != 0 {
		v.Oracle = append(v.Oracle, fmt.Sprintf("address + payload + checksum is not 0 mod 128: sum %d embedded checksum %d bytes %s", sum, w[len(w)-2], short(hx(w))))
	}
	if (sum+int(cks))%128 != 0 {
		v.Oracle = append(v.Oracle, fmt.Sprintf("address + payload + Checksum() is not 0 mod 128: sum %d checksum %d", sum, cks))
	}
	if w[len(w)-2] >= 128 || cks >= 128 {
		v.Oracle = append(v.Oracle, fmt.Sprintf("checksum is not a 7-bit value: embedded %d Checksum() %d (sum %d)", w[len(w)-2], cks, sum))
	}
	if !bytes.Equal(w[5:len(w)-2], rolandSummed(s)) {
		v.Oracle = append(v.Oracle, "the bytes between the kind byte and the checksum are not address + payload: "+short(hx(w)))
	}
	if sum%128 == 0 {
		v.Tags = append(v.Tags, "roland:checksum-zero-branch")
	}
	// --- property oracle 3: every single-byte corruption of address / payload / checksum is rejected
	modelDeltas := map[int]bool{}
	if f["cd"] != "all" && f["cd"] != "-" {
		for _, d := range strings.Split(f["cd"], ",") {
			modelDeltas[atoi(d)] = true
		}
	}
	var deltas []int
	inSample := map[int]bool{}
	if f["sw"] == "s19" {
		for _, d := range []int{1, 2, 3, 4, 8, 16, 32, 63, 64, 65, 96, 120, 124, 125, 126, 127, 7, 77, 111} {
			inSample[d] = true
		}
	}
	for d := 1; d <= 127; d++ {
		if f["sw"] != "s19" || inSample[d] || modelDeltas[d] {
			deltas = append(deltas, d)
		}
	}
	accModel, nModel, tried, accepted := 0, 0, 0, 0
	buf := append([]byte(nil), w...)
	for pos := 5; pos <= len(w)-2; pos++ {
		orig := w[pos]
		if orig >= 128 {
			continue // the property speaks about 7-bit bytes
		}
		try1 := func(d int) {
			nv := byte((int(orig) + d) % 128)
			buf[pos] = nv
			var err error
			var val *sysex.Manufacturer
			p := try(func() { val, err = sysex.Parse(buf) })
			tried++
			ok := p == "" && err == nil
			if ok {
				accepted++
				if len(v.Oracle) < 3 {
					v.Oracle = append(v.Oracle, fmt.Sprintf("corrupted message accepted: position %d changed %02X -> %02X in %s (parsed %s)",
						pos, orig, nv, short(hx(w)), short(showManuGo(val))))
				}
			}
			if p != "" && len(v.Oracle) < 3 {
				v.Oracle = append(v.Oracle, fmt.Sprintf("Parse panicked on a corrupted message: position %d %02X -> %02X in %s: %s", pos, orig, nv, short(hx(w)), p))
			}
			if f["cd"] == "all" || modelDeltas[d] {
				nModel++
				if ok {
					accModel++
				}
			}
			buf[pos] = orig
		}
		for _, d := range deltas {
			try1(d)
		}
	}
	v.Tags = append(v.Tags, "roland:corruptions-tried:"+bucket(tried))
	// tie: the model's parser on the same corruptions of the same bytes
	if mf["w"] == hx(w) && f["cd"] != "-" {
		cf := fields(m.Ask("roland.corrupt d=" + f["cd"] + " w=" + hx(w)))
		if cf["acc"] != strconv.Itoa(accModel) || cf["n"] != strconv.Itoa(nModel) {
			v.Mismatch = append(v.Mismatch, fmt.Sprintf("corruption sweep: model accepted %s of %s, impl accepted %d of %d", cf["acc"], cf["n"], accModel, nModel))
		}
	}
	// midi.SysEx framing of the inner bytes gives the same message
	if fr := midi.SysEx(w[1 : len(w)-1]); !bytes.Equal(fr, w) {
		v.Oracle = append(v.Oracle, "midi.SysEx(inner bytes) differs from the built message")
	}
	return
}

func bucket(n int) string {
	switch {
	case n == 0:
		return "0"
	case n < 1000:
		return "<1e3"
	case n < 10000:
		return "<1e4"
	default:
		return ">=1e4"
	}
}
