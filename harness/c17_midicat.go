package main

// C17 part B: the process-backed driver drivers/midicatdrv (support level).  The driver cannot be linked into
// this binary (its init() panics unless a `midicat` helper is on PATH when the process starts), so the cases
// `midicat.run …` start the auxiliary binary harness_midicat ($VERIF_AUX_MIDICAT, with the race detector
// $VERIF_AUX_MIDICATRACE) with a freshly built stand-in helper first on PATH and fold its JSON verdict into
// the Verdict of the case.  Oracle entries: a call that did not return within 10 s, a lost / duplicated /
// reordered / fabricated message, a listener called after its stop function returned, a wrong error class or
// IsOpen(), a data race report.  Timing-dependent findings (watchdog, lost message) are re-run once, alone,
// before they are reported (DESIGN §3.1 item 7).

import (
	"context"
	"encoding/json"
	"fmt"
	"io"
	"os"
	"os/exec"
	"path/filepath"
	"regexp"
	"strconv"
	"strings"
	"sync"
	"time"
)

func p17GenMidicat(r *Rng, tier string, emit func(Case)) {
	plain, perBatch, race, racePer := 3, 12, 1, 8
	if tier == "thorough" {
		plain, perBatch, race, racePer = 30, 50, 10, 50
	}
	emit(Case{Op: fmt.Sprintf("midicat.run mode=nostart bin=plain seed=%d n=1", r.U64()%1000000),
		Tags: []string{"midicat-nostart"}, NonTrivial: true})
	for i := 0; i < plain; i++ {
		emit(Case{Op: fmt.Sprintf("midicat.run mode=normal bin=plain seed=%d n=%d", r.U64()%1000000, perBatch),
			Tags: []string{"midicat-batch"}, NonTrivial: true})
	}
	for i := 0; i < race; i++ {
		emit(Case{Op: fmt.Sprintf("midicat.run mode=normal bin=race seed=%d n=%d", r.U64()%1000000, racePer),
			Tags: []string{"midicat-batch-race"}, NonTrivial: true})
	}
	if tier == "thorough" {
		emit(Case{Op: fmt.Sprintf("midicat.run mode=nostart bin=race seed=%d n=1", r.U64()%1000000),
			Tags: []string{"midicat-nostart-race"}, NonTrivial: true})
	}
}

var (
	p17FakeOnce sync.Once
	p17FakeBin  string
	p17FakeErr  error
	p17WorkDir  string
)

// p17BuildFake builds the stand-in `midicat` once per harness process.
func p17BuildFake() (string, error) {
	p17FakeOnce.Do(func() {
		work := os.Getenv("VERIF_WORK")
		src := filepath.Join(work, "harness_midicat")
		if st, err := os.Stat(filepath.Join(src, "fakemidicat")); work == "" || err != nil || !st.IsDir() {
			src = "harness_midicat" // run by hand from the framework root
			work, p17FakeErr = os.MkdirTemp("", "c17work")
			if p17FakeErr != nil {
				return
			}
		}
		p17WorkDir = work
		out := filepath.Join(work, "c17-fake", "midicat")
		cmd := exec.Command("go", "build", "-o", out, "./fakemidicat")
		cmd.Dir = src
		cmd.Env = append(os.Environ(), "GOFLAGS=-mod=mod", "GOPROXY=off", "GOSUMDB=off", "GOTOOLCHAIN=local", "CGO_ENABLED=0")
		if b, err := cmd.CombinedOutput(); err != nil {
			p17FakeErr = fmt.Errorf("building the stand-in helper failed: %v: %s", err, short(string(b)))
			return
		}
		p17FakeBin = out
	})
	return p17FakeBin, p17FakeErr
}

type p17Violation struct {
	Kind    string `json:"kind"`
	Detail  string `json:"detail"`
	History string `json:"history"`
}

type p17AuxVerdict struct {
	Mode       string                      `json:"mode"`
	Histories  int                         `json:"histories"`
	Calls      int                         `json:"calls"`
	Sent       int                         `json:"sent"`
	Expected   int                         `json:"expected"`
	Delivered  int                         `json:"delivered"`
	Stale      int                         `json:"stale"`
	Violations []p17Violation              `json:"violations"`
	Tags       map[string]int              `json:"tags"`
	Traces     []struct{ Ops, Res string } `json:"traces"`
	Complete   bool                        `json:"complete"`
}

type p17AuxRun struct {
	v      *p17AuxVerdict
	hard   []string // findings that do not depend on timing
	soft   []string // watchdog expiries, lost messages, a run that did not finish
	broken string   // the auxiliary harness could not be run at all
}

func copyFile(dst, src string, mode os.FileMode) error {
	in, err := os.Open(src)
	if err != nil {
		return err
	}
	defer in.Close()
	out, err := os.OpenFile(dst, os.O_CREATE|os.O_WRONLY|os.O_TRUNC, mode)
	if err != nil {
		return err
	}
	if _, err = io.Copy(out, in); err != nil {
		out.Close()
		return err
	}
	return out.Close()
}

var p17RaceRe = regexp.MustCompile(`(?s)WARNING: DATA RACE.*?(==================|\z)`)

func p17RunAux(bin, mode string, seed uint64, n int) (res p17AuxRun) {
	fake, err := p17BuildFake()
	if err != nil {
		res.broken = err.Error()
		return
	}
	aux := os.Getenv("VERIF_AUX_MIDICAT")
	if bin == "race" {
		aux = os.Getenv("VERIF_AUX_MIDICATRACE")
	}
	if aux == "" {
		res.broken = "the auxiliary binary harness_midicat (" + bin + ") was not provided in the environment"
		return
	}
	run, err := os.MkdirTemp(p17WorkDir, "c17run")
	if err != nil {
		res.broken = err.Error()
		return
	}
	defer os.RemoveAll(run) // FIFOs, the private copy of the stand-in, the verdict
	bindir := filepath.Join(run, "bin")
	os.Mkdir(bindir, 0o755)
	helper := filepath.Join(bindir, "midicat")
	if err := copyFile(helper, fake, 0o755); err != nil {
		res.broken = err.Error()
		return
	}
	out := filepath.Join(run, "verdict.json")
	ctx, cancel := context.WithTimeout(context.Background(), 45*time.Second)
	defer cancel()
	cmd := exec.CommandContext(ctx, aux, "-mode", mode, "-seed", strconv.FormatUint(seed, 10), "-n", strconv.Itoa(n), "-out", out)
	cmd.Dir = run
	cmd.Env = append(os.Environ(), "PATH="+bindir+string(os.PathListSeparator)+os.Getenv("PATH"),
		"FAKE_FIFO="+filepath.Join(run, "fifo"), "FAKE_BIN="+helper, "FAKE_MAXLIFE=120", "GORACE=halt_on_error=0")
	var stderr strings.Builder
	cmd.Stderr = &stderr
	cmd.Stdout = io.Discard // the driver prints "port closed" there
	cmd.WaitDelay = 2 * time.Second
	runErr := cmd.Run()
	for _, rep := range p17RaceRe.FindAllString(stderr.String(), 3) {
		res.hard = append(res.hard, "race detector: "+short(strings.Join(strings.Fields(rep), " ")))
	}
	data, rerr := os.ReadFile(out)
	var v p17AuxVerdict
	if rerr != nil || json.Unmarshal(data, &v) != nil || !v.Complete {
		msg := fmt.Sprintf("harness_midicat did not finish (%v, ctx: %v): %s", runErr, ctx.Err(), short(stderr.String()))
		if ctx.Err() != nil {
			res.soft = append(res.soft, msg)
		} else {
			// it died by itself (e.g. panic in the driver's init, crash): nothing timing-dependent about that
			res.hard = append(res.hard, msg)
		}
		return
	}
	res.v = &v
	for _, x := range v.Violations {
		msg := fmt.Sprintf("midicatdrv [%s] %s — replay: harness_midicat -mode %s -seed %d -n %d; %s", x.Kind, x.Detail, mode, seed, n, x.History)
		if x.Kind == "timeout" || x.Kind == "lost" {
			res.soft = append(res.soft, msg)
		} else {
			res.hard = append(res.hard, msg)
		}
	}
	return
}

var p17DeliveryRe = regexp.MustCompile(`\+\d+:\d+`)

func p17RunMidicat(c Case, m *Model) (v Verdict) {
	f := fields(c.Op)
	seed, err1 := strconv.ParseUint(f["seed"], 10, 64)
	n, err2 := strconv.Atoi(f["n"])
	mode, bin := f["mode"], f["bin"]
	if err1 != nil || err2 != nil || (mode != "normal" && mode != "nostart") || (bin != "plain" && bin != "race") {
		v.Mismatch = append(v.Mismatch, "unparsable op")
		return
	}
	r := p17RunAux(bin, mode, seed, n)
	if r.broken != "" {
		v.Mismatch = append(v.Mismatch, "midicatdrv could not be exercised: "+r.broken)
		return
	}
	if len(r.hard) == 0 && len(r.soft) > 0 {
		// timing-dependent: once more, alone (nothing else runs in this process meanwhile)
		v.Tags = append(v.Tags, "midicat-rerun-after-timing-finding")
		r2 := p17RunAux(bin, mode, seed, n)
		if len(r2.hard)+len(r2.soft) > 0 || r2.broken != "" {
			v.Oracle = append(v.Oracle, r.soft...)
			v.Oracle = append(v.Oracle, "second run: "+strings.Join(append(append(r2.hard, r2.soft...), r2.broken), " | "))
			return
		}
		v.Tags = append(v.Tags, "midicat-timing-finding-not-reproduced")
		r = r2
	}
	if len(r.hard) > 0 {
		v.Oracle = append(v.Oracle, r.hard...)
		v.Oracle = append(v.Oracle, r.soft...)
		return
	}
	for i := 0; i < r.v.Histories; i++ {
		v.Tags = append(v.Tags, "midicat-history("+bin+","+mode+")")
	}
	for t := range r.v.Tags {
		v.Tags = append(v.Tags, t)
	}
	if r.v.Delivered > 0 {
		v.Tags = append(v.Tags, "midicat-batch-with-deliveries")
	}
	if r.v.Stale > 0 {
		v.Tags = append(v.Tags, "midicat-batch-with-late-arrivals-of-unlistened-messages")
	}
	if mode == "normal" && (r.v.Histories != n || r.v.Delivered != r.v.Expected) {
		v.Mismatch = append(v.Mismatch, fmt.Sprintf("harness_midicat bookkeeping: %d of %d histories, %d of %d expected deliveries, no violation reported",
			r.v.Histories, n, r.v.Delivered, r.v.Expected))
	}
	// tie to the Lean contract: result classes and IsOpen() of every call of the recorded histories
	for _, t := range r.v.Traces {
		if t.Ops == "" {
			continue
		}
		mf := fields(m.Ask("ports.hist ops=" + t.Ops))
		want := p17DeliveryRe.ReplaceAllString(mf["spec"], "")
		if want != t.Res && len(v.Mismatch) < 3 {
			v.Mismatch = append(v.Mismatch, "Lean contract and midicatdrv run differ on "+t.Ops+": contract "+short(want)+" driver "+short(t.Res))
		}
	}
	return
}
