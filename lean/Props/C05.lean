import Proofs.SmfTotal
import Proofs.GramCutTop
/-!
# C05 — reading malformed or truncated SMF data fails cleanly and never fabricates

Proved here for every byte string: the reader model terminates without exhausting its fuel (the
model has no panic branch: every outcome is a value or an error class), and every decoded event
consumed input (so the work, and the requested buffer sizes, are bounded by the input).
The truncation clause is `prefix_safe`: for every valid SMF 1.0 syntax tree (the grammar of C02, with
all its encoding choices) and every cut position, the reader returns an error or a value whose tracks
are event-for-event prefixes of the original tracks.
-/
namespace Midi.C05
open Midi Midi.Smf Midi.Gram

/-- for every byte string whatsoever the reader returns a file value or an error class:
    it never runs out of fuel (termination of the Go loops) -/
theorem read_total (bs : Bytes) : (∃ f, readFrom bs = .ok f) ∨ (∃ e, readFrom bs = .error e ∧ e ≠ .fuel) := by
  cases h : readFrom bs with
  | ok f => exact Or.inl ⟨f, rfl⟩
  | error e =>
    refine Or.inr ⟨e, rfl, ?_⟩
    intro he; subst he
    exact readFrom_total bs h

/-- every decoded event consumed at least one byte: the event loop makes progress on every input -/
theorem event_progress (rr : Nat) (bs : Bytes) (ev : REv) (h : readEvent rr bs = .ok ev) :
    ev.rest.length < bs.length := (readEvent_spec rr bs).1 ev h

/-- the chunk loop skips whole chunks only: at least the 8 header bytes are consumed per call -/
theorem chunk_progress (k : Nat) (bs : Bytes) (k' : Nat) (rest : Bytes)
    (h : chunkLoop (bs.length + 1) k bs = .ok (k', rest)) : rest.length + 8 ≤ bs.length :=
  (chunkLoop_spec bs.length k bs (Nat.le_refl _)).1 k' rest h

/-- a length-prefixed read hands out exactly the declared number of bytes and only if they are there:
    the requested buffer is never larger than the remaining input (post-repair `ReadNBytes`) -/
theorem payload_bounded (n : Nat) (bs d rest : Bytes) (h : readN n bs = .ok (d, rest)) :
    d.length = n ∧ n ≤ bs.length := by
  have := readN_rest n bs d rest h
  exact ⟨this.2, by omega⟩

/-- a declared length that exceeds the remaining input is an error, never a zero-padded payload -/
theorem payload_short_is_error (n : Nat) (bs : Bytes) (h : bs.length < n) :
    readN n bs = .error .eof ∨ readN n bs = .error .ueof := by
  unfold readN
  have h0 : ¬ n = 0 := by omega
  by_cases he : bs = []
  · simp [h0, he]
  · simp [h0, he, h]

/-- For every proper (indeed every) prefix of a valid file the result is either an error or a value with
    the original format, division and number of tracks whose tracks are event-for-event prefixes of the
    original tracks: nothing is invented, reordered or altered by truncation. -/
theorem prefix_safe (g : GFile) (h : g.Valid) (k : Nat) :
    match readFrom ((serialize g).take k) with
    | .ok f => f.format = g.format ∧ f.tf = g.tf ∧ TracksPrefix f.tracks (meaning g).tracks
    | .error _ => True :=
  readFrom_prefix g h k

/-- a cut inside any single event never decodes to a complete event: the decoder reports `io.EOF`,
    unexpected EOF, or (second data byte missing) an empty message with the input exhausted — and in
    the last case the next read fails, so the file is rejected -/
theorem cut_event_never_fabricates (rr : Nat) (e : GEvent) (hd : e.delta.Valid) (hv : e.ev.Valid)
    (hel : match e.ev with | .chan s _ _ true => rr = s | _ => True) (m : Nat) (hm : m < e.bytes.length) :
    readEvent rr (e.bytes.take m) = .error .eof ∨ readEvent rr (e.bytes.take m) = .error .ueof ∨
    ∃ δ s, readEvent rr (e.bytes.take m) = .ok ⟨δ, [], s, []⟩ :=
  readEvent_cut rr e hd hv hel m hm

/-- `TracksPrefix` is what it says: same number of tracks, each a list prefix -/
theorem tracksPrefix_spec (ts M : List Track) (h : TracksPrefix ts M) :
    ts.length = M.length ∧ ∀ i (h1 : i < ts.length) (h2 : i < M.length), ts[i] <+: M[i] := by
  induction h with
  | nil => exact ⟨rfl, fun i h1 _ => absurd h1 (by simp)⟩
  | cons hab _ ih =>
    refine ⟨by simp [ih.1], ?_⟩
    intro i h1 h2
    cases i with
    | zero => simpa using hab
    | succ j => simpa using ih.2 j (by simpa using h1) (by simpa using h2)

example : readFrom [0x4D, 0x54, 0x68, 0x64, 0, 0, 0, 6, 0, 0, 0, 1, 0, 0x60, 0x4D, 0x54, 0x72, 0x6B, 0, 0, 0, 4, 0, 0x40, 0x40, 0x40]
    = .error .other := by decide +kernel   -- stray data byte: an error, not a panic

end Midi.C05
