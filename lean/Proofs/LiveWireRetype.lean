import MidiModel.LiveWire
import Proofs.MsgCtor
/-!
# `retype` (the `onMsg` closure of `midi.ListenTo`) on the frames the reader hands over

For data bytes `< 0x80` the re-typed frame is the message itself, without the padding zeros of the
fixed three-byte driver frame; real-time bytes and sysex pass through; with all listen options on
the `testdrv` filter keeps every such frame.
-/
namespace Midi.LiveWire
open Midi.Live Midi.Msg

/-- the fixed three-byte frame of `drivers.Reader` for a channel / system common message -/
def pad3 : Bytes → Bytes
  | [a] => [a, 0, 0]
  | [a, b] => [a, b, 0]
  | m => m

theorem retype_rt (b : Nat) (h : 0xF8 ≤ b) : retype [b] = some (some [b]) := by
  simp [retype, h]

theorem retype_sysex (r : Bytes) : retype (0xF0 :: r) = some (some (0xF0 :: r)) := by
  simp [retype]

theorem retype_tune : retype [0xF6, 0, 0] = some (some [0xF6]) := by
  simp [retype, tune]

theorem retype_sysc1 (st d : Nat) (hst : st = 0xF1 ∨ st = 0xF3) (hd : d < 0x80) :
    retype [st, d, 0] = some (some [st, d]) := by
  have hm : d % 128 = d := by omega
  rcases hst with rfl | rfl
  · simp [retype, mtc_eq, hm]
  · simp [retype, songSelect_eq, hm]

theorem retype_spp (d1 d2 : Nat) (h1 : d1 < 0x80) (h2 : d2 < 0x80) :
    retype [0xF2, d1, d2] = some (some [0xF2, d1, d2]) := by
  have e : spp (parsePitchWheelVals d1 d2).2 = [0xF2, d1, d2] := by
    rw [parsePitchWheelVals_eq, spp_eq]
    simp only
    congr 1
    · congr 1
      · omega
      · congr 1; omega
  simp [retype, e]

theorem retype_chan_status (st : Nat) (rest : Bytes) (h1 : 0x80 ≤ st) (h2 : st ≤ 0xEF) :
    retype (st :: rest) =
      match rest with
      | d1 :: d2 :: _ =>
        if st / 16 = 0xD then some (some (afterTouch (st % 16) d1))
        else if st / 16 = 0xC then some (some (programChange (st % 16) d1))
        else if st / 16 = 0xB then some (some (controlChange (st % 16) d1 d2))
        else if st / 16 = 0x9 then some (some (noteOn (st % 16) d1 d2))
        else if st / 16 = 0x8 then some (some (noteOffVelocity (st % 16) d1 d2))
        else if st / 16 = 0xA then some (some (polyAfterTouch (st % 16) d1 d2))
        else if st / 16 = 0xE then some (pitchbend (st % 16) (parsePitchWheelVals d1 d2).1)
        else some none
      | _ => some none := by
  have e0 : ¬ 0xF8 ≤ st := by omega
  have e1 : ¬ (0xF0 < st ∧ st < 0xF7) := by omega
  have e2 : ¬ st = 0xF7 := by omega
  have e3 : ¬ st = 0xF0 := by omega
  rcases rest with _ | ⟨d1, _ | ⟨d2, tl⟩⟩ <;>
    simp only [retype, e0, e1, e2, e3, h1, h2, if_false, and_self, if_true, parseStatus_eq st (by omega)]

theorem retype_chan1 (st d : Nat) (h1 : 0x80 ≤ st) (h2 : st ≤ 0xEF) (hl : chanLen st = 1) (hd : d < 0x80) :
    retype [st, d, 0] = some (some [st, d]) := by
  rw [retype_chan_status st _ h1 h2]
  have hm : min d 127 = d := by omega
  have hc : min (st % 16) 15 = st % 16 := by omega
  unfold chanLen at hl
  by_cases hD : st / 16 = 0xD
  · have : 0xD0 + st % 16 = st := by omega
    simp [hD, afterTouch_eq, hm, hc, this]
  · have hC : st / 16 = 0xC := by
      by_cases hh : st / 16 = 0xC ∨ st / 16 = 0xD
      · omega
      · simp [hh] at hl
    have : 0xC0 + st % 16 = st := by omega
    simp [hC, programChange_eq, hm, hc, this]

theorem pitchbend_wheel (ch d1 d2 : Nat) (h1 : d1 < 0x80) (h2 : d2 < 0x80) :
    pitchbend ch (parsePitchWheelVals d1 d2).1 = some [0xE0 + min ch 15, d1, d2] := by
  rw [parsePitchWheelVals_eq, pitchbend_eq]
  simp only
  have hc := clampPitch_eq (((d2 % 128 * 128 + d1 % 128 : Nat) : Int) - 8192)
  generalize clampPitch (((d2 % 128 * 128 + d1 % 128 : Nat) : Int) - 8192) = cp at hc ⊢
  have e1 : (cp + 8192).toNat % 128 = d1 := by omega
  have e2 : (cp + 8192).toNat / 128 = d2 := by omega
  rw [e1, e2]

theorem retype_chan2 (st d1 d2 : Nat) (h1 : 0x80 ≤ st) (h2 : st ≤ 0xEF) (hl : chanLen st = 2)
    (hd1 : d1 < 0x80) (hd2 : d2 < 0x80) :
    retype [st, d1, d2] = some (some [st, d1, d2]) := by
  rw [retype_chan_status st _ h1 h2]
  have hm1 : min d1 127 = d1 := by omega
  have hm2 : min d2 127 = d2 := by omega
  have hc : min (st % 16) 15 = st % 16 := by omega
  have hD : ¬ st / 16 = 0xD := by
    intro h; simp [chanLen, h] at hl
  have hC : ¬ st / 16 = 0xC := by
    intro h; simp [chanLen, h] at hl
  have hcases : st / 16 = 0xB ∨ st / 16 = 0x9 ∨ st / 16 = 0x8 ∨ st / 16 = 0xA ∨ st / 16 = 0xE := by omega
  rcases hcases with h | h | h | h | h
  · have : 0xB0 + st % 16 = st := by omega
    simp [h, controlChange_eq, hm1, hm2, hc, this]
  · have : 0x90 + st % 16 = st := by omega
    simp [h, noteOn_eq, hm1, hm2, hc, this]
  · have : 0x80 + st % 16 = st := by omega
    simp [h, noteOffVelocity_eq, hm1, hm2, hc, this]
  · have : 0xA0 + st % 16 = st := by omega
    simp [h, polyAfterTouch_eq, hm1, hm2, hc, this]
  · have : 0xE0 + st % 16 = st := by omega
    simp [h, pitchbend_wheel _ _ _ hd1 hd2, hc, this]

/-- with every listen option on, the `testdrv` filter keeps every frame -/
theorem keep_allOn (c : Cfg) (hs : c.sysex = true) (ha : c.as = true) (ht : c.tc = true) (f : Frame) :
    keep c f = true := by
  unfold keep
  cases f.1 with
  | nil => rfl
  | cons h r => simp [hs, ha, ht]

theorem listenFrames_append (c : Cfg) (a b : List Frame) :
    listenFrames c (a ++ b) = listenFrames c a ++ listenFrames c b := by
  simp [listenFrames, List.filter_append, List.filterMap_append]

theorem listenFrames_nil (c : Cfg) : listenFrames c [] = [] := rfl

theorem listenFrames_cons (c : Cfg) (f : Frame) (r : List Frame) (m : Bytes)
    (hk : keep c f = true) (hr : retype f.1 = some (some m)) :
    listenFrames c (f :: r) = (some m, f.2) :: listenFrames c r := by
  simp [listenFrames, hk, hr]

end Midi.LiveWire
