import Proofs.StreamFault
import Proofs.SmfTotal
/-! The reader program of `SmfStream.lean`, interpreted over in-memory bytes, is the in-memory reader of `Smf.lean`. -/
namespace Midi.Stream
open Midi.Smf

def cv : RErr → Err
  | .eof => .eof | .ueof => .ueof | .missing => .missing | .finished => .finished | .other => .other | .fuel => .fuel

def cvRes : RRes → Res
  | .ok f => .ok f
  | .error e => .error (cv e)

/-- result of a program on `listOps` vs. result of the corresponding `Smf` function -/
def Agree {α β : Type} (r : Except Err α × Bytes) (x : Except RErr (β × Bytes)) (f : β → α) : Prop :=
  match x with
  | .ok (b, rest) => r = (.ok (f b), rest)
  | .error e => r.1 = .error (cv e)

theorem agree_readN (n : Nat) (l : Bytes) : Agree (run listOps (readN n) l) (Smf.readN n l) id := by
  unfold Agree Smf.readN
  simp only [Stream.readN, run, listOps]
  by_cases h0 : n = 0
  · simp [h0, run]
  · by_cases h1 : l = []
    · simp [h0, h1, run, cv]
    · by_cases h2 : l.length < n
      · simp [h0, h1, h2, run, cv]
      · simp [h0, h1, h2, run]

theorem agree_readByte (l : Bytes) : Agree (run listOps readByte l) (Smf.readByte l) id := by
  unfold Agree
  cases l with
  | nil => simp [Stream.readByte, Smf.readByte, run, listOps, cv]
  | cons b r => simp [Stream.readByte, Smf.readByte, run, listOps]

theorem readAux_fuel (l : Bytes) : ∀ f1 f2 acc, l.length < f1 → l.length < f2 →
    Vlq.readAux f1 acc l = Vlq.readAux f2 acc l := by
  induction l with
  | nil =>
    intro f1 f2 acc h1 h2
    cases f1 <;> cases f2 <;> simp_all [Vlq.readAux]
  | cons b r ih =>
    intro f1 f2 acc h1 h2
    cases f1 with
    | zero => simp at h1
    | succ f1 =>
      cases f2 with
      | zero => simp at h2
      | succ f2 =>
        simp only [Vlq.readAux]
        split
        · rfl
        · exact ih _ _ _ (by simp at h1; omega) (by simp at h2; omega)

theorem run_readVlq (l : Bytes) : ∀ fuel acc, l.length < fuel →
    run listOps (readVlq fuel acc) l =
      (match Vlq.readAux fuel acc l with
       | some (v, r) => (.ok v, r)
       | none => (.error .ueof, [])) := by
  induction l with
  | nil =>
    intro fuel acc h
    cases fuel with
    | zero => simp at h
    | succ f => simp [readVlq, run, listOps, Vlq.readAux]
  | cons b r ih =>
    intro fuel acc h
    cases fuel with
    | zero => simp at h
    | succ f =>
      simp only [readVlq, run, listOps, Vlq.readAux]
      split
      · simp [run]
      · exact ih f _ (by simp at h; omega)

theorem agree_readVlq (l : Bytes) (fuel : Nat) (h : l.length < fuel) :
    Agree (run listOps (readVlq fuel 0) l) (Smf.readVlq l) id := by
  unfold Agree Smf.readVlq Vlq.read
  rw [run_readVlq l fuel 0 h, readAux_fuel l fuel (l.length + 1) 0 h (by omega)]
  cases Vlq.readAux (l.length + 1) 0 l with
  | none => simp [cv]
  | some x => obtain ⟨v, r⟩ := x; simp

def evOf (e : REv) : Ev := ⟨e.delta, e.msg, e.rs⟩

theorem run_finishChan (δ st a1 : Nat) (l : Bytes) :
    run listOps (Stream.finishChan δ st a1) l = (.ok (evOf (Smf.finishChan δ st a1 l)), (Smf.finishChan δ st a1 l).rest) := by
  unfold Stream.finishChan Smf.finishChan
  split
  · simp [run, evOf]
  · cases l with
    | nil => simp [run, listOps, evOf]
    | cons a2 r => simp [run, listOps, evOf]

/-- helper: sequencing a program that agrees with an `Smf` step -/
theorem agree_bind {α β γ δ : Type} (p : Prog α) (k : α → Prog γ) (l : Bytes)
    (x : Except RErr (β × Bytes)) (f : β → α) (y : β → Bytes → Except RErr (δ × Bytes)) (g : δ → γ)
    (hp : Agree (run listOps p l) x f)
    (hk : ∀ b rest, x = .ok (b, rest) → Agree (run listOps (k (f b)) rest) (y b rest) g) :
    Agree (run listOps (p.bind k) l) (match x with | .ok (b, rest) => y b rest | .error e => .error e) g := by
  rw [run_bind]
  cases x with
  | error e =>
    simp only [Agree] at hp ⊢
    have : run listOps p l = (.error (cv e), (run listOps p l).2) := by rw [← hp]
    rw [this]
  | ok br =>
    obtain ⟨b, rest⟩ := br
    simp only [Agree] at hp
    rw [hp]
    exact hk b rest rfl

theorem readVlq_len (l : Bytes) (v : Nat) (r : Bytes) (h : Smf.readVlq l = .ok (v, r)) : r.length < l.length :=
  readVlq_rest l v r h

theorem agree_readEvent (vf rr : Nat) (l : Bytes) (h : l.length < vf) :
    Agree (run listOps (Stream.readEvent vf rr) l)
      (match Smf.readEvent rr l with | .ok ev => .ok (ev, ev.rest) | .error e => .error e) evOf := by
  have hv := agree_readVlq l vf h
  unfold Stream.readEvent Smf.readEvent
  simp only [bind_eq, pure_eq, bind, Except.bind, pure, Except.pure]
  cases h1 : Smf.readVlq l with
  | error e =>
    rw [h1] at hv
    simp only [Agree] at hv ⊢
    rw [run_bind]
    have : run listOps (readVlq vf 0) l = (.error (cv e), (run listOps (readVlq vf 0) l).2) := by rw [← hv]
    rw [this]
  | ok x =>
    obtain ⟨δ, l1⟩ := x
    have l1len := readVlq_rest _ _ _ h1
    rw [h1] at hv
    simp only [Agree, id] at hv
    rw [run_bind, hv]
    simp only
    have hb := agree_readByte l1
    cases h2 : Smf.readByte l1 with
    | error e =>
      rw [h2] at hb
      simp only [Agree] at hb ⊢
      rw [run_bind]
      have : run listOps readByte l1 = (.error (cv e), (run listOps readByte l1).2) := by rw [← hb]
      rw [this]
    | ok y =>
      obtain ⟨c, l2⟩ := y
      have l2len := readByte_rest _ _ _ h2
      rw [h2] at hb
      simp only [Agree, id] at hb
      rw [run_bind, hb]
      simp only
      by_cases hFF : c = 0xFF
      · simp only [hFF, if_true]
        have hb3 := agree_readByte l2
        cases h3 : Smf.readByte l2 with
        | error e =>
          rw [h3] at hb3; simp only [Agree] at hb3 ⊢
          rw [run_bind]
          have : run listOps readByte l2 = (.error (cv e), (run listOps readByte l2).2) := by rw [← hb3]
          rw [this]
        | ok z =>
          obtain ⟨t, l3⟩ := z
          have l3len := readByte_rest _ _ _ h3
          rw [h3] at hb3; simp only [Agree, id] at hb3
          rw [run_bind, hb3]
          simp only
          have hv4 := agree_readVlq l3 vf (by omega)
          cases h4 : Smf.readVlq l3 with
          | error e =>
            rw [h4] at hv4; simp only [Agree] at hv4 ⊢
            rw [run_bind]
            have : run listOps (readVlq vf 0) l3 = (.error (cv e), (run listOps (readVlq vf 0) l3).2) := by rw [← hv4]
            rw [this]
          | ok w =>
            obtain ⟨n, l4⟩ := w
            rw [h4] at hv4; simp only [Agree, id] at hv4
            rw [run_bind, hv4]
            simp only
            have hn := agree_readN n l4
            cases h5 : Smf.readN n l4 with
            | error e =>
              rw [h5] at hn; simp only [Agree] at hn ⊢
              rw [run_bind]
              have : run listOps (Stream.readN n) l4 = (.error (cv e), (run listOps (Stream.readN n) l4).2) := by rw [← hn]
              rw [this]
            | ok u =>
              obtain ⟨d, l5⟩ := u
              rw [h5] at hn; simp only [Agree, id] at hn
              rw [run_bind, hn]
              simp [Agree, run, evOf]
      · simp only [hFF, if_false]
        by_cases hF0 : c = 0xF0 ∨ c = 0xF7
        · simp only [hF0, if_true]
          have hv4 := agree_readVlq l2 vf (by omega)
          cases h4 : Smf.readVlq l2 with
          | error e =>
            rw [h4] at hv4; simp only [Agree] at hv4 ⊢
            rw [run_bind]
            have : run listOps (readVlq vf 0) l2 = (.error (cv e), (run listOps (readVlq vf 0) l2).2) := by rw [← hv4]
            rw [this]
          | ok w =>
            obtain ⟨n, l4⟩ := w
            rw [h4] at hv4; simp only [Agree, id] at hv4
            rw [run_bind, hv4]
            simp only
            have hn := agree_readN n l4
            cases h5 : Smf.readN n l4 with
            | error e =>
              rw [h5] at hn; simp only [Agree] at hn ⊢
              rw [run_bind]
              have : run listOps (Stream.readN n) l4 = (.error (cv e), (run listOps (Stream.readN n) l4).2) := by rw [← hn]
              rw [this]
            | ok u =>
              obtain ⟨d, l5⟩ := u
              rw [h5] at hn; simp only [Agree, id] at hn
              rw [run_bind, hn]
              simp [Agree, run, evOf]
        · simp only [hF0, if_false]
          by_cases hc : isChanStatus c = true
          · simp only [hc, if_true]
            have hb3 := agree_readByte l2
            cases h3 : Smf.readByte l2 with
            | error e =>
              rw [h3] at hb3; simp only [Agree] at hb3 ⊢
              rw [run_bind]
              have : run listOps readByte l2 = (.error (cv e), (run listOps readByte l2).2) := by rw [← hb3]
              rw [this]
            | ok z =>
              obtain ⟨a1, l3⟩ := z
              rw [h3] at hb3; simp only [Agree, id] at hb3
              rw [run_bind, hb3]
              simp only [Agree, run_finishChan]
          · simp only [hc, Bool.false_eq_true, if_false]
            by_cases h0 : rr = 0
            · simp [h0, Agree, run, cv]
            · simp only [h0, if_false, Agree, run_finishChan]

end Midi.Stream

namespace Midi.Stream
open Midi.Smf

theorem agree_chunkLoop (k : Nat) : ∀ (n : Nat) (l : Bytes), l.length ≤ n → ∀ vf f2, l.length < vf → l.length < f2 →
    Agree (run listOps (Stream.chunkLoop vf k) l) (Smf.chunkLoop f2 k l) id := by
  intro n
  induction n with
  | zero =>
    intro l hl vf f2 h1 h2
    have : l = [] := List.eq_nil_of_length_eq_zero (by omega)
    subst this
    obtain ⟨v, rfl⟩ : ∃ v, vf = v + 1 := ⟨vf - 1, by simp at h1; omega⟩
    obtain ⟨f, rfl⟩ : ∃ f, f2 = f + 1 := ⟨f2 - 1, by simp at h2; omega⟩
    simp [Stream.chunkLoop, Smf.chunkLoop, bind_eq, run_bind, Stream.readN, run, listOps, Smf.readN, Agree, cv, bind, Except.bind]
  | succ n ih =>
    intro l hl vf f2 h1 h2
    obtain ⟨v, rfl⟩ : ∃ v, vf = v + 1 := ⟨vf - 1, by omega⟩
    obtain ⟨f, rfl⟩ : ∃ f, f2 = f + 1 := ⟨f2 - 1, by omega⟩
    unfold Stream.chunkLoop Smf.chunkLoop
    simp only [bind_eq, pure_eq, bind, Except.bind, pure, Except.pure]
    have hn := agree_readN 4 l
    cases h3 : Smf.readN 4 l with
    | error e =>
      rw [h3] at hn; simp only [Agree] at hn ⊢
      rw [run_bind]
      have : run listOps (Stream.readN 4) l = (.error (cv e), (run listOps (Stream.readN 4) l).2) := by rw [← hn]
      rw [this]
    | ok x =>
      obtain ⟨typ, l1⟩ := x
      have l1len := readN_rest _ _ _ _ h3
      rw [h3] at hn; simp only [Agree, id] at hn
      rw [run_bind, hn]
      simp only
      have hn2 := agree_readN 4 l1
      cases h4 : Smf.readN 4 l1 with
      | error e =>
        rw [h4] at hn2; simp only [Agree] at hn2 ⊢
        rw [run_bind]
        have : run listOps (Stream.readN 4) l1 = (.error (cv e), (run listOps (Stream.readN 4) l1).2) := by rw [← hn2]
        rw [this]
      | ok y =>
        obtain ⟨len4, l2⟩ := y
        have l2len := readN_rest _ _ _ _ h4
        rw [h4] at hn2; simp only [Agree, id] at hn2
        rw [run_bind, hn2]
        simp only
        by_cases hm : typ = MTrk
        · simp [hm, Agree, run]
        · simp only [hm, if_false, run, listOps]
          by_cases hl2 : l2.length < lenOf4 len4
          · simp [hl2, run, Agree, cv]
          · simp only [hl2, if_false]
            have hd : (l2.drop (lenOf4 len4)).length ≤ l2.length := by simp
            exact ih _ (by omega) v f (by omega) (by omega)

def cvLoop (r : RState × RErr) : LoopRes := (r.1, cv r.2)

theorem cv_eof_iff (e : RErr) : cv e = .eof ↔ e = .eof := by cases e <;> simp [cv]

/-- the chunk part of one `Smf.readLoop` iteration -/
def chunkPart (st : RState) (l : Bytes) : Except RErr (Nat × Bytes) :=
  if st.expectChunk = true then Smf.chunkLoop (l.length + 1) st.started l else .ok (st.started, l)

def endErr (e : RErr) (m : Bool) : RErr := if e = .eof ∧ m = true then .missing else e

theorem smf_loop_done (f : Nat) (st : RState) (l : Bytes) (h : st.done = true) :
    Smf.readLoop (f+1) st l = (st, .finished) := by
  unfold Smf.readLoop; simp [h]

theorem smf_loop_chunkErr (f : Nat) (st : RState) (l : Bytes) (e : RErr) (h : st.done = false)
    (hc : chunkPart st l = .error e) : Smf.readLoop (f+1) st l = (st, endErr e st.missing) := by
  unfold Smf.readLoop
  simp only [chunkPart] at hc
  simp [h, hc, endErr]

theorem smf_loop_evErr (f : Nat) (st : RState) (l l1 : Bytes) (started : Nat) (e : RErr) (h : st.done = false)
    (hc : chunkPart st l = .ok (started, l1)) (he : Smf.readEvent st.rs l1 = .error e) :
    Smf.readLoop (f+1) st l = ({ st with started := started, expectChunk := false },
      endErr e ({ st with started := started, expectChunk := false } : RState).missing) := by
  unfold Smf.readLoop
  simp only [chunkPart] at hc
  simp [h, hc, he, endErr]

theorem smf_loop_ev (f : Nat) (st : RState) (l l1 : Bytes) (started : Nat) (ev : REv) (h : st.done = false)
    (hc : chunkPart st l = .ok (started, l1)) (he : Smf.readEvent st.rs l1 = .ok ev) :
    Smf.readLoop (f+1) st l =
      (if st.tracks.length ≤ started - 1 then
        ((⟨st.numTracks, started, isEOTMsg ev.msg && !(started == st.numTracks), ev.rs,
            isEOTMsg ev.msg && started == st.numTracks, st.tracks⟩ : RState), RErr.other)
      else Smf.readLoop f (⟨st.numTracks, started, isEOTMsg ev.msg && !(started == st.numTracks), ev.rs,
            isEOTMsg ev.msg && started == st.numTracks,
            setTrack st.tracks (started - 1)
              (fun t => if isEOTMsg ev.msg then t.close ev.delta else t.add ev.delta [ev.msg])⟩ : RState) ev.rest) := by
  conv => lhs; unfold Smf.readLoop
  simp only [chunkPart] at hc
  simp only [h, Bool.false_eq_true, if_false, hc, he]

theorem cv_endErr (e : RErr) (m : Bool) : cv (endErr e m) = (if cv e = .eof ∧ m = true then .missing else cv e) := by
  unfold endErr
  by_cases he : e = .eof
  · subst he; by_cases hm : m = true <;> simp [hm, cv]
  · have : ¬ cv e = .eof := by rw [cv_eof_iff]; exact he
    simp [he, this]

theorem run_readLoop : ∀ (n : Nat) (l : Bytes), l.length ≤ n → ∀ (lf f2 vf : Nat) (st : RState),
    l.length < lf → l.length < f2 → l.length < vf →
    (run listOps (Stream.readLoop lf vf st) l).1 = .ok (cvLoop (Smf.readLoop f2 st l)) := by
  intro n
  induction n using Nat.strongRecOn with
  | _ n ih =>
    intro l hl lf f2 vf st h1 h2 h3
    obtain ⟨lf', rfl⟩ : ∃ x, lf = x + 1 := ⟨lf - 1, by omega⟩
    obtain ⟨f2', rfl⟩ : ∃ x, f2 = x + 1 := ⟨f2 - 1, by omega⟩
    unfold Stream.readLoop
    by_cases hd : st.done = true
    · rw [smf_loop_done _ _ _ hd]
      simp [hd, run, cvLoop, cv]
    · have hd' : st.done = false := by cases hv : st.done <;> simp_all
      simp only [hd, Bool.false_eq_true, if_false]
      rw [run_catch]
      have hchunk : Agree (run listOps (if st.expectChunk = true then Stream.chunkLoop vf st.started else Prog.pure st.started) l)
          (chunkPart st l) id := by
        unfold chunkPart
        by_cases hx : st.expectChunk = true
        · simp only [hx, if_true]
          exact agree_chunkLoop st.started l.length l (Nat.le_refl _) vf (l.length + 1) h3 (by omega)
        · simp only [hx, Bool.false_eq_true, if_false, run, Agree, id]
      cases hr1 : chunkPart st l with
      | error e =>
        rw [hr1] at hchunk
        simp only [Agree] at hchunk
        rw [hchunk, smf_loop_chunkErr _ _ _ _ hd' hr1]
        simp only [afterChunk, run, cvLoop, cv_endErr]
      | ok x =>
        obtain ⟨started, l1⟩ := x
        rw [hr1] at hchunk
        simp only [Agree, id] at hchunk
        have l1len : l1.length ≤ l.length := by
          unfold chunkPart at hr1
          by_cases hx : st.expectChunk = true
          · simp only [hx, if_true] at hr1
            have := (chunkLoop_spec l.length st.started l (Nat.le_refl _)).1 started l1 hr1
            omega
          · simp only [hx, Bool.false_eq_true, if_false, Except.ok.injEq, Prod.mk.injEq] at hr1
            rw [← hr1.2]; exact Nat.le_refl _
        rw [hchunk]
        simp only [afterChunk]
        rw [run_catch]
        have hev := agree_readEvent vf st.rs l1 (by omega)
        cases hre : Smf.readEvent st.rs l1 with
        | error e =>
          rw [hre] at hev
          simp only [Agree] at hev
          rw [hev, smf_loop_evErr _ _ _ _ _ _ hd' hr1 hre]
          simp only [afterEvent, run, cvLoop, cv_endErr]
        | ok ev =>
          rw [hre] at hev
          simp only [Agree] at hev
          rw [hev, smf_loop_ev _ _ _ _ _ _ hd' hr1 hre]
          have evlen := (readEvent_spec st.rs l1).1 ev hre
          simp only [afterEvent, evOf]
          by_cases ht : st.tracks.length ≤ started - 1
          · simp [ht, run, cvLoop, cv]
          · simp only [ht, if_false]
            exact ih ev.rest.length (by omega) ev.rest (Nat.le_refl _) lf' f2' vf _ (by omega) (by omega) (by omega)

/-- the two reader models agree: the program reader over in-memory bytes is the list reader -/
theorem readFrom_eq (bs : Bytes) (fuel : Nat) (hf : bs.length + 2 ≤ fuel) :
    (run listOps (Stream.readFrom fuel) bs).1 = .ok (cvRes (Smf.readFrom bs)) := by
  unfold Stream.readFrom Smf.readFrom
  rw [run_catch]
  simp only [bind_eq, pure_eq]
  -- header: five reads
  have hN := fun n l => agree_readN n l
  rw [run_bind]
  have a1 := hN 4 bs
  cases h1 : Smf.readN 4 bs with
  | error e =>
    rw [h1] at a1; simp only [Agree] at a1
    have : run listOps (Stream.readN 4) bs = (.error (cv e), (run listOps (Stream.readN 4) bs).2) := by rw [← a1]
    rw [this]; simp [run, cvRes]
  | ok x1 =>
  obtain ⟨typ, bs1⟩ := x1
  have l1 := readN_rest _ _ _ _ h1
  rw [h1] at a1; simp only [Agree, id] at a1
  rw [a1]; simp only
  rw [run_bind]
  have a2 := hN 4 bs1
  cases h2 : Smf.readN 4 bs1 with
  | error e =>
    rw [h2] at a2; simp only [Agree] at a2
    have : run listOps (Stream.readN 4) bs1 = (.error (cv e), (run listOps (Stream.readN 4) bs1).2) := by rw [← a2]
    rw [this]; simp [run, cvRes]
  | ok x2 =>
  obtain ⟨l4, bs2⟩ := x2
  have l2 := readN_rest _ _ _ _ h2
  rw [h2] at a2; simp only [Agree, id] at a2
  rw [a2]; simp only
  by_cases hm : typ ≠ MThd
  · simp [hm, run, cvRes, cv]
  · simp only [hm, if_false]
    rw [run_bind]
    have a3 := hN 2 bs2
    cases h3 : Smf.readN 2 bs2 with
    | error e =>
      rw [h3] at a3; simp only [Agree] at a3
      have : run listOps (Stream.readN 2) bs2 = (.error (cv e), (run listOps (Stream.readN 2) bs2).2) := by rw [← a3]
      rw [this]; simp [run, cvRes]
    | ok x3 =>
    obtain ⟨fm, bs3⟩ := x3
    have l3 := readN_rest _ _ _ _ h3
    rw [h3] at a3; simp only [Agree, id] at a3
    rw [a3]; simp only
    by_cases hfm : val16 fm > 2
    · simp [hfm, run, cvRes, cv]
    · simp only [hfm, if_false]
      rw [run_bind]
      have a4 := hN 2 bs3
      cases h4 : Smf.readN 2 bs3 with
      | error e =>
        rw [h4] at a4; simp only [Agree] at a4
        have : run listOps (Stream.readN 2) bs3 = (.error (cv e), (run listOps (Stream.readN 2) bs3).2) := by rw [← a4]
        rw [this]; simp [run, cvRes]
      | ok x4 =>
      obtain ⟨nt, bs4⟩ := x4
      have l4' := readN_rest _ _ _ _ h4
      rw [h4] at a4; simp only [Agree, id] at a4
      rw [a4]; simp only
      rw [run_bind]
      have a5 := hN 2 bs4
      cases h5 : Smf.readN 2 bs4 with
      | error e =>
        rw [h5] at a5; simp only [Agree] at a5
        have : run listOps (Stream.readN 2) bs4 = (.error (cv e), (run listOps (Stream.readN 2) bs4).2) := by rw [← a5]
        rw [this]; simp [run, cvRes]
      | ok x5 =>
      obtain ⟨dv, bs5⟩ := x5
      have l5 := readN_rest _ _ _ _ h5
      rw [h5] at a5; simp only [Agree, id] at a5
      rw [a5]
      simp only [run]
      rw [run_bind]
      have hl := run_readLoop bs5.length bs5 (Nat.le_refl _) fuel (bs5.length + 2) fuel
        ⟨val16 nt, 0, true, 0, false, List.replicate (val16 nt) []⟩ (by omega) (by omega) (by omega)
      generalize hq : run listOps (Stream.readLoop fuel fuel ⟨val16 nt, 0, true, 0, false, List.replicate (val16 nt) []⟩) bs5 = q at hl
      obtain ⟨r, s'⟩ := q
      simp only at hl
      subst hl
      generalize Smf.readLoop (bs5.length + 2) ⟨val16 nt, 0, true, 0, false, List.replicate (val16 nt) []⟩ bs5 = lr
      obtain ⟨st, e⟩ := lr
      simp only [cvLoop]
      by_cases hmiss : st.missing = true
      · simp [hmiss, run, cvRes, cv]
      · simp only [hmiss, Bool.false_eq_true, if_false]
        cases e <;> simp [cv, run, cvRes]

end Midi.Stream
