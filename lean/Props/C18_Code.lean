import MidiModel.Sysex
import MidiModel.Generated.SysexGo
/-!
# C18, tie to the source: `Manufacturer.Checksum` as translated from `v2/sysex/sysex.go` on every run is the model's
`Sysex.checksum` — the `int32` accumulation over address + size/payload, the truncated remainder, `128 − rem`.
(`Generated/SysexGo.lean` also carries the translation of `sysex.Parse`: `Props/C18_Parse.lean` proves it equal to the
model's `parse`.)
-/
namespace Midi.C18
open Midi Midi.Go Midi.Sysex

/-- the Go value of a model value -/
def toGo (s : Manufacturer) : sysex.Manufacturer :=
  { ManufacturerID := s.manu, DeviceID := s.dev, ModelID := s.model, InfoRequest := s.req,
    Address := [s.a0, s.a1, s.a2], SendingData := s.data, NumReqBytes := [s.n0, s.n1, s.n2] }

theorem wrapS32_eq (x : Int) : Go.wrapS 32 x = (x + 2147483648) % 4294967296 - 2147483648 := by
  unfold Go.wrapS; rfl

theorem wrap_step (acc b : Nat) (_ha : acc < 4294967296) :
    Go.wrapS 32 (toI32 acc + (b : Int)) = toI32 ((acc + b) % 4294967296) := by
  rw [wrapS32_eq]
  unfold toI32
  have h1 : ((acc + b) % 4294967296 : Nat) < 4294967296 := Nat.mod_lt _ (by decide)
  generalize hm : (acc + b) % 4294967296 = m at *
  have hm' : ((acc : Int) + (b : Int)) % 4294967296 = (m : Int) := by omega
  by_cases c1 : acc < 2147483648 <;> by_cases c2 : m < 2147483648 <;> simp only [c1, c2, ↓reduceIte] <;> omega

theorem sum_loop (l : Bytes) : ∀ acc, acc < 4294967296 →
    l.foldl (fun (su : Int) (b : Nat) => Go.wrapS 32 (su + (b : Int))) (toI32 acc) = toI32 (sumU32 l acc) := by
  induction l with
  | nil => intro acc _; rfl
  | cons b r ih =>
    intro acc ha
    simp only [List.foldl_cons, sumU32]
    rw [wrap_step acc b ha]
    exact ih _ (Nat.mod_lt _ (by decide))

theorem tail_eq (bt : Bytes) :
    (do
      let __s ← forIn bt (0 : Int) fun (b : Nat) (__s : Int) =>
          (pure (ForInStep.yield (Go.wrapS 32 (__s + (b : Int)))) : Except String (ForInStep Int))
      if Int.tmod __s 128 = 0 then pure 0 else pure (Go.toU 8 (Go.wrapS 32 (128 - Int.tmod __s 128))) : Except String Nat)
    = .ok (cksumOf bt) := by
  rw [List.forIn_pure_yield_eq_foldl]
  have h := sum_loop bt 0 (by decide)
  have h0 : toI32 0 = 0 := rfl
  rw [h0] at h
  simp only [pure_bind, h]
  unfold cksumOf sumI32
  generalize toI32 (sumU32 bt 0) = su
  have hr : -128 < Int.tmod su 128 ∧ Int.tmod su 128 < 128 := by
    exact ⟨Int.lt_tmod_of_pos su (by decide), Int.tmod_lt_of_pos su (by decide)⟩
  by_cases h0' : Int.tmod su 128 = 0
  · simp only [h0', ↓reduceIte]; rfl
  · simp only [h0', ↓reduceIte]
    have : Go.wrapS 32 (128 - Int.tmod su 128) = 128 - Int.tmod su 128 := by
      rw [wrapS32_eq]; omega
    rw [this]
    rfl

theorem code_Checksum_gen (g : sysex.Manufacturer) (a0 a1 a2 n0 n1 n2 : Nat)
    (hA : g.Address = [a0, a1, a2]) (hN : g.NumReqBytes = [n0, n1, n2]) :
    sysex.Manufacturer.Checksum g =
      .ok (cksumOf ([a0, a1, a2] ++ (if g.InfoRequest then [n0, n1, n2] else g.SendingData))) := by
  unfold sysex.Manufacturer.Checksum
  simp only [hA, hN]
  have e0 : Go.idx [a0, a1, a2] 0 = .ok a0 := rfl
  have e1 : Go.idx [a0, a1, a2] 1 = .ok a1 := rfl
  have e2 : Go.idx [a0, a1, a2] 2 = .ok a2 := rfl
  have f0 : Go.idx [n0, n1, n2] 0 = .ok n0 := rfl
  have f1 : Go.idx [n0, n1, n2] 1 = .ok n1 := rfl
  have f2 : Go.idx [n0, n1, n2] 2 = .ok n2 := rfl
  have okb : ∀ {α β : Type} (x : α) (f : α → Except String β), (Except.ok x >>= f) = f x := fun _ _ => rfl
  simp only [e0, e1, e2, f0, f1, f2, okb]
  by_cases hr : g.InfoRequest = true
  · simp only [hr, ↓reduceIte]; exact tail_eq _
  · have hf : g.InfoRequest = false := by simpa using hr
    simp only [hf]
    exact tail_eq _
/-- `Manufacturer.Checksum()` of the working tree = the model's `checksum`, for every value -/
theorem code_Checksum (s : Manufacturer) : sysex.Manufacturer.Checksum (toGo s) = .ok (checksum s) := by
  rw [code_Checksum_gen (toGo s) s.a0 s.a1 s.a2 s.n0 s.n1 s.n2 rfl rfl]
  unfold checksum summed body toGo
  cases s.req <;> rfl

/-- `Manufacturer.SysEx()` of the working tree = the model's `build`, for every value -/
theorem code_SysEx (s : Manufacturer) : sysex.Manufacturer.SysEx (toGo s) = .ok (build s) := by
  unfold sysex.Manufacturer.SysEx
  have hck := code_Checksum s
  have e0 : Go.idx (toGo s).Address 0 = .ok s.a0 := rfl
  have e1 : Go.idx (toGo s).Address 1 = .ok s.a1 := rfl
  have e2 : Go.idx (toGo s).Address 2 = .ok s.a2 := rfl
  have f0 : Go.idx (toGo s).NumReqBytes 0 = .ok s.n0 := rfl
  have f1 : Go.idx (toGo s).NumReqBytes 1 = .ok s.n1 := rfl
  have f2 : Go.idx (toGo s).NumReqBytes 2 = .ok s.n2 := rfl
  have okb : ∀ {α β : Type} (x : α) (f : α → Except String β), (Except.ok x >>= f) = f x := fun _ _ => rfl
  have hr : (toGo s).InfoRequest = s.req := rfl
  have hd : (toGo s).SendingData = s.data := rfl
  have h1 : (toGo s).ManufacturerID = s.manu := rfl
  have h2 : (toGo s).DeviceID = s.dev := rfl
  have h3 : (toGo s).ModelID = s.model := rfl
  simp only [e0, e1, e2, f0, f1, f2, okb, hck, hr, hd, h1, h2, h3]
  unfold build body
  cases hreq : s.req <;> simp [okb, hck] <;> rfl

end Midi.C18
