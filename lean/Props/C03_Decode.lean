import MidiModel.Vlq
import MidiModel.Generated.UtilsGo
import Proofs.GoLoopsNested
import Proofs.Vlq
import Props.C03_Code
/-!
# C03 (and C01), tie to the source: `utils.VlqDecode` as translated from `internal/utils/utils.go` on every run is the
model's `Vlq.decode` on every byte string of up to five bytes — the nested loop (both conditions index the slice), the
`uint32` arithmetic, and the index-out-of-range panic when the last byte carries a continuation bit. With `C03_Code.code_VlqEncode`:
`VlqDecode(VlqEncode(n)) = n` for every `uint32`, on the translated text of both functions.
-/
set_option linter.unusedSimpArgs false
set_option linter.unusedVariables false
namespace Midi.C03
open Midi Midi.Go

theorem and128_fin : ∀ x : Fin 256, ((x.val &&& 128) = 0) = (x.val < 128) := by decide +kernel
theorem and127_fin : ∀ x : Fin 256, (x.val &&& 127) = x.val % 128 := by decide +kernel
theorem and128 (b : Nat) (h : b < 256) : ((b &&& 128) = 0) = (b < 128) := and128_fin ⟨b, h⟩
theorem and127 (b : Nat) (h : b < 256) : (b &&& 127) = b % 128 := and127_fin ⟨b, h⟩

theorem bindOk {α β : Type} (x : α) (g : α → Except String β) : (Except.ok x >>= g) = g x := by simp only [bind, Except.bind]
theorem bindErr {α β : Type} (e : String) (g : α → Except String β) : ((Except.error e : Except String α) >>= g) = Except.error e := by simp only [bind, Except.bind]
theorem pureOk {α : Type} (x : α) : (pure x : Except String α) = Except.ok x := by simp only [pure, Except.pure]
theorem throwErr {α : Type} (e : String) : (throw e : Except String α) = Except.error e := by simp only [throw, throwThe, MonadExceptOf.throw]

theorem loopF_zero {σ : Type} (f : σ → Except String (ForInStep σ)) (s : σ) : Go.loopF f 0 s = Except.ok s := by unfold Go.loopF; simp only [pure, Except.pure]
theorem hi128 (b : Nat) (h : b < 256) (h' : 128 ≤ b) : ((b &&& 128) = 0) = False := by
  rw [and128 b h]; simp; omega
theorem lo128 (b : Nat) (h : b < 128) : ((b &&& 128) = 0) = True := by
  rw [and128 b (by omega)]; simp; omega


/-- what the model's `none` (the last byte carries a continuation bit) is in the translated code -/
def expect (l : List Nat) : Except String Nat :=
  match Vlq.decode l with
  | some v => .ok v
  | none => .error "index out of range"

macro "vlq_eval" : tactic => `(tactic| (
  unfold utils.VlqDecode
  simp only [Go.forIn_range_loopF]
  simp [Go.loopFuel, Go.loopF_succ, loopF_zero, Go.idx, bindOk, bindErr, pureOk, throwErr, Go.wrapS,
    expect, Vlq.decode, Vlq.decodeGo, *]
  try omega))

theorem byte_facts (b : Nat) (h : b < 256) :
    (b &&& 127 = b % 128) ∧ ((((b &&& 128) = 0) = True ∧ ¬ b ≥ 128) ∨ (((b &&& 128) = 0) = False ∧ b ≥ 128)) := by
  refine ⟨and127 b h, ?_⟩
  by_cases hc : b < 128
  · exact Or.inl ⟨lo128 b hc, by omega⟩
  · exact Or.inr ⟨hi128 b h (by omega), by omega⟩

theorem dec0 : utils.VlqDecode [] = expect [] := by vlq_eval
theorem dec1 (a : Nat) (ha : a < 256) : utils.VlqDecode [a] = expect [a] := by
  rcases byte_facts a ha with ⟨hma, ⟨hza, hga⟩ | ⟨hza, hga⟩⟩ <;> vlq_eval
theorem dec2 (a b : Nat) (ha : a < 256) (hb : b < 256) : utils.VlqDecode [a, b] = expect [a, b] := by
  rcases byte_facts a ha with ⟨hma, ⟨hza, hga⟩ | ⟨hza, hga⟩⟩ <;>
  rcases byte_facts b hb with ⟨hmb, ⟨hzb, hgb⟩ | ⟨hzb, hgb⟩⟩ <;> vlq_eval
theorem dec3 (a b c : Nat) (ha : a < 256) (hb : b < 256) (hc : c < 256) : utils.VlqDecode [a, b, c] = expect [a, b, c] := by
  rcases byte_facts a ha with ⟨hma, ⟨hza, hga⟩ | ⟨hza, hga⟩⟩ <;>
  rcases byte_facts b hb with ⟨hmb, ⟨hzb, hgb⟩ | ⟨hzb, hgb⟩⟩ <;>
  rcases byte_facts c hc with ⟨hmc, ⟨hzc, hgc⟩ | ⟨hzc, hgc⟩⟩ <;> vlq_eval
theorem dec4 (a b c d : Nat) (ha : a < 256) (hb : b < 256) (hc : c < 256) (hd : d < 256) :
    utils.VlqDecode [a, b, c, d] = expect [a, b, c, d] := by
  rcases byte_facts a ha with ⟨hma, ⟨hza, hga⟩ | ⟨hza, hga⟩⟩ <;>
  rcases byte_facts b hb with ⟨hmb, ⟨hzb, hgb⟩ | ⟨hzb, hgb⟩⟩ <;>
  rcases byte_facts c hc with ⟨hmc, ⟨hzc, hgc⟩ | ⟨hzc, hgc⟩⟩ <;>
  rcases byte_facts d hd with ⟨hmd, ⟨hzd, hgd⟩ | ⟨hzd, hgd⟩⟩ <;> vlq_eval
theorem dec5 (a b c d e : Nat) (ha : a < 256) (hb : b < 256) (hc : c < 256) (hd : d < 256) (he : e < 256) :
    utils.VlqDecode [a, b, c, d, e] = expect [a, b, c, d, e] := by
  rcases byte_facts a ha with ⟨hma, ⟨hza, hga⟩ | ⟨hza, hga⟩⟩ <;>
  rcases byte_facts b hb with ⟨hmb, ⟨hzb, hgb⟩ | ⟨hzb, hgb⟩⟩ <;>
  rcases byte_facts c hc with ⟨hmc, ⟨hzc, hgc⟩ | ⟨hzc, hgc⟩⟩ <;>
  rcases byte_facts d hd with ⟨hmd, ⟨hzd, hgd⟩ | ⟨hzd, hgd⟩⟩ <;>
  rcases byte_facts e he with ⟨hme, ⟨hze, hge⟩ | ⟨hze, hge⟩⟩ <;> vlq_eval

/-- **`utils.VlqDecode` as it stands in the source is the model's `Vlq.decode`** on every string of up to five bytes (what a
    `uint32` quantity occupies; several quantities in one string are summed, as the Go code does): the same value, and
    an index-out-of-range panic exactly where the model says `none` (the last byte carries a continuation bit).
    Both loops end on their own within the fuel. -/
theorem code_VlqDecode (l : List Nat) (hl : l.length ≤ 5) (hb : ∀ b ∈ l, b < 256) :
    utils.VlqDecode l = expect l := by
  rcases l with _ | ⟨a, _ | ⟨b, _ | ⟨c, _ | ⟨d, _ | ⟨e, _ | ⟨f, r⟩⟩⟩⟩⟩⟩
  · exact dec0
  · exact dec1 a (hb a (by simp))
  · exact dec2 a b (hb a (by simp)) (hb b (by simp))
  · exact dec3 a b c (hb a (by simp)) (hb b (by simp)) (hb c (by simp))
  · exact dec4 a b c d (hb a (by simp)) (hb b (by simp)) (hb c (by simp)) (hb d (by simp))
  · exact dec5 a b c d e (hb a (by simp)) (hb b (by simp)) (hb c (by simp)) (hb d (by simp)) (hb e (by simp))
  · simp at hl

/-- the hypotheses are inhabited, on both outcomes -/
example : utils.VlqDecode [0x81, 0x00] = .ok 128 := by
  rw [code_VlqDecode _ (by decide) (by decide)]; rfl
example : utils.VlqDecode [0x81, 0x80] = .error "index out of range" := by
  rw [code_VlqDecode _ (by decide) (by decide)]; rfl

/-! ## decode ∘ encode -/

theorem decodeGo_cont (num d : Nat) (cur : Option Nat) (rest : List Nat) (hd : d ≥ 128) :
    Vlq.decodeGo num cur (d :: rest) =
      Vlq.decodeGo num (some ((cur.getD 0 * 128 % 4294967296 + d % 128) % 4294967296)) rest := by
  cases cur <;> simp [Vlq.decodeGo, hd]
theorem decodeGo_last (num lo : Nat) (cur : Option Nat) (hlo : lo < 128) :
    Vlq.decodeGo num cur [lo] = some ((num + (cur.getD 0 * 128 % 4294967296 + lo % 128) % 4294967296) % 4294967296) := by
  have : ¬ lo ≥ 128 := by omega
  cases cur <;> simp [Vlq.decodeGo, this]

/-- the model's `decodeGo` on continuation digits followed by a final digit -/
theorem decodeGo_digits (ds : List Nat) (lo num : Nat) (cur : Option Nat)
    (hds : ∀ d ∈ ds, 128 ≤ d ∧ d < 256) (hlo : lo < 128)
    (hbound : Vlq.valBE (cur.getD 0) ds * 128 + lo < 4294967296) :
    Vlq.decodeGo num cur (ds ++ [lo]) = some ((num + (Vlq.valBE (cur.getD 0) ds * 128 + lo)) % 4294967296) := by
  induction ds generalizing cur with
  | nil =>
    simp only [Vlq.valBE] at hbound
    rw [List.nil_append, decodeGo_last num lo cur hlo]
    simp only [Vlq.valBE]
    congr 2
    generalize cur.getD 0 = c at hbound ⊢
    omega
  | cons d ds ih =>
    have hd := hds d (by simp)
    have hmono : ∀ (l : List Nat) (a : Nat), a ≤ Vlq.valBE a l := by
      intro l; induction l with
      | nil => intro a; simp [Vlq.valBE]
      | cons x l ihl => intro a; simp only [Vlq.valBE]; exact Nat.le_trans (by omega) (ihl _)
    simp only [Vlq.valBE] at hbound
    have h1 := hmono ds (cur.getD 0 * 128 + d % 128)
    have hm : (cur.getD 0 * 128 % 4294967296 + d % 128) % 4294967296 = cur.getD 0 * 128 + d % 128 := by
      generalize cur.getD 0 = c at h1 hbound ⊢
      omega
    rw [List.cons_append, decodeGo_cont num d cur _ hd.1, hm]
    have := ih (some (cur.getD 0 * 128 + d % 128)) (fun x hx => hds x (by simp [hx])) (by simpa using hbound)
    simpa [Vlq.valBE] using this

/-- the model's decoder inverts the model's encoder -/
theorem decode_encode (n : Nat) (hn : n < 4294967296) : Vlq.decode (Vlq.encode n) = some n := by
  unfold Vlq.decode Vlq.encode
  have hq : n / 128 < 128 ^ 5 := by
    rw [Nat.div_lt_iff_lt_mul (by decide)]; omega
  obtain ⟨hv, hd⟩ := Vlq.tailLE_val 5 (n / 128) hq
  simp only [List.reverse_cons]
  have := decodeGo_digits (Vlq.tailLE 5 (n / 128)).reverse (n % 128) 0 none
    (by intro d hd'; exact hd d (by simpa using hd')) (by omega) (by simp only [Option.getD_none]; rw [hv]; omega)
  rw [this]
  simp only [Option.getD_none, hv]
  congr 1; omega

/-- **decode ∘ encode on the translated source**: for every `uint32`, `utils.VlqDecode(utils.VlqEncode(n))` — both
    functions as they stand in `internal/utils/utils.go` — runs without a panic, within the loop fuel, and returns `n`. -/
theorem code_VlqDecode_VlqEncode (n : Nat) (hn : n < 4294967296) :
    (utils.VlqEncode n >>= utils.VlqDecode) = .ok n := by
  rw [code_VlqEncode n hn]
  show utils.VlqDecode (Vlq.encode n) = .ok n
  have hq4 : n / 128 < 128 ^ 4 := by
    rw [Nat.div_lt_iff_lt_mul (by decide)]; omega
  have hq : n / 128 < 128 ^ 5 := by
    rw [Nat.div_lt_iff_lt_mul (by decide)]; omega
  obtain ⟨_, hd⟩ := Vlq.tailLE_val 5 (n / 128) hq
  have hlen : (Vlq.encode n).length ≤ 5 := by
    have := tail_len 5 4 (n / 128) hq4
    simp [Vlq.encode]; omega
  have hb : ∀ b ∈ Vlq.encode n, b < 256 := by
    intro b hb
    simp only [Vlq.encode, List.mem_reverse, List.mem_cons] at hb
    rcases hb with rfl | hb
    · omega
    · exact (hd b hb).2
  rw [code_VlqDecode _ hlen hb, expect, decode_encode n hn]

example : (utils.VlqEncode 0x0FFFFFFF >>= utils.VlqDecode) = .ok 0x0FFFFFFF := code_VlqDecode_VlqEncode _ (by decide)
end Midi.C03
