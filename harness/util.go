package main

import (
	"encoding/hex"
	"fmt"
	"strings"
)

// hx is the protocol's hex form: upper case, "-" for empty.
func hx(b []byte) string {
	if len(b) == 0 {
		return "-"
	}
	return strings.ToUpper(hex.EncodeToString(b))
}

func unhx(s string) []byte {
	if s == "-" {
		return nil
	}
	b, err := hex.DecodeString(s)
	if err != nil {
		panic("bad hex in op: " + s)
	}
	return b
}

func short(s string) string {
	if len(s) > 300 {
		return s[:300] + "…"
	}
	return s
}

// specialTexts: byte strings that text "clean-ups" (TrimSpace, BOM stripping, NUL trimming, UTF-8 validation, case or
// newline normalisation, printf-style formatting) would alter. Used whole, as prefix and as suffix of a plain text.
var specialTexts = [][]byte{
	{0xEF, 0xBB, 0xBF}, {0xEF, 0xBB}, {0xFE, 0xFF}, {0xFF, 0xFE}, {0x00}, {0x00, 0x00}, {' '}, {' ', ' '}, {'\t'}, {'\n'}, {'\r', '\n'}, {'\r'},
	{0xC2, 0xA0}, {0xE2, 0x80, 0x8B}, {0xE2, 0x80, 0xA8}, {0xC3}, {0xFF}, {0x80}, {0xC0, 0x80}, {0xED, 0xA0, 0x80}, {0xF4, 0x90, 0x80, 0x80},
	{'%', 's'}, {'%', 'd'}, {'%', '%'}, {'%'}, {'\\'}, {'\\', 'n'}, {'"'}, {'\''}, {0x7F}, {0x1B}, {0x85}, {'A'}, {'a'}, {0xC3, 0x84}, {0xC3, 0xA4},
}

// specialTextVariants returns every special string alone, before and after "Piano", and around it.
func specialTextVariants() [][]byte {
	var out [][]byte
	for _, s := range specialTexts {
		out = append(out, append([]byte{}, s...))
		out = append(out, append(append([]byte{}, s...), "Piano"...))
		out = append(out, append([]byte("Piano"), s...))
		out = append(out, append(append(append([]byte{}, s...), "Pi no"...), s...))
	}
	return out
}

// ---- retention: a value a constructor returned must keep its bytes when the library is used again ----
// (a result that aliases a pooled or shared buffer reads fine at once and is overwritten by the next call)

type retainedVal struct {
	what string
	live []byte
	copy []byte
}

var retainRing [24]retainedVal
var retainN int

func retain(what string, b []byte) {
	if b == nil {
		return
	}
	retainRing[retainN%len(retainRing)] = retainedVal{what, b, append([]byte{}, b...)}
	retainN++
}

// retainCheck returns the first earlier result whose bytes have changed since it was returned ("" = none).
func retainCheck() string {
	for i := range retainRing {
		rv := &retainRing[i]
		if rv.live != nil && string(rv.live) != string(rv.copy) {
			msg := fmt.Sprintf("a value returned earlier by %s changed while the library was used again: was %s, now reads %s", rv.what, short(hx(rv.copy)), short(hx(rv.live)))
			rv.live = nil
			return msg
		}
	}
	return ""
}

// ---- isolation: a value the library returned belongs to the caller ----
// (a result that shares memory with a table, a pool or a package variable reads fine, and poisons later calls once the
// caller writes into it)

// scribbled runs again() after every byte of b has been inverted, restores b and returns what again() produced.
func scribbled(b []byte, again func() []byte) []byte {
	for i := range b {
		b[i] ^= 0xFF
	}
	out := append([]byte(nil), again()...) // copied before b is restored: the new result may be b itself
	for i := range b {
		b[i] ^= 0xFF
	}
	return out
}
