#!/usr/bin/env python3
"""usage: seed_keep.py <Cxx> <a|b> <demo-dir> <needs...>
Runs tools/seed_eval.sh, and if the change is confirmed (baseline passes, demo passes without / fails with)
stores it under /verif/seeded/<Cxx><a|b>/ (patch.diff, demo/, meta.json incl. what our check reported)."""
import json, os, re, shutil, subprocess, sys
pid, tag, demo = sys.argv[1], sys.argv[2], sys.argv[3]
needs = " ".join(sys.argv[4:])
SD = os.environ.get("SEED_DIR", "/tmp/seed")
store = os.environ.get("STORE_TAG", tag)
patch = f"{SD}/{pid}{tag}.patch"
out = subprocess.run(["/verif/tools/seed_eval.sh", pid, patch, demo], capture_output=True).stdout.decode("utf-8", "replace")
out = "\n".join(l for l in out.splitlines() if not l.startswith("WARNING conda"))
open(f"{SD}/{pid}{tag}.eval.txt", "w").write(out)
sec = re.split(r"^== ", out, flags=re.M)
get = lambda name: next((s for s in sec if s.startswith(name)), "")
without, base, with_, chk = get("demo WITHOUT"), get("build + baseline"), get("demo WITH the"), get("check ")
base_ok = "66/66" in base
def failed(s): return bool(re.search(r"run-exit=[1-9]|^FAIL|--- FAIL|exit status [1-9]", s, flags=re.M))
demo_ok = (not failed(without)) and failed(with_)
verdict = "VIOLATION" if "VIOLATION" in chk else ("OK(missed)" if re.search(r"^OK ", chk, flags=re.M) else "?")
nofail = "no-failing-input-found" in chk
print(f"{pid}{store}: baseline={'pass' if base_ok else 'FAIL'} demo={'confirmed' if demo_ok else 'NOT-confirmed'} check={verdict}{' (no-failing-input-found)' if nofail else ''}")
if base_ok and demo_ok:
    d = f"/verif/seeded/{pid}{store}"
    shutil.rmtree(d, ignore_errors=True)
    os.makedirs(d)
    shutil.copy(patch, d + "/patch.diff")
    shutil.copytree(demo, d + "/demo", ignore=shutil.ignore_patterns("go.sum"))
    meta = {"property": pid, "needs_to_manifest": needs,
            "confirmed": {"baseline_66_tests": "pass", "demo_without_change": "passes", "demo_with_change": "fails",
                          "how": "tools/seed_eval.sh %s %s %s (patch applied to a scratch worktree of /repo, /verif/tools/baseline.py, demo run both ways)" % (pid, patch, demo)},
            "check_result_quick": verdict + (" no-failing-input-found" if nofail else ""),
            "check_output": [l for l in chk.splitlines()[1:4]]}
    json.dump(meta, open(d + "/meta.json", "w"), indent=1)
