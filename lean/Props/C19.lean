import MidiModel.Midicat
namespace Midi.C19
end Midi.C19
