import MidiModel.Sysex
/-!
# Helper lemmas for C18: checksum arithmetic (int32 wrap-around, truncated remainder), list surgery,
  shape lemmas of `sysex.Parse`.
-/
namespace Midi.Sysex

/-! ## `int32` sum and the checksum arithmetic -/

theorem sumU32_spec (l : Bytes) (acc : Nat) :
    sumU32 l acc % 4294967296 = (acc + l.sum) % 4294967296 ∧ (acc < 4294967296 → sumU32 l acc < 4294967296) := by
  induction l generalizing acc with
  | nil => simp [sumU32]
  | cons b r ih =>
    simp only [sumU32, List.sum_cons]
    have h1 := ih ((acc + b) % 4294967296)
    constructor
    · omega
    · intro _; exact h1.2 (by omega)

/-- the signed sum is congruent to the mathematical sum modulo 2^32 and lies in the `int32` range -/
theorem sumI32_spec (l : Bytes) :
    (sumI32 l - ((l.sum : Nat) : Int)) % 4294967296 = 0 ∧ -2147483648 ≤ sumI32 l ∧ sumI32 l < 2147483648 := by
  have h := sumU32_spec l 0
  have h2 := h.2 (by omega)
  unfold sumI32 toI32
  split <;> omega

/-- whatever the length of the list (also when the `int32` sum wraps): the mathematical sum of the
    bytes plus the checksum is a multiple of 128, and the checksum is a byte -/
theorem cksumOf_spec (l : Bytes) : (l.sum + cksumOf l) % 128 = 0 ∧ cksumOf l < 256 := by
  have hs := (sumI32_spec l).1
  have hq := Int.tmod_add_mul_tdiv (sumI32 l) 128
  have hlt := Int.tmod_lt_of_pos (sumI32 l) (b := 128) (by decide)
  have hgt := Int.lt_tmod_of_pos (sumI32 l) (b := 128) (by decide)
  unfold cksumOf
  generalize Int.tmod (sumI32 l) 128 = r at *
  generalize Int.tdiv (sumI32 l) 128 = q at *
  simp only []
  split <;> omega

/-- without wrap-around (sum below 2^31, i.e. every message shorter than 8 MB) the checksum is 7-bit -/
theorem cksumOf_lt_128 (l : Bytes) (h : l.sum < 2147483648) : cksumOf l < 128 := by
  have hs := (sumI32_spec l).1
  have hr := (sumI32_spec l).2
  have hq := Int.tmod_add_mul_tdiv (sumI32 l) 128
  have hlt := Int.tmod_lt_of_pos (sumI32 l) (b := 128) (by decide)
  have hnn : 0 ≤ sumI32 l := by omega
  have hge := Int.tmod_nonneg (128 : Int) hnn
  unfold cksumOf
  generalize Int.tmod (sumI32 l) 128 = r at *
  simp only []
  split <;> omega

theorem cksumOf_ne (l l' : Bytes) (h : l.sum % 128 ≠ l'.sum % 128) : cksumOf l ≠ cksumOf l' := by
  have h1 := (cksumOf_spec l).1
  have h2 := (cksumOf_spec l').1
  intro heq
  rw [heq] at h1
  omega

/-! ## list surgery -/

theorem sum_set (l : Bytes) (j x b : Nat) (h : l[j]? = some b) : (l.set j x).sum + b = l.sum + x := by
  induction l generalizing j with
  | nil => simp at h
  | cons a r ih =>
    cases j with
    | zero => simp at h; subst h; simp [List.sum_cons]; omega
    | succ j =>
      simp only [List.getElem?_cons_succ] at h
      have := ih j h
      simp only [List.set_cons_succ, List.sum_cons]
      omega

theorem slice_mid (p bd t : Bytes) :
    slice (p ++ bd ++ t) p.length ((p ++ bd ++ t).length - t.length) = some bd := by
  unfold slice
  have hl : (p ++ bd ++ t).length - t.length = (p ++ bd).length := by
    simp only [List.length_append]; omega
  rw [hl, if_pos (by simp)]
  rw [List.take_left' rfl, List.drop_left' rfl]

theorem idx_last2 (pre : Bytes) (c e : Nat) :
    idx (pre ++ [c, e]) ((pre ++ [c, e]).length - 2) = some c ∧
    idx (pre ++ [c, e]) ((pre ++ [c, e]).length - 1) = some e := by
  simp [idx]

/-! ## shape of `Parse` on a framed message -/

/-- the three final tests of `Parse` -/
def verdict (c e : Nat) (s : Manufacturer) : PRes :=
  if c ≠ checksum s then .err .badSum else if e ≠ 0xF7 then .err .noEnd else .ok s

theorem parseTail_frame (pre : Bytes) (c e : Nat) (s : Manufacturer) :
    parseTail (pre ++ [c, e]) s = verdict c e s := by
  unfold parseTail
  rw [(idx_last2 pre c e).1, (idx_last2 pre c e).2]
  rfl

/-- data-set message with at least one payload byte -/
theorem parse_set (manu dev model a0 a1 a2 : Nat) (bd : Bytes) (c e : Nat) (hbd : bd ≠ []) :
    parse ([0xF0, manu, dev, model, 0x12, a0, a1, a2] ++ bd ++ [c, e]) =
      verdict c e { manu := manu, dev := dev, model := model, req := false, a0 := a0, a1 := a1, a2 := a2,
                    data := bd, n0 := 0, n1 := 0, n2 := 0 } := by
  have hlen : 1 ≤ bd.length := by
    cases bd with
    | nil => exact absurd rfl hbd
    | cons _ _ => simp
  have hsl := slice_mid [0xF0, manu, dev, model, 0x12, a0, a1, a2] bd [c, e]
  have hl2 : ([0xF0, manu, dev, model, 0x12, a0, a1, a2] ++ bd ++ [c, e]).length - [c, e].length
      = ([0xF0, manu, dev, model, 0x12, a0, a1, a2] ++ bd ++ [c, e]).length - 2 := rfl
  rw [hl2] at hsl
  have hpt := parseTail_frame ([0xF0, manu, dev, model, 0x12, a0, a1, a2] ++ bd) c e
  unfold parse
  rw [if_neg (by simp; omega)]
  simp only [List.length_cons, List.length_nil] at hsl
  simp only [idx, List.cons_append, List.getElem?_cons_zero, List.getElem?_cons_succ, List.nil_append] at *
  simp only [hsl, hpt]
  simp

/-- data-request message (13 bytes) -/
theorem parse_req (manu dev model a0 a1 a2 n0 n1 n2 c e : Nat) :
    parse [0xF0, manu, dev, model, 0x11, a0, a1, a2, n0, n1, n2, c, e] =
      verdict c e { manu := manu, dev := dev, model := model, req := true, a0 := a0, a1 := a1, a2 := a2,
                    data := [], n0 := n0, n1 := n1, n2 := n2 } := by
  simp [parse, idx, parseTail, verdict]

end Midi.Sysex
