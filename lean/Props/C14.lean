import Proofs.LiveInv
import Proofs.LiveProj
/-!
# C14 — the listen options filter exactly their message class and nothing else

Model: `MidiModel/Live.lean`. `listen c toks` = what the listener of `midi.ListenTo` on a `testdrv` port
receives under the options `c` (sysex, active sense, time code, sysex buffer size) for the token stream `toks`
(bytes and clock ticks: every chunking of every byte stream, not only well-formed ones), as a list of
(message, time stamp). `allOn c` switches the three options on and keeps the buffer size; `keepMsg c` judges the
delivered message by its first byte. The statement is an equation between lists, so content, order, time stamps
and multiplicities are preserved. Proof: simulation between the two decoder runs on the raw-frame level
(`raw_projection`), then through the re-typing of `midi.ListenTo` (`retype_keeps_class`).
Helper lemmas: `Proofs/LiveProj.lean`, `Proofs/LiveInv.lean`.
-/
namespace Midi.C14
open Midi Midi.Live

/-! ## the definitions used below, spelled out -/

theorem allOn_def (c : Cfg) : allOn c = ⟨true, c.buf, true, true⟩ := rfl

/-- `keepMsg c` drops exactly: active sense (first byte FE) if `c.as` is off, timing clock (F8) if `c.tc` is
    off, sysex (F0) if `c.sysex` is off -/
theorem keepMsg_def (c : Cfg) (h : Nat) (r : Bytes) (t : Int) :
    keepMsg c (some (h :: r), t) = !((h = 0xFE && !c.as) || (h = 0xF8 && !c.tc) || (h = 0xF0 && !c.sysex)) := rfl

/-! ## raw frames: the decoder's control state does not depend on the options -/

/-- From any state satisfying the decoder invariant: the frames that pass the option filter under `c` are the
    frames of the all-on run that pass the same filter (with sysex off the decoder assembles nothing, the all-on
    run's sysex frames start with F0 and are filtered; everything else is identical frame by frame). -/
theorem raw_projection (c : Cfg) (s : St) (toks : List Tok) (hi : Inv (allOn c) s) :
    (feed c s toks).2.filter (keep c) = (feed (allOn c) s toks).2.filter (keep c) :=
  frames_projection c toks s hi

/-- `retype` never moves a frame the reader can produce into another class: it keeps the first byte … -/
theorem retype_first_byte (c : Cfg) (f : Frame) (hw : WfFrame c f) (m : Option Bytes) (hr : retype f.1 = some m) :
    ∃ bs, m = some bs ∧ bs.head? = f.1.head? := by
  rcases retype_wf c f hw with ⟨_, hn⟩ | ⟨_, bs, hbs, _, hh⟩
  · rw [hn] at hr; cases hr
  · rw [hbs] at hr; exact ⟨bs, (Option.some.inj hr).symm, hh⟩

/-- … so the filter on the raw frame (in the driver) and the filter on the delivered message agree -/
theorem retype_keeps_class (c c' : Cfg) (f : Frame) (hw : WfFrame c' f) (m : Option Bytes)
    (hr : retype f.1 = some m) : keepMsg c (m, f.2) = keep c f :=
  keepMsg_retype c c' f hw m hr

/-! ## the property -/

/-- For every configuration and every token stream: the listener receives exactly what it would receive with all
    options on, minus the messages of the classes whose option is off. -/
theorem filter_projection (c : Cfg) (toks : List Tok) :
    listen c toks = (listen (allOn c) toks).filter (keepMsg c) :=
  listenFrames_projection c toks init (init_inv (allOn c))

/-- the same when listening starts in the middle of anything (any decoder state satisfying the invariant) -/
theorem filter_projection_from (c : Cfg) (s : St) (toks : List Tok) (hi : Inv (allOn c) s) :
    listenFrames c (feed c s toks).2 = (listenFrames (allOn c) (feed (allOn c) s toks).2).filter (keepMsg c) :=
  listenFrames_projection c toks s hi

/-! ## corollaries named by the property -/

/-- order is preserved: what is received is a subsequence of the all-on run -/
theorem order_preserved (c : Cfg) (toks : List Tok) : (listen c toks).Sublist (listen (allOn c) toks) := by
  rw [filter_projection]; exact List.filter_sublist

/-- messages of enabled classes are unchanged: restricted to any set of messages the options let through, the
    two runs deliver the same list (content, order, time stamps, multiplicity) -/
theorem enabled_unchanged (c : Cfg) (toks : List Tok) (p : Option Bytes × Int → Bool)
    (hp : ∀ m, p m = true → keepMsg c m = true) :
    (listen c toks).filter p = (listen (allOn c) toks).filter p := by
  rw [filter_projection, List.filter_filter]
  apply List.filter_congr
  intro m _
  cases h : p m with
  | false => rfl
  | true => simp [hp m h]

/-- nothing else is lost -/
theorem nothing_else_lost (c : Cfg) (toks : List Tok) :
    ∀ m ∈ listen (allOn c) toks, keepMsg c m = true → m ∈ listen c toks := by
  intro m hm hk
  rw [filter_projection]; exact List.mem_filter.mpr ⟨hm, hk⟩

/-- no message of a disabled class gets through, and nothing is invented -/
theorem disabled_removed (c : Cfg) (toks : List Tok) :
    ∀ m ∈ listen c toks, keepMsg c m = true ∧ m ∈ listen (allOn c) toks := by
  intro m hm
  rw [filter_projection] at hm
  exact ⟨(List.mem_filter.mp hm).2, (List.mem_filter.mp hm).1⟩

/-- two option sets (same buffer size) deliver the same list of the messages both let through: switching an
    option does not disturb running status, the message after a filtered one, or any other class -/
theorem options_independent (c c' : Cfg) (toks : List Tok) (hb : c.buf = c'.buf) :
    (listen c toks).filter (fun m => keepMsg c m && keepMsg c' m) =
    (listen c' toks).filter (fun m => keepMsg c m && keepMsg c' m) := by
  have ha : allOn c = allOn c' := by simp [allOn, hb]
  rw [enabled_unchanged c toks _ (fun m h => by simp at h; exact h.1),
      enabled_unchanged c' toks _ (fun m h => by simp at h; exact h.2), ha]

/-! ## non-vacuity (evaluated by the kernel) -/

def bytes (l : List Nat) : List Tok := l.map .byte

/-- note-on, clock inside running status, active sense, a sysex with a clock inside, a lone F7, program change;
    three chunks at 0, 5, 12 ms -/
def sample : List Tok :=
  .tick 0 :: bytes [0x90, 0x3C, 0xF8, 0x40, 0xFE, 0x3E] ++ .tick 5 :: bytes [0x41, 0xF0, 0x01, 0xF8, 0x02] ++
  .tick 7 :: bytes [0xF7, 0xF7, 0xC1, 0x05, 0xFE]

example : listen ⟨true, 0, true, true⟩ sample =
    [(some [0xF8], 0), (some [0x90, 0x3C, 0x40], 0), (some [0xFE], 0), (some [0x90, 0x3E, 0x41], 5),
     (some [0xF8], 5), (some [0xF0, 1, 2, 0xF7], 5), (some [0xC1, 5], 12), (some [0xFE], 12)] := by decide
-- sysex and clock off
example : listen ⟨false, 0, true, false⟩ sample =
    [(some [0x90, 0x3C, 0x40], 0), (some [0xFE], 0), (some [0x90, 0x3E, 0x41], 5), (some [0xC1, 5], 12),
     (some [0xFE], 12)] := by decide
-- everything off: the filter really drops something, and really keeps something
example : listen ⟨false, 0, false, false⟩ sample =
    [(some [0x90, 0x3C, 0x40], 0), (some [0x90, 0x3E, 0x41], 5), (some [0xC1, 5], 12)] := by decide
example : keepMsg ⟨false, 0, false, false⟩ (some [0xF0, 1, 2, 0xF7], 5) = false ∧
    keepMsg ⟨false, 0, false, false⟩ (some [0x90, 0x3E, 0x41], 5) = true := by decide
-- a state in the middle of a sysex satisfies the hypothesis of `raw_projection` / `filter_projection_from`
example : Inv (allOn ⟨false, 8, false, false⟩) (feed (allOn ⟨false, 8, false, false⟩) init (bytes [0xF0, 1, 2])).1 :=
  (feed_inv _ _ init (init_inv _)).1
example : WfFrame ⟨true, 8, true, true⟩ ([0xC1, 5, 0], 12) ∧ retype [0xC1, 5, 0] = some (some [0xC1, 5]) := by
  refine ⟨Or.inr (Or.inl ⟨0xC1, 5, 0, rfl, by omega, by omega, Or.inl (by omega)⟩), by decide⟩

end Midi.C14
