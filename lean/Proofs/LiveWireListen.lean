import Proofs.LiveWireItem
/-!
# From raw reader frames to what the listener of `midi.ListenTo` receives (all listen options on)
-/
namespace Midi.LiveWire
open Midi.Live

/-- all listen options on (`UseSysEx`, `UseActiveSense`, `UseTimeCode`); any buffer size -/
def AllOn (c : Cfg) : Prop := c.sysex = true ∧ c.as = true ∧ c.tc = true

theorem delivered_append (a b : List Stamped) : delivered (a ++ b) = delivered a ++ delivered b := by
  simp [delivered]

theorem listen_gap (c : Cfg) (hc : AllOn c) (g : Gap) (hg : gapOk g = true) :
    ∀ t : Int, listenFrames c (gapMsgs t g) = delivered (gapMsgs t g) := by
  induction g with
  | nil => intro t; rfl
  | cons x g ih =>
    intro t
    cases x with
    | byte b =>
      simp only [gapOk, Bool.and_eq_true, decide_eq_true_eq] at hg
      simp only [gapMsgs]
      rw [listenFrames_cons c _ _ [b] (keep_allOn c hc.1 hc.2.1 hc.2.2 _) (retype_rt b hg.1), ih hg.2]
      rfl
    | tick d =>
      simp only [gapOk] at hg
      simp only [gapMsgs]
      exact ih hg _

theorem listen_body (c : Cfg) (hc : AllOn c) (body : Body) (hb : bodyOk body = true) :
    ∀ t : Int, listenFrames c (bodyMsgs t body) = delivered (bodyMsgs t body) := by
  induction body with
  | nil => intro t; rfl
  | cons p r ih =>
    obtain ⟨g, d⟩ := p
    intro t
    obtain ⟨hg, _, hr⟩ := bodyOk_cons hb
    simp only [bodyMsgs]
    rw [listenFrames_append, delivered_append, listen_gap c hc g hg, ih hr]

/-- `retype` of a reader frame is the message itself, without the padding zeros -/
theorem retype_frame_chan (st : Nat) (body : Body) (h1 : 0x80 ≤ st) (h2 : st ≤ 0xEF)
    (hlen : body.length = chanLen st) (hb : bodyOk body = true) :
    retype (pad3 (st :: bodyData body)) = some (some (st :: bodyData body)) := by
  have hcl : chanLen st = 1 ∨ chanLen st = 2 := by unfold chanLen; split <;> simp
  rcases hcl with hl | hl
  · rw [hl] at hlen
    match body, hlen, hb with
    | [(g1, d1)], _, hb =>
      obtain ⟨_, hd1, _⟩ := bodyOk_cons hb
      exact retype_chan1 st d1 h1 h2 hl hd1
  · rw [hl] at hlen
    match body, hlen, hb with
    | [(g1, d1), (g2, d2)], _, hb =>
      obtain ⟨_, hd1, hb2⟩ := bodyOk_cons hb
      obtain ⟨_, hd2, _⟩ := bodyOk_cons hb2
      exact retype_chan2 st d1 d2 h1 h2 hl hd1 hd2

theorem retype_frame_sysc (st : Nat) (body : Body) (hl : syscLen st = some body.length) (hb : bodyOk body = true) :
    retype (pad3 (st :: bodyData body)) = some (some (st :: bodyData body)) := by
  rcases syscLen_cases hl with ⟨hst, hn⟩ | ⟨hst, hn⟩ | ⟨hst, hn⟩
  · match body, hn, hb with
    | [(g1, d1)], _, hb =>
      obtain ⟨_, hd1, _⟩ := bodyOk_cons hb
      exact retype_sysc1 st d1 hst hd1
  · subst hst
    match body, hn, hb with
    | [(g1, d1), (g2, d2)], _, hb =>
      obtain ⟨_, hd1, hb2⟩ := bodyOk_cons hb
      obtain ⟨_, hd2, _⟩ := bodyOk_cons hb2
      exact retype_spp d1 d2 hd1 hd2
  · subst hst
    match body, hn with
    | [], _ => exact retype_tune

/-- the raw frames of a legal item reach the listener as the item's messages -/
theorem listen_item (c : Cfg) (hc : AllOn c) (run : Nat) (t : Int) (it : Item) (hok : it.ok c.bufSize run = true) :
    listenFrames c (it.raw t) = delivered (it.msgs t) := by
  have hk := keep_allOn c hc.1 hc.2.1 hc.2.2
  cases it with
  | rt b =>
    simp only [Item.ok, decide_eq_true_eq] at hok
    simp only [Item.raw, Item.msgs]
    rw [listenFrames_cons c _ _ [b] (hk _) (retype_rt b hok)]
    rfl
  | tick d => rfl
  | chan st e body =>
    simp only [Item.ok, Bool.and_eq_true, decide_eq_true_eq] at hok
    obtain ⟨⟨⟨⟨h1, h2⟩, _⟩, hlen⟩, hb⟩ := hok
    simp only [Item.raw, Item.msgs]
    rw [listenFrames_append, delivered_append, listen_body c hc body hb,
      listenFrames_cons c _ _ _ (hk _) (retype_frame_chan st body h1 h2 hlen hb)]
    rfl
  | sysc st body =>
    simp only [Item.ok, Bool.and_eq_true, decide_eq_true_eq] at hok
    obtain ⟨hl, hb⟩ := hok
    simp only [Item.raw, Item.msgs]
    rw [listenFrames_append, delivered_append, listen_body c hc body hb,
      listenFrames_cons c _ _ _ (hk _) (retype_frame_sysc st body hl hb)]
    rfl
  | sysex body last =>
    simp only [Item.ok, Bool.and_eq_true, decide_eq_true_eq] at hok
    obtain ⟨⟨hb, hg⟩, _⟩ := hok
    simp only [Item.raw, Item.msgs]
    rw [listenFrames_append, listenFrames_append, delivered_append, delivered_append, listen_body c hc body hb,
      listen_gap c hc last hg, listenFrames_cons c _ _ _ (hk _) (retype_sysex _)]
    rfl

theorem listen_items (c : Cfg) (hc : AllOn c) (items : List Item) :
    ∀ (run : Nat) (t : Int), wfFrom c.bufSize run items = true →
      listenFrames c (rawFrom t items) = delivered (expectedFrom t items) := by
  induction items with
  | nil => intro _ _ _; rfl
  | cons it r ih =>
    intro run t hwf
    simp only [wfFrom, Bool.and_eq_true] at hwf
    simp only [rawFrom, expectedFrom]
    rw [listenFrames_append, delivered_append, listen_item c hc run t it hwf.1, ih _ _ hwf.2]

end Midi.LiveWire
