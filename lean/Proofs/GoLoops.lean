import MidiModel.GoSem
/-!
# Translated general `for` loops (`tools/go2lean`: `for _ in [0:Go.loopFuel] do if ¬cond then break; body`)

A loop whose body is pure is `iter`: at most `fuel` steps while the condition holds. Once the condition fails more fuel
changes nothing (`iter_add_of_stop`), so a loop known to stop after `k ≤ fuel` steps can be computed with fuel `k`.
-/
namespace Go

/-- at most `fuel` steps of `step` while `c` holds -/
def iter {σ : Type} (c : σ → Prop) [DecidablePred c] (step : σ → σ) : Nat → σ → σ
  | 0, s => s
  | f + 1, s => if c s then iter c step f (step s) else s

theorem iter_stop {σ : Type} (c : σ → Prop) [DecidablePred c] (step : σ → σ) (f : Nat) (s : σ) (h : ¬ c s) : iter c step f s = s := by
  cases f <;> simp [iter, h]

theorem iter_add_of_stop {σ : Type} (c : σ → Prop) [DecidablePred c] (step : σ → σ) :
    ∀ (k g : Nat) (s : σ), ¬ c (iter c step k s) → iter c step (k + g) s = iter c step k s := by
  intro k
  induction k with
  | zero => intro g s h; simp only [iter] at h; simpa [iter] using iter_stop c step g s h
  | succ k ih =>
    intro g s h
    have : k + 1 + g = (k + g) + 1 := by omega
    rw [this]
    simp only [iter] at h ⊢
    by_cases hc : c s
    · simp only [hc, if_true] at h ⊢; exact ih g _ h
    · simp [hc]

theorem forIn_list_while {σ : Type} (c : σ → Prop) [DecidablePred c] (step : σ → σ) :
    ∀ (l : List Nat) (s : σ),
      (forIn l s (fun _ (st : σ) =>
          if ¬ c st then (pure (ForInStep.done st) : Except String (ForInStep σ))
          else pure (ForInStep.yield (step st)))) = (pure (iter c step l.length s) : Except String σ) := by
  intro l
  induction l with
  | nil => intro s; rfl
  | cons a r ih =>
    intro s
    rw [List.forIn_cons]
    by_cases hc : c s
    · simp only [hc, not_true_eq_false, if_false, List.length_cons, iter, if_true]
      exact ih (step s)
    · simp only [hc, not_false_eq_true, if_true, List.length_cons, iter, if_false]
      rfl

/-- the shape the translator emits, over the range `[0:fuel]` -/
theorem forIn_range_while {σ : Type} (c : σ → Prop) [DecidablePred c] (step : σ → σ) (fuel : Nat) (s : σ) :
    (forIn [:fuel] s (fun _ (st : σ) =>
        if ¬ c st then (pure (ForInStep.done st) : Except String (ForInStep σ))
        else pure (ForInStep.yield (step st)))) = (pure (iter c step fuel s) : Except String σ) := by
  rw [Std.Legacy.Range.forIn_eq_forIn_range']
  have := forIn_list_while c step (List.range' 0 fuel 1) s
  simpa [Std.Legacy.Range.size] using this

/-- the same with a body that may throw (index expressions) -/
def iterM {σ : Type} (c : σ → Prop) [DecidablePred c] (step : σ → Except String σ) : Nat → σ → Except String σ
  | 0, s => pure s
  | f + 1, s => if c s then step s >>= iterM c step f else pure s

theorem iterM_stop {σ : Type} (c : σ → Prop) [DecidablePred c] (step : σ → Except String σ) (f : Nat) (s : σ)
    (h : ¬ c s) : iterM c step f s = pure s := by
  cases f with
  | zero => rfl
  | succ f => simp only [iterM, h, if_false]

theorem iterM_add {σ : Type} (c : σ → Prop) [DecidablePred c] (step : σ → Except String σ) (k f : Nat) :
    ∀ s : σ, iterM c step (k + f) s = iterM c step k s >>= iterM c step f := by
  induction k with
  | zero => intro s; simp only [Nat.zero_add, iterM]; rfl
  | succ k ih =>
    intro s
    rw [show k + 1 + f = (k + f) + 1 by omega]
    simp only [iterM]
    by_cases hc : c s
    · simp only [hc, if_true]
      cases step s with
      | error e => rfl
      | ok s' => exact ih s'
    · simp only [hc, if_false]
      exact (iterM_stop c step f s hc).symm

theorem forIn_list_whileM {σ : Type} (c : σ → Prop) [DecidablePred c] (step : σ → Except String σ) :
    ∀ (l : List Nat) (s : σ),
      (forIn l s (fun _ (st : σ) =>
          if ¬ c st then (pure (ForInStep.done st) : Except String (ForInStep σ))
          else ForInStep.yield <$> step st)) = iterM c step l.length s := by
  intro l
  induction l with
  | nil => intro s; rfl
  | cons a r ih =>
    intro s
    rw [List.forIn_cons]
    by_cases hc : c s
    · simp only [hc, not_true_eq_false, if_false, List.length_cons, iterM, if_true]
      cases hs : step s with
      | error e => rfl
      | ok s' => exact ih s'
    · simp only [hc, not_false_eq_true, if_true, List.length_cons, iterM, if_false]
      rfl

theorem forIn_range_whileM {σ : Type} (c : σ → Prop) [DecidablePred c] (step : σ → Except String σ) (fuel : Nat) (s : σ) :
    (forIn [:fuel] s (fun _ (st : σ) =>
        if ¬ c st then (pure (ForInStep.done st) : Except String (ForInStep σ))
        else ForInStep.yield <$> step st)) = iterM c step fuel s := by
  rw [Std.Legacy.Range.forIn_eq_forIn_range']
  have := forIn_list_whileM c step (List.range' 0 fuel 1) s
  simpa [Std.Legacy.Range.size] using this

end Go
