/-! The state shape of the packages at the tree the models were validated against (tools/stateshape ... expected);
    regenerate with tools/mkstateshape.sh after every `fix:` commit. -/
namespace Midi.StateShapeExpected

def root : List String := [
  "func AddTypeName uses typeNames",
  "func Interval.String uses intervalNames",
  "func Type.String uses typeNames",
  "func getRealtimeType uses rtMessages",
  "func getSysCommonType uses syscommMessages",
  "struct channelMessage { status uint8; channel uint8; twoBytes bool; data [2]byte }",
  "struct listeningOptions { TimeCode bool; ActiveSense bool; SysEx bool; SysExBufferSize uint32; OnError func(error) }",
  "var ControlChangeName : map[uint8]string",
  "var ErrListenStopped : error",
  "var ErrPortClosed : error",
  "var intervalNames : map[Interval]string",
  "var rtMessages : map[byte]Type",
  "var syscommMessages : map[byte]Type",
  "var typeNames : map[Type]string"
]

def smf : List String := [
  "func *Track.Close uses EOT",
  "func *reader.Read uses ErrMissing",
  "func *reader.parseHeaderData uses errUnsupportedSMFFormat",
  "func *reader.read uses ErrFinished",
  "func *reader.readMThd uses errExpectedMthd",
  "func Key.String uses keyStrings",
  "func ReadFrom uses ErrFinished, ErrMissing",
  "func Track.IsClosed uses EOT",
  "func getMetaType uses metaMessages",
  "func init uses keyStrings",
  "func init uses keyStrings",
  "func init uses keyStrings",
  "func init uses keyStrings",
  "func init uses keyStrings",
  "func init uses keyStrings",
  "func init uses keyStrings",
  "func init uses keyStrings",
  "func init uses keyStrings",
  "func init uses keyStrings",
  "func init uses keyStrings",
  "func init uses keyStrings",
  "func init uses keyStrings",
  "func init uses keyStrings",
  "func init uses keyStrings",
  "func init uses keyStrings",
  "func init uses keyStrings",
  "func init uses keyStrings",
  "func init uses keyStrings",
  "func init uses keyStrings",
  "func init uses keyStrings",
  "func init uses keyStrings",
  "func init uses keyStrings",
  "func init uses keyStrings",
  "func init uses keyStrings",
  "func init uses keyStrings",
  "func init uses msgTypeString",
  "struct Event { Delta uint32; Message smf.Message }",
  "struct Key { Key uint8; Num uint8; IsMajor bool; IsFlat bool }",
  "struct SMF { NoRunningStatus bool; Logger smf.Logger; TimeFormat smf.TimeFormat; Tracks []smf.Track; format uint16; numTracks uint16; tempoChanges smf.TempoChanges; tempoChangesFinished bool; finished bool }",
  "struct TempoChange { AbsTicks int64; AbsTimeMicroSec int64; BPM float64 }",
  "struct TimeCode { FramesPerSecond uint8; SubFrames uint8 }",
  "struct TrackEvent { Event smf.Event; TrackNo int; AbsTicks int64; AbsMicroSeconds int64 }",
  "struct TracksReader { smf *smf.SMF; tracks map[int]bool; filter []Type; err error }",
  "struct chunk { typ []byte; data []byte }",
  "struct playEvent { absTime int64; sleep time.Duration; data []byte; out drivers.Out; trackNo int }",
  "struct readConfig { Logger smf.Logger }",
  "struct reader { SMF *smf.SMF; Logger smf.Logger; input io.Reader; isDone bool; expectChunk bool; expectedChunkLength uint32; runningStatus internal/runningstatus.Reader; processedTracks int32; deltatime uint32; headerIsRead bool; error error }",
  "struct wrWrapper { size int64; wr io.Writer }",
  "struct writer { SMF *smf.SMF; currentChunk smf.chunk; output *smf.wrWrapper; headerWritten bool; tracksProcessed uint16; deltatime uint32; absPos uint64; error error; runningWriter internal/runningstatus.SMFWriter }",
  "struct writerLogger { wr io.Writer }",
  "var EOT : smf.Message",
  "var ErrFinished : error",
  "var ErrMissing : error",
  "var errBadSizeChunk : error",
  "var errExpectedMthd : error",
  "var errInterruptedByCallback : error",
  "var errUnexpectedEOF : error",
  "var errUnsupportedSMFFormat : error",
  "var keyStrings : map[smf.Key]string",
  "var metaMessages : map[byte]Type",
  "var msgTypeString : map[Type]string"
]

def internal_utils : List String := [
  "func ReadVarLength uses ErrUnexpectedEOF",
  "func ReadVarLengthData uses ErrUnexpectedEOF",
  "var ErrUnexpectedEOF : error"
]

def internal_runningstatus : List String := [
  "struct liveWriter { output io.Writer; status byte }",
  "struct livereader { reader internal/runningstatus.reader }",
  "struct reader { status byte }",
  "struct smfreader { reader internal/runningstatus.reader }",
  "struct smfwriter { status byte }"
]

def drivers : List String := [
  "func Get uses REGISTRY, firstDriver",
  "func Register uses REGISTRY, firstDriver",
  "struct ListenConfig { TimeCode bool; ActiveSense bool; SysEx bool; SysExBufferSize uint32; OnErr func(error) }",
  "struct Reader { sysexBf []byte; sysexlen int; ts_ms int32; sysexTS int32; state drivers.readerState; statusByte uint8; issetBf bool; bf byte; typ uint8; SysExBufferSize uint32; OnMsg func([]byte, int32); HandleSysex bool; OnErr func(error) }",
  "var ErrListenStopped : error",
  "var ErrPortClosed : error",
  "var REGISTRY : map[string]drivers.Driver",
  "var firstDriver : string"
]

def drivers_testdrv : List String := [
  "func *out.Send uses drivers.ErrPortClosed",
  "struct Driver { in *drivers/testdrv.in; out *drivers/testdrv.out; name string; last time.Time; now time.Time; stopListening bool; rd *drivers.Reader }",
  "struct in { number int; name string; isOpen bool; Driver *drivers/testdrv.Driver }",
  "struct out { number int; name string; isOpen bool; Driver *drivers/testdrv.Driver }"
]

def drivers_midicat : List String := [
]

def drivers_midicatdrv : List String := [
  "func *in.Listen uses drivers.ErrPortClosed",
  "func *out.Send uses drivers.ErrPortClosed",
  "func barkTo uses maxMidicatVersion, midicatDownloadURL, minMidicatVersion",
  "func checkMIDICAT uses maxMidicatVersion, minMidicatVersion",
  "struct Driver { opened []drivers.Port; RWMutex sync.RWMutex }",
  "struct in { number int; RWMutex sync.RWMutex; driver *drivers/midicatdrv.Driver; name string; shouldStopListening chan bool; didStopListening chan bool; shouldKill chan bool; wasKilled chan bool; hasProc bool; listener func(data []byte, deltamillisecs int32) }",
  "struct out { number int; RWMutex sync.RWMutex; driver *drivers/midicatdrv.Driver; name string; wr *io.PipeWriter; rd *io.PipeReader; cmd *os/exec.Cmd }",
  "var maxMidicatVersion : drivers/internal/version.Version",
  "var midicatDownloadURL : string",
  "var minMidicatVersion : drivers/internal/version.Version"
]

def sysex : List String := [
  "func ManufacturerID.String uses manuIDNames",
  "func init uses GMReset",
  "struct Manufacturer { ManufacturerID sysex.ManufacturerID; DeviceID byte; ModelID byte; InfoRequest bool; Address [3]byte; SendingData []byte; NumReqBytes [3]byte }",
  "struct NonRealtime { Channel byte; SubID1 byte; SubID2 byte }",
  "struct Realtime { Channel byte; SubID1 byte; SubID2 byte }",
  "var GMReset : sysex.Manufacturer",
  "var manuIDNames : map[sysex.ManufacturerID]string"
]

def mmc : List String := [
  "struct ArmTrack {  }",
  "struct GoTo { DeviceID byte; Hour byte; Minute byte; Second byte; Frame byte; SubFrame byte }",
  "struct Identity { Channel byte }",
  "struct Message { DeviceID byte; Command mmc.Command; IsResponse bool; Data []byte }"
]

def sequencer : List String := [
  "struct Bar { Number uint; TimeSig [2]uint8; Events sequencer.Events; Key *smf.Key; AbsTicks int64 }",
  "struct Event { TrackNo int; Pos uint8; Duration uint8; Message smf.Message; absTicks int64 }",
  "struct Song { Title string; Composer string; TrackNames []string; Ticks smf.MetricTicks; lastTick int64; bars sequencer.Bars }",
  "struct smfimport { song *sequencer.Song; SMF smf.SMF }"
]

end Midi.StateShapeExpected
