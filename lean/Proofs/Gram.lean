import MidiModel.SmfGrammar
import Proofs.VlqPad
import Proofs.SmfFile
/-! The reader model decodes every valid grammar tree to its meaning (C02). -/
namespace Midi.Gram
open Midi.Vlq Midi.Smf

theorem readVlq_g (v : GVlq) (hv : v.Valid) (rest : Bytes) : readVlq (v.bytes ++ rest) = .ok (v.value, rest) := by
  have := read_padded v.pad v.value (by have := hv.1; omega) rest
  rw [List.append_assoc] at this
  simp [readVlq, GVlq.bytes, this]

theorem finishChan_one' (δ s d1 : Nat) (rest : Bytes) (h : oneData s = true) :
    finishChan δ s d1 rest = ⟨δ, [s, d1], s, rest⟩ := by
  simp [oneData] at h
  simp [finishChan, h]

theorem finishChan_two' (δ s d1 d2 : Nat) (rest : Bytes) (h : oneData s = false) :
    finishChan δ s d1 (d2 :: rest) = ⟨δ, [s, d1, d2], s, rest⟩ := by
  simp [oneData] at h
  simp [finishChan, h]

/-- one grammar event is decoded to its meaning, from any reader status that makes its elision legal -/
theorem readEvent_g (rr : Nat) (e : GEvent) (rest : Bytes) (hd : e.delta.Valid) (hv : e.ev.Valid)
    (hel : match e.ev with | .chan s _ _ true => rr = s | _ => True) :
    readEvent rr (e.bytes ++ rest) = .ok ⟨e.delta.value, e.ev.msg, e.ev.statusAfter, rest⟩ := by
  obtain ⟨δ, ev⟩ := e
  unfold readEvent
  simp only [GEvent.bytes, List.append_assoc, readVlq_g δ hd]
  cases ev with
  | metaEv t len data =>
    obtain ⟨_, _, hl, hlen⟩ := hv
    simp only [GEv.bytes, List.append_assoc, List.cons_append, List.nil_append]
    simp [readByte, readVlq_g len hl, hlen, readN_append, GEv.msg, GEv.statusAfter, bind, Except.bind, pure, Except.pure]
  | sysex l len data =>
    obtain ⟨hl0, hl, hlen⟩ := hv
    simp only [GEv.bytes, List.append_assoc, List.cons_append]
    rcases hl0 with rfl | rfl <;>
      simp [readByte, readVlq_g len hl, hlen, readN_append, GEv.msg, GEv.statusAfter, bind, Except.bind, pure, Except.pure]
  | chan s d1 d2 elide =>
    obtain ⟨h1, h2, h3, h4⟩ := hv
    have hsFF : s ≠ 0xFF := by omega
    have hsF0 : ¬ (s = 0xF0 ∨ s = 0xF7) := by omega
    have hdFF : d1 ≠ 0xFF := by omega
    have hdF0 : ¬ (d1 = 0xF0 ∨ d1 = 0xF7) := by omega
    have hc : isChanStatus s = true := by simp [isChanStatus]; omega
    have hdc : isChanStatus d1 = false := by simp [isChanStatus]; omega
    cases elide with
    | true =>
      simp only at hel
      subst hel
      have hs0 : rr ≠ 0 := by omega
      cases d2 with
      | none =>
        simp only at h4
        simp [GEv.bytes, readByte, bind, Except.bind, pure, Except.pure, hdFF, hdF0, hdc, hs0, GEv.msg, GEv.statusAfter,
          finishChan_one' _ _ _ _ h4]
      | some d =>
        obtain ⟨h5, h6⟩ := h4
        simp [GEv.bytes, readByte, bind, Except.bind, pure, Except.pure, hdFF, hdF0, hdc, hs0, GEv.msg, GEv.statusAfter,
          finishChan_two' _ _ _ _ _ h5]
    | false =>
      cases d2 with
      | none =>
        simp only at h4
        simp [GEv.bytes, readByte, bind, Except.bind, pure, Except.pure, hsFF, hsF0, hc, GEv.msg, GEv.statusAfter,
          finishChan_one' _ _ _ _ h4]
      | some d =>
        obtain ⟨h5, h6⟩ := h4
        simp [GEv.bytes, readByte, bind, Except.bind, pure, Except.pure, hsFF, hsF0, hc, GEv.msg, GEv.statusAfter,
          finishChan_two' _ _ _ _ _ h5]

def eotBytes (δ : GVlq) (pad : Nat) : Bytes := δ.bytes ++ ([0xFF, 0x2F] ++ (List.replicate pad 0x80 ++ [0x00]))

theorem readEvent_eot (rr : Nat) (δ : GVlq) (pad : Nat) (hd : δ.Valid) (rest : Bytes) :
    readEvent rr (eotBytes δ pad ++ rest) = .ok ⟨δ.value, EOT, 0, rest⟩ := by
  unfold readEvent eotBytes
  have hz : readVlq (List.replicate pad 0x80 ++ [0x00] ++ rest) = .ok (0, rest) := by
    have := read_padded pad 0 (by omega) rest
    have e0 : encode 0 = [0] := by simp [encode, tailLE]
    rw [e0] at this
    simp only [readVlq, this]
  simp only [List.append_assoc, readVlq_g δ hd]
  simp only [List.append_assoc, List.cons_append, List.nil_append] at hz
  simp only [List.cons_append, List.nil_append, readByte, bind, Except.bind, pure, Except.pure, if_true, hz]
  simp [readN, EOT, encode, tailLE]

theorem msg_not_eot (ev : GEv) (hv : ev.Valid) : isEOTMsg ev.msg = false ∧ (ev.msg == EOT) = false := by
  have h1 : isEOTMsg ev.msg = false := by
    cases ev with
    | chan s d1 d2 el =>
      obtain ⟨h1, h2, _, _⟩ := hv
      have : s ≠ 255 := by omega
      cases d2 <;> simp [GEv.msg, isEOTMsg, this]
    | metaEv t len data => obtain ⟨_, ht, _, _⟩ := hv; simp [GEv.msg, isEOTMsg, ht]
    | sysex l len data =>
      obtain ⟨hl, _, _⟩ := hv
      rcases hl with rfl | rfl <;> cases data <;> simp [GEv.msg, isEOTMsg]
  refine ⟨h1, ?_⟩
  have h2 : isEOTMsg EOT = true := by simp [EOT, isEOTMsg]
  cases hb : (ev.msg == EOT) with
  | false => rfl
  | true =>
    have : ev.msg = EOT := by simpa using hb
    rw [this] at h1; rw [h1] at h2; cases h2

def evMeaning (e : GEvent) : Event := ⟨e.delta.value, e.ev.msg⟩

/-- a whole grammar track -/
theorem readLoop_gtrack (evs : List GEvent) (δe : GVlq) (pad n : Nat) (A B : List Track) (rest : Bytes)
    (hδ : δe.Valid) (hv : ∀ e ∈ evs, e.delta.Valid ∧ e.ev.Valid) :
    ∀ (pre : Track) (rr fuel : Nat), pre.isClosed = false → elideOK rr evs → evs.length < fuel →
    readLoop fuel ⟨n, A.length + 1, false, rr, false, A ++ pre :: B⟩
        ((evs.map GEvent.bytes).flatten ++ (eotBytes δe pad ++ rest))
      = readLoop (fuel - (evs.length + 1)) ⟨n, A.length + 1, !(A.length + 1 == n), 0, (A.length + 1 == n),
          A ++ (pre ++ evs.map (fun e => (⟨e.delta.value, e.ev.msg⟩ : Event)) ++ [⟨δe.value, EOT⟩]) :: B⟩ rest := by
  induction evs with
  | nil =>
    intro pre rr fuel hpre _ hf
    cases fuel with
    | zero => omega
    | succ f =>
      have hev := readEvent_eot rr δe pad hδ rest
      have := readLoop_eot f n rr A B pre _ _ hpre hev (by simp [EOT, isEOTMsg])
      simpa using this
  | cons e evs ih =>
    intro pre rr fuel hpre hel hf
    obtain ⟨hd, hvv⟩ := hv e (by simp)
    obtain ⟨hel1, hel2⟩ := hel
    cases fuel with
    | zero => omega
    | succ f =>
      have hev := readEvent_g rr e ((evs.map GEvent.bytes).flatten ++ (eotBytes δe pad ++ rest)) hd hvv hel1
      have hne := msg_not_eot e.ev hvv
      have hstep := readLoop_event f n rr A B pre _ _ hpre hev hne.1
      have hpre' : Track.isClosed (pre ++ [⟨e.delta.value, e.ev.msg⟩]) = false := by
        rw [isClosed_snoc]; exact hne.2
      have hnext := ih (fun x hx => hv x (by simp [hx])) (pre ++ [⟨e.delta.value, e.ev.msg⟩]) e.ev.statusAfter f hpre' hel2
        (by simp at hf; omega)
      simp only [List.map_cons, List.flatten_cons, List.append_assoc] at hstep hnext ⊢
      rw [hstep, hnext]
      simp [Nat.add_sub_add_right]

/-! ### chunks -/

theorem readN4' (d rest : Bytes) (h : d.length = 4) : readN 4 (d ++ rest) = .ok (d, rest) := by
  have := readN_append d rest
  rw [h] at this; exact this

theorem be32_len (n : Nat) : (be32 n).length = 4 := by simp [be32]

theorem be32_dec' (n : Nat) (h : n < 4294967296) :
    n / 16777216 % 256 * 16777216 + n / 65536 % 256 * 65536 + n / 256 % 256 * 256 + n % 256 = n := by omega

/-- alien chunks in front of a track chunk are skipped -/
theorem chunkLoop_aliens (as : List Alien) (hv : ∀ a ∈ as, a.Valid) (k L : Nat) (rest : Bytes) :
    ∀ fuel, as.length < fuel →
    chunkLoop fuel k ((as.map Alien.bytes).flatten ++ (MTrk ++ be32 L ++ rest)) = .ok (k + 1, rest) := by
  induction as with
  | nil =>
    intro fuel hf
    cases fuel with
    | zero => omega
    | succ f =>
      simp only [List.map_nil, List.flatten_nil, List.nil_append, List.append_assoc, chunkLoop,
        readN4' MTrk _ rfl, readN4' (be32 L) _ (be32_len _), bind, Except.bind, pure, Except.pure, if_true]
  | cons a as ih =>
    intro fuel hf
    obtain ⟨h4, hne, hlen⟩ := hv a (by simp)
    cases fuel with
    | zero => omega
    | succ f =>
      have ih' := ih (fun x hx => hv x (by simp [hx])) f (by simp at hf; omega)
      have hdrop : ∀ X : Bytes, (a.data ++ X).drop a.data.length = X := by intro X; simp
      have hlt : ∀ X : Bytes, ¬ ((a.data ++ X).length < a.data.length) := by intro X; simp
      simp only [List.map_cons, List.flatten_cons, Alien.bytes, chunk, List.append_assoc, chunkLoop,
        readN4' a.typ _ h4, readN4' (be32 a.data.length) _ (be32_len _), bind, Except.bind, pure, Except.pure,
        hne, if_false]
      simp only [be32, lenOf4, be32_dec' _ hlen, hlt, hdrop, if_false]
      simpa [List.append_assoc, be32] using ih'

theorem readLoop_gchunk (f n k rr L : Nat) (T : List Track) (as : List Alien) (hv : ∀ a ∈ as, a.Valid) (bs : Bytes) :
    readLoop (f+1) ⟨n, k, true, rr, false, T⟩ ((as.map Alien.bytes).flatten ++ (MTrk ++ be32 L ++ bs))
      = readLoop (f+1) ⟨n, k + 1, false, rr, false, T⟩ bs := by
  have hc := chunkLoop_aliens as hv k L bs
    (((as.map Alien.bytes).flatten ++ (MTrk ++ be32 L ++ bs)).length + 1)
    (by
      have : as.length ≤ ((as.map Alien.bytes).flatten).length := by
        clear hv
        induction as with
        | nil => simp
        | cons a as ih =>
          simp only [List.map_cons, List.flatten_cons, List.length_append, List.length_cons, Alien.bytes, chunk, be32]
          omega
      simp only [List.length_append]; omega)
  simp only [readLoop, hc]
  simp

def gevCount (gs : List (List Alien × GTrack)) : Nat := (gs.map (fun g => g.2.events.length + 1)).sum

theorem groupBytes_eq (g : List Alien × GTrack) :
    groupBytes g = (g.1.map Alien.bytes).flatten ++ (MTrk ++ be32 g.2.body.length ++
      ((g.2.events.map GEvent.bytes).flatten ++ eotBytes g.2.eotDelta g.2.eotLenPad)) := by
  simp [groupBytes, chunk, GTrack.body, eotBytes]

theorem readLoop_groups (tail : Bytes) :
    ∀ (gs : List (List Alien × GTrack)) (done : List Track) (fuel n : Nat), gs ≠ [] →
    (∀ x ∈ gs, (∀ a ∈ x.1, a.Valid) ∧ x.2.Valid) → gevCount gs < fuel → n = done.length + gs.length →
    readLoop fuel ⟨n, done.length, true, 0, false, done ++ List.replicate gs.length []⟩
        ((gs.map groupBytes).flatten ++ tail)
      = (⟨n, n, false, 0, true, done ++ gs.map (fun x => x.2.meaning)⟩, .finished) := by
  intro gs
  induction gs with
  | nil => intro _ _ _ h; exact absurd rfl h
  | cons g gs ih =>
    intro done fuel n _ hok hf hn
    obtain ⟨hal, hev, hel, hδ, _, _⟩ := hok g (by simp)
    have hok' : ∀ x ∈ gs, (∀ a ∈ x.1, a.Valid) ∧ x.2.Valid := fun x hx => hok x (by simp [hx])
    simp only [gevCount, List.map_cons, List.sum_cons] at hf
    cases fuel with
    | zero => omega
    | succ f =>
      have hc := readLoop_gchunk f n done.length 0 g.2.body.length (done ++ [] :: List.replicate gs.length []) g.1 hal
        ((g.2.events.map GEvent.bytes).flatten ++ (eotBytes g.2.eotDelta g.2.eotLenPad ++ ((gs.map groupBytes).flatten ++ tail)))
      have ht := readLoop_gtrack g.2.events g.2.eotDelta g.2.eotLenPad n done (List.replicate gs.length [])
        ((gs.map groupBytes).flatten ++ tail) hδ hev [] 0 (f+1) (by simp [Track.isClosed]) hel (by omega)
      have hbytes : (List.map groupBytes (g :: gs)).flatten ++ tail
          = (g.1.map Alien.bytes).flatten ++ (MTrk ++ be32 g.2.body.length ++
            ((g.2.events.map GEvent.bytes).flatten ++ (eotBytes g.2.eotDelta g.2.eotLenPad ++ ((gs.map groupBytes).flatten ++ tail)))) := by
        simp [groupBytes_eq, List.append_assoc]
      rw [hbytes, List.length_cons, List.replicate_succ, hc, ht]
      cases gs with
      | nil =>
        have e1 : (done.length + 1 == n) = true := by simp [hn]
        have e2 : f + 1 - (g.2.events.length + 1) = (f - (g.2.events.length + 1)) + 1 := by omega
        rw [e1, e2]
        simp [readLoop_done, GTrack.meaning, hn]
      | cons g2 gs2 =>
        have e1 : (done.length + 1 == n) = false := by simp [hn]
        have := ih (done ++ [g.2.meaning]) (f + 1 - (g.2.events.length + 1)) n (by simp) hok'
          (by simp only [gevCount] at hf ⊢; omega) (by simp [hn]; omega)
        have l1 : (done ++ [g.2.meaning]).length = done.length + 1 := by simp
        have l2 : ∀ R : List Track, (done ++ [g.2.meaning]) ++ R = done ++ g.2.meaning :: R := by simp
        rw [l1, l2, l2] at this
        rw [e1]
        simpa [GTrack.meaning] using this

theorem gevCount_le (gs : List (List Alien × GTrack)) (h : ∀ x ∈ gs, ∀ e ∈ x.2.events, 1 ≤ e.bytes.length) :
    gevCount gs ≤ ((gs.map groupBytes).flatten).length := by
  induction gs with
  | nil => simp [gevCount]
  | cons g gs ih =>
    have ih' := ih (fun x hx => h x (by simp [hx]))
    have hev : g.2.events.length ≤ ((g.2.events.map GEvent.bytes).flatten).length := by
      have hg := h g (by simp)
      generalize g.2.events = evs at hg
      induction evs with
      | nil => simp
      | cons e evs ihe =>
        have := hg e (by simp)
        have := ihe (fun x hx => hg x (by simp [hx]))
        simp only [List.map_cons, List.flatten_cons, List.length_append, List.length_cons]
        omega
    simp only [gevCount] at ih'
    simp only [gevCount, List.map_cons, List.sum_cons, List.flatten_cons, List.length_append, groupBytes_eq,
      MTrk, be32, List.length_cons, eotBytes]
    omega

theorem event_bytes_pos (e : GEvent) : 1 ≤ e.bytes.length := by
  have : 1 ≤ (encode e.delta.value).length := by simp [encode]
  simp only [GEvent.bytes, GVlq.bytes, List.length_append]
  omega

theorem parseDiv (tf : TimeFormat) (h : ValidDiv tf) :
    ∃ a b, divisionBytes tf = [a, b] ∧ parseTimeFormat a b = tf := by
  cases tf with
  | metric q =>
    obtain ⟨h1, h2⟩ := h
    refine ⟨q / 256 % 256, q % 256, rfl, ?_⟩
    have : q / 256 % 256 < 128 := by omega
    simp [parseTimeFormat, this, be16_dec q (by omega)]
  | smpte fps sub =>
    obtain ⟨h1, h2⟩ := h
    refine ⟨256 - fps, sub, rfl, ?_⟩
    have e3 : ¬ (256 - fps < 128) := by omega
    have e5 : 256 - (256 - fps) = fps := by omega
    simp [parseTimeFormat, e3, e5]

/-- C02 core: the reader model on the serialisation of a valid tree -/
theorem readFrom_serialize (g : GFile) (h : g.Valid) : readFrom (serialize g) = .ok (meaning g) := by
  obtain ⟨a, b, hab, hp⟩ := parseDiv g.tf h.div
  have hl := readLoop_groups ((g.trailer.map Alien.bytes).flatten) g.groups []
    (((g.groups.map groupBytes).flatten ++ (g.trailer.map Alien.bytes).flatten).length + 2) g.groups.length
    h.nonempty h.groups
    (by have := gevCount_le g.groups (fun x _ e _ => event_bytes_pos e); simp only [List.length_append]; omega) (by simp)
  simp only [List.length_nil, List.nil_append] at hl
  have e1 : g.format / 256 % 256 * 256 + g.format % 256 = g.format := be16_dec g.format (by have := h.fmt; omega)
  have e2 : g.groups.length / 256 % 256 * 256 + g.groups.length % 256 = g.groups.length := be16_dec _ h.count
  have e3 : ¬ (2 < g.format) := by have := h.fmt; omega
  simp only [serialize, MThd, be32, be16, hab, List.cons_append, List.nil_append,
    List.append_assoc, readFrom, readN4, readN2, val16, tfOf2, e1, e2, hp, ne_eq, not_true_eq_false, if_false, gt_iff_lt, e3, hl]
  simp [RState.missing, meaning]

end Midi.Gram
