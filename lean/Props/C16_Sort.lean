import MidiModel.Generated.SortKeysGo
/-!
# C16, tie to the source: the comparison `ConvertToSMF1` hands to `sort.Sort(metaTrack)` — `TrackEvents.Less`
(`smf/track.go`) as translated by `tools/go2lean` on every run — orders by the absolute tick alone, strictly. The events
are collected in non-decreasing tick order, so under this key the sequence is already sorted and events on one tick are
unordered in both directions (`…_ties`); that Go's `sort.Sort` leaves such a sequence as it is belongs to the trusted
base (DESIGN §4). The model (`Convert.lean`) uses exactly this key.
-/
namespace Midi.C16
open Midi Midi.Go

theorem code_TrackEvents_Less (p : List smf.TrackEvent) (a b : Nat) (ha : a < p.length) (hb : b < p.length) :
    smf.TrackEvents.Less p (a : Int) (b : Int) = .ok (decide (p[a].AbsTicks < p[b].AbsTicks)) := by
  unfold smf.TrackEvents.Less
  simp [Go.idx, bind, Except.bind, pure, Except.pure, List.getElem?_eq_getElem ha, List.getElem?_eq_getElem hb]

/-- equal keys are unordered in both directions -/
theorem code_TrackEvents_Less_ties (p : List smf.TrackEvent) (a b : Nat) (ha : a < p.length) (hb : b < p.length)
    (h : p[a].AbsTicks = p[b].AbsTicks) :
    smf.TrackEvents.Less p (a : Int) (b : Int) = .ok false ∧ smf.TrackEvents.Less p (b : Int) (a : Int) = .ok false := by
  rw [code_TrackEvents_Less p a b ha hb, code_TrackEvents_Less p b a hb ha, h]
  simp

/-- an index out of range is a panic -/
theorem code_TrackEvents_Less_oob (p : List smf.TrackEvent) (a b : Nat) (ha : p.length ≤ a) :
    ∃ e, smf.TrackEvents.Less p (a : Int) (b : Int) = .error e := by
  unfold smf.TrackEvents.Less
  have : p[a]? = none := List.getElem?_eq_none ha
  simp [Go.idx, bind, Except.bind, this, throw, throwThe, MonadExceptOf.throw]

theorem code_TrackEvents_Len (p : List smf.TrackEvent) : smf.TrackEvents.Len p = (p.length : Int) := rfl

end Midi.C16
