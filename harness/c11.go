package main

import (
	"bytes"
	"fmt"
	"math/big"
	"sort"
	"strconv"
	"strings"

	"gitlab.com/gomidi/midi/v2"
	"gitlab.com/gomidi/midi/v2/smf"
)

// C11: tick-to-time conversion follows the tempo map exactly.
//
// Ops (all numbers decimal):
//
//	tempo.file q=<res> trk=<delta>:<u|n|e>,…|… ts=<tick>,…   a file built through the public API (u = tempo event with
//	      that microseconds-per-quarter value, n = other event, e = end of track), written, read back, queried with
//	      SMF.TimeAt at the ticks ts and iterated with ReadTracksFrom(...).Do
//	tempo.dur  q=<res> u=<u> d=<d>,…     MetricTicks(q).Duration(6e7/u, d).Microseconds() for d < 2^32 and, for every d, TimeAt(d)
//	      of a file whose only tempo event (u) sits at tick 0, i.e. duration64 on int64 tick counts  (DurOK support)
//	tempo.inv  q=<res> u=<u> n=<n>,…     Ticks(bpm, Duration(bpm, n)) == n
//
// Oracle (judged in Go with math/big, independent of the model): |q·TimeAt(t) − Σ u·ticks| ≤ q·(segments+1),
// TimeAt non-decreasing, Do hands out exactly TimeAt of the running delta sum; DurOK of the float code; the inverse.
// Correspondence: the Lean model's exact numerator / segment count must equal the Go oracle's, and the model's
// reference time (rational roundDiv arithmetic) must equal the implementation's float result except where the exact
// nanosecond value is within float error of a rounding tie (the model says where: `sl`, `near`), there ±1 per tie.

const c11Horizon = 1 << 40 // microseconds: a single segment never lasts longer (DurOK is validated up to here)

type c11Ev struct {
	delta uint32
	kind  byte // 'u' tempo, 'n' other, 'e' end of track
	u     uint32
}

type c11File struct {
	q      int
	tracks [][]c11Ev
	ts     []int64
}

func (f *c11File) String() string {
	var tr []string
	for _, t := range f.tracks {
		var evs []string
		for _, e := range t {
			switch e.kind {
			case 'u':
				evs = append(evs, fmt.Sprintf("%d:%d", e.delta, e.u))
			default:
				evs = append(evs, fmt.Sprintf("%d:%c", e.delta, e.kind))
			}
		}
		tr = append(tr, strings.Join(evs, ","))
	}
	var ts []string
	for _, t := range f.ts {
		ts = append(ts, strconv.FormatInt(t, 10))
	}
	tss := strings.Join(ts, ",")
	if tss == "" {
		tss = "-"
	}
	return fmt.Sprintf("tempo.file q=%d trk=%s ts=%s", f.q, strings.Join(tr, "|"), tss)
}

func parseC11File(op string) (*c11File, bool) {
	fl := fields(op)
	f := &c11File{}
	var err error
	if f.q, err = strconv.Atoi(fl["q"]); err != nil {
		return nil, false
	}
	for _, t := range strings.Split(fl["trk"], "|") {
		var evs []c11Ev
		for _, e := range strings.Split(t, ",") {
			p := strings.Split(e, ":")
			if len(p) != 2 {
				return nil, false
			}
			d, err := strconv.ParseUint(p[0], 10, 32)
			if err != nil {
				return nil, false
			}
			switch p[1] {
			case "n", "e":
				evs = append(evs, c11Ev{uint32(d), p[1][0], 0})
			default:
				u, err := strconv.ParseUint(p[1], 10, 24)
				if err != nil {
					return nil, false
				}
				evs = append(evs, c11Ev{uint32(d), 'u', uint32(u)})
			}
		}
		f.tracks = append(f.tracks, evs)
	}
	if fl["ts"] != "-" {
		for _, t := range strings.Split(fl["ts"], ",") {
			v, err := strconv.ParseInt(t, 10, 64)
			if err != nil {
				return nil, false
			}
			f.ts = append(f.ts, v)
		}
	}
	return f, true
}

func tempoMsg(u uint32) []byte { return []byte{0xFF, 0x51, 0x03, byte(u >> 16), byte(u >> 8), byte(u)} }

// build writes the file through the public API and returns its bytes.
func (f *c11File) build() ([]byte, error) {
	s := smf.New()
	s.TimeFormat = smf.MetricTicks(f.q)
	for i, t := range f.tracks {
		var tr smf.Track
		for j, e := range t {
			switch e.kind {
			case 'u':
				tr.Add(e.delta, tempoMsg(e.u))
			case 'n':
				if (i+j)%2 == 0 {
					tr.Add(e.delta, []byte{0x90 | byte(i&15), byte(60 + j%12), 100})
				} else {
					tr.Add(e.delta, []byte{0xFF, 0x01, 0x01, 0x41})
				}
			case 'e':
				tr.Close(e.delta)
			}
		}
		if err := s.Add(tr); err != nil {
			return nil, err
		}
	}
	var w bytes.Buffer
	_, err := s.WriteTo(&w)
	return w.Bytes(), err
}

type tcEntry struct {
	tick int64
	u    int64
}

// tempoMap is the harness' own reading of the op: tempo events with absolute ticks, per track, in file order.
func (f *c11File) tempoMap() (m []tcEntry, tempoTracks int) {
	for _, t := range f.tracks {
		var abs int64
		has := false
		for _, e := range t {
			if e.kind == 'e' {
				break
			}
			abs += int64(e.delta)
			if e.kind == 'u' {
				m = append(m, tcEntry{abs, int64(e.u)})
				has = true
			}
		}
		if has {
			tempoTracks++
		}
	}
	return
}

// exactGo: numerator of the exact time (denominator q), the number of completed tempo segments, whether some tick
// difference on the way does not fit uint32 (`wrap`: judged like any other query since the repair of the uint32
// truncation, reported as a tag) and whether some segment lasts longer than the horizon up to which the float
// arithmetic is claimed to be accurate (`beyond`: not judged).
func exactGo(sorted []tcEntry, t int64, q int64) (num *big.Int, segs int, wrap, beyond bool) {
	num = new(big.Int)
	var last int64
	u := int64(500000)
	seg := func(d int64) {
		p := new(big.Int).Mul(big.NewInt(u), big.NewInt(d))
		num.Add(num, p)
		if d >= 1<<32 {
			wrap = true
		}
		if p.Cmp(new(big.Int).Mul(big.NewInt(q), big.NewInt(c11Horizon))) > 0 {
			beyond = true
		}
	}
	for _, e := range sorted {
		if e.tick >= t {
			break
		}
		if e.tick != last {
			seg(e.tick - last)
			segs++
			last = e.tick
		}
		u = e.u
	}
	seg(t - last)
	return
}

func absBig(x *big.Int) *big.Int { return new(big.Int).Abs(x) }

func effQ(q int) int64 {
	if q == 0 {
		return 960
	}
	return int64(q)
}

func splitNums(s string) []string {
	if s == "-" || s == "" {
		return nil
	}
	return strings.Split(s, ",")
}

func runC11File(c Case, m *Model) (v Verdict) {
	f, ok := parseC11File(c.Op)
	if !ok {
		v.Mismatch = append(v.Mismatch, "harness cannot parse the op")
		return
	}
	q := effQ(f.q)
	raw, tempoTracks := f.tempoMap()
	sorted := append([]tcEntry(nil), raw...)
	sort.SliceStable(sorted, func(a, b int) bool { return sorted[a].tick < sorted[b].tick })
	// the property speaks about files whose tempo events lie in one track; other files (only generated with pairwise
	// distinct ticks, where the sorted map is unique) are compared with the model but not judged
	judged := tempoTracks <= 1
	mf := fields(m.Ask(c.Op))
	if mf["r"] != "ok" {
		v.Mismatch = append(v.Mismatch, "model does not accept the op: "+short(fmt.Sprint(mf)))
		return
	}
	var data []byte
	var s *smf.SMF
	var err error
	times := make([]int64, len(f.ts))
	type doEv struct {
		track       int
		ticks, time int64
		typ         midi.Type
	}
	var does []doEv
	var doErr error
	var repeatBad string
	// the same iteration restricted to some message types (TracksReader.Only): must hand out the matching events of
	// the unrestricted iteration with the same ticks and times
	filters := [][]midi.Type{{smf.MetaTempoMsg}, {midi.NoteOnMsg}, {smf.MetaTextMsg, smf.MetaTempoMsg}, {midi.ChannelMsg}, {smf.MetaMsg}, {smf.MetaEndOfTrackMsg}}
	filtered := make([][]doEv, len(filters))
	if p := try(func() {
		data, err = f.build()
		if err != nil {
			return
		}
		s, err = smf.ReadFrom(bytes.NewReader(data))
		if err != nil {
			return
		}
		for i, t := range f.ts {
			times[i] = s.TimeAt(t)
		}
		// TimeAt is a function of the tick: asked again in the opposite order (and after the iterations below) it
		// answers the same
		for i := len(f.ts) - 1; i >= 0; i-- {
			if again := s.TimeAt(f.ts[i]); again != times[i] {
				repeatBad = fmt.Sprintf("TimeAt(%d) = %d when asked in ascending position, %d when asked again in the opposite order", f.ts[i], times[i], again)
			}
		}
		tr := smf.ReadTracksFrom(bytes.NewReader(data))
		tr.Do(func(te smf.TrackEvent) {
			does = append(does, doEv{te.TrackNo, te.AbsTicks, te.AbsMicroSeconds, te.Message.Type()})
		})
		doErr = tr.Error()
		// the same reader iterated a second time hands out the same
		var does2 []doEv
		tr.Do(func(te smf.TrackEvent) {
			does2 = append(does2, doEv{te.TrackNo, te.AbsTicks, te.AbsMicroSeconds, te.Message.Type()})
		})
		if len(does2) != len(does) {
			repeatBad = fmt.Sprintf("a second Do on the same TracksReader hands out %d events, the first %d", len(does2), len(does))
		} else {
			for i := range does {
				if does[i] != does2[i] {
					repeatBad = fmt.Sprintf("a second Do on the same TracksReader: event %d is %v, was %v", i, does2[i], does[i])
					break
				}
			}
		}
		for i, fl := range filters {
			i := i
			smf.ReadTracksFrom(bytes.NewReader(data)).Only(fl...).Do(func(te smf.TrackEvent) {
				filtered[i] = append(filtered[i], doEv{te.TrackNo, te.AbsTicks, te.AbsMicroSeconds, te.Message.Type()})
			})
		}
	}); p != "" {
		v.Oracle = append(v.Oracle, "panic while writing/reading/querying: "+p)
		return
	}
	if err != nil || doErr != nil {
		v.Oracle = append(v.Oracle, fmt.Sprintf("writing or reading the file failed: %v %v", err, doErr))
		return
	}
	if repeatBad != "" {
		v.Oracle = append(v.Oracle, repeatBad)
	}
	// the tempo changes the reader collected
	tcs := s.TempoChanges()
	var got []string
	for _, tc := range tcs {
		got = append(got, strconv.FormatInt(tc.AbsTicks, 10))
	}
	var want []string
	for _, e := range sorted {
		want = append(want, strconv.FormatInt(e.tick, 10))
	}
	if strings.Join(got, ",") != strings.Join(want, ",") {
		msg := "ticks of the collected tempo changes: expected " + short(strings.Join(want, ",")) + " got " + short(strings.Join(got, ","))
		if judged {
			v.Oracle = append(v.Oracle, msg)
		} else {
			v.Mismatch = append(v.Mismatch, msg)
		}
	}
	var wantMap []string
	for _, e := range sorted {
		wantMap = append(wantMap, fmt.Sprintf("%d:%d", e.tick, e.u))
	}
	wm := strings.Join(wantMap, ",")
	if wm == "" {
		wm = "-"
	}
	if mf["map"] != wm {
		v.Mismatch = append(v.Mismatch, "model's sorted tempo map differs from the harness' reading of the op: "+short(mf["map"])+" vs "+short(wm))
	}
	ref, ex, sg, sl := splitNums(mf["ref"]), splitNums(mf["ex"]), splitNums(mf["seg"]), splitNums(mf["sl"])
	if len(ref) != len(f.ts) || len(ex) != len(f.ts) || len(sg) != len(f.ts) || len(sl) != len(f.ts) {
		v.Mismatch = append(v.Mismatch, "model answer has the wrong number of entries")
		return
	}
	// per query: oracle against the exact integral, correspondence against the model
	type qres struct {
		t, impl int64
		in      bool
	}
	var qs []qres
	slackAt := map[int64]int64{}
	refAt := map[int64]int64{}
	bq := big.NewInt(q)
	anyWrap := false
	for i, t := range f.ts {
		num, segs, wrap, beyond := exactGo(sorted, t, q)
		in := !beyond
		if wrap {
			anyWrap = true
		}
		if beyond {
			v.Tags = append(v.Tags, "query-beyond-horizon(not-judged)")
		}
		impl := times[i]
		qs = append(qs, qres{t, impl, in})
		if in && judged {
			diff := absBig(new(big.Int).Sub(new(big.Int).Mul(bq, big.NewInt(impl)), num))
			bound := new(big.Int).Mul(bq, big.NewInt(int64(segs+1)))
			if diff.Cmp(bound) > 0 {
				v.Oracle = append(v.Oracle, fmt.Sprintf("TimeAt(%d)=%d µs but the exact integral is %s/%d µs: off by more than %d µs (segments+1)", t, impl, num, q, segs+1))
			}
		}
		if ex[i] != num.String() || sg[i] != strconv.Itoa(segs) {
			v.Mismatch = append(v.Mismatch, fmt.Sprintf("tick %d: model exact/segments %s/%s, harness %s/%d", t, ex[i], sg[i], num, segs))
		}
		r, _ := strconv.ParseInt(ref[i], 10, 64)
		k, _ := strconv.ParseInt(sl[i], 10, 64)
		slackAt[t], refAt[t] = k, r
		d := impl - r
		if d < 0 {
			d = -d
		}
		if d > k {
			v.Mismatch = append(v.Mismatch, fmt.Sprintf("TimeAt(%d): model %d (tie slack %d) implementation %d", t, r, k, impl))
		} else if d != 0 {
			v.Tags = append(v.Tags, "float-tie-seen")
		}
	}
	if anyWrap {
		v.Tags = append(v.Tags, "query-behind-gap>=2^32")
	}
	if judged {
		sort.SliceStable(qs, func(a, b int) bool { return qs[a].t < qs[b].t })
		for i := 1; i < len(qs); i++ {
			if qs[i].in && qs[i-1].in && qs[i].impl < qs[i-1].impl {
				v.Oracle = append(v.Oracle, fmt.Sprintf("TimeAt not monotone: TimeAt(%d)=%d > TimeAt(%d)=%d", qs[i-1].t, qs[i-1].impl, qs[i].t, qs[i].impl))
				break
			}
		}
	}
	// every finished tempo change carries the time TimeAt reports for its tick (true of the model by construction, not
	// demanded by the property: correspondence, not oracle)
	for _, tc := range tcs {
		if _, in := exactGoIn(sorted, tc.AbsTicks, q); in {
			if at := s.TimeAt(tc.AbsTicks); at != tc.AbsTimeMicroSec {
				v.Mismatch = append(v.Mismatch, fmt.Sprintf("tempo change at tick %d has AbsTimeMicroSec %d but TimeAt says %d", tc.AbsTicks, tc.AbsTimeMicroSec, at))
				break
			}
		}
	}
	// Do: absolute ticks are the running sums, times are TimeAt of them
	var wantDo []doEv
	for no, t := range f.tracks {
		var abs int64
		for _, e := range t {
			abs += int64(e.delta)
			wantDo = append(wantDo, doEv{no, abs, 0, 0})
		}
	}
	if len(does) != len(wantDo) {
		v.Oracle = append(v.Oracle, fmt.Sprintf("Do handed out %d events, the file has %d", len(does), len(wantDo)))
	} else {
		for i, d := range does {
			if d.track != wantDo[i].track || d.ticks != wantDo[i].ticks {
				v.Oracle = append(v.Oracle, fmt.Sprintf("Do event %d: track/tick %d/%d, expected %d/%d", i, d.track, d.ticks, wantDo[i].track, wantDo[i].ticks))
				break
			}
			if at := s.TimeAt(d.ticks); at != d.time {
				v.Oracle = append(v.Oracle, fmt.Sprintf("Do event %d at tick %d: AbsMicroSeconds %d but TimeAt(%d)=%d", i, d.ticks, d.time, d.ticks, at))
				break
			}
		}
		for i, fl := range filters {
			var want []doEv
			for _, d := range does {
				for _, t := range fl {
					if d.typ.Is(t) {
						want = append(want, d)
						break
					}
				}
			}
			if len(want) != len(filtered[i]) {
				v.Oracle = append(v.Oracle, fmt.Sprintf("Only(%v).Do handed out %d events, the unrestricted iteration has %d of these types", fl, len(filtered[i]), len(want)))
				break
			}
			bad := false
			for j := range want {
				if want[j] != filtered[i][j] {
					v.Oracle = append(v.Oracle, fmt.Sprintf("Only(%v).Do event %d: track/tick/time %d/%d/%d, the unrestricted iteration gives %d/%d/%d", fl, j,
						filtered[i][j].track, filtered[i][j].ticks, filtered[i][j].time, want[j].track, want[j].ticks, want[j].time))
					bad = true
					break
				}
			}
			if bad {
				break
			}
		}
		// model's Do times (same tolerance as TimeAt)
		var md []string
		for _, t := range strings.Split(mf["do"], "|") {
			md = append(md, splitNums(t)...)
		}
		if len(md) != len(does) {
			v.Mismatch = append(v.Mismatch, fmt.Sprintf("model's Do has %d events, implementation %d", len(md), len(does)))
		} else {
			for i, d := range does {
				p := strings.Split(md[i], ":")
				mt, _ := strconv.ParseInt(p[0], 10, 64)
				mtime, _ := strconv.ParseInt(p[1], 10, 64)
				k, known := slackAt[d.ticks]
				dd := d.time - mtime
				if dd < 0 {
					dd = -dd
				}
				if mt != d.ticks || (known && dd > k) || (known && refAt[d.ticks] != mtime) {
					v.Mismatch = append(v.Mismatch, fmt.Sprintf("Do event %d: model %s implementation %d:%d", i, md[i], d.ticks, d.time))
					break
				}
			}
		}
	}
	return
}

func exactGoIn(sorted []tcEntry, t int64, q int64) (*big.Int, bool) {
	n, _, _, beyond := exactGo(sorted, t, q)
	return n, !beyond
}

// bpmOf goes through the library's own decoding of the tempo meta message (BPM = 6e7/u as float64).
func bpmOf(u uint32) float64 {
	var bpm float64
	smf.Message(tempoMsg(u)).GetMetaTempo(&bpm)
	return bpm
}

func parseDurOp(op string) (q int, u uint32, xs []int64, ok bool) {
	fl := fields(op)
	var err error
	if q, err = strconv.Atoi(fl["q"]); err != nil {
		return
	}
	uu, err := strconv.ParseUint(fl["u"], 10, 24)
	if err != nil {
		return
	}
	u = uint32(uu)
	key := "d"
	if strings.HasPrefix(op, "tempo.inv") {
		key = "n"
	}
	for _, s := range splitNums(fl[key]) {
		x, err := strconv.ParseInt(s, 10, 63)
		if err != nil || x < 0 {
			return
		}
		xs = append(xs, x)
	}
	return q, u, xs, true
}

// DurOK of the float code (support for the hypothesis of the theorems, not a proof).
func runC11Dur(c Case, m *Model) (v Verdict) {
	q0, u, ds, ok := parseDurOp(c.Op)
	if !ok {
		v.Mismatch = append(v.Mismatch, "harness cannot parse the op")
		return
	}
	mf := fields(m.Ask(c.Op))
	us, near := splitNums(mf["us"]), splitNums(mf["near"])
	if mf["r"] != "ok" || len(us) != len(ds) || len(near) != len(ds) {
		v.Mismatch = append(v.Mismatch, "model does not accept the op: "+short(fmt.Sprint(mf)))
		return
	}
	q := effQ(q0)
	bpm := bpmOf(u)
	mt := smf.MetricTicks(q0)
	// duration64 (int64 tick counts) is reached through TimeAt of a file whose only tempo event sits at tick 0
	one := &c11File{q: q0, tracks: [][]c11Ev{{{0, 'u', u}, {0, 'e', 0}}}}
	var s1 *smf.SMF
	if p := try(func() {
		data, err := one.build()
		if err == nil {
			s1, err = smf.ReadFrom(bytes.NewReader(data))
		}
		if err != nil {
			s1 = nil
		}
	}); p != "" || s1 == nil {
		v.Oracle = append(v.Oracle, "cannot write/read the one-tempo file: "+p)
		return
	}
	type pt struct {
		d    int64
		impl int64
	}
	var pts []pt
	for i, d := range ds {
		impl := s1.TimeAt(d)
		if d < 1<<32 {
			if e := mt.Duration(bpm, uint32(d)).Microseconds(); e != impl {
				v.Mismatch = append(v.Mismatch, fmt.Sprintf("TimeAt(%d)=%d µs in a file with the single tempo u=%d at tick 0, but MetricTicks(%d).Duration gives %d µs", d, impl, u, q0, e))
			}
		} else {
			v.Tags = append(v.Tags, "dur-ticks>=2^32")
		}
		pts = append(pts, pt{d, impl})
		if d == 0 && impl != 0 {
			v.Oracle = append(v.Oracle, fmt.Sprintf("DurOK.zero: Duration(u=%d, 0 ticks) = %d µs", u, impl))
		}
		ud := new(big.Int).Mul(big.NewInt(int64(u)), big.NewInt(d))
		lim := new(big.Int).Mul(big.NewInt(q), big.NewInt(c11Horizon))
		if ud.Cmp(lim) <= 0 {
			diff := absBig(new(big.Int).Sub(new(big.Int).Mul(big.NewInt(q), big.NewInt(impl)), ud))
			if diff.Cmp(big.NewInt(q)) > 0 {
				v.Oracle = append(v.Oracle, fmt.Sprintf("DurOK.accuracy: MetricTicks(%d).Duration(u=%d, %d ticks) = %d µs, exact %s/%d µs: more than 1 µs off", q0, u, d, impl, ud, q))
			}
		} else {
			v.Tags = append(v.Tags, "dur-beyond-horizon")
		}
		r, _ := strconv.ParseInt(us[i], 10, 64)
		dd := impl - r
		if dd < 0 {
			dd = -dd
		}
		if dd > 1 || (dd == 1 && near[i] != "1") {
			v.Mismatch = append(v.Mismatch, fmt.Sprintf("Duration(q=%d,u=%d,d=%d): model %d (near tie: %s) implementation %d", q0, u, d, r, near[i], impl))
		} else if dd == 1 {
			v.Tags = append(v.Tags, "float-tie-seen")
		}
	}
	sort.SliceStable(pts, func(a, b int) bool { return pts[a].d < pts[b].d })
	for i := 1; i < len(pts); i++ {
		if pts[i].impl < pts[i-1].impl {
			v.Oracle = append(v.Oracle, fmt.Sprintf("DurOK.monotone: q=%d u=%d: %d ticks -> %d µs but %d ticks -> %d µs", q0, u, pts[i-1].d, pts[i-1].impl, pts[i].d, pts[i].impl))
			break
		}
	}
	return
}

// Ticks(bpm, Duration(bpm, n)) == n on the stated domain.
func runC11Inv(c Case, m *Model) (v Verdict) {
	q0, u, ns, ok := parseDurOp(c.Op)
	if !ok || u == 0 {
		v.Mismatch = append(v.Mismatch, "harness cannot parse the op")
		return
	}
	mf := fields(m.Ask(c.Op))
	mns, mtk := splitNums(mf["ns"]), splitNums(mf["ticks"])
	if mf["r"] != "ok" || len(mns) != len(ns) || len(mtk) != len(ns) {
		v.Mismatch = append(v.Mismatch, "model does not accept the op: "+short(fmt.Sprint(mf)))
		return
	}
	q := effQ(q0)
	bpm := bpmOf(u)
	mt := smf.MetricTicks(q0)
	rateOK := q < 10*int64(u) // tick rate below 10^7 per second
	for i, n64 := range ns {
		if n64 >= 1<<32 {
			v.Mismatch = append(v.Mismatch, "tick count outside uint32 in an inverse op")
			return
		}
		n := uint32(n64)
		d := mt.Duration(bpm, n)
		back := mt.Ticks(bpm, d)
		exact := new(big.Int).Mul(big.NewInt(1000*int64(u)), big.NewInt(int64(n))) // / q  nanoseconds
		inDom := rateOK && exact.Cmp(new(big.Int).Mul(big.NewInt(q), big.NewInt(1000*c11Horizon))) < 0
		if !inDom {
			v.Tags = append(v.Tags, "inv-outside-domain")
		}
		if inDom && back != n {
			v.Oracle = append(v.Oracle, fmt.Sprintf("MetricTicks(%d): Ticks(Duration(%d ticks at u=%d)=%d ns) = %d", q0, n, u, d.Nanoseconds(), back))
		}
		if inDom {
			// premise of ticks_dur_inverse with e1 = 499: the duration is within 0.999 ns of the exact value
			diff := absBig(new(big.Int).Sub(new(big.Int).Mul(big.NewInt(q), big.NewInt(d.Nanoseconds())), exact))
			if new(big.Int).Mul(diff, big.NewInt(1000)).Cmp(new(big.Int).Mul(big.NewInt(q), big.NewInt(999))) > 0 {
				v.Oracle = append(v.Oracle, fmt.Sprintf("error budget: MetricTicks(%d).Duration(u=%d, %d ticks) = %d ns, exact %s/%d ns: more than 0.999 ns off", q0, u, n, d.Nanoseconds(), exact, q))
			}
		}
		r, _ := strconv.ParseInt(mns[i], 10, 64)
		dd := d.Nanoseconds() - r
		if dd < 0 {
			dd = -dd
		}
		if inDom && dd > 1 {
			v.Mismatch = append(v.Mismatch, fmt.Sprintf("Duration(q=%d,u=%d,n=%d): model %d ns implementation %d ns", q0, u, n, r, d.Nanoseconds()))
		}
		if q < 1000*int64(u) && mtk[i] != strconv.FormatUint(uint64(n), 10) {
			v.Mismatch = append(v.Mismatch, fmt.Sprintf("model's reference inverse returns %s for %d ticks", mtk[i], n))
		}
	}
	return
}

// ---------- generators ----------

func genU(r *Rng) uint32 {
	switch r.Intn(12) {
	case 0:
		return uint32(r.Pick(1, 2, 3, 0xFFFFFF, 0xFFFFFE, 0x800000, 0x7FFFFF))
	case 1, 2:
		return uint32(r.Pick(500000, 250000, 1000000, 600000, 333333, 428571, 16777215, 1))
	case 3:
		return uint32(r.Range(1, 2000))
	case 4:
		return uint32(r.Range(0xFFFFFF-2000, 0xFFFFFF))
	default:
		return uint32(r.Range(1, 0xFFFFFF))
	}
}

func genQ(r *Rng) int {
	switch r.Intn(8) {
	case 0:
		return r.Pick(1, 2, 3, 32767, 32766, 16384)
	case 1, 2, 3:
		return r.Pick(24, 48, 96, 120, 192, 240, 384, 480, 960, 1920, 15360)
	default:
		return r.Range(1, 32767)
	}
}

// maxTicks64: the largest tick count whose exact duration at tempo u stays within `limit` microseconds
func maxTicks64(q int, u uint32, limit int64) int64 {
	if u == 0 {
		return 1 << 40
	}
	if q == 0 {
		q = 960
	}
	m := new(big.Int).Div(new(big.Int).Mul(big.NewInt(int64(q)), big.NewInt(limit)), big.NewInt(int64(u)))
	if m.Cmp(big.NewInt(1<<56)) > 0 {
		return 1 << 56
	}
	return m.Int64()
}

// maxTicks: the same, capped to what a delta time (uint32) can hold
func maxTicks(q int, u uint32, limit int64) int64 {
	m := maxTicks64(q, u, limit)
	if m > 1<<32-1 {
		return 1<<32 - 1
	}
	return m
}

func genGap(r *Rng, q int, u uint32, limit int64, allowZero bool) uint32 {
	mx := maxTicks(q, u, limit)
	var d int64
	switch r.Intn(10) {
	case 0:
		d = 0
	case 1:
		d = 1
	case 2:
		d = int64(q)
	case 3:
		d = int64(q) * int64(r.Range(1, 64))
	case 4:
		d = mx
	case 5:
		d = mx - int64(r.Intn(3))
	case 6:
		d = int64(r.Pick(127, 128, 16383, 16384, 2097151, 2097152, 268435455, 268435456))
	default:
		d = int64(r.U64() % uint64(mx+1))
		if r.Bool() {
			d = int64(r.U64() % uint64(int64(q)*16+1))
		}
	}
	if d > mx {
		d = mx
	}
	if d < 0 {
		d = 0
	}
	if d == 0 && !allowZero {
		d = 1
		if mx < 1 {
			d = 0
		}
	}
	return uint32(d)
}

func genC11File(r *Rng, tier string) (*c11File, []string) {
	var tags []string
	f := &c11File{q: genQ(r)}
	if r.Chance(1, 150) {
		f.q = 0 // MetricTicks(0): documented alias of 960
		tags = append(tags, "q=0(alias-of-960)")
	}
	k := 0
	switch r.Intn(10) {
	case 0:
		k = 0
	case 1:
		k = 1
	case 2, 3, 4:
		k = r.Range(2, 5)
	case 5, 6, 7:
		k = r.Range(6, 20)
	default:
		k = r.Range(13, 60)
		if tier == "thorough" && r.Chance(1, 10) {
			k = r.Range(60, 400)
		}
	}
	// per-segment limit: mostly musical, sometimes up to the multi-day horizon
	limit := int64(600e6) // 10 minutes
	switch r.Intn(6) {
	case 0:
		limit = c11Horizon
		tags = append(tags, "segments-up-to-12-days")
	case 1:
		limit = 86400e6
	}
	// one file in five has tick gaps of 2^32 and more between tempo changes / before queries (several maximal deltas
	// in a row): needs a resolution and tempi at which 2^33 ticks stay inside the horizon
	bigGap := r.Chance(1, 5) && f.q != 0
	if bigGap {
		f.q = r.Pick(32767, 32767, 15360, 24576, 30720, r.Range(8192, 32767))
		limit = c11Horizon
	}
	bigDone := false
	multi := r.Chance(1, 8) && k >= 2 && !bigGap
	firstAtZero := r.Bool()
	repProb := r.Pick(0, 0, 1, 3, 6)
	var tempoTr []c11Ev
	cur := uint32(500000)
	var abs int64
	used := map[int64]bool{}
	var allTicks []int64
	var lastTempoTick int64
	insertBig := func(force bool) {
		if !bigGap || !(force || r.Chance(1, 3)) {
			return
		}
		n := r.Range(1, 3)
		room := maxTicks64(f.q, cur, limit/2) - (abs - lastTempoTick)
		for j := 0; j < n && room > 1<<32; j++ {
			d := uint32(1<<32 - 1 - r.Pick(0, 0, 1, 2, 1000))
			tempoTr = append(tempoTr, c11Ev{d, 'n', 0})
			abs += int64(d)
			room -= int64(d)
			allTicks = append(allTicks, abs)
			bigDone = true
		}
	}
	for i := 0; i < k; i++ {
		insertBig(false)
		// optional ordinary events in between
		for r.Chance(1, 3) {
			d := genGap(r, f.q, cur, limit/4, true)
			tempoTr = append(tempoTr, c11Ev{d, 'n', 0})
			abs += int64(d)
			allTicks = append(allTicks, abs)
		}
		allowZero := !multi
		var d uint32
		if i == 0 {
			if firstAtZero && len(tempoTr) == 0 {
				d = 0
			} else {
				d = genGap(r, f.q, cur, limit/4, false)
			}
		} else if r.Chance(repProb, 10) && allowZero {
			d = 0
		} else {
			d = genGap(r, f.q, cur, limit/4, allowZero)
		}
		if multi && used[abs+int64(d)] {
			d++
		}
		abs += int64(d)
		used[abs] = true
		u := genU(r)
		if r.Chance(1, 60) {
			u = 0
		}
		if bigGap && r.Chance(2, 3) {
			u = uint32(r.Pick(1, 100, 20000, 250000, 500000, 1000000, r.Range(1, 2000000)))
		}
		tempoTr = append(tempoTr, c11Ev{d, 'u', u})
		allTicks = append(allTicks, abs)
		cur = u
		lastTempoTick = abs
	}
	insertBig(!bigDone)
	for r.Chance(1, 2) {
		d := genGap(r, f.q, cur, limit/4, true)
		tempoTr = append(tempoTr, c11Ev{d, 'n', 0})
		abs += int64(d)
		allTicks = append(allTicks, abs)
	}
	dEnd := genGap(r, f.q, cur, limit/4, true)
	tempoTr = append(tempoTr, c11Ev{dEnd, 'e', 0})
	allTicks = append(allTicks, abs+int64(dEnd))
	lastTick := abs
	if multi {
		// spread the tempo events over two tracks (ticks pairwise distinct: the sorted map is unique)
		var a, b []c11Ev
		var absA, absB, run int64
		okSplit := true
		for _, e := range tempoTr {
			run += int64(e.delta)
			toB := e.kind == 'u' && r.Bool()
			if e.kind == 'e' {
				b = append(b, c11Ev{0, 'e', 0})
			}
			if toB {
				okSplit = okSplit && run-absB < 1<<32
				b = append(b, c11Ev{uint32(run - absB), e.kind, e.u})
				absB = run
			} else {
				okSplit = okSplit && run-absA < 1<<32
				a = append(a, c11Ev{uint32(run - absA), e.kind, e.u})
				absA = run
			}
		}
		if okSplit {
			f.tracks = [][]c11Ev{a, b}
			tags = append(tags, "tempo-in-two-tracks(correspondence-only)")
		} else {
			f.tracks = [][]c11Ev{tempoTr}
		}
	} else {
		// tempo track first, last or alone; the other tracks carry ordinary events only
		other := func() []c11Ev {
			var t []c11Ev
			for i, n := 0, r.Range(0, 6); i < n; i++ {
				t = append(t, c11Ev{genGap(r, f.q, 500000, limit/4, true), 'n', 0})
			}
			return append(t, c11Ev{uint32(r.Pick(0, 0, 1, 96)), 'e', 0})
		}
		switch r.Intn(4) {
		case 0:
			f.tracks = [][]c11Ev{tempoTr, other()}
			tags = append(tags, "tempo-track-first-of-2")
		case 1:
			f.tracks = [][]c11Ev{other(), tempoTr}
			tags = append(tags, "tempo-track-last-of-2")
		default:
			f.tracks = [][]c11Ev{tempoTr}
		}
	}
	// query ticks: borders ±1 of every tempo change, all event ticks, 0/1, beyond the last change
	m, _ := f.tempoMap()
	seen := map[int64]bool{}
	add := func(t int64) {
		if t >= 0 && !seen[t] {
			seen[t] = true
			f.ts = append(f.ts, t)
		}
	}
	add(0)
	add(1)
	for _, e := range m {
		add(e.tick - 1)
		add(e.tick)
		add(e.tick + 1)
	}
	for _, tr := range f.tracks {
		var a int64
		for _, e := range tr {
			a += int64(e.delta)
			add(a)
		}
	}
	mxAfter := maxTicks64(f.q, cur, limit) - (lastTick - lastTempoTick)
	if mxAfter < 0 {
		mxAfter = 0
	}
	for i := 0; i < 6; i++ {
		add(lastTick + int64(r.U64()%uint64(mxAfter+1)))
	}
	add(lastTick + mxAfter)
	for _, o := range []int64{1<<32 - 1, 1 << 32, 1<<32 + 1, 1 << 33, 3<<32 + 7} {
		if o <= mxAfter+(lastTick-lastTempoTick) {
			add(lastTempoTick + o)
		}
	}
	add(lastTick + int64(f.q))
	for i := 0; i < 8 && lastTick > 0; i++ {
		add(int64(r.U64() % uint64(lastTick+1)))
	}
	if len(f.ts) > 400 {
		f.ts = f.ts[:400]
	}
	// tags
	switch {
	case k == 0:
		tags = append(tags, "no-tempo-event")
	case k == 1:
		tags = append(tags, "1-tempo-event")
	case k <= 5:
		tags = append(tags, "2..5-tempo-events")
	case k <= 12:
		tags = append(tags, "6..12-tempo-events")
	default:
		tags = append(tags, ">12-tempo-events")
	}
	rep, ext := false, false
	for i, e := range m {
		if i > 0 && m[i-1].tick == e.tick {
			rep = true
		}
		if e.u <= 3 || e.u >= 0xFFFFFE {
			ext = true
		}
	}
	if rep {
		tags = append(tags, "repeated-tick")
	}
	if ext {
		tags = append(tags, "u-extreme")
	}
	if len(m) > 0 && m[0].tick == 0 {
		tags = append(tags, "first-at-0")
	} else if len(m) > 0 {
		tags = append(tags, "first-after-0")
	}
	if f.q <= 3 || f.q >= 32766 {
		tags = append(tags, "q-extreme")
	}
	{
		srt := append([]tcEntry(nil), m...)
		sort.SliceStable(srt, func(a, b int) bool { return srt[a].tick < srt[b].tick })
		beyond32, gap32 := false, false
		for _, t := range f.ts {
			if t >= 1<<32 {
				beyond32 = true
			}
			if _, _, wrap, bey := exactGo(srt, t, effQ(f.q)); wrap && !bey {
				gap32 = true
			}
		}
		if beyond32 {
			tags = append(tags, "query-tick>=2^32")
		}
		if gap32 {
			tags = append(tags, "tick-gap>=2^32-judged")
		}
	}
	return f, tags
}

func genDurOp(r *Rng, n int) (string, []string) {
	q := genQ(r)
	if r.Chance(1, 200) {
		q = 0 // documented alias of 960
	}
	u := genU(r)
	if r.Chance(1, 100) {
		u = 0
	}
	mx := maxTicks(int(effQ(q)), u, c11Horizon)
	if r.Chance(1, 3) {
		mx = maxTicks64(int(effQ(q)), u, c11Horizon) // int64 tick counts (duration64 through TimeAt)
	}
	var ds []string
	seen := map[int64]bool{}
	add := func(d int64) {
		if d >= 0 && d <= mx && !seen[d] {
			seen[d] = true
			ds = append(ds, strconv.FormatInt(d, 10))
		}
	}
	add(0)
	add(1)
	add(mx)
	add(mx - 1)
	for len(ds) < n {
		var d int64
		switch r.Intn(8) {
		case 0:
			d = int64(effQ(q)) * int64(r.Range(1, 5000)) // whole quarters: exact microsecond values
		case 1:
			d = int64(1) << uint(r.Range(0, 40))
			d += int64(r.Range(-1, 1))
		case 2:
			d = int64(r.Range(0, 3000))
		case 3:
			// a tick count whose exact duration is just around a whole microsecond: d ≈ k·q/u
			if u > 0 {
				k := int64(r.U64() % uint64(c11Horizon))
				d = new(big.Int).Div(new(big.Int).Mul(big.NewInt(k), big.NewInt(effQ(q))), big.NewInt(int64(u))).Int64() + int64(r.Range(0, 1))
			}
		default:
			d = int64(r.U64() % uint64(mx+1))
		}
		before := len(ds)
		add(d)
		add(d + 1)
		if len(ds) == before && mx < int64(n) {
			break
		}
	}
	tags := []string{"durok-batch"}
	if u <= 3 || u >= 0xFFFFFE {
		tags = append(tags, "u-extreme")
	}
	return fmt.Sprintf("tempo.dur q=%d u=%d d=%s", q, u, strings.Join(ds, ",")), tags
}

func genInvOp(r *Rng, n int) (string, []string) {
	q := genQ(r)
	// tick rate below 10^7/s: q < 10·u
	u := genU(r)
	for int64(q) >= 10*int64(u) {
		if r.Bool() {
			u = uint32(r.Range(q/10+1, 0xFFFFFF))
		} else {
			u = uint32(q/10 + 1 + r.Intn(3))
		}
	}
	// durations below 2^40 µs
	mxb := new(big.Int).Div(new(big.Int).Mul(big.NewInt(int64(q)), big.NewInt(c11Horizon-1)), big.NewInt(int64(u)))
	mx := int64(1<<32 - 1)
	if mxb.Cmp(big.NewInt(mx)) < 0 {
		mx = mxb.Int64()
	}
	var ns []string
	seen := map[int64]bool{}
	add := func(d int64) {
		if d >= 0 && d <= mx && !seen[d] {
			seen[d] = true
			ns = append(ns, strconv.FormatInt(d, 10))
		}
	}
	add(0)
	add(1)
	add(mx)
	add(mx - 1)
	for i := 0; i < 4*n && len(ns) < n; i++ {
		switch r.Intn(4) {
		case 0:
			add(int64(r.Range(0, 5000)))
		case 1:
			add(int64(1)<<uint(r.Range(0, 32)) + int64(r.Range(-1, 1)))
		default:
			add(int64(r.U64() % uint64(mx+1)))
		}
	}
	return fmt.Sprintf("tempo.inv q=%d u=%d n=%s", q, u, strings.Join(ns, ",")), []string{"inverse-batch"}
}

func init() {
	register(&Prop{
		ID: "C11",
		Rule: "tempo.file: files built with smf.New/Track.Add (tempo meta bytes FF 51 03 uu uu uu, so every 24-bit u is hit exactly)/Close/Add, " +
			"written, read back, queried with TimeAt at 0, 1, every tempo tick ±1, every event tick and ticks beyond the last change, and iterated with " +
			"ReadTracksFrom.Do; 0..60 (thorough ..400) tempo events, repeated ticks, first event at/after tick 0, u in 0..0xFFFFFF biased to 1 and 0xFFFFFF, " +
			"resolutions 1..32767, segments up to 2^40 µs; non-trivial = at least one tempo event and one query behind it. " +
			"tempo.dur: DurOK of the float code on (q,u,d) batches; tempo.inv: the inverse on the stated domain. Distinct by op text",
		Gen: func(r *Rng, tier string, emit func(Case)) {
			nFiles, nDur, perDur, nInv, perInv := 1200, 2000, 50, 400, 25
			if tier == "thorough" {
				nFiles, nDur, perDur, nInv, perInv = 80000, 40000, 250, 10000, 100
			}
			for i := 0; i < nFiles; i++ {
				f, tags := genC11File(r, tier)
				m, _ := f.tempoMap()
				nt := false
				for _, t := range f.ts {
					if len(m) > 0 && t > m[0].tick {
						nt = true
					}
				}
				emit(Case{Op: f.String(), Tags: append(tags, "file"), NonTrivial: nt})
			}
			for i := 0; i < nDur; i++ {
				op, tags := genDurOp(r, perDur)
				emit(Case{Op: op, Tags: tags, NonTrivial: true})
			}
			for i := 0; i < nInv; i++ {
				op, tags := genInvOp(r, perInv)
				emit(Case{Op: op, Tags: tags, NonTrivial: true})
			}
		},
		Run: func(c Case, m *Model) Verdict {
			switch {
			case strings.HasPrefix(c.Op, "tempo.file"):
				return runC11File(c, m)
			case strings.HasPrefix(c.Op, "tempo.dur"):
				return runC11Dur(c, m)
			case strings.HasPrefix(c.Op, "tempo.inv"):
				return runC11Inv(c, m)
			}
			return Verdict{Mismatch: []string{"unknown op"}}
		},
	})
}
