package main

// Shared by C07 and C08: everything midi.Message / smf.Message answer about a byte string, laid out
// exactly like `sigMidi` / `sigSmf` of lean/MidiModel/Msg.lean, the FNV-1a block hash, the fact
// writer for the type tables, and a MIDI 1.0 decoder written from the specification's status table
// (the independent oracle; it does not call the library).

import (
	"fmt"
	"io"
	"strconv"
	"strings"

	"gitlab.com/gomidi/midi/v2"
	"gitlab.com/gomidi/midi/v2/smf"
)

// exported Type constants, in the order of `Msg.typeConstants`
var typeConstNames = []string{
	"UnknownMsg", "RealTimeMsg", "SysCommonMsg", "ChannelMsg", "SysExMsg", "smf.MetaMsg",
	"TickMsg", "TimingClockMsg", "StartMsg", "ContinueMsg", "StopMsg", "ActiveSenseMsg", "ResetMsg",
	"NoteOnMsg", "NoteOffMsg", "ControlChangeMsg", "PitchBendMsg", "AfterTouchMsg", "PolyAfterTouchMsg", "ProgramChangeMsg",
	"MTCMsg", "SongSelectMsg", "SPPMsg", "TuneMsg",
	"smf.MetaChannelMsg", "smf.MetaCopyrightMsg", "smf.MetaCuepointMsg", "smf.MetaDeviceMsg", "smf.MetaEndOfTrackMsg", "smf.MetaInstrumentMsg",
	"smf.MetaKeySigMsg", "smf.MetaLyricMsg", "smf.MetaTextMsg", "smf.MetaMarkerMsg", "smf.MetaPortMsg", "smf.MetaSeqNumberMsg", "smf.MetaSeqDataMsg",
	"smf.MetaTempoMsg", "smf.MetaTimeSigMsg", "smf.MetaTrackNameMsg", "smf.MetaSMPTEOffsetMsg", "smf.MetaUndefinedMsg", "smf.MetaProgramNameMsg",
}

var typeConsts = []midi.Type{
	midi.UnknownMsg, midi.RealTimeMsg, midi.SysCommonMsg, midi.ChannelMsg, midi.SysExMsg, smf.MetaMsg,
	midi.TickMsg, midi.TimingClockMsg, midi.StartMsg, midi.ContinueMsg, midi.StopMsg, midi.ActiveSenseMsg, midi.ResetMsg,
	midi.NoteOnMsg, midi.NoteOffMsg, midi.ControlChangeMsg, midi.PitchBendMsg, midi.AfterTouchMsg, midi.PolyAfterTouchMsg, midi.ProgramChangeMsg,
	midi.MTCMsg, midi.SongSelectMsg, midi.SPPMsg, midi.TuneMsg,
	smf.MetaChannelMsg, smf.MetaCopyrightMsg, smf.MetaCuepointMsg, smf.MetaDeviceMsg, smf.MetaEndOfTrackMsg, smf.MetaInstrumentMsg,
	smf.MetaKeySigMsg, smf.MetaLyricMsg, smf.MetaTextMsg, smf.MetaMarkerMsg, smf.MetaPortMsg, smf.MetaSeqNumberMsg, smf.MetaSeqDataMsg,
	smf.MetaTempoMsg, smf.MetaTimeSigMsg, smf.MetaTrackNameMsg, smf.MetaSMPTEOffsetMsg, smf.MetaUndefinedMsg, smf.MetaProgramNameMsg,
}

func init() {
	factWriters = append(factWriters, func(w io.Writer) {
		list := func(name, doc string, f func(b int) int) {
			fmt.Fprintf(w, "/-- %s -/\ndef %s : List Int := [", doc, name)
			for b := 0; b < 256; b++ {
				if b > 0 {
					fmt.Fprint(w, ", ")
				}
				if b%16 == 0 {
					fmt.Fprint(w, "\n  ")
				}
				fmt.Fprint(w, f(b))
			}
			fmt.Fprintln(w, "]")
		}
		list("midiType", "`midi.Message{b}.Type()` for b = 0..255, from the compiled library", func(b int) int {
			return int(midi.Message{byte(b)}.Type())
		})
		list("smfMetaType", "`smf.Message{0xFF, b, 0}.Type()` for b = 0..255, from the compiled library", func(b int) int {
			return int(smf.Message{0xFF, byte(b), 0}.Type())
		})
		list("smfType", "`smf.Message{b}.Type()` for b = 0..255, from the compiled library", func(b int) int {
			return int(smf.Message{byte(b)}.Type())
		})
		fmt.Fprintf(w, "/-- numeric values of the exported `Type` constants: %s -/\ndef typeConstants : List Int := [", strings.Join(typeConstNames, ", "))
		for i, t := range typeConsts {
			if i > 0 {
				fmt.Fprint(w, ", ")
			}
			fmt.Fprint(w, int(t))
		}
		fmt.Fprintln(w, "]")
	})
}

// ---------------------------------------------------------------------------------------------
// FNV-1a over the 16-bit little-endian encodings of v+32768 (as `fnvInt` of the model)

const fnvInit = uint64(0xcbf29ce484222325)

func fnvInts(h uint64, l []int32) uint64 {
	for _, v := range l {
		u := uint32(v+32768) & 0xFFFF
		h = (h ^ uint64(u&0xFF)) * 0x100000001b3
		h = (h ^ uint64(u>>8)) * 0x100000001b3
	}
	return h
}

func showInts(l []int32) string {
	var sb strings.Builder
	for i, v := range l {
		if i > 0 {
			sb.WriteByte(',')
		}
		sb.WriteString(strconv.Itoa(int(v)))
	}
	return sb.String()
}

func b2i(b bool) int32 {
	if b {
		return 1
	}
	return 0
}

// ---------------------------------------------------------------------------------------------
// what the implementation answers (no recover here: callers wrap it; a panic is a C08 violation)

var categoryTypes = []midi.Type{midi.UnknownMsg, midi.RealTimeMsg, midi.SysCommonMsg, midi.ChannelMsg, midi.SysExMsg, smf.MetaMsg}

// midiView holds the answers of midi.Message that the oracles look at
type midiView struct {
	typ      midi.Type
	cat      [6]bool
	playable bool
	// type-specific accessors in the order of the String() switch:
	// 0 NoteOn 1 NoteOff 2 PolyAT 3 AT 4 CC 5 PC 6 PitchBend 7 MTC 8 SPP 9 SongSelect 10 SysEx
	acc                    [11]bool
	val                    [11][3]int // out parameters of the accepting accessor (GetSysEx: length)
	sysex                  []byte
	noteStart, noteEnd, ch bool
	nsVal                  [3]int
	neVal                  [2]int
	chVal                  int
	strBranch              int
	str                    string
	nilProblem             string // an accessor called with some out parameters nil answers differently ("Only arguments that are not nil are parsed and filled")
}

var midiAccTypes = [11]midi.Type{midi.NoteOnMsg, midi.NoteOffMsg, midi.PolyAfterTouchMsg, midi.AfterTouchMsg,
	midi.ControlChangeMsg, midi.ProgramChangeMsg, midi.PitchBendMsg, midi.MTCMsg, midi.SPPMsg, midi.SongSelectMsg, midi.SysExMsg}
var midiAccNames = [11]string{"GetNoteOn", "GetNoteOff", "GetPolyAfterTouch", "GetAfterTouch", "GetControlChange",
	"GetProgramChange", "GetPitchBend", "GetMTC", "GetSPP", "GetSongSelect", "GetSysEx"}

// sigMidi appends the signature of m (layout of `Msg.sigMidi`) and fills mv.
func sigMidi(buf []int32, m midi.Message, mv *midiView) []int32 {
	t := m.Type()
	mv.typ = t
	buf = append(buf, int32(t))
	for i, c := range categoryTypes {
		mv.cat[i] = m.Is(c)
		buf = append(buf, b2i(mv.cat[i]))
	}
	mv.playable = m.IsPlayable()
	buf = append(buf, b2i(mv.playable), b2i(m.IsOneOf(midi.NoteOnMsg, midi.NoteOffMsg)),
		b2i(m.IsOneOf(midi.SysExMsg, midi.RealTimeMsg, midi.TuneMsg)))
	var c, a, b uint8
	var rel int16
	var abs, spp uint16
	var sx []byte
	name := t.String()
	str := m.String()
	mv.str = str
	branch := -1
	match := func(i int, format string, args ...interface{}) {
		if branch < 0 && str == name+fmt.Sprintf(format, args...) {
			branch = i
		}
	}
	three := func(i int, ok bool, label string) {
		mv.acc[i] = ok
		if ok {
			mv.val[i] = [3]int{int(c), int(a), int(b)}
			buf = append(buf, 1, int32(c), int32(a), int32(b))
			match(i+1, " channel: %v "+label, c, a, b)
		} else {
			buf = append(buf, 0)
		}
	}
	three(0, m.GetNoteOn(&c, &a, &b), "key: %v velocity: %v")
	mv.acc[1] = m.GetNoteOff(&c, &a, &b)
	if mv.acc[1] {
		mv.val[1] = [3]int{int(c), int(a), int(b)}
		buf = append(buf, 1, int32(c), int32(a), int32(b))
		if b > 0 {
			match(2, " channel: %v key: %v velocity: %v", c, a, b)
		} else {
			match(2, " channel: %v key: %v", c, a)
		}
	} else {
		buf = append(buf, 0)
	}
	three(2, m.GetPolyAfterTouch(&c, &a, &b), "key: %v pressure: %v")
	mv.acc[3] = m.GetAfterTouch(&c, &a)
	if mv.acc[3] {
		mv.val[3] = [3]int{int(c), int(a), 0}
		buf = append(buf, 1, int32(c), int32(a))
		match(4, " channel: %v pressure: %v", c, a)
	} else {
		buf = append(buf, 0)
	}
	three(4, m.GetControlChange(&c, &a, &b), "controller: %v value: %v")
	mv.acc[5] = m.GetProgramChange(&c, &a)
	if mv.acc[5] {
		mv.val[5] = [3]int{int(c), int(a), 0}
		buf = append(buf, 1, int32(c), int32(a))
		match(6, " channel: %v program: %v", c, a)
	} else {
		buf = append(buf, 0)
	}
	mv.acc[6] = m.GetPitchBend(&c, &rel, &abs)
	if mv.acc[6] {
		mv.val[6] = [3]int{int(c), int(rel), int(abs)}
		buf = append(buf, 1, int32(c), int32(rel), int32(abs))
		match(7, " channel: %v pitch: %v (%v)", c, rel, abs)
	} else {
		buf = append(buf, 0)
	}
	mv.acc[7] = m.GetMTC(&a)
	if mv.acc[7] {
		mv.val[7] = [3]int{int(a), 0, 0}
		buf = append(buf, 1, int32(a))
		match(8, " mtc: %v", a)
	} else {
		buf = append(buf, 0)
	}
	mv.acc[8] = m.GetSPP(&spp)
	if mv.acc[8] {
		mv.val[8] = [3]int{int(spp), 0, 0}
		buf = append(buf, 1, int32(spp))
		match(9, " spp: %v", spp)
	} else {
		buf = append(buf, 0)
	}
	mv.acc[9] = m.GetSongSelect(&a)
	if mv.acc[9] {
		mv.val[9] = [3]int{int(a), 0, 0}
		buf = append(buf, 1, int32(a))
		match(10, " song: %v", a)
	} else {
		buf = append(buf, 0)
	}
	mv.acc[10] = m.GetSysEx(&sx)
	if mv.acc[10] {
		mv.val[10] = [3]int{len(sx), 0, 0}
		mv.sysex = sx
		buf = append(buf, 1, int32(len(sx)))
		for _, x := range sx {
			buf = append(buf, int32(x))
		}
		match(11, " data: % X", sx)
	} else {
		buf = append(buf, 0)
	}
	mv.noteStart = m.GetNoteStart(&c, &a, &b)
	if mv.noteStart {
		mv.nsVal = [3]int{int(c), int(a), int(b)}
		buf = append(buf, 1, int32(c), int32(a), int32(b))
	} else {
		buf = append(buf, 0)
	}
	mv.noteEnd = m.GetNoteEnd(&c, &a)
	if mv.noteEnd {
		mv.neVal = [2]int{int(c), int(a)}
		buf = append(buf, 1, int32(c), int32(a))
	} else {
		buf = append(buf, 0)
	}
	mv.ch = m.GetChannel(&c)
	if mv.ch {
		mv.chVal = int(c)
		buf = append(buf, 1, int32(c))
	} else {
		buf = append(buf, 0)
	}
	if branch < 0 {
		if str == name {
			branch = 0
		} else {
			branch = 99 // the text is not what any accepting accessor's answers would print
		}
	}
	mv.strBranch = branch
	buf = append(buf, 1, int32(branch))
	mv.nilProblem = nilSubsets(m, mv)
	return buf
}

// nilSubsets calls every accessor of midi.Message with every subset of its out parameters nil: the result must be
// the same and every non-nil parameter must receive the value the all-non-nil call gave (mv). "" = consistent.
func nilSubsets(m midi.Message, mv *midiView) string {
	const sent = 0xEE
	p8 := func(nilp bool, v *uint8) *uint8 {
		if nilp {
			return nil
		}
		return v
	}
	chk := func(name string, mask int, ok, want bool, got, full [3]int, n int) string {
		if ok != want {
			return fmt.Sprintf("%s with nil mask %03b answers %v, with all out parameters %v", name, mask, ok, want)
		}
		if ok {
			for i := 0; i < n; i++ {
				if mask&(1<<i) == 0 && got[i] != full[i] {
					return fmt.Sprintf("%s with nil mask %03b leaves out parameter %d = %d, all-non-nil call gives %d", name, mask, i, got[i], full[i])
				}
			}
		}
		return ""
	}
	type acc3 struct {
		name string
		f    func(c, a, b *uint8) bool
		ok   bool
		full [3]int
	}
	for _, x := range []acc3{
		{"GetNoteOn", m.GetNoteOn, mv.acc[0], mv.val[0]},
		{"GetNoteOff", m.GetNoteOff, mv.acc[1], mv.val[1]},
		{"GetPolyAfterTouch", m.GetPolyAfterTouch, mv.acc[2], mv.val[2]},
		{"GetControlChange", m.GetControlChange, mv.acc[4], mv.val[4]},
		{"GetNoteStart", m.GetNoteStart, mv.noteStart, mv.nsVal},
	} {
		for mask := 1; mask < 8; mask++ {
			var c, a, b uint8 = sent, sent, sent
			ok := x.f(p8(mask&1 != 0, &c), p8(mask&2 != 0, &a), p8(mask&4 != 0, &b))
			if s := chk(x.name, mask, ok, x.ok, [3]int{int(c), int(a), int(b)}, x.full, 3); s != "" {
				return s
			}
		}
	}
	type acc2 struct {
		name string
		f    func(c, a *uint8) bool
		ok   bool
		full [3]int
	}
	for _, x := range []acc2{
		{"GetAfterTouch", m.GetAfterTouch, mv.acc[3], mv.val[3]},
		{"GetProgramChange", m.GetProgramChange, mv.acc[5], mv.val[5]},
		{"GetNoteEnd", m.GetNoteEnd, mv.noteEnd, [3]int{mv.neVal[0], mv.neVal[1], 0}},
	} {
		for mask := 1; mask < 4; mask++ {
			var c, a uint8 = sent, sent
			ok := x.f(p8(mask&1 != 0, &c), p8(mask&2 != 0, &a))
			if s := chk(x.name, mask, ok, x.ok, [3]int{int(c), int(a), 0}, x.full, 2); s != "" {
				return s
			}
		}
	}
	for mask := 1; mask < 8; mask++ {
		var c uint8 = sent
		var rel int16 = 0x6EEE
		var abs uint16 = 0xEEEE
		pc, prel, pabs := p8(mask&1 != 0, &c), &rel, &abs
		if mask&2 != 0 {
			prel = nil
		}
		if mask&4 != 0 {
			pabs = nil
		}
		ok := m.GetPitchBend(pc, prel, pabs)
		if s := chk("GetPitchBend", mask, ok, mv.acc[6], [3]int{int(c), int(rel), int(abs)}, mv.val[6], 3); s != "" {
			return s
		}
	}
	if ok := m.GetMTC(nil); ok != mv.acc[7] {
		return fmt.Sprintf("GetMTC(nil) answers %v, GetMTC(&v) %v", ok, mv.acc[7])
	}
	if ok := m.GetSPP(nil); ok != mv.acc[8] {
		return fmt.Sprintf("GetSPP(nil) answers %v, GetSPP(&v) %v", ok, mv.acc[8])
	}
	if ok := m.GetSongSelect(nil); ok != mv.acc[9] {
		return fmt.Sprintf("GetSongSelect(nil) answers %v, GetSongSelect(&v) %v", ok, mv.acc[9])
	}
	// GetSysEx(nil) is not called: unlike the others it does not document nil as allowed (it dereferences it)
	if ok := m.GetChannel(nil); ok != mv.ch {
		return fmt.Sprintf("GetChannel(nil) answers %v, GetChannel(&v) %v", ok, mv.ch)
	}
	return ""
}

// smfView holds the answers of smf.Message the oracles look at
type smfView struct {
	typ      midi.Type
	isMeta   bool
	cat      [6]bool
	playable bool
	// meta accessors: 0 Tempo 1 TimeSig 2 Channel 3 Port 4 SeqNumber 5 SMPTE 6 SeqData 7 KeySig
	// 8 Lyric 9 Copyright 10 Cuepoint 11 Device 12 Instrument 13 Marker 14 ProgramName 15 Text 16 TrackName
	acc       [17]bool
	meter     bool
	key       bool
	strBranch int
	str       string
}

var smfAccTypes = [17]midi.Type{smf.MetaTempoMsg, smf.MetaTimeSigMsg, smf.MetaChannelMsg, smf.MetaPortMsg, smf.MetaSeqNumberMsg,
	smf.MetaSMPTEOffsetMsg, smf.MetaSeqDataMsg, smf.MetaKeySigMsg, smf.MetaLyricMsg, smf.MetaCopyrightMsg, smf.MetaCuepointMsg,
	smf.MetaDeviceMsg, smf.MetaInstrumentMsg, smf.MetaMarkerMsg, smf.MetaProgramNameMsg, smf.MetaTextMsg, smf.MetaTrackNameMsg}
var smfAccNames = [17]string{"GetMetaTempo", "GetMetaTimeSig", "GetMetaChannel", "GetMetaPort", "GetMetaSeqNumber",
	"GetMetaSMPTEOffsetMsg", "GetMetaSeqData", "GetMetaKeySig", "GetMetaLyric", "GetMetaCopyright", "GetMetaCuepoint",
	"GetMetaDevice", "GetMetaInstrument", "GetMetaMarker", "GetMetaProgramName", "GetMetaText", "GetMetaTrackName"}

// sigSmf appends the signature of m as smf.Message (layout of `Msg.sigSmf`); midiStr is
// midi.Message(m).String() and midiBranch its branch (a non-meta smf.Message must print the same).
func sigSmf(buf []int32, m smf.Message, sv *smfView, midiStr string, midiBranch int) []int32 {
	t := m.Type()
	sv.typ = t
	sv.isMeta = m.IsMeta()
	buf = append(buf, int32(t), b2i(sv.isMeta))
	for i, c := range categoryTypes {
		sv.cat[i] = m.Is(c)
		buf = append(buf, b2i(sv.cat[i]))
	}
	sv.playable = m.IsPlayable()
	buf = append(buf, b2i(sv.playable), b2i(m.IsOneOf(smf.MetaTempoMsg, smf.MetaMsg)), b2i(m.IsOneOf(midi.ChannelMsg, smf.MetaTextMsg)))
	var bpm float64
	var v1, v2, v3, v4, v5 uint8
	var v16 uint16
	var bl1, bl2 bool
	var bt []byte
	var text string
	var k smf.Key
	sv.acc[0] = m.GetMetaTempo(&bpm)
	sv.acc[1] = m.GetMetaTimeSig(&v1, &v2, &v3, &v4)
	sv.meter = m.GetMetaMeter(&v1, &v2)
	buf = append(buf, b2i(sv.acc[0]), b2i(sv.acc[1]))
	var chv, portv uint8
	sv.acc[2] = m.GetMetaChannel(&chv)
	if sv.acc[2] {
		buf = append(buf, 1, int32(chv))
	} else {
		buf = append(buf, 0)
	}
	sv.acc[3] = m.GetMetaPort(&portv)
	if sv.acc[3] {
		buf = append(buf, 1, int32(portv))
	} else {
		buf = append(buf, 0)
	}
	sv.acc[4] = m.GetMetaSeqNumber(&v16)
	if sv.acc[4] {
		buf = append(buf, 1, int32(v16))
	} else {
		buf = append(buf, 0)
	}
	sv.acc[5] = m.GetMetaSMPTEOffsetMsg(&v1, &v2, &v3, &v4, &v5)
	buf = append(buf, b2i(sv.acc[5]))
	sv.acc[6] = m.GetMetaSeqData(&bt)
	if sv.acc[6] {
		buf = append(buf, int32(1+4*len(bt)))
	} else {
		buf = append(buf, 0)
	}
	sv.acc[7] = m.GetMetaKeySig(&v1, &v2, &bl1, &bl2)
	sv.key = m.GetMetaKey(&k)
	buf = append(buf, b2i(sv.acc[7]))
	sv.acc[8] = m.GetMetaLyric(&text)
	sv.acc[9] = m.GetMetaCopyright(&text)
	sv.acc[10] = m.GetMetaCuepoint(&text)
	sv.acc[11] = m.GetMetaDevice(&text)
	sv.acc[12] = m.GetMetaInstrument(&text)
	sv.acc[13] = m.GetMetaMarker(&text)
	sv.acc[14] = m.GetMetaProgramName(&text)
	sv.acc[15] = m.GetMetaText(&text)
	sv.acc[16] = m.GetMetaTrackName(&text)
	for i := 8; i < 17; i++ {
		buf = append(buf, b2i(sv.acc[i]))
	}
	str := m.String()
	sv.str = str
	branch := 99
	if !sv.isMeta {
		if str == midiStr {
			branch = 100 + midiBranch
		}
	} else {
		name := t.String()
		if strings.HasPrefix(str, name) {
			rest := str[len(name):]
			switch {
			case rest == "":
				branch = 0
			case strings.HasPrefix(rest, " bpm: "):
				branch = 1
			case strings.HasPrefix(rest, " meter: "):
				branch = 2
			case sv.acc[2] && rest == fmt.Sprintf(" channel: %v", chv):
				branch = 3
			case sv.acc[3] && rest == fmt.Sprintf(" port: %v", portv):
				branch = 4
			case sv.acc[4] && rest == fmt.Sprintf(" number: %v", v16):
				branch = 5
			case strings.HasPrefix(rest, " hour: "):
				branch = 6
			case strings.HasPrefix(rest, " bytes: "):
				branch = 7
			case strings.HasPrefix(rest, " key: "):
				branch = 8
			case strings.HasPrefix(rest, " text: "):
				branch = 9
			}
		}
	}
	sv.strBranch = branch
	buf = append(buf, 1, int32(branch))
	return buf
}

// sigAll = sigMidi ++ sigSmf of one byte string; a recovered panic is reported in `panicked`.
func sigAll(buf []int32, b []byte, mv *midiView, sv *smfView) (out []int32, panicked string) {
	defer func() {
		if r := recover(); r != nil {
			panicked = fmt.Sprint(r)
			out = buf
		}
	}()
	buf = sigMidi(buf, midi.Message(b), mv)
	buf = sigSmf(buf, smf.Message(b), sv, mv.str, mv.strBranch)
	return buf, ""
}

// whichPanics names the calls that panic on b (diagnostics for a replay).
func whichPanics(b []byte) []string {
	var out []string
	m := midi.Message(b)
	s := smf.Message(b)
	var u8 uint8
	var i16 int16
	var u16 uint16
	var bs []byte
	var f float64
	var str string
	var bl bool
	var k smf.Key
	calls := []struct {
		name string
		f    func()
	}{
		{"midi.Type", func() { m.Type() }}, {"midi.Is", func() { m.Is(midi.ChannelMsg) }},
		{"midi.IsOneOf", func() { m.IsOneOf(midi.NoteOnMsg, midi.SysExMsg) }}, {"midi.IsPlayable", func() { m.IsPlayable() }},
		{"midi.String", func() { _ = m.String() }}, {"midi.Type.String", func() { _ = m.Type().String() }},
		{"GetNoteOn", func() { m.GetNoteOn(&u8, &u8, &u8) }}, {"GetNoteOff", func() { m.GetNoteOff(&u8, &u8, &u8) }},
		{"GetNoteStart", func() { m.GetNoteStart(&u8, &u8, &u8) }}, {"GetNoteEnd", func() { m.GetNoteEnd(&u8, &u8) }},
		{"GetChannel", func() { m.GetChannel(&u8) }}, {"GetPolyAfterTouch", func() { m.GetPolyAfterTouch(&u8, &u8, &u8) }},
		{"GetAfterTouch", func() { m.GetAfterTouch(&u8, &u8) }}, {"GetProgramChange", func() { m.GetProgramChange(&u8, &u8) }},
		{"GetPitchBend", func() { m.GetPitchBend(&u8, &i16, &u16) }}, {"GetControlChange", func() { m.GetControlChange(&u8, &u8, &u8) }},
		{"GetMTC", func() { m.GetMTC(&u8) }}, {"GetSongSelect", func() { m.GetSongSelect(&u8) }}, {"GetSPP", func() { m.GetSPP(&u16) }},
		{"GetSysEx", func() { m.GetSysEx(&bs) }},
		{"smf.Type", func() { s.Type() }}, {"smf.IsMeta", func() { s.IsMeta() }}, {"smf.Is", func() { s.Is(smf.MetaMsg) }},
		{"smf.IsOneOf", func() { s.IsOneOf(smf.MetaTempoMsg, midi.ChannelMsg) }}, {"smf.IsPlayable", func() { s.IsPlayable() }},
		{"smf.String", func() { _ = s.String() }},
		{"GetMetaTempo", func() { s.GetMetaTempo(&f) }}, {"GetMetaTimeSig", func() { s.GetMetaTimeSig(&u8, &u8, &u8, &u8) }},
		{"GetMetaMeter", func() { s.GetMetaMeter(&u8, &u8) }}, {"GetMetaChannel", func() { s.GetMetaChannel(&u8) }},
		{"GetMetaPort", func() { s.GetMetaPort(&u8) }}, {"GetMetaSeqNumber", func() { s.GetMetaSeqNumber(&u16) }},
		{"GetMetaSMPTEOffsetMsg", func() { s.GetMetaSMPTEOffsetMsg(&u8, &u8, &u8, &u8, &u8) }},
		{"GetMetaSeqData", func() { s.GetMetaSeqData(&bs) }}, {"GetMetaKeySig", func() { s.GetMetaKeySig(&u8, &u8, &bl, &bl) }},
		{"GetMetaKey", func() { s.GetMetaKey(&k) }}, {"GetMetaLyric", func() { s.GetMetaLyric(&str) }},
		{"GetMetaCopyright", func() { s.GetMetaCopyright(&str) }}, {"GetMetaCuepoint", func() { s.GetMetaCuepoint(&str) }},
		{"GetMetaDevice", func() { s.GetMetaDevice(&str) }}, {"GetMetaInstrument", func() { s.GetMetaInstrument(&str) }},
		{"GetMetaMarker", func() { s.GetMetaMarker(&str) }}, {"GetMetaProgramName", func() { s.GetMetaProgramName(&str) }},
		{"GetMetaText", func() { s.GetMetaText(&str) }}, {"GetMetaTrackName", func() { s.GetMetaTrackName(&str) }},
	}
	for _, c := range calls {
		if p := try(c.f); p != "" {
			out = append(out, c.name+" panics: "+p)
		}
	}
	return out
}

// ---------------------------------------------------------------------------------------------
// MIDI 1.0 specification table (Summary of MIDI Messages, table 1), independent of the library

// specClass: category of a status byte per MIDI 1.0: 0 data byte, 1 channel voice, 2 system
// exclusive (F0 / EOX F7), 3 system common (F1..F6), 4 system real time (F8..FF)
func specClass(b byte) int {
	switch {
	case b < 0x80:
		return 0
	case b < 0xF0:
		return 1
	case b == 0xF0 || b == 0xF7:
		return 2
	case b < 0xF7:
		return 3
	default:
		return 4
	}
}

// specMsg is a decoded MIDI 1.0 message: kind as named by the specification, channel, the two 7-bit
// data values or the 14-bit value (LSB first on the wire).
type specMsg struct {
	kind       string
	ch, d1, d2 int
	v14        int
}

var specNeed = map[byte]int{0x80: 2, 0x90: 2, 0xA0: 2, 0xB0: 2, 0xC0: 1, 0xD0: 1, 0xE0: 2}
var specNames = map[byte]string{0x80: "noteoff", 0x90: "noteon", 0xA0: "polyat", 0xB0: "cc", 0xC0: "pc", 0xD0: "at", 0xE0: "pitchbend"}
var specSys = map[byte]struct {
	name string
	n    int
}{0xF1: {"mtc", 1}, 0xF2: {"spp", 2}, 0xF3: {"songselect", 1}, 0xF6: {"tune", 0}, 0xF8: {"timingclock", 0},
	0xFA: {"start", 0}, 0xFB: {"continue", 0}, 0xFC: {"stop", 0}, 0xFE: {"activesense", 0}, 0xFF: {"reset", 0},
	0xF9: {"tick", 0}} // F9 is undefined in MIDI 1.0; the library names it "tick" (10 ms tick of some devices)

// specDecode decodes a complete MIDI 1.0 message given by status byte and data bytes.
func specDecode(b []byte) (s specMsg, ok bool) {
	if len(b) == 0 || b[0] < 0x80 {
		return s, false
	}
	for _, d := range b[1:] {
		if d > 127 {
			return s, false
		}
	}
	st := b[0]
	if st < 0xF0 {
		hi := st & 0xF0
		need, names := specNeed, specNames
		if len(b) != 1+need[hi] {
			return s, false
		}
		s.kind, s.ch, s.d1 = names[hi], int(st&0x0F), int(b[1])
		if need[hi] == 2 {
			s.d2 = int(b[2])
			s.v14 = int(b[1]) | int(b[2])<<7 // least significant 7 bits first
		}
		return s, true
	}
	e, has := specSys[st]
	if !has || len(b) != 1+e.n {
		return s, false
	}
	s.kind = e.name
	if e.n >= 1 {
		s.d1 = int(b[1])
	}
	if e.n == 2 {
		s.d2 = int(b[2])
		s.v14 = int(b[1]) | int(b[2])<<7
	}
	return s, true
}

// smfNilSubsets calls every meta accessor of smf.Message with every subset of its out parameters nil ("Only arguments
// that are not nil are parsed and filled"): same answer, and every non-nil parameter receives the value the all-non-nil
// call gives. "" = consistent. A panic is the caller's business (recover there).
func smfNilSubsets(m smf.Message) string {
	p8 := func(nilp bool, v *uint8) *uint8 {
		if nilp {
			return nil
		}
		return v
	}
	pb := func(nilp bool, v *bool) *bool {
		if nilp {
			return nil
		}
		return v
	}
	// 4 x uint8
	{
		var f [4]uint8
		ok := m.GetMetaTimeSig(&f[0], &f[1], &f[2], &f[3])
		for mask := 1; mask < 16; mask++ {
			g := [4]uint8{0xEE, 0xEE, 0xEE, 0xEE}
			ok2 := m.GetMetaTimeSig(p8(mask&1 != 0, &g[0]), p8(mask&2 != 0, &g[1]), p8(mask&4 != 0, &g[2]), p8(mask&8 != 0, &g[3]))
			if ok && !ok2 {
				return fmt.Sprintf("GetMetaTimeSig with nil mask %04b answers %v, with all out parameters %v", mask, ok2, ok)
			}
			for i := 0; ok && i < 4; i++ {
				if mask&(1<<i) == 0 && g[i] != f[i] {
					return fmt.Sprintf("GetMetaTimeSig with nil mask %04b: out parameter %d = %d, all-non-nil call gives %d", mask, i, g[i], f[i])
				}
			}
		}
	}
	{
		var f [5]uint8
		ok := m.GetMetaSMPTEOffsetMsg(&f[0], &f[1], &f[2], &f[3], &f[4])
		for mask := 1; mask < 32; mask++ {
			g := [5]uint8{0xEE, 0xEE, 0xEE, 0xEE, 0xEE}
			ok2 := m.GetMetaSMPTEOffsetMsg(p8(mask&1 != 0, &g[0]), p8(mask&2 != 0, &g[1]), p8(mask&4 != 0, &g[2]), p8(mask&8 != 0, &g[3]), p8(mask&16 != 0, &g[4]))
			if ok && !ok2 {
				return fmt.Sprintf("GetMetaSMPTEOffsetMsg with nil mask %05b answers %v, with all out parameters %v", mask, ok2, ok)
			}
			for i := 0; ok && i < 5; i++ {
				if mask&(1<<i) == 0 && g[i] != f[i] {
					return fmt.Sprintf("GetMetaSMPTEOffsetMsg with nil mask %05b: out parameter %d = %d, all-non-nil call gives %d", mask, i, g[i], f[i])
				}
			}
		}
	}
	{
		var k, n uint8
		var maj, flat bool
		ok := m.GetMetaKeySig(&k, &n, &maj, &flat)
		for mask := 1; mask < 16; mask++ {
			var k2, n2 uint8 = 0xEE, 0xEE
			maj2, flat2 := !maj, !flat
			ok2 := m.GetMetaKeySig(p8(mask&1 != 0, &k2), p8(mask&2 != 0, &n2), pb(mask&4 != 0, &maj2), pb(mask&8 != 0, &flat2))
			if ok && !ok2 {
				return fmt.Sprintf("GetMetaKeySig with nil mask %04b answers %v, with all out parameters %v", mask, ok2, ok)
			}
			if ok && ((mask&1 == 0 && k2 != k) || (mask&2 == 0 && n2 != n) || (mask&4 == 0 && maj2 != maj) || (mask&8 == 0 && flat2 != flat)) {
				return fmt.Sprintf("GetMetaKeySig with nil mask %04b fills %d %d %v %v, all-non-nil call gives %d %d %v %v", mask, k2, n2, maj2, flat2, k, n, maj, flat)
			}
		}
	}
	{
		var a, b uint8
		ok := m.GetMetaMeter(&a, &b)
		for mask := 1; mask < 4; mask++ {
			var a2, b2 uint8 = 0xEE, 0xEE
			ok2 := m.GetMetaMeter(p8(mask&1 != 0, &a2), p8(mask&2 != 0, &b2))
			if (ok && !ok2) || (ok && ((mask&1 == 0 && a2 != a) || (mask&2 == 0 && b2 != b))) {
				return fmt.Sprintf("GetMetaMeter with nil mask %02b answers %v %d %d, all-non-nil call %v %d %d", mask, ok2, a2, b2, ok, a, b)
			}
		}
	}
	// one out parameter: nil must answer the same
	var u8 uint8
	var u16 uint16
	var bs []byte
	var key smf.Key
	var bpm float64
	var str string
	type one struct {
		name     string
		full, nl bool
	}
	for _, x := range []one{
		{"GetMetaChannel", m.GetMetaChannel(&u8), m.GetMetaChannel(nil)},
		{"GetMetaPort", m.GetMetaPort(&u8), m.GetMetaPort(nil)},
		{"GetMetaSeqNumber", m.GetMetaSeqNumber(&u16), m.GetMetaSeqNumber(nil)},
		{"GetMetaSeqData", m.GetMetaSeqData(&bs), m.GetMetaSeqData(nil)},
		{"GetMetaKey", m.GetMetaKey(&key), m.GetMetaKey(nil)},
		{"GetMetaTempo", m.GetMetaTempo(&bpm), m.GetMetaTempo(nil)},
		{"GetMetaLyric", m.GetMetaLyric(&str), m.GetMetaLyric(nil)},
		{"GetMetaCopyright", m.GetMetaCopyright(&str), m.GetMetaCopyright(nil)},
		{"GetMetaCuepoint", m.GetMetaCuepoint(&str), m.GetMetaCuepoint(nil)},
		{"GetMetaDevice", m.GetMetaDevice(&str), m.GetMetaDevice(nil)},
		{"GetMetaInstrument", m.GetMetaInstrument(&str), m.GetMetaInstrument(nil)},
		{"GetMetaMarker", m.GetMetaMarker(&str), m.GetMetaMarker(nil)},
		{"GetMetaProgramName", m.GetMetaProgramName(&str), m.GetMetaProgramName(nil)},
		{"GetMetaText", m.GetMetaText(&str), m.GetMetaText(nil)},
		{"GetMetaTrackName", m.GetMetaTrackName(&str), m.GetMetaTrackName(nil)},
	} {
		if x.full && !x.nl {
			return fmt.Sprintf("%s(nil) answers %v, with an out parameter %v", x.name, x.nl, x.full)
		}
	}
	return ""
}
