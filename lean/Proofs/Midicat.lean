import MidiModel.Midicat
/-!
# Lemmas about the midicat line codec: encoder shape, the `Sscanf` fragments on encoder output,
  the reader loop on plain segments, self-framing.
-/
namespace Midi.Midicat

/-- the `int32` range of the time stamp -/
def Int32 (i : Int) : Prop := -2147483648 ≤ i ∧ i ≤ 2147483647

/-- a byte that is neither the separator nor the terminator -/
def Plain (l : Bytes) : Prop := ∀ b ∈ l, b ≠ 32 ∧ b ≠ 10

def AllHex (l : Bytes) : Prop := ∀ b ∈ l, isHex b = true

def AllDigits (l : Bytes) : Prop := ∀ b ∈ l, isDigit b = true

/-! ## characters -/

theorem hexVal_hexChar (n : Nat) (h : n < 16) : hexVal (hexChar n) = some n := by
  unfold hexVal hexChar
  by_cases h10 : n < 10
  · simp only [h10, if_true]
    rw [if_pos (by omega)]; congr 1; omega
  · simp only [h10, if_false]
    rw [if_neg (by omega), if_pos (by omega)]; congr 1; omega

theorem isHex_hexChar (n : Nat) (h : n < 16) : isHex (hexChar n) = true := by
  simp [isHex, hexVal_hexChar n h]

theorem isHex_bounds {b : Nat} (h : isHex b = true) :
    (48 ≤ b ∧ b ≤ 57) ∨ (65 ≤ b ∧ b ≤ 70) ∨ (97 ≤ b ∧ b ≤ 102) := by
  unfold isHex hexVal at h
  by_cases h1 : 48 ≤ b ∧ b ≤ 57
  · exact Or.inl h1
  · by_cases h2 : 65 ≤ b ∧ b ≤ 70
    · exact Or.inr (Or.inl h2)
    · by_cases h3 : 97 ≤ b ∧ b ≤ 102
      · exact Or.inr (Or.inr h3)
      · simp [h1, h2, h3] at h

theorem hexVal_some_of_isHex {b : Nat} (h : isHex b = true) : ∃ v, hexVal b = some v := by
  unfold isHex at h
  cases hv : hexVal b with
  | none => simp [hv] at h
  | some v => exact ⟨v, rfl⟩

theorem hexVal_none_of_not_isHex {b : Nat} (h : isHex b = false) : hexVal b = none := by
  unfold isHex at h
  cases hv : hexVal b with
  | none => rfl
  | some v => simp [hv] at h

theorem isDigit_bounds {b : Nat} (h : isDigit b = true) : 48 ≤ b ∧ b ≤ 57 := by
  simpa [isDigit] using h

theorem allHex_hexStr (bs : Bytes) : AllHex (hexStr bs) := by
  intro b hb
  simp only [hexStr, List.mem_flatMap] at hb
  obtain ⟨x, _, hx⟩ := hb
  simp only [hexUp, List.mem_cons, List.mem_nil_iff, or_false] at hx
  rcases hx with rfl | rfl
  · exact isHex_hexChar _ (Nat.mod_lt _ (by omega))
  · exact isHex_hexChar _ (Nat.mod_lt _ (by omega))

theorem plain_of_allHex {l : Bytes} (h : AllHex l) : Plain l := by
  intro b hb
  have := isHex_bounds (h b hb)
  omega

theorem plain_of_allDigits {l : Bytes} (h : AllDigits l) : Plain l := by
  intro b hb
  have := isDigit_bounds (h b hb)
  omega

theorem hexStr_cons (b : Nat) (bs : Bytes) :
    hexStr (b :: bs) = hexChar (b / 16 % 16) :: hexChar (b % 16) :: hexStr bs := by
  simp [hexStr, hexUp]

theorem hexStr_length (bs : Bytes) : (hexStr bs).length = 2 * bs.length := by
  induction bs with
  | nil => rfl
  | cons b bs ih => rw [hexStr_cons]; simp [ih]; omega

/-! ## `SkipSpace` leaves ASCII non-space heads alone -/

theorem skipSpace_cons_ascii (b0 : Nat) (r : Bytes) (h128 : b0 < 128) (hs : isSpace1 b0 = false) :
    skipSpace (b0 :: r) = b0 :: r := by
  have h2 : ∀ b1, isSpace2 b0 b1 = false := by
    intro b1; simp [isSpace2]; omega
  have h3 : ∀ b1 b2, isSpace3 b0 b1 b2 = false := by
    intro b1 b2
    have e1 : (b0 = 0xE1) = False := by simp; omega
    have e2 : (b0 = 0xE2) = False := by simp; omega
    have e3 : (b0 = 0xE3) = False := by simp; omega
    simp [isSpace3, e1, e2, e3]
  unfold skipSpace
  simp only [hs]
  cases r with
  | nil => rfl
  | cons b1 r1 =>
    simp only [h2 b1]
    cases r1 with
    | nil => rfl
    | cons b2 r2 => simp [h3 b1 b2]

theorem isSpace1_false_of_isHex {b : Nat} (h : isHex b = true) : isSpace1 b = false ∧ b < 128 := by
  have := isHex_bounds h
  refine ⟨?_, by omega⟩
  simp [isSpace1]; omega

theorem skipSpace_allHex (l : Bytes) (h : AllHex l) : skipSpace l = l := by
  cases l with
  | nil => rfl
  | cons b r =>
    have := isSpace1_false_of_isHex (h b (by simp))
    exact skipSpace_cons_ascii b r this.2 this.1

/-- a non-space byte (any value, also ≥ 0x80) in front of hex digits is no white-space rune -/
theorem skipSpace_cons_hex (c : Nat) (t : Bytes) (hc : isSpace1 c = false) (ht : AllHex t) :
    skipSpace (c :: t) = c :: t := by
  unfold skipSpace
  simp only [hc]
  cases t with
  | nil => rfl
  | cons b1 r1 =>
    have hb1 := isHex_bounds (ht b1 (by simp))
    have h2 : isSpace2 c b1 = false := by simp [isSpace2]; omega
    simp only [h2]
    cases r1 with
    | nil => rfl
    | cons b2 r2 =>
      have h3 : isSpace3 c b1 b2 = false := by
        have e1 : (b1 = 0x9A) = False := by simp; omega
        have e2 : (b1 = 0x80) = False := by simp; omega
        have e3 : (b1 = 0x81) = False := by simp; omega
        simp [isSpace3, e1, e2, e3]
      simp [h3]

/-! ## decimal digits -/

theorem natDecF_allDigits (f n : Nat) : AllDigits (natDecF f n) := by
  induction f generalizing n with
  | zero =>
    intro b hb
    simp only [natDecF, List.mem_cons, List.mem_nil_iff, or_false] at hb
    subst hb; simp [isDigit]; omega
  | succ f ih =>
    intro b hb
    unfold natDecF at hb
    by_cases h : n < 10
    · simp only [h, if_true, List.mem_cons, List.mem_nil_iff, or_false] at hb
      subst hb; simp [isDigit]; omega
    · simp only [h, if_false, List.mem_append, List.mem_cons, List.mem_nil_iff, or_false] at hb
      rcases hb with hb | rfl
      · exact ih _ b hb
      · simp [isDigit]; omega

theorem natDecF_ne_nil (f n : Nat) : natDecF f n ≠ [] := by
  cases f with
  | zero => simp [natDecF]
  | succ f =>
    unfold natDecF
    by_cases h : n < 10 <;> simp [h]

theorem digitsVal_append_one (l : Bytes) (d : Nat) : digitsVal (l ++ [d]) = digitsVal l * 10 + (d - 48) := by
  simp [digitsVal, List.foldl_append]

theorem digitsVal_natDecF (f n : Nat) (h : n < 10 ^ (f + 1)) : digitsVal (natDecF f n) = n := by
  induction f generalizing n with
  | zero =>
    have : n < 10 := by simpa using h
    simp [natDecF, digitsVal]; omega
  | succ f ih =>
    unfold natDecF
    by_cases h10 : n < 10
    · simp [h10, digitsVal]
    · simp only [h10, if_false]
      rw [digitsVal_append_one, ih (n / 10)]
      · omega
      · have : 10 ^ (f + 1 + 1) = 10 * 10 ^ (f + 1) := by rw [Nat.pow_succ]; omega
        rw [this] at h
        exact Nat.div_lt_of_lt_mul h

theorem takeDigits_allDigits (l : Bytes) (h : AllDigits l) : takeDigits l = l := by
  induction l with
  | nil => rfl
  | cons b r ih =>
    have hb := h b (by simp)
    simp only [takeDigits, hb, if_true]
    rw [ih (fun x hx => h x (by simp [hx]))]

theorem allDigits_natDec (n : Nat) : AllDigits (natDec n) := natDecF_allDigits 10 n

theorem plain_decimal (i : Int) : Plain (decimal i) := by
  unfold decimal
  by_cases h : i < 0
  · simp only [h, if_true]
    intro b hb
    simp only [List.mem_cons] at hb
    rcases hb with rfl | hb
    · omega
    · exact plain_of_allDigits (allDigits_natDec _) b hb
  · simp only [h, if_false]
    exact plain_of_allDigits (allDigits_natDec _)

/-- `Sscanf("%d")` reads back what `%d` printed, for every `int32` -/
theorem scanDelta_decimal (i : Int) (h : Int32 i) : scanDelta (decimal i) = some i := by
  obtain ⟨hlo, hhi⟩ := h
  unfold decimal
  by_cases hneg : i < 0
  · simp only [hneg, if_true]
    have hn : i.natAbs < 10 ^ (10 + 1) := by omega
    unfold scanDelta
    rw [skipSpace_cons_ascii 45 _ (by omega) (by decide)]
    simp only [true_or, if_true]
    rw [takeDigits_allDigits _ (allDigits_natDec _)]
    simp only [natDec, natDecF_ne_nil, if_false]
    rw [digitsVal_natDecF 10 _ hn]
    have e : (-(i.natAbs : Int)) = i := by omega
    simp only [e, if_true]
    rw [if_pos ⟨hlo, hhi⟩]
  · simp only [hneg, if_false]
    have hn : i.toNat < 10 ^ (10 + 1) := by omega
    have hne := natDecF_ne_nil 10 i.toNat
    have hd := allDigits_natDec i.toNat
    unfold scanDelta
    cases hnd : natDec i.toNat with
    | nil => exact absurd hnd hne
    | cons c r =>
      have hc := isDigit_bounds (hd c (by simp [hnd]))
      rw [skipSpace_cons_ascii c r (by omega) (by simp [isSpace1]; omega)]
      have h45 : (c = 45) = False := by simp; omega
      have h43 : (c = 43) = False := by simp; omega
      simp only [h45, h43, or_self, if_false]
      rw [← hnd, takeDigits_allDigits _ hd]
      simp only [natDec, natDecF_ne_nil, if_false]
      rw [digitsVal_natDecF 10 _ hn]
      have e : ((i.toNat : Nat) : Int) = i := by omega
      simp only [decide_false, e]
      simp
      exact ⟨hlo, hhi⟩

/-! ## `%X` read back -/

theorem hexLoop_hexUp (b : Nat) (hb : b < 256) (r : Bytes) :
    hexLoop (hexChar (b / 16 % 16) :: hexChar (b % 16) :: r) = (hexLoop r).map (fun t => b :: t) := by
  unfold hexLoop
  rw [hexVal_hexChar _ (Nat.mod_lt _ (by omega)), hexVal_hexChar _ (Nat.mod_lt _ (by omega))]
  have : b / 16 % 16 * 16 + b % 16 = b := by omega
  simp only [this]

theorem hexLoop_hexStr_append (bs : Bytes) (hb : AllBytes bs) (t : Bytes) :
    hexLoop (hexStr bs ++ t) = (hexLoop t).map (fun x => bs ++ x) := by
  induction bs with
  | nil => simp [hexStr]
  | cons b bs ih =>
    rw [hexStr_cons]
    simp only [List.cons_append]
    rw [hexLoop_hexUp b (hb b (by simp)), ih (fun x hx => hb x (by simp [hx]))]
    cases hexLoop t <;> simp

theorem hexLoop_hexStr (bs : Bytes) (hb : AllBytes bs) : hexLoop (hexStr bs) = some bs := by
  have := hexLoop_hexStr_append bs hb []
  simpa [hexLoop] using this

theorem scanHex_hexStr (bs : Bytes) (hne : bs ≠ []) (hb : AllBytes bs) : scanHex (hexStr bs) = some bs := by
  unfold scanHex
  rw [skipSpace_allHex _ (allHex_hexStr bs), hexLoop_hexStr bs hb]
  cases bs with
  | nil => exact absurd rfl hne
  | cons b r => rfl

/-- a pair start that is no hex digit ends the loop silently -/
theorem hexLoop_stop (c : Nat) (t : Bytes) (hc : isHex c = false) : hexLoop (c :: t) = some [] := by
  cases t with
  | nil => simp [hexLoop, hc]
  | cons d t' => simp [hexLoop, hexVal_none_of_not_isHex hc]

/-- hex digits of odd number: the last pair is incomplete -/
theorem hexLoop_odd (n : Nat) : ∀ hs : Bytes, hs.length = 2 * n + 1 → AllHex hs → hexLoop hs = none := by
  induction n with
  | zero =>
    intro hs hl hh
    match hs, hl with
    | [c], _ => simp [hexLoop, hh c (by simp)]
  | succ n ih =>
    intro hs hl hh
    match hs, hl with
    | c1 :: c2 :: r, hl =>
      obtain ⟨v1, e1⟩ := hexVal_some_of_isHex (hh c1 (by simp))
      obtain ⟨v2, e2⟩ := hexVal_some_of_isHex (hh c2 (by simp))
      have hr : hexLoop r = none := ih r (by simp at hl; omega) (fun x hx => hh x (by simp [hx]))
      simp [hexLoop, e1, e2, hr]

/-- a non-hex byte in the second place of a pair is an error, whatever follows -/
theorem hexLoop_nonhex_odd (n : Nat) (c : Nat) (hc : isHex c = false) (t : Bytes) :
    ∀ hs : Bytes, hs.length = 2 * n + 1 → AllHex hs → hexLoop (hs ++ c :: t) = none := by
  induction n with
  | zero =>
    intro hs hl hh
    match hs, hl with
    | [a], _ =>
      obtain ⟨v1, e1⟩ := hexVal_some_of_isHex (hh a (by simp))
      simp [hexLoop, e1, hexVal_none_of_not_isHex hc]
  | succ n ih =>
    intro hs hl hh
    match hs, hl with
    | c1 :: c2 :: r, hl =>
      obtain ⟨v1, e1⟩ := hexVal_some_of_isHex (hh c1 (by simp))
      obtain ⟨v2, e2⟩ := hexVal_some_of_isHex (hh c2 (by simp))
      have hr : hexLoop (r ++ c :: t) = none := ih r (by simp at hl; omega) (fun x hx => hh x (by simp [hx]))
      simp [hexLoop, e1, e2, hr]

/-! ## the reader loop -/

theorem readLoop_delta (xs rest : Bytes) (st : St) (hx : Plain xs) (hd : st.deltaRead = false) :
    readLoop (xs ++ rest) st = readLoop rest { st with deltaBf := st.deltaBf ++ xs } := by
  induction xs generalizing st with
  | nil => simp
  | cons b xs ih =>
    have hb := hx b (by simp)
    simp only [List.cons_append]
    rw [readLoop]
    simp only [hb.1, hb.2, if_false, hd]
    rw [ih _ (fun x h => hx x (by simp [h])) hd]
    simp [List.append_assoc]

theorem readLoop_out (xs rest : Bytes) (st : St) (hx : Plain xs) (hd : st.deltaRead = true) :
    readLoop (xs ++ rest) st = readLoop rest { st with out := st.out ++ xs } := by
  induction xs generalizing st with
  | nil => simp
  | cons b xs ih =>
    have hb := hx b (by simp)
    simp only [List.cons_append]
    rw [readLoop]
    simp only [hb.1, hb.2, if_false, hd, if_true]
    rw [ih _ (fun x h => hx x (by simp [h])) hd]
    simp [List.append_assoc]

/-- a line `a ' ' h '\n'` whose first field scans: `Read` returns `(d, h)` and consumes exactly the line -/
theorem readLoop_line (a h rest : Bytes) (d : Int) (ha : Plain a) (hh : Plain h) (hd : scanDelta a = some d) :
    readLoop (a ++ 32 :: (h ++ 10 :: rest)) {} = (.ok (d, h), rest) := by
  rw [readLoop_delta a _ {} ha rfl]
  rw [readLoop]
  simp only [if_true, List.nil_append, hd]
  rw [readLoop_out h _ _ hh rfl]
  rw [readLoop]
  simp

/-- a line without separator: `Read` returns `(0, nil)` and consumes exactly the line -/
theorem readLoop_nosep (a rest : Bytes) (ha : Plain a) :
    readLoop (a ++ 10 :: rest) {} = (.ok (0, []), rest) := by
  rw [readLoop_delta a _ {} ha rfl]
  rw [readLoop]
  simp

/-- self-framing of `Read`: nothing behind the first newline is looked at -/
theorem readLoop_framing (l rest : Bytes) (st : St) (hl : ∀ b ∈ l, b ≠ 10) :
    readLoop (l ++ 10 :: rest) st = ((readLoop (l ++ [10]) st).1, (readLoop (l ++ [10]) st).2 ++ rest) := by
  induction l generalizing st with
  | nil => simp [readLoop]
  | cons b l ih =>
    have hb := hl b (by simp)
    have hl' : ∀ x ∈ l, x ≠ 10 := fun x h => hl x (by simp [h])
    simp only [List.cons_append]
    rw [readLoop, readLoop.eq_2 b (l ++ [10])]
    by_cases h32 : b = 32
    · simp only [h32, if_true]
      cases scanDelta st.deltaBf with
      | none => simp
      | some d => exact ih _ hl'
    · simp only [h32, hb, if_false]
      by_cases hdr : st.deltaRead = true
      · simp only [hdr, if_true]; exact ih _ hl'
      · simp only [hdr]; exact ih _ hl'

theorem readAndConvert_framing (l rest : Bytes) (hl : ∀ b ∈ l, b ≠ 10) :
    readAndConvert (l ++ 10 :: rest) = ((readAndConvert (l ++ [10])).1, (readAndConvert (l ++ [10])).2 ++ rest) := by
  unfold readAndConvert
  rw [readLoop_framing l rest {} hl]
  cases h : readLoop (l ++ [10]) {} with
  | mk r rem =>
    cases r with
    | error k => rfl
    | ok p =>
      obtain ⟨d, out⟩ := p
      simp only
      cases scanHex out with
      | none => rfl
      | some bs => rfl

/-- without a newline `Read` cannot succeed -/
theorem readLoop_no_terminator (l : Bytes) (st : St) (hl : ∀ b ∈ l, b ≠ 10) :
    ∃ k rem, readLoop l st = (.error k, rem) ∧ k ≠ .hex := by
  induction l generalizing st with
  | nil => exact ⟨.read, [], rfl, by decide⟩
  | cons b l ih =>
    have hb := hl b (by simp)
    have hl' : ∀ x ∈ l, x ≠ 10 := fun x h => hl x (by simp [h])
    rw [readLoop]
    by_cases h32 : b = 32
    · simp only [h32, if_true]
      cases scanDelta st.deltaBf with
      | none => exact ⟨.delta, l, rfl, by decide⟩
      | some d => exact ih _ hl'
    · simp only [h32, hb, if_false]
      by_cases hdr : st.deltaRead = true
      · simp only [hdr, if_true]; exact ih _ hl'
      · simp only [hdr]; exact ih _ hl'

/-! ## records and streams -/

/-- a record of the property's domain: `int32` time stamp, at least one message byte, bytes < 256 -/
def RecOK (r : Int × Bytes) : Prop := Int32 r.1 ∧ r.2 ≠ [] ∧ AllBytes r.2

theorem readAndConvert_line (a h rest : Bytes) (d : Int) (ha : Plain a) (hh : Plain h)
    (hd : scanDelta a = some d) :
    readAndConvert (a ++ 32 :: (h ++ 10 :: rest)) =
      (match scanHex h with | none => .err .hex | some bs => .ok d bs, rest) := by
  unfold readAndConvert
  rw [readLoop_line a h rest d ha hh hd]
  simp only
  cases scanHex h <;> rfl

theorem encodeRec_append (ts : Int) (bs rest : Bytes) :
    encodeRec ts bs ++ rest = decimal ts ++ 32 :: (hexStr bs ++ 10 :: rest) := by
  simp [encodeRec, List.append_assoc]

theorem readAndConvert_encodeRec (ts : Int) (bs rest : Bytes) (h : RecOK (ts, bs)) :
    readAndConvert (encodeRec ts bs ++ rest) = (.ok ts bs, rest) := by
  rw [encodeRec_append,
    readAndConvert_line _ _ rest ts (plain_decimal ts) (plain_of_allHex (allHex_hexStr bs)) (scanDelta_decimal ts h.1),
    scanHex_hexStr bs h.2.1 h.2.2]

theorem readMany_encodeStream (recs : List (Int × Bytes)) (rest : Bytes) (h : ∀ r ∈ recs, RecOK r) :
    readMany recs.length (encodeStream recs ++ rest) = (recs.map (fun r => Res.ok r.1 r.2), rest) := by
  induction recs with
  | nil => rfl
  | cons r recs ih =>
    obtain ⟨ts, bs⟩ := r
    simp only [encodeStream, List.length_cons, readMany, List.append_assoc]
    rw [readAndConvert_encodeRec ts bs _ (h _ (by simp))]
    simp only
    rw [ih (fun x hx => h x (by simp [hx]))]
    simp

/-- a prefix call that consumes exactly `bad`, then the records -/
theorem readMany_after (bad : Bytes) (r : Res) (recs : List (Int × Bytes)) (rest : Bytes)
    (hbad : readAndConvert (bad ++ (encodeStream recs ++ rest)) = (r, encodeStream recs ++ rest))
    (h : ∀ x ∈ recs, RecOK x) :
    readMany (recs.length + 1) (bad ++ (encodeStream recs ++ rest)) =
      (r :: recs.map (fun x => Res.ok x.1 x.2), rest) := by
  simp only [readMany]
  rw [hbad]
  simp only
  rw [readMany_encodeStream recs rest h]

/-! ## fragmenting source -/

/-- the sources the property quantifies over: every piece delivers at least one byte, EOF comes alone -/
def Src.Good (s : Src) : Prop := (∀ f ∈ s.frags, 1 ≤ f) ∧ s.eofWithData = false

theorem read1_nil (s : Src) (h : s.data = []) : read1 s = (none, s) := by
  simp [read1, Src.read, h]

theorem read1_good (s : Src) (b : Nat) (r : Bytes) (hg : s.Good) (h : s.data = b :: r) :
    ∃ s', read1 s = (some b, s') ∧ s'.data = r ∧ s'.Good := by
  obtain ⟨hf, he⟩ := hg
  unfold read1 Src.read
  simp only [h, he]
  cases hfr : s.frags with
  | nil =>
    simp
    exact ⟨by simp [hfr], he⟩
  | cons f fs =>
    have hf1 : 1 ≤ f := hf f (by simp [hfr])
    have hf0 : (f = 0) = False := by simp; omega
    have hmin : min 1 (min f (r.length + 1)) = 1 := by omega
    simp only [hf0, if_false, List.length_cons, hmin]
    simp
    refine ⟨?_, he⟩
    intro x hx
    by_cases h1 : f - 1 = 0
    · simp [h1] at hx; exact hf x (by simp [hfr, hx])
    · simp [h1] at hx
      rcases hx with rfl | hx
      · omega
      · exact hf x (by simp [hfr, hx])

theorem readLoopS_eq (fuel : Nat) (s : Src) (st : St) (hg : s.Good) (hfu : s.data.length + 1 ≤ fuel) :
    ∃ s', readLoopS fuel s st = ((readLoop s.data st).1, s') ∧ s'.data = (readLoop s.data st).2 ∧ s'.Good := by
  induction fuel generalizing s st with
  | zero => omega
  | succ fuel ih =>
    cases hd : s.data with
    | nil =>
      refine ⟨s, ?_, by simp [readLoop, hd], hg⟩
      simp [readLoopS, read1_nil s hd, readLoop]
    | cons b r =>
      obtain ⟨s1, h1, hdata, hg1⟩ := read1_good s b r hg hd
      have hfu1 : s1.data.length + 1 ≤ fuel := by rw [hdata]; rw [hd] at hfu; simp at hfu; omega
      rw [readLoopS, h1, readLoop]
      simp only
      by_cases h32 : b = 32
      · simp only [h32, if_true]
        cases scanDelta st.deltaBf with
        | none => exact ⟨s1, rfl, hdata, hg1⟩
        | some d =>
          simp only
          rw [← hdata]; exact ih s1 _ hg1 hfu1
      · simp only [h32, if_false]
        by_cases h10 : b = 10
        · simp only [h10, if_true]; exact ⟨s1, rfl, hdata, hg1⟩
        · simp only [h10, if_false]
          by_cases hdr : st.deltaRead = true
          · simp only [hdr, if_true]; rw [← hdata]; exact ih s1 _ hg1 hfu1
          · simp only [hdr]; rw [← hdata]; exact ih s1 _ hg1 hfu1

theorem readAndConvertS_eq (s : Src) (hg : s.Good) :
    ∃ s', readAndConvertS s = ((readAndConvert s.data).1, s') ∧ s'.data = (readAndConvert s.data).2 ∧ s'.Good := by
  obtain ⟨s', h1, h2, h3⟩ := readLoopS_eq s.fuel s {} hg (by simp [Src.fuel]; omega)
  refine ⟨s', ?_, ?_, h3⟩
  · unfold readAndConvertS readAndConvert
    rw [h1]
    cases readLoop s.data {} with
    | mk r rem =>
      cases r with
      | error k => rfl
      | ok p =>
        obtain ⟨d, out⟩ := p
        simp only
        cases scanHex out <;> rfl
  · unfold readAndConvert
    rw [h2]
    cases readLoop s.data {} with
    | mk r rem =>
      cases r with
      | error k => rfl
      | ok p =>
        obtain ⟨d, out⟩ := p
        simp only
        cases scanHex out <;> rfl

theorem readManyS_eq (n : Nat) (s : Src) (hg : s.Good) :
    ∃ s', readManyS n s = ((readMany n s.data).1, s') ∧ s'.data = (readMany n s.data).2 ∧ s'.Good := by
  induction n generalizing s with
  | zero => exact ⟨s, rfl, rfl, hg⟩
  | succ n ih =>
    obtain ⟨s1, h1, hd1, hg1⟩ := readAndConvertS_eq s hg
    obtain ⟨s2, h2, hd2, hg2⟩ := ih s1 hg1
    refine ⟨s2, ?_, ?_, hg2⟩
    · simp only [readManyS, readMany, h1, h2, hd1]
    · simp only [readMany]; rw [hd2, hd1]

end Midi.Midicat
