import Proofs.SmfTrack
/-! File-level round trip: chunk loop, header, and the link to `writeTo`. -/
namespace Midi.Smf
open Midi.Vlq

/-- a closed track in AST form: body and the delta of its end-of-track event -/
abbrev CTrack := ATrack × Nat

def prepTrack (t : CTrack) : Track := t.1.map evOf ++ [⟨t.2, EOT⟩]

def CTrackOK (t : CTrack) : Prop := BodyOK t.1 ∧ t.2 < 4294967296

def chunkBytes (rsOn : Bool) (t : CTrack) : Bytes :=
  encChunk MTrk (encBodyL rsOn 0 t.1 ++ (encode t.2 ++ EOT))

theorem readN4 (a b c d : Nat) (rest : Bytes) : readN 4 (a :: b :: c :: d :: rest) = .ok ([a, b, c, d], rest) := by
  simp [readN]

/-- entering a track chunk -/
theorem readLoop_chunk (f n k rr L : Nat) (T : List Track) (bs : Bytes) :
    readLoop (f+1) ⟨n, k, true, rr, false, T⟩ (MTrk ++ be32 L ++ bs)
      = readLoop (f+1) ⟨n, k + 1, false, rr, false, T⟩ bs := by
  simp [readLoop, chunkLoop, MTrk, be32, readN4, bind, Except.bind, pure, Except.pure]

theorem readN2 (a b : Nat) (rest : Bytes) : readN 2 (a :: b :: rest) = .ok ([a, b], rest) := by
  simp [readN]

theorem readLoop_done (f n k rr : Nat) (e : Bool) (T : List Track) (bs : Bytes) :
    readLoop (f+1) ⟨n, k, e, rr, true, T⟩ bs = (⟨n, k, e, rr, true, T⟩, .finished) := by
  simp [readLoop]

def evCount (ts : List CTrack) : Nat := (ts.map (fun t => t.1.length + 1)).sum

theorem readLoop_tracks (rsOn : Bool) (tail : Bytes) :
    ∀ (ts : List CTrack) (done : List Track) (fuel n : Nat), ts ≠ [] → (∀ t ∈ ts, CTrackOK t) → evCount ts < fuel →
    n = done.length + ts.length →
    readLoop fuel ⟨n, done.length, true, 0, false, done ++ List.replicate ts.length []⟩
        ((ts.map (chunkBytes rsOn)).flatten ++ tail)
      = (⟨n, n, false, 0, true, done ++ ts.map prepTrack⟩, .finished) := by
  intro ts
  induction ts with
  | nil => intro _ _ _ h; exact absurd rfl h
  | cons t ts ih =>
    intro done fuel n _ hok hf hn
    obtain ⟨body, δe⟩ := t
    obtain ⟨hb, hδ⟩ := hok (body, δe) (by simp)
    have hok' : ∀ t ∈ ts, CTrackOK t := fun t ht => hok t (by simp [ht])
    simp only [evCount, List.map_cons, List.sum_cons] at hf
    cases fuel with
    | zero => omega
    | succ f =>
      have hc := readLoop_chunk f n done.length 0
        ((encBodyL rsOn 0 body ++ (encode δe ++ EOT)).length % 4294967296)
        (done ++ [] :: List.replicate ts.length [])
        (encBodyL rsOn 0 body ++ (encode δe ++ EOT ++ ((ts.map (chunkBytes rsOn)).flatten ++ tail)))
      have ht := readLoop_track rsOn body δe n done (List.replicate ts.length [])
        ((ts.map (chunkBytes rsOn)).flatten ++ tail) hδ hb [] 0 0 (f+1) (by simp [Track.isClosed]) (fun _ => rfl) (by omega)
      have hbytes : (List.map (chunkBytes rsOn) ((body, δe) :: ts)).flatten ++ tail
          = MTrk ++ be32 ((encBodyL rsOn 0 body ++ (encode δe ++ EOT)).length % 4294967296) ++
            (encBodyL rsOn 0 body ++ (encode δe ++ EOT ++ ((ts.map (chunkBytes rsOn)).flatten ++ tail))) := by
        simp [chunkBytes, encChunk, List.append_assoc]
      rw [hbytes, List.length_cons, List.replicate_succ, hc, ht]
      cases ts with
      | nil =>
        have e1 : (done.length + 1 == n) = true := by simp [hn]
        have e2 : f + 1 - (body.length + 1) = (f - (body.length + 1)) + 1 := by omega
        rw [e1, e2]
        simp [readLoop_done, prepTrack, hn]
      | cons t2 ts2 =>
        have e1 : (done.length + 1 == n) = false := by simp [hn]
        have := ih (done ++ [prepTrack (body, δe)]) (f + 1 - (body.length + 1)) n (by simp) hok'
          (by simp only [evCount] at hf ⊢; omega) (by simp [hn]; omega)
        have l1 : (done ++ [prepTrack (body, δe)]).length = done.length + 1 := by simp
        have l2 : ∀ R : List Track, (done ++ [prepTrack (body, δe)]) ++ R = done ++ prepTrack (body, δe) :: R := by simp
        rw [l1, l2, l2] at this
        rw [e1]
        simpa [prepTrack] using this

/-! ### link to the byte-level writer -/

theorem encTrackBody_prep (rsOn : Bool) (body : ATrack) (δe : Nat) (hb : BodyOK body) (hδ : δe < 4294967296) :
    ∀ rs, encTrackBody rsOn rs (prepTrack (body, δe)) = some (encBodyL rsOn rs body ++ (encode δe ++ EOT)) := by
  induction body with
  | nil =>
    intro rs
    have hm : δe % 4294967296 = δe := Nat.mod_eq_of_lt hδ
    cases rsOn <;> simp [prepTrack, encTrackBody, encMsg, EOT, isChanStatus, encBodyL, hm]
  | cons x body ih =>
    intro rs
    obtain ⟨δ, e⟩ := x
    obtain ⟨hv, _, hd⟩ := hb (δ, e) (by simp)
    have hm : δ % 4294967296 = δ := Nat.mod_eq_of_lt hd
    have ih' := ih (fun y hy => hb y (by simp [hy])) (encBody rsOn rs e).2
    simp only [prepTrack, List.map_cons, List.cons_append, evOf] at ih' ⊢
    simp only [encTrackBody, encMsg_toBytes rsOn rs e hv, ih', hm, encBodyL, List.append_assoc]

def ValidTF : TimeFormat → Prop
  | .metric q => 1 ≤ q ∧ q ≤ 32767
  | .smpte fps sub => 1 ≤ fps ∧ fps ≤ 128 ∧ sub < 256

theorem be16_dec (n : Nat) (h : n < 65536) : n / 256 % 256 * 256 + n % 256 = n := by
  have h1 : n / 256 < 256 := by
    rw [Nat.div_lt_iff_lt_mul (by decide)]; exact h
  rw [Nat.mod_eq_of_lt h1]
  exact Nat.div_add_mod' n 256

theorem parseTF_enc (tf : TimeFormat) (h : ValidTF tf) :
    ∃ a b, encTimeFormat tf = [a, b] ∧ parseTimeFormat a b = tf := by
  cases tf with
  | metric q =>
    obtain ⟨h1, h2⟩ := h
    refine ⟨q / 256 % 256, q % 256, ?_, ?_⟩
    · have : ¬ q = 0 := by omega
      have h3 : ¬ q > 32767 := by omega
      simp [encTimeFormat, this, h3, be16]
    · have : q / 256 % 256 < 128 := by omega
      simp [parseTimeFormat, this, be16_dec q (by omega)]
  | smpte fps sub =>
    obtain ⟨h1, h2, h3⟩ := h
    refine ⟨(256 - fps % 256) % 256, sub % 256, rfl, ?_⟩
    have e1 : fps % 256 = fps := Nat.mod_eq_of_lt (by omega)
    have e2 : (256 - fps) % 256 = 256 - fps := Nat.mod_eq_of_lt (by omega)
    have e3 : ¬ (256 - fps < 128) := by omega
    have e4 : sub % 256 = sub := Nat.mod_eq_of_lt h3
    have e5 : 256 - (256 - fps) = fps := by omega
    simp [parseTimeFormat, e1, e2, e3, e4, e5]

theorem encBodyL_length (rsOn : Bool) (body : ATrack) : ∀ rs, body.length ≤ (encBodyL rsOn rs body).length := by
  induction body with
  | nil => intro rs; simp [encBodyL]
  | cons x body ih =>
    intro rs
    obtain ⟨δ, e⟩ := x
    have h1 := ih (encBody rsOn rs e).2
    have h2 : 1 ≤ (encode δ).length := by simp [encode]
    simp only [encBodyL, List.length_append, List.length_cons]
    omega

theorem evCount_le (rsOn : Bool) (ts : List CTrack) : evCount ts ≤ ((ts.map (chunkBytes rsOn)).flatten).length := by
  induction ts with
  | nil => simp [evCount]
  | cons t ts ih =>
    have := encBodyL_length rsOn t.1 0
    simp only [evCount] at ih
    simp only [evCount, List.map_cons, List.sum_cons, List.flatten_cons, List.length_append, chunkBytes, encChunk,
      List.length_cons, MTrk, be32, EOT]
    omega

/-- file level: the reader model on (header ++ track chunks ++ anything) -/
theorem readFrom_enc (rsOn : Bool) (fmt : Nat) (tf : TimeFormat) (ts : List CTrack) (tail : Bytes)
    (hfmt : fmt ≤ 2) (htf : ValidTF tf) (hne : ts ≠ []) (hn : ts.length < 65536) (hok : ∀ t ∈ ts, CTrackOK t) :
    readFrom (encHeader fmt ts.length tf ++ ((ts.map (chunkBytes rsOn)).flatten ++ tail))
      = .ok ⟨fmt, tf, ts.map prepTrack⟩ := by
  obtain ⟨a, b, hab, hp⟩ := parseTF_enc tf htf
  have hl := readLoop_tracks rsOn tail ts [] (((ts.map (chunkBytes rsOn)).flatten ++ tail).length + 2) ts.length hne hok
    (by have := evCount_le rsOn ts; simp only [List.length_append]; omega) (by simp)
  simp only [List.length_nil, List.nil_append] at hl
  have e1 : fmt / 256 % 256 * 256 + fmt % 256 = fmt := be16_dec fmt (by omega)
  have e2 : ts.length / 256 % 256 * 256 + ts.length % 256 = ts.length := be16_dec _ hn
  have e3 : ¬ (2 < fmt) := by omega
  simp only [readFrom, encHeader, encChunk, MThd, be32, be16, hab, List.cons_append, List.nil_append,
    List.append_assoc, readN4, readN2, val16, tfOf2, e1, e2, hp, ne_eq, not_true_eq_false, if_false, gt_iff_lt, e3, hl]
  simp [RState.missing]

end Midi.Smf
