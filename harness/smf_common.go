package main

import (
	"bufio"
	"bytes"
	"fmt"
	"io"
	"os"
	"path/filepath"
	"strconv"
	"strings"

	"gitlab.com/gomidi/midi/v2/smf"
)

// ---------- canonical text form of SMF content (same as the Lean model's showFile) ----------

func showTF(tf smf.TimeFormat) string {
	switch t := tf.(type) {
	case smf.MetricTicks:
		return fmt.Sprintf("m:%d", uint16(t))
	case smf.TimeCode:
		return fmt.Sprintf("s:%d:%d", t.FramesPerSecond, t.SubFrames)
	}
	return "?"
}

func showTrack(t smf.Track) string {
	if len(t) == 0 {
		return "-"
	}
	var sb strings.Builder
	for i, e := range t {
		if i > 0 {
			sb.WriteByte(',')
		}
		sb.WriteString(strconv.FormatUint(uint64(e.Delta), 10))
		sb.WriteByte(':')
		sb.WriteString(hx(e.Message))
	}
	return sb.String()
}

func showSMF(s *smf.SMF) string {
	var sb strings.Builder
	fmt.Fprintf(&sb, "%d/%s/", s.Format(), showTF(s.TimeFormat))
	if len(s.Tracks) == 0 {
		sb.WriteString("none")
	}
	for i, t := range s.Tracks {
		if i > 0 {
			sb.WriteByte('|')
		}
		sb.WriteString(showTrack(t))
	}
	return sb.String()
}

// readClass runs smf.ReadFrom on in-memory bytes: "ok:<content>" | "error" | "panic".
func readClass(b []byte) string {
	var out string
	if p := try(func() {
		s, err := smf.ReadFrom(bytes.NewReader(b))
		if err != nil {
			out = "error"
		} else {
			out = "ok:" + showSMF(s)
		}
	}); p != "" {
		return "panic"
	}
	return out
}

// readClassLogged: the same read with a logger configured (smf.Log): logging must not change the result
func readClassLogged(b []byte) string {
	var out string
	if p := try(func() {
		s, err := smf.ReadFrom(bytes.NewReader(b), smf.Log(smf.LogTo(io.Discard)))
		if err != nil {
			out = "error"
		} else {
			out = "ok:" + showSMF(s)
		}
	}); p != "" {
		return "panic"
	}
	return out
}

// readClassFile: the bytes written to a file and read with smf.ReadFile (an *os.File: a Seeker that is no ByteReader)
func readClassFile(b []byte) string {
	dir := os.Getenv("VERIF_WORK")
	if dir == "" {
		dir = os.TempDir()
	}
	path := filepath.Join(dir, fmt.Sprintf("rd-%d.mid", os.Getpid()))
	if err := os.WriteFile(path, b, 0644); err != nil {
		return "harness: " + err.Error()
	}
	defer os.Remove(path)
	var out string
	if p := try(func() {
		s, err := smf.ReadFile(path)
		if err != nil {
			out = "error"
		} else {
			out = "ok:" + showSMF(s)
		}
	}); p != "" {
		return "panic"
	}
	return out
}

// otherSources: the same bytes through sources with other method sets than bytes.Reader — an *os.File and an
// io.SectionReader (Seekers without ReadByte), a bufio.Reader, a strings.Reader, a bytes.Buffer: all must read alike.
func otherSources(b []byte, mem string) string {
	if got := readClassFile(b); got != mem && !strings.HasPrefix(got, "harness:") {
		return "smf.ReadFile of the same bytes gives " + short(got) + ", ReadFrom(bytes.Reader) " + short(mem)
	}
	srcs := []struct {
		name string
		rd   io.Reader
	}{
		{"io.SectionReader", io.NewSectionReader(bytes.NewReader(b), 0, int64(len(b)))},
		{"bufio.Reader(16)", bufio.NewReaderSize(bytes.NewReader(b), 16)},
		{"bufio.Reader", bufio.NewReader(bytes.NewReader(b))},
		{"strings.Reader", strings.NewReader(string(b))},
		{"bytes.Buffer", bytes.NewBuffer(append([]byte{}, b...))},
		{"iotest-like one byte reader over a SectionReader", &oneByteSeeker{io.NewSectionReader(bytes.NewReader(b), 0, int64(len(b)))}},
	}
	for _, s := range srcs {
		if got := readClassFrom(s.rd); got != mem {
			return "ReadFrom(" + s.name + ") gives " + short(got) + ", ReadFrom(bytes.Reader) " + short(mem)
		}
	}
	return ""
}

// oneByteSeeker: a Seeker that delivers at most 7 bytes per Read
type oneByteSeeker struct{ *io.SectionReader }

func (o *oneByteSeeker) Read(p []byte) (int, error) {
	if len(p) > 7 {
		p = p[:7]
	}
	return o.SectionReader.Read(p)
}

// ---------- histories ----------

type histOp struct {
	kind  byte // 'a' add, 'c' close, 's' smf.Add
	i     int
	delta uint32
	msgs  [][]byte
}

type history struct {
	format int
	tf     smf.TimeFormat
	nors   bool
	ops    []histOp
}

func (h *history) String() string {
	var parts []string
	for _, o := range h.ops {
		switch o.kind {
		case 'a':
			var ms []string
			for _, m := range o.msgs {
				ms = append(ms, hx(m))
			}
			parts = append(parts, fmt.Sprintf("a:%d:%d:%s", o.i, o.delta, strings.Join(ms, "/")))
		case 'c':
			parts = append(parts, fmt.Sprintf("c:%d:%d", o.i, o.delta))
		case 's':
			parts = append(parts, fmt.Sprintf("s:%d", o.i))
		}
	}
	ops := strings.Join(parts, ";")
	if ops == "" {
		ops = "-"
	}
	nors := 0
	if h.nors {
		nors = 1
	}
	return fmt.Sprintf("smf.hist new=%d tf=%s nors=%d ops=%s", h.format, showTF(h.tf), nors, ops)
}

func parseTF(s string) smf.TimeFormat {
	p := strings.Split(s, ":")
	if p[0] == "m" {
		q, _ := strconv.Atoi(p[1])
		return smf.MetricTicks(q)
	}
	f, _ := strconv.Atoi(p[1])
	u, _ := strconv.Atoi(p[2])
	return smf.TimeCode{FramesPerSecond: uint8(f), SubFrames: uint8(u)}
}

func parseHistory(op string) (*history, map[string]string) {
	f := fields(op)
	h := &history{}
	h.format, _ = strconv.Atoi(f["new"])
	h.tf = parseTF(f["tf"])
	h.nors = f["nors"] == "1"
	if f["ops"] != "-" && f["ops"] != "" {
		for _, o := range strings.Split(f["ops"], ";") {
			p := strings.Split(o, ":")
			switch p[0] {
			case "a":
				i, _ := strconv.Atoi(p[1])
				d, _ := strconv.ParseUint(p[2], 10, 64)
				var msgs [][]byte
				for _, m := range strings.Split(p[3], "/") {
					// messages with spare capacity (as midi.SysEx() or append-built slices have): aliasing bugs need it
					raw := unhx(m)
					mm := make([]byte, len(raw), len(raw)+8)
					copy(mm, raw)
					msgs = append(msgs, mm)
				}
				h.ops = append(h.ops, histOp{'a', i, uint32(d), msgs})
			case "c":
				i, _ := strconv.Atoi(p[1])
				d, _ := strconv.ParseUint(p[2], 10, 64)
				h.ops = append(h.ops, histOp{'c', i, uint32(d), nil})
			case "s":
				i, _ := strconv.Atoi(p[1])
				h.ops = append(h.ops, histOp{'s', i, 0, nil})
			}
		}
	}
	return h, f
}

// build replays the history through the public API.
func (h *history) build() *smf.SMF {
	var s *smf.SMF
	switch h.format {
	case 0:
		s = smf.New()
	case 1:
		s = smf.NewSMF1()
	default:
		s = smf.NewSMF2()
	}
	s.TimeFormat = h.tf
	s.NoRunningStatus = h.nors
	var locals []smf.Track
	loc := func(i int) *smf.Track {
		for len(locals) <= i {
			locals = append(locals, nil)
		}
		return &locals[i]
	}
	for _, o := range h.ops {
		switch o.kind {
		case 'a':
			loc(o.i).Add(o.delta, o.msgs...)
		case 'c':
			loc(o.i).Close(o.delta)
		case 's':
			s.Add(*loc(o.i))
		}
	}
	return s
}

// ---------- generators ----------

var boundaryDeltas = []uint32{0, 0, 0, 1, 10, 96, 127, 128, 129, 480, 16383, 16384, 16385, 2097151, 2097152, 268435455}
var hugeDeltas = []uint32{268435456, 268435457, 4294967295, 4294967294, 2147483648}

func genDelta(r *Rng, allowHuge bool) uint32 {
	switch r.Intn(10) {
	case 0, 1, 2, 3:
		return boundaryDeltas[r.Intn(len(boundaryDeltas))]
	case 4:
		if allowHuge {
			return hugeDeltas[r.Intn(len(hugeDeltas))]
		}
		return uint32(r.Intn(1 << 28))
	case 5:
		return uint32(r.U64() % (1 << 28))
	default:
		return uint32(r.Intn(300))
	}
}

func genLen(r *Rng, tier string) int {
	if r.Chance(1, 100) { // beyond the 4096-byte step of ReadNBytes (bounded-growth path)
		return r.Pick(4095, 4096, 4097, 4098, 5000, 8192, 8193, 16383, 16384, 16385, 20000)
	}
	switch r.Intn(12) {
	case 0:
		return 0
	case 1:
		return 127
	case 2:
		return 128
	case 3:
		return 129
	case 4:
		if tier == "thorough" {
			return r.Pick(200, 300, 1000, 2000, 4097)
		}
		return r.Pick(200, 300)
	default:
		return r.Intn(12)
	}
}

// genChannelMsg returns a well-formed channel message; statuses come from a small pool so that
// running status (equal consecutive statuses) is frequent.
func genChannelMsg(r *Rng, pool []byte) []byte {
	st := pool[r.Intn(len(pool))]
	d1 := byte(r.Intn(128))
	if k := st >> 4; k == 0xC || k == 0xD {
		return []byte{st, d1}
	}
	return []byte{st, d1, byte(r.Intn(128))}
}

func vlq(n uint32) []byte {
	out := []byte{byte(n & 0x7F)}
	n >>= 7
	for n > 0 {
		out = append([]byte{byte(n&0x7F) | 0x80}, out...)
		n >>= 7
	}
	return out
}

// canonicalMeta: a meta event of the exact size its type prescribes, with the values a reader might treat specially
// (tempo 0 = infinitely fast, the slowest tempo, a few values that repeat from call to call; zero denominators and
// clocks; key signatures beyond seven accidentals; sequence numbers with and without payload)
func canonicalMeta(r *Rng) []byte {
	switch r.Intn(7) {
	case 0, 1:
		v := r.Pick(0, 0, 1, 500000, 500000, 0x07A120, 0xFFFFFF, 0x800000, r.Intn(1<<24))
		return []byte{0xFF, 0x51, 0x03, byte(v >> 16), byte(v >> 8), byte(v)}
	case 2:
		return []byte{0xFF, 0x58, 0x04, byte(r.Pick(0, 1, 4, 6, 255)), byte(r.Pick(0, 1, 2, 3, 7, 8, 255)), byte(r.Pick(0, 8, 24, 255)), byte(r.Pick(0, 8, 255))}
	case 3:
		return []byte{0xFF, 0x59, 0x02, byte(r.Pick(0, 1, 7, 8, 0x7F, 0x80, 0x81, 0xF9, 0xFF)), byte(r.Pick(0, 1, 1, 2, 255))}
	case 4:
		return []byte{0xFF, 0x54, 0x05, byte(r.Pick(0, 23, 0x20, 0x40, 0x60, 255)), byte(r.Intn(256)), byte(r.Intn(256)), byte(r.Pick(0, 24, 29, 255)), byte(r.Pick(0, 99, 100, 255))}
	case 5:
		if r.Bool() {
			return []byte{0xFF, 0x00, 0x00}
		}
		return []byte{0xFF, 0x00, 0x02, byte(r.Pick(0, 1, 255)), byte(r.Pick(0, 1, 255))}
	}
	return []byte{0xFF, byte(r.Pick(0x20, 0x21)), 0x01, byte(r.Pick(0, 1, 15, 16, 127, 128, 255))}
}

func genMetaMsg(r *Rng, tier string) []byte {
	if r.Chance(1, 3) {
		return canonicalMeta(r)
	}
	typ := byte(r.Intn(256))
	if r.Chance(1, 2) {
		typ = []byte{0x00, 0x01, 0x02, 0x03, 0x04, 0x05, 0x06, 0x07, 0x08, 0x09, 0x20, 0x21, 0x51, 0x54, 0x58, 0x59, 0x7F, 0x2E, 0x30}[r.Intn(19)]
	}
	if typ == 0x2F {
		typ = 0x2E
	}
	n := genLen(r, tier)
	m := append([]byte{0xFF, typ}, vlq(uint32(n))...)
	return append(m, r.Bytes(n)...)
}

func genSysexMsg(r *Rng, tier string) []byte {
	lead := byte(0xF0)
	if r.Chance(1, 3) {
		lead = 0xF7
	}
	n := genLen(r, tier)
	d := r.Bytes(n)
	if r.Chance(1, 2) { // typical: 7-bit payload terminated by F7
		for i := range d {
			d[i] &= 0x7F
		}
		if lead == 0xF0 && n > 0 {
			d[n-1] = 0xF7
		}
	}
	return append([]byte{lead}, d...)
}

func genStatusPool(r *Rng) []byte {
	n := r.Range(1, 3)
	pool := make([]byte, n)
	for i := range pool {
		pool[i] = byte(0x80 + r.Intn(0x70))
	}
	if r.Chance(1, 3) { // make sure 1-data-byte kinds show up under running status
		pool[0] = byte(r.Pick(0xC0, 0xD0) + r.Intn(16))
	}
	return pool
}

func genMsg(r *Rng, pool []byte, tier string) []byte {
	switch k := r.Intn(20); {
	case k < 13:
		return genChannelMsg(r, pool)
	case k < 17:
		return genMetaMsg(r, tier)
	default:
		return genSysexMsg(r, tier)
	}
}

func genTF(r *Rng) smf.TimeFormat {
	switch r.Intn(8) {
	case 0:
		return smf.MetricTicks(1)
	case 1:
		return smf.MetricTicks(32767)
	case 2:
		return smf.MetricTicks(r.Pick(96, 480, 960, 255, 256, 127, 128))
	case 3:
		return smf.MetricTicks(r.Range(1, 32767))
	default:
		fps := uint8(r.Pick(24, 25, 29, 30))
		return smf.TimeCode{FramesPerSecond: fps, SubFrames: uint8(r.Pick(0, 1, 4, 8, 10, 40, 80, 100, 127, 128, 255, r.Intn(256)))}
	}
}

// genHistory: a protocol-respecting history in the domain of C01 (DESIGN §8): every message is a
// well-formed channel / meta (not end-of-track) / sysex message, each local track is handed to
// SMF.Add at most once.
func genHistory(r *Rng, tier string, allowHuge bool) *history {
	h := &history{format: r.Intn(3), tf: genTF(r), nors: r.Chance(1, 3)}
	nt := 1
	switch r.Intn(6) {
	case 0, 1:
		nt = 1
	case 2, 3:
		nt = 2
	case 4:
		nt = r.Range(3, 5)
	default:
		nt = r.Range(1, 12)
	}
	pool := genStatusPool(r)
	maxEv := 8
	if tier == "thorough" {
		maxEv = 30
	}
	for i := 0; i < nt; i++ {
		if r.Chance(1, 4) {
			pool = genStatusPool(r)
		}
		ne := r.Intn(maxEv)
		addedEarly := false
		if r.Chance(1, 8) { // SMF.Add before the track is filled: the SMF keeps the short copy
			h.ops = append(h.ops, histOp{'s', i, 0, nil})
			addedEarly = true
		}
		for e := 0; e < ne; e++ {
			k := r.Range(1, 3)
			if r.Chance(2, 3) {
				k = 1
			}
			var msgs [][]byte
			for j := 0; j < k; j++ {
				msgs = append(msgs, genMsg(r, pool, tier))
			}
			h.ops = append(h.ops, histOp{'a', i, genDelta(r, allowHuge), msgs})
			if r.Chance(1, 25) { // early close, later adds are ignored by the API
				h.ops = append(h.ops, histOp{'c', i, genDelta(r, allowHuge), nil})
			}
		}
		if r.Chance(2, 3) {
			h.ops = append(h.ops, histOp{'c', i, genDelta(r, allowHuge), nil})
			if r.Chance(1, 6) { // closing twice is a no-op
				h.ops = append(h.ops, histOp{'c', i, 5, nil})
			}
		}
		if !addedEarly {
			h.ops = append(h.ops, histOp{'s', i, 0, nil})
		}
	}
	return h
}

func histTags(h *history) (tags []string, nontrivial bool) {
	nev, nrs, multi := 0, 0, 0
	var last byte
	seen := map[string]bool{}
	add := func(t string) {
		if !seen[t] {
			seen[t] = true
			tags = append(tags, t)
		}
	}
	for _, o := range h.ops {
		if o.kind != 'a' {
			last = 0
			continue
		}
		if len(o.msgs) > 1 {
			multi++
		}
		for _, m := range o.msgs {
			nev++
			switch {
			case m[0] == 0xFF:
				add("meta")
				last = 0
			case m[0] == 0xF0 || m[0] == 0xF7:
				add("sysex")
				last = 0
			default:
				if m[0] == last {
					nrs++
					if len(m) == 2 {
						add("rs-1byte")
					}
				}
				last = m[0]
			}
			if len(m) > 130 {
				add("long-payload")
			}
		}
		if o.delta >= 1<<28 {
			add("delta>=2^28")
		} else if o.delta >= 1<<21 {
			add("delta>=2^21")
		} else if o.delta >= 1<<14 {
			add("delta>=2^14")
		} else if o.delta >= 1<<7 {
			add("delta>=2^7")
		}
	}
	if nrs > 0 {
		add("running-status")
	}
	if multi > 0 {
		add("multi-add")
	}
	if _, ok := h.tf.(smf.TimeCode); ok {
		add("smpte")
	} else {
		add("metric")
	}
	add(fmt.Sprintf("format%d", h.format))
	if h.nors {
		add("nors")
	}
	return tags, nev > 0
}

// bigTrackHistory: one track whose chunk body is about `body` bytes (a few large text events plus notes), optionally
// a second small track: chunk lengths above 2^16 (the length field's upper bytes come into play)
func bigTrackHistory(r *Rng, body int) *history {
	h := &history{format: 1, tf: genTF(r), nors: r.Bool()}
	left := body
	for left > 0 {
		n := 17000
		if left < n+40 {
			n = left - 10
			if n < 1 {
				n = 1
			}
		}
		txt := make([]byte, n)
		for i := range txt {
			txt[i] = byte(0x20 + r.Intn(0x5F))
		}
		h.ops = append(h.ops, histOp{'a', 0, uint32(r.Intn(500)), [][]byte{[]byte(smf.MetaText(string(txt)))}})
		h.ops = append(h.ops, histOp{'a', 0, uint32(r.Intn(500)), [][]byte{{0x90, byte(r.Intn(128)), byte(1 + r.Intn(127))}}})
		left -= n + 12
	}
	h.ops = append(h.ops, histOp{'c', 0, 0, nil}, histOp{'s', 0, 0, nil})
	h.ops = append(h.ops, histOp{'a', 1, 5, [][]byte{{0x91, 60, 100}}}, histOp{'c', 1, 0, nil}, histOp{'s', 1, 0, nil})
	return h
}
