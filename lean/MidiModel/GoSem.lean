/-!
# Semantics of the Go subset that `tools/go2lean` emits

Unsigned integers are `Nat`, signed ones `Int`; an operation that can leave the range of its Go type is followed by
the wrap of that type (`% 2^n` inline, `wrapS n` for signed types). Slices are lists (capacity and aliasing are not
modelled: the translator rejects 3-index slices and nil comparisons). `Except String` is the panic monad.
-/
namespace Go

/-- a value of an interface type: never inspected, only handed to uninterpreted functions (`opaque_funcs`) -/
abbrev Iface := Unit

/-- two's-complement wrap into `[-2^(n-1), 2^(n-1))` -/
def wrapS (n : Nat) (x : Int) : Int := (x + 2 ^ (n - 1)) % 2 ^ n - 2 ^ (n - 1)

/-- conversion of a signed value to an `n`-bit unsigned type -/
def toU (n : Nat) (x : Int) : Nat := (x % 2 ^ n).toNat

/-- `a[i]` (run-time panic when out of range) -/
def idx {α : Type} (a : List α) (i : Int) : Except String α :=
  if 0 ≤ i then
    match a[i.toNat]? with
    | some v => pure v
    | none => throw "index out of range"
  else throw "index out of range"

/-- `a[i] = v` -/
def setIdx {α : Type} (a : List α) (i : Int) (v : α) : Except String (List α) :=
  if 0 ≤ i ∧ i.toNat < a.length then pure (a.set i.toNat v) else throw "index out of range"

/-- `a[lo:hi]` with `hi ≤ len(a)` (a slice expression may reach into the capacity in Go: not modelled, it panics here) -/
def slice {α : Type} (a : List α) (lo hi : Int) : Except String (List α) :=
  if 0 ≤ lo ∧ lo ≤ hi ∧ hi.toNat ≤ a.length then pure ((a.take hi.toNat).drop lo.toNat) else throw "slice bounds out of range"

/-- `a / b` on unsigned integers (a zero divisor is a run-time panic) -/
def divU (a b : Nat) : Except String Nat := if b = 0 then throw "integer divide by zero" else pure (a / b)

/-- `a % b` on unsigned integers -/
def modU (a b : Nat) : Except String Nat := if b = 0 then throw "integer divide by zero" else pure (a % b)

/-- `binary.BigEndian.PutUint16(b, v)` (panics when `len(b) < 2`) -/
def putU16BE (b : List Nat) (v : Nat) : Except String (List Nat) :=
  if b.length < 2 then throw "index out of range" else pure ((b.set 0 (v / 256 % 256)).set 1 (v % 256))

/-- `binary.BigEndian.PutUint32(b, v)` -/
def putU32BE (b : List Nat) (v : Nat) : Except String (List Nat) :=
  if b.length < 4 then throw "index out of range"
  else pure ((((b.set 0 (v / 16777216 % 256)).set 1 (v / 65536 % 256)).set 2 (v / 256 % 256)).set 3 (v % 256))

/-- bound on the iterations of a translated general `for` loop; when it is reached the translation throws -/
def loopFuel : Nat := 1024

end Go
