package main

import (
	"bytes"
	"fmt"
	"io"
	"sort"
	"strconv"
	"strings"

	"gitlab.com/gomidi/midi/v2"
	"gitlab.com/gomidi/midi/v2/smf"
)

// C16: converting a format-0 file to format 1 preserves every event and its time.
//
// op:  convert.run src=<format>/<tf>/<track>|<track>… how=api|raw
//      (<track> = delta:hex,delta:hex…  "-" = empty track, "none" = no track; same text as showSMF)
// The model answers r=ok:<file> | r=panic | r=unmodelled.

func init() {
	register(&Prop{
		ID: "C16",
		Rule: "single-track sources from the seeded PRNG: arbitrary mixes of channel messages (all 7 kinds, a random " +
			"subset of 1..16 channels), meta, sysex and odd non-channel byte strings, about half of the deltas 0 (many events " +
			"per tick), closed and unclosed, format 0 and 2, totals pushed to 2^32-1 and below; separate streams outside the " +
			"domain of the theorems (total ticks >= 2^32, end-of-track inside the track, several tracks, no track) and " +
			"format-1 sources (early return) are compared with the model only; non-trivial = in-domain source with at least " +
			"one channel and one other message; distinct by op text",
		Gen: genC16,
		Run: runC16,
	})
	factWriters = append(factWriters, c16Facts)
}

var c16EOT = []byte{0xFF, 0x2F, 0x00}

// c16Facts dumps GetChannel of the compiled library for every first byte (16 = "not a channel message");
// 99 if the answer depends on the length of the message or on the package (midi / smf) asked.
func c16Facts(w io.Writer) {
	fmt.Fprintln(w, "/-- `Message{b, …}.GetChannel` of the compiled library for every first byte `b` (16 = false) -/")
	fmt.Fprint(w, "def c16ChanOfStatus : List Nat := [")
	for b := 0; b < 256; b++ {
		vals := map[int]bool{}
		for _, m := range [][]byte{{byte(b)}, {byte(b), 0x40}, {byte(b), 0x40, 0x40}, {byte(b), 0x7F, 0x00, 0x01}} {
			var c1, c2 uint8
			v1, v2 := 16, 16
			if midi.Message(m).GetChannel(&c1) {
				v1 = int(c1)
			}
			if smf.Message(m).GetChannel(&c2) {
				v2 = int(c2)
			}
			vals[v1] = true
			vals[v2] = true
		}
		v := 99
		if len(vals) == 1 {
			for k := range vals {
				v = k
			}
		}
		if b > 0 {
			fmt.Fprint(w, ", ")
		}
		fmt.Fprint(w, v)
	}
	fmt.Fprintln(w, "]")
}

// ---------- op text ----------

type c16Src struct {
	format int
	tf     smf.TimeFormat
	tracks []smf.Track
}

func (s *c16Src) text() string {
	var sb strings.Builder
	fmt.Fprintf(&sb, "%d/%s/", s.format, showTF(s.tf))
	if len(s.tracks) == 0 {
		sb.WriteString("none")
	}
	for i, t := range s.tracks {
		if i > 0 {
			sb.WriteByte('|')
		}
		sb.WriteString(showTrack(t))
	}
	return sb.String()
}

func parseC16(op string) (src c16Src, how string) {
	f := fields(op)
	how = f["how"]
	p := strings.SplitN(f["src"], "/", 3)
	src.format, _ = strconv.Atoi(p[0])
	src.tf = parseTF(p[1])
	if p[2] == "none" {
		return
	}
	for _, ts := range strings.Split(p[2], "|") {
		tr := smf.Track{}
		if ts != "-" {
			for _, es := range strings.Split(ts, ",") {
				q := strings.SplitN(es, ":", 2)
				d, _ := strconv.ParseUint(q[0], 10, 64)
				tr = append(tr, smf.Event{Delta: uint32(d), Message: smf.Message(unhx(q[1]))})
			}
		}
		src.tracks = append(src.tracks, tr)
	}
	return
}

func c16New(format int) *smf.SMF {
	switch format {
	case 0:
		return smf.New()
	case 1:
		return smf.NewSMF1()
	default:
		return smf.NewSMF2()
	}
}

// build makes the SMF value: through Track.Add / Track.Close / SMF.Add where that reproduces the
// source text, otherwise by filling the exported fields.
func (s *c16Src) build(how string) *smf.SMF {
	if how == "api" {
		f := c16New(s.format)
		f.TimeFormat = s.tf
		for _, t := range s.tracks {
			var tr smf.Track
			for i, e := range t {
				if i == len(t)-1 && bytes.Equal(e.Message, c16EOT) {
					tr.Close(e.Delta)
				} else {
					tr.Add(e.Delta, e.Message)
				}
			}
			f.Add(tr)
		}
		if showSMF(f) == s.text() {
			return f
		}
	}
	f := c16New(s.format)
	f.TimeFormat = s.tf
	for _, t := range s.tracks {
		tr := make(smf.Track, len(t))
		copy(tr, t)
		f.Tracks = append(f.Tracks, tr)
	}
	return f
}

// ---------- the property, evaluated on the implementation (independent of the model) ----------

type c16Item struct {
	abs uint64
	msg string
}

func c16IsEOT(m []byte) bool { return bytes.Equal(m, c16EOT) }

// channel of a MIDI 1.0 channel message, -1 for anything else
func c16Chan(m []byte) int {
	if len(m) > 0 && m[0] >= 0x80 && m[0] <= 0xEF {
		return int(m[0] & 0x0F)
	}
	return -1
}

// all events of a track with absolute ticks
func c16Timed(t smf.Track) []c16Item {
	var abs uint64
	out := make([]c16Item, 0, len(t))
	for _, e := range t {
		abs += uint64(e.Delta)
		out = append(out, c16Item{abs, string(e.Message)})
	}
	return out
}

func c16Payload(t smf.Track) []c16Item {
	var out []c16Item
	for _, it := range c16Timed(t) {
		if !c16IsEOT([]byte(it.msg)) {
			out = append(out, it)
		}
	}
	return out
}

func c16Key(items []c16Item, withAbs bool) []string {
	ks := make([]string, len(items))
	for i, it := range items {
		if withAbs {
			ks[i] = fmt.Sprintf("%d:%X", it.abs, it.msg)
		} else {
			ks[i] = fmt.Sprintf("%X", it.msg)
		}
	}
	return ks
}

func c16SameMultiset(a, b []string) bool {
	if len(a) != len(b) {
		return false
	}
	x := append([]string(nil), a...)
	y := append([]string(nil), b...)
	sort.Strings(x)
	sort.Strings(y)
	for i := range x {
		if x[i] != y[i] {
			return false
		}
	}
	return true
}

func c16SameSeq(a, b []string) bool {
	if len(a) != len(b) {
		return false
	}
	for i := range a {
		if a[i] != b[i] {
			return false
		}
	}
	return true
}

// inDomain: single track, not format 1, end-of-track at most as the last event, and every gap between consecutive
// events of one resulting track (non-channel events; each channel) below 2^32 ticks, so that the absolute ticks are
// expressible as uint32 deltas at all. (The Lean theorems assume the stronger "total < 2^32"; beyond it the oracle
// judges the implementation alone and the model is compared as everywhere.)
func c16InDomain(s *c16Src) bool {
	if s.format == 1 || len(s.tracks) != 1 {
		return false
	}
	var abs uint64
	last := map[int]uint64{}
	t := s.tracks[0]
	for i, e := range t {
		abs += uint64(e.Delta)
		if i < len(t)-1 && c16IsEOT(e.Message) {
			return false
		}
		ch := c16Chan(e.Message) // the source's end-of-track travels with the non-channel events
		if abs-last[ch] >= 1<<32 {
			return false
		}
		last[ch] = abs
	}
	return true
}

// c16Oracle judges the result of the conversion of an in-domain source against the property text.
func c16Oracle(s *c16Src, dest *smf.SMF) (bad []string) {
	src := s.tracks[0]
	if showTF(dest.TimeFormat) != showTF(s.tf) {
		bad = append(bad, "time division changed: "+showTF(s.tf)+" -> "+showTF(dest.TimeFormat))
	}
	if dest.Format() != 1 {
		bad = append(bad, fmt.Sprintf("result has format %d", dest.Format()))
	}
	if len(dest.Tracks) == 0 {
		return append(bad, "result has no track")
	}
	// termination
	for i, t := range dest.Tracks {
		if len(t) == 0 || !c16IsEOT(t[len(t)-1].Message) {
			bad = append(bad, fmt.Sprintf("result track %d does not end with end-of-track", i))
		}
		for j := 0; j+1 < len(t); j++ {
			if c16IsEOT(t[j].Message) {
				bad = append(bad, fmt.Sprintf("result track %d has an end-of-track at event %d of %d", i, j, len(t)))
				break
			}
		}
	}
	srcP := c16Payload(src)
	var all []c16Item
	for _, t := range dest.Tracks {
		all = append(all, c16Payload(t)...)
	}
	// nothing lost / duplicated / altered (messages alone), and with the absolute ticks
	if !c16SameMultiset(c16Key(srcP, false), c16Key(all, false)) {
		bad = append(bad, fmt.Sprintf("messages lost, duplicated or altered: source has %d, result tracks have %d", len(srcP), len(all)))
	} else if !c16SameMultiset(c16Key(srcP, true), c16Key(all, true)) {
		bad = append(bad, "absolute tick of a message changed (multiset of (tick, message) differs)")
	}
	// routing
	for _, it := range c16Payload(dest.Tracks[0]) {
		if c16Chan([]byte(it.msg)) >= 0 {
			bad = append(bad, fmt.Sprintf("channel message %X on the first track", it.msg))
			break
		}
	}
	lastCh := -1
	for i := 1; i < len(dest.Tracks); i++ {
		p := c16Payload(dest.Tracks[i])
		if len(p) == 0 {
			bad = append(bad, fmt.Sprintf("result track %d carries no message", i))
			continue
		}
		ch := c16Chan([]byte(p[0].msg))
		for _, it := range p {
			if c := c16Chan([]byte(it.msg)); c < 0 || c != ch {
				bad = append(bad, fmt.Sprintf("result track %d mixes channels / carries a non-channel message: %X", i, it.msg))
				break
			}
		}
		if ch <= lastCh {
			bad = append(bad, fmt.Sprintf("result track %d: channel %d after channel %d (not one track per channel in channel order)", i, ch, lastCh))
		}
		lastCh = ch
	}
	// per track: order and absolute ticks as in the source
	for i, t := range dest.Tracks {
		p := c16Payload(t)
		want := []c16Item{}
		if i == 0 {
			for _, it := range srcP {
				if c16Chan([]byte(it.msg)) < 0 {
					want = append(want, it)
				}
			}
		} else if len(p) > 0 {
			ch := c16Chan([]byte(p[0].msg))
			for _, it := range srcP {
				if c16Chan([]byte(it.msg)) == ch {
					want = append(want, it)
				}
			}
		}
		if !c16SameSeq(c16Key(p, false), c16Key(want, false)) {
			bad = append(bad, fmt.Sprintf("result track %d: messages are not those of the source in source order (%d vs %d)", i, len(p), len(want)))
		} else if !c16SameSeq(c16Key(p, true), c16Key(want, true)) {
			for k := range p {
				if p[k].abs != want[k].abs {
					bad = append(bad, fmt.Sprintf("result track %d message %d (%X): absolute tick %d, in the source %d", i, k, p[k].msg, p[k].abs, want[k].abs))
					break
				}
			}
		}
	}
	// the source's own end-of-track keeps its tick
	if n := len(src); n > 0 && c16IsEOT(src[n-1].Message) {
		st := c16Timed(src)
		dt := c16Timed(dest.Tracks[0])
		if len(dt) > 0 && c16IsEOT([]byte(dt[len(dt)-1].msg)) && dt[len(dt)-1].abs != st[n-1].abs {
			bad = append(bad, fmt.Sprintf("end-of-track of the closed source moved from tick %d to %d", st[n-1].abs, dt[len(dt)-1].abs))
		}
	}
	return
}

// runC16Big: a source with very many events (more than 2^16 for one channel), judged by the oracle alone
func runC16Big(c Case) (v Verdict) {
	f := fields(c.Op)
	n, _ := strconv.Atoi(f["n"])
	busy, _ := strconv.Atoi(f["busy"])
	var t smf.Track
	for i := 0; i < n; i++ {
		d := uint32(i % 3 % 2)
		switch {
		case i%5000 == 11:
			t = append(t, smf.Event{Delta: d, Message: smf.Message{0x90 | byte((busy+1)%16), byte(i / 5000 % 128), 0x64}})
		case i%7000 == 13:
			t = append(t, smf.Event{Delta: d, Message: smf.Message{0x80 | byte((busy+2)%16), byte(i / 7000 % 128), 0x00}})
		case i%9000 == 17:
			t = append(t, smf.Event{Delta: d, Message: smf.Message{0xFF, 0x06, 0x01, byte('a' + i/9000%26)}})
		default:
			t = append(t, smf.Event{Delta: d, Message: smf.Message{0xB0 | byte(busy), byte(i % 120), byte(i / 120 % 128)}})
		}
	}
	t = append(t, smf.Event{Delta: 5, Message: smf.Message(append([]byte(nil), c16EOT...))})
	src := c16Src{format: 0, tf: smf.MetricTicks(96), tracks: []smf.Track{t}}
	var dest smf.SMF
	if p := try(func() { dest = src.build("raw").ConvertToSMF1() }); p != "" {
		v.Oracle = append(v.Oracle, fmt.Sprintf("panic while converting a source of %d events: %s", n, short(p)))
		return
	}
	for _, b := range c16Oracle(&src, &dest) {
		v.Oracle = append(v.Oracle, fmt.Sprintf("source of %d events (channel %d busy): %s", n, busy, short(b)))
		if len(v.Oracle) > 2 {
			break
		}
	}
	return
}

func runC16(c Case, m *Model) (v Verdict) {
	if strings.HasPrefix(c.Op, "convert.big ") {
		return runC16Big(c)
	}
	src, how := parseC16(c.Op)
	mr := fields(m.Ask(c.Op))["r"]
	var dest smf.SMF
	var before string
	var s *smf.SMF
	p := try(func() {
		s = src.build(how)
		before = showSMF(s)
		dest = s.ConvertToSMF1()
	})
	if before != "" && before != src.text() {
		v.Mismatch = append(v.Mismatch, "harness: built source differs from the op: "+short(before))
		return
	}
	impl := "panic"
	if p == "" {
		impl = "ok:" + showSMF(&dest)
	}
	inDom := c16InDomain(&src)
	switch {
	case src.format == 1:
		// early return: the value comes back unchanged
		if p != "" {
			v.Oracle = append(v.Oracle, "panic on a format-1 source: "+p)
		} else if impl != "ok:"+src.text() {
			v.Oracle = append(v.Oracle, "format-1 source was changed: "+short(impl))
		}
	case inDom:
		if p != "" {
			v.Oracle = append(v.Oracle, "panic: "+p)
		} else {
			v.Oracle = append(v.Oracle, c16Oracle(&src, &dest)...)
			if after := showSMF(s); after != before {
				v.Oracle = append(v.Oracle, "the source was modified by the conversion: "+short(after))
			}
			// converting the same value again gives the same, and the first result is not disturbed by it;
			// the result (format 1) converts to itself
			first := showSMF(&dest)
			var dest2, dest3 smf.SMF
			if p2 := try(func() { dest2 = s.ConvertToSMF1(); dest3 = dest.ConvertToSMF1() }); p2 != "" {
				v.Oracle = append(v.Oracle, "panic when converting again: "+p2)
			} else {
				if showSMF(&dest2) != first {
					v.Oracle = append(v.Oracle, "a second conversion of the same source differs from the first: "+short(showSMF(&dest2)))
				}
				if showSMF(&dest) != first {
					v.Oracle = append(v.Oracle, "the first result changed while the source was converted again: "+short(showSMF(&dest)))
				}
				if showSMF(&dest3) != first {
					v.Oracle = append(v.Oracle, "converting the (format 1) result again changed it: "+short(showSMF(&dest3)))
				}
			}
		}
	}
	if mr == "unmodelled" {
		v.Tags = append(v.Tags, "unmodelled")
		return
	}
	if mr != impl {
		v.Mismatch = append(v.Mismatch, "result differs: model "+short(mr)+" impl "+short(impl))
	}
	return
}

// ---------- generator ----------

var c16Kinds = []byte{0x80, 0x90, 0xA0, 0xB0, 0xC0, 0xD0, 0xE0}

func c16ChanMsg(r *Rng, chans []int) []byte {
	st := c16Kinds[r.Intn(7)] | byte(chans[r.Intn(len(chans))])
	if k := st >> 4; k == 0xC || k == 0xD {
		return []byte{st, byte(r.Intn(128))}
	}
	return []byte{st, byte(r.Intn(128)), byte(r.Intn(128))}
}

// non-channel byte strings that are not meta/sysex messages (the conversion must keep them on the first track)
func c16Odd(r *Rng) []byte {
	switch r.Intn(9) {
	case 0:
		return nil
	case 1:
		return []byte{0xF8}
	case 2:
		return []byte{0xF1, byte(r.Intn(128))}
	case 3:
		return []byte{0xF2, byte(r.Intn(128)), byte(r.Intn(128))}
	case 4:
		return []byte{byte(r.Intn(128)), byte(r.Intn(128))} // starts with a data byte
	case 5:
		return []byte{0xFF, 0x2F} // like end-of-track, but not it
	case 6:
		return []byte{0xFF, 0x2F, 0x01, 0x00}
	case 7:
		return []byte{0xFF, 0x2F, 0x00, 0x00}
	default:
		return []byte{0xFF}
	}
}

func c16NonChan(r *Rng) []byte {
	switch k := r.Intn(20); {
	case k < 11:
		return genMetaMsg(r, "quick")
	case k < 17:
		return genSysexMsg(r, "quick")
	default:
		return c16Odd(r)
	}
}

func c16Subset(r *Rng) []int {
	var k int
	switch r.Intn(8) {
	case 0:
		k = 1
	case 1:
		k = 16
	case 2:
		k = r.Range(14, 16)
	case 3:
		k = 2
	default:
		k = r.Range(1, 16)
	}
	perm := make([]int, 16)
	for i := range perm {
		perm[i] = i
	}
	for i := 15; i > 0; i-- {
		j := r.Intn(i + 1)
		perm[i], perm[j] = perm[j], perm[i]
	}
	return perm[:k]
}

// c16Track generates one track; closed reports whether it ends with end-of-track.
func c16Track(r *Rng, tier string, tags map[string]bool) smf.Track {
	var n int
	switch k := r.Intn(20); {
	case k < 2:
		n = r.Intn(3)
	case k < 9:
		n = r.Range(3, 15)
	case k < 16:
		n = r.Range(15, 70)
	case k < 19:
		n = r.Range(70, 250)
	default:
		if tier == "thorough" {
			n = r.Range(250, 1500)
		} else {
			n = r.Range(250, 400)
		}
	}
	chans := c16Subset(r)
	// message mix: share of channel messages
	chanShare := r.Pick(0, 2, 5, 5, 7, 8, 9, 10)
	pZero := r.Pick(0, 3, 5, 5, 7, 9, 10) // tenths of deltas that are 0
	var t smf.Track
	nch, nmeta := 0, 0
	for i := 0; i < n; i++ {
		var m []byte
		if r.Intn(10) < chanShare {
			m = c16ChanMsg(r, chans)
			nch++
		} else {
			m = c16NonChan(r)
			nmeta++
		}
		var d uint32
		if r.Intn(10) >= pZero {
			switch r.Intn(8) {
			case 0:
				d = uint32(r.Pick(127, 128, 16383, 16384, 2097151, 2097152))
			case 1:
				d = uint32(r.Intn(100000))
			default:
				d = uint32(r.Range(1, 480))
			}
		}
		t = append(t, smf.Event{Delta: d, Message: m})
	}
	if r.Chance(3, 5) {
		d := uint32(0)
		if r.Bool() {
			d = uint32(r.Pick(1, 10, 96, 480, 100000))
		}
		t = append(t, smf.Event{Delta: d, Message: smf.Message(append([]byte(nil), c16EOT...))})
		tags["closed"] = true
	} else {
		tags["unclosed"] = true
	}
	if nmeta > 12 {
		tags["non-channel>12"] = true
	}
	if nmeta > 50 {
		tags["non-channel>50"] = true
	}
	if pZero >= 7 && n > 10 {
		tags["many-per-tick"] = true
	}
	tags[fmt.Sprintf("channels=%d", c16CountChans(t))] = true
	return t
}

func c16CountChans(t smf.Track) int {
	seen := map[int]bool{}
	for _, e := range t {
		if c := c16Chan(e.Message); c >= 0 {
			seen[c] = true
		}
	}
	return len(seen)
}

func c16Total(t smf.Track) uint64 {
	var s uint64
	for _, e := range t {
		s += uint64(e.Delta)
	}
	return s
}

// c16Stretch adds ticks at random events so that the total becomes `target` (each delta stays a uint32).
func c16Stretch(r *Rng, t smf.Track, target uint64) bool {
	if len(t) == 0 {
		return false
	}
	cur := c16Total(t)
	if cur > target {
		return false
	}
	rest := target - cur
	for tries := 0; rest > 0 && tries < 64; tries++ {
		i := r.Intn(len(t))
		room := uint64(0xFFFFFFFF) - uint64(t[i].Delta)
		add := rest
		if r.Bool() && rest > 1 {
			add = r.U64()%rest + 1
		}
		if add > room {
			add = room
		}
		t[i].Delta += uint32(add)
		rest -= add
	}
	return rest == 0
}

func genC16(r *Rng, tier string, emit func(Case)) {
	n := 2000
	if tier == "thorough" {
		n = 200000
	}
	// very many events, more than 2^16 of them for one target track
	for i, big := range []int{20000, 65535, 65536, 65544, 70000, 140000} {
		if tier != "thorough" && i%2 == 0 {
			continue
		}
		emit(Case{Op: fmt.Sprintf("convert.big n=%d busy=%d", big, []int{0, 7, 15}[i%3]), Tags: []string{"very-long-source"}, NonTrivial: true})
	}
	for i := 0; i < n; i++ {
		tags := map[string]bool{}
		src := c16Src{format: 0, tf: genTF(r)}
		how := "api"
		if r.Chance(1, 4) {
			how = "raw"
		}
		if r.Chance(1, 10) {
			src.format = 2
			tags["format2"] = true
		}
		switch k := r.Intn(100); {
		case k < 4: // format 1: returned unchanged
			src.format = 1
			nt := r.Range(0, 4)
			for j := 0; j < nt; j++ {
				src.tracks = append(src.tracks, c16Track(r, "quick", map[string]bool{}))
			}
			how = "raw"
			tags = map[string]bool{"format1-source": true}
		case k < 5: // no track: src.Tracks[0] panics
			tags = map[string]bool{"outside:no-track": true}
			how = "raw"
		case k < 8: // more than one track although not format 1 (only the first is converted)
			src.tracks = append(src.tracks, c16Track(r, "quick", tags), c16Track(r, "quick", map[string]bool{}))
			how = "raw"
			tags["outside:several-tracks"] = true
		case k < 13: // end-of-track inside the track: later non-channel events are swallowed
			t := c16Track(r, "quick", tags)
			if len(t) > 1 {
				j := r.Intn(len(t) - 1)
				t[j].Message = smf.Message(append([]byte(nil), c16EOT...))
				if r.Chance(1, 3) {
					j2 := r.Intn(len(t) - 1)
					t[j2].Message = smf.Message(append([]byte(nil), c16EOT...))
				}
				tags["outside:early-eot"] = true
			}
			src.tracks = append(src.tracks, t)
			how = "raw"
		case k < 21: // total ticks >= 2^32: the recomputed uint32 deltas wrap
			t := c16Track(r, tier, tags)
			target := uint64(1<<32) + uint64(r.Pick(0, 1, 2, 1000, 1<<31, 1<<32-1, 1<<32, 1<<33))
			if c16Stretch(r, t, target) {
				tags["total>=2^32"] = true
			}
			src.tracks = append(src.tracks, t)
		case k < 27: // a long piece: total ticks >= 2^32 although every gap on every resulting track stays far below it
			t := c16Track(r, tier, tags)
			if len(t) >= 20 {
				step := uint64(1<<32+uint64(r.Pick(0, 1, 1<<28, 1<<31, 1<<32)))/uint64(len(t)) + 1
				for j := range t {
					if uint64(t[j].Delta)+step < 1<<28 {
						t[j].Delta += uint32(step)
					} else {
						t[j].Delta = 1<<28 - 1 - uint32(r.Intn(3))
					}
				}
				tags["long-piece(total>=2^32,small-gaps)"] = true
			}
			src.tracks = append(src.tracks, t)
		case k < 40: // total ticks just below 2^32
			t := c16Track(r, tier, tags)
			target := uint64(1<<32) - uint64(r.Pick(1, 1, 1, 2, 3, 100, 1<<16, 1<<31))
			if c16Stretch(r, t, target) {
				tags["total-near-2^32"] = true
			}
			src.tracks = append(src.tracks, t)
		default:
			src.tracks = append(src.tracks, c16Track(r, tier, tags))
		}
		nonTrivial := false
		if c16InDomain(&src) {
			tags["in-domain"] = true
			hasCh, hasOther := false, false
			for _, e := range src.tracks[0] {
				if c16Chan(e.Message) >= 0 {
					hasCh = true
				} else if !c16IsEOT(e.Message) {
					hasOther = true
				}
			}
			nonTrivial = hasCh && hasOther
		}
		var tl []string
		for t := range tags {
			tl = append(tl, t)
		}
		sort.Strings(tl)
		emit(Case{Op: "convert.run src=" + src.text() + " how=" + how, Tags: tl, NonTrivial: nonTrivial})
	}
}
