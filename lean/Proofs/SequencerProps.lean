import Proofs.SequencerExport
/-!
# C20: from the complete description of the exports to the single claims of the property
-/
namespace Midi.Sequencer
open Midi Midi.Smf

/-- Both exports succeed: `tr0` is the single track of the format-0 file, `bt` the bar track of the
    format-1 file and `g n` its event track for the used track number `n` (the event tracks follow the
    bar track in ascending order of their track numbers). -/
def ExportsTo (srt : List TEv → List TEv) (s : Song) (tr0 bt : Track) (g : Nat → Track) : Prop :=
  ∃ f0 f1 : File, toSMF0 srt s = some f0 ∧ toSMF1 srt s = some f1 ∧
    f0.tracks = [tr0] ∧ f1.tracks = bt :: (usedTracks s).map g ∧
    f0.tf = .metric (if s.ticks = 0 then 960 else s.ticks) ∧ f1.tf = .metric (if s.ticks = 0 then 960 else s.ticks)

/-- a track seen as absolute ticks: `hdr` (text events at tick 0), a tick-ordered body that is a
    permutation of `want`, the end of track at tick `E` -/
def Shape (tr : Track) (hdr want : List (Nat × Msg)) (E : Nat) : Prop :=
  ∃ body, timeline 0 tr = hdr ++ body ++ [(E, EOT)] ∧ body.Perm want ∧ body.Pairwise (fun a b => a.1 ≤ b.1)

def hdr0 (s : Song) : List (Nat × Msg) := [(0, metaText s.title), (0, metaCopyright s.composer)]
def hdrBars (s : Song) : List (Nat × Msg) :=
  [(0, metaText s.title), (0, metaCopyright s.composer), (0, metaSeqName [0x62, 0x61, 0x72, 0x73])]
def hdrTrack (s : Song) (n : Nat) : List (Nat × Msg) := [(0, metaSeqName (trackName s.trackNames n))]

theorem exports_ok (s : Song) (srt : List TEv → List TEv) (hd : Dom s) (hs : SortSpec srt) :
    ∃ tr0 bt g, ExportsTo srt s tr0 bt g := by
  obtain ⟨tr, _, h0, _⟩ := toSMF0_exact s srt hd hs
  obtain ⟨f, bt, g, h1, h2, h3, _⟩ := toSMF1_exact s srt hd hs
  exact ⟨tr, bt, g, _, f, h0, h1, rfl, h3, rfl, h2⟩

/-- the complete description of both exports -/
theorem exports_exact (s : Song) (srt : List TEv → List TEv) (hd : Dom s) (hs : SortSpec srt)
    (tr0 bt : Track) (g : Nat → Track) (h : ExportsTo srt s tr0 bt g) :
    Shape tr0 (hdr0 s) (specSigs s ++ specAll s) (songEnd s) ∧
    Shape bt (hdrBars s) (specSigs s) (songEnd s) ∧
    ∀ n ∈ usedTracks s, Shape (g n) (hdrTrack s n) (specOn s n) (songEnd s) := by
  obtain ⟨f0, f1, e0, e1, t0, t1, _, _⟩ := h
  obtain ⟨tr, body, h0, h0a, h0b, h0c⟩ := toSMF0_exact s srt hd hs
  obtain ⟨f, bt', g', h1, _, h3, h4, h5⟩ := toSMF1_exact s srt hd hs
  rw [e0] at h0
  have hf0 : f0 = _ := Option.some.inj h0
  rw [hf0] at t0
  have htr : tr = tr0 := by simpa using t0
  subst htr
  rw [e1] at h1
  have hf1 : f1 = f := Option.some.inj h1
  subst hf1
  rw [t1] at h3
  have hbt : bt = bt' := (List.cons.inj h3).1
  have hg : ∀ n ∈ usedTracks s, g n = g' n := List.map_inj_left.1 (List.cons.inj h3).2
  subst hbt
  refine ⟨⟨body, h0a, h0b, h0c⟩, ⟨specSigs s, ?_, List.Perm.refl _, ?_⟩, ?_⟩
  · simpa [hdrBars] using h4
  · -- the signature events are in bar order
    rw [specSigs, ← sigEvts_tm _ _ (dom_placed_sig s hd), List.pairwise_map]
    exact sigEvts_pairwise (· ≤ ·) _ (4, 4) ((laid_pairwise (tq s) s.bars 0).imp (fun {a b} h => by omega))
  · intro n hn
    obtain ⟨b, hb1, hb2, hb3⟩ := h5 n hn
    rw [hg n hn]
    exact ⟨b, by simpa [hdrTrack] using hb1, hb2, hb3⟩

/-! ## classification of the messages -/

theorem msgOK_class (a : Nat) (m : Msg) (h : MsgOK m) :
    isEvent (a, m) = true ∧ isMeter (a, m) = false ∧ isEOT (a, m) = false := by
  have hne := msgOK_ne_EOT m h
  obtain ⟨s, r, rfl, hs⟩ := h
  refine ⟨?_, ?_, by simpa [isEOT] using hne⟩
  · rcases hs with hs | hs | hs <;> simp [isEvent, hs]
  · have h255 : s ≠ 255 := by
      rcases hs with hs | hs | hs
      · intro hc; subst hc; revert hs; decide
      · omega
      · omega
    cases r <;> simp [isMeter, h255]

theorem noteOff_msgOK (ch key : Nat) (h : ch < 16) : MsgOK (noteOffMsg ch key) :=
  ⟨0x80 + ch, [key, 0], rfl, Or.inl (by simp [isChanStatus]; omega)⟩

theorem meter_class (a n d : Nat) :
    isEvent (a, meterBytes n d) = false ∧ isMeter (a, meterBytes n d) = true ∧ isEOT (a, meterBytes n d) = false := by
  refine ⟨by simp [isEvent, meterBytes, isChanStatus], by simp [isMeter, meterBytes], ?_⟩
  simpa [isEOT] using meterBytes_ne_EOT n d

theorem metaMsg_class (a typ : Nat) (d : Bytes) (h1 : typ ≠ 0x58) (h2 : typ ≠ 0x2F) :
    isEvent (a, metaMsg typ d) = false ∧ isMeter (a, metaMsg typ d) = false ∧ isEOT (a, metaMsg typ d) = false := by
  refine ⟨by simp [isEvent, metaMsg, isChanStatus], by simp [isMeter, metaMsg, h1], ?_⟩
  simpa [isEOT] using metaMsg_ne_EOT typ d h2

theorem eot_class (a : Nat) : isEvent (a, EOT) = false ∧ isMeter (a, EOT) = false ∧ isEOT (a, EOT) = true := by
  refine ⟨by simp [isEvent, EOT, isChanStatus], by simp [isMeter, EOT], by simp [isEOT]⟩

theorem sigChanges_mem : ∀ (placed : List (Nat × Bar)) (sig : Nat × Nat) (x : Nat × Msg), x ∈ sigChanges sig placed →
    ∃ sb ∈ placed, x = (sb.1, meterBytes sb.2.num sb.2.den)
  | [], _, _, h => by simp [sigChanges] at h
  | (st, b) :: r, sig, x, h => by
    simp only [sigChanges] at h
    split at h
    · obtain ⟨sb, h1, h2⟩ := sigChanges_mem r _ x h
      exact ⟨sb, by simp [h1], h2⟩
    · simp only [List.mem_cons] at h
      rcases h with h | h
      · exact ⟨(st, b), by simp, h⟩
      · obtain ⟨sb, h1, h2⟩ := sigChanges_mem r _ x h
        exact ⟨sb, by simp [h1], h2⟩

theorem specSigs_class (s : Song) (x : Nat × Msg) (hx : x ∈ specSigs s) :
    isEvent x = false ∧ isMeter x = true ∧ isEOT x = false := by
  obtain ⟨sb, _, rfl⟩ := sigChanges_mem _ _ x hx
  exact meter_class _ _ _

theorem spec_msgOK (s : Song) (hd : Dom s) (x : TEv) (hx : x ∈ specEvents (tq s) (laid (tq s) 0 s.bars)) :
    MsgOK x.msg := by
  simp only [specEvents, List.mem_flatMap] at hx
  obtain ⟨sb, hsb, e, he, hx⟩ := hx
  obtain ⟨_, _, _, h4⟩ := dom_event s hd sb hsb e he
  simp only [evSpec, List.mem_cons] at hx
  rcases hx with hx | hx
  · subst hx; exact h4
  · cases hns : noteStart e.msg with
    | none => simp [hns] at hx
    | some ck =>
      obtain ⟨ch, k⟩ := ck
      simp only [hns] at hx
      by_cases h0 : e.dur = 0
      · simp [h0] at hx
      · simp only [h0, if_false, List.mem_singleton] at hx
        subst hx
        exact noteOff_msgOK _ _ (noteStart_ch _ _ _ hns)

theorem specAll_class (s : Song) (hd : Dom s) (x : Nat × Msg) (hx : x ∈ specAll s) :
    isEvent x = true ∧ isMeter x = false ∧ isEOT x = false := by
  obtain ⟨e, he, rfl⟩ := List.mem_map.1 hx
  exact msgOK_class _ _ (spec_msgOK s hd e he)

theorem specOn_sub (s : Song) (n : Nat) (x : Nat × Msg) (hx : x ∈ specOn s n) : x ∈ specAll s := by
  obtain ⟨e, he, rfl⟩ := List.mem_map.1 hx
  exact List.mem_map.2 ⟨e, (List.mem_filter.1 he).1, rfl⟩

/-! ## filtering a track of a given shape -/

theorem filter_none {α : Type} (p : α → Bool) (l : List α) (h : ∀ x ∈ l, p x = false) : l.filter p = [] :=
  List.filter_eq_nil_iff.2 (fun x hx => by simp [h x hx])

theorem filter_all {α : Type} (p : α → Bool) (l : List α) (h : ∀ x ∈ l, p x = true) : l.filter p = l :=
  List.filter_eq_self.2 h

/-- filter of a shaped track when the header and the end of track are rejected -/
theorem shape_filter (p : Nat × Msg → Bool) (tr : Track) (hdr want : List (Nat × Msg)) (E : Nat)
    (h : Shape tr hdr want E) (hh : ∀ x ∈ hdr, p x = false) (he : p (E, EOT) = false) :
    ((timeline 0 tr).filter p).Perm (want.filter p) := by
  obtain ⟨body, h1, h2, _⟩ := h
  rw [h1, List.filter_append, List.filter_append, filter_none p hdr hh]
  simp only [List.filter_cons, he, List.filter_nil, List.nil_append, Bool.false_eq_true, if_false, List.append_nil]
  exact h2.filter p

theorem hdr0_class (s : Song) (x : Nat × Msg) (hx : x ∈ hdr0 s) :
    isEvent x = false ∧ isMeter x = false ∧ isEOT x = false := by
  simp only [hdr0, List.mem_cons, List.mem_nil_iff, or_false] at hx
  rcases hx with rfl | rfl
  · exact metaMsg_class 0 1 _ (by decide) (by decide)
  · exact metaMsg_class 0 2 _ (by decide) (by decide)

theorem hdrBars_class (s : Song) (x : Nat × Msg) (hx : x ∈ hdrBars s) :
    isEvent x = false ∧ isMeter x = false ∧ isEOT x = false := by
  simp only [hdrBars, List.mem_cons, List.mem_nil_iff, or_false] at hx
  rcases hx with rfl | rfl | rfl
  · exact metaMsg_class 0 1 _ (by decide) (by decide)
  · exact metaMsg_class 0 2 _ (by decide) (by decide)
  · exact metaMsg_class 0 3 _ (by decide) (by decide)

theorem hdrTrack_class (s : Song) (n : Nat) (x : Nat × Msg) (hx : x ∈ hdrTrack s n) :
    isEvent x = false ∧ isMeter x = false ∧ isEOT x = false := by
  simp only [hdrTrack, List.mem_cons, List.mem_nil_iff, or_false] at hx
  subst hx
  exact metaMsg_class 0 3 _ (by decide) (by decide)

/-! ## every event belongs to exactly one used track -/

theorem partition_perm : ∀ (nos : List Nat) (l : List TEv), nos.Nodup → (∀ e ∈ l, e.trackNo ∈ nos) →
    (nos.flatMap (fun n => l.filter (fun e => e.trackNo = n))).Perm l
  | [], l, _, h => by
    have : l = [] := List.eq_nil_iff_forall_not_mem.2 (fun e he => by simpa using h e he)
    subst this; simp
  | k :: ks, l, hn, h => by
    have hn' := List.nodup_cons.1 hn
    simp only [List.flatMap_cons]
    have hrest : ks.flatMap (fun n => l.filter (fun e => e.trackNo = n)) =
        ks.flatMap (fun n => (l.filter (fun e => !decide (e.trackNo = k))).filter (fun e => e.trackNo = n)) := by
      apply flatMap_congr'
      intro n hnk
      rw [List.filter_filter]
      apply List.filter_congr
      intro e _
      have : n ≠ k := fun hc => hn'.1 (hc ▸ hnk)
      by_cases he : e.trackNo = n
      · simp [he, this]
      · simp [he]
    rw [hrest]
    have ih := partition_perm ks (l.filter (fun e => !decide (e.trackNo = k))) hn'.2 (by
      intro e he
      have hm := List.mem_filter.1 he
      have := h e hm.1
      simp only [List.mem_cons] at this
      rcases this with h1 | h1
      · simp [h1] at hm
      · exact h1)
    exact (List.Perm.append (List.Perm.refl _) ih).trans (List.filter_append_perm _ l)

theorem usedTracks_nodup (s : Song) : (usedTracks s).Nodup :=
  (trackNos_sorted _).imp (fun {a b} h => by omega)

theorem specOn_partition (s : Song) :
    ((usedTracks s).flatMap (specOn s)).Perm (specAll s) := by
  have := partition_perm (usedTracks s) (specEvents (tq s) (laid (tq s) 0 s.bars)) (usedTracks_nodup s)
    (fun e he => (mem_trackNos _ _).2 ⟨e, he, rfl⟩)
  have h2 := this.map tm
  rw [List.map_flatMap] at h2
  exact h2

/-! ## membership in the prescribed events -/

theorem spec_mem (s : Song) (sb : Nat × Bar) (hsb : sb ∈ laid (tq s) 0 s.bars) (e : Event) (he : e ∈ sb.2.events)
    (x : TEv) (hx : x ∈ evSpec (tq s) sb.1 e) :
    tm x ∈ specAll s ∧ x.trackNo ∈ usedTracks s ∧ tm x ∈ specOn s x.trackNo := by
  have hm : x ∈ specEvents (tq s) (laid (tq s) 0 s.bars) := by
    simp only [specEvents, List.mem_flatMap]
    exact ⟨sb, hsb, e, he, hx⟩
  refine ⟨List.mem_map.2 ⟨x, hm, rfl⟩, (mem_trackNos _ _).2 ⟨x, hm, rfl⟩, ?_⟩
  exact List.mem_map.2 ⟨x, List.mem_filter.2 ⟨hm, by simp⟩, rfl⟩

theorem shape_mem (tr : Track) (hdr want : List (Nat × Msg)) (E : Nat) (h : Shape tr hdr want E)
    (x : Nat × Msg) (hx : x ∈ want) : x ∈ timeline 0 tr := by
  obtain ⟨body, h1, h2, _⟩ := h
  rw [h1]
  simp only [List.mem_append]
  exact Or.inl (Or.inr (h2.mem_iff.2 hx))

theorem noteStart_bytes (ch key vel : Nat) (h1 : ch < 16) (h2 : key < 128) (h3 : 0 < vel) (h4 : vel < 128) :
    noteStart [0x90 + ch, key, vel] = some (ch, key) := by
  unfold noteStart
  simp only
  rw [if_pos (by omega)]
  congr 2 <;> omega

/-! ## time-signature events come at strictly increasing ticks, so their order is fixed -/

theorem perm_strict_eq : ∀ (l1 l2 : List (Nat × Msg)), l1.Perm l2 →
    l1.Pairwise (fun a b => a.1 ≤ b.1) → l2.Pairwise (fun a b => a.1 < b.1) → l1 = l2
  | [], _, h, _, _ => h.nil_eq
  | a :: l1, [], h, _, _ => by have := h.eq_nil; simp at this
  | a :: l1, b :: l2, h, h1, h2 => by
    have h1' := List.pairwise_cons.1 h1
    have h2' := List.pairwise_cons.1 h2
    have hab : a = b := by
      have ha : a ∈ b :: l2 := h.mem_iff.1 (by simp)
      have hb : b ∈ a :: l1 := h.mem_iff.2 (by simp)
      simp only [List.mem_cons] at ha hb
      rcases ha with ha | ha
      · exact ha
      · rcases hb with hb | hb
        · exact hb.symm
        · have := h2'.1 a ha; have := h1'.1 b hb; omega
    subst hab
    rw [perm_strict_eq l1 l2 h.cons_inv h1'.2 h2'.2]

theorem specSigs_strict (s : Song) (hd : Dom s) : (specSigs s).Pairwise (fun a b => a.1 < b.1) := by
  rw [specSigs, ← sigEvts_tm _ _ (dom_placed_sig s hd), List.pairwise_map]
  apply sigEvts_pairwise (· < ·)
  apply (laid_pairwise (tq s) s.bars 0).imp_of_mem
  intro a b ha _ h
  have h1 := (len32_pos a.2 (dom_placed_sig s hd a ha)).1
  have h2 := (dom_t s hd).1
  have : 1 ≤ len32 a.2 * tq s := Nat.mul_pos h1 h2
  omega

/-- the filtered track is the filtered body, still in tick order -/
theorem shape_filter_sorted (p : Nat × Msg → Bool) (tr : Track) (hdr want : List (Nat × Msg)) (E : Nat)
    (h : Shape tr hdr want E) (hh : ∀ x ∈ hdr, p x = false) (he : p (E, EOT) = false) :
    ((timeline 0 tr).filter p).Pairwise (fun a b => a.1 ≤ b.1) := by
  obtain ⟨body, h1, _, h3⟩ := h
  rw [h1, List.filter_append, List.filter_append, filter_none p hdr hh]
  simp only [List.filter_cons, he, List.filter_nil, List.nil_append, Bool.false_eq_true, if_false, List.append_nil]
  exact h3.filter p

/-- end-of-track: exactly one, the last event, at tick `E` -/
theorem shape_eot (tr : Track) (hdr want : List (Nat × Msg)) (E : Nat)
    (h : Shape tr hdr want E) (hh : ∀ x ∈ hdr, isEOT x = false) (hw : ∀ x ∈ want, isEOT x = false) :
    (timeline 0 tr).getLast? = some (E, EOT) ∧ (timeline 0 tr).filter isEOT = [(E, EOT)] := by
  obtain ⟨body, h1, h2, _⟩ := h
  rw [h1]
  refine ⟨List.getLast?_concat, ?_⟩
  rw [List.filter_append, List.filter_append, filter_none isEOT hdr hh,
    filter_none isEOT body (fun x hx => hw x (h2.mem_iff.1 hx))]
  simp [isEOT]

/-! ## songs reachable through `AddBar` -/

/-- what `AddBar` may be given: no signature (`[0,0]`) or one of the domain -/
def InputSigOK (b : Bar) : Prop := (b.num = 0 ∧ b.den = 0) ∨ SigOK b

theorem addBar_sigs (s : Song) (b : Bar) (hs : ∀ x ∈ s.bars, SigOK x) (hb : InputSigOK b) :
    ∀ x ∈ (s.addBar b).bars, SigOK x := by
  intro x hx
  simp only [Song.addBar, List.mem_append, List.mem_singleton] at hx
  rcases hx with hx | hx
  · exact hs x hx
  · subst hx
    by_cases h0 : b.num = 0 ∧ b.den = 0
    · simp only [h0, and_self, if_true]
      cases hl : s.bars.getLast? with
      | none => simp [SigOK]
      | some l =>
        have := hs l (List.mem_of_getLast? hl)
        simpa [SigOK] using this
    · simp only [h0, if_false]
      rcases hb with hb | hb
      · exact absurd hb h0
      · exact hb

theorem foldl_addBar_sigs : ∀ (bs : List Bar) (s : Song), (∀ x ∈ s.bars, SigOK x) → (∀ b ∈ bs, InputSigOK b) →
    ∀ x ∈ (bs.foldl Song.addBar s).bars, SigOK x
  | [], _, hs, _ => hs
  | b :: r, s, hs, hb => by
    simp only [List.foldl_cons]
    exact foldl_addBar_sigs r (s.addBar b) (addBar_sigs s b hs (hb b (by simp))) (fun x hx => hb x (by simp [hx]))

end Midi.Sequencer
