import Proofs.SmfDom
/-! Every SMF value reachable through the API from well-formed messages lies in the domain. -/
namespace Midi.Smf
open Midi.Vlq

def OpOK : HOp → Prop
  | .add _ δ msgs => δ < 4294967296 ∧ ∀ m ∈ msgs, ValidMsg m
  | .close _ δ => δ < 4294967296
  | .smfAdd _ => True

theorem BodyOK_nil : BodyOK [] := by simp [BodyOK]

theorem TrackOK_nil : TrackOK [] := ⟨[], BodyOK_nil, Or.inl rfl⟩

theorem addEvents_valid (msgs : List Msg) (h : ∀ m ∈ msgs, ValidMsg m) :
    ∀ δ, δ < 4294967296 → ∃ b : ATrack, BodyOK b ∧ addEvents δ msgs = b.map evOf := by
  induction msgs with
  | nil => intro δ _; exact ⟨[], BodyOK_nil, rfl⟩
  | cons m ms ih =>
    intro δ hδ
    obtain ⟨e, hv, hne, rfl⟩ := h m (by simp)
    obtain ⟨b, hb, he⟩ := ih (fun m hm => h m (by simp [hm])) 0 (by omega)
    refine ⟨(δ, e) :: b, ?_, by simp [addEvents, he, evOf]⟩
    intro x hx
    simp at hx
    rcases hx with rfl | hx
    · exact ⟨hv, hne, hδ⟩
    · exact hb x hx

theorem TrackOK_add (t : Track) (δ : Nat) (msgs : List Msg) (ht : TrackOK t)
    (hδ : δ < 4294967296) (hm : ∀ m ∈ msgs, ValidMsg m) : TrackOK (t.add δ msgs) := by
  obtain ⟨body, hb, h | ⟨δe, hδe, h⟩⟩ := ht
  · subst h
    obtain ⟨b, hb2, he⟩ := addEvents_valid msgs hm δ hδ
    refine ⟨body ++ b, ?_, Or.inl ?_⟩
    · intro x hx; simp at hx; rcases hx with hx | hx; exact hb x hx; exact hb2 x hx
    · simp [Track.add, body_open body hb, he]
  · subst h
    have : Track.isClosed (body.map evOf ++ [⟨δe, EOT⟩]) = true := by rw [isClosed_snoc]; simp
    simp only [Track.add, this, if_true]
    exact ⟨body, hb, Or.inr ⟨δe, hδe, rfl⟩⟩

theorem TrackOK_close (t : Track) (δ : Nat) (ht : TrackOK t) (hδ : δ < 4294967296) : TrackOK (t.close δ) := by
  obtain ⟨body, hb, h | ⟨δe, hδe, h⟩⟩ := ht
  · subst h
    exact ⟨body, hb, Or.inr ⟨δ, hδ, by simp [close_open _ _ (body_open body hb)]⟩⟩
  · subst h
    have : Track.isClosed (body.map evOf ++ [⟨δe, EOT⟩]) = true := by rw [isClosed_snoc]; simp
    simp only [Track.close, this, if_true]
    exact ⟨body, hb, Or.inr ⟨δe, hδe, rfl⟩⟩

def LocalsOK (ls : List Track) : Prop := ∀ t ∈ ls, TrackOK t

theorem getLocal_ok (ls : List Track) (i : Nat) (h : LocalsOK ls) : TrackOK (getLocal ls i) := by
  unfold getLocal
  rw [List.getD_eq_getElem?_getD]
  cases hg : ls[i]? with
  | none => simpa using TrackOK_nil
  | some t => simpa using h t (List.mem_of_getElem? hg)

theorem setLocal_ok (ls : List Track) (i : Nat) (t : Track) (h : LocalsOK ls) (ht : TrackOK t) :
    LocalsOK (setLocal ls i t) := by
  unfold setLocal
  intro x hx
  have hx' := List.mem_or_eq_of_mem_set hx
  rcases hx' with hx' | rfl
  · split at hx'
    · simp at hx'
      rcases hx' with hx' | ⟨_, rfl⟩
      · exact h x hx'
      · exact TrackOK_nil
    · exact h x hx'
  · exact ht

structure HInv (h : HState) : Prop where
  locals : LocalsOK h.locals
  tracks : ∀ t ∈ h.file.tracks, TrackOK t
  fmt : h.file.format ≤ 2

theorem step_inv (h : HState) (op : HOp) (hi : HInv h) (ho : OpOK op) : HInv (h.step op) := by
  cases op with
  | add i δ msgs =>
    exact ⟨setLocal_ok _ _ _ hi.locals (TrackOK_add _ _ _ (getLocal_ok _ _ hi.locals) ho.1 ho.2), hi.tracks, hi.fmt⟩
  | close i δ =>
    exact ⟨setLocal_ok _ _ _ hi.locals (TrackOK_close _ _ (getLocal_ok _ _ hi.locals) ho), hi.tracks, hi.fmt⟩
  | smfAdd i =>
    refine ⟨hi.locals, ?_, ?_⟩
    · intro t ht
      simp [HState.step, File.addTrack] at ht
      rcases ht with ht | rfl
      · exact hi.tracks t ht
      · exact getLocal_ok _ _ hi.locals
    · have := hi.fmt
      simp only [HState.step, File.addTrack]
      split <;> omega

theorem foldl_inv (ops : List HOp) (h : HState) (hi : HInv h) (ho : ∀ op ∈ ops, OpOK op) :
    HInv (ops.foldl HState.step h) := by
  induction ops generalizing h with
  | nil => exact hi
  | cons op ops ih =>
    exact ih _ (step_inv h op hi (ho op (by simp))) (fun o h' => ho o (by simp [h']))

def countAdds (ops : List HOp) : Nat := (ops.filter (fun o => match o with | .smfAdd _ => true | _ => false)).length

theorem step_tf (h : HState) (op : HOp) : (h.step op).file.tf = h.file.tf := by
  cases op <;> simp [HState.step, File.addTrack]

theorem step_count (h : HState) (op : HOp) :
    (h.step op).file.tracks.length = h.file.tracks.length + countAdds [op] := by
  cases op <;> simp [HState.step, File.addTrack, countAdds]

theorem foldl_tf (ops : List HOp) (h : HState) : (ops.foldl HState.step h).file.tf = h.file.tf := by
  induction ops generalizing h with
  | nil => rfl
  | cons op ops ih => simp [List.foldl, ih, step_tf]

theorem foldl_count (ops : List HOp) (h : HState) :
    (ops.foldl HState.step h).file.tracks.length = h.file.tracks.length + countAdds ops := by
  induction ops generalizing h with
  | nil => simp [countAdds]
  | cons op ops ih =>
    simp only [List.foldl, ih, step_count]
    simp only [countAdds, List.filter_cons]
    split <;> simp <;> omega

/-- reachable values are in the domain -/
theorem reach_dom (fmt : Nat) (tf : TimeFormat) (ops : List HOp) (hfmt : fmt ≤ 2) (htf : ValidTF tf)
    (ho : ∀ op ∈ ops, OpOK op) (h1 : 1 ≤ countAdds ops) (h2 : countAdds ops < 65536) :
    Dom (reach fmt tf ops) := by
  have hi := foldl_inv ops ⟨⟨fmt, tf, []⟩, []⟩ ⟨(by intro t ht; cases ht), (by intro t ht; cases ht), hfmt⟩ ho
  have hc := foldl_count ops ⟨⟨fmt, tf, []⟩, []⟩
  have ht := foldl_tf ops ⟨⟨fmt, tf, []⟩, []⟩
  simp only [List.length_nil, Nat.zero_add] at hc
  refine ⟨hi.fmt, by simpa [reach, ht] using htf, ?_, by simp only [reach]; omega, hi.tracks⟩
  intro hnil
  have : (reach fmt tf ops).tracks.length = 0 := by simp [hnil]
  simp only [reach] at this
  omega

end Midi.Smf
