import MidiModel.Strict
import Proofs.Vlq
/-! The canonical-VLQ parser of the strict SMF parser accepts exactly what `Vlq.encode` emits (values < 2^28). -/
namespace Midi.Strict
open Midi.Vlq

theorem encode_1 (n : Nat) (h : n < 128) : encode n = [n] := by
  have h0 : n / 128 = 0 := by omega
  have h1 : n % 128 = n := by omega
  simp [encode, tailLE, h0, h1]

theorem encode_2 (n : Nat) (h1 : 128 ≤ n) (h2 : n < 16384) : encode n = [n / 128 + 128, n % 128] := by
  have a : n / 128 ≠ 0 := by omega
  have b : n / 128 / 128 = 0 := by omega
  have c : n / 128 % 128 = n / 128 := by omega
  simp [encode, tailLE, a, b, c]

theorem encode_3 (n : Nat) (h1 : 16384 ≤ n) (h2 : n < 2097152) :
    encode n = [n / 16384 + 128, n / 128 % 128 + 128, n % 128] := by
  have a : n / 128 ≠ 0 := by omega
  have b : n / 128 / 128 ≠ 0 := by omega
  have c : n / 128 / 128 / 128 = 0 := by omega
  have d : n / 128 / 128 % 128 = n / 16384 := by omega
  simp [encode, tailLE, a, b, c, d]

theorem encode_4 (n : Nat) (h1 : 2097152 ≤ n) (h2 : n < 268435456) :
    encode n = [n / 2097152 + 128, n / 16384 % 128 + 128, n / 128 % 128 + 128, n % 128] := by
  have a : n / 128 ≠ 0 := by omega
  have b : n / 128 / 128 ≠ 0 := by omega
  have c : n / 128 / 128 / 128 ≠ 0 := by omega
  have d : n / 128 / 128 / 128 / 128 = 0 := by omega
  have e : n / 128 / 128 / 128 % 128 = n / 2097152 := by omega
  have f : n / 128 / 128 % 128 = n / 16384 % 128 := by omega
  simp [encode, tailLE, a, b, c, d, e, f]

/-- the strict VLQ parser reads back every value below 2^28 from its encoding -/
theorem vlq_encode (n : Nat) (h : n < 268435456) (rest : Bytes) : vlq (encode n ++ rest) = some (n, rest) := by
  by_cases c1 : n < 128
  · rw [encode_1 n c1]; simp [vlq, c1]
  · by_cases c2 : n < 16384
    · rw [encode_2 n (by omega) c2]
      have a : ¬ (n / 128 + 128 < 128) := by omega
      have b : ¬ (n / 128 + 128 = 128 ∨ 256 ≤ n / 128 + 128) := by omega
      have c : n % 128 < 128 := by omega
      have d : (n / 128 + 128 - 128) * 128 + n % 128 = n := by omega
      simp [vlq, a, b, c, d]
      omega
    · by_cases c3 : n < 2097152
      · rw [encode_3 n (by omega) c3]
        have a : ¬ (n / 16384 + 128 < 128) := by omega
        have b : ¬ (n / 16384 + 128 = 128 ∨ 256 ≤ n / 16384 + 128) := by omega
        have c : ¬ (n / 128 % 128 + 128 < 128) := by omega
        have c' : ¬ (256 ≤ n / 128 % 128 + 128) := by omega
        have d : n % 128 < 128 := by omega
        have e : ((n / 16384 + 128 - 128) * 128 + (n / 128 % 128 + 128 - 128)) * 128 + n % 128 = n := by omega
        simp [vlq, a, b, c, c', d, e]
        omega
      · rw [encode_4 n (by omega) h]
        have a : ¬ (n / 2097152 + 128 < 128) := by omega
        have b : ¬ (n / 2097152 + 128 = 128 ∨ 256 ≤ n / 2097152 + 128) := by omega
        have c : ¬ (n / 16384 % 128 + 128 < 128) := by omega
        have c' : ¬ (256 ≤ n / 16384 % 128 + 128) := by omega
        have d : ¬ (n / 128 % 128 + 128 < 128) := by omega
        have d' : ¬ (256 ≤ n / 128 % 128 + 128) := by omega
        have e : n % 128 < 128 := by omega
        have f : (((n / 2097152 + 128 - 128) * 128 + (n / 16384 % 128 + 128 - 128)) * 128 + (n / 128 % 128 + 128 - 128)) * 128 + n % 128 = n := by omega
        simp [vlq, a, b, c, c', d, d', e, f]
        omega

end Midi.Strict
