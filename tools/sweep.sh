#!/bin/bash
# usage: sweep.sh <tier> <seeds...>   runs every claimed check for the given seeds, prints one line per run
tier="$1"; shift
cd "$(dirname "$0")/.."
./check --setup >/dev/null 2>&1 || { echo "setup failed"; exit 1; }
props=$(python3 -c "import json; print(' '.join(c['property_id'] for c in json.load(open('MANIFEST.json'))['checks']))")
for s in "$@"; do for p in $props; do
  out=$(VERIF_SEED=$s ./check $p --tier $tier 2>&1 | grep -E "^(OK|VIOLATION|KNOWN)" | head -2 | tr '\n' ' ')
  echo "seed=$s $p :: $out"
done; done
