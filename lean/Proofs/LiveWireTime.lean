import Proofs.LiveWireListen
/-!
# Ticks only move the clock

`er` forgets the two clock fields of the decoder state. Every decoder function commutes with `er`
(the frames lose their time stamps, nothing else changes), hence the contents and the order of what is
delivered do not depend on where the ticks are — for EVERY token stream. Also: `ts` is the sum of the ticks.
-/
namespace Midi.LiveWire
open Midi.Live

def er (s : St) : St := { s with ts := 0, sxTs := 0 }
def zeroTs (f : Frame) : Frame := (f.1, 0)

@[simp] theorem er_status (s : St) : (er s).status = s.status := rfl
@[simp] theorem er_mode (s : St) : (er s).mode = s.mode := rfl
@[simp] theorem er_typ (s : St) : (er s).typ = s.typ := rfl
@[simp] theorem er_pend (s : St) : (er s).pend = s.pend := rfl
@[simp] theorem er_sx (s : St) : (er s).sx = s.sx := rfl
@[simp] theorem er_ts (s : St) : (er s).ts = 0 := rfl
@[simp] theorem er_sxTs (s : St) : (er s).sxTs = 0 := rfl

theorem withinChan_er (s : St) (b : Nat) :
    withinChan (er s) b = (er (withinChan s b).1, (withinChan s b).2.map zeroTs) := by
  by_cases h1 : s.typ = 0xD ∨ s.typ = 0xC
  · simp [withinChan, h1, zeroTs]; rfl
  · by_cases h2 : s.typ = 0xB ∨ s.typ = 0x9 ∨ s.typ = 0x8 ∨ s.typ = 0xA ∨ s.typ = 0xE
    · cases hp : s.pend <;> simp [withinChan, h1, h2, hp, zeroTs] <;> rfl
    · simp [withinChan, h1, h2]; rfl

theorem syscStep_er (s : St) (b : Nat) :
    syscStep (er s) b = (er (syscStep s b).1, (syscStep s b).2.map zeroTs) := by
  by_cases h1 : s.typ = 0xF1 ∨ s.typ = 0xF3
  · simp [syscStep, h1, zeroTs]; rfl
  · by_cases h2 : s.typ = 0xF2
    · cases hp : s.pend <;> simp [syscStep, h2, hp, zeroTs] <;> rfl
    · simp [syscStep, h1, h2]

theorem cleanState_er (s : St) (b : Nat) :
    cleanState (er s) b = (er (cleanState s b).1, (cleanState s b).2.map zeroTs) := by
  by_cases e1 : b = 0xF0
  · simp [cleanState, e1]; rfl
  by_cases e2 : b = 0xF7
  · simp [cleanState, e2, zeroTs]; rfl
  by_cases e3 : 0xF0 < b ∧ b < 0xF7
  · by_cases e4 : b = 0xF1 ∨ b = 0xF2 ∨ b = 0xF3
    · simp [cleanState, e1, e2, e3, e4]; rfl
    · by_cases e5 : b = 0xF6
      · simp [cleanState, e5, zeroTs]; rfl
      · simp [cleanState, e1, e2, e3, e4, e5]; rfl
  by_cases e6 : 0x80 ≤ b ∧ b ≤ 0xEF
  · simp [cleanState, e1, e2, e3, e6]; rfl
  by_cases e7 : s.status = 0
  · simp [cleanState, e1, e2, e3, e6, e7]
  · have l : cleanState (er s) b = withinChan (er { s with mode := .chan }) b := by
      simp [cleanState, e1, e2, e3, e6, e7]; rfl
    have r : cleanState s b = withinChan { s with mode := .chan } b := by
      simp [cleanState, e1, e2, e3, e6, e7]
    rw [l, r, withinChan_er]

theorem sysexStep_er (c : Cfg) (s : St) (b : Nat) :
    sysexStep c (er s) b = (er (sysexStep c s b).1, (sysexStep c s b).2.map zeroTs) := by
  by_cases e1 : b = 0xF0
  · simp [sysexStep, e1]; rfl
  by_cases e2 : b = 0xF7
  · by_cases e3 : c.sysex = true ∧ s.sx ≠ [] ∧ s.sx.length < c.bufSize
    · simp [sysexStep, e2, e3, zeroTs]; rfl
    · simp [sysexStep, e2, e3]; rfl
  by_cases e3 : 0x80 ≤ b
  · have l : sysexStep c (er s) b = cleanState (er { s with sx := [], mode := .clean }) b := by
      simp [sysexStep, e1, e2, e3]; rfl
    have r : sysexStep c s b = cleanState { s with sx := [], mode := .clean } b := by
      simp [sysexStep, e1, e2, e3]
    rw [l, r, cleanState_er]
  by_cases e4 : c.sysex = true ∧ s.sx ≠ []
  · by_cases e5 : s.sx.length < c.bufSize
    · simp [sysexStep, e1, e2, e3, e4, e5]; rfl
    · simp [sysexStep, e1, e2, e3, e4, e5]; rfl
  · simp [sysexStep, e1, e2, e3, e4]

theorem step_er (c : Cfg) (s : St) (b : Nat) :
    step c (er s) b = (er (step c s b).1, (step c s b).2.map zeroTs) := by
  by_cases hrt : 0xF8 ≤ b
  · simp [step, hrt, zeroTs]
  by_cases hst : 0x80 ≤ b
  · cases hm : s.mode with
    | clean => simp [step, hrt, hm, cleanState_er]
    | unknown =>
      have := cleanState_er { s with mode := .clean } b
      simp [step, hrt, hst, hm]; exact this
    | sysex => simp [step, hrt, hm, sysexStep_er]
    | chan =>
      have := cleanState_er { s with pend := none, mode := .clean } b
      simp [step, hrt, hst, hm]; exact this
    | sysc =>
      have := cleanState_er { s with pend := none, mode := .clean } b
      simp [step, hrt, hst, hm]; exact this
  · cases hm : s.mode with
    | clean => simp [step, hrt, hst, hm, cleanState_er]
    | unknown => simp [step, hrt, hst, hm]
    | sysex => simp [step, hrt, hst, hm, sysexStep_er]
    | chan => simp [step, hrt, hst, hm, withinChan_er]
    | sysc => simp [step, hrt, hst, hm, syscStep_er]

theorem er_adv (s : St) (d : Int) : er (adv s d) = er s := rfl
theorem er_er (s : St) : er (er s) = er s := rfl

/-- the decoder on the bare bytes, started from the time-erased state, goes through the time-erased states
    and hands over the same frames without their stamps -/
theorem feed_er (c : Cfg) (toks : List Tok) :
    ∀ s : St, feed c (er s) (untick toks) = (er (feed c s toks).1, (feed c s toks).2.map zeroTs) := by
  induction toks with
  | nil => intro s; rfl
  | cons x r ih =>
    intro s
    cases x with
    | byte b =>
      have e : untick (Tok.byte b :: r) = Tok.byte b :: untick r := rfl
      rw [e, feed_cons, feed_cons]
      simp only [stepTok, step_er, ih, List.map_append]
    | tick d =>
      have e : untick (Tok.tick d :: r) = untick r := rfl
      rw [e, feed_cons, stepTok_tick, ← er_adv s d, ih]
      simp

/-- two token streams with the same bytes: same frames up to the stamps -/
theorem feed_same_bytes (c : Cfg) (a b : List Tok) (h : bytesOf a = bytesOf b) :
    (feed c init a).2.map zeroTs = (feed c init b).2.map zeroTs := by
  have ha := feed_er c a init
  have hb := feed_er c b init
  have e : untick a = untick b := by unfold untick; rw [h]
  rw [e] at ha
  rw [ha] at hb
  exact (congrArg Prod.snd hb)

theorem listenFrames_contents (c : Cfg) (l : List Frame) :
    (listenFrames c l).map (·.1) = (listenFrames c (l.map zeroTs)).map (·.1) := by
  induction l with
  | nil => rfl
  | cons f r ih =>
    have hk : keep c (zeroTs f) = keep c f := rfl
    simp only [listenFrames, List.map_cons, List.filter_cons, hk] at ih ⊢
    cases keep c f with
    | false => simpa using ih
    | true =>
      simp only [if_true, List.filterMap_cons, zeroTs]
      cases retype f.1 with
      | none => simpa using ih
      | some m => simpa using ih

/-! ## the clock is the sum of the ticks -/

theorem withinChan_ts (s : St) (b : Nat) : (withinChan s b).1.ts = s.ts := by
  unfold withinChan
  repeat' split
  all_goals rfl

theorem syscStep_ts (s : St) (b : Nat) : (syscStep s b).1.ts = s.ts := by
  unfold syscStep
  repeat' split
  all_goals rfl

theorem cleanState_ts (s : St) (b : Nat) : (cleanState s b).1.ts = s.ts := by
  unfold cleanState
  repeat' split
  all_goals first | rfl | exact withinChan_ts _ _

theorem sysexStep_ts (c : Cfg) (s : St) (b : Nat) : (sysexStep c s b).1.ts = s.ts := by
  unfold sysexStep
  repeat' split
  all_goals first | rfl | exact cleanState_ts _ _

theorem step_ts (c : Cfg) (s : St) (b : Nat) : (step c s b).1.ts = s.ts := by
  by_cases hrt : 0xF8 ≤ b
  · simp [step, hrt]
  by_cases hst : 0x80 ≤ b
  · cases hm : s.mode with
    | clean => simp [step, hrt, hm, cleanState_ts]
    | unknown => simp [step, hrt, hst, hm, cleanState_ts]
    | sysex => simp [step, hrt, hm, sysexStep_ts]
    | chan => simp [step, hrt, hst, hm, cleanState_ts]
    | sysc => simp [step, hrt, hst, hm, cleanState_ts]
  · cases hm : s.mode with
    | clean => simp [step, hrt, hst, hm, cleanState_ts]
    | unknown => simp [step, hrt, hst, hm]
    | sysex => simp [step, hrt, hst, hm, sysexStep_ts]
    | chan => simp [step, hrt, hst, hm, withinChan_ts]
    | sysc => simp [step, hrt, hst, hm, syscStep_ts]

theorem feed_ts (c : Cfg) (toks : List Tok) : ∀ s : St, (feed c s toks).1.ts = s.ts + tickSum toks := by
  induction toks with
  | nil => intro s; simp [feed, tickSum]
  | cons x r ih =>
    intro s
    rw [feed_cons]
    cases x with
    | byte b => simp only [ih, stepTok, step_ts, tickSum]
    | tick d => simp only [ih, stepTok, tickSum, Int.add_assoc]

/-! ## every frame is stamped with the clock at the byte that completes it (sysex: see `step_stamp`) -/

theorem withinChan_stamp (s : St) (b : Nat) : ∀ f ∈ (withinChan s b).2, f.2 = s.ts := by
  unfold withinChan
  repeat' split
  all_goals simp

theorem syscStep_stamp (s : St) (b : Nat) : ∀ f ∈ (syscStep s b).2, f.2 = s.ts := by
  unfold syscStep
  repeat' split
  all_goals simp

theorem cleanState_stamp (s : St) (b : Nat) : ∀ f ∈ (cleanState s b).2, f.2 = s.ts := by
  unfold cleanState
  repeat' split
  all_goals first | (simp; done) | exact withinChan_stamp _ _

theorem sysexStep_stamp (c : Cfg) (s : St) (b : Nat) (hb : b ≠ 0xF7) : ∀ f ∈ (sysexStep c s b).2, f.2 = s.ts := by
  by_cases e1 : b = 0xF0
  · simp [sysexStep, e1]
  by_cases e3 : 0x80 ≤ b
  · have r : sysexStep c s b = cleanState { s with sx := [], mode := .clean } b := by
      simp [sysexStep, e1, hb, e3]
    rw [r]
    exact cleanState_stamp _ b
  by_cases e4 : c.sysex = true ∧ s.sx ≠ []
  · by_cases e5 : s.sx.length < c.bufSize
    · simp [sysexStep, e1, hb, e3, e4, e5]
    · simp [sysexStep, e1, hb, e3, e4, e5]
  · simp [sysexStep, e1, hb, e3, e4]

/-- whatever a byte other than `F7` makes the reader hand over is stamped with the current clock -/
theorem step_stamp (c : Cfg) (s : St) (b : Nat) (hb : b ≠ 0xF7) : ∀ f ∈ (step c s b).2, f.2 = s.ts := by
  by_cases hrt : 0xF8 ≤ b
  · simp [step, hrt]
  by_cases hst : 0x80 ≤ b
  · cases hm : s.mode with
    | clean => simpa [step, hrt, hm] using cleanState_stamp s b
    | unknown => simpa [step, hrt, hst, hm] using cleanState_stamp { s with mode := .clean } b
    | sysex => simpa [step, hrt, hm] using sysexStep_stamp c s b hb
    | chan => simpa [step, hrt, hst, hm] using cleanState_stamp { s with pend := none, mode := .clean } b
    | sysc => simpa [step, hrt, hst, hm] using cleanState_stamp { s with pend := none, mode := .clean } b
  · cases hm : s.mode with
    | clean => simpa [step, hrt, hst, hm] using cleanState_stamp s b
    | unknown => simp [step, hrt, hst, hm]
    | sysex => simpa [step, hrt, hst, hm] using sysexStep_stamp c s b hb
    | chan => simpa [step, hrt, hst, hm] using withinChan_stamp s b
    | sysc => simpa [step, hrt, hst, hm] using syscStep_stamp s b

theorem listenFrames_stamp (c : Cfg) (l : List Frame) (t : Int) (h : ∀ f ∈ l, f.2 = t) :
    ∀ m ∈ listenFrames c l, m.2 = t := by
  intro m hm
  simp only [listenFrames, List.mem_filterMap, List.mem_filter, Option.map_eq_some_iff] at hm
  obtain ⟨f, ⟨hf, _⟩, x, _, e⟩ := hm
  rw [← e]
  exact h f hf

end Midi.LiveWire
