import Proofs.Gram
/-! Truncation inside one event: a proper prefix of an event's bytes never decodes to an event (C05). -/
namespace Midi.Gram
open Midi.Vlq Midi.Smf

/-- outcome of decoding a cut event: `io.EOF`, unexpected EOF, or the swallowed second data byte
    (empty message, input exhausted) -/
def CutEv (r : Except RErr REv) : Prop :=
  r = .error .eof ∨ r = .error .ueof ∨ ∃ δ s, r = .ok ⟨δ, [], s, []⟩

theorem readAux_all_cont (l : List Nat) (h : ∀ b ∈ l, 128 ≤ b) : ∀ fuel acc, readAux fuel acc l = none := by
  induction l with
  | nil => intro fuel acc; cases fuel <;> simp [readAux]
  | cons b l ih =>
    intro fuel acc
    cases fuel with
    | zero => simp [readAux]
    | succ f =>
      have hb := h b (by simp)
      have : ¬ b < 128 := by omega
      simp only [readAux, this, if_false]
      exact ih (fun x hx => h x (by simp [hx])) _ _

theorem encode_init_cont (n : Nat) (hn : n < 4294967296) :
    ∃ init lo, encode n = init ++ [lo] ∧ (∀ b ∈ init, 128 ≤ b) := by
  have hq : n / 128 < 128 ^ 5 := by
    rw [Nat.div_lt_iff_lt_mul (by decide)]; omega
  obtain ⟨_, hd⟩ := tailLE_val 5 (n / 128) hq
  refine ⟨(tailLE 5 (n / 128)).reverse, n % 128, by simp [encode], ?_⟩
  intro b hb
  exact (hd b (by simpa using hb)).1

/-- a proper prefix of a (padded) quantity has only continuation bytes: the VLQ reader runs out of input -/
theorem readVlq_cut (v : GVlq) (hv : v.Valid) (m : Nat) (hm : m < v.bytes.length) :
    readVlq (v.bytes.take m) = .error .ueof := by
  obtain ⟨init, lo, he, hi⟩ := encode_init_cont v.value (by have := hv.1; omega)
  have hall : ∀ b ∈ v.bytes.take m, 128 ≤ b := by
    intro b hb
    have hb' : b ∈ (List.replicate v.pad 0x80 ++ init) := by
      have hlen : v.bytes = (List.replicate v.pad 0x80 ++ init) ++ [lo] := by
        simp [GVlq.bytes, he, List.append_assoc]
      rw [hlen] at hb hm
      have hm' : m ≤ (List.replicate v.pad 0x80 ++ init).length := by
        simp only [List.length_append, List.length_cons, List.length_nil] at hm ⊢; omega
      rw [List.take_append_of_le_length hm'] at hb
      exact List.mem_of_mem_take hb
    rcases List.mem_append.mp hb' with h1 | h1
    · have := List.eq_of_mem_replicate h1; omega
    · exact hi b h1
  simp [readVlq, Vlq.read, readAux_all_cont _ hall]

theorem take_append_ge {α} (a b : List α) (m : Nat) (h : a.length ≤ m) : (a ++ b).take m = a ++ b.take (m - a.length) := by
  rw [List.take_append]
  simp [List.take_of_length_le h]

theorem readN_cut (d : Bytes) (j : Nat) (hj : j < d.length) :
    readN d.length (d.take j) = .error .eof ∨ readN d.length (d.take j) = .error .ueof := by
  unfold readN
  have h0 : ¬ d.length = 0 := by omega
  by_cases he : d.take j = []
  · simp [h0, he]
  · have : (d.take j).length < d.length := by simp; omega
    simp only [h0, he, this, if_false, if_true]
    exact Or.inr trivial

/-- a cut event (grammar event with legal elision) never decodes to a complete event -/
theorem readEvent_cut (rr : Nat) (e : GEvent) (hd : e.delta.Valid) (hv : e.ev.Valid)
    (hel : match e.ev with | .chan s _ _ true => rr = s | _ => True) (m : Nat) (hm : m < e.bytes.length) :
    CutEv (readEvent rr (e.bytes.take m)) := by
  obtain ⟨δ, ev⟩ := e
  simp only [GEvent.bytes] at hm ⊢
  by_cases h1 : m < δ.bytes.length
  · -- cut inside the delta time
    rw [List.take_append_of_le_length (by omega)]
    unfold readEvent
    simp [readVlq_cut δ hd m h1, bind, Except.bind, CutEv]
  · rw [take_append_ge _ _ _ (by omega)]
    have hm' : m - δ.bytes.length < ev.bytes.length := by simp only [List.length_append] at hm; omega
    generalize m - δ.bytes.length = k at hm'
    unfold readEvent
    simp only [readVlq_g δ hd, bind, Except.bind]
    cases ev with
    | metaEv t len data =>
      obtain ⟨_, _, hl, hlen⟩ := hv
      simp only [GEv.bytes, List.append_assoc, List.cons_append, List.nil_append] at hm' ⊢
      match k, hm' with
      | 0, _ => simp [readByte, CutEv]
      | 1, _ => simp [readByte, CutEv]
      | k + 2, hk =>
        simp only [List.take_succ_cons, readByte, List.length_cons] at hk ⊢
        simp only [if_true]
        by_cases h2 : k < len.bytes.length
        · rw [List.take_append_of_le_length (by omega)]
          simp [readVlq_cut len hl k h2, CutEv]
        · rw [take_append_ge _ _ _ (by omega), readVlq_g len hl]
          have hj : k - len.bytes.length < data.length := by simp only [List.length_append] at hk; omega
          simp only [hlen]
          rcases readN_cut data _ hj with h3 | h3 <;> simp [h3, CutEv]
    | sysex l len data =>
      obtain ⟨hl0, hl, hlen⟩ := hv
      simp only [GEv.bytes, List.cons_append] at hm' ⊢
      match k, hm' with
      | 0, _ => simp [readByte, CutEv]
      | k + 1, hk =>
        simp only [List.take_succ_cons, readByte, List.length_cons] at hk ⊢
        have hFF : ¬ l = 0xFF := by rcases hl0 with rfl | rfl <;> decide
        simp only [hFF, if_false, hl0, if_true]
        by_cases h2 : k < len.bytes.length
        · rw [List.take_append_of_le_length (by omega)]
          simp [readVlq_cut len hl k h2, CutEv]
        · rw [take_append_ge _ _ _ (by omega), readVlq_g len hl]
          have hj : k - len.bytes.length < data.length := by simp only [List.length_append] at hk; omega
          simp only [hlen]
          rcases readN_cut data _ hj with h3 | h3 <;> simp [h3, CutEv]
    | chan s d1 d2 elide =>
      obtain ⟨h1', h2', h3', h4'⟩ := hv
      have hsFF : s ≠ 0xFF := by omega
      have hsF0 : ¬ (s = 0xF0 ∨ s = 0xF7) := by omega
      have hdFF : d1 ≠ 0xFF := by omega
      have hdF0 : ¬ (d1 = 0xF0 ∨ d1 = 0xF7) := by omega
      have hc : isChanStatus s = true := by simp [isChanStatus]; omega
      have hdc : isChanStatus d1 = false := by simp [isChanStatus]; omega
      cases elide with
      | true =>
        simp only at hel
        subst hel
        have hs0 : rr ≠ 0 := by omega
        cases d2 with
        | none =>
          simp only [GEv.bytes, if_true, List.nil_append, List.length_cons, List.length_nil] at hm' ⊢
          have : k = 0 := by omega
          subst this
          simp [readByte, CutEv]
        | some d =>
          obtain ⟨h5, h6⟩ := h4'
          simp only [GEv.bytes, if_true, List.nil_append, List.length_cons, List.length_nil] at hm' ⊢
          match k, hm' with
          | 0, _ => simp [readByte, CutEv]
          | 1, _ =>
            simp only [Gram.oneData, Bool.or_eq_false_iff, decide_eq_false_iff_not] at h5
            simp only [readByte, hdFF, hdF0, hdc, hs0, finishChan, h5, CutEv, List.take_succ_cons, List.take_zero, pure, Except.pure, if_false, or_self, Bool.false_eq_true, reduceCtorEq, false_or]
            exact ⟨_, _, rfl⟩
      | false =>
        cases d2 with
        | none =>
          simp only [GEv.bytes, Bool.false_eq_true, if_false, List.cons_append, List.nil_append,
            List.length_cons, List.length_nil] at hm' ⊢
          match k, hm' with
          | 0, _ => simp [readByte, CutEv]
          | 1, _ => simp [readByte, hsFF, hsF0, hc, CutEv]
        | some d =>
          obtain ⟨h5, h6⟩ := h4'
          simp only [GEv.bytes, Bool.false_eq_true, if_false, List.cons_append, List.nil_append,
            List.length_cons, List.length_nil] at hm' ⊢
          match k, hm' with
          | 0, _ => simp [readByte, CutEv]
          | 1, _ => simp [readByte, hsFF, hsF0, hc, CutEv]
          | 2, _ =>
            simp only [Gram.oneData, Bool.or_eq_false_iff, decide_eq_false_iff_not] at h5
            simp only [readByte, hsFF, hsF0, hc, finishChan, h5, CutEv, List.take_succ_cons, List.take_zero, pure, Except.pure, if_false, if_true, or_self, reduceCtorEq, false_or]
            exact ⟨_, _, rfl⟩

end Midi.Gram
