import MidiModel.Midicat
/-!
# Lemmas about the midicat line codec: encoder shape, the `Sscanf` fragments on encoder output,
  the reader loop on plain segments, self-framing.
-/
namespace Midi.Midicat

/-- the `int32` range of the time stamp -/
def Int32Range (i : Int) : Prop := -2147483648 ≤ i ∧ i ≤ 2147483647

/-- a byte that is neither the separator nor the terminator -/
def Plain (l : Bytes) : Prop := ∀ b ∈ l, b ≠ 32 ∧ b ≠ 10

def AllHex (l : Bytes) : Prop := ∀ b ∈ l, isHex b = true

def AllDigits (l : Bytes) : Prop := ∀ b ∈ l, isDigit b = true

/-! ## characters -/

theorem hexVal_hexChar (n : Nat) (h : n < 16) : hexVal (hexChar n) = some n := by
  unfold hexVal hexChar
  by_cases h10 : n < 10
  · simp only [h10, if_true]
    rw [if_pos (by omega)]; congr 1; omega
  · simp only [h10, if_false]
    rw [if_neg (by omega), if_pos (by omega)]; congr 1; omega

theorem isHex_hexChar (n : Nat) (h : n < 16) : isHex (hexChar n) = true := by
  simp [isHex, hexVal_hexChar n h]

theorem isHex_bounds {b : Nat} (h : isHex b = true) :
    (48 ≤ b ∧ b ≤ 57) ∨ (65 ≤ b ∧ b ≤ 70) ∨ (97 ≤ b ∧ b ≤ 102) := by
  unfold isHex hexVal at h
  by_cases h1 : 48 ≤ b ∧ b ≤ 57
  · exact Or.inl h1
  · by_cases h2 : 65 ≤ b ∧ b ≤ 70
    · exact Or.inr (Or.inl h2)
    · by_cases h3 : 97 ≤ b ∧ b ≤ 102
      · exact Or.inr (Or.inr h3)
      · simp [h1, h2, h3] at h

theorem hexVal_some_of_isHex {b : Nat} (h : isHex b = true) : ∃ v, hexVal b = some v := by
  unfold isHex at h
  cases hv : hexVal b with
  | none => simp [hv] at h
  | some v => exact ⟨v, rfl⟩

theorem hexVal_none_of_not_isHex {b : Nat} (h : isHex b = false) : hexVal b = none := by
  unfold isHex at h
  cases hv : hexVal b with
  | none => rfl
  | some v => simp [hv] at h

theorem isDigit_bounds {b : Nat} (h : isDigit b = true) : 48 ≤ b ∧ b ≤ 57 := by
  simpa [isDigit] using h

theorem allHex_hexStr (bs : Bytes) : AllHex (hexStr bs) := by
  intro b hb
  simp only [hexStr, List.mem_flatMap] at hb
  obtain ⟨x, _, hx⟩ := hb
  simp only [hexUp, List.mem_cons, List.mem_nil_iff, or_false] at hx
  rcases hx with rfl | rfl
  · exact isHex_hexChar _ (Nat.mod_lt _ (by omega))
  · exact isHex_hexChar _ (Nat.mod_lt _ (by omega))

theorem plain_of_allHex {l : Bytes} (h : AllHex l) : Plain l := by
  intro b hb
  have := isHex_bounds (h b hb)
  omega

theorem plain_of_allDigits {l : Bytes} (h : AllDigits l) : Plain l := by
  intro b hb
  have := isDigit_bounds (h b hb)
  omega

theorem hexStr_cons (b : Nat) (bs : Bytes) :
    hexStr (b :: bs) = hexChar (b / 16 % 16) :: hexChar (b % 16) :: hexStr bs := by
  simp [hexStr, hexUp]

theorem hexStr_length (bs : Bytes) : (hexStr bs).length = 2 * bs.length := by
  induction bs with
  | nil => rfl
  | cons b bs ih => rw [hexStr_cons]; simp [ih]; omega

/-! ## decimal digits -/

theorem natDecF_allDigits (f n : Nat) : AllDigits (natDecF f n) := by
  induction f generalizing n with
  | zero =>
    intro b hb
    simp only [natDecF, List.mem_cons, List.mem_nil_iff, or_false] at hb
    subst hb; simp [isDigit]; omega
  | succ f ih =>
    intro b hb
    unfold natDecF at hb
    by_cases h : n < 10
    · simp only [h, if_true, List.mem_cons, List.mem_nil_iff, or_false] at hb
      subst hb; simp [isDigit]; omega
    · simp only [h, if_false, List.mem_append, List.mem_cons, List.mem_nil_iff, or_false] at hb
      rcases hb with hb | rfl
      · exact ih _ b hb
      · simp [isDigit]; omega

theorem natDecF_ne_nil (f n : Nat) : natDecF f n ≠ [] := by
  cases f with
  | zero => simp [natDecF]
  | succ f =>
    unfold natDecF
    by_cases h : n < 10 <;> simp [h]

theorem digitsVal_append_one (l : Bytes) (d : Nat) : digitsVal (l ++ [d]) = digitsVal l * 10 + (d - 48) := by
  simp [digitsVal, List.foldl_append]

theorem digitsVal_natDecF (f n : Nat) (h : n < 10 ^ (f + 1)) : digitsVal (natDecF f n) = n := by
  induction f generalizing n with
  | zero =>
    have : n < 10 := by simpa using h
    simp [natDecF, digitsVal]; omega
  | succ f ih =>
    unfold natDecF
    by_cases h10 : n < 10
    · simp [h10, digitsVal]
    · simp only [h10, if_false]
      rw [digitsVal_append_one, ih (n / 10)]
      · omega
      · have : 10 ^ (f + 1 + 1) = 10 * 10 ^ (f + 1) := by rw [Nat.pow_succ]; omega
        rw [this] at h
        exact Nat.div_lt_of_lt_mul h

theorem all_isDigit_of_allDigits (l : Bytes) (h : AllDigits l) : l.all isDigit = true := by
  simpa [List.all_eq_true, AllDigits] using h

theorem allDigits_natDec (n : Nat) : AllDigits (natDec n) := natDecF_allDigits 10 n

theorem natDec_ne_nil (n : Nat) : natDec n ≠ [] := natDecF_ne_nil 10 n

theorem plain_decimal (i : Int) : Plain (decimal i) := by
  unfold decimal
  by_cases h : i < 0
  · simp only [h, if_true]
    intro b hb
    simp only [List.mem_cons] at hb
    rcases hb with rfl | hb
    · omega
    · exact plain_of_allDigits (allDigits_natDec _) b hb
  · simp only [h, if_false]
    exact plain_of_allDigits (allDigits_natDec _)

theorem parseInt_range (v i : Int) (e : v = i) (h : Int32Range i) :
    (if -2147483648 ≤ v ∧ v ≤ 2147483647 then some v else none) = some i := by
  subst e; rw [if_pos (show -2147483648 ≤ v ∧ v ≤ 2147483647 from h)]

/-- `ParseInt` reads back what `%d` printed, for every `int32` -/
theorem parseInt_decimal (i : Int) (h : Int32Range i) : parseInt (decimal i) = some i := by
  unfold decimal
  by_cases hneg : i < 0
  · simp only [hneg, if_true]
    have hn : i.natAbs < 10 ^ (10 + 1) := by have := h.1; omega
    unfold parseInt
    simp only [true_or, if_true]
    rw [if_neg (natDec_ne_nil _), all_isDigit_of_allDigits _ (allDigits_natDec _)]
    simp only [if_true]
    apply parseInt_range _ _ _ h
    rw [natDec, digitsVal_natDecF 10 _ hn]; omega
  · simp only [hneg, if_false]
    have hn : i.toNat < 10 ^ (10 + 1) := by have := h.2; omega
    have hne := natDecF_ne_nil 10 i.toNat
    have hd := allDigits_natDec i.toNat
    have hv : digitsVal (natDec i.toNat) = i.toNat := digitsVal_natDecF 10 _ hn
    unfold parseInt
    cases hnd : natDec i.toNat with
    | nil => exact absurd hnd hne
    | cons c r =>
      have hc := isDigit_bounds (hd c (by simp [hnd]))
      have h45 : (c = 45) = False := by simp; omega
      have h43 : (c = 43) = False := by simp; omega
      simp only [h45, h43, or_self, if_false]
      rw [if_neg (by simp)]
      rw [← hnd, all_isDigit_of_allDigits _ hd]
      simp only [if_true]
      apply parseInt_range _ _ _ h
      rw [hv]; omega

/-! ## `%X` read back -/

theorem hexDecode_hexUp (b : Nat) (hb : b < 256) (r : Bytes) :
    hexDecode (hexChar (b / 16 % 16) :: hexChar (b % 16) :: r) = (hexDecode r).map (fun t => b :: t) := by
  rw [hexDecode]
  rw [hexVal_hexChar _ (Nat.mod_lt _ (by omega)), hexVal_hexChar _ (Nat.mod_lt _ (by omega))]
  have : b / 16 % 16 * 16 + b % 16 = b := by omega
  simp only [this]

theorem hexDecode_hexStr (bs : Bytes) (hb : AllBytes bs) : hexDecode (hexStr bs) = some bs := by
  induction bs with
  | nil => simp [hexStr, hexDecode]
  | cons b bs ih =>
    rw [hexStr_cons, hexDecode_hexUp b (hb b (by simp)), ih (fun x hx => hb x (by simp [hx]))]
    rfl

theorem hexStr_ne_nil (bs : Bytes) (hne : bs ≠ []) : hexStr bs ≠ [] := by
  cases bs with
  | nil => exact absurd rfl hne
  | cons b r => rw [hexStr_cons]; simp

theorem scanHex_hexStr (bs : Bytes) (hne : bs ≠ []) (hb : AllBytes bs) : scanHex (hexStr bs) = some bs := by
  unfold scanHex
  rw [if_neg (hexStr_ne_nil bs hne), hexDecode_hexStr bs hb]

/-- what `hex.Decode` accepts: an even number of hex digits, nothing else -/
theorem hexDecode_some (n : Nat) : ∀ (l bs : Bytes), l.length ≤ n → hexDecode l = some bs →
    AllHex l ∧ l.length = 2 * bs.length := by
  induction n with
  | zero =>
    intro l bs hl h
    match l, hl with
    | [], _ =>
      simp [hexDecode] at h; subst h
      exact ⟨by intro b hb; simp at hb, rfl⟩
  | succ n ih =>
    intro l bs hl h
    match l, hl with
    | [], _ =>
      simp [hexDecode] at h; subst h
      exact ⟨by intro b hb; simp at hb, rfl⟩
    | [c], _ => simp [hexDecode] at h
    | c1 :: c2 :: r, hl =>
      rw [hexDecode] at h
      cases e1 : hexVal c1 with
      | none => simp [e1] at h
      | some v1 =>
        cases e2 : hexVal c2 with
        | none => simp [e1, e2] at h
        | some v2 =>
          simp only [e1, e2] at h
          cases e3 : hexDecode r with
          | none => simp [e3] at h
          | some t =>
            simp only [e3, Option.map_some, Option.some.injEq] at h
            subst h
            obtain ⟨ha, hlen⟩ := ih r t (by simp at hl; omega) e3
            refine ⟨?_, by simp [hlen]; omega⟩
            intro b hb
            simp only [List.mem_cons] at hb
            rcases hb with rfl | rfl | hb
            · simp [isHex, e1]
            · simp [isHex, e2]
            · exact ha b hb

theorem scanHex_some {l bs : Bytes} (h : scanHex l = some bs) :
    AllHex l ∧ l.length = 2 * bs.length ∧ bs ≠ [] := by
  unfold scanHex at h
  by_cases hl : l = []
  · simp [hl] at h
  · rw [if_neg hl] at h
    obtain ⟨h1, h2⟩ := hexDecode_some l.length l bs (Nat.le_refl _) h
    refine ⟨h1, h2, ?_⟩
    intro hb; subst hb
    simp at h2; exact hl h2

/-- odd length or any non-hex byte: `convert` fails -/
theorem scanHex_none_of_odd (l : Bytes) (h : l.length % 2 = 1) : scanHex l = none := by
  cases e : scanHex l with
  | none => rfl
  | some bs => have := (scanHex_some e).2.1; omega

theorem scanHex_none_of_nonhex (l : Bytes) (c : Nat) (hc : isHex c = false) (hm : c ∈ l) : scanHex l = none := by
  cases e : scanHex l with
  | none => rfl
  | some bs => have := (scanHex_some e).1 c hm; simp [hc] at this

/-! ## the reader loop -/

theorem readLoop_delta (xs rest : Bytes) (st : St) (hx : Plain xs) (hd : st.deltaRead = false) :
    readLoop (xs ++ rest) st = readLoop rest { st with deltaBf := st.deltaBf ++ xs } := by
  induction xs generalizing st with
  | nil => simp
  | cons b xs ih =>
    have hb := hx b (by simp)
    simp only [List.cons_append]
    rw [readLoop]
    simp only [hb.1, hb.2, if_false]
    rw [if_neg (by simp [hd])]
    rw [ih { st with deltaBf := st.deltaBf ++ [b] } (fun x h => hx x (by simp [h])) hd]
    simp [List.append_assoc]

theorem readLoop_out (xs rest : Bytes) (st : St) (hx : Plain xs) (hd : st.deltaRead = true) :
    readLoop (xs ++ rest) st = readLoop rest { st with out := st.out ++ xs } := by
  induction xs generalizing st with
  | nil => simp
  | cons b xs ih =>
    have hb := hx b (by simp)
    simp only [List.cons_append]
    rw [readLoop]
    simp only [hb.1, hb.2, if_false]
    rw [if_pos hd]
    rw [ih { st with out := st.out ++ [b] } (fun x h => hx x (by simp [h])) hd]
    simp [List.append_assoc]

/-- a line `a ' ' h '\n'` whose first field parses: `Read` returns `(d, h)` and consumes exactly the line -/
theorem readLoop_line (a h rest : Bytes) (d : Int) (ha : Plain a) (hh : Plain h) (hd : parseInt a = some d) :
    readLoop (a ++ 32 :: (h ++ 10 :: rest)) {} = (.ok (d, h), rest) := by
  rw [readLoop_delta a _ {} ha rfl]
  rw [readLoop]
  simp only [if_true, List.nil_append, hd, Bool.false_eq_true, if_false]
  rw [readLoop_out h _ _ hh rfl]
  rw [readLoop]
  simp

/-- a second blank: error at once, what follows the blank stays in the stream -/
theorem readLoop_sep (a h rest : Bytes) (d : Int) (ha : Plain a) (hh : Plain h) (hd : parseInt a = some d) :
    readLoop (a ++ 32 :: (h ++ 32 :: rest)) {} = (.error .sep, rest) := by
  rw [readLoop_delta a _ {} ha rfl]
  rw [readLoop]
  simp only [if_true, List.nil_append, hd, Bool.false_eq_true, if_false]
  rw [readLoop_out h _ _ hh rfl]
  rw [readLoop]
  simp

/-- a line without separator: `Read` returns `(0, nil)` and consumes exactly the line -/
theorem readLoop_nosep (a rest : Bytes) (ha : Plain a) :
    readLoop (a ++ 10 :: rest) {} = (.ok (0, []), rest) := by
  rw [readLoop_delta a _ {} ha rfl]
  rw [readLoop]
  simp

/-- self-framing of `Read`: nothing behind the first newline is looked at -/
theorem readLoop_framing (l rest : Bytes) (st : St) (hl : ∀ b ∈ l, b ≠ 10) :
    readLoop (l ++ 10 :: rest) st = ((readLoop (l ++ [10]) st).1, (readLoop (l ++ [10]) st).2 ++ rest) := by
  induction l generalizing st with
  | nil => simp [readLoop]
  | cons b l ih =>
    have hb := hl b (by simp)
    have hl' : ∀ x ∈ l, x ≠ 10 := fun x h => hl x (by simp [h])
    simp only [List.cons_append]
    simp only [readLoop]
    by_cases h32 : b = 32
    · simp only [h32, if_true]
      by_cases hdr : st.deltaRead = true
      · simp [hdr]
      · simp only [hdr, Bool.false_eq_true, if_false]
        cases parseInt st.deltaBf with
        | none => simp
        | some d => exact ih _ hl'
    · simp only [h32, hb, if_false]
      by_cases hdr : st.deltaRead = true
      · simp only [hdr, if_true]; exact ih _ hl'
      · simp only [hdr]; exact ih _ hl'

theorem readAndConvert_framing (l rest : Bytes) (hl : ∀ b ∈ l, b ≠ 10) :
    readAndConvert (l ++ 10 :: rest) = ((readAndConvert (l ++ [10])).1, (readAndConvert (l ++ [10])).2 ++ rest) := by
  unfold readAndConvert
  rw [readLoop_framing l rest {} hl]
  cases h : readLoop (l ++ [10]) {} with
  | mk r rem =>
    cases r with
    | error k => rfl
    | ok p =>
      obtain ⟨d, out⟩ := p
      simp only
      cases scanHex out with
      | none => rfl
      | some bs => rfl

/-- without a newline `Read` cannot succeed -/
theorem readLoop_no_terminator (l : Bytes) (st : St) (hl : ∀ b ∈ l, b ≠ 10) :
    ∃ k rem, readLoop l st = (.error k, rem) ∧ k ≠ .hex := by
  induction l generalizing st with
  | nil => exact ⟨.read, [], rfl, by decide⟩
  | cons b l ih =>
    have hb := hl b (by simp)
    have hl' : ∀ x ∈ l, x ≠ 10 := fun x h => hl x (by simp [h])
    rw [readLoop]
    by_cases h32 : b = 32
    · simp only [h32, if_true]
      by_cases hdr : st.deltaRead = true
      · exact ⟨.sep, l, by simp [hdr], by decide⟩
      · simp only [hdr, Bool.false_eq_true, if_false]
        cases parseInt st.deltaBf with
        | none => exact ⟨.delta, l, rfl, by decide⟩
        | some d => exact ih _ hl'
    · simp only [h32, hb, if_false]
      by_cases hdr : st.deltaRead = true
      · simp only [hdr, if_true]; exact ih _ hl'
      · simp only [hdr]; exact ih _ hl'

/-- inversion, after the blank: a successful `Read` consumed plain bytes up to a newline -/
theorem readLoop_ok_out (inp : Bytes) (st : St) (d : Int) (out rest : Bytes) (hdr : st.deltaRead = true)
    (h : readLoop inp st = (.ok (d, out), rest)) :
    ∃ hs, Plain hs ∧ inp = hs ++ 10 :: rest ∧ out = st.out ++ hs ∧ d = st.deltams := by
  induction inp generalizing st with
  | nil => simp [readLoop] at h
  | cons b l ih =>
    rw [readLoop] at h
    by_cases h32 : b = 32
    · simp [h32, hdr] at h
    · by_cases h10 : b = 10
      · simp only [h32, h10, if_false, if_true, Prod.mk.injEq, Except.ok.injEq] at h
        obtain ⟨⟨rfl, rfl⟩, rfl⟩ := h
        exact ⟨[], by intro x hx; simp at hx, by simp [h10], by simp, rfl⟩
      · simp only [h32, h10, if_false] at h
        rw [if_pos hdr] at h
        obtain ⟨hs, hp, hi, ho, hd⟩ := ih { st with out := st.out ++ [b] } hdr h
        refine ⟨b :: hs, ?_, by simp [hi], by simp [ho], hd⟩
        intro x hx
        simp only [List.mem_cons] at hx
        rcases hx with rfl | hx
        · exact ⟨h32, h10⟩
        · exact hp x hx

/-- inversion, before the blank -/
theorem readLoop_ok_delta (inp : Bytes) (st : St) (d : Int) (out rest : Bytes) (hdr : st.deltaRead = false)
    (h : readLoop inp st = (.ok (d, out), rest)) :
    (∃ a, Plain a ∧ inp = a ++ 10 :: rest ∧ out = st.out) ∨
    (∃ a hs, Plain a ∧ Plain hs ∧ inp = a ++ 32 :: (hs ++ 10 :: rest) ∧
      parseInt (st.deltaBf ++ a) = some d ∧ out = st.out ++ hs) := by
  induction inp generalizing st with
  | nil => simp [readLoop] at h
  | cons b l ih =>
    rw [readLoop] at h
    by_cases h32 : b = 32
    · simp only [h32, if_true, hdr, Bool.false_eq_true, if_false] at h
      cases hp : parseInt st.deltaBf with
      | none => simp [hp] at h
      | some d' =>
        simp only [hp] at h
        obtain ⟨hs, hpl, hi, ho, hd⟩ := readLoop_ok_out l _ d out rest rfl h
        refine Or.inr ⟨[], hs, by intro x hx; simp at hx, hpl, by simp [h32, hi], ?_, ho⟩
        simp only [List.append_nil, hp]
        simp at hd; rw [hd]
    · by_cases h10 : b = 10
      · simp only [h32, h10, if_false, if_true, Prod.mk.injEq, Except.ok.injEq] at h
        obtain ⟨⟨_, rfl⟩, rfl⟩ := h
        exact Or.inl ⟨[], by intro x hx; simp at hx, by simp [h10], rfl⟩
      · simp only [h32, h10, if_false] at h
        rw [if_neg (by simp [hdr])] at h
        rcases ih { st with deltaBf := st.deltaBf ++ [b] } hdr h with ⟨a, hp, hi, ho⟩ | ⟨a, hs, hp, hps, hi, hpi, ho⟩
        · refine Or.inl ⟨b :: a, ?_, by simp [hi], ho⟩
          intro x hx
          simp only [List.mem_cons] at hx
          rcases hx with rfl | hx
          · exact ⟨h32, h10⟩
          · exact hp x hx
        · refine Or.inr ⟨b :: a, hs, ?_, hps, by simp [hi], ?_, ho⟩
          · intro x hx
            simp only [List.mem_cons] at hx
            rcases hx with rfl | hx
            · exact ⟨h32, h10⟩
            · exact hp x hx
          · simpa [List.append_assoc] using hpi

/-! ## records and streams -/

/-- a record of the property's domain: `int32` time stamp, at least one message byte, bytes < 256 -/
def RecOK (r : Int × Bytes) : Prop := Int32Range r.1 ∧ r.2 ≠ [] ∧ AllBytes r.2

theorem readAndConvert_line (a h rest : Bytes) (d : Int) (ha : Plain a) (hh : Plain h)
    (hd : parseInt a = some d) :
    readAndConvert (a ++ 32 :: (h ++ 10 :: rest)) =
      (match scanHex h with | none => .err .hex | some bs => .ok d bs, rest) := by
  unfold readAndConvert
  rw [readLoop_line a h rest d ha hh hd]
  simp only
  cases scanHex h <;> rfl

/-- every record a call returns comes from exactly one line `time ' ' hex '\n'` at the head of the stream,
    both fields plain, the first a complete `int32` numeral, the second an even, non-zero number of hex digits -/
theorem readAndConvert_ok (inp rest : Bytes) (ts : Int) (bs : Bytes)
    (h : readAndConvert inp = (.ok ts bs, rest)) :
    ∃ a hs, inp = a ++ 32 :: (hs ++ 10 :: rest) ∧ Plain a ∧ parseInt a = some ts ∧
      AllHex hs ∧ scanHex hs = some bs ∧ hs.length = 2 * bs.length ∧ bs ≠ [] := by
  unfold readAndConvert at h
  cases hr : readLoop inp {} with
  | mk r rem =>
    rw [hr] at h
    cases r with
    | error k => simp at h
    | ok p =>
      obtain ⟨d, out⟩ := p
      simp only at h
      cases hsx : scanHex out with
      | none => simp [hsx] at h
      | some bs' =>
        simp only [hsx, Prod.mk.injEq, Res.ok.injEq] at h
        obtain ⟨⟨rfl, rfl⟩, rfl⟩ := h
        rcases readLoop_ok_delta inp {} d out rem rfl hr with ⟨a, _, _, ho⟩ | ⟨a, hs, hp, _, hi, hpi, ho⟩
        · simp at ho; subst ho; simp [scanHex] at hsx
        · simp at ho hpi; subst ho
          obtain ⟨h1, h2, h3⟩ := scanHex_some hsx
          exact ⟨a, out, hi, hp, hpi, h1, hsx, h2, h3⟩

theorem encodeRec_append (ts : Int) (bs rest : Bytes) :
    encodeRec ts bs ++ rest = decimal ts ++ 32 :: (hexStr bs ++ 10 :: rest) := by
  simp [encodeRec, List.append_assoc]

theorem readAndConvert_encodeRec (ts : Int) (bs rest : Bytes) (h : RecOK (ts, bs)) :
    readAndConvert (encodeRec ts bs ++ rest) = (.ok ts bs, rest) := by
  rw [encodeRec_append,
    readAndConvert_line _ _ rest ts (plain_decimal ts) (plain_of_allHex (allHex_hexStr bs)) (parseInt_decimal ts h.1),
    scanHex_hexStr bs h.2.1 h.2.2]

theorem readMany_encodeStream (recs : List (Int × Bytes)) (rest : Bytes) (h : ∀ r ∈ recs, RecOK r) :
    readMany recs.length (encodeStream recs ++ rest) = (recs.map (fun r => Res.ok r.1 r.2), rest) := by
  induction recs with
  | nil => rfl
  | cons r recs ih =>
    obtain ⟨ts, bs⟩ := r
    simp only [encodeStream, List.length_cons, readMany, List.append_assoc]
    rw [readAndConvert_encodeRec ts bs _ (h _ (by simp))]
    simp only
    rw [ih (fun x hx => h x (by simp [hx]))]
    simp

/-- one more call in front -/
theorem readMany_succ (n : Nat) (inp mid : Bytes) (r : Res) (h : readAndConvert inp = (r, mid)) :
    readMany (n + 1) inp = (r :: (readMany n mid).1, (readMany n mid).2) := by
  simp only [readMany, h]

/-! ## fragmenting source -/

theorem read1_nil (fuel : Nat) (s : Src) (h : s.data = []) : read1 (fuel + 1) s = (none, s) := by
  simp [read1, Src.read, h]

theorem read1_cons (fuel : Nat) (s : Src) (b : Nat) (r : Bytes) (h : s.data = b :: r)
    (hf : s.frags.length + 1 ≤ fuel) : ∃ s', read1 fuel s = (some b, s') ∧ s'.data = r := by
  induction fuel generalizing s with
  | zero => omega
  | succ fuel ih =>
    rw [read1]
    unfold Src.read
    simp only [h]
    cases hfr : s.frags with
    | nil => simp
    | cons f fs =>
      by_cases hf0 : f = 0
      · simp only [hf0, if_true]
        simp
        have := ih { s with frags := fs } h (by simp [hfr] at hf; simpa using hf)
        simpa [h] using this
      · have hmin : min 1 (min f (r.length + 1)) = 1 := by omega
        simp only [hf0, if_false, List.length_cons, hmin]
        simp

theorem readLoopS_eq (fuel : Nat) (s : Src) (st : St) (hfu : s.data.length + 1 ≤ fuel) :
    ∃ s', readLoopS fuel s st = ((readLoop s.data st).1, s') ∧ s'.data = (readLoop s.data st).2 := by
  induction fuel generalizing s st with
  | zero => omega
  | succ fuel ih =>
    cases hd : s.data with
    | nil =>
      refine ⟨s, ?_, by simp [readLoop, hd]⟩
      simp [readLoopS, read1_nil _ s hd, readLoop]
    | cons b r =>
      obtain ⟨s1, h1, hdata⟩ := read1_cons (s.frags.length + 1) s b r hd (Nat.le_refl _)
      have hfu1 : s1.data.length + 1 ≤ fuel := by rw [hdata]; rw [hd] at hfu; simp at hfu; omega
      rw [readLoopS, h1, readLoop]
      simp only
      by_cases h32 : b = 32
      · simp only [h32, if_true]
        by_cases hdr : st.deltaRead = true
        · simp only [hdr, if_true]; exact ⟨s1, rfl, hdata⟩
        · simp only [hdr, Bool.false_eq_true, if_false]
          cases parseInt st.deltaBf with
          | none => exact ⟨s1, rfl, hdata⟩
          | some d =>
            simp only
            rw [← hdata]; exact ih s1 _ hfu1
      · simp only [h32, if_false]
        by_cases h10 : b = 10
        · simp only [h10, if_true]; exact ⟨s1, rfl, hdata⟩
        · simp only [h10, if_false]
          by_cases hdr : st.deltaRead = true
          · simp only [hdr, if_true]; rw [← hdata]; exact ih s1 _ hfu1
          · simp only [hdr]; rw [← hdata]; exact ih s1 _ hfu1

theorem readAndConvertS_eq (s : Src) :
    ∃ s', readAndConvertS s = ((readAndConvert s.data).1, s') ∧ s'.data = (readAndConvert s.data).2 := by
  obtain ⟨s', h1, h2⟩ := readLoopS_eq s.fuel s {} (by simp [Src.fuel])
  refine ⟨s', ?_, ?_⟩
  · unfold readAndConvertS readAndConvert
    rw [h1]
    cases readLoop s.data {} with
    | mk r rem =>
      cases r with
      | error k => rfl
      | ok p =>
        obtain ⟨d, out⟩ := p
        simp only
        cases scanHex out <;> rfl
  · unfold readAndConvert
    rw [h2]
    cases readLoop s.data {} with
    | mk r rem =>
      cases r with
      | error k => rfl
      | ok p =>
        obtain ⟨d, out⟩ := p
        simp only
        cases scanHex out <;> rfl

theorem readManyS_eq (n : Nat) (s : Src) :
    ∃ s', readManyS n s = ((readMany n s.data).1, s') ∧ s'.data = (readMany n s.data).2 := by
  induction n generalizing s with
  | zero => exact ⟨s, rfl, rfl⟩
  | succ n ih =>
    obtain ⟨s1, h1, hd1⟩ := readAndConvertS_eq s
    obtain ⟨s2, h2, hd2⟩ := ih s1
    refine ⟨s2, ?_, ?_⟩
    · simp only [readManyS, readMany, h1, h2, hd1]
    · simp only [readMany]; rw [hd2, hd1]

end Midi.Midicat
