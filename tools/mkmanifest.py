#!/usr/bin/env python3
"""Regenerate /verif/MANIFEST.json from lib/propcfg.py (claimed properties) and properties.jsonl."""
import json, os, sys
ROOT = os.path.dirname(os.path.dirname(os.path.abspath(__file__)))
sys.path.insert(0, os.path.join(ROOT, "lib"))
import propcfg
ids = [json.loads(l)["id"] for l in open(os.path.join(ROOT, "properties.jsonl")) if l.strip()]
checks, na = [], []
for pid in ids:
    cfg = propcfg.PROPS.get(pid)
    if cfg is None or cfg.get("unclaimed"):
        na.append({"property_id": pid, "reason": (cfg or {}).get("unclaimed", "check not built yet in this round (planned, see DESIGN.md §6); nothing is claimed for it")})
        continue
    checks.append({
        "property_id": pid,
        "quick_cmd": "./check %s --tier quick" % pid,
        "thorough_cmd": "./check %s --tier thorough" % pid,
        "evidence_file": "/verif/evidence/%s.json" % pid,
        "replay_cmd_template": "./check %s --replay {path}" % pid,
        "engine": "lean4-model+correspondence",
        "level_claimed": {"category": cfg.get("level", "proof"), "text": cfg["text"], "design_ref": "DESIGN.md §6 " + pid},
        "level_note": cfg["note"],
        "technique": cfg.get("technique", "Lean 4 theorems over a hand-written executable model; model tied to the code by differential correspondence on every run"),
    })
m = {
    "version": 1,
    "setup_cmd": "./check --setup",
    "hooks": {
        "guard": "verif",
        "enable": "go build -tags verif (the harness module replaces gitlab.com/gomidi/midi/v2 by /repo/v2)",
        "baseline_off_cmd": "python3 /verif/tools/baseline.py /repo",
        "source_commits": propcfg.HOOK_COMMITS,
        "add_only": True,
    },
    "engines": [{
        "name": "lean4-model+correspondence", "path": "/verif/check",
        "serves_properties": [c["property_id"] for c in checks],
        "kind_free_text": "Lean 4 (core only) executable model + kernel-checked theorems (/verif/lean), Go differential harness (/verif/harness) driving the compiled model over a line protocol, python orchestrator",
    }],
    "checks": checks,
    "not_applicable": na,
    "notes": "See DESIGN.md. Fix commits in /repo are listed in known_findings.txt (fixed: lines).",
}
json.dump(m, open(os.path.join(ROOT, "MANIFEST.json"), "w"), indent=1)
print("claimed:", [c["property_id"] for c in checks])
