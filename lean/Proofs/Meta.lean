import MidiModel.Meta
import Proofs.Vlq
/-! Helper lemmas for C15: shape of `_MetaMessage`, reading back a length-prefixed payload, the numeric
    constructors, `big.Int.Bytes` on the 24-bit tempo field, rounding. -/
namespace Midi.Meta
open Midi

theorem metaMessage_eq (t : Nat) (d : Bytes) :
    metaMessage t d = 0xFF :: t :: (Vlq.encode (d.length % 4294967296) ++ d) := by
  simp [metaMessage]

theorem encode_length_pos (n : Nat) : 1 ≤ (Vlq.encode n).length := by
  simp [Vlq.encode]

theorem isType_metaMessage (t b : Nat) (d : Bytes) :
    isType t (metaMessage b d) = (metaTypeOf b != tUnknown && metaTypeOf b == t) := by
  rw [metaMessage_eq]; rfl

theorem length_metaMessage (t : Nat) (d : Bytes) :
    (metaMessage t d).length = 2 + (Vlq.encode (d.length % 4294967296)).length + d.length := by
  simp [metaMessage]; omega

theorem drop2_metaMessage (t : Nat) (d : Bytes) :
    (metaMessage t d).drop 2 = Vlq.encode (d.length % 4294967296) ++ d := by
  simp [metaMessage]

theorem readVarLengthData_enc (d : Bytes) (h : d.length < 4294967296) :
    readVarLengthData (Vlq.encode (d.length % 4294967296) ++ d) = some d := by
  rw [Nat.mod_eq_of_lt h]
  simp [readVarLengthData, Vlq.read_encode d.length h d]

theorem TextKind.type_byte (k : TextKind) : metaTypeOf k.byte = k.type := by
  cases k <;> rfl

theorem TextKind.type_ne (k : TextKind) : (k.type != tUnknown) = true := by
  cases k <;> rfl

theorem TextKind.type_inj (k k' : TextKind) (h : k.type = k'.type) : k = k' := by
  cases k <;> cases k' <;> first | rfl | (exact absurd h (by decide))

theorem getMetaText_metaText (k : TextKind) (s : Bytes) (h : s.length < 4294967296) :
    getMetaText k (metaText k s) = some s := by
  have hl := length_metaMessage k.byte s
  have he := encode_length_pos (s.length % 4294967296)
  unfold getMetaText metaText
  rw [isType_metaMessage, TextKind.type_byte, TextKind.type_ne, drop2_metaMessage, readVarLengthData_enc s h]
  have : ¬ (metaMessage k.byte s).length < 3 := by omega
  simp [this]

theorem getMetaText_other (k k' : TextKind) (s : Bytes) (hk : k' ≠ k) :
    getMetaText k' (metaText k s) = none := by
  unfold getMetaText metaText
  rw [isType_metaMessage, TextKind.type_byte]
  have : (k.type == k'.type) = false := by
    apply beq_false_of_ne; intro h; exact hk (TextKind.type_inj _ _ h).symm
  simp [this]

theorem getMetaSeqData_metaSequencerData (d : Bytes) (hne : d ≠ []) (h : d.length < 4294967296) :
    getMetaSeqData (metaSequencerData d) = some d := by
  have hl := length_metaMessage 0x7F d
  have he := encode_length_pos (d.length % 4294967296)
  have hd : 1 ≤ d.length := by
    cases d with
    | nil => exact absurd rfl hne
    | cons a t => simp
  unfold getMetaSeqData metaSequencerData
  rw [isType_metaMessage, drop2_metaMessage, readVarLengthData_enc d h]
  have : ¬ (metaMessage 0x7F d).length < 4 := by omega
  simp [this, metaTypeOf]
theorem enc_small (n : Nat) (h : n < 128) : Vlq.encode n = [n] := by
  have : n / 128 = 0 := by omega
  simp [Vlq.encode, Vlq.tailLE, this, Nat.mod_eq_of_lt h]

theorem getMetaChannel_metaChannel (c : Nat) : getMetaChannel (metaChannel c) = some c := by
  simp [getMetaChannel, metaChannel, metaMessage, isType, metaTypeOf, enc_small]

theorem getMetaPort_metaPort (c : Nat) : getMetaPort (metaPort c) = some c := by
  simp [getMetaPort, metaPort, metaMessage, isType, metaTypeOf, enc_small]

theorem getMetaSeqNumber_metaSequenceNo (n : Nat) (h : n < 65536) :
    getMetaSeqNumber (metaSequenceNo n) = some n := by
  simp [getMetaSeqNumber, metaSequenceNo, metaMessage, isType, metaTypeOf, enc_small, be16]
  omega

theorem getMetaSMPTE_metaSMPTE (a b c d e : Nat) :
    getMetaSMPTE (metaSMPTE a b c d e) = some (a, b, c, d, e) := by
  simp [getMetaSMPTE, metaSMPTE, metaMessage, isType, metaTypeOf, enc_small]

theorem denom_pow2 : ∀ e : Fin 8, dec2binDenom (2 ^ e.val) = e.val ∧ bin2decDenom e.val = 2 ^ e.val := by
  decide

theorem getMetaTimeSig_metaTimeSig (n e c q : Nat) (he : e ≤ 7) :
    getMetaTimeSig (metaTimeSig n (2 ^ e) c q) =
      some (n, 2 ^ e, if c = 0 then 8 else c, if q = 0 then 8 else q) := by
  have := denom_pow2 ⟨e, by omega⟩
  simp only at this
  simp [getMetaTimeSig, metaTimeSig, metaMessage, isType, metaTypeOf, enc_small, this.1, this.2]

theorem getMetaMeter_metaMeter (n e : Nat) (he : e ≤ 7) :
    getMetaMeter (metaMeter n (2 ^ e)) = some (n, 2 ^ e) := by
  simp [getMetaMeter, metaMeter, getMetaTimeSig_metaTimeSig n e 8 8 he]

theorem metaKey_ignores_key (k k' : Nat) (maj : Bool) (n : Nat) (fl : Bool) :
    metaKey k maj n fl = metaKey k' maj n fl := rfl

theorem keysig_table : ∀ (n : Fin 8) (maj fl : Bool),
    (Spec.tonic maj fl n.val).isSome = true ∧
    (Spec.tonic maj fl n.val).map (fun pc => (⟨pc, n.val, maj, fl && n.val != 0⟩ : Key)) = getMetaKeySig (metaKey 0 maj n.val fl) := by
  decide

/-- `big.Int.Bytes` of a 24-bit value and the `switch` of `MetaTempo`: three big-endian bytes -/
theorem metaTempoMicros_bytes (u : Nat) (h1 : 1 ≤ u) (h2 : u ≤ 0xFFFFFF) :
    metaTempoMicros u = [0xFF, 0x51, 0x03, u / 65536, u / 256 % 256, u % 256] := by
  have hc : ¬ u > 0x0FFFFFFF := by omega
  have hu : u ≠ 0 := by omega
  unfold metaTempoMicros
  simp only [hc, if_false]
  by_cases ha : u < 256
  · have e1 : u / 256 = 0 := by omega
    have e2 : u / 65536 = 0 := by omega
    have e3 : u % 256 = u := by omega
    simp [bigBytes, bigBytesLE, hu, e1, e2, e3, metaMessage, enc_small]
  · by_cases hb : u < 65536
    · have e0 : u / 256 ≠ 0 := by omega
      have e1 : u / 256 / 256 = 0 := by omega
      have e2 : u / 65536 = 0 := by omega
      have e3 : u / 256 % 256 = u / 256 := by omega
      simp [bigBytes, bigBytesLE, hu, e0, e1, e2, e3, metaMessage, enc_small]
    · have e0 : u / 256 ≠ 0 := by omega
      have e1 : u / 256 / 256 ≠ 0 := by omega
      have e2 : u / 256 / 256 / 256 = 0 := by omega
      have e3 : u / 256 / 256 % 256 = u / 65536 := by omega
      simp [bigBytes, bigBytesLE, hu, e0, e1, e2, e3, metaMessage, enc_small]

theorem getMetaTempo_bytes (b0 b1 b2 : Nat) (h0 : b0 < 256) (h1 : b1 < 256) (h2 : b2 < 256) :
    getMetaTempo [0xFF, 0x51, 0x03, b0, b1, b2] = some (b0 * 65536 + b1 * 256 + b2) := by
  simp [getMetaTempo, isType, metaTypeOf, readUint24]
  omega

theorem getMetaTempo_metaTempoMicros (u : Nat) (h1 : 1 ≤ u) (h2 : u ≤ 0xFFFFFF) :
    getMetaTempo (metaTempoMicros u) = some u := by
  rw [metaTempoMicros_bytes u h1 h2, getMetaTempo_bytes _ _ _ (by omega) (by omega) (by omega)]
  congr 1; omega

/-- `roundDiv a b` is a nearest integer to `a/b`: `|a/b - r| ≤ 1/2`, in integers `2·|a - r·b| ≤ b` -/
theorem roundDiv_nearest (a b : Nat) (hb : 0 < b) :
    2 * (roundDiv a b * b) ≤ 2 * a + b ∧ 2 * a < 2 * (roundDiv a b * b) + b := by
  unfold roundDiv
  have h1 := Nat.div_mul_le_self (2 * a + b) (2 * b)
  have h2 := Nat.lt_div_mul_add (a := 2 * a + b) (b := 2 * b) (by omega)
  have e : (2 * a + b) / (2 * b) * (2 * b) = 2 * ((2 * a + b) / (2 * b) * b) := by
    rw [Nat.mul_left_comm]
  omega

/-- every tempo between 3.58 and 60 000 000 BPM (as a rational `p/q`) rounds into the 24-bit field -/
theorem roundDiv_range (p q : Nat) (hq : 0 < q) (hlo : 358 * q ≤ 100 * p) (hhi : p ≤ 60000000 * q) :
    1 ≤ roundDiv (60000000 * q) p ∧ roundDiv (60000000 * q) p ≤ 0xFFFFFF := by
  have hp : 0 < p := by omega
  unfold roundDiv
  constructor
  · rw [Nat.le_div_iff_mul_le (by omega)]; omega
  · have : (2 * (60000000 * q) + p) / (2 * p) < 16777216 := by
      rw [Nat.div_lt_iff_lt_mul (by omega)]; omega
    omega

theorem Spec.parse_metaMessage (t : Nat) (d : Bytes) (h : d.length < 4294967296) :
    Spec.parse (metaMessage t d) = some (t, d) := by
  rw [show metaMessage t d = 0xFF :: t :: (Vlq.encode (d.length % 4294967296) ++ d) by simp [metaMessage]]
  rw [Nat.mod_eq_of_lt h]
  simp [Spec.parse, Vlq.read_encode d.length h d]

theorem clampOctave_reaches : ∀ (b : Fin 256) (minor : Bool),
    0 ≤ clampOctave 11 (if minor then wrapInt8 (toInt8 b.val * 7) - 3 else wrapInt8 (toInt8 b.val * 7)) := by
  decide +kernel
end Midi.Meta
