import Proofs.StrictFile
/-!
# C03 — SMF encoding emits structurally valid, deterministic SMF 1.0 files

`Strict.parse` (MidiModel/Strict.lean) is the independent strict parser: header length 6, track count =
number of `MTrk` chunks, exact chunk lengths, canonical VLQs (≤ 4 bytes), running status only directly
after a channel event of the same track, exactly one end-of-track per track as its last event, no
trailing bytes. Domain: that of C01 with deltas and payload lengths up to the format's maximum
0x0FFFFFFF, one of the four SMPTE rates or a metric division, chunks shorter than 2^32 bytes.
Determinism is definitional for the model (`writeTo` is a function); for the code the harness writes
every value twice and compares.
-/
namespace Midi.C03
open Midi Midi.Smf Midi.Strict

/-- a track of the domain of C03 -/
def STrackOK (t : Track) : Prop :=
  ∃ body : ATrack, BodyOK body ∧ SBodyOK body ∧
    (t = body.map evOf ∨ ∃ δe, δe < 268435456 ∧ t = body.map evOf ++ [⟨δe, EOT⟩])

structure StrictDom (rsOn : Bool) (s : File) : Prop where
  fmt : s.format ≤ 2
  tf : StrictTF s.tf
  nonempty : s.tracks ≠ []
  count : s.tracks.length < 65536
  tracks : ∀ t ∈ s.tracks, STrackOK t
  /-- the chunk length field has 32 bits -/
  chunkSize : ∀ t ∈ s.prepared.tracks, ∀ b, encTrackBody rsOn 0 t = some b → b.length < 4294967296

/-- The strict parser accepts the bytes written for any value of the domain and recovers exactly the
    written content. -/
theorem strict_of_write (rsOn : Bool) (s : File) (h : StrictDom rsOn s) :
    ∃ w, writeTo rsOn s = .ok w ∧ Strict.parse w = some s.prepared := by
  -- closed AST form of every track, with the strict bounds
  have hch : ∀ t ∈ s.tracks, ∃ c : CTrack, (CTrackOK c ∧ SBodyOK c.1 ∧ c.2 < 268435456) ∧ t.close 0 = prepTrack c := by
    intro t ht
    obtain ⟨body, hb, hsb, h1 | ⟨δe, hδ, h1⟩⟩ := h.tracks t ht
    · subst h1
      exact ⟨(body, 0), ⟨⟨hb, by omega⟩, hsb, by omega⟩, by simp [close_open _ _ (body_open body hb), prepTrack]⟩
    · subst h1
      refine ⟨(body, δe), ⟨⟨hb, by omega⟩, hsb, hδ⟩, ?_⟩
      have : Track.isClosed (body.map evOf ++ [⟨δe, EOT⟩]) = true := by rw [isClosed_snoc]; simp
      simp [Track.close, this, prepTrack]
  obtain ⟨cs, h1, h2, h3⟩ := map_choice (fun c : CTrack => CTrackOK c ∧ SBodyOK c.1 ∧ c.2 < 268435456)
    (fun t : Track => t.close 0) prepTrack s.tracks hch
  have hok : ∀ c ∈ cs, CTrackOK c := fun c hc => (h1 c hc).1
  have hp : s.prepared.tracks = cs.map prepTrack := by simp [File.prepared, h2]
  have hw := writeTo_of_cs rsOn s cs hok hp h.count h.nonempty
  refine ⟨_, hw, ?_⟩
  have hs : ∀ c ∈ cs, SCTrackOK rsOn c := by
    intro c hc
    obtain ⟨hck, hsb, hδ⟩ := h1 c hc
    refine ⟨hsb, hδ, ?_⟩
    have hmem : prepTrack c ∈ s.prepared.tracks := by rw [hp]; exact List.mem_map_of_mem hc
    exact h.chunkSize _ hmem _ (encTrackBody_prep rsOn c.1 c.2 hck.1 hck.2 0)
  have hne : cs ≠ [] := by
    intro h0; subst h0; exact h.nonempty (List.eq_nil_of_length_eq_zero (by simpa using h3.symm))
  have hfmt : s.prepared.format ≤ 2 := by
    have := h.fmt
    simp only [File.prepared]; split <;> omega
  have hf0 : s.prepared.format = 0 → cs.length = 1 := by
    intro h0
    have hlen : s.tracks.length % 65536 = s.tracks.length := Nat.mod_eq_of_lt h.count
    have hpos : s.tracks.length ≠ 0 := by
      intro hz; exact h.nonempty (List.eq_nil_of_length_eq_zero hz)
    simp only [File.prepared, hlen] at h0
    split at h0
    · omega
    · rename_i hc; rw [h3]; omega
  have := parse_enc rsOn s.prepared.format s.tf cs hfmt hf0 h.tf hne (by rw [h3]; exact h.count) hok hs
  rw [← h3, this, ← hp]
  simp [File.prepared]

/-- the reported size is the number of bytes emitted, and the sink received exactly the file -/
theorem size_eq (rsOn : Bool) (s : File) (w : Bytes) (h : writeTo rsOn s = .ok w) :
    writeToSink rsOn s none = some (false, w.length, w) := by
  unfold writeTo at h
  unfold writeToSink
  split at h
  · cases h
  · rename_i hz
    simp only [hz, if_false]
    split at h
    · cases h
    · rename_i cs hcs
      simp only [WRes.ok.injEq] at h
      subst h
      have : ∀ (l : List Bytes) (first : Bool) (acc : Bytes),
          writeToSink.go none first acc l = (false, (acc ++ l.flatten).length, acc ++ l.flatten) := by
        intro l
        induction l with
        | nil => intro first acc; simp [writeToSink.go]
        | cons c r ih => intro first acc; simp [writeToSink.go, ih]
      simp [this]

/-! ### Variable-length quantities: for every value the API accepts, not a sample -/

/-- `ReadVarLength` reads back what `VlqEncode` wrote, for every 32-bit value, whatever follows -/
theorem vlq_read_encode (n : Nat) (h : n < 4294967296) (rest : Bytes) :
    Vlq.read (Vlq.encode n ++ rest) = some (n, rest) := Vlq.read_encode n h rest

/-- every legal value (< 2^28) is encoded in the shortest form of at most four bytes: the canonical
    parser of the strict reader accepts it and returns the value -/
theorem vlq_canonical (n : Nat) (h : n < 268435456) (rest : Bytes) :
    Strict.vlq (Vlq.encode n ++ rest) = some (n, rest) := Strict.vlq_encode n h rest

/-- length of the encoding: 1 byte below 2^7, 2 below 2^14, 3 below 2^21, 4 below 2^28 -/
theorem vlq_length (n : Nat) (h : n < 268435456) :
    (Vlq.encode n).length = if n < 128 then 1 else if n < 16384 then 2 else if n < 2097152 then 3 else 4 := by
  by_cases c1 : n < 128
  · simp [encode_1 n c1, c1]
  · by_cases c2 : n < 16384
    · simp [encode_2 n (by omega) c2, c1, c2]
    · by_cases c3 : n < 2097152
      · simp [encode_3 n (by omega) c3, c1, c2, c3]
      · simp [encode_4 n (by omega) h, c1, c2, c3]

/-! Non-vacuity -/
example : STrackOK [⟨0, [0x90, 60, 64]⟩, ⟨268435455, [0x90, 62, 0]⟩, ⟨5, EOT⟩] := by
  refine ⟨[(0, .chan 0x90 60 (some 64)), (268435455, .chan 0x90 62 (some 0))], ?_, ?_, Or.inr ⟨5, by omega, rfl⟩⟩
  · intro x hx; simp at hx
    rcases hx with rfl | rfl <;> exact ⟨by simp [Ev.Valid, oneData], trivial, by omega⟩
  · intro x hx; simp at hx
    rcases hx with rfl | rfl <;> exact ⟨by omega, by simp [payloadLen]⟩

example : (match writeTo true ⟨0, .smpte 25 40, [[⟨0, [0x90, 60, 64]⟩, ⟨268435455, [60, 0]⟩]]⟩ with
    | .ok w => Strict.parse w == some (File.prepared ⟨0, .smpte 25 40, [[⟨0, [0x90, 60, 64]⟩, ⟨268435455, [60, 0]⟩]]⟩)
    | _ => true) = false := by decide +kernel  -- a malformed (status-less) message is NOT accepted by the strict parser

example : (match writeTo true ⟨0, .smpte 25 40, [[⟨0, [0x90, 60, 64]⟩, ⟨268435455, [0x90, 62, 0]⟩]]⟩ with
    | .ok w => Strict.parse w == some (File.prepared ⟨0, .smpte 25 40, [[⟨0, [0x90, 60, 64]⟩, ⟨268435455, [0x90, 62, 0]⟩]]⟩)
    | _ => false) = true := by decide +kernel

end Midi.C03
