/-! Generated on every run by `harness facts` from the working tree. Do not edit. -/
namespace Midi.Facts
end Midi.Facts
