import MidiModel.Msg
import MidiModel.Generated.UtilsGo
/-!
# C07 / C08, tie to the source: the `internal/utils` bit helpers as translated from the working tree are the
model's (`MidiModel/Msg.lean`). Regenerated on every run by `tools/go2lean`.
-/
namespace Midi.C07
open Midi Midi.Msg Midi.Go

theorem code_ParseStatus (b : Nat) : utils.ParseStatus b = parseStatus b := rfl
theorem code_ParseUint7 (b : Nat) : utils.ParseUint7 b = parseUint7 b := rfl
theorem code_ParseTwoUint7 (a b : Nat) : utils.ParseTwoUint7 a b = (parseUint7 a, parseUint7 b) := rfl
theorem code_ClearBitU8 (n pos : Nat) : utils.ClearBitU8 n pos = clearBitU8 n pos := rfl
theorem code_clearBitU16 (n pos : Nat) : utils.clearBitU16 n pos = clearBitU16 n pos := rfl

theorem code_ParsePitchWheelVals (b1 b2 : Nat) : utils.ParsePitchWheelVals b1 b2 = parsePitchWheelVals b1 b2 := by
  unfold utils.ParsePitchWheelVals parsePitchWheelVals
  simp only [Id.run, pure]
  generalize (b2 &&& 127) <<< 7 % 65536 ||| b1 &&& 127 = v
  refine Prod.ext ?_ rfl
  show Go.wrapS 16 (Go.wrapS 16 (v : Int) - 8192) = _
  unfold Go.wrapS
  simp only []
  split <;> omega

/-- `MsbLsbUnsigned`: the translated function panics exactly where the model says `none` -/
theorem code_MsbLsbUnsigned (n : Nat) :
    utils.MsbLsbUnsigned n = (match msbLsbUnsigned n with | some v => .ok v | none => .error "panic") := by
  unfold utils.MsbLsbUnsigned msbLsbUnsigned
  by_cases h : n > 16383
  · simp [h]; rfl
  · simp [h, code_clearBitU16]; rfl

theorem code_MsbLsbSigned (n : Int) :
    utils.MsbLsbSigned n = (match msbLsbSigned n with | some v => .ok v | none => .error "panic") := by
  unfold utils.MsbLsbSigned msbLsbSigned
  rw [code_MsbLsbUnsigned]
  have : Go.toU 16 (Go.wrapS 16 (n + 8192)) = (((n + 8192 + 32768) % 65536 - 32768) % 65536).toNat := by
    unfold Go.toU Go.wrapS; congr 1
  rw [this]

end Midi.C07
