import Proofs.MsgTotal
import MidiModel.Generated.Facts
/-!
# C08 — message classification is total, unambiguous and consistent with the accessors

Model: `MidiModel/Msg.lean`. A byte string is looked at as `midi.Message` (`View.midi`) or as
`smf.Message` (`View.smf`, where a leading `FF` means a meta event). Every index / slice expression of the
Go code is an explicit `m[i]?` / `slice` whose failure is the outcome `none` / `Res.panic`; the theorems
below show that outcome is unreachable — for all byte strings, of any length. Where a theorem needs the
elements to be bytes it says `AllBytes m` (`∀ b ∈ m, b < 256`).
`specificAccepts m` lists the type-specific accessors of `midi.Message` with the type each is documented
for (`GetNoteOn` … `GetSysEx`; the derived views `GetNoteStart`, `GetNoteEnd`, `GetChannel` are not in it),
`smfSpecificAccepts m` adds the meta accessors of `smf.Message` (out parameters non-nil, as `String()`
calls them; `GetMetaMeter` / `GetMetaKey` are wrappers of `GetMetaTimeSig` / `GetMetaKeySig`).
-/
namespace Midi.C08
open Midi Midi.Msg

/-! ## the model's tables are the tables of the compiled library (regenerated on every run) -/

theorem type_constants_eq_facts : Msg.typeConstants = Facts.typeConstants := by decide

/-- type of `midi.Message{b}` for all 256 `b` -/
theorem model_table_eq_facts : (List.range 256).map (fun b => getType [b]) = Facts.midiType.map some := by
  decide +kernel

/-- type of `smf.Message{0xFF, b, 0}` for all 256 `b` (the meta type table) -/
theorem meta_table_eq_facts :
    (List.range 256).map (fun b => smfGetType [0xFF, b, 0]) = Facts.smfMetaType.map some := by decide +kernel

/-- type of `smf.Message{b}` for all 256 `b` (a lone `FF` is not a reset, it is unknown) -/
theorem smf_table_eq_facts : (List.range 256).map (fun b => smfGetType [b]) = Facts.smfType.map some := by
  decide +kernel

/-! ## totality: no panic, for every byte string -/

/-- `Type`, `Is`, `IsOneOf`, `IsPlayable`, `IsMeta` of both message types never panic -/
theorem type_total (m : Bytes) :
    getType m ≠ none ∧ smfGetType m ≠ none ∧ smfIsMeta m ≠ none ∧
    (∀ v T, msgIs v m T ≠ none) ∧ (∀ v cs, isOneOf v m cs ≠ none) ∧
    isPlayable m ≠ none ∧ smfIsPlayable m ≠ none := by
  obtain ⟨t, ht⟩ := getType_total m
  obtain ⟨t', ht'⟩ := smfGetType_total m
  obtain ⟨b, hb⟩ := smfIsMeta_total m
  exact ⟨by simp [ht], by simp [ht'], by simp [hb], fun v T => msgIs_ne_none v m T,
    fun v cs => isOneOf_ne_none v m cs, isPlayable_ne_none m, smfIsPlayable_ne_none m⟩

/-- no `Get*` accessor of `midi.Message` panics (derived views included) -/
theorem accessors_total (m : Bytes) :
    getNoteOn m ≠ .panic ∧ getNoteOff m ≠ .panic ∧ getPolyAfterTouch m ≠ .panic ∧ getAfterTouch m ≠ .panic ∧
    getControlChange m ≠ .panic ∧ getProgramChange m ≠ .panic ∧ getPitchBend m ≠ .panic ∧ getMTC m ≠ .panic ∧
    getSPP m ≠ .panic ∧ getSongSelect m ≠ .panic ∧ getSysEx m ≠ .panic ∧
    getNoteStart m ≠ .panic ∧ getNoteEnd m ≠ .panic ∧ getChannel m ≠ .panic :=
  ⟨get3_ne_panic _ m, get3_ne_panic _ m, get3_ne_panic _ m, get2_ne_panic _ m, get3_ne_panic _ m,
   get2_ne_panic _ m, getPitchBend_ne_panic m, get1_ne_panic _ m, getSPP_ne_panic m, get1_ne_panic _ m,
   getSysEx_ne_panic m, getNoteStart_ne_panic m, getNoteEnd_ne_panic m, getChannel_ne_panic m⟩

/-- no `GetMeta*` accessor of `smf.Message` panics -/
theorem meta_accessors_total (m : Bytes) :
    getMetaTempo m ≠ .panic ∧ getMetaTimeSig m ≠ .panic ∧ getMeta1 MetaChannelMsg m ≠ .panic ∧
    getMeta1 MetaPortMsg m ≠ .panic ∧ getMetaSeqNumber m ≠ .panic ∧ getMetaSMPTEOffset m ≠ .panic ∧
    getMetaSeqData m ≠ .panic ∧ getMetaKeySig m ≠ .panic ∧ ∀ T, getMetaText T m ≠ .panic :=
  ⟨getMetaTempo_ne_panic m, getMetaFixed_ne_panic _ _ _ (by omega) m, getMeta1_ne_panic _ m, getMeta1_ne_panic _ m,
   getMetaSeqNumber_ne_panic m, getMetaFixed_ne_panic _ _ _ (by omega) m, getMetaSeqData_ne_panic m,
   getMetaFixed_ne_panic _ _ _ (by omega) m, fun T => getMetaText_ne_panic T m⟩

/-- the control flow of `String()` (type name, then the first accepting accessor of the `switch`; for a
    meta message the meta `switch` and the text fall-back) never panics, for both message types -/
theorem string_total (m : Bytes) : strBranch m ≠ .panic ∧ smfStrBranch m ≠ .panic :=
  ⟨strBranch_ne_panic m, smfStrBranch_ne_panic m⟩

/-- what `String()` asks of the allocator through the length-prefixed reads (`ReadVarLengthData` for text
    and sequencer data) is bounded by the message itself, whatever length the VLQ declares -/
theorem string_alloc_bounded (m : Bytes) (b a : Nat) (h : smfStrBranch m = .yes (b, a)) :
    a ≤ max 4096 m.length := smfStrBranch_alloc m b a h

/-! ## exactly one category -/

/-- a `midi.Message` belongs to exactly one of unknown / real-time / system common / channel / sysex,
    and is never a meta message -/
theorem category_partition (m : Bytes) (h : AllBytes m) :
    (midiCategories.filter (fun c => msgIs .midi m c == some true)).length = 1 ∧
    msgIs .midi m MetaMsg = some false := by
  rcases getType_cases m h with h0 | ⟨b, hb, h1⟩
  · rw [filter_cat (v := .midi) h0, msgIs_of_type (v := .midi) h0]; decide
  · rw [filter_cat (v := .midi) h1, msgIs_of_type (v := .midi) h1]
    have := status_cat b hb
    exact ⟨this.1, by rw [this.2.2]⟩

/-- an `smf.Message` belongs to exactly one of unknown / real-time / system common / channel / sysex / meta -/
theorem smf_category_partition (m : Bytes) (h : AllBytes m) :
    (categories.filter (fun c => msgIs .smf m c == some true)).length = 1 := by
  rcases smfGetType_cases m h with h0 | ⟨b, hb, h1⟩ | ⟨b, hb, h1⟩
  · rw [filter_cat (v := .smf) h0]; decide
  · rw [filter_cat (v := .smf) h1]; exact (status_cat b hb).2.1
  · rw [filter_cat (v := .smf) h1]; exact (meta_cat b hb).1

/-- a leading `FF` followed by a type byte means a meta event (or unknown), never the real-time reset
    that `midi.Message` sees in the same bytes -/
theorem leading_ff_is_meta (b : Nat) (r : Bytes) (hb : b < 256) :
    smfGetType (0xFF :: b :: r) = some (getMetaType b) ∧
    (msgIs .smf (0xFF :: b :: r) UnknownMsg = some true ∨ msgIs .smf (0xFF :: b :: r) MetaMsg = some true) ∧
    msgIs .smf (0xFF :: b :: r) RealTimeMsg = some false ∧
    getType (0xFF :: b :: r) = some ResetMsg := by
  have ht := smfGetType_meta b r
  refine ⟨ht, ?_, ?_, by rw [getType_cons]; rfl⟩
  · rw [msgIs_of_type (v := .smf) ht, msgIs_of_type (v := .smf) ht]
    rcases (meta_cat b hb).2 with h | h
    · left; rw [h]; rfl
    · right; rw [h]
  · rw [msgIs_of_type (v := .smf) ht]
    have : ∀ b < 256, typeIs (getMetaType b) RealTimeMsg = false := by decide +kernel
    rw [this b hb]

/-! ## accessors and the reported type -/

/-- an accessor accepts only if the reported type is the accessor's type (`midi.Message`) -/
theorem accessor_implies_type (m : Bytes) (p : Int × Bool) (hp : p ∈ specificAccepts m) (ha : p.2 = true) :
    getType m = some p.1 := specific_accept_type m p hp ha

/-- the same for `smf.Message`, forwarded and meta accessors alike -/
theorem smf_accessor_implies_type (m : Bytes) (p : Int × Bool) (hp : p ∈ smfSpecificAccepts m) (ha : p.2 = true) :
    smfGetType m = some p.1 := smf_specific_accept_type m p hp ha

/-- at most one type-specific accessor accepts (`midi.Message`): two accepting entries are the same entry -/
theorem at_most_one_accessor (m : Bytes) (p q : Int × Bool) (hp : p ∈ specificAccepts m) (hq : q ∈ specificAccepts m)
    (ha : p.2 = true) (hb : q.2 = true) : p = q := by
  have h1 := specific_accept_type m p hp ha
  have h2 := specific_accept_type m q hq hb
  have he : p.1 = q.1 := Option.some.inj (h1.symm.trans h2)
  exact Prod.ext he (ha.trans hb.symm)

/-- the same for `smf.Message` -/
theorem smf_at_most_one_accessor (m : Bytes) (p q : Int × Bool) (hp : p ∈ smfSpecificAccepts m)
    (hq : q ∈ smfSpecificAccepts m) (ha : p.2 = true) (hb : q.2 = true) : p = q := by
  have h1 := smf_specific_accept_type m p hp ha
  have h2 := smf_specific_accept_type m q hq hb
  have he : p.1 = q.1 := Option.some.inj (h1.symm.trans h2)
  exact Prod.ext he (ha.trans hb.symm)

/-- the accessors are documented for pairwise different types, so "the same entry" is "the same accessor" -/
theorem accessor_types_distinct (m : Bytes) :
    ((specificAccepts m).map (·.1)).Nodup ∧ ((smfSpecificAccepts m).map (·.1)).Nodup :=
  ⟨specific_types_nodup m, smf_specific_types_nodup m⟩

/-! Non-vacuity: concrete byte strings meet `AllBytes`; short, overlong and undefined-status messages and
    the 4 GiB length field are classified without a panic outcome. -/
example : AllBytes [0x90, 0x40, 0x7F] ∧ AllBytes [0xFF, 0x01, 0x8F, 0xFF, 0xFF, 0xFF, 0x7F] := by
  constructor <;> intro b hb <;> simp at hb <;> omega
example : getNoteOn [0x90] = .no ∧ getNoteOn [0x90, 1, 2, 3] = .no ∧ getType [0xF4, 1] = some UnknownMsg ∧
    getNoteOn [0x90, 0x40, 0x7F] = .yes (0, 0x40, 0x7F) := by decide
example : smfStrBranch [0xFF, 0x01, 0x8F, 0xFF, 0xFF, 0xFF, 0x7F] = .yes (9, 0) ∧
    smfStrBranch [0xFF, 0x01, 0x8F, 0x7F] = .yes (9, 2047) := by decide
example : (smfSpecificAccepts [0xFF, 0x51, 3, 7, 161, 32]).filter (·.2) = [(MetaTempoMsg, true)] := by decide

end Midi.C08
