package main

// C07: constructors emit the MIDI 1.0 wire encoding, accessors invert them, loopback is the identity.
//
// ops:  msg.ctor <kind> <a> <b> <c>     one constructor call (pitchbend: b = the int16 as uint16 bits)
//       msg.ctorblk <kind> <a> <b>      256 calls, the last (or only / low-byte) argument running 0..255;
//                                       the model answers a hash over the 256 signatures
// oracle: the MIDI 1.0 table written in this file and in msg_common.go (specCtor, specDecode) — not the
// library's own inverse; tie: signature (bytes, type, every accessor's answer) against the Lean model.

import (
	"fmt"
	"strconv"
	"strings"

	"gitlab.com/gomidi/midi/v2"
	"gitlab.com/gomidi/midi/v2/drivers"
	"gitlab.com/gomidi/midi/v2/drivers/testdrv"
)

var c07Kinds3 = []string{"noteon", "noteoffvel", "polyat", "cc"}
var c07Kinds2 = []string{"noteoff", "pc", "at"}
var c07Kinds0 = []string{"tune", "timingclock", "tick", "start", "continue", "stop", "activesense", "reset"}

func init() {
	register(&Prop{
		ID: "C07",
		Rule: "constructor calls: quick = every channel 0..16,127,128,255 x boundary data values (0,1,2,63,64,126,127,128,129,200,254,255) squared per " +
			"3-argument constructor, blocks of 256 for the last argument, all 65536 song positions, all 256 MTC / song-select arguments, pitch bend " +
			"boundaries on every channel plus random blocks; thorough = the full in-range product of every constructor, all 18 x 65536 pitch bend " +
			"arguments, out-of-range channels/data; every point is also sent through a testdrv loopback port (midi.ListenTo); " +
			"non-trivial = every case (each op is at least one constructor call); distinct by op text",
		Gen: genC07,
		Run: runC07,
	})
}

func genC07(r *Rng, tier string, emit func(Case)) {
	bd := []int{0, 1, 2, 63, 64, 126, 127, 128, 129, 200, 254, 255}
	chans := []int{}
	for c := 0; c <= 16; c++ {
		chans = append(chans, c)
	}
	chans = append(chans, 127, 128, 255)
	pt := func(kind string, a, b, c int, tags ...string) {
		emit(Case{Op: fmt.Sprintf("msg.ctor %s %d %d %d", kind, a, b, c), Tags: append([]string{"point", kind}, tags...), NonTrivial: true})
	}
	blk := func(kind string, a, b int, tags ...string) {
		emit(Case{Op: fmt.Sprintf("msg.ctorblk %s %d %d", kind, a, b), Tags: append([]string{"block", kind}, tags...), NonTrivial: true})
	}
	for _, k := range c07Kinds0 {
		pt(k, 0, 0, 0)
	}
	pbBounds := []int{-32768, -32767, -16385, -16384, -8194, -8193, -8192, -8191, -8190, -129, -128, -127, -1, 0, 1, 127, 128, 129,
		8190, 8191, 8192, 8193, 16383, 16384, 32766, 32767}
	if tier != "thorough" {
		for _, k := range c07Kinds3 {
			for _, ch := range chans {
				for _, a := range bd {
					for _, b := range bd {
						pt(k, ch, a, b)
					}
					if ch <= 16 {
						blk(k, ch, a)
					}
				}
			}
			for i := 0; i < 200; i++ {
				blk(k, r.Intn(256), r.Intn(256), "random")
			}
		}
		for _, k := range c07Kinds2 {
			for _, ch := range chans {
				for _, a := range bd {
					pt(k, ch, a, 0)
				}
				blk(k, ch, 0)
			}
		}
		for _, ch := range chans {
			for _, v := range pbBounds {
				pt("pitchbend", ch, int(uint16(int16(v))), 0, "boundary")
			}
			for _, hi := range []int{0x00, 0x1F, 0x20, 0x3F, 0x40, 0x7F, 0x80, 0xBF, 0xC0, 0xDF, 0xE0, 0xFF} {
				blk("pitchbend", ch, hi)
			}
		}
		for i := 0; i < 400; i++ {
			blk("pitchbend", r.Intn(17), r.Intn(256), "random")
		}
		for hi := 0; hi < 256; hi++ {
			blk("spp", hi, 0)
		}
		blk("mtc", 0, 0)
		blk("songselect", 0, 0)
		return
	}
	// thorough: the whole domain in blocks
	tchans := []int{}
	for c := 0; c <= 15; c++ {
		tchans = append(tchans, c)
	}
	tchans = append(tchans, 16, 255)
	for _, k := range c07Kinds3 {
		for _, ch := range tchans {
			for a := 0; a < 128; a++ {
				blk(k, ch, a)
			}
			blk(k, ch, 128, "out-of-range")
			blk(k, ch, 255, "out-of-range")
		}
		for i := 0; i < 500; i++ {
			blk(k, r.Range(16, 255), r.Range(128, 255), "out-of-range", "random")
		}
	}
	for _, k := range c07Kinds2 {
		for ch := 0; ch < 256; ch++ {
			blk(k, ch, 0)
		}
	}
	for _, ch := range tchans {
		for hi := 0; hi < 256; hi++ {
			blk("pitchbend", ch, hi)
		}
	}
	for hi := 0; hi < 256; hi++ {
		blk("spp", hi, 0)
	}
	blk("mtc", 0, 0)
	blk("songselect", 0, 0)
	for _, ch := range chans {
		for _, v := range pbBounds {
			pt("pitchbend", ch, int(uint16(int16(v))), 0, "boundary")
		}
	}
}

// callCtor calls the library constructor named kind.
func callCtor(kind string, a, b, c int) midi.Message {
	switch kind {
	case "noteon":
		return midi.NoteOn(uint8(a), uint8(b), uint8(c))
	case "noteoffvel":
		return midi.NoteOffVelocity(uint8(a), uint8(b), uint8(c))
	case "noteoff":
		return midi.NoteOff(uint8(a), uint8(b))
	case "polyat":
		return midi.PolyAfterTouch(uint8(a), uint8(b), uint8(c))
	case "cc":
		return midi.ControlChange(uint8(a), uint8(b), uint8(c))
	case "pc":
		return midi.ProgramChange(uint8(a), uint8(b))
	case "at":
		return midi.AfterTouch(uint8(a), uint8(b))
	case "pitchbend":
		return midi.Pitchbend(uint8(a), int16(uint16(b)))
	case "spp":
		return midi.SPP(uint16(a))
	case "songselect":
		return midi.SongSelect(uint8(a))
	case "mtc":
		return midi.MTC(uint8(a))
	case "tune":
		return midi.Tune()
	case "timingclock":
		return midi.TimingClock()
	case "tick":
		return midi.Tick()
	case "start":
		return midi.Start()
	case "continue":
		return midi.Continue()
	case "stop":
		return midi.Stop()
	case "activesense":
		return midi.Activesense()
	case "reset":
		return midi.Reset()
	}
	panic("harness: unknown constructor kind " + kind)
}

func imin(a, b int) int {
	if a < b {
		return a
	}
	return b
}

// specCtor: what MIDI 1.0 prescribes for the call (status nibble | channel, 7-bit data, 14-bit values
// least significant 7 bits first), channel-voice arguments clamped to the nearest legal value.
// exact=false: a system-common argument outside its range — only well-formedness is required
// (status byte, length, data bytes <= 127). want = the decoded message a receiver must see.
var st3 = map[string]byte{"noteon": 0x90, "noteoffvel": 0x80, "polyat": 0xA0, "cc": 0xB0}
var st2 = map[string]byte{"pc": 0xC0, "at": 0xD0}
var st0 = map[string]byte{"tune": 0xF6, "timingclock": 0xF8, "tick": 0xF9, "start": 0xFA, "continue": 0xFB, "stop": 0xFC,
	"activesense": 0xFE, "reset": 0xFF}

func specCtor(kind string, a, b, c int) (bytes []byte, exact bool, want specMsg) {
	ch := imin(a, 15)
	switch {
	case st3[kind] != 0:
		d1, d2 := imin(b, 127), imin(c, 127)
		k := kind
		if k == "noteoffvel" {
			k = "noteoff"
		}
		return []byte{st3[kind] | byte(ch), byte(d1), byte(d2)}, true, specMsg{kind: k, ch: ch, d1: d1, d2: d2, v14: d1 | d2<<7}
	case kind == "noteoff":
		d1 := imin(b, 127)
		return []byte{0x80 | byte(ch), byte(d1), 0}, true, specMsg{kind: "noteoff", ch: ch, d1: d1, v14: d1}
	case st2[kind] != 0:
		d1 := imin(b, 127)
		return []byte{st2[kind] | byte(ch), byte(d1)}, true, specMsg{kind: kind, ch: ch, d1: d1}
	case kind == "pitchbend":
		v := int(int16(uint16(b)))
		if v > 8191 {
			v = 8191
		}
		if v < -8192 {
			v = -8192
		}
		u := v + 8192 // 0x2000 = centre
		return []byte{0xE0 | byte(ch), byte(u & 0x7F), byte(u >> 7)}, true, specMsg{kind: kind, ch: ch, d1: u & 0x7F, d2: u >> 7, v14: u}
	case kind == "spp":
		if a < 16384 {
			return []byte{0xF2, byte(a & 0x7F), byte(a >> 7)}, true, specMsg{kind: kind, d1: a & 0x7F, d2: a >> 7, v14: a}
		}
		return []byte{0xF2, 0, 0}, false, specMsg{kind: kind}
	case kind == "songselect" || kind == "mtc":
		st := byte(0xF3)
		if kind == "mtc" {
			st = 0xF1
		}
		if a < 128 {
			return []byte{st, byte(a)}, true, specMsg{kind: kind, d1: a}
		}
		return []byte{st, 0}, false, specMsg{kind: kind}
	case st0[kind] != 0:
		return []byte{st0[kind]}, true, specMsg{kind: kind}
	}
	panic("harness: unknown constructor kind " + kind)
}

// index of the matching type-specific accessor in midiView.acc (-1: the kind has none)
var c07Acc = map[string]int{"noteon": 0, "noteoff": 1, "polyat": 2, "at": 3, "cc": 4, "pc": 5, "pitchbend": 6, "mtc": 7, "spp": 8, "songselect": 9}

var c07Type = map[string]midi.Type{"noteon": midi.NoteOnMsg, "noteoff": midi.NoteOffMsg, "polyat": midi.PolyAfterTouchMsg,
	"at": midi.AfterTouchMsg, "cc": midi.ControlChangeMsg, "pc": midi.ProgramChangeMsg, "pitchbend": midi.PitchBendMsg,
	"mtc": midi.MTCMsg, "spp": midi.SPPMsg, "songselect": midi.SongSelectMsg, "tune": midi.TuneMsg, "timingclock": midi.TimingClockMsg,
	"tick": midi.TickMsg, "start": midi.StartMsg, "continue": midi.ContinueMsg, "stop": midi.StopMsg, "activesense": midi.ActiveSenseMsg,
	"reset": midi.ResetMsg}

// loopback port (drivers/testdrv + midi.ListenTo), opened once per process
type loopback struct {
	out    drivers.Out
	in     drivers.In
	sendTo func(midi.Message) error // the function midi.SendTo returns, kept for the whole process
	stop   func()
	n      int
	got    [][]byte
	fail   string
}

func (l *loopback) listen() {
	stop, err := midi.ListenTo(l.in, func(m midi.Message, ts int32) {
		l.got = append(l.got, append([]byte(nil), m...))
	}, midi.UseSysEx(), midi.UseTimeCode(), midi.UseActiveSense())
	if err != nil {
		l.fail = "cannot listen: " + err.Error()
	}
	l.stop = stop
}

var lb *loopback

func getLoopback() *loopback {
	if lb != nil {
		return lb
	}
	l := &loopback{}
	drv := testdrv.New("c07-loopback")
	ins, _ := drv.Ins()
	outs, _ := drv.Outs()
	if len(ins) != 1 || len(outs) != 1 {
		l.fail = "testdrv does not offer one in and one out port"
		lb = l
		return l
	}
	if err := outs[0].Open(); err != nil {
		l.fail = "cannot open the out port: " + err.Error()
	}
	l.in = ins[0]
	l.listen()
	l.out = outs[0]
	if st, err := midi.SendTo(outs[0]); err == nil {
		l.sendTo = st
	} else if l.fail == "" {
		l.fail = "midi.SendTo: " + err.Error()
	}
	lb = l
	return l
}

// send returns what arrives when msg is sent
func (l *loopback) send(msg []byte) (got [][]byte, problem string) {
	if l.fail != "" {
		return nil, l.fail
	}
	// the sender and the listener have a life of their own: every other message goes through the function midi.SendTo
	// returned at start, and now and then the listener is replaced by a new one before the message is sent (the
	// previous message, often of the same status, was seen by the old listener only)
	l.n++
	if l.n%5 == 0 && l.stop != nil {
		if p := try(func() { l.stop(); l.listen() }); p != "" {
			return nil, "panic while replacing the listener: " + p
		}
		if l.fail != "" {
			return nil, l.fail
		}
	}
	l.got = l.got[:0]
	var err error
	if p := try(func() {
		if l.n%2 == 0 && l.sendTo != nil {
			err = l.sendTo(midi.Message(msg))
		} else {
			err = l.out.Send(msg)
		}
	}); p != "" {
		return nil, "panic in Send/ListenTo: " + p
	}
	if err != nil {
		return nil, "Send: " + err.Error()
	}
	return l.got, ""
}

var c07Points int
var c07PrevMsg []byte

// c07Point runs one constructor call on the implementation: signature for the tie, oracle entries.
func c07Point(buf []int32, kind string, a, b, c int, mv *midiView) (sig []int32, oracle []string) {
	var m midi.Message
	bad := func(format string, args ...interface{}) {
		if len(oracle) < 4 {
			oracle = append(oracle, fmt.Sprintf("%s(%d,%d,%d): ", kind, a, b, c)+fmt.Sprintf(format, args...))
		}
	}
	if p := try(func() { m = callCtor(kind, a, b, c) }); p != "" {
		if strings.HasPrefix(p, "harness:") {
			panic(p)
		}
		bad("constructor panics: %s", p)
		return append(buf, -1), oracle
	}
	buf = append(buf, int32(len(m)))
	for _, x := range m {
		buf = append(buf, int32(x))
	}
	// the caller appends to the message it got earlier (bytes concatenated for one Send): the message constructed
	// after it must not change
	if c07PrevMsg != nil && len(m) > 0 {
		cp := append([]byte(nil), m...)
		_ = append(c07PrevMsg[:len(c07PrevMsg)], 0xAA, 0xBB, 0xCC, 0xDD)
		if string(cp) != string(m) {
			bad("appending to the message constructed before overwrote this one: % X became % X (results share a backing array with spare capacity)", cp, []byte(m))
			copy(m, cp)
		}
	}
	c07PrevMsg = m
	retain(kind, m)
	if c07Points%16 == 3 {
		// the caller writes into the message it got, then asks for the same message again
		var p2 string
		m2 := scribbled(m, func() (r []byte) { p2 = try(func() { r = callCtor(kind, a, b, c) }); return })
		if p2 == "" && string(m2) != string(m) {
			bad("after the caller overwrote the returned message, the same constructor call returns % X instead of % X (the result shares memory with the library)", m2, []byte(m))
		}
	}
	if c07Points++; c07Points%64 == 0 {
		if msg := retainCheck(); msg != "" {
			bad("%s", msg)
		}
	}
	var p string
	func() {
		defer func() {
			if r := recover(); r != nil {
				p = fmt.Sprint(r)
			}
		}()
		buf = sigMidi(buf, m, mv)
	}()
	if p != "" {
		bad("accessor / classification panics on % X: %s", []byte(m), p)
		return buf, oracle
	}
	// --- oracle: MIDI 1.0 table ---
	spec, exact, want := specCtor(kind, a, b, c)
	if exact {
		if string(spec) != string(m) {
			bad("emits % X, MIDI 1.0 prescribes % X", []byte(m), spec)
		}
	} else if len(m) != len(spec) || m[0] != spec[0] {
		bad("emits % X, not a well-formed %s message", []byte(m), kind)
	}
	for i, x := range m {
		if i > 0 && x > 127 {
			bad("emits the data byte %02X > 7F in % X", x, []byte(m))
		}
		if i == 0 && x < 0x80 {
			bad("emits % X without a status byte", []byte(m))
		}
	}
	// what a MIDI 1.0 receiver decodes from the emitted bytes; for exact points it must be the clamped arguments
	dec, ok := specDecode(m)
	if !ok {
		bad("emits % X which is not a complete MIDI 1.0 message", []byte(m))
		return buf, oracle
	}
	if exact && dec != want {
		bad("emitted bytes % X decode to %+v, arguments mean %+v", []byte(m), dec, want)
	}
	ai, hasAcc := c07Acc[dec.kind]
	if !hasAcc {
		ai = -1
	}
	for j := 0; j < 11; j++ {
		if j == ai {
			if !mv.acc[j] {
				bad("%s rejects its own constructor's message % X", midiAccNames[j], []byte(m))
				continue
			}
			var wantv [3]int
			switch dec.kind {
			case "noteon", "noteoff", "polyat", "cc":
				wantv = [3]int{dec.ch, dec.d1, dec.d2}
			case "pc", "at":
				wantv = [3]int{dec.ch, dec.d1, 0}
			case "pitchbend":
				wantv = [3]int{dec.ch, dec.v14 - 8192, dec.v14}
			case "spp":
				wantv = [3]int{dec.v14, 0, 0}
			case "mtc", "songselect":
				wantv = [3]int{dec.d1, 0, 0}
			}
			if mv.val[j] != wantv {
				bad("%s returns %v for % X, MIDI 1.0 meaning %v", midiAccNames[j], mv.val[j], []byte(m), wantv)
			}
		} else if mv.acc[j] {
			bad("%s accepts the %s message % X", midiAccNames[j], dec.kind, []byte(m))
		}
	}
	if mv.nilProblem != "" {
		bad("%s (message % X)", mv.nilProblem, []byte(m))
	}
	if mv.typ != c07Type[dec.kind] {
		bad("Type() of % X is %d, want %d (%s)", []byte(m), mv.typ, c07Type[dec.kind], dec.kind)
	}
	// derived views
	isCh := specClass(m[0]) == 1
	if mv.ch != isCh || (isCh && mv.chVal != dec.ch) {
		bad("GetChannel on % X: %v %d", []byte(m), mv.ch, mv.chVal)
	}
	wantStart := dec.kind == "noteon" && dec.d2 > 0
	if mv.noteStart != wantStart || (wantStart && mv.nsVal != [3]int{dec.ch, dec.d1, dec.d2}) {
		bad("GetNoteStart on % X: %v %v", []byte(m), mv.noteStart, mv.nsVal)
	}
	wantEnd := (dec.kind == "noteon" && dec.d2 == 0) || dec.kind == "noteoff"
	if mv.noteEnd != wantEnd || (wantEnd && mv.neVal != [2]int{dec.ch, dec.d1}) {
		bad("GetNoteEnd on % X: %v %v", []byte(m), mv.noteEnd, mv.neVal)
	}
	// loopback: the message arrives with the same value
	got, prob := getLoopback().send(m)
	switch {
	case prob != "":
		bad("loopback: %s", prob)
	case len(got) != 1:
		bad("loopback: sent % X, %d messages arrived", []byte(m), len(got))
	case string(got[0]) != string(m):
		bad("loopback: sent % X, arrived % X", []byte(m), got[0])
	}
	return buf, oracle
}

// blockArgs maps the running value x of a block to constructor arguments (as `ctorBlock` of the model)
func blockArgs(kind string, a, b, x int) (int, int, int) {
	switch kind {
	case "pitchbend":
		return a, b*256 + x, 0
	case "spp":
		return a*256 + x, 0, 0
	case "songselect", "mtc":
		return x, 0, 0
	case "pc", "at", "noteoff":
		return a, x, 0
	}
	return a, b, x
}

func runC07(c Case, m *Model) (v Verdict) {
	f := strings.Fields(c.Op)
	var mv midiView
	num := func(i int) int {
		n, err := strconv.Atoi(f[i])
		if err != nil {
			panic("harness: bad op " + c.Op)
		}
		return n
	}
	switch {
	case len(f) == 5 && f[0] == "msg.ctor":
		sig, oracle := c07Point(nil, f[1], num(2), num(3), num(4), &mv)
		v.Oracle = oracle
		ans := fields(m.Ask(c.Op))["sig"]
		if ans != showInts(sig) {
			v.Mismatch = append(v.Mismatch, "signature differs: model "+short(ans)+" impl "+short(showInts(sig)))
		}
	case len(f) == 4 && f[0] == "msg.ctorblk":
		kind, a, b := f[1], num(2), num(3)
		h := fnvInit
		var buf []int32
		for x := 0; x < 256; x++ {
			a1, b1, c1 := blockArgs(kind, a, b, x)
			var oracle []string
			buf, oracle = c07Point(buf[:0], kind, a1, b1, c1, &mv)
			h = fnvInts(h, buf)
			if len(oracle) > 0 && len(v.Oracle) < 4 {
				v.Oracle = append(v.Oracle, oracle[0])
			}
		}
		ans := fields(m.Ask(c.Op))["h"]
		if ans != strconv.FormatUint(h, 10) {
			// find the first point of the block on which model and implementation differ
			detail := "block hash differs (model " + ans + ")"
			for x := 0; x < 256; x++ {
				a1, b1, c1 := blockArgs(kind, a, b, x)
				sig, _ := c07Point(nil, kind, a1, b1, c1, &mv)
				op := fmt.Sprintf("msg.ctor %s %d %d %d", kind, a1, b1, c1)
				if ms := fields(m.Ask(op))["sig"]; ms != showInts(sig) {
					detail = op + ": model " + short(ms) + " impl " + short(showInts(sig))
					break
				}
			}
			v.Mismatch = append(v.Mismatch, detail)
		}
	default:
		panic("harness: bad op " + c.Op)
	}
	return
}
