import Proofs.MsgCtor
import Proofs.MsgTotal
import MidiModel.Generated.Facts
/-!
# C07 — constructors emit the MIDI 1.0 wire encoding and accessors invert them

Model: `MidiModel/Msg.lean` (constructors of `v2/channel.go`, `v2/syscommon.go`, `v2/realtime.go` through
the models of `getCompleteStatus`, `MsbLsbSigned`/`MsbLsbUnsigned`, `binary.BigEndian.PutUint16`; accessors of
`v2/message.go`). Arguments are arbitrary naturals / integers: every `uint8`, `int16`, `uint16` value is
covered (`Call.Valid` describes exactly those), the statements hold even beyond. `min x 127` / `min ch 15`
is the clamping "to the nearest legal value"; `clampPitch v = max (-8192) (min v 8191)`.
The loopback clause of the property is checked differentially (harness/c07.go sends every generated
message through `drivers/testdrv` + `midi.ListenTo`); the live decoder is modelled under C04.
-/
namespace Midi.C07
open Midi Midi.Msg

/-! ## the model's tables are the tables of the compiled library -/

/-- numeric values of the exported `Type` constants as the compiled library has them -/
theorem type_constants_eq_facts : Msg.typeConstants = Facts.typeConstants := by decide

/-- the type of `midi.Message{b}` for every status byte, as dumped from the compiled library -/
theorem status_table_eq_facts : (List.range 256).map typeOfStatus = Facts.midiType := by decide +kernel

/-! ## byte layout: status nibble | clamped channel, clamped 7-bit data -/

theorem noteOn_bytes (ch k v : Nat) : noteOn ch k v = [0x90 + min ch 15, min k 127, min v 127] := noteOn_eq ch k v
theorem noteOffVelocity_bytes (ch k v : Nat) : noteOffVelocity ch k v = [0x80 + min ch 15, min k 127, min v 127] :=
  noteOffVelocity_eq ch k v
theorem noteOff_bytes (ch k : Nat) : noteOff ch k = [0x80 + min ch 15, min k 127, 0] := noteOff_eq ch k
theorem polyAfterTouch_bytes (ch k p : Nat) : polyAfterTouch ch k p = [0xA0 + min ch 15, min k 127, min p 127] :=
  polyAfterTouch_eq ch k p
theorem controlChange_bytes (ch c v : Nat) : controlChange ch c v = [0xB0 + min ch 15, min c 127, min v 127] :=
  controlChange_eq ch c v
theorem programChange_bytes (ch p : Nat) : programChange ch p = [0xC0 + min ch 15, min p 127] := programChange_eq ch p
theorem afterTouch_bytes (ch p : Nat) : afterTouch ch p = [0xD0 + min ch 15, min p 127] := afterTouch_eq ch p

/-- pitch bend: 14-bit value `u = clamp v + 8192`, least significant 7 bits first; never panics -/
theorem pitchbend_bytes (ch : Nat) (v : Int) :
    pitchbend ch v = some [0xE0 + min ch 15, (max (-8192) (min v 8191) + 8192).toNat % 128,
                           (max (-8192) (min v 8191) + 8192).toNat / 128] := by
  rw [← clampPitch_eq]; exact pitchbend_eq ch v

/-- song position: least significant 7 bits first (bits 14 and 15 of an out-of-range argument are dropped) -/
theorem spp_bytes (p : Nat) : spp p = [0xF2, p % 128, p / 128 % 128] := spp_eq p
theorem songSelect_bytes (s : Nat) : songSelect s = [0xF3, s % 128] := songSelect_eq s
theorem mtc_bytes (m : Nat) : mtc m = [0xF1, m % 128] := mtc_eq m

/-- whatever the arguments: no constructor panics, the first byte is a status byte and every further
    byte is a data byte (`≤ 127`) -/
theorem data_le_127 (c : Call) :
    ∃ s ds, c.bytes = some (s :: ds) ∧ 0x80 ≤ s ∧ s < 256 ∧ ∀ d ∈ ds, d ≤ 127 := by
  cases c with
  | noteOn ch k v => exact ⟨_, _, congrArg some (noteOn_eq ch k v), by omega, by omega, by simp; omega⟩
  | noteOffVelocity ch k v => exact ⟨_, _, congrArg some (noteOffVelocity_eq ch k v), by omega, by omega, by simp; omega⟩
  | noteOff ch k => exact ⟨_, _, congrArg some (noteOff_eq ch k), by omega, by omega, by simp; omega⟩
  | polyAfterTouch ch k p => exact ⟨_, _, congrArg some (polyAfterTouch_eq ch k p), by omega, by omega, by simp; omega⟩
  | controlChange ch k v => exact ⟨_, _, congrArg some (controlChange_eq ch k v), by omega, by omega, by simp; omega⟩
  | programChange ch p => exact ⟨_, _, congrArg some (programChange_eq ch p), by omega, by omega, by simp; omega⟩
  | afterTouch ch p => exact ⟨_, _, congrArg some (afterTouch_eq ch p), by omega, by omega, by simp; omega⟩
  | pitchbend ch v =>
    refine ⟨_, _, pitchbend_eq ch v, by omega, by omega, ?_⟩
    have := clampPitch_eq v
    simp; omega
  | spp p => exact ⟨_, _, congrArg some (spp_eq p), by omega, by omega, by simp; omega⟩
  | songSelect s => exact ⟨_, _, congrArg some (songSelect_eq s), by omega, by omega, by simp; omega⟩
  | mtc m => exact ⟨_, _, congrArg some (mtc_eq m), by omega, by omega, by simp; omega⟩
  | tune => exact ⟨_, _, rfl, by decide, by decide, by simp⟩
  | timingClock => exact ⟨_, _, rfl, by decide, by decide, by simp⟩
  | tick => exact ⟨_, _, rfl, by decide, by decide, by simp⟩
  | start => exact ⟨_, _, rfl, by decide, by decide, by simp⟩
  | continue_ => exact ⟨_, _, rfl, by decide, by decide, by simp⟩
  | stop => exact ⟨_, _, rfl, by decide, by decide, by simp⟩
  | activesense => exact ⟨_, _, rfl, by decide, by decide, by simp⟩
  | reset => exact ⟨_, _, rfl, by decide, by decide, by simp⟩

/-! ## the matching accessor returns exactly the (clamped) arguments -/

theorem getNoteOn_noteOn (ch k v : Nat) : getNoteOn (noteOn ch k v) = .yes (min ch 15, min k 127, min v 127) :=
  Msg.getNoteOn_noteOn ch k v
theorem getNoteOff_noteOffVelocity (ch k v : Nat) :
    getNoteOff (noteOffVelocity ch k v) = .yes (min ch 15, min k 127, min v 127) := Msg.getNoteOff_noteOffVelocity ch k v
theorem getNoteOff_noteOff (ch k : Nat) : getNoteOff (noteOff ch k) = .yes (min ch 15, min k 127, 0) :=
  Msg.getNoteOff_noteOff ch k
theorem getPolyAfterTouch_polyAfterTouch (ch k p : Nat) :
    getPolyAfterTouch (polyAfterTouch ch k p) = .yes (min ch 15, min k 127, min p 127) :=
  Msg.getPolyAfterTouch_polyAfterTouch ch k p
theorem getControlChange_controlChange (ch c v : Nat) :
    getControlChange (controlChange ch c v) = .yes (min ch 15, min c 127, min v 127) :=
  Msg.getControlChange_controlChange ch c v
theorem getProgramChange_programChange (ch p : Nat) :
    getProgramChange (programChange ch p) = .yes (min ch 15, min p 127) := Msg.getProgramChange_programChange ch p
theorem getAfterTouch_afterTouch (ch p : Nat) : getAfterTouch (afterTouch ch p) = .yes (min ch 15, min p 127) :=
  Msg.getAfterTouch_afterTouch ch p

/-- `GetPitchBend` returns the clamped channel, the clamped relative value and `relative + 8192` -/
theorem getPitchBend_pitchbend (ch : Nat) (v : Int) :
    ∃ bs, pitchbend ch v = some bs ∧
      getPitchBend bs = .yes (min ch 15, max (-8192) (min v 8191), (max (-8192) (min v 8191) + 8192).toNat) := by
  rw [← clampPitch_eq]; exact Msg.getPitchBend_pitchbend ch v

/-- `GetSPP` returns the argument (its 14 low bits: every `p < 16384` exactly) -/
theorem getSPP_spp (p : Nat) : getSPP (spp p) = .yes (p % 16384) := Msg.getSPP_spp p
theorem getSPP_spp_in_range (p : Nat) (h : p < 16384) : getSPP (spp p) = .yes p := by
  rw [Msg.getSPP_spp, Nat.mod_eq_of_lt h]
theorem getMTC_mtc (m : Nat) : getMTC (mtc m) = .yes (m % 128) := Msg.getMTC_mtc m
theorem getSongSelect_songSelect (s : Nat) : getSongSelect (songSelect s) = .yes (s % 128) :=
  Msg.getSongSelect_songSelect s

/-! ## every other type-specific accessor rejects -/

/-- the reported type of a constructed message is the constructor's type -/
theorem ctor_type (c : Call) : ∃ bs, c.bytes = some bs ∧ getType bs = some c.type := by
  cases c with
  | noteOn ch k v => exact ⟨_, congrArg some (noteOn_eq ch k v), by rw [getType_cons, type_9x _ (by omega)]; rfl⟩
  | noteOffVelocity ch k v =>
    exact ⟨_, congrArg some (noteOffVelocity_eq ch k v), by rw [getType_cons, type_8x _ (by omega)]; rfl⟩
  | noteOff ch k => exact ⟨_, congrArg some (noteOff_eq ch k), by rw [getType_cons, type_8x _ (by omega)]; rfl⟩
  | polyAfterTouch ch k p =>
    exact ⟨_, congrArg some (polyAfterTouch_eq ch k p), by rw [getType_cons, type_Ax _ (by omega)]; rfl⟩
  | controlChange ch k v =>
    exact ⟨_, congrArg some (controlChange_eq ch k v), by rw [getType_cons, type_Bx _ (by omega)]; rfl⟩
  | programChange ch p => exact ⟨_, congrArg some (programChange_eq ch p), by rw [getType_cons, type_Cx _ (by omega)]; rfl⟩
  | afterTouch ch p => exact ⟨_, congrArg some (afterTouch_eq ch p), by rw [getType_cons, type_Dx _ (by omega)]; rfl⟩
  | pitchbend ch v => exact ⟨_, pitchbend_eq ch v, by rw [getType_cons, type_Ex _ (by omega)]; rfl⟩
  | spp p => exact ⟨_, congrArg some (spp_eq p), by rw [getType_cons]; rfl⟩
  | songSelect s => exact ⟨_, congrArg some (songSelect_eq s), by rw [getType_cons]; rfl⟩
  | mtc m => exact ⟨_, congrArg some (mtc_eq m), by rw [getType_cons]; rfl⟩
  | tune => exact ⟨_, rfl, by decide⟩
  | timingClock => exact ⟨_, rfl, by decide⟩
  | tick => exact ⟨_, rfl, by decide⟩
  | start => exact ⟨_, rfl, by decide⟩
  | continue_ => exact ⟨_, rfl, by decide⟩
  | stop => exact ⟨_, rfl, by decide⟩
  | activesense => exact ⟨_, rfl, by decide⟩
  | reset => exact ⟨_, rfl, by decide⟩

/-- of the type-specific accessors (`GetNoteOn`, `GetNoteOff`, `GetPolyAfterTouch`, `GetAfterTouch`,
    `GetControlChange`, `GetProgramChange`, `GetPitchBend`, `GetMTC`, `GetSPP`, `GetSongSelect`, `GetSysEx`)
    only the one documented for the constructor's type can accept a constructed message -/
theorem other_accessors_reject (c : Call) :
    ∃ bs, c.bytes = some bs ∧ ∀ p ∈ specificAccepts bs, p.1 ≠ c.type → p.2 = false := by
  obtain ⟨bs, hb, ht⟩ := ctor_type c
  refine ⟨bs, hb, fun p hp hne => ?_⟩
  cases h : p.2 with
  | false => rfl
  | true =>
    have := specific_accept_type bs p hp h
    rw [ht] at this
    exact absurd (Option.some.inj this).symm hne

/-! Non-vacuity / sanity: out-of-range arguments, both pitch bend extremes, a 14-bit song position. -/
example : noteOn 200 60 255 = [0x9F, 60, 127] := by decide
example : pitchbend 3 (-32768) = some [0xE3, 0, 0] ∧ pitchbend 3 32767 = some [0xE3, 127, 127] ∧
    pitchbend 3 0 = some [0xE3, 0, 64] := by decide
example : spp 300 = [0xF2, 44, 2] ∧ getSPP (spp 300) = .yes 300 := by decide
example : (Call.pitchbend 16 8192).Valid ∧ (Call.mtc 200).Valid := by simp [Call.Valid]
example : (specificAccepts (noteOn 1 2 3)).map (·.2) =
    [true, false, false, false, false, false, false, false, false, false, false] := by decide

end Midi.C07
