/-!
# Basic helpers of the executable model: bytes as `Nat`, hex, small parsers for the line protocol.

Bytes are `Nat`s with the side condition `< 256` stated where it matters; every place where the Go
code can wrap (`uint8`, `uint16`, `uint32` arithmetic) carries an explicit `%`.
-/
namespace Midi

abbrev Bytes := List Nat

def AllBytes (l : Bytes) : Prop := ∀ b ∈ l, b < 256

def hexDigit (n : Nat) : Char :=
  if n < 10 then Char.ofNat (48 + n) else Char.ofNat (55 + n)

def hexByte (b : Nat) : String :=
  String.ofList [hexDigit (b / 16 % 16), hexDigit (b % 16)]

/-- upper-case hex without separators; the empty list is written `-` so that a field is never empty -/
def hex (l : Bytes) : String :=
  if l.isEmpty then "-" else String.join (l.map hexByte)

def hexVal (c : Char) : Option Nat :=
  if '0' ≤ c ∧ c ≤ '9' then some (c.toNat - 48)
  else if 'A' ≤ c ∧ c ≤ 'F' then some (c.toNat - 55)
  else if 'a' ≤ c ∧ c ≤ 'f' then some (c.toNat - 87)
  else none

def unhexChars : List Char → Option Bytes
  | [] => some []
  | [_] => none
  | a :: b :: r => do
    let x ← hexVal a
    let y ← hexVal b
    let t ← unhexChars r
    pure ((x * 16 + y) :: t)

def unhex (s : String) : Option Bytes :=
  if s = "-" then some [] else unhexChars s.toList

def joinWith (sep : String) (l : List String) : String := sep.intercalate l

/-- `key=value` lookup in a list of tokens -/
def field (k : String) (toks : List String) : Option String :=
  match toks.find? (fun t => t.startsWith (k ++ "=")) with
  | some t => some (t.drop (k.length + 1)).toString
  | none => none

def natField (k : String) (toks : List String) : Option Nat := (field k toks).bind String.toNat?

def intOfString (s : String) : Option Int :=
  if s.startsWith "-" then (s.drop 1).toString.toNat?.map (fun n => - (n : Int)) else s.toNat?.map (fun n => (n : Int))

def be16 (n : Nat) : Bytes := [n / 256 % 256, n % 256]
def be32 (n : Nat) : Bytes := [n / 16777216 % 256, n / 65536 % 256, n / 256 % 256, n % 256]

end Midi
