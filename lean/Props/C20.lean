import MidiModel.Sequencer
namespace Midi.C20
theorem placeholder : True := trivial
end Midi.C20
