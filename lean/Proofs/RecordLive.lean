import Proofs.Record
import Proofs.MsgCtor
/-!
# What the recording callback can receive: an invariant of the live decoder

For every token stream (any bytes — not even required to be < 256 —, any chunking, any clock ticks) fed to
the decoder from its reset state with the sysex option off (`RecordFrom` listens without options), every raw
frame handed to `midi.ListenTo` is

* `[b]` with `b ≥ 0xF8` (real-time),
* `[status, d1, d2]` with a channel status `0x80..0xEF` and both data bytes `< 0x80`, or
* `[h, d1, d2]` with `h ∈ {F1, F2, F3, F6, F7}` (system common / lone end-of-sysex),

and carries the decoder clock of the moment it was completed. Consequently `ListenTo`'s re-typing never
panics, every *channel* message the listener receives is well formed, and — when the clock only moves
forward — the time stamps are non-decreasing and bounded by the total time elapsed.

(The invariant is proved here for the needs of C13 only; the general decoder invariants belong to C06.)
-/
namespace Midi.Record
open Midi.Live

structure Inv (s : St) : Prop where
  np : s.panicked = false
  st : s.status ≠ 0 → 0x80 ≤ s.status ∧ s.status ≤ 0xEF ∧ s.typ = s.status / 16
  ch : s.mode = .chan → s.status ≠ 0
  pd : ∀ x, s.pend = some x → x < 0x80

def FrameOK (f : Frame) : Prop :=
  (∃ b, f.1 = [b] ∧ 0xF8 ≤ b) ∨
  (∃ st a b, f.1 = [st, a, b] ∧ 0x80 ≤ st ∧ st ≤ 0xEF ∧ a < 0x80 ∧ b < 0x80) ∨
  (∃ h a b, f.1 = [h, a, b] ∧ (h = 0xF1 ∨ h = 0xF2 ∨ h = 0xF3 ∨ h = 0xF6 ∨ h = 0xF7))

/-- outcome of one decoder function started in state `s` -/
def Good (s : St) (r : St × List Frame) : Prop :=
  Inv r.1 ∧ r.1.ts = s.ts ∧ ∀ f ∈ r.2, FrameOK f ∧ f.2 = s.ts

theorem init_inv : Inv init := ⟨rfl, fun h => absurd rfl h, (fun h => by cases h), fun x h => by cases h⟩

theorem withinChan_good (s : St) (b : Nat) (h : Inv s) (hs : s.status ≠ 0) (hb : b < 0x80) :
    Good s (withinChan s b) := by
  obtain ⟨h1, h2, h3⟩ := h.st hs
  unfold withinChan
  by_cases c1 : s.typ = 0xD ∨ s.typ = 0xC
  · simp only [c1, if_true]
    refine ⟨⟨h.np, h.st, (fun hm => by cases hm), fun x hx => by cases hx⟩, rfl, ?_⟩
    intro f hf
    simp only [List.mem_singleton] at hf
    subst hf
    exact ⟨Or.inr (Or.inl ⟨s.status, b, 0, rfl, h1, h2, hb, by omega⟩), rfl⟩
  · have c2 : s.typ = 0xB ∨ s.typ = 0x9 ∨ s.typ = 0x8 ∨ s.typ = 0xA ∨ s.typ = 0xE := by omega
    simp only [c1, if_false, c2, if_true]
    cases hp : s.pend with
    | none =>
      refine ⟨⟨h.np, h.st, h.ch, ?_⟩, rfl, by simp⟩
      intro x hx; simp only [Option.some.injEq] at hx; omega
    | some x =>
      refine ⟨⟨h.np, h.st, (fun hm => by cases hm), fun y hy => by cases hy⟩, rfl, ?_⟩
      intro f hf
      simp only [List.mem_singleton] at hf
      subst hf
      exact ⟨Or.inr (Or.inl ⟨s.status, x, b, rfl, h1, h2, h.pd x hp, hb⟩), rfl⟩

theorem cleanState_good (s : St) (b : Nat) (h : Inv s) (hm : s.mode ≠ .chan) (hb : b < 0xF8) :
    Good s (cleanState s b) := by
  unfold cleanState
  by_cases c1 : b = 0xF0
  · rw [if_pos c1]
    exact ⟨⟨h.np, fun h0 => absurd rfl h0, (fun h0 => by cases h0), h.pd⟩, rfl, by simp⟩
  by_cases c2 : b = 0xF7
  · rw [if_neg c1, if_pos c2]
    refine ⟨⟨h.np, fun h0 => absurd rfl h0, fun h0 => absurd h0 hm, h.pd⟩, rfl, ?_⟩
    intro f hf
    simp only [List.mem_singleton] at hf
    subst hf
    exact ⟨Or.inr (Or.inr ⟨0xF7, 0, 0, rfl, by simp⟩), rfl⟩
  by_cases c3 : 0xF0 < b ∧ b < 0xF7
  · rw [if_neg c1, if_neg c2, if_pos c3]
    by_cases c4 : b = 0xF1 ∨ b = 0xF2 ∨ b = 0xF3
    · rw [if_pos c4]
      exact ⟨⟨h.np, fun h0 => absurd rfl h0, (fun h0 => by cases h0), fun x hx => by cases hx⟩, rfl, by simp⟩
    by_cases c5 : b = 0xF6
    · rw [if_neg c4, if_pos c5]
      refine ⟨⟨h.np, fun h0 => absurd rfl h0, fun h0 => absurd h0 hm, fun x hx => by cases hx⟩, rfl, ?_⟩
      intro f hf
      simp only [List.mem_singleton] at hf
      subst hf
      exact ⟨Or.inr (Or.inr ⟨0xF6, 0, 0, rfl, by simp⟩), rfl⟩
    · rw [if_neg c4, if_neg c5]
      exact ⟨⟨h.np, fun h0 => absurd rfl h0, (fun h0 => by cases h0), fun x hx => by cases hx⟩, rfl, by simp⟩
  by_cases c6 : 0x80 ≤ b ∧ b ≤ 0xEF
  · rw [if_neg c1, if_neg c2, if_neg c3, if_pos c6]
    exact ⟨⟨h.np, fun _ => ⟨c6.1, c6.2, rfl⟩, fun _ => by show b ≠ 0; omega, fun x hx => by cases hx⟩, rfl, by simp⟩
  by_cases c7 : s.status ≠ 0
  · rw [if_neg c1, if_neg c2, if_neg c3, if_neg c6, if_pos c7]
    have hi : Inv { s with mode := .chan } := ⟨h.np, h.st, fun _ => c7, h.pd⟩
    exact withinChan_good { s with mode := .chan } b hi c7 (by omega)
  · rw [if_neg c1, if_neg c2, if_neg c3, if_neg c6, if_neg c7]
    exact ⟨h, rfl, by simp⟩

theorem sysexStep_good (c : Cfg) (hc : c.sysex = false) (s : St) (b : Nat) (h : Inv s) (hm : s.mode = .sysex)
    (hb : b < 0xF8) : Good s (sysexStep c s b) := by
  have hm' : s.mode ≠ .chan := by rw [hm]; intro h0; cases h0
  unfold sysexStep
  by_cases c1 : b = 0xF0
  · simp only [c1, if_true]
    exact ⟨⟨h.np, fun h0 => absurd rfl h0, fun h0 => absurd h0 hm', h.pd⟩, rfl, by simp⟩
  by_cases c2 : b = 0xF7
  · simp only [c2, if_false, if_true, hc, Bool.false_eq_true, false_and]
    exact ⟨⟨h.np, h.st, (fun h0 => by cases h0), h.pd⟩, rfl, by simp⟩
  by_cases c3 : 0x80 ≤ b
  · simp only [c1, c2, c3, if_false, if_true]
    have hi : Inv { s with sx := [], mode := .clean } := ⟨h.np, h.st, (fun h0 => by cases h0), h.pd⟩
    exact cleanState_good { s with sx := [], mode := .clean } b hi (by intro h0; cases h0) hb
  · simp only [c1, c2, c3, if_false, hc, Bool.false_eq_true, false_and]
    exact ⟨h, rfl, by simp⟩

theorem syscStep_good (s : St) (b : Nat) (h : Inv s) (hm : s.mode = .sysc) (hb : b < 0x80) :
    Good s (syscStep s b) := by
  have hm' : s.mode ≠ .chan := by rw [hm]; intro h0; cases h0
  unfold syscStep
  by_cases c1 : s.typ = 0xF1 ∨ s.typ = 0xF3
  · rw [if_pos c1]
    refine ⟨⟨h.np, h.st, (fun h0 => by cases h0), fun x hx => by cases hx⟩, rfl, ?_⟩
    intro f hf
    simp only [List.mem_singleton] at hf
    subst hf
    refine ⟨Or.inr (Or.inr ⟨s.typ, b, 0, rfl, ?_⟩), rfl⟩
    rcases c1 with c1 | c1 <;> simp [c1]
  by_cases c2 : s.typ = 0xF2
  · rw [if_neg c1, if_pos c2]
    cases hp : s.pend with
    | none =>
      refine ⟨⟨h.np, h.st, h.ch, ?_⟩, rfl, by simp⟩
      intro x hx; simp only [Option.some.injEq] at hx; omega
    | some x =>
      refine ⟨⟨h.np, h.st, (fun h0 => by cases h0), fun y hy => by cases hy⟩, rfl, ?_⟩
      intro f hf
      simp only [List.mem_singleton] at hf
      subst hf
      exact ⟨Or.inr (Or.inr ⟨0xF2, x, b, rfl, by simp⟩), rfl⟩
  · rw [if_neg c1, if_neg c2]
    exact ⟨h, rfl, by simp⟩

theorem step_good (c : Cfg) (hc : c.sysex = false) (s : St) (b : Nat) (h : Inv s) : Good s (step c s b) := by
  unfold step
  by_cases c1 : 0xF8 ≤ b
  · simp only [c1, if_true]
    refine ⟨h, rfl, ?_⟩
    intro f hf
    simp only [List.mem_singleton] at hf
    subst hf
    exact ⟨Or.inl ⟨b, rfl, c1⟩, rfl⟩
  simp only [c1, if_false]
  by_cases c2 : 0x80 ≤ b ∧ (s.mode = .chan ∨ s.mode = .sysc)
  · simp only [c2, if_true, and_self]
    have hi : Inv { s with pend := none, mode := .clean } :=
      ⟨h.np, h.st, (fun h0 => by cases h0), fun x hx => by cases hx⟩
    exact cleanState_good { s with pend := none, mode := .clean } b hi (by intro h0; cases h0) (by omega)
  · simp only [c2, if_false]
    cases hm : s.mode with
    | sysex => exact sysexStep_good c hc s b h hm (by omega)
    | clean => exact cleanState_good s b h (by rw [hm]; intro h0; cases h0) (by omega)
    | unknown =>
      by_cases c3 : 0x80 ≤ b
      · simp only [c3, if_true]
        have hi : Inv { s with mode := .clean } := ⟨h.np, h.st, (fun h0 => by cases h0), h.pd⟩
        exact cleanState_good { s with mode := .clean } b hi (by intro h0; cases h0) (by omega)
      · simp only [c3, if_false]
        exact ⟨h, rfl, by simp⟩
    | sysc =>
      have : ¬ 0x80 ≤ b := fun h0 => c2 ⟨h0, Or.inr hm⟩
      exact syscStep_good s b h hm (by omega)
    | chan =>
      have : ¬ 0x80 ≤ b := fun h0 => c2 ⟨h0, Or.inl hm⟩
      exact withinChan_good s b h (h.ch hm) (by omega)

/-- sum of the clock advances of a token stream -/
def elapsed : List Tok → Int
  | [] => 0
  | .byte _ :: r => elapsed r
  | .tick d :: r => d + elapsed r

/-- the clock only moves forward -/
def Forward (toks : List Tok) : Prop := ∀ d, Tok.tick d ∈ toks → 0 ≤ d

theorem feed_good (c : Cfg) (hc : c.sysex = false) (toks : List Tok) :
    ∀ s, Inv s → Inv (feed c s toks).1 ∧ (feed c s toks).1.ts = s.ts + elapsed toks ∧
      ∀ f ∈ (feed c s toks).2, FrameOK f := by
  induction toks with
  | nil => intro s h; simp [feed, elapsed, h]
  | cons t r ih =>
    intro s h
    cases t with
    | byte b =>
      obtain ⟨g1, g2, g3⟩ := step_good c hc s b h
      obtain ⟨i1, i2, i3⟩ := ih (step c s b).1 g1
      simp only [feed, stepTok, elapsed]
      refine ⟨i1, by rw [i2, g2], ?_⟩
      intro f hf
      rcases List.mem_append.1 hf with hf | hf
      · exact (g3 f hf).1
      · exact i3 f hf
    | tick d =>
      have hi : Inv { s with ts := s.ts + d } := ⟨h.np, h.st, h.ch, h.pd⟩
      obtain ⟨i1, i2, i3⟩ := ih { s with ts := s.ts + d } hi
      simp only [feed, stepTok, elapsed, List.nil_append]
      exact ⟨i1, by rw [i2]; simp only []; omega, i3⟩

theorem elapsed_nonneg (toks : List Tok) (hf : Forward toks) : 0 ≤ elapsed toks := by
  induction toks with
  | nil => simp [elapsed]
  | cons t r ih =>
    have hr : Forward r := fun d hd => hf d (List.mem_cons_of_mem _ hd)
    cases t with
    | byte b => simpa [elapsed] using ih hr
    | tick d =>
      have := hf d (by simp)
      have := ih hr
      simp only [elapsed]; omega

/-- with a forward clock the frame stamps lie between the start and the end and never decrease -/
theorem feed_stamps (c : Cfg) (hc : c.sysex = false) (toks : List Tok) (hfw : Forward toks) :
    ∀ s, Inv s → (∀ f ∈ (feed c s toks).2, s.ts ≤ f.2 ∧ f.2 ≤ s.ts + elapsed toks) ∧
      ((feed c s toks).2.map (·.2)).Pairwise (· ≤ ·) := by
  induction toks with
  | nil => intro s h; simp [feed]
  | cons t r ih =>
    intro s h
    have hr : Forward r := fun d hd => hfw d (List.mem_cons_of_mem _ hd)
    have her := elapsed_nonneg r hr
    cases t with
    | byte b =>
      obtain ⟨g1, g2, g3⟩ := step_good c hc s b h
      obtain ⟨i1, i2⟩ := ih hr (step c s b).1 g1
      simp only [feed, stepTok, elapsed]
      constructor
      · intro f hf
        rcases List.mem_append.1 hf with hf | hf
        · have := (g3 f hf).2; omega
        · have := i1 f hf; rw [g2] at this; exact this
      · rw [List.map_append, List.pairwise_append]
        refine ⟨?_, i2, ?_⟩
        · rw [List.pairwise_map]
          apply List.Pairwise.imp_of_mem (R := fun _ _ => True)
          · intro a b' ha hb' _
            have := (g3 a ha).2; have := (g3 b' hb').2; omega
          · exact List.pairwise_of_forall (fun _ _ => trivial)
        · intro x hx y hy
          obtain ⟨f, hf, rfl⟩ := List.mem_map.1 hx
          obtain ⟨g, hg, rfl⟩ := List.mem_map.1 hy
          have := (g3 f hf).2
          have := (i1 g hg).1
          rw [g2] at this; omega
    | tick d =>
      have hd := hfw d (by simp)
      have hi : Inv { s with ts := s.ts + d } := ⟨h.np, h.st, h.ch, h.pd⟩
      obtain ⟨i1, i2⟩ := ih hr { s with ts := s.ts + d } hi
      simp only [feed, stepTok, elapsed, List.nil_append]
      refine ⟨?_, i2⟩
      intro f hf
      have := i1 f hf
      simp only [] at this
      omega

end Midi.Record
