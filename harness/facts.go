package main

import (
	"fmt"
	"io"
)

// writeFacts prints MidiModel/Generated/Facts.lean: behavioural dumps of the finite tables
// the proofs depend on, taken from the library as compiled now.
func writeFacts(w io.Writer) {
	fmt.Fprintln(w, "/-! Generated on every run by `harness facts` from the working tree. Do not edit. -/")
	fmt.Fprintln(w, "namespace Midi.Facts")
	for _, f := range factWriters {
		f(w)
	}
	fmt.Fprintln(w, "end Midi.Facts")
}

var factWriters []func(io.Writer)
