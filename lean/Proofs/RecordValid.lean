import Proofs.RecordListen
import Proofs.StrictFile
import Proofs.VlqPad
/-!
# The recorded track lies in the domain of the SMF theorems

A recorded track (tempo meta event, then well-formed channel messages) is a valid open track body in the
sense of `Proofs/SmfDom.lean` (C01) and, with deltas below 2^28, of `Proofs/StrictFile.lean` (C03); the
bytes of its chunk stay below the 32-bit chunk length field when fewer than 2^27 events were recorded.
-/
namespace Midi.Record
open Midi.Smf Midi.Strict Midi.Vlq

/-- explicit form of the format-0 file that holds the closed recording -/
theorem fileOf_eq (res : Nat) (t : Track) (h : t.isClosed = false) :
    fileOf res t = ⟨0, .metric res, [t ++ [⟨0, EOT⟩]]⟩ := by
  simp [fileOf, File.addTrack, close_open t 0 h]

theorem fileOf_prepared (res : Nat) (t : Track) (h : t.isClosed = false) :
    (fileOf res t).prepared = ⟨0, .metric res, [t ++ [⟨0, EOT⟩]]⟩ := by
  have hc : Track.isClosed (t ++ [⟨0, EOT⟩]) = true := by rw [isClosed_snoc]; simp
  rw [fileOf_eq res t h]
  simp [File.prepared, Track.close, hc]

/-! ### the events as syntax trees -/

/-- bounds of the strict domain on one event -/
def EvOK (x : Nat × Ev) : Prop := x.2.Valid ∧ x.2.notEOT ∧ x.1 < 268435456 ∧ payloadLen x.2 < 268435456

theorem exists_body (evs : List Event) (h : ∀ e ∈ evs, ∃ x : Nat × Ev, EvOK x ∧ e = evOf x) :
    ∃ body : ATrack, (∀ x ∈ body, EvOK x) ∧ evs = body.map evOf := by
  obtain ⟨bs, h1, h2, _⟩ := map_choice EvOK (fun e : Event => e) evOf evs h
  exact ⟨bs, h1, by simpa using h2⟩

theorem recEvents_mem (ticksOf : Int → Nat) (ms : List (Bytes × Int)) (last : Int) (e : Event)
    (he : e ∈ recEvents ticksOf last ms) : ∃ m ∈ ms, isChannelMsg m.1 = true ∧ e.msg = m.1 := by
  have : e.msg ∈ (recEvents ticksOf last ms).map (·.msg) := List.mem_map_of_mem he
  rw [recEvents_msgs] at this
  obtain ⟨m, hm, e1⟩ := List.mem_map.1 this
  have hm' := List.mem_filter.1 hm
  exact ⟨m, hm'.1, by simpa using hm'.2, e1.symm⟩

/-- the recorded track as a valid body (C01) that also meets the strict bounds (C03) -/
theorem record_body (ticksOf : Int → Nat) (ty : Nat) (d : Bytes) (ms : List (Bytes × Int))
    (hty : ty < 256) (hne : ty ≠ 0x2F) (hd : d.length < 268435456)
    (hwf : ∀ m ∈ ms, isChannelMsg m.1 = true → ChanWF m.1)
    (hδ : ∀ e ∈ record ticksOf (Ev.metaEv ty d).toBytes ms, e.delta < 268435456) :
    ∃ body : ATrack, BodyOK body ∧ SBodyOK body ∧
      record ticksOf (Ev.metaEv ty d).toBytes ms = body.map evOf := by
  have hv : (Ev.metaEv ty d).Valid := ⟨hty, by omega⟩
  have hn : (Ev.metaEv ty d).notEOT := hne
  have hT : (Ev.metaEv ty d).toBytes ≠ EOT := by
    intro h0
    have := toBytes_ne_EOT _ hn hv
    rw [h0] at this; simp at this
  obtain ⟨hrec, _⟩ := record_eq ticksOf _ ms hT
  have hall : ∀ e ∈ record ticksOf (Ev.metaEv ty d).toBytes ms, ∃ x : Nat × Ev, EvOK x ∧ e = evOf x := by
    intro e he
    have hδe := hδ e he
    rw [hrec] at he
    rcases List.mem_cons.1 he with rfl | he
    · exact ⟨(0, .metaEv ty d), ⟨hv, hn, by omega, hd⟩, rfl⟩
    · obtain ⟨m, hm, hc, em⟩ := recEvents_mem ticksOf ms 0 e he
      obtain ⟨st, d1, d2, hvc, eb⟩ := hwf m hm hc
      refine ⟨(e.delta, .chan st d1 d2), ⟨hvc, trivial, hδe, by simp [payloadLen]⟩, ?_⟩
      cases e with
      | mk δ msg => simp only [evOf]; simp only [] at em; rw [em, eb]
  obtain ⟨body, hb, e⟩ := exists_body _ hall
  exact ⟨body, fun x hx => ⟨(hb x hx).1, (hb x hx).2.1, by have := (hb x hx).2.2.1; omega⟩,
    fun x hx => ⟨(hb x hx).2.2.1, (hb x hx).2.2.2⟩, e⟩

/-! ### size of the chunk -/

theorem encMsg_len (rsOn : Bool) (rs : Nat) (raw : Msg) (b : Bytes) (rs' : Nat)
    (h : encMsg rsOn rs raw = some (b, rs')) : b.length ≤ raw.length + 6 := by
  cases raw with
  | nil => simp [encMsg] at h
  | cons b0 tl =>
    simp only [encMsg] at h
    split at h
    · simp only [Option.some.injEq, Prod.mk.injEq] at h
      have := encode_length_le (tl.length % 4294967296)
      rw [← h.1]; simp; omega
    · split at h
      · split at h
        · simp only [Option.some.injEq, Prod.mk.injEq] at h; rw [← h.1]; simp
        · split at h
          · simp only [Option.some.injEq, Prod.mk.injEq] at h; rw [← h.1]; simp
          · simp only [Option.some.injEq, Prod.mk.injEq] at h; rw [← h.1]; simp; omega
      · simp only [Option.some.injEq, Prod.mk.injEq] at h; rw [← h.1]; simp

theorem encTrackBody_len (rsOn : Bool) (t : Track) :
    ∀ rs b, encTrackBody rsOn rs t = some b → b.length ≤ (t.map fun e => e.msg.length + 12).sum := by
  induction t with
  | nil => intro rs b h; simp [encTrackBody] at h; simp [h]
  | cons e r ih =>
    intro rs b h
    simp only [encTrackBody] at h
    split at h
    · cases h
    · rename_i bm rs' hm
      split at h
      · cases h
      · rename_i rest hr
        simp only [Option.some.injEq] at h
        have h1 := encMsg_len rsOn rs e.msg bm rs' hm
        have h2 := ih rs' rest hr
        have h3 := encode_length_le (e.delta % 4294967296)
        rw [← h]
        simp only [List.length_append, List.map_cons, List.sum_cons]
        omega

theorem sum_le_mul (l : List Event) (k : Nat) (h : ∀ e ∈ l, e.msg.length + 12 ≤ k) :
    (l.map fun e => e.msg.length + 12).sum ≤ k * l.length := by
  induction l with
  | nil => simp
  | cons e r ih =>
    have h1 := h e (by simp)
    have h2 := ih (fun x hx => h x (by simp [hx]))
    simp only [List.map_cons, List.sum_cons, List.length_cons]
    rw [Nat.mul_succ]; omega

theorem chanWF_len (m : Bytes) (h : ChanWF m) : m.length ≤ 3 := by
  obtain ⟨st, d1, d2, _, rfl⟩ := h
  cases d2 <;> simp [Ev.toBytes]

/-- the chunk of a recording of fewer than 2^27 events fits the 32-bit length field -/
theorem record_chunk_size (rsOn : Bool) (ticksOf : Int → Nat) (ty : Nat) (d : Bytes) (ms : List (Bytes × Int))
    (hne : (Ev.metaEv ty d).toBytes ≠ EOT) (hd : d.length < 268435456)
    (hwf : ∀ m ∈ ms, isChannelMsg m.1 = true → ChanWF m.1)
    (hn : (record ticksOf (Ev.metaEv ty d).toBytes ms).length < 134217728) (b : Bytes)
    (h : encTrackBody rsOn 0 (record ticksOf (Ev.metaEv ty d).toBytes ms ++ [⟨0, EOT⟩]) = some b) :
    b.length < 4294967296 := by
  have hlen := encTrackBody_len rsOn _ 0 b h
  obtain ⟨hrec, _⟩ := record_eq ticksOf _ ms hne
  rw [hrec] at hlen hn
  have hs := sum_le_mul (recEvents ticksOf 0 ms) 15 (by
    intro e he
    obtain ⟨m, hm, hc, em⟩ := recEvents_mem ticksOf ms 0 e he
    have := chanWF_len m.1 (hwf m hm hc)
    rw [em]; omega)
  have ht : (Ev.metaEv ty d).toBytes.length ≤ d.length + 8 := by
    have := encode_length_le d.length
    simp [Ev.toBytes]; omega
  simp only [List.cons_append, List.map_cons, List.sum_cons, List.map_append, List.sum_append, List.map_nil,
    List.sum_nil, List.length_cons, EOT] at hlen hn
  simp only [List.length_nil] at hlen
  omega

end Midi.Record
