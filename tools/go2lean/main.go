// Command go2lean translates a small imperative subset of Go (the byte-level state machines and arithmetic leaf
// functions of gomidi/midi) into Lean 4 definitions, so that theorems are re-checked against what the source says NOW.
//
//	go2lean <repo>/v2 <spec.json>   >  Generated/<Name>.lean
//
// spec.json: {"namespace": "Midi.Go", "module": "gitlab.com/gomidi/midi/v2",
//
//	"roots": [{"pkg": "drivers", "names": ["Reader.eachByte", "Reader.EachMessage", ...]}, ...]}
//
// Everything a root calls inside the module is translated too. The translation is typed (go/types):
//
//   - unsigned integers are Nat, signed ones Int; every operation that can leave the range of its Go type is wrapped
//     (`% 2^n`, `Go.wrapS n`), conversions likewise; constants are folded by go/types;
//   - a struct becomes a structure with Go's zero values as defaults; a func-typed field F becomes a Bool `F_set` and every
//     call of it appends an event to the structure's `trace`;
//   - a function that can panic (panic(), index / slice expressions) or has a pointer receiver lives in `Except String`
//     (`throw` = panic) and returns the receiver with its results; everything else is a plain function (`Id.run do`);
//   - statements map to Lean `do` notation with `let mut`: assignment, op-assignment, ++/--, if/else, switch (tag and
//     tagless, no fallthrough), return, for-range over a slice, `for i := a; i < b; i++`, immediately applied function
//     literals (inlined), var declarations, method and function calls.
//
// Anything else is an error: the tool prints `unsupported: ...` to stderr and exits 1 (the proof obligations that
// import the generated module then no longer check, which ./check reports).
package main

import (
	"encoding/json"
	"fmt"
	"go/ast"
	"go/build"
	"go/constant"
	"go/importer"
	"go/parser"
	"go/token"
	"go/types"
	"os"
	"path/filepath"
	"sort"
	"strconv"
	"strings"
)

type spec struct {
	Namespace      string   `json:"namespace"`
	Module         string   `json:"module"`
	Out            string   `json:"out"`              // file name under lean/MidiModel/Generated/
	Imports        []string `json:"imports"`          // further Lean modules to import (translations of the extern packages)
	Extern         []string `json:"extern_pkgs"`      // packages (relative to the module) whose functions are emitted elsewhere
	Opaque         []string `json:"opaque_funcs"`     // functions (FullName) outside the subset that stay uninterpreted: a call is an application of a section variable `ext_<name>`, every definition that calls one takes it as a parameter
	ExternStructs  []string `json:"extern_structs"`   // structures (Lean names) that an imported translation already declares
	StringsAsBytes bool     `json:"strings_as_bytes"` // a Go string is the list of its bytes (conversions to and from []byte are the identity, literals are spelled out); without it strings are opaque
	NilIsEmpty     bool     `json:"nil_is_empty"`     // translate `slice == nil` as "is empty" (sound where the slice is never empty-but-non-nil)
	Roots          []struct {
		Pkg      string     `json:"pkg"`
		Names    []string   `json:"names"`
		Closures []struct { // function literals assigned to a local variable: `var <Var> = func(...) {...}` inside <Func>
			Func  string `json:"func"`
			Var   string `json:"var"`
			ArgOf string `json:"arg_of"` // instead of Var: the literal is an argument of a call of this function
		} `json:"closures"`
	} `json:"roots"`
}

type pkgInfo struct {
	path  string
	files []*ast.File
	pkg   *types.Package
	info  *types.Info
}

type loader struct {
	root, mod string
	fset      *token.FileSet
	cache     map[string]*pkgInfo
	std       types.Importer
}

func (l *loader) Import(path string) (*types.Package, error) {
	if path == l.mod || strings.HasPrefix(path, l.mod+"/") {
		p, err := l.load(path)
		if err != nil {
			return nil, err
		}
		return p.pkg, nil
	}
	return l.std.Import(path)
}

func (l *loader) load(path string) (*pkgInfo, error) {
	if p, ok := l.cache[path]; ok {
		return p, nil
	}
	dir := filepath.Join(l.root, strings.TrimPrefix(strings.TrimPrefix(path, l.mod), "/"))
	ents, err := os.ReadDir(dir)
	if err != nil {
		return nil, err
	}
	ctx := build.Default
	p := &pkgInfo{path: path}
	for _, e := range ents {
		n := e.Name()
		if e.IsDir() || !strings.HasSuffix(n, ".go") || strings.HasSuffix(n, "_test.go") {
			continue
		}
		if ok, _ := ctx.MatchFile(dir, n); !ok {
			continue
		}
		f, err := parser.ParseFile(l.fset, filepath.Join(dir, n), nil, parser.ParseComments)
		if err != nil {
			return nil, err
		}
		p.files = append(p.files, f)
	}
	p.info = &types.Info{Types: map[ast.Expr]types.TypeAndValue{}, Defs: map[*ast.Ident]types.Object{}, Uses: map[*ast.Ident]types.Object{},
		Selections: map[*ast.SelectorExpr]*types.Selection{}}
	conf := types.Config{Importer: l, Error: func(error) {}}
	l.cache[path] = p // (import cycles do not occur in Go)
	p.pkg, err = conf.Check(path, l.fset, p.files, p.info)
	if err != nil && p.pkg == nil {
		return nil, err
	}
	return p, nil
}

type unsupported struct{ msg string }

// closure: a function literal bound to a local variable of an enclosing function; its captured variables become the
// fields of an environment structure (captured func values: events of its trace)
type closure struct {
	p       *pkgInfo
	outer   *types.Func
	varName string
	lit     *ast.FuncLit
	vars    []*types.Var // captured, not func-typed, in order of first use
	funcs   []*types.Var // captured func-typed
}

type tr struct {
	l          *loader
	sp         spec
	out        strings.Builder
	funcs      map[*types.Func]*ast.FuncDecl
	fpkg       map[*types.Func]*pkgInfo
	order      []*types.Func // translation order (callees first)
	state      map[*types.Func]int
	structs    []*types.Named
	sseen      map[*types.Named]bool
	monadic    map[*types.Func]bool
	mutates    map[*types.Func]bool
	opaqueSeen map[string]*types.Func
	usedFields map[*types.Var]bool
	outObjs    map[types.Object]bool    // pointer out-parameters of the function being translated
	outNames   []string                 // their names, in parameter order
	hoisted    map[*ast.CallExpr]string // calls with pointer parameters already emitted before the condition they occur in
	closures   []*closure
	maps       map[*types.Var]string // package-level map variables that are read: their Lean rendering
	mapOrder   []*types.Var
	// closure being translated: captured variables live in `env`
	env         map[types.Object]bool
	envFuncs    map[types.Object]*types.Signature
	recvName    string
	closureBase string
	inoutNames  []string
	// per function
	p       *pkgInfo
	recv    *types.Var
	recvPtr bool
	fn      *types.Func
	mon     bool
	tmp     int
	results *types.Tuple
	named   []string // named result variables
}

func (t *tr) fail(n ast.Node, format string, a ...interface{}) {
	pos := ""
	if n != nil {
		pos = t.l.fset.Position(n.Pos()).String() + ": "
	}
	panic(unsupported{pos + fmt.Sprintf(format, a...)})
}

func main() {
	if len(os.Args) < 3 {
		fmt.Fprintln(os.Stderr, "usage: go2lean <repo>/v2 <spec.json>")
		os.Exit(2)
	}
	var sp spec
	data, err := os.ReadFile(os.Args[2])
	if err != nil || json.Unmarshal(data, &sp) != nil {
		fmt.Fprintln(os.Stderr, "go2lean: cannot read spec", err)
		os.Exit(2)
	}
	fset := token.NewFileSet()
	l := &loader{root: os.Args[1], mod: sp.Module, fset: fset, cache: map[string]*pkgInfo{}, std: importer.ForCompiler(fset, "source", nil)}
	t := &tr{l: l, sp: sp, funcs: map[*types.Func]*ast.FuncDecl{}, fpkg: map[*types.Func]*pkgInfo{}, state: map[*types.Func]int{},
		sseen: map[*types.Named]bool{}, monadic: map[*types.Func]bool{}, mutates: map[*types.Func]bool{}, maps: map[*types.Var]string{}}
	defer func() {
		if r := recover(); r != nil {
			if u, ok := r.(unsupported); ok {
				fmt.Fprintln(os.Stderr, "unsupported:", u.msg)
				os.Exit(1)
			}
			panic(r)
		}
	}()
	var roots []*types.Func
	for _, r := range sp.Roots {
		p, err := l.load(sp.Module + "/" + r.Pkg)
		if r.Pkg == "" || r.Pkg == "." {
			p, err = l.load(sp.Module)
		}
		if err != nil {
			fmt.Fprintln(os.Stderr, "go2lean:", err)
			os.Exit(1)
		}
		t.index(p)
		for _, n := range r.Names {
			f := t.lookup(p, n)
			if f == nil {
				t.fail(nil, "root %s.%s not found", r.Pkg, n)
			}
			roots = append(roots, f)
		}
	}
	for _, r := range sp.Roots {
		if len(r.Closures) == 0 {
			continue
		}
		pth := sp.Module + "/" + r.Pkg
		if r.Pkg == "" || r.Pkg == "." {
			pth = sp.Module
		}
		p, err := l.load(pth)
		if err != nil {
			fmt.Fprintln(os.Stderr, "go2lean:", err)
			os.Exit(1)
		}
		t.index(p)
		for _, c := range r.Closures {
			t.addClosure(p, c.Func, c.Var, c.ArgOf)
		}
	}
	for _, f := range roots {
		t.visit(f)
	}
	// monadic = fixed point over the call graph
	for changed := true; changed; {
		changed = false
		for _, f := range t.order {
			if !t.monadic[f] && t.needsMonad(f) {
				t.monadic[f] = true
				changed = true
			}
		}
	}
	var body strings.Builder
	for _, f := range t.order {
		if t.isExtern(f) {
			continue
		}
		body.WriteString(t.funcDecl(f))
		body.WriteString("\n")
	}
	var cbody strings.Builder
	for _, c := range t.closures {
		cbody.WriteString(t.closureDecl(c))
		cbody.WriteString("\n")
	}
	fmt.Printf("-- GENERATED by tools/go2lean from the working tree; do not edit. Regenerated on every run of ./check.\n")
	fmt.Printf("import MidiModel.GoSem\n")
	for _, im := range sp.Imports {
		fmt.Printf("import %s\n", im)
	}
	fmt.Printf("set_option maxRecDepth 4000\nset_option linter.unusedVariables false\nnamespace %s\n\n", sp.Namespace)
	// uninterpreted functions: section variables, parameters of every definition that mentions them
	for _, oq := range sp.Opaque {
		fn := t.opaqueSeen[oq]
		for _, p := range t.l.cache {
			if fn != nil {
				break
			}
			for _, o := range p.info.Defs {
				if f, ok := o.(*types.Func); ok && f.FullName() == oq {
					fn = f
				}
			}
		}
		if fn == nil {
			fmt.Fprintf(os.Stderr, "go2lean: opaque function %s not found\n", oq)
			os.Exit(1)
		}
		sig := fn.Type().(*types.Signature)
		var ts []string
		if sig.Recv() != nil {
			ts = append(ts, t.leanType(nil, sig.Recv().Type()))
		}
		for i := 0; i < sig.Params().Len(); i++ {
			ts = append(ts, t.leanType(nil, sig.Params().At(i).Type()))
		}
		var rs []string
		for i := 0; i < sig.Results().Len(); i++ {
			rs = append(rs, t.leanType(nil, sig.Results().At(i).Type()))
		}
		fmt.Printf("-- `%s`: outside the translated subset, uninterpreted\nvariable (%s : %s)\n\n", oq, opaqueName(oq), strings.Join(append(ts, strings.Join(rs, " × ")), " → "))
	}
	// structs: dependencies first; a field of struct type is kept only if a translated function mentions it
	t.usedFields = map[*types.Var]bool{}
	for _, f := range t.order {
		p := t.fpkg[f]
		ast.Inspect(t.funcs[f], func(n ast.Node) bool {
			if sel, ok := n.(*ast.SelectorExpr); ok {
				if s, ok := p.info.Selections[sel]; ok && s.Kind() == types.FieldVal {
					if v, ok := s.Obj().(*types.Var); ok {
						t.usedFields[v] = true
					}
				}
				// the embedded fields a promoted field or method goes through
				if s, ok := p.info.Selections[sel]; ok && len(s.Index()) > 1 {
					ty := s.Recv()
					for _, i := range s.Index()[:len(s.Index())-1] {
						if pt, ok := ty.Underlying().(*types.Pointer); ok {
							ty = pt.Elem()
						}
						st, ok := ty.Underlying().(*types.Struct)
						if !ok {
							break
						}
						t.usedFields[st.Field(i)] = true
						ty = st.Field(i).Type()
					}
				}
			}
			if kv, ok := n.(*ast.KeyValueExpr); ok {
				if id, ok := kv.Key.(*ast.Ident); ok {
					if v, ok := p.info.Uses[id].(*types.Var); ok && v.IsField() {
						t.usedFields[v] = true
					}
				}
			}
			return true
		})
	}
	emitted := map[*types.Named]bool{}
	var sout strings.Builder
	var emit func(n *types.Named)
	emit = func(n *types.Named) {
		if emitted[n] {
			return
		}
		emitted[n] = true
		before := len(t.structs)
		text := t.structDecl(n)
		for _, d := range append([]*types.Named{}, t.structs[before:]...) {
			emit(d)
		}
		for _, ex := range sp.ExternStructs {
			if ex == t.structName(n) {
				return
			}
		}
		sout.WriteString(text)
	}
	for i := 0; i < len(t.structs); i++ {
		emit(t.structs[i])
	}
	fmt.Print(sout.String())
	for _, v := range t.mapOrder {
		fmt.Print(t.maps[v])
	}
	fmt.Print(body.String())
	fmt.Print(cbody.String())
	fmt.Printf("end %s\n", sp.Namespace)
}

func (t *tr) isExtern(f *types.Func) bool {
	for _, e := range t.sp.Extern {
		if f.Pkg() != nil && (f.Pkg().Path() == t.sp.Module+"/"+e || (e == "." && f.Pkg().Path() == t.sp.Module)) {
			return true
		}
	}
	return false
}

func (t *tr) addClosure(p *pkgInfo, fn, vn, argOf string) {
	outer := t.lookup(p, fn)
	if outer == nil {
		t.fail(nil, "closure: function %s not found", fn)
	}
	fd := t.funcs[outer]
	var lit *ast.FuncLit
	ast.Inspect(fd.Body, func(n ast.Node) bool {
		switch x := n.(type) {
		case *ast.ValueSpec:
			for i, id := range x.Names {
				if id.Name == vn && i < len(x.Values) {
					if fl, ok := x.Values[i].(*ast.FuncLit); ok {
						lit = fl
					}
				}
			}
		case *ast.AssignStmt:
			for i, l := range x.Lhs {
				if id, ok := l.(*ast.Ident); ok && vn != "" && id.Name == vn && i < len(x.Rhs) {
					if fl, ok := x.Rhs[i].(*ast.FuncLit); ok {
						lit = fl
					}
				}
				// ... or to a field: x.<Var> = func(...) {...}
				if se, ok := l.(*ast.SelectorExpr); ok && vn != "" && se.Sel.Name == vn && i < len(x.Rhs) {
					if fl, ok := x.Rhs[i].(*ast.FuncLit); ok {
						lit = fl
					}
				}
			}
		case *ast.CallExpr:
			if argOf != "" {
				callee := ""
				switch f := x.Fun.(type) {
				case *ast.Ident:
					callee = f.Name
				case *ast.SelectorExpr:
					callee = f.Sel.Name
				}
				if callee == argOf {
					for _, a := range x.Args {
						if fl, ok := a.(*ast.FuncLit); ok {
							lit = fl
						}
					}
				}
			}
		}
		return true
	})
	if lit == nil {
		t.fail(fd, "closure: no function literal bound to %s%s in %s", vn, argOf, fn)
	}
	if vn == "" {
		vn = "arg_" + argOf
	}
	c := &closure{p: p, outer: outer, varName: vn, lit: lit}
	seen := map[types.Object]bool{}
	ast.Inspect(lit.Body, func(n ast.Node) bool {
		id, ok := n.(*ast.Ident)
		if !ok {
			return true
		}
		v, ok := p.info.Uses[id].(*types.Var)
		if !ok || v.IsField() || seen[v] || v.Pkg() == nil || v.Parent() == v.Pkg().Scope() {
			return true
		}
		// declared in the enclosing function, outside the literal
		if v.Pos() >= lit.Pos() && v.Pos() < lit.End() {
			return true
		}
		if !(v.Pos() >= fd.Pos() && v.Pos() < fd.End()) {
			return true
		}
		seen[v] = true
		if _, isFn := v.Type().Underlying().(*types.Signature); isFn {
			c.funcs = append(c.funcs, v)
		} else {
			c.vars = append(c.vars, v)
		}
		return true
	})
	t.closures = append(t.closures, c)
	// callees of the literal
	ast.Inspect(lit.Body, func(n ast.Node) bool {
		if ce, ok := n.(*ast.CallExpr); ok {
			if g := t.callee(p, ce); g != nil {
				if _, have := t.funcs[g]; !have && g.Pkg() != nil && strings.HasPrefix(g.Pkg().Path(), t.sp.Module) {
					if q, err := t.l.load(g.Pkg().Path()); err == nil {
						t.index(q)
						g = t.sameFunc(q, g)
					}
				}
				if _, have := t.funcs[g]; have {
					t.visit(g)
				}
			}
		}
		return true
	})
}

func (t *tr) closureDecl(c *closure) string {
	t.p = c.p
	t.fn = nil
	t.mon = true
	t.tmp = 0
	t.recv, t.recvPtr = nil, true
	t.recvName = "env"
	t.named = nil
	t.outNames = nil
	t.outObjs = map[types.Object]bool{}
	t.inoutNames = nil
	t.env = map[types.Object]bool{}
	t.envFuncs = map[types.Object]*types.Signature{}
	defer func() { t.env, t.envFuncs, t.recvName = nil, nil, "" }()
	base := t.funcName(c.outer) + "." + name(c.varName)
	var sb strings.Builder
	pos := t.l.fset.Position(c.lit.Pos())
	// environment
	if len(c.funcs) > 0 {
		fmt.Fprintf(&sb, "inductive %s.Ev where\n", base)
		for _, f := range c.funcs {
			sig := f.Type().Underlying().(*types.Signature)
			t.envFuncs[f] = sig
			fmt.Fprintf(&sb, "  | %s", name(f.Name()))
			for j := 0; j < sig.Params().Len(); j++ {
				if sig.Params().At(j).Type().String() == "error" {
					continue
				}
				fmt.Fprintf(&sb, " (a%d : %s)", j, t.leanType(c.lit, sig.Params().At(j).Type()))
			}
			sb.WriteString("\n")
		}
		sb.WriteString("deriving Repr, DecidableEq\n\n")
	}
	fmt.Fprintf(&sb, "/-- the variables of `%s` that the function literal `%s` captures -/\nstructure %s.Env where\n", c.outer.Name(), c.varName, base)
	for _, v := range c.vars {
		t.env[v] = true
		fmt.Fprintf(&sb, "  %s : %s := %s\n", name(v.Name()), t.leanType(c.lit, v.Type()), t.zero(c.lit, v.Type()))
	}
	if len(c.funcs) > 0 {
		fmt.Fprintf(&sb, "  trace : List %s.Ev := []\n", base)
	}
	sb.WriteString("deriving Repr\n\n")
	sig := c.p.info.Types[c.lit].Type.(*types.Signature)
	t.results = sig.Results()
	if sig.Results().Len() > 0 {
		t.fail(c.lit, "closure with results")
	}
	params := []string{fmt.Sprintf("(env : %s.Env)", base)}
	var muts []string
	for i := 0; i < sig.Params().Len(); i++ {
		pv := sig.Params().At(i)
		params = append(params, fmt.Sprintf("(%s : %s)", name(pv.Name()), t.leanType(c.lit, pv.Type())))
		muts = append(muts, name(pv.Name()))
	}
	fmt.Fprintf(&sb, "/-- `%s` in `%s` (%s:%d) -/\n", c.varName, c.outer.FullName(), filepath.Base(pos.Filename), pos.Line)
	fmt.Fprintf(&sb, "def %s %s : Except String (%s.Env) := do\n  let mut env := env\n", base, strings.Join(params, " "), base)
	for _, m := range muts {
		if assigned(c.lit.Body, m) {
			fmt.Fprintf(&sb, "  let mut %s := %s\n", m, m)
		}
	}
	t.closureBase = base
	t.block(&sb, c.lit.Body.List, "  ")
	if !endsInReturn(c.lit.Body.List) {
		sb.WriteString("  return env\n")
	}
	return sb.String()
}

// mapVar: a package-level `var m = map[K]V{k: v, ...}` with constant integer keys and values, never assigned to in the
// translated functions, becomes `def m (k) : Option V` (an if-chain in source order; a duplicate key is a compile error in Go)
func (t *tr) mapVar(n ast.Node, v *types.Var) string {
	if _, ok := t.maps[v]; ok {
		return pkgShort(v.Pkg()) + "." + name(v.Name())
	}
	mt, ok := v.Type().Underlying().(*types.Map)
	if !ok {
		t.fail(n, "%s is not a map", v.Name())
	}
	var spec *ast.ValueSpec
	var pi *pkgInfo
	for _, p := range t.l.cache {
		if p.pkg != v.Pkg() {
			continue
		}
		for _, f := range p.files {
			for _, d := range f.Decls {
				if gd, ok := d.(*ast.GenDecl); ok && gd.Tok == token.VAR {
					for _, sp := range gd.Specs {
						vs := sp.(*ast.ValueSpec)
						for i, id := range vs.Names {
							if p.info.Defs[id] == types.Object(v) && i < len(vs.Values) {
								spec, pi = vs, p
							}
						}
					}
				}
			}
		}
	}
	if spec == nil {
		t.fail(n, "map %s has no initialiser", v.Name())
	}
	lit, ok := spec.Values[0].(*ast.CompositeLit)
	if !ok {
		t.fail(n, "map %s is not initialised by a literal", v.Name())
	}
	kt, vt := t.leanType(n, mt.Key()), t.leanType(n, mt.Elem())
	full := pkgShort(v.Pkg()) + "." + name(v.Name())
	var sb strings.Builder
	pos := t.l.fset.Position(spec.Pos())
	fmt.Fprintf(&sb, "/-- the map `%s` (%s:%d), read-only -/\ndef %s (k : %s) : Option %s :=\n", v.Name(), filepath.Base(pos.Filename), pos.Line, full, kt, vt)
	save := t.p
	t.p = pi
	for _, el := range lit.Elts {
		kv, ok := el.(*ast.KeyValueExpr)
		if !ok {
			t.fail(n, "map literal element")
		}
		ktv, vtv := pi.info.Types[kv.Key], pi.info.Types[kv.Value]
		if ktv.Value == nil || vtv.Value == nil {
			t.fail(kv, "map %s: key and value must be constants", v.Name())
		}
		fmt.Fprintf(&sb, "  if k = %s then some %s else\n", t.expr(kv.Key), t.expr(kv.Value))
	}
	t.p = save
	sb.WriteString("  none\n\n")
	t.maps[v] = sb.String()
	t.mapOrder = append(t.mapOrder, v)
	return full
}

// pkgMap: e is an identifier (or pkg.Ident) naming a package-level map variable
func (t *tr) pkgMap(e ast.Expr) *types.Var {
	var id *ast.Ident
	switch x := e.(type) {
	case *ast.Ident:
		id = x
	case *ast.SelectorExpr:
		id = x.Sel
	default:
		return nil
	}
	v, ok := t.p.info.Uses[id].(*types.Var)
	if !ok || v.Pkg() == nil || v.Parent() != v.Pkg().Scope() {
		return nil
	}
	if _, isMap := v.Type().Underlying().(*types.Map); !isMap {
		return nil
	}
	return v
}

// pkgVarValue: a package-level variable that is initialised by an expression over translated functions and constants
// and that no function of the loaded packages assigns to or takes the address of is read as its initialiser
// (`var EOT = _MetaMessage(byteEndOfTrack, nil)`)
func (t *tr) pkgVarValue(n ast.Node, v *types.Var) string {
	var init ast.Expr
	var pi *pkgInfo
	for _, p := range t.l.cache {
		if p.pkg != v.Pkg() {
			continue
		}
		for _, f := range p.files {
			for _, d := range f.Decls {
				if gd, ok := d.(*ast.GenDecl); ok && gd.Tok == token.VAR {
					for _, sp := range gd.Specs {
						vs := sp.(*ast.ValueSpec)
						for i, id := range vs.Names {
							if p.info.Defs[id] == types.Object(v) && len(vs.Values) == len(vs.Names) {
								init, pi = vs.Values[i], p
							}
						}
					}
				}
			}
		}
	}
	if init == nil {
		t.fail(n, "package variable %s has no initialiser of its own", v.Name())
	}
	for _, p := range t.l.cache {
		for _, f := range p.files {
			ast.Inspect(f, func(m ast.Node) bool {
				written := func(e ast.Expr) bool {
					for {
						switch x := e.(type) {
						case *ast.Ident:
							return p.info.Uses[x] == types.Object(v)
						case *ast.SelectorExpr:
							if p.info.Uses[x.Sel] == types.Object(v) {
								return true
							}
							e = x.X
						case *ast.IndexExpr:
							e = x.X
						case *ast.ParenExpr:
							e = x.X
						case *ast.StarExpr:
							e = x.X
						default:
							return false
						}
					}
				}
				switch x := m.(type) {
				case *ast.AssignStmt:
					for _, l := range x.Lhs {
						if written(l) {
							t.fail(n, "package variable %s is assigned to (%s)", v.Name(), t.l.fset.Position(x.Pos()))
						}
					}
				case *ast.IncDecStmt:
					if written(x.X) {
						t.fail(n, "package variable %s is assigned to", v.Name())
					}
				case *ast.UnaryExpr:
					if x.Op == token.AND && written(x.X) {
						t.fail(n, "the address of package variable %s is taken", v.Name())
					}
				}
				return true
			})
		}
	}
	saved := t.p
	t.p = pi
	defer func() { t.p = saved }()
	return t.atom(init)
}

func opaqueName(full string) string {
	r := strings.NewReplacer("(", "", ")", "", "*", "", "/", "_", ".", "_", "-", "_")
	parts := strings.Split(full, "/")
	return "ext_" + r.Replace(parts[len(parts)-1])
}

func (t *tr) index(p *pkgInfo) {
	for _, f := range p.files {
		for _, d := range f.Decls {
			if fd, ok := d.(*ast.FuncDecl); ok && fd.Body != nil {
				if o, ok := p.info.Defs[fd.Name].(*types.Func); ok {
					t.funcs[o] = fd
					t.fpkg[o] = p
				}
			}
		}
	}
}

func (t *tr) lookup(p *pkgInfo, name string) *types.Func {
	parts := strings.Split(name, ".")
	for f := range t.funcs {
		if t.fpkg[f] != p {
			continue
		}
		sig := f.Type().(*types.Signature)
		if len(parts) == 1 && sig.Recv() == nil && f.Name() == parts[0] {
			return f
		}
		if len(parts) == 2 && sig.Recv() != nil && f.Name() == parts[1] && recvNamed(sig.Recv().Type()).Obj().Name() == parts[0] {
			return f
		}
	}
	return nil
}

func recvNamed(ty types.Type) *types.Named {
	if p, ok := ty.(*types.Pointer); ok {
		ty = p.Elem()
	}
	n, _ := ty.(*types.Named)
	return n
}

// visit orders the functions callees first (the module has no recursion in the translated part)
func (t *tr) visit(f *types.Func) {
	switch t.state[f] {
	case 2:
		return
	case 1:
		t.fail(t.funcs[f], "recursion through %s", f.Name())
	}
	t.state[f] = 1
	fd := t.funcs[f]
	p := t.fpkg[f]
	ast.Inspect(fd.Body, func(n ast.Node) bool {
		if c, ok := n.(*ast.CallExpr); ok {
			if g := t.callee(p, c); g != nil {
				if _, have := t.funcs[g]; !have && g.Pkg() != nil && strings.HasPrefix(g.Pkg().Path(), t.sp.Module) {
					q, err := t.l.load(g.Pkg().Path())
					if err == nil {
						t.index(q)
						// the object identity differs between a package loaded as dependency and directly: find by name
						g = t.sameFunc(q, g)
					}
				}
				if g != nil {
					if _, have := t.funcs[g]; have && !onlyStrings(g) {
						t.visit(g)
					}
				}
			}
		}
		return true
	})
	sig := f.Type().(*types.Signature)
	if sig.Recv() != nil {
		if n := recvNamed(sig.Recv().Type()); n != nil {
			t.addStruct(n)
		}
	}
	t.state[f] = 2
	t.order = append(t.order, f)
}

// onlyStrings: every result is a string (String() methods and the like): such calls are rendered opaque
func onlyStrings(g *types.Func) bool {
	res := g.Type().(*types.Signature).Results()
	if res.Len() == 0 {
		return false
	}
	for i := 0; i < res.Len(); i++ {
		if b, ok := res.At(i).Type().Underlying().(*types.Basic); !ok || b.Kind() != types.String {
			return false
		}
	}
	return true
}

func (t *tr) sameFunc(q *pkgInfo, g *types.Func) *types.Func {
	for f := range t.funcs {
		if t.fpkg[f] == q && f.FullName() == g.FullName() {
			return f
		}
	}
	return g
}

func (t *tr) callee(p *pkgInfo, c *ast.CallExpr) *types.Func {
	var id *ast.Ident
	switch fn := c.Fun.(type) {
	case *ast.Ident:
		id = fn
	case *ast.SelectorExpr:
		id = fn.Sel
	default:
		return nil
	}
	f, _ := p.info.Uses[id].(*types.Func)
	if f == nil {
		return nil
	}
	if g, ok := t.funcs[f]; ok && g != nil {
		return f
	}
	// same function seen through another load of its package
	for h := range t.funcs {
		if h.FullName() == f.FullName() {
			return h
		}
	}
	return f
}

func (t *tr) addStruct(n *types.Named) {
	if t.sseen[n] {
		return
	}
	if _, ok := n.Underlying().(*types.Struct); !ok {
		return
	}
	t.sseen[n] = true
	t.structs = append(t.structs, n)
}

// ---------- purity ----------

// inoutParams: indices of slice parameters the function writes into (`p[i] = v`): the caller sees the writes in Go
// (shared backing array), so the translated function hands such a parameter back and the call site re-binds it
func (t *tr) inoutParams(f *types.Func) []int {
	fd := t.funcs[f]
	p := t.fpkg[f]
	if fd == nil {
		return nil
	}
	sig := f.Type().(*types.Signature)
	var out []int
	for i := 0; i < sig.Params().Len(); i++ {
		pv := sig.Params().At(i)
		if _, ok := pv.Type().Underlying().(*types.Slice); !ok {
			continue
		}
		hit := false
		ast.Inspect(fd.Body, func(n ast.Node) bool {
			if as, ok := n.(*ast.AssignStmt); ok {
				for _, l := range as.Lhs {
					if ix, ok := l.(*ast.IndexExpr); ok {
						if id, ok := ix.X.(*ast.Ident); ok && p.info.Uses[id] == types.Object(pv) {
							hit = true
						}
					}
				}
			}
			return true
		})
		if hit {
			out = append(out, i)
		}
	}
	return out
}

// mutatesRecv: the function has a pointer receiver and assigns to it (a field, an element, through a method that does, or
// calls one of its function fields). A pointer receiver that is only read is translated like a value receiver.
func (t *tr) mutatesRecv(f *types.Func) bool {
	if v, ok := t.mutates[f]; ok {
		return v
	}
	t.mutates[f] = true // recursion guard: assume the worst
	fd := t.funcs[f]
	p := t.fpkg[f]
	sig := f.Type().(*types.Signature)
	res := false
	if sig.Recv() != nil && fd != nil {
		if _, ok := sig.Recv().Type().(*types.Pointer); ok {
			recv := sig.Recv()
			isRecv := func(e ast.Expr) bool {
				for {
					switch x := e.(type) {
					case *ast.SelectorExpr:
						e = x.X
					case *ast.IndexExpr:
						e = x.X
					case *ast.ParenExpr:
						e = x.X
					case *ast.StarExpr:
						e = x.X
					case *ast.Ident:
						return p.info.Uses[x] == types.Object(recv)
					default:
						return false
					}
				}
			}
			ast.Inspect(fd.Body, func(n ast.Node) bool {
				switch x := n.(type) {
				case *ast.AssignStmt:
					for _, l := range x.Lhs {
						if _, plain := l.(*ast.Ident); !plain && isRecv(l) {
							res = true
						}
					}
				case *ast.IncDecStmt:
					if _, plain := x.X.(*ast.Ident); !plain && isRecv(x.X) {
						res = true
					}
				case *ast.CallExpr:
					if sel, ok := x.Fun.(*ast.SelectorExpr); ok && isRecv(sel.X) {
						if s, ok := p.info.Selections[sel]; ok && s.Kind() == types.FieldVal {
							res = true // call of a function field: an event in the trace
						}
						if g := t.callee(p, x); g != nil && t.funcs[g] != nil && t.mutatesRecv(g) {
							res = true
						}
					}
				case *ast.UnaryExpr:
					if x.Op == token.AND && isRecv(x.X) {
						res = true // address taken
					}
				}
				return true
			})
		}
	}
	t.mutates[f] = res
	return res
}

func (t *tr) needsMonad(f *types.Func) bool {
	fd := t.funcs[f]
	p := t.fpkg[f]
	if t.mutatesRecv(f) {
		return true
	}
	need := false
	ast.Inspect(fd.Body, func(n ast.Node) bool {
		switch x := n.(type) {
		case *ast.IndexExpr:
			if tvx, ok := p.info.Types[x.X]; ok {
				if _, isMap := tvx.Type.Underlying().(*types.Map); isMap {
					return true // a read of a constant map cannot panic
				}
			}
			need = true
		case *ast.SliceExpr:
			need = true
		case *ast.StarExpr:
			need = true // a nil pointer dereference panics
		case *ast.ForStmt:
			if !countingLoop(x) {
				need = true // fuel exhaustion is a throw
			}
		case *ast.BinaryExpr:
			if x.Op == token.QUO || x.Op == token.REM {
				if tv, ok := p.info.Types[x.Y]; !ok || tv.Value == nil {
					need = true // a zero divisor panics
				}
			}
		case *ast.AssignStmt:
			if x.Tok == token.QUO_ASSIGN || x.Tok == token.REM_ASSIGN {
				if tv, ok := p.info.Types[x.Rhs[0]]; !ok || tv.Value == nil {
					need = true
				}
			}
		case *ast.CallExpr:
			if id, ok := x.Fun.(*ast.Ident); ok && id.Name == "panic" {
				if _, isB := p.info.Uses[id].(*types.Builtin); isB {
					need = true
				}
			}
			if g := t.callee(p, x); g != nil && t.monadic[g] {
				need = true
			}
		}
		return !need
	})
	return need
}

// ---------- names and types ----------

var leanKeywords = map[string]bool{"at": true, "from": true, "end": true, "open": true, "in": true, "fun": true, "do": true, "then": true, "else": true, "if": true,
	"let": true, "have": true, "show": true, "match": true, "with": true, "for": true, "where": true, "by": true, "instance": true, "structure": true, "class": true,
	"def": true, "theorem": true, "namespace": true, "section": true, "variable": true, "universe": true, "import": true, "export": true, "mut": true, "return": true,
	"break": true, "continue": true, "try": true, "catch": true, "finally": true, "unless": true, "deriving": true, "extends": true, "abbrev": true, "example": true,
	"macro": true, "syntax": true, "notation": true, "private": true, "protected": true, "partial": true, "unsafe": true, "mutual": true, "set_option": true,
	"Type": true, "Prop": true, "Sort": true, "true": true, "false": true, "some": true, "none": true, "pure": true, "throw": true, "get": true, "set": true, "trace": true}

func name(s string) string {
	if strings.HasPrefix(s, "_") {
		s = "u" + s
	}
	if leanKeywords[s] {
		return s + "'"
	}
	return s
}

func intInfo(ty types.Type) (bits int, signed bool, ok bool) {
	b, isB := ty.Underlying().(*types.Basic)
	if !isB {
		return 0, false, false
	}
	switch b.Kind() {
	case types.Uint8:
		return 8, false, true
	case types.Uint16:
		return 16, false, true
	case types.Uint32:
		return 32, false, true
	case types.Uint64, types.Uint, types.Uintptr:
		return 64, false, true
	case types.Int8:
		return 8, true, true
	case types.Int16:
		return 16, true, true
	case types.Int32:
		return 32, true, true
	case types.Int64, types.Int:
		return 64, true, true
	case types.UntypedInt, types.UntypedRune:
		return 0, true, true
	}
	return 0, false, false
}

func pow2(n int) string {
	switch n {
	case 8:
		return "256"
	case 16:
		return "65536"
	case 32:
		return "4294967296"
	case 64:
		return "18446744073709551616"
	}
	return fmt.Sprintf("(2^%d)", n)
}

func isBytesBuffer(ty types.Type) bool {
	if p, ok := ty.(*types.Pointer); ok {
		ty = p.Elem()
	}
	nm, ok := ty.(*types.Named)
	return ok && nm.Obj().Pkg() != nil && nm.Obj().Pkg().Path() == "bytes" && nm.Obj().Name() == "Buffer"
}

func (t *tr) leanType(n ast.Node, ty types.Type) string {
	if isBytesBuffer(ty) {
		return "(List Nat)" // a bytes.Buffer that is only written to and read with Bytes(): its content
	}
	if bits, signed, ok := intInfo(ty); ok {
		_ = bits
		if signed {
			return "Int"
		}
		return "Nat"
	}
	switch u := ty.Underlying().(type) {
	case *types.Basic:
		switch u.Kind() {
		case types.Bool, types.UntypedBool:
			return "Bool"
		case types.String, types.UntypedString:
			if t.sp.StringsAsBytes {
				return "(List Nat)"
			}
			return "String"
		case types.Float64:
			if len(t.sp.Opaque) > 0 {
				return "Float" // only passed on to uninterpreted functions: no arithmetic on it is translated
			}
		}
	case *types.Slice:
		return "(List " + t.leanType(n, u.Elem()) + ")"
	case *types.Array:
		return "(List " + t.leanType(n, u.Elem()) + ")" // fixed length: see zero(); the length is not in the type
	case *types.Struct:
		if nm, ok := ty.(*types.Named); ok {
			t.addStruct(nm)
			return t.structName(nm)
		}
	case *types.Pointer:
		if nm := recvNamed(ty); nm != nil {
			if _, ok := nm.Underlying().(*types.Struct); ok {
				t.addStruct(nm)
				return t.structName(nm)
			}
			if _, ok := nm.Underlying().(*types.Slice); ok {
				return t.leanType(n, nm) // `*Track` as a receiver: the slice itself, handed back when written
			}
		}
	case *types.Interface:
		if ty.String() == "error" {
			return "Bool" // an error value is rendered as the flag "non-nil"
		}
		if len(t.sp.Opaque) > 0 {
			return "Go.Iface" // a value of interface type is only handed to uninterpreted functions
		}
	}
	t.fail(n, "type %s", ty)
	return ""
}

func (t *tr) zero(n ast.Node, ty types.Type) string {
	if isBytesBuffer(ty) {
		return "([] : List Nat)"
	}
	if _, signed, ok := intInfo(ty); ok {
		if signed {
			return "(0 : Int)"
		}
		return "(0 : Nat)"
	}
	switch u := ty.Underlying().(type) {
	case *types.Basic:
		switch u.Kind() {
		case types.Bool:
			return "false"
		case types.String:
			if t.sp.StringsAsBytes {
				return "([] : List Nat)"
			}
			return "\"\""
		case types.Float64:
			if len(t.sp.Opaque) > 0 {
				return "(0 : Float)"
			}
		}
	case *types.Slice:
		return "([] : " + t.leanType(n, ty) + ")"
	case *types.Array:
		return fmt.Sprintf("(List.replicate %d %s)", u.Len(), t.zero(n, u.Elem()))
	case *types.Pointer:
		if _, ok := u.Elem().Underlying().(*types.Struct); ok {
			return "({} : " + t.leanType(n, ty) + ")" // a nil pointer to a struct is not distinguished from the zero struct
		}
		if _, ok := u.Elem().Underlying().(*types.Slice); ok {
			return "([] : " + t.leanType(n, ty) + ")"
		}
	case *types.Struct:
		return "({} : " + t.leanType(n, ty) + ")"
	case *types.Interface:
		if ty.String() == "error" {
			return "false"
		}
		return "()"
	}
	t.fail(n, "zero value of %s", ty)
	return ""
}

// simpleType: integers, booleans, strings and slices / arrays of them
func simpleType(ty types.Type) bool {
	if _, _, ok := intInfo(ty); ok {
		return true
	}
	switch u := ty.Underlying().(type) {
	case *types.Basic:
		return u.Kind() == types.Bool || u.Kind() == types.String
	case *types.Slice:
		return simpleType(u.Elem())
	case *types.Array:
		return simpleType(u.Elem())
	}
	return false
}

func pkgShort(p *types.Package) string { return p.Name() }

func (t *tr) structName(n *types.Named) string {
	return pkgShort(n.Obj().Pkg()) + "." + name(n.Obj().Name())
}

func (t *tr) funcName(f *types.Func) string {
	sig := f.Type().(*types.Signature)
	if sig.Recv() != nil {
		return t.structName(recvNamed(sig.Recv().Type())) + "." + name(f.Name())
	}
	return pkgShort(f.Pkg()) + "." + name(f.Name())
}

// ---------- structs ----------

func (t *tr) structDecl(n *types.Named) string {
	st := n.Underlying().(*types.Struct)
	var sb, ev strings.Builder
	sn := t.structName(n)
	hasFunc := false
	fmt.Fprintf(&ev, "inductive %s.Ev where\n", sn)
	fmt.Fprintf(&sb, "structure %s where\n", sn)
	for i := 0; i < st.NumFields(); i++ {
		f := st.Field(i)
		if sig, ok := f.Type().Underlying().(*types.Signature); ok {
			hasFunc = true
			fmt.Fprintf(&sb, "  %s_set : Bool := false\n", name(f.Name()))
			fmt.Fprintf(&ev, "  | %s", name(f.Name()))
			for j := 0; j < sig.Params().Len(); j++ {
				pt := sig.Params().At(j).Type()
				if pt.String() == "error" {
					continue
				}
				fmt.Fprintf(&ev, " (a%d : %s)", j, t.leanType(nil, pt))
			}
			ev.WriteString("\n")
			continue
		}
		if !t.usedFields[f] && !simpleType(f.Type()) {
			fmt.Fprintf(&sb, "  -- field %s : %s is not translated (no translated function mentions it)\n", f.Name(), f.Type())
			continue
		}
		ok := true
		func() {
			defer func() {
				if r := recover(); r != nil {
					if _, is := r.(unsupported); is {
						ok = false
						return
					}
					panic(r)
				}
			}()
			fmt.Fprintf(&sb, "  %s : %s := %s\n", name(f.Name()), t.leanType(nil, f.Type()), t.zero(nil, f.Type()))
		}()
		if !ok {
			fmt.Fprintf(&sb, "  -- field %s : %s is not translated (a function that touches it is rejected)\n", f.Name(), f.Type())
		}
	}
	if hasFunc {
		fmt.Fprintf(&sb, "  trace : List %s.Ev := []\n", sn)
		ev.WriteString("deriving Repr, DecidableEq\n\n")
	} else {
		ev.Reset()
	}
	sb.WriteString("deriving Repr\n\n")
	return ev.String() + sb.String()
}

// ---------- functions ----------

func (t *tr) funcDecl(f *types.Func) string {
	fd := t.funcs[f]
	t.p = t.fpkg[f]
	t.fn = f
	t.mon = t.monadic[f]
	t.tmp = 0
	sig := f.Type().(*types.Signature)
	t.results = sig.Results()
	t.recv, t.recvPtr = nil, false
	t.named = nil
	var params []string
	if sig.Recv() != nil {
		t.recv = sig.Recv()
		t.recvPtr = t.mutatesRecv(f)
		rn := name(t.recv.Name())
		if t.recv.Name() == "" || t.recv.Name() == "_" {
			rn = "self"
		}
		t.recvName = rn
		params = append(params, fmt.Sprintf("(%s : %s)", rn, t.leanType(fd, sig.Recv().Type())))
	}
	var muts []string
	t.outObjs = map[types.Object]bool{}
	t.outNames = nil
	var outTypes []string
	for _, i := range t.outParams(f) {
		t.outObjs[sig.Params().At(i)] = true
	}
	for i := 0; i < sig.Params().Len(); i++ {
		pv := sig.Params().At(i)
		pn := name(pv.Name())
		if pv.Name() == "" || pv.Name() == "_" {
			pn = fmt.Sprintf("x%d", i)
		}
		if t.outObjs[pv] {
			et := t.leanType(fd, pv.Type().Underlying().(*types.Pointer).Elem())
			params = append(params, fmt.Sprintf("(%s_nil : Bool) (%s : %s)", pn, pn, et))
			t.outNames = append(t.outNames, pn)
			outTypes = append(outTypes, et)
			continue
		}
		params = append(params, fmt.Sprintf("(%s : %s)", pn, t.leanType(fd, pv.Type())))
		muts = append(muts, pn)
	}
	var rts []string
	for i := 0; i < sig.Results().Len(); i++ {
		rv := sig.Results().At(i)
		rts = append(rts, t.leanType(fd, rv.Type()))
		if rv.Name() != "" && rv.Name() != "_" {
			t.named = append(t.named, name(rv.Name()))
		}
	}
	if len(t.named) != 0 && len(t.named) != sig.Results().Len() {
		t.fail(fd, "partly named results")
	}
	t.inoutNames = nil
	var inoutTypes []string
	for _, i := range t.inoutParams(f) {
		pv := sig.Params().At(i)
		t.inoutNames = append(t.inoutNames, name(pv.Name()))
		inoutTypes = append(inoutTypes, t.leanType(fd, pv.Type()))
	}
	if len(t.inoutNames) > 0 {
		if t.recvPtr {
			t.fail(fd, "in-out slice parameters on a receiver-mutating method")
		}
		rts = append(inoutTypes, rts...)
	}
	if len(outTypes) > 0 {
		if t.recvPtr || len(t.inoutNames) > 0 {
			t.fail(fd, "pointer parameters together with a written receiver or slice parameter")
		}
		rts = append(rts, outTypes...)
	}
	ret := "Unit"
	if len(rts) > 0 {
		ret = strings.Join(rts, " × ")
	}
	if t.recvPtr {
		rs := t.leanType(fd, sig.Recv().Type())
		if len(rts) > 0 {
			ret = rs + " × " + ret
		} else {
			ret = rs
		}
	}
	var sb strings.Builder
	pos := t.l.fset.Position(fd.Pos())
	fmt.Fprintf(&sb, "/-- `%s` (%s:%d) -/\n", f.FullName(), filepath.Base(pos.Filename), pos.Line)
	if t.mon {
		fmt.Fprintf(&sb, "def %s %s : Except String (%s) := do\n", t.funcName(f), strings.Join(params, " "), ret)
	} else {
		fmt.Fprintf(&sb, "def %s %s : %s := Id.run do\n", t.funcName(f), strings.Join(params, " "), ret)
	}
	// parameters and the receiver are assignable in Go
	if t.recv != nil {
		rn := name(t.recv.Name())
		fmt.Fprintf(&sb, "  let mut %s := %s\n", rn, rn)
	}
	for _, m := range muts {
		if assigned(fd.Body, m) {
			fmt.Fprintf(&sb, "  let mut %s := %s\n", m, m)
		}
	}
	for _, nm := range t.outNames {
		fmt.Fprintf(&sb, "  let mut %s := %s\n", nm, nm)
	}
	for i, nm := range t.named {
		fmt.Fprintf(&sb, "  let mut %s := %s\n", nm, t.zero(fd, sig.Results().At(i).Type()))
	}
	t.block(&sb, fd.Body.List, "  ")
	// falling off the end
	if !endsInReturn(fd.Body.List) {
		if sig.Results().Len() == 0 || len(t.named) > 0 {
			fmt.Fprintf(&sb, "  %s\n", t.returnStmt(nil, nil))
		} else {
			t.fail(fd, "function may fall off its end")
		}
	}
	return sb.String()
}

func assigned(body *ast.BlockStmt, nm string) bool {
	found := false
	ast.Inspect(body, func(n ast.Node) bool {
		switch x := n.(type) {
		case *ast.AssignStmt:
			for _, l := range x.Lhs {
				if id, ok := l.(*ast.Ident); ok && name(id.Name) == nm && x.Tok != token.DEFINE {
					found = true
				}
				if ix, ok := l.(*ast.IndexExpr); ok {
					if id, ok := ix.X.(*ast.Ident); ok && name(id.Name) == nm {
						found = true
					}
				}
			}
		case *ast.IncDecStmt:
			if id, ok := x.X.(*ast.Ident); ok && name(id.Name) == nm {
				found = true
			}
		}
		return true
	})
	return found
}

func endsInReturn(l []ast.Stmt) bool {
	if len(l) == 0 {
		return false
	}
	switch s := l[len(l)-1].(type) {
	case *ast.ReturnStmt:
		return true
	case *ast.ExprStmt:
		if c, ok := s.X.(*ast.CallExpr); ok {
			if id, ok := c.Fun.(*ast.Ident); ok && id.Name == "panic" {
				return true
			}
		}
	case *ast.IfStmt:
		if s.Else == nil {
			return false
		}
		e := false
		switch x := s.Else.(type) {
		case *ast.BlockStmt:
			e = endsInReturn(x.List)
		case *ast.IfStmt:
			e = endsInReturn([]ast.Stmt{x})
		}
		return endsInReturn(s.Body.List) && e
	case *ast.SwitchStmt:
		hasDefault := false
		for _, c := range s.Body.List {
			cc := c.(*ast.CaseClause)
			if cc.List == nil {
				hasDefault = true
			}
			if !endsInReturn(cc.Body) {
				return false
			}
		}
		return hasDefault
	case *ast.BlockStmt:
		return endsInReturn(s.List)
	}
	return false
}

func (t *tr) returnStmt(n *ast.ReturnStmt, vals []string) string {
	if n == nil || len(n.Results) == 0 {
		vals = append([]string{}, t.named...)
	}
	if len(t.inoutNames) > 0 {
		vals = append(append([]string{}, t.inoutNames...), vals...)
	}
	if len(t.outNames) > 0 {
		vals = append(append([]string{}, vals...), t.outNames...)
	}
	if t.recvPtr {
		vals = append([]string{t.recvName}, vals...)
	}
	switch len(vals) {
	case 0:
		return "return ()"
	case 1:
		return "return " + vals[0]
	}
	return "return (" + strings.Join(vals, ", ") + ")"
}

func (t *tr) fresh(prefix string) string {
	t.tmp++
	return fmt.Sprintf("%s%d", prefix, t.tmp)
}

// ---------- statements ----------

func (t *tr) block(sb *strings.Builder, l []ast.Stmt, ind string) {
	n := 0
	for _, s := range l {
		if t.stmt(sb, s, ind) {
			n++
		}
	}
	if n == 0 {
		fmt.Fprintf(sb, "%spure ()\n", ind)
	}
}

func (t *tr) isRecv(e ast.Expr) bool {
	id, ok := e.(*ast.Ident)
	return ok && t.recv != nil && t.p.info.Uses[id] == types.Object(t.recv)
}

// structVar: e is an identifier of (pointer to) struct type that we keep as a mutable value
func (t *tr) structVar(e ast.Expr) (string, bool) {
	id, ok := e.(*ast.Ident)
	if !ok {
		return "", false
	}
	tv, ok := t.p.info.Types[e]
	if !ok {
		return "", false
	}
	if n := recvNamed(tv.Type); n != nil {
		if _, ok := n.Underlying().(*types.Struct); ok {
			return name(id.Name), true
		}
	}
	return "", false
}

// outParams: indices of the parameters of pointer type whose pointee is not a struct (`channel *uint8`, `bt *[]byte`):
// results handed out through the caller's variables. Such a parameter becomes two (`<p>_nil : Bool`, `<p> : T`, the
// pointee's value on entry) and the final pointee values are appended to the function's results; `p != nil` reads the
// flag, `*p = v` assigns, a call site passes `nil`, `&local` or one of its own such parameters and re-binds afterwards.
func (t *tr) outParams(f *types.Func) []int {
	if t.funcs[f] == nil {
		return nil
	}
	sig := f.Type().(*types.Signature)
	var out []int
	for i := 0; i < sig.Params().Len(); i++ {
		if pt, ok := sig.Params().At(i).Type().Underlying().(*types.Pointer); ok {
			if _, isStruct := pt.Elem().Underlying().(*types.Struct); !isStruct {
				out = append(out, i)
			}
		}
	}
	return out
}

// outArg: how an argument for a pointer out-parameter is passed (flag, value) and which variable to re-bind ("" = none)
func (t *tr) outArg(a ast.Expr, elem types.Type) (flag, val, rebind string) {
	switch x := a.(type) {
	case *ast.Ident:
		if x.Name == "nil" {
			return "true", t.zero(a, elem), ""
		}
		if o := t.p.info.Uses[x]; o != nil && t.outObjs[o] {
			return name(x.Name) + "_nil", name(x.Name), name(x.Name)
		}
	case *ast.UnaryExpr:
		if x.Op == token.AND {
			if id, ok := x.X.(*ast.Ident); ok {
				if o := t.p.info.Uses[id]; o != nil && t.env != nil && t.env[o] {
					t.fail(a, "address of a captured variable")
				}
				return "false", name(id.Name), name(id.Name)
			}
		}
	}
	t.fail(a, "argument %s for a pointer parameter (nil, &variable or a pointer parameter of the caller are supported)", exprString(a))
	return "", "", ""
}

// outCall: emits the call of a function with pointer out-parameters and the re-binding of the variables it writes;
// returns the temporary holding the results and the number of ordinary results
func (t *tr) outCall(sb *strings.Builder, c *ast.CallExpr, g *types.Func, ind string) (tmp string, nres int) {
	sig := g.Type().(*types.Signature)
	if t.mutatesRecv(g) || len(t.inoutParams(g)) > 0 {
		t.fail(c, "pointer parameters together with a written receiver or slice parameter")
	}
	isOut := map[int]bool{}
	for _, i := range t.outParams(g) {
		isOut[i] = true
	}
	var args []string
	if sig.Recv() != nil {
		args = append(args, t.atom(c.Fun.(*ast.SelectorExpr).X))
	}
	var rebinds []string
	for i, a := range c.Args {
		if isOut[i] {
			fl, v, rb := t.outArg(a, sig.Params().At(i).Type().Underlying().(*types.Pointer).Elem())
			args = append(args, fl, v)
			rebinds = append(rebinds, rb)
			continue
		}
		args = append(args, t.atom(a))
	}
	tmp = t.fresh("res")
	nres = sig.Results().Len()
	total := nres + len(rebinds)
	arrow := ":="
	if t.monadic[g] {
		arrow = "←"
	}
	fmt.Fprintf(sb, "%slet %s %s %s %s\n", ind, tmp, arrow, t.funcName(g), strings.Join(args, " "))
	for k, rb := range rebinds {
		if rb != "" {
			fmt.Fprintf(sb, "%s%s := %s\n", ind, rb, proj(tmp, nres+k, total))
		}
	}
	return tmp, nres
}

// hoistOutCall: a call with pointer out-parameters inside a condition is evaluated before the `if` — sound only for the
// leftmost operand (through !, &&, ||, parentheses): it is evaluated first and unconditionally
func (t *tr) hoistOutCall(sb *strings.Builder, cond ast.Expr, ind string) {
	e := cond
	for {
		switch x := e.(type) {
		case *ast.ParenExpr:
			e = x.X
			continue
		case *ast.UnaryExpr:
			if x.Op == token.NOT {
				e = x.X
				continue
			}
		case *ast.BinaryExpr:
			if x.Op == token.LAND || x.Op == token.LOR {
				e = x.X
				continue
			}
		}
		break
	}
	c, ok := e.(*ast.CallExpr)
	if !ok {
		return
	}
	g := t.callee(t.p, c)
	if g == nil || len(t.outParams(g)) == 0 {
		return
	}
	tmp, nres := t.outCall(sb, c, g, ind)
	if nres != 1 {
		t.fail(c, "call with pointer parameters and %d results inside a condition", nres)
	}
	if t.hoisted == nil {
		t.hoisted = map[*ast.CallExpr]string{}
	}
	t.hoisted[c] = proj(tmp, 0, 1+len(t.outParams(g)))
}

// selPath: the Lean projection path of a field or method selection, spelling out the embedded fields a promoted name
// goes through (`r.status` with `status` promoted from the embedded `reader` is `reader.status`); the last element
// is the selected name itself
func (t *tr) selPath(x *ast.SelectorExpr) []string {
	s, ok := t.p.info.Selections[x]
	if !ok || len(s.Index()) < 2 {
		return []string{name(x.Sel.Name)}
	}
	ty := s.Recv()
	var path []string
	for _, i := range s.Index()[:len(s.Index())-1] {
		if p, ok := ty.Underlying().(*types.Pointer); ok {
			ty = p.Elem()
		}
		st, ok := ty.Underlying().(*types.Struct)
		if !ok {
			t.fail(x, "promoted selection through %s", ty)
		}
		f := st.Field(i)
		path = append(path, name(f.Name()))
		ty = f.Type()
	}
	return append(path, name(x.Sel.Name))
}

func (t *tr) assignTo(sb *strings.Builder, lhs ast.Expr, val string, define bool, ind string, n ast.Node) {
	switch x := lhs.(type) {
	case *ast.Ident:
		if x.Name == "_" {
			fmt.Fprintf(sb, "%slet _ := %s\n", ind, val)
			return
		}
		if o := t.p.info.Uses[x]; o != nil && t.env[o] {
			fmt.Fprintf(sb, "%senv := { env with %s := %s }\n", ind, name(x.Name), val)
			return
		}
		if define && t.p.info.Defs[x] != nil {
			fmt.Fprintf(sb, "%slet mut %s := %s\n", ind, name(x.Name), val)
		} else {
			fmt.Fprintf(sb, "%s%s := %s\n", ind, name(x.Name), val)
		}
	case *ast.SelectorExpr:
		if sv, ok := t.structVar(x.X); ok {
			fmt.Fprintf(sb, "%s%s := { %s with %s := %s }\n", ind, sv, sv, strings.Join(t.selPath(x), "."), val)
			return
		}
		t.fail(n, "assignment to %s", exprString(lhs))
	case *ast.StarExpr:
		if id, ok := x.X.(*ast.Ident); ok && t.recv != nil && t.p.info.Uses[id] == types.Object(t.recv) {
			fmt.Fprintf(sb, "%s%s := %s\n", ind, name(id.Name), val)
			return
		}
		if id, ok := x.X.(*ast.Ident); ok {
			if o := t.p.info.Uses[id]; o != nil && t.outObjs[o] {
				fmt.Fprintf(sb, "%sif %s_nil = true then throw \"nil pointer dereference\"\n", ind, name(id.Name))
				fmt.Fprintf(sb, "%s%s := %s\n", ind, name(id.Name), val)
				return
			}
		}
		t.fail(n, "assignment through %s", exprString(lhs))
	case *ast.IndexExpr:
		idx := t.toInt(x.Index)
		switch b := x.X.(type) {
		case *ast.Ident:
			fmt.Fprintf(sb, "%s%s ← Go.setIdx %s %s %s\n", ind, name(b.Name), name(b.Name), idx, val)
			return
		case *ast.SelectorExpr:
			if sv, ok := t.structVar(b.X); ok {
				tmp := t.fresh("upd")
				fmt.Fprintf(sb, "%slet %s ← Go.setIdx %s.%s %s %s\n", ind, tmp, sv, name(b.Sel.Name), idx, val)
				fmt.Fprintf(sb, "%s%s := { %s with %s := %s }\n", ind, sv, sv, name(b.Sel.Name), tmp)
				return
			}
		}
		t.fail(n, "indexed assignment to %s", exprString(lhs))
	default:
		t.fail(n, "assignment to %s", exprString(lhs))
	}
}

func exprString(e ast.Expr) string { return types.ExprString(e) }

var opOfAssign = map[token.Token]token.Token{token.ADD_ASSIGN: token.ADD, token.SUB_ASSIGN: token.SUB, token.MUL_ASSIGN: token.MUL, token.QUO_ASSIGN: token.QUO,
	token.REM_ASSIGN: token.REM, token.AND_ASSIGN: token.AND, token.OR_ASSIGN: token.OR, token.XOR_ASSIGN: token.XOR, token.SHL_ASSIGN: token.SHL,
	token.SHR_ASSIGN: token.SHR, token.AND_NOT_ASSIGN: token.AND_NOT}

// stmt returns false when nothing was emitted
func (t *tr) stmt(sb *strings.Builder, s ast.Stmt, ind string) bool {
	switch x := s.(type) {
	case *ast.EmptyStmt:
		return false
	case *ast.AssignStmt:
		if op, ok := opOfAssign[x.Tok]; ok {
			if len(x.Lhs) != 1 {
				t.fail(s, "op-assignment")
			}
			ty := t.p.info.Types[x.Lhs[0]].Type
			v := t.binary(s, op, t.expr(x.Lhs[0]), t.operand(x.Rhs[0], op), ty, t.p.info.Types[x.Rhs[0]].Type)
			t.assignTo(sb, x.Lhs[0], v, false, ind, s)
			return true
		}
		define := x.Tok == token.DEFINE
		if len(x.Lhs) == len(x.Rhs) {
			if len(x.Lhs) == 1 {
				if c, ok := x.Rhs[0].(*ast.CallExpr); ok {
					if t.callStmt(sb, c, x.Lhs, define, ind) {
						return true
					}
				}
				t.assignTo(sb, x.Lhs[0], t.expr(x.Rhs[0]), define, ind, s)
				return true
			}
			// parallel assignment: evaluate all, then assign
			var tmps []string
			for _, r := range x.Rhs {
				tmp := t.fresh("par")
				fmt.Fprintf(sb, "%slet %s := %s\n", ind, tmp, t.expr(r))
				tmps = append(tmps, tmp)
			}
			for i, l := range x.Lhs {
				t.assignTo(sb, l, tmps[i], define, ind, s)
			}
			return true
		}
		if len(x.Rhs) == 1 {
			if c, ok := x.Rhs[0].(*ast.CallExpr); ok && t.callStmt(sb, c, x.Lhs, define, ind) {
				return true
			}
			// v, ok := m[k] on a package-level constant map
			if ix, ok := x.Rhs[0].(*ast.IndexExpr); ok && len(x.Lhs) == 2 {
				if mv := t.pkgMap(ix.X); mv != nil {
					mt := mv.Type().Underlying().(*types.Map)
					tmp := t.fresh("look")
					fmt.Fprintf(sb, "%slet %s := %s %s\n", ind, tmp, t.mapVar(s, mv), t.atom(ix.Index))
					t.assignTo(sb, x.Lhs[0], fmt.Sprintf("(%s.getD %s)", tmp, t.zero(s, mt.Elem())), define, ind, s)
					t.assignTo(sb, x.Lhs[1], tmp+".isSome", define, ind, s)
					return true
				}
			}
		}
		t.fail(s, "assignment form")
	case *ast.IncDecStmt:
		op := token.ADD
		if x.Tok == token.DEC {
			op = token.SUB
		}
		ty := t.p.info.Types[x.X].Type
		one := "1"
		v := t.binary(s, op, t.expr(x.X), one, ty, ty)
		t.assignTo(sb, x.X, v, false, ind, s)
		return true
	case *ast.ExprStmt:
		c, ok := x.X.(*ast.CallExpr)
		if !ok {
			t.fail(s, "expression statement")
		}
		if !t.callStmt(sb, c, nil, false, ind) {
			t.fail(s, "call %s", exprString(c.Fun))
		}
		return true
	case *ast.ReturnStmt:
		var vals []string
		if len(x.Results) == 1 {
			// return f(p, &x, nil): a call with pointer out-parameters
			if c, ok := x.Results[0].(*ast.CallExpr); ok {
				if g := t.callee(t.p, c); g != nil && t.funcs[g] != nil && len(t.outParams(g)) > 0 {
					tmp, nres := t.outCall(sb, c, g, ind)
					total := nres + len(t.outParams(g))
					for i := 0; i < nres; i++ {
						vals = append(vals, proj(tmp, i, total))
					}
					fmt.Fprintf(sb, "%s%s\n", ind, t.returnStmt(x, vals))
					return true
				}
			}
			// return recv.m(args) with a method that writes to its receiver (possibly promoted from an embedded struct)
			if c, ok := x.Results[0].(*ast.CallExpr); ok {
				if g := t.callee(t.p, c); g != nil && t.funcs[g] != nil && g.Type().(*types.Signature).Recv() != nil && t.mutatesRecv(g) {
					sel, isSel := c.Fun.(*ast.SelectorExpr)
					if !isSel {
						t.fail(c, "method value")
					}
					sv, ok := t.structVar(sel.X)
					if !ok {
						t.fail(c, "method call on %s", exprString(sel.X))
					}
					path := t.selPath(sel)
					path = path[:len(path)-1]
					recv := sv
					if len(path) > 0 {
						recv = sv + "." + strings.Join(path, ".")
					}
					args := []string{recv}
					for _, a := range c.Args {
						args = append(args, t.atom(a))
					}
					nres := g.Type().(*types.Signature).Results().Len()
					tmp := t.fresh("res")
					fmt.Fprintf(sb, "%slet %s ← %s %s\n", ind, tmp, t.funcName(g), strings.Join(args, " "))
					back := tmp
					if nres > 0 {
						back = tmp + ".1"
					}
					if len(path) > 0 {
						fmt.Fprintf(sb, "%s%s := { %s with %s := %s }\n", ind, sv, sv, strings.Join(path, "."), back)
					} else {
						fmt.Fprintf(sb, "%s%s := %s\n", ind, sv, back)
					}
					for i := 0; i < nres; i++ {
						vals = append(vals, proj(tmp+".2", i, nres))
					}
					fmt.Fprintf(sb, "%s%s\n", ind, t.returnStmt(x, vals))
					return true
				}
			}
		}
		if len(x.Results) == 1 && t.results.Len() > 1 {
			// return f() with several results
			tmp := t.fresh("ret")
			fmt.Fprintf(sb, "%slet %s := %s\n", ind, tmp, t.expr(x.Results[0]))
			vals = []string{tmp}
			if t.recvPtr {
				fmt.Fprintf(sb, "%sreturn (%s, %s)\n", ind, t.recvName, tmp)
				return true
			}
		} else {
			for i, r := range x.Results {
				if id, ok := r.(*ast.Ident); ok && id.Name == "nil" && i < t.results.Len() {
					vals = append(vals, t.zero(r, t.results.At(i).Type())) // nil of the result's type
					continue
				}
				vals = append(vals, t.expr(r))
			}
		}
		fmt.Fprintf(sb, "%s%s\n", ind, t.returnStmt(x, vals))
		return true
	case *ast.IfStmt:
		if x.Init != nil {
			fmt.Fprintf(sb, "%sdo\n", ind)
			ind2 := ind + "  "
			t.stmt(sb, x.Init, ind2)
			t.ifStmt(sb, x, ind2)
			return true
		}
		t.ifStmt(sb, x, ind)
		return true
	case *ast.BlockStmt:
		fmt.Fprintf(sb, "%sdo\n", ind)
		t.block(sb, x.List, ind+"  ")
		return true
	case *ast.SwitchStmt:
		t.switchStmt(sb, x, ind)
		return true
	case *ast.DeclStmt:
		gd, ok := x.Decl.(*ast.GenDecl)
		if !ok || gd.Tok == token.TYPE {
			t.fail(s, "declaration")
		}
		if gd.Tok == token.CONST {
			return false // constants are folded where they are used
		}
		for _, sp := range gd.Specs {
			vs := sp.(*ast.ValueSpec)
			if len(vs.Names) > 1 && len(vs.Values) == 1 {
				// var a, b = f()
				if c, ok := vs.Values[0].(*ast.CallExpr); ok {
					var lhs []ast.Expr
					for _, id := range vs.Names {
						lhs = append(lhs, id)
					}
					if t.callStmt(sb, c, lhs, true, ind) {
						continue
					}
				}
				t.fail(s, "var declaration form")
			}
			for i, id := range vs.Names {
				obj := t.p.info.Defs[id]
				if id.Name == "_" {
					continue
				}
				val := ""
				if i < len(vs.Values) {
					val = t.expr(vs.Values[i])
				} else if len(vs.Values) == 0 {
					val = t.zero(s, obj.Type())
				} else {
					t.fail(s, "var declaration form")
				}
				fmt.Fprintf(sb, "%slet mut %s : %s := %s\n", ind, name(id.Name), t.leanType(s, obj.Type()), val)
			}
		}
		return true
	case *ast.RangeStmt:
		tv := t.p.info.Types[x.X]
		if _, ok := tv.Type.Underlying().(*types.Slice); !ok {
			t.fail(s, "range over %s", tv.Type)
		}
		if x.Key != nil {
			if id, ok := x.Key.(*ast.Ident); !ok || id.Name != "_" {
				t.fail(s, "range with an index variable")
			}
		}
		v := "_"
		if x.Value != nil {
			v = name(x.Value.(*ast.Ident).Name)
		}
		if hasBreakContinue(x.Body) {
			t.fail(s, "break/continue in a loop")
		}
		fmt.Fprintf(sb, "%sfor %s in %s do\n", ind, v, t.expr(x.X))
		t.block(sb, x.Body.List, ind+"  ")
		return true
	case *ast.ForStmt:
		t.forStmt(sb, x, ind)
		return true
	}
	t.fail(s, "statement %T", s)
	return false
}

func hasBreakContinue(b *ast.BlockStmt) bool {
	found := false
	ast.Inspect(b, func(n ast.Node) bool {
		if _, ok := n.(*ast.BranchStmt); ok {
			found = true
		}
		return true
	})
	return found
}

// generalFor: `for init; cond; post { body }` with an arbitrary condition: at most Go.loopFuel iterations, then the
// translation gives up with a throw (so that "returns normally" is never claimed for a loop that did not finish)
func (t *tr) generalFor(sb *strings.Builder, x *ast.ForStmt, ind string) {
	if x.Cond == nil {
		t.fail(x, "for loop without a condition")
	}
	if hasBreakContinue(x.Body) {
		t.fail(x, "break/continue in a loop")
	}
	if !t.mon {
		t.fail(x, "general loop in a function that is not monadic")
	}
	fmt.Fprintf(sb, "%sdo\n", ind)
	in2 := ind + "  "
	if x.Init != nil {
		t.stmt(sb, x.Init, in2)
	}
	fmt.Fprintf(sb, "%sfor _ in [0:Go.loopFuel] do\n", in2)
	fmt.Fprintf(sb, "%s  if ¬(%s) then break\n", in2, t.cond(x.Cond))
	t.block(sb, x.Body.List, in2+"  ")
	if x.Post != nil {
		t.stmt(sb, x.Post, in2+"  ")
	}
	fmt.Fprintf(sb, "%sif %s then throw \"go2lean: loop fuel exhausted\"\n", in2, t.cond(x.Cond))
}

func (t *tr) forStmt(sb *strings.Builder, x *ast.ForStmt, ind string) {
	// for i := a; i < b; i++ { body }   (body assigns neither i nor the variables of b)
	init, ok1 := x.Init.(*ast.AssignStmt)
	cond, ok2 := x.Cond.(*ast.BinaryExpr)
	post, ok3 := x.Post.(*ast.IncDecStmt)
	if !ok1 || !ok2 || !ok3 || init.Tok != token.DEFINE || len(init.Lhs) != 1 || cond.Op != token.LSS || post.Tok != token.INC {
		t.generalFor(sb, x, ind)
		return
	}
	iv := init.Lhs[0].(*ast.Ident)
	if c, ok := cond.X.(*ast.Ident); !ok || c.Name != iv.Name {
		t.fail(x, "for loop condition")
	}
	if p, ok := post.X.(*ast.Ident); !ok || p.Name != iv.Name {
		t.fail(x, "for loop post statement")
	}
	if assigned(x.Body, name(iv.Name)) {
		t.generalFor(sb, x, ind)
		return
	}
	if hasBreakContinue(x.Body) {
		t.fail(x, "for loop body leaves the loop")
	}
	ast.Inspect(cond.Y, func(n ast.Node) bool {
		if id, ok := n.(*ast.Ident); ok && assigned(x.Body, name(id.Name)) {
			t.fail(x, "for loop bound changes in the body")
		}
		if _, ok := n.(*ast.CallExpr); ok {
			if c := n.(*ast.CallExpr); !isBuiltin(c, "len") {
				t.fail(x, "for loop bound with a call")
			}
		}
		return true
	})
	_, signed, _ := intInfo(t.p.info.Defs[iv].Type())
	lo, hi := t.expr(init.Rhs[0]), t.expr(cond.Y)
	k := t.fresh("k")
	if signed {
		fmt.Fprintf(sb, "%sfor %s in [0:(%s - %s).toNat] do\n", ind, k, hi, lo)
		fmt.Fprintf(sb, "%s  let %s : Int := %s + (%s : Int)\n", ind, name(iv.Name), lo, k)
	} else {
		fmt.Fprintf(sb, "%sfor %s in [0:(%s - %s)] do\n", ind, k, hi, lo)
		fmt.Fprintf(sb, "%s  let %s : Nat := %s + %s\n", ind, name(iv.Name), lo, k)
	}
	t.block(sb, x.Body.List, ind+"  ")
}

// countingLoop: the syntactic shape `for i := a; i < b; i++` (the body conditions are checked when it is translated)
func countingLoop(x *ast.ForStmt) bool {
	init, ok1 := x.Init.(*ast.AssignStmt)
	cond, ok2 := x.Cond.(*ast.BinaryExpr)
	post, ok3 := x.Post.(*ast.IncDecStmt)
	if !ok1 || !ok2 || !ok3 || init.Tok != token.DEFINE || len(init.Lhs) != 1 || cond.Op != token.LSS || post.Tok != token.INC {
		return false
	}
	iv, ok := init.Lhs[0].(*ast.Ident)
	return ok && !assigned(x.Body, name(iv.Name))
}

func isBuiltin(c *ast.CallExpr, nm string) bool {
	id, ok := c.Fun.(*ast.Ident)
	return ok && id.Name == nm
}

func (t *tr) ifStmt(sb *strings.Builder, x *ast.IfStmt, ind string) {
	t.hoistOutCall(sb, x.Cond, ind)
	fmt.Fprintf(sb, "%sif %s then\n", ind, t.cond(x.Cond))
	t.block(sb, x.Body.List, ind+"  ")
	switch e := x.Else.(type) {
	case nil:
	case *ast.BlockStmt:
		fmt.Fprintf(sb, "%selse\n", ind)
		t.block(sb, e.List, ind+"  ")
	case *ast.IfStmt:
		fmt.Fprintf(sb, "%selse\n", ind)
		if e.Init != nil {
			t.stmt(sb, e, ind+"  ")
		} else {
			t.ifStmt(sb, e, ind+"  ")
		}
	}
}

func (t *tr) switchStmt(sb *strings.Builder, x *ast.SwitchStmt, ind string) {
	if x.Init != nil {
		fmt.Fprintf(sb, "%sdo\n", ind)
		ind += "  "
		t.stmt(sb, x.Init, ind)
	}
	tag := ""
	if x.Tag != nil {
		tag = t.fresh("tag")
		fmt.Fprintf(sb, "%slet %s := %s\n", ind, tag, t.expr(x.Tag))
	}
	var def *ast.CaseClause
	var cases []*ast.CaseClause
	for _, c := range x.Body.List {
		cc := c.(*ast.CaseClause)
		for _, s := range cc.Body {
			if b, ok := s.(*ast.BranchStmt); ok {
				t.fail(b, "%s in a switch", b.Tok)
			}
		}
		if hasBreakContinueStmts(cc.Body) {
			t.fail(cc, "break / fallthrough in a switch")
		}
		if cc.List == nil {
			def = cc
		} else {
			cases = append(cases, cc)
		}
	}
	cur := ind
	for i, cc := range cases {
		var cs []string
		kw := "if"
		if i > 0 {
			fmt.Fprintf(sb, "%selse\n", cur)
			cur += "  "
		}
		if x.Tag == nil && len(cc.List) == 1 {
			t.hoistOutCall(sb, cc.List[0], cur)
		}
		for _, e := range cc.List {
			if x.Tag != nil {
				cs = append(cs, fmt.Sprintf("%s = %s", tag, t.expr(e)))
			} else {
				cs = append(cs, t.cond(e))
			}
		}
		fmt.Fprintf(sb, "%s%s %s then\n", cur, kw, strings.Join(cs, " ∨ "))
		t.block(sb, cc.Body, cur+"  ")
	}
	if def != nil {
		if len(cases) > 0 {
			fmt.Fprintf(sb, "%selse\n", cur)
			t.block(sb, def.Body, cur+"  ")
		} else {
			t.block(sb, def.Body, cur)
		}
	}
}

func hasBreakContinueStmts(l []ast.Stmt) bool {
	found := false
	for _, s := range l {
		ast.Inspect(s, func(n ast.Node) bool {
			switch y := n.(type) {
			case *ast.ForStmt, *ast.RangeStmt, *ast.SwitchStmt, *ast.FuncLit:
				return false
			case *ast.BranchStmt:
				_ = y
				found = true
			}
			return true
		})
	}
	return found
}

// callStmt translates a call used as a statement or as the only right-hand side of an assignment; false = not a form
// handled here (the caller falls back to the expression translation)
func (t *tr) callStmt(sb *strings.Builder, c *ast.CallExpr, lhs []ast.Expr, define bool, ind string) bool {
	// panic
	if id, ok := c.Fun.(*ast.Ident); ok && id.Name == "panic" {
		if _, isB := t.p.info.Uses[id].(*types.Builtin); isB {
			fmt.Fprintf(sb, "%sthrow \"panic\"\n", ind)
			return true
		}
	}
	// call of a captured function value: an event in the environment's trace
	if id, ok := c.Fun.(*ast.Ident); ok {
		if o := t.p.info.Uses[id]; o != nil && t.envFuncs[o] != nil {
			sig := t.envFuncs[o]
			if lhs != nil {
				t.fail(c, "result of a captured function")
			}
			var args []string
			for j, a := range c.Args {
				if sig.Params().At(j).Type().String() == "error" {
					continue
				}
				args = append(args, t.atom(a))
			}
			ev := fmt.Sprintf("%s.Ev.%s", t.closureBase, name(id.Name))
			if len(args) > 0 {
				ev = "(" + ev + " " + strings.Join(args, " ") + ")"
			}
			fmt.Fprintf(sb, "%senv := { env with trace := env.trace ++ [%s] }\n", ind, ev)
			return true
		}
	}
	// immediately applied function literal: inlined
	if fl, ok := c.Fun.(*ast.FuncLit); ok {
		if lhs != nil || fl.Type.Results != nil && len(fl.Type.Results.List) > 0 {
			t.fail(c, "function literal with results")
		}
		hasRet := false
		ast.Inspect(fl.Body, func(n ast.Node) bool {
			if _, ok := n.(*ast.ReturnStmt); ok {
				hasRet = true
			}
			return true
		})
		if hasRet {
			t.fail(c, "return inside an inlined function literal")
		}
		fmt.Fprintf(sb, "%sdo\n", ind)
		i := 0
		for _, f := range fl.Type.Params.List {
			for _, nm := range f.Names {
				kw := "let"
				if assigned(fl.Body, name(nm.Name)) {
					kw = "let mut"
				}
				fmt.Fprintf(sb, "%s  %s %s := %s\n", ind, kw, name(nm.Name), t.expr(c.Args[i]))
				i++
			}
		}
		t.block(sb, fl.Body.List, ind+"  ")
		return true
	}
	// bytes.Buffer: WriteByte / Write on a local buffer
	if sel0, ok := c.Fun.(*ast.SelectorExpr); ok {
		if id, ok := sel0.X.(*ast.Ident); ok {
			if tv, ok := t.p.info.Types[id]; ok && isBytesBuffer(tv.Type) && lhs == nil {
				switch sel0.Sel.Name {
				case "WriteByte":
					fmt.Fprintf(sb, "%s%s := %s ++ [%s]\n", ind, name(id.Name), name(id.Name), t.expr(c.Args[0]))
					return true
				case "Write":
					fmt.Fprintf(sb, "%s%s := %s ++ %s\n", ind, name(id.Name), name(id.Name), t.atom(c.Args[0]))
					return true
				case "Reset":
					fmt.Fprintf(sb, "%s%s := []\n", ind, name(id.Name))
					return true
				}
				t.fail(c, "bytes.Buffer method %s", sel0.Sel.Name)
			}
		}
	}
	// binary.Write(&bf, binary.BigEndian, x) into a local bytes.Buffer, x of an unsigned 16- or 32-bit type
	if exprString(c.Fun) == "binary.Write" && lhs == nil && len(c.Args) == 3 && exprString(c.Args[1]) == "binary.BigEndian" {
		if u, ok := c.Args[0].(*ast.UnaryExpr); ok && u.Op == token.AND {
			if id, ok := u.X.(*ast.Ident); ok {
				if tv0, ok := t.p.info.Types[id]; ok && isBytesBuffer(tv0.Type) {
					bits, signed, isInt := intInfo(t.p.info.Types[c.Args[2]].Type)
					if isInt && signed && bits == 32 {
						v := "(Go.toU 32 " + t.atom(c.Args[2]) + ")"
						fmt.Fprintf(sb, "%s%s := %s ++ [%s / 16777216 %% 256, %s / 65536 %% 256, %s / 256 %% 256, %s %% 256]\n", ind, name(id.Name), name(id.Name), v, v, v, v)
						return true
					}
					if isInt && !signed && (bits == 16 || bits == 32) {
						v := t.atom(c.Args[2])
						if bits == 16 {
							fmt.Fprintf(sb, "%s%s := %s ++ [%s / 256 %% 256, %s %% 256]\n", ind, name(id.Name), name(id.Name), v, v)
						} else {
							fmt.Fprintf(sb, "%s%s := %s ++ [%s / 16777216 %% 256, %s / 65536 %% 256, %s / 256 %% 256, %s %% 256]\n", ind, name(id.Name), name(id.Name), v, v, v, v)
						}
						return true
					}
				}
			}
		}
	}
	// encoding/binary big-endian stores into a local slice
	if fn := exprString(c.Fun); (fn == "binary.BigEndian.PutUint16" || fn == "binary.BigEndian.PutUint32") && lhs == nil && len(c.Args) == 2 {
		if id, ok := c.Args[0].(*ast.Ident); ok {
			helper := map[string]string{"binary.BigEndian.PutUint16": "Go.putU16BE", "binary.BigEndian.PutUint32": "Go.putU32BE"}[fn]
			fmt.Fprintf(sb, "%s%s ← %s %s %s\n", ind, name(id.Name), helper, name(id.Name), t.atom(c.Args[1]))
			return true
		}
	}
	sel, isSel := c.Fun.(*ast.SelectorExpr)
	// call of a func-typed field: an event in the trace
	if isSel {
		if s, ok := t.p.info.Selections[sel]; ok && s.Kind() == types.FieldVal {
			if sig, ok := s.Type().Underlying().(*types.Signature); ok {
				sv, ok := t.structVar(sel.X)
				if !ok {
					t.fail(c, "call of a function field of %s", exprString(sel.X))
				}
				if lhs != nil {
					t.fail(c, "result of a function field")
				}
				var args []string
				for j, a := range c.Args {
					if sig.Params().At(j).Type().String() == "error" {
						continue
					}
					args = append(args, t.atom(a))
				}
				st := t.structName(recvNamed(t.p.info.Types[sel.X].Type))
				ev := fmt.Sprintf("%s.Ev.%s", st, name(sel.Sel.Name))
				if len(args) > 0 {
					ev = "(" + ev + " " + strings.Join(args, " ") + ")"
				}
				fmt.Fprintf(sb, "%s%s := { %s with trace := %s.trace ++ [%s] }\n", ind, sv, sv, sv, ev)
				return true
			}
		}
	}
	g := t.callee(t.p, c)
	if g != nil {
		for _, oq := range t.sp.Opaque {
			if g.FullName() == oq {
				// an uninterpreted function: its value, taken apart when there are several results
				ex := t.expr(c)
				nres := g.Type().(*types.Signature).Results().Len()
				switch {
				case lhs == nil:
					fmt.Fprintf(sb, "%slet _ := %s\n", ind, ex)
				case len(lhs) == 1:
					t.assignTo(sb, lhs[0], ex, define, ind, c)
				default:
					if len(lhs) != nres {
						t.fail(c, "call with %d results assigned to %d", nres, len(lhs))
					}
					tmp := t.fresh("res")
					fmt.Fprintf(sb, "%slet %s := %s\n", ind, tmp, ex)
					for i, l := range lhs {
						t.assignTo(sb, l, proj(tmp, i, nres), define, ind, c)
					}
				}
				return true
			}
		}
	}
	if g == nil || t.funcs[g] == nil {
		return false
	}
	sig := g.Type().(*types.Signature)
	if len(t.outParams(g)) > 0 {
		tmp, nres := t.outCall(sb, c, g, ind)
		total := nres + len(t.outParams(g))
		if lhs != nil {
			if len(lhs) != nres {
				t.fail(c, "call with %d results assigned to %d", nres, len(lhs))
			}
			for i, l := range lhs {
				t.assignTo(sb, l, proj(tmp, i, total), define, ind, c)
			}
		}
		return true
	}
	var args []string
	recvVar := ""
	ptrRecv := false
	if sig.Recv() != nil {
		if !isSel {
			t.fail(c, "method value")
		}
		sv, ok := t.structVar(sel.X)
		ptrRecv = t.mutatesRecv(g)
		recvIsVar := false
		if !ok {
			if ptrRecv {
				// a variable of type pointer to a named slice (`t *Track`): the slice, re-bound after the call
				id, isId := sel.X.(*ast.Ident)
				pt, isPtr := t.p.info.Types[sel.X].Type.Underlying().(*types.Pointer)
				if !isId || !isPtr {
					t.fail(c, "method call on %s", exprString(sel.X))
				}
				if _, isSl := pt.Elem().Underlying().(*types.Slice); !isSl {
					t.fail(c, "method call on %s", exprString(sel.X))
				}
				_ = id
				recvIsVar = true
			}
			sv = t.atom(sel.X) // a value receiver that is not a struct variable (a named slice type ...)
		}
		recvVar = sv
		args = append(args, sv)
		if recvIsVar {
			call := t.funcName(g) + " " + strings.Join(append(args, func() []string {
				var as []string
				np := sig.Params().Len()
				for i, a := range c.Args {
					if sig.Variadic() && !c.Ellipsis.IsValid() && i >= np-1 {
						break
					}
					as = append(as, t.atom(a))
				}
				if sig.Variadic() && !c.Ellipsis.IsValid() {
					var vs []string
					for _, a := range c.Args[np-1:] {
						vs = append(vs, t.expr(a))
					}
					as = append(as, "["+strings.Join(vs, ", ")+"]")
				}
				return as
			}()...), " ")
			if sig.Results().Len() != 0 || lhs != nil {
				t.fail(c, "result of a method that writes through a pointer variable")
			}
			tmp := t.fresh("res")
			fmt.Fprintf(sb, "%slet %s ← %s\n", ind, tmp, call)
			t.assignTo(sb, sel.X, tmp, false, ind, c)
			return true
		}
	}
	for _, a := range c.Args {
		args = append(args, t.atom(a))
	}
	call := t.funcName(g) + " " + strings.Join(args, " ")
	nres := sig.Results().Len()
	if io := t.inoutParams(g); len(io) > 0 {
		if ptrRecv || sig.Recv() != nil || lhs != nil || nres != 0 || len(io) != 1 {
			t.fail(c, "call of %s, which writes into a slice parameter, in this position", g.Name())
		}
		id, ok := c.Args[io[0]].(*ast.Ident)
		if !ok {
			t.fail(c, "in-out argument of %s must be a variable", g.Name())
		}
		arrow := "←"
		if !t.monadic[g] {
			arrow = ":="
		}
		if o := t.p.info.Uses[id]; o != nil && t.env != nil && t.env[o] {
			t.fail(c, "in-out argument captured by a closure")
		}
		if arrow == "←" {
			fmt.Fprintf(sb, "%s%s ← %s\n", ind, name(id.Name), call)
		} else {
			fmt.Fprintf(sb, "%s%s := %s\n", ind, name(id.Name), call)
		}
		return true
	}
	if !ptrRecv {
		if lhs == nil {
			if t.monadic[g] {
				fmt.Fprintf(sb, "%slet _ ← %s\n", ind, call)
			} else {
				fmt.Fprintf(sb, "%slet _ := %s\n", ind, call)
			}
			return true
		}
		arrow := ":="
		if t.monadic[g] {
			arrow = "←"
		}
		if len(lhs) == 1 && nres == 1 {
			if t.monadic[g] {
				tmp := t.fresh("res")
				fmt.Fprintf(sb, "%slet %s ← %s\n", ind, tmp, call)
				t.assignTo(sb, lhs[0], tmp, define, ind, c)
			} else {
				t.assignTo(sb, lhs[0], "("+call+")", define, ind, c)
			}
			return true
		}
		if len(lhs) != nres {
			t.fail(c, "call with %d results assigned to %d", nres, len(lhs))
		}
		tmp := t.fresh("res")
		fmt.Fprintf(sb, "%slet %s %s %s\n", ind, tmp, arrow, call)
		for i, l := range lhs {
			t.assignTo(sb, l, proj(tmp, i, nres), define, ind, c)
		}
		return true
	}
	// pointer receiver: the callee hands the receiver back
	if nres == 0 {
		fmt.Fprintf(sb, "%s%s ← %s\n", ind, recvVar, call)
		return true
	}
	tmp := t.fresh("res")
	fmt.Fprintf(sb, "%slet %s ← %s\n", ind, tmp, call)
	fmt.Fprintf(sb, "%s%s := %s.1\n", ind, recvVar, tmp)
	for i, l := range lhs {
		t.assignTo(sb, l, proj(tmp+".2", i, nres), define, ind, c)
	}
	return true
}

func proj(tup string, i, n int) string {
	if n == 1 {
		return tup
	}
	// right-nested pairs
	s := tup
	for k := 0; k < i; k++ {
		s += ".2"
	}
	if i < n-1 {
		s += ".1"
	}
	return s
}

// ---------- expressions ----------

func (t *tr) atom(e ast.Expr) string {
	s := t.expr(e)
	if strings.ContainsAny(s, " ") && !(strings.HasPrefix(s, "(") && matchingParen(s)) && !(strings.HasPrefix(s, "[") && strings.HasSuffix(s, "]")) {
		return "(" + s + ")"
	}
	return s
}

func matchingParen(s string) bool {
	d := 0
	for i, c := range s {
		switch c {
		case '(':
			d++
		case ')':
			d--
			if d == 0 && i != len(s)-1 {
				return false
			}
		}
	}
	return d == 0 && strings.HasSuffix(s, ")")
}

func (t *tr) constant(e ast.Expr, tv types.TypeAndValue) (string, bool) {
	if tv.Value == nil {
		return "", false
	}
	switch tv.Value.Kind() {
	case constant.Bool:
		if constant.BoolVal(tv.Value) {
			return "true", true
		}
		return "false", true
	case constant.Int:
		_, signed, ok := intInfo(tv.Type)
		if !ok {
			return "", false
		}
		s := tv.Value.ExactString()
		if signed {
			if strings.HasPrefix(s, "-") {
				return "(" + s + " : Int)", true
			}
			return "(" + s + " : Int)", true
		}
		return "(" + s + " : Nat)", true
	case constant.String:
		if t.sp.StringsAsBytes {
			var bs []string
			for _, b := range []byte(constant.StringVal(tv.Value)) {
				bs = append(bs, strconv.Itoa(int(b)))
			}
			return "([" + strings.Join(bs, ", ") + "] : List Nat)", true
		}
		return "\"\"", true // strings only feed panics and error texts, which are not modelled
	}
	return "", false
}

func (t *tr) expr(e ast.Expr) string {
	tv, have := t.p.info.Types[e]
	if have {
		if s, ok := t.constant(e, tv); ok {
			return s
		}
	}
	switch x := e.(type) {
	case *ast.ParenExpr:
		return "(" + t.expr(x.X) + ")"
	case *ast.Ident:
		switch x.Name {
		case "nil":
			if have && tv.Type != nil {
				switch u := tv.Type.Underlying().(type) {
				case *types.Interface:
					return "false" // nil error
				case *types.Pointer:
					if _, ok := u.Elem().Underlying().(*types.Struct); ok {
						return t.zero(e, tv.Type) // nil pointer to a struct: the zero struct (callers look at the error flag)
					}
				}
			}
			return "[]"
		case "true", "false":
			return x.Name
		}
		if o := t.p.info.Uses[x]; o != nil && t.env[o] {
			return "env." + name(x.Name)
		}
		if v, ok := t.p.info.Uses[x].(*types.Var); ok && v.Pkg() != nil && v.Parent() == v.Pkg().Scope() {
			return t.pkgVarValue(e, v)
		}
		return name(x.Name)
	case *ast.SelectorExpr:
		if s, ok := t.p.info.Selections[x]; ok && s.Kind() == types.FieldVal {
			if _, isFn := s.Type().Underlying().(*types.Signature); isFn {
				t.fail(e, "function field %s used as a value", x.Sel.Name)
			}
			return t.atom(x.X) + "." + strings.Join(t.selPath(x), ".")
		}
		t.fail(e, "selector %s", exprString(e))
	case *ast.BasicLit:
		t.fail(e, "literal %s", x.Value)
	case *ast.CompositeLit:
		if _, ok := tv.Type.Underlying().(*types.Slice); ok {
			var els []string
			for _, el := range x.Elts {
				if _, kv := el.(*ast.KeyValueExpr); kv {
					t.fail(e, "keyed slice literal")
				}
				els = append(els, t.expr(el))
			}
			return "[" + strings.Join(els, ", ") + "]"
		}
		if arr, ok := tv.Type.Underlying().(*types.Array); ok {
			var els []string
			for _, el := range x.Elts {
				if _, kv := el.(*ast.KeyValueExpr); kv {
					t.fail(e, "keyed array literal")
				}
				els = append(els, t.expr(el))
			}
			for int64(len(els)) < arr.Len() {
				els = append(els, t.zero(e, arr.Elem()))
			}
			return "[" + strings.Join(els, ", ") + "]"
		}
		if _, ok := tv.Type.Underlying().(*types.Struct); ok {
			var fs []string
			for _, el := range x.Elts {
				kv, ok := el.(*ast.KeyValueExpr)
				if !ok {
					t.fail(e, "positional struct literal")
				}
				fs = append(fs, name(kv.Key.(*ast.Ident).Name)+" := "+t.expr(kv.Value))
			}
			return "({ " + strings.Join(fs, ", ") + " } : " + t.leanType(e, tv.Type) + ")"
		}
		t.fail(e, "composite literal of %s", tv.Type)
	case *ast.UnaryExpr:
		if x.Op == token.AND {
			if cl, ok := x.X.(*ast.CompositeLit); ok {
				return t.expr(cl) // &T{...}: the pointer is the value (no aliasing in the translated subset)
			}
			if id, ok := x.X.(*ast.Ident); ok {
				if _, isStruct := t.p.info.Types[id].Type.Underlying().(*types.Struct); isStruct {
					return name(id.Name) // &local: the value as it is now (accepted in return position: no later writes)
				}
			}
		}
		switch x.Op {
		case token.NOT:
			return "(!" + t.boolAtom(x.X) + ")"
		case token.SUB:
			bits, signed, _ := intInfo(tv.Type)
			if signed {
				return fmt.Sprintf("(Go.wrapS %d (-%s))", bits, t.atom(x.X))
			}
			return fmt.Sprintf("((%s - %s %% %s) %% %s)", pow2(bits), t.atom(x.X), pow2(bits), pow2(bits))
		case token.XOR:
			bits, signed, _ := intInfo(tv.Type)
			if signed {
				return fmt.Sprintf("(-%s - 1)", t.atom(x.X))
			}
			return fmt.Sprintf("(%s ^^^ (%s - 1))", t.atom(x.X), pow2(bits))
		case token.ADD:
			return t.expr(x.X)
		}
		t.fail(e, "unary %s", x.Op)
	case *ast.BinaryExpr:
		switch x.Op {
		case token.LAND, token.LOR, token.EQL, token.NEQ, token.LSS, token.LEQ, token.GTR, token.GEQ:
			return "decide (" + t.cond(e) + ")"
		}
		lt := t.p.info.Types[x.X].Type
		return t.binary(e, x.Op, t.operand(x.X, x.Op), t.operand(x.Y, x.Op), tv.Type, t.p.info.Types[x.Y].Type) + func() string { _ = lt; return "" }()
	case *ast.StarExpr:
		if id, ok := x.X.(*ast.Ident); ok && t.recv != nil && t.p.info.Uses[id] == types.Object(t.recv) {
			return name(id.Name) // the receiver of a pointer-receiver method is never nil in the translated subset's callers
		}
		if id, ok := x.X.(*ast.Ident); ok {
			if o := t.p.info.Uses[id]; o != nil && t.outObjs[o] {
				return fmt.Sprintf("(← (if %s_nil = true then throw \"nil pointer dereference\" else pure %s : Except String _))", name(id.Name), name(id.Name))
			}
		}
		t.fail(e, "dereference %s", exprString(e))
	case *ast.CallExpr:
		if h, ok := t.hoisted[x]; ok {
			return h
		}
		if g := t.callee(t.p, x); g != nil && len(t.outParams(g)) > 0 {
			t.fail(e, "call of %s (pointer parameters) in this position: only as a statement, an assignment or the leftmost operand of a condition", g.Name())
		}
		return t.callExpr(x, tv)
	case *ast.IndexExpr:
		if mv := t.pkgMap(x.X); mv != nil {
			mt := mv.Type().Underlying().(*types.Map)
			return fmt.Sprintf("((%s %s).getD %s)", t.mapVar(e, mv), t.atom(x.Index), t.zero(e, mt.Elem()))
		}
		switch t.p.info.Types[x.X].Type.Underlying().(type) {
		case *types.Slice, *types.Array:
		default:
			t.fail(e, "index into %s", t.p.info.Types[x.X].Type)
		}
		return fmt.Sprintf("(← Go.idx %s %s)", t.atom(x.X), t.toInt(x.Index))
	case *ast.SliceExpr:
		if x.Slice3 {
			t.fail(e, "3-index slice")
		}
		lo, hi := "(0 : Int)", ""
		if x.Low != nil {
			lo = t.toInt(x.Low)
		}
		if x.High != nil {
			hi = t.toInt(x.High)
		} else {
			hi = "(" + t.atom(x.X) + ".length : Int)"
		}
		return fmt.Sprintf("(← Go.slice %s %s %s)", t.atom(x.X), lo, hi)
	}
	t.fail(e, "expression %T %s", e, exprString(e))
	return ""
}

func (t *tr) operand(e ast.Expr, op token.Token) string { return t.atom(e) }

// toInt: an index expression as Int
func (t *tr) toInt(e ast.Expr) string {
	_, signed, ok := intInfo(t.p.info.Types[e].Type)
	if !ok {
		t.fail(e, "index type")
	}
	if signed {
		return t.atom(e)
	}
	return "((" + t.expr(e) + " : Nat) : Int)"
}

func (t *tr) toNatCount(e ast.Expr) string {
	if tv := t.p.info.Types[e]; tv.Value != nil && tv.Value.Kind() == constant.Int && constant.Sign(tv.Value) >= 0 {
		return tv.Value.ExactString()
	}
	_, signed, _ := intInfo(t.p.info.Types[e].Type)
	if signed {
		return "(" + t.expr(e) + ").toNat"
	}
	return t.atom(e)
}

func (t *tr) binary(n ast.Node, op token.Token, a, b string, ty types.Type, bty types.Type) string {
	bits, signed, ok := intInfo(ty)
	if (op == token.QUO || op == token.REM) && !nonzeroLit(b) {
		// a zero divisor panics in Go
		if !ok || signed {
			t.fail(n, "signed division by something that is not a non-zero constant")
		}
		if op == token.QUO {
			return fmt.Sprintf("(← Go.divU %s %s)", a, b)
		}
		return fmt.Sprintf("(← Go.modU %s %s)", a, b)
	}
	if !ok {
		t.fail(n, "arithmetic on %s", ty)
	}
	if bits == 0 {
		t.fail(n, "untyped non-constant arithmetic")
	}
	m := pow2(bits)
	if !signed {
		switch op {
		case token.ADD:
			return fmt.Sprintf("((%s + %s) %% %s)", a, b, m)
		case token.SUB:
			return fmt.Sprintf("((%s + %s - %s %% %s) %% %s)", a, m, b, m, m)
		case token.MUL:
			return fmt.Sprintf("((%s * %s) %% %s)", a, b, m)
		case token.QUO:
			return fmt.Sprintf("(%s / %s)", a, b)
		case token.REM:
			return fmt.Sprintf("(%s %% %s)", a, b)
		case token.AND:
			return fmt.Sprintf("(%s &&& %s)", a, b)
		case token.OR:
			return fmt.Sprintf("(%s ||| %s)", a, b)
		case token.XOR:
			return fmt.Sprintf("(%s ^^^ %s)", a, b)
		case token.AND_NOT:
			return fmt.Sprintf("(%s &&& (%s ^^^ (%s - 1)))", a, b, m)
		case token.SHL:
			return fmt.Sprintf("((%s <<< %s) %% %s)", a, t.shiftCount(b, bty), m)
		case token.SHR:
			return fmt.Sprintf("(%s >>> %s)", a, t.shiftCount(b, bty))
		}
	} else {
		switch op {
		case token.ADD:
			return fmt.Sprintf("(Go.wrapS %d (%s + %s))", bits, a, b)
		case token.SUB:
			return fmt.Sprintf("(Go.wrapS %d (%s - %s))", bits, a, b)
		case token.MUL:
			return fmt.Sprintf("(Go.wrapS %d (%s * %s))", bits, a, b)
		case token.QUO:
			return fmt.Sprintf("(Go.wrapS %d (Int.tdiv %s %s))", bits, a, b)
		case token.REM:
			return fmt.Sprintf("(Int.tmod %s %s)", a, b)
		case token.SHL:
			return fmt.Sprintf("(Go.wrapS %d (%s * 2 ^ %s))", bits, a, t.shiftCount(b, bty))
		case token.SHR:
			return fmt.Sprintf("(%s >>> %s)", a, t.shiftCount(b, bty))
		}
	}
	t.fail(n, "operator %s on %s", op, ty)
	return ""
}

// nonzeroLit: b is the rendering of a non-zero integer constant, "(123 : Nat)" / "(-5 : Int)"
func nonzeroLit(b string) bool {
	if !strings.HasPrefix(b, "(") || !(strings.HasSuffix(b, " : Nat)") || strings.HasSuffix(b, " : Int)")) {
		return false
	}
	num := strings.TrimSpace(b[1 : len(b)-7])
	if num == "" || num == "0" || num == "-0" {
		return false
	}
	for i, c := range num {
		if !(c >= '0' && c <= '9') && !(i == 0 && c == '-') {
			return false
		}
	}
	return true
}

func (t *tr) shiftCount(b string, bty types.Type) string {
	if nonzeroLit(b) || b == "(0 : Int)" || b == "(0 : Nat)" {
		if num := strings.TrimSpace(b[1 : len(b)-7]); !strings.HasPrefix(num, "-") {
			return num
		}
	}
	_, signed, _ := intInfo(bty)
	if signed {
		return "(" + b + ").toNat"
	}
	return b
}

func (t *tr) boolAtom(e ast.Expr) string {
	s := t.expr(e)
	if strings.Contains(s, " ") && !matchingParen(s) {
		return "(" + s + ")"
	}
	return s
}

// cond: a Go boolean expression as a decidable Prop
func (t *tr) cond(e ast.Expr) string {
	if tv, ok := t.p.info.Types[e]; ok && tv.Value != nil && tv.Value.Kind() == constant.Bool {
		if constant.BoolVal(tv.Value) {
			return "True"
		}
		return "False"
	}
	switch x := e.(type) {
	case *ast.ParenExpr:
		return "(" + t.cond(x.X) + ")"
	case *ast.UnaryExpr:
		if x.Op == token.NOT {
			return "¬(" + t.cond(x.X) + ")"
		}
	case *ast.BinaryExpr:
		switch x.Op {
		case token.LAND, token.LOR:
			a, b := t.cond(x.X), t.cond(x.Y)
			if strings.Contains(b, "(←") {
				// the right operand may panic: evaluate it only when Go would
				if x.Op == token.LAND {
					return fmt.Sprintf("(← (do if %s then pure (decide (%s)) else pure false : Except String Bool)) = true", a, b)
				}
				return fmt.Sprintf("(← (do if %s then pure true else pure (decide (%s)) : Except String Bool)) = true", a, b)
			}
			if x.Op == token.LAND {
				return fmt.Sprintf("(%s ∧ %s)", a, b)
			}
			return fmt.Sprintf("(%s ∨ %s)", a, b)
		case token.EQL, token.NEQ:
			// nil comparisons of function fields and slices
			if id, ok := x.Y.(*ast.Ident); ok && id.Name == "nil" {
				if tvx, ok := t.p.info.Types[x.X]; ok && tvx.Type != nil && tvx.Type.String() == "error" {
					// an error value is the flag "non-nil"
					if x.Op == token.EQL {
						return t.atom(x.X) + " = false"
					}
					return t.atom(x.X) + " = true"
				}
				if pid, ok := x.X.(*ast.Ident); ok {
					if o := t.p.info.Uses[pid]; o != nil && t.outObjs[o] {
						if x.Op == token.EQL {
							return name(pid.Name) + "_nil = true"
						}
						return name(pid.Name) + "_nil = false"
					}
				}
				if sel, ok := x.X.(*ast.SelectorExpr); ok {
					if s, ok := t.p.info.Selections[sel]; ok {
						if _, isFn := s.Type().Underlying().(*types.Signature); isFn {
							sv, ok := t.structVar(sel.X)
							if !ok {
								t.fail(e, "function field of %s", exprString(sel.X))
							}
							if x.Op == token.EQL {
								return fmt.Sprintf("%s.%s_set = false", sv, name(sel.Sel.Name))
							}
							return fmt.Sprintf("%s.%s_set = true", sv, name(sel.Sel.Name))
						}
					}
				}
				if _, ok := t.p.info.Types[x.X].Type.Underlying().(*types.Slice); ok {
					if !t.sp.NilIsEmpty {
						t.fail(e, "comparison of a slice with nil (nil and empty slices are not distinguished)")
					}
					if x.Op == token.EQL {
						return fmt.Sprintf("%s.length = 0", t.atom(x.X))
					}
					return fmt.Sprintf("%s.length ≠ 0", t.atom(x.X))
				}
			}
			op := "="
			if x.Op == token.NEQ {
				op = "≠"
			}
			return fmt.Sprintf("%s %s %s", t.atom(x.X), op, t.atom(x.Y))
		case token.LSS, token.LEQ, token.GTR, token.GEQ:
			op := map[token.Token]string{token.LSS: "<", token.LEQ: "≤", token.GTR: ">", token.GEQ: "≥"}[x.Op]
			return fmt.Sprintf("%s %s %s", t.atom(x.X), op, t.atom(x.Y))
		}
	}
	return t.boolAtom(e) + " = true"
}

func (t *tr) callExpr(c *ast.CallExpr, tv types.TypeAndValue) string {
	// conversion
	if ftv, ok := t.p.info.Types[c.Fun]; ok && ftv.IsType() {
		return t.convert(c, c.Args[0], ftv.Type)
	}
	if id, ok := c.Fun.(*ast.Ident); ok {
		if _, isB := t.p.info.Uses[id].(*types.Builtin); isB {
			switch id.Name {
			case "len":
				return "(" + t.atom(c.Args[0]) + ".length : Int)"
			case "make":
				st, ok := t.p.info.Types[c.Args[0]].Type.Underlying().(*types.Slice)
				if !ok || len(c.Args) != 2 {
					t.fail(c, "make form")
				}
				return fmt.Sprintf("(List.replicate %s %s)", t.toNatCount(c.Args[1]), t.zero(c, st.Elem()))
			case "append":
				if c.Ellipsis.IsValid() {
					return "(" + t.atom(c.Args[0]) + " ++ " + t.atom(c.Args[1]) + ")"
				}
				var els []string
				for _, a := range c.Args[1:] {
					els = append(els, t.expr(a))
				}
				return "(" + t.atom(c.Args[0]) + " ++ [" + strings.Join(els, ", ") + "])"
			}
			t.fail(c, "builtin %s", id.Name)
		}
	}
	if sel0, ok := c.Fun.(*ast.SelectorExpr); ok {
		if id, ok := sel0.X.(*ast.Ident); ok {
			if pn, ok := t.p.info.Uses[id].(*types.PkgName); ok && pn.Imported().Path() == "reflect" && sel0.Sel.Name == "DeepEqual" && len(c.Args) == 2 {
				// on two byte slices: equal length and content (a nil and an empty slice differ for DeepEqual: not modelled,
				// sound where neither argument can be an empty non-nil slice)
				isBytes := func(e ast.Expr) bool {
					sl, ok := t.p.info.Types[e].Type.Underlying().(*types.Slice)
					if !ok {
						return false
					}
					b, ok := sl.Elem().Underlying().(*types.Basic)
					return ok && b.Kind() == types.Uint8
				}
				if !isBytes(c.Args[0]) || !isBytes(c.Args[1]) {
					t.fail(c, "reflect.DeepEqual on something else than two byte slices")
				}
				return fmt.Sprintf("decide (%s = %s)", t.atom(c.Args[0]), t.atom(c.Args[1]))
			}
			if tv0, ok := t.p.info.Types[id]; ok && isBytesBuffer(tv0.Type) {
				switch sel0.Sel.Name {
				case "Bytes":
					return name(id.Name)
				case "Len":
					return "(" + name(id.Name) + ".length : Int)"
				}
				t.fail(c, "bytes.Buffer method %s in an expression", sel0.Sel.Name)
			}
		}
	}
	// opaque: error and string producing calls (fmt.Errorf, fmt.Sprintf ...) feed only panics / OnErr
	if tv.Type != nil {
		if tv.Type.String() == "error" {
			if g := t.callee(t.p, c); g == nil || t.funcs[g] == nil {
				return "true" // fmt.Errorf, errors.New ...: some non-nil error
			}
		}
		if b, ok := tv.Type.Underlying().(*types.Basic); ok && b.Kind() == types.String {
			if !t.sp.StringsAsBytes {
				return "\"\""
			}
			if g := t.callee(t.p, c); g == nil || t.funcs[g] == nil {
				t.fail(c, "string-valued call of %s outside the translated code (strings are values here)", exprString(c.Fun))
			}
		}
	}
	g := t.callee(t.p, c)
	if g != nil {
		for _, oq := range t.sp.Opaque {
			if g.FullName() == oq {
				if t.opaqueSeen == nil {
					t.opaqueSeen = map[string]*types.Func{}
				}
				t.opaqueSeen[oq] = g
				var args []string
				if g.Type().(*types.Signature).Recv() != nil {
					args = append(args, t.atom(c.Fun.(*ast.SelectorExpr).X))
				}
				for _, a := range c.Args {
					args = append(args, t.atom(a))
				}
				return "(" + opaqueName(oq) + " " + strings.Join(args, " ") + ")"
			}
		}
	}
	if g == nil || t.funcs[g] == nil {
		t.fail(c, "call of %s (not part of the translated module code)", exprString(c.Fun))
	}
	sig := g.Type().(*types.Signature)
	var args []string
	if sig.Recv() != nil {
		if t.mutatesRecv(g) {
			t.fail(c, "receiver-mutating method %s inside an expression", g.Name())
		}
		args = append(args, t.atom(c.Fun.(*ast.SelectorExpr).X))
	}
	for _, a := range c.Args {
		args = append(args, t.atom(a))
	}
	call := t.funcName(g) + " " + strings.Join(args, " ")
	if t.monadic[g] {
		return "(← " + call + ")"
	}
	return "(" + call + ")"
}

func (t *tr) convert(n ast.Node, arg ast.Expr, to types.Type) string {
	from := t.p.info.Types[arg].Type
	fb, fs, fok := intInfo(from)
	tb, ts, tok := intInfo(to)
	a := t.atom(arg)
	if fok && tok {
		if tvv := t.p.info.Types[arg]; tvv.Value != nil {
			fb = 0 // constants are exact
		}
		switch {
		case !fs && !ts: // Nat -> Nat
			if fb != 0 && fb <= tb {
				return a
			}
			return fmt.Sprintf("(%s %% %s)", a, pow2(tb))
		case !fs && ts: // Nat -> Int
			if fb != 0 && fb < tb {
				return fmt.Sprintf("(%s : Int)", a)
			}
			return fmt.Sprintf("(Go.wrapS %d (%s : Int))", tb, a)
		case fs && !ts: // Int -> Nat
			return fmt.Sprintf("(Go.toU %d %s)", tb, a)
		default: // Int -> Int
			if fb != 0 && fb <= tb {
				return a
			}
			return fmt.Sprintf("(Go.wrapS %d %s)", tb, a)
		}
	}
	// []byte(x) of a named slice type and the like
	if _, ok := to.Underlying().(*types.Slice); ok {
		if _, ok := from.Underlying().(*types.Slice); ok {
			return a
		}
	}
	// string <-> []byte: the identity when strings are their bytes
	if t.sp.StringsAsBytes {
		isStr := func(ty types.Type) bool {
			b, ok := ty.Underlying().(*types.Basic)
			return ok && b.Kind() == types.String
		}
		isBytes := func(ty types.Type) bool {
			sl, ok := ty.Underlying().(*types.Slice)
			if !ok {
				return false
			}
			b, ok := sl.Elem().Underlying().(*types.Basic)
			return ok && b.Kind() == types.Uint8
		}
		if isStr(from) && isBytes(to) || isBytes(from) && isStr(to) || isStr(from) && isStr(to) {
			return a
		}
	}
	t.fail(n, "conversion %s -> %s", from, to)
	return ""
}

var _ = sort.Strings
