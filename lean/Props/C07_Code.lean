import MidiModel.Msg
import MidiModel.Generated.UtilsGo
import MidiModel.Generated.MidiGo
/-!
# C07 / C08, tie to the source: the `internal/utils` bit helpers and every channel-voice / system-common constructor
(`v2/channel.go`, `v2/helpers.go`, `v2/syscommon.go`) as translated from the working tree are the model's functions
(`MidiModel/Msg.lean`), for every argument. Regenerated on every run by `tools/go2lean`; C07's theorems about the
model's constructors (`Props/C07.lean`) thereby speak about the translated source text.
-/
namespace Midi.C07
open Midi Midi.Msg Midi.Go

theorem code_ParseStatus (b : Nat) : utils.ParseStatus b = parseStatus b := rfl
theorem code_ParseUint7 (b : Nat) : utils.ParseUint7 b = parseUint7 b := rfl
theorem code_ParseTwoUint7 (a b : Nat) : utils.ParseTwoUint7 a b = (parseUint7 a, parseUint7 b) := rfl
theorem code_ClearBitU8 (n pos : Nat) : utils.ClearBitU8 n pos = clearBitU8 n pos := rfl
theorem code_clearBitU16 (n pos : Nat) : utils.clearBitU16 n pos = clearBitU16 n pos := rfl

theorem code_ParsePitchWheelVals (b1 b2 : Nat) : utils.ParsePitchWheelVals b1 b2 = parsePitchWheelVals b1 b2 := by
  unfold utils.ParsePitchWheelVals parsePitchWheelVals
  simp only [Id.run, pure]
  generalize (b2 &&& 127) <<< 7 % 65536 ||| b1 &&& 127 = v
  refine Prod.ext ?_ rfl
  show Go.wrapS 16 (Go.wrapS 16 (v : Int) - 8192) = _
  unfold Go.wrapS
  simp only []
  split <;> omega

/-- `MsbLsbUnsigned`: the translated function panics exactly where the model says `none` -/
theorem code_MsbLsbUnsigned (n : Nat) :
    utils.MsbLsbUnsigned n = (match msbLsbUnsigned n with | some v => .ok v | none => .error "panic") := by
  unfold utils.MsbLsbUnsigned msbLsbUnsigned
  by_cases h : n > 16383
  · simp [h]; rfl
  · simp [h, code_clearBitU16]; rfl

theorem code_MsbLsbSigned (n : Int) :
    utils.MsbLsbSigned n = (match msbLsbSigned n with | some v => .ok v | none => .error "panic") := by
  unfold utils.MsbLsbSigned msbLsbSigned
  rw [code_MsbLsbUnsigned]
  have : Go.toU 16 (Go.wrapS 16 (n + 8192)) = (((n + 8192 + 32768) % 65536 - 32768) % 65536).toNat := by
    unfold Go.toU Go.wrapS; congr 1
  rw [this]

/-! ## the constructors -/

theorem code_getCompleteStatus (st ch : Nat) (tb : Bool) (d : List Nat) :
    midi.channelMessage.getCompleteStatus { status := st, channel := ch, twoBytes := tb, data := d } =
      getCompleteStatus st ch := rfl

theorem code_channelMessage2 (c st a b : Nat) : midi.channelMessage2 c st a b = .ok (channelMessage2 c st a b) := by
  unfold midi.channelMessage2 midi.channelMessage.bytes
  simp [Go.setIdx, Go.idx, channelMessage2]
  rfl

theorem code_channelMessage1 (c st a : Nat) : midi.channelMessage1 c st a = .ok (channelMessage1 c st a) := by
  unfold midi.channelMessage1 midi.channelMessage.bytes
  simp [Go.setIdx, Go.idx, channelMessage1]
  rfl

theorem code_NoteOn (c k v : Nat) : midi.NoteOn c k v = .ok (noteOn c k v) := by
  unfold midi.NoteOn noteOn clampHi
  simp only [code_channelMessage2]
  by_cases h1 : c > 15 <;> by_cases h2 : k > 127 <;> by_cases h3 : v > 127 <;> simp [h1, h2, h3]

theorem code_NoteOffVelocity (c k v : Nat) : midi.NoteOffVelocity c k v = .ok (noteOffVelocity c k v) := by
  unfold midi.NoteOffVelocity noteOffVelocity clampHi
  simp only [code_channelMessage2]
  by_cases h1 : c > 15 <;> by_cases h2 : k > 127 <;> by_cases h3 : v > 127 <;> simp [h1, h2, h3]

theorem code_NoteOff (c k : Nat) : midi.NoteOff c k = .ok (noteOff c k) := by
  unfold midi.NoteOff noteOff clampHi
  simp only [code_channelMessage2]
  by_cases h1 : c > 15 <;> by_cases h2 : k > 127 <;> simp [h1, h2]

theorem code_PolyAfterTouch (c k v : Nat) : midi.PolyAfterTouch c k v = .ok (polyAfterTouch c k v) := by
  unfold midi.PolyAfterTouch polyAfterTouch clampHi
  simp only [code_channelMessage2]
  by_cases h1 : c > 15 <;> by_cases h2 : k > 127 <;> by_cases h3 : v > 127 <;> simp [h1, h2, h3]

theorem code_ControlChange (c k v : Nat) : midi.ControlChange c k v = .ok (controlChange c k v) := by
  unfold midi.ControlChange controlChange clampHi
  simp only [code_channelMessage2]
  by_cases h1 : c > 15 <;> by_cases h2 : k > 127 <;> by_cases h3 : v > 127 <;> simp [h1, h2, h3]

theorem code_ProgramChange (c p : Nat) : midi.ProgramChange c p = .ok (programChange c p) := by
  unfold midi.ProgramChange programChange clampHi
  simp only [code_channelMessage1]
  by_cases h1 : c > 15 <;> by_cases h2 : p > 127 <;> simp [h1, h2]

theorem code_AfterTouch (c p : Nat) : midi.AfterTouch c p = .ok (afterTouch c p) := by
  unfold midi.AfterTouch afterTouch clampHi
  simp only [code_channelMessage1]
  by_cases h1 : c > 15 <;> by_cases h2 : p > 127 <;> simp [h1, h2]

theorem pitch_tail (ch : Nat) (w : Int) :
    (do
      let res1 ← utils.MsbLsbSigned w
      let b ← Go.putU16BE (List.replicate 2 0) res1
      let x ← Go.idx b 0
      let y ← Go.idx b 1
      midi.channelMessage2 ch 14 x y : Except String (List Nat)) =
    (match msbLsbSigned w with
      | some r => .ok (channelMessage2 ch 14 (r >>> 8 % 256) (r % 256))
      | none => .error "panic") := by
  rw [code_MsbLsbSigned]
  cases msbLsbSigned w with
  | none => rfl
  | some r =>
    simp only [bind, Except.bind, Go.putU16BE, Go.idx, code_channelMessage2, Nat.shiftRight_eq_div_pow]
    simp
    rfl

/-- `Pitchbend`: the translated function panics exactly where the model says `none` (it never does: `Props/C07.lean`) -/
theorem code_Pitchbend (c : Nat) (v : Int) :
    midi.Pitchbend c v = (match pitchbend c v with | some m => .ok m | none => .error "panic") := by
  have key : ∀ ch w, (match (match msbLsbSigned w with
        | none => none
        | some r => some (channelMessage2 ch 14 (r >>> 8 % 256) (r % 256))) with
      | some m => (Except.ok m : Except String (List Nat)) | none => Except.error "panic") =
      (match msbLsbSigned w with
      | some r => .ok (channelMessage2 ch 14 (r >>> 8 % 256) (r % 256))
      | none => .error "panic") := by
    intro ch w; cases msbLsbSigned w <;> rfl
  unfold midi.Pitchbend pitchbend clampPitch clampHi
  by_cases h1 : c > 15 <;> by_cases h2 : v > 8191
  · have h3 : ¬ ((8191 : Int) < -8192) := by omega
    simp only [h1, h2, h3, ↓reduceIte]
    rw [pitch_tail]; generalize msbLsbSigned _ = o; cases o <;> rfl
  · by_cases h3 : v < -8192
    · simp only [h1, h2, h3, ↓reduceIte]; rw [pitch_tail]; generalize msbLsbSigned _ = o; cases o <;> rfl
    · simp only [h1, h2, h3, ↓reduceIte]; rw [pitch_tail]; generalize msbLsbSigned _ = o; cases o <;> rfl
  · have h3 : ¬ ((8191 : Int) < -8192) := by omega
    simp only [h1, h2, h3, ↓reduceIte]
    rw [pitch_tail]; generalize msbLsbSigned _ = o; cases o <;> rfl
  · by_cases h3 : v < -8192
    · simp only [h1, h2, h3, ↓reduceIte]; rw [pitch_tail]; generalize msbLsbSigned _ = o; cases o <;> rfl
    · simp only [h1, h2, h3, ↓reduceIte]; rw [pitch_tail]; generalize msbLsbSigned _ = o; cases o <;> rfl

theorem code_Tune : midi.Tune = tune := rfl
theorem code_SongSelect (s : Nat) : midi.SongSelect s = songSelect s := rfl
theorem code_MTC (m : Nat) (h : m < 256) : midi.MTC m = mtc m := by
  unfold midi.MTC mtc; simp only [Nat.mod_eq_of_lt h]; rfl
theorem code_SPP (p : Nat) : midi.SPP p = .ok (spp p) := by
  unfold midi.SPP spp
  simp [Go.setIdx, Go.idx]
  rfl

end Midi.C07
