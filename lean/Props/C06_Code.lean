import Proofs.ReaderTie
/-!
# C06, tie to the source: the translated `reader.go` never reaches a `panic` and emits the model's frames

See `Props/C04_Code.lean` for what is translated and what is trusted. C06's own theorems (`Props/C06.lean`) speak
about the model `Live.feed`; this file transports them to the translation of the code in the working tree.
-/
namespace Midi.C06
open Midi Midi.Live Midi.Go Midi.Tie

/-- the translated reader returns normally (`Except.ok`) on every byte stream and chunking: neither `panic` of
    `reader.go`, no index out of range in the sysex buffer handling -/
theorem code_reader_total (c : Cfg) (hc : c.buf < 4294967296) (chunks : List (Int × Bytes))
    (hb : ∀ ch ∈ chunks, ∀ b ∈ ch.2, b < 256) :
    ∃ r0 r', newReader c = .ok r0 ∧ goFeed r0 chunks = .ok r' := by
  obtain ⟨r0, h0, hrel, _⟩ := newReader_rel c
  obtain ⟨r', h1, _, _⟩ := goFeed_sim c hc chunks r0 init hrel (init_inv c) hb
  exact ⟨r0, r', h0, h1⟩

/-- every frame the translated reader hands to `OnMsg` is a well-formed raw frame (`WfFrame`, Proofs/LiveInv) -/
theorem code_frames_wellformed (c : Cfg) (hc : c.buf < 4294967296) (chunks : List (Int × Bytes))
    (hb : ∀ ch ∈ chunks, ∀ b ∈ ch.2, b < 256) :
    ∃ r0 r', newReader c = .ok r0 ∧ goFeed r0 chunks = .ok r' ∧
      ∀ f ∈ evFrames r'.trace, WfFrame c f := by
  obtain ⟨r0, h0, hrel, htr⟩ := newReader_rel c
  obtain ⟨r', h1, _, h3⟩ := goFeed_sim c hc chunks r0 init hrel (init_inv c) hb
  refine ⟨r0, r', h0, h1, ?_⟩
  intro f hf
  rw [h3, htr] at hf
  simp only [evFrames, List.nil_append, List.mem_map] at hf
  obtain ⟨g, hg, rfl⟩ := hf
  -- `WfFrame` looks at the bytes only, `wrapFrame` changes the time stamp only
  exact (feed_inv c (chunkToks chunks) init (init_inv c)).2 g hg

end Midi.C06
