package main

import (
	"errors"
	"fmt"
	"strconv"
	"strings"

	"gitlab.com/gomidi/midi/v2"
	"gitlab.com/gomidi/midi/v2/drivers"
	"gitlab.com/gomidi/midi/v2/drivers/testdrv"
)

// C17: ports deliver exactly while listening, for every order of lifecycle calls.
//
// Part A (this file): the in-memory driver drivers/testdrv against the Lean model of the driver
// (correspondence, all histories) and against an independent Go transcription of the port contract
// (property oracle, protocol-respecting histories).
// Part B (c17_midicat.go): the process-backed driver drivers/midicatdrv, run by the auxiliary binary
// harness_midicat against a stand-in helper program.

// ---- ops -------------------------------------------------------------------------------------------

// p17Op is one lifecycle call. kind: oi oo ci co l s x, and the library-level L (midi.ListenTo) and
// X (midi.SendTo + send).
type p17Op struct {
	kind string
	arg  int // s: index of the stop function; x/X: note number
}

func (o p17Op) String() string {
	switch o.kind {
	case "s", "x", "X":
		return o.kind + strconv.Itoa(o.arg)
	}
	return o.kind
}

func p17ParseOps(s string) ([]p17Op, bool) {
	if s == "-" || s == "" {
		return nil, true
	}
	var ops []p17Op
	for _, t := range strings.Split(s, ",") {
		switch t {
		case "oi", "oo", "ci", "co", "l", "L":
			ops = append(ops, p17Op{kind: t})
			continue
		}
		if len(t) < 2 || (t[0] != 's' && t[0] != 'x' && t[0] != 'X') {
			return nil, false
		}
		n, err := strconv.Atoi(t[1:])
		if err != nil || n < 0 {
			return nil, false
		}
		ops = append(ops, p17Op{kind: t[:1], arg: n})
	}
	return ops, true
}

func p17ShowOps(ops []p17Op) string {
	if len(ops) == 0 {
		return "-"
	}
	ss := make([]string, len(ops))
	for i, o := range ops {
		ss[i] = o.String()
	}
	return strings.Join(ss, ",")
}

// p17Obs is what one call lets an observer see.
type p17Obs struct {
	res     uint8 // 0 ok, 1 port-closed error, 2 other error, 3 no such stop function, 4 panic
	calls   [][2]int
	inOpen  bool
	outOpen bool
}

var p17ResNames = []string{"ok", "closed", "err", "nofn", "panic"}

func (o p17Obs) String() string {
	var b strings.Builder
	b.WriteString(p17ResNames[o.res])
	for _, c := range o.calls {
		fmt.Fprintf(&b, "+%d:%d", c[0], c[1])
	}
	b.WriteByte('/')
	if o.inOpen {
		b.WriteByte('1')
	} else {
		b.WriteByte('0')
	}
	if o.outOpen {
		b.WriteByte('1')
	} else {
		b.WriteByte('0')
	}
	return b.String()
}

func (o p17Obs) equal(p p17Obs) bool {
	if o.res != p.res || o.inOpen != p.inOpen || o.outOpen != p.outOpen || len(o.calls) != len(p.calls) {
		return false
	}
	for i := range o.calls {
		if o.calls[i] != p.calls[i] {
			return false
		}
	}
	return true
}

// digest shared with Ports.lean (`mix`, `obsCode`), wrapping uint64 arithmetic on both sides
const p17Basis uint64 = 14695981039346656037

func p17Mix(h, c uint64) uint64 { return (h ^ c) * 1099511628211 }

func p17Code(o p17Obs) uint64 {
	c := uint64(o.res) * 4
	if o.inOpen {
		c += 2
	}
	if o.outOpen {
		c++
	}
	for _, x := range o.calls {
		c = c*1000003 + uint64(x[0]*256+x[1]+1)
	}
	return c
}

// ---- the port contract, written from drivers/port.go and the property text -------------------------------

type p17Spec struct {
	inOpen, outOpen bool
	active          int // listener that is listening now, -1 = none
	fns             int // stop functions handed out
}

func p17SpecInit() p17Spec { return p17Spec{active: -1} }

// allowed: the protocol of DESIGN §8
func (a p17Spec) allowed(o p17Op) bool {
	switch o.kind {
	case "l":
		return a.inOpen && a.active < 0
	case "L":
		return a.active < 0
	case "ci":
		return a.active < 0
	case "s":
		return o.arg < a.fns && (a.active < 0 || a.active == o.arg)
	}
	return true
}

func (a *p17Spec) step(o p17Op) p17Obs {
	ob := p17Obs{}
	switch o.kind {
	case "oi":
		a.inOpen = true
	case "oo":
		a.outOpen = true
	case "ci":
		a.inOpen = false
		a.active = -1
	case "co":
		a.outOpen = false
	case "l", "L":
		if o.kind == "L" {
			a.inOpen = true
		}
		if !a.inOpen {
			ob.res = 1
		} else if a.active >= 0 {
			ob.res = 2
		} else {
			a.active = a.fns
			a.fns++
		}
	case "s":
		if o.arg >= a.fns {
			ob.res = 3
		} else if a.active == o.arg {
			a.active = -1
		}
	case "x", "X":
		if o.kind == "X" {
			a.outOpen = true
		}
		if !a.outOpen {
			ob.res = 1
		} else if a.active >= 0 {
			ob.calls = [][2]int{{a.active, o.arg}}
		}
	}
	ob.inOpen, ob.outOpen = a.inOpen, a.outOpen
	return ob
}

// ---- the implementation ------------------------------------------------------------------------------

func p17ErrClass(err error) uint8 {
	if err == nil {
		return 0
	}
	if errors.Is(err, drivers.ErrPortClosed) {
		return 1
	}
	return 2
}

// p17Msg: the message that carries the identity k (< 128) in its first data byte; the kind changes with k so that every
// class a listener without options must receive occurs: channel voice (six kinds), MTC quarter frame, song position,
// song select (real-time clock / active sense / sysex are what the options filter: C14)
func p17Msg(k int) []byte {
	d := byte(k & 0x7F)
	switch k % 9 {
	case 0:
		return []byte{0x90, d, 100}
	case 1:
		return []byte{0xB0, d, 1}
	case 2:
		return []byte{0xC0, d}
	case 3:
		return []byte{0xF1, d}
	case 4:
		return []byte{0xF2, d, 0}
	case 5:
		return []byte{0xF3, d}
	case 6:
		return []byte{0xE0, d, 0x40}
	case 7:
		return []byte{0xA0, d, 5}
	}
	return []byte{0x80, d, 0}
}

// p17RunImpl runs a history on a fresh test driver and returns one observation per op.
func p17RunImpl(ops []p17Op, obs []p17Obs) []p17Obs {
	obs = obs[:0]
	drv := testdrv.New("c17")
	ins, _ := drv.Ins()
	outs, _ := drv.Outs()
	in, out := ins[0], outs[0]
	var stops []func()
	var cur *p17Obs
	note := func(b []byte) int {
		// the message kinds of p17Msg; the raw driver callback pads to three bytes, midi.ListenTo re-types
		if len(b) >= 2 && int(b[1]) < 128 && b[0] == p17Msg(int(b[1]))[0] {
			w := p17Msg(int(b[1]))
			ok := true
			for i := range b {
				if i < len(w) && b[i] != w[i] || i >= len(w) && b[i] != 0 {
					ok = false
				}
			}
			if ok && len(b) >= len(w) {
				return int(b[1])
			}
		}
		return 100000 + len(b) // not the message that was sent
	}
	for _, o := range ops {
		obs = append(obs, p17Obs{})
		cur = &obs[len(obs)-1]
		ob := cur
		if p := try(func() {
			switch o.kind {
			case "oi":
				ob.res = p17ErrClass(in.Open())
			case "oo":
				ob.res = p17ErrClass(out.Open())
			case "ci":
				ob.res = p17ErrClass(in.Close())
			case "co":
				ob.res = p17ErrClass(out.Close())
			case "l":
				id := len(stops)
				stop, err := in.Listen(func(b []byte, ms int32) {
					cur.calls = append(cur.calls, [2]int{id, note(b)})
				}, drivers.ListenConfig{})
				ob.res = p17ErrClass(err)
				if err == nil && stop != nil {
					stops = append(stops, stop)
				} else if err == nil {
					ob.res = 2
				}
			case "L":
				id := len(stops)
				stop, err := midi.ListenTo(in, func(m midi.Message, ms int32) {
					cur.calls = append(cur.calls, [2]int{id, note(m.Bytes())})
				})
				ob.res = p17ErrClass(err)
				if err == nil && stop != nil {
					stops = append(stops, stop)
				} else if err == nil {
					ob.res = 2
				}
			case "s":
				if o.arg >= len(stops) {
					ob.res = 3
				} else {
					stops[o.arg]()
				}
			case "x":
				ob.res = p17ErrClass(out.Send(p17Msg(o.arg)))
			case "X":
				send, err := midi.SendTo(out)
				if err != nil {
					ob.res = p17ErrClass(err)
				} else {
					ob.res = p17ErrClass(send(midi.Message(p17Msg(o.arg))))
				}
			}
		}); p != "" {
			ob.res = 4
		}
		ob.inOpen, ob.outOpen = in.IsOpen(), out.IsOpen()
	}
	return obs
}

// p17Alphabet: the calls tried at a node of the exhaustive walk (same order as `alphabet` in Ports.lean)
func p17Alphabet(listens, pos int) []p17Op {
	a := []p17Op{{kind: "oi"}, {kind: "oo"}, {kind: "ci"}, {kind: "co"}, {kind: "l"}, {kind: "x", arg: pos}}
	if listens >= 1 {
		a = append(a, p17Op{kind: "s", arg: listens - 1})
	}
	if listens >= 2 {
		a = append(a, p17Op{kind: "s", arg: 0})
	}
	return a
}

func p17CountListens(ops []p17Op) int {
	n := 0
	for _, o := range ops {
		if o.kind == "l" || o.kind == "L" {
			n++
		}
	}
	return n
}

func p17ShowObs(obs []p17Obs) string {
	if len(obs) == 0 {
		return "-"
	}
	ss := make([]string, len(obs))
	for i, o := range obs {
		ss[i] = o.String()
	}
	return strings.Join(ss, ",")
}

// p17Fails: the history respects the protocol up to some call at which the driver deviates from the contract
func p17Fails(ops []p17Op) (int, p17Obs, p17Obs, bool) {
	impl := p17RunImpl(ops, nil)
	a := p17SpecInit()
	for i, o := range ops {
		if !a.allowed(o) {
			return 0, p17Obs{}, p17Obs{}, false
		}
		if so := a.step(o); !so.equal(impl[i]) {
			return i, so, impl[i], true
		}
	}
	return 0, p17Obs{}, p17Obs{}, false
}

// p17Shrink drops calls as long as the history keeps failing, and describes the result.
func p17Shrink(ops []p17Op) string {
	i, _, _, bad := p17Fails(ops)
	if !bad {
		return ""
	}
	ops = append([]p17Op{}, ops[:i+1]...)
	for changed := true; changed; {
		changed = false
		for j := 0; j < len(ops); j++ {
			cand := append(append([]p17Op{}, ops[:j]...), ops[j+1:]...)
			if k, _, _, b := p17Fails(cand); b {
				ops, changed = cand[:k+1], true
				break
			}
		}
	}
	i, want, got, _ := p17Fails(ops)
	return fmt.Sprintf("testdrv history %s: call #%d (%s) must show %s, the driver shows %s", p17ShowOps(ops), i, ops[i], want, got)
}

// ---- registration ------------------------------------------------------------------------------------

func init() {
	register(&Prop{
		ID: "C17",
		Rule: "testdrv: every history over {oi,oo,ci,co,l,x<distinct note>,newest stop,oldest stop} up to length 7 (quick) / 9 (thorough), " +
			"one `ports.enum` case per prefix (digest of all per-call observations below it against the Lean model; every " +
			"protocol-respecting node also against the Go transcription of the contract), plus seeded random histories of " +
			"length 8..60 incl. midi.ListenTo/SendTo, 85% protocol-respecting steps; midicatdrv: batches of seeded random " +
			"protocol-respecting histories with concurrent senders (also overlapping stop/Listen and close/open of the out port) " +
			"payload sessions on testdrv (sysex accepted; messages of 3 bytes to 9000 bytes incl. larger than the receive buffer, stop + listen again in between: all that fit arrive once, intact, in order); " +
			"run by harness_midicat against the stand-in helper, plain and under the race detector, one batch with the helper unstartable. non-trivial = at least one delivery (hist), every enum subtree, every batch " +
			"that delivered messages; distinct by op text",
		Gen: p17Gen,
		Run: p17Run,
	})
}

func p17Gen(r *Rng, tier string, emit func(Case)) {
	total, preLen, nRandom := 7, 2, 3000
	if tier == "thorough" {
		total, preLen, nRandom = 9, 3, 100000
	}
	// all prefixes of length preLen, in walk order
	var rec func(pre []p17Op)
	rec = func(pre []p17Op) {
		if len(pre) == preLen {
			emit(Case{Op: fmt.Sprintf("ports.enum pre=%s depth=%d", p17ShowOps(pre), total-preLen),
				Tags: []string{"testdrv-enum"}, NonTrivial: true})
			return
		}
		for _, o := range p17Alphabet(p17CountListens(pre), len(pre)) {
			rec(append(append([]p17Op{}, pre...), o))
		}
	}
	rec(nil)
	for i := 0; i < nRandom; i++ {
		ops, tags, nt := p17GenHistory(r)
		emit(Case{Op: "ports.hist ops=" + p17ShowOps(ops), Tags: tags, NonTrivial: nt})
	}
	p17GenSysex(r, tier, emit)
	p17GenMidicat(r, tier, emit)
}

// p17GenHistory: a random history; each step is protocol-respecting with probability 85%.
func p17GenHistory(r *Rng) (ops []p17Op, tags []string, nontrivial bool) {
	n := r.Range(8, 60)
	a := p17SpecInit()
	proto := true
	deliveries, closedErr, relisten, stale := 0, 0, 0, 0
	for len(ops) < n {
		var o p17Op
		switch k := r.Intn(20); {
		case k < 2:
			o = p17Op{kind: "oi"}
		case k < 4:
			o = p17Op{kind: "oo"}
		case k < 5:
			o = p17Op{kind: "ci"}
		case k < 6:
			o = p17Op{kind: "co"}
		case k < 8:
			o = p17Op{kind: "l"}
		case k < 9:
			o = p17Op{kind: "L"}
		case k < 12:
			if a.fns == 0 {
				continue
			}
			if r.Chance(3, 4) {
				o = p17Op{kind: "s", arg: a.fns - 1}
			} else {
				o = p17Op{kind: "s", arg: r.Intn(a.fns)}
			}
		case k < 19:
			o = p17Op{kind: "x", arg: len(ops) % 128}
		default:
			o = p17Op{kind: "X", arg: len(ops) % 128}
		}
		if proto && !a.allowed(o) {
			if !r.Chance(15, 100) {
				continue
			}
			proto = false
		}
		if o.kind == "s" && o.arg != a.fns-1 {
			stale++
		}
		ob := a.step(o)
		if proto {
			deliveries += len(ob.calls)
			if ob.res == 1 {
				closedErr++
			}
			if (o.kind == "l" || o.kind == "L") && a.fns > 1 {
				relisten++
			}
		}
		ops = append(ops, o)
	}
	tags = append(tags, "testdrv-hist")
	if proto {
		tags = append(tags, "hist:protocol-respecting")
	} else {
		tags = append(tags, "hist:leaves-protocol")
	}
	if deliveries > 0 {
		tags = append(tags, "hist:delivery")
	}
	if closedErr > 0 {
		tags = append(tags, "hist:port-closed-error")
	}
	if relisten > 0 {
		tags = append(tags, "hist:relisten")
	}
	if stale > 0 {
		tags = append(tags, "hist:older-stop-fn")
	}
	return ops, tags, deliveries > 0
}

func p17Run(c Case, m *Model) Verdict {
	switch {
	case strings.HasPrefix(c.Op, "ports.hist "):
		return p17RunHist(c, m)
	case strings.HasPrefix(c.Op, "ports.enum "):
		return p17RunEnum(c, m)
	case strings.HasPrefix(c.Op, "ports.sysex "):
		return p17RunSysex(c, m)
	case strings.HasPrefix(c.Op, "midicat."):
		return p17RunMidicat(c, m)
	}
	return Verdict{Mismatch: []string{"unknown op"}}
}

// one history, compared call by call with the model and (on its protocol-respecting prefix) with the
// Go contract and the Lean contract
func p17RunHist(c Case, m *Model) (v Verdict) {
	f := fields(c.Op)
	ops, ok := p17ParseOps(f["ops"])
	if !ok {
		v.Mismatch = append(v.Mismatch, "unparsable op")
		return
	}
	impl := p17RunImpl(ops, nil)
	mf := fields(m.Ask(c.Op))
	if got := p17ShowObs(impl); mf["r"] != got {
		v.Mismatch = append(v.Mismatch, "per-call observations differ: model "+short(mf["r"])+" impl "+short(got))
	}
	a := p17SpecInit()
	var spec []p17Obs
	for i, o := range ops {
		if !a.allowed(o) {
			break
		}
		so := a.step(o)
		spec = append(spec, so)
		if !so.equal(impl[i]) && len(v.Oracle) == 0 {
			v.Oracle = append(v.Oracle, p17Shrink(ops)+fmt.Sprintf(" (shrunk from %s)", p17ShowOps(ops[:i+1])))
		}
	}
	if mf["proto"] != strconv.Itoa(len(spec)) || mf["spec"] != p17ShowObs(spec) {
		v.Mismatch = append(v.Mismatch, "Lean contract and Go contract differ: lean proto="+mf["proto"]+" "+short(mf["spec"])+
			" go proto="+strconv.Itoa(len(spec))+" "+short(p17ShowObs(spec)))
	}
	for _, o := range impl {
		if o.res == 4 {
			v.Oracle = append(v.Oracle, "a call panicked: "+p17ShowOps(ops)+" -> "+p17ShowObs(impl))
			break
		}
	}
	return
}

var p17Localised int

// all extensions of a prefix by `depth` calls
func p17RunEnum(c Case, m *Model) (v Verdict) {
	f := fields(c.Op)
	pre, ok := p17ParseOps(f["pre"])
	depth, err := strconv.Atoi(f["depth"])
	if !ok || err != nil || depth < 0 || depth > 12 {
		v.Mismatch = append(v.Mismatch, "unparsable op")
		return
	}
	n0 := len(pre)
	path := append([]p17Op{}, pre...)
	specObs := make([]p17Obs, n0+depth)
	protoOK := make([]bool, n0+depth+1) // protoOK[j]: path[:j] respects the protocol
	a0 := p17SpecInit()
	protoOK[0] = true
	for j, o := range pre {
		if protoOK[j] && a0.allowed(o) {
			a0.step(o)
			protoOK[j+1] = true
		}
	}
	var nodes, snodes, leaves int
	h, hs := p17Basis, p17Basis
	firstNew := n0 + depth
	var buf []p17Obs
	var rec func(a p17Spec)
	rec = func(a p17Spec) {
		j := len(path)
		if j == n0+depth {
			leaves++
			buf = p17RunImpl(path, buf)
			for i := firstNew; i < j; i++ {
				nodes++
				h = p17Mix(h, p17Code(buf[i]))
				if buf[i].res == 4 && len(v.Oracle) < 3 {
					v.Oracle = append(v.Oracle, fmt.Sprintf("testdrv history %s: call #%d panicked", p17ShowOps(path[:i+1]), i))
				}
				if protoOK[i+1] && !specObs[i].equal(buf[i]) && len(v.Oracle) < 3 {
					v.Oracle = append(v.Oracle, p17Shrink(path[:i+1])+fmt.Sprintf(" (shrunk from %s)", p17ShowOps(path[:i+1])))
				}
			}
			firstNew = j
			return
		}
		for _, o := range p17Alphabet(p17CountListens(path), j) {
			if j < firstNew {
				firstNew = j
			}
			b := a
			protoOK[j+1] = protoOK[j] && b.allowed(o)
			if protoOK[j+1] {
				specObs[j] = b.step(o)
				snodes++
				hs = p17Mix(hs, p17Code(specObs[j]))
			}
			path = append(path, o)
			rec(b)
			path = path[:j]
		}
	}
	if depth == 0 {
		return
	}
	rec(a0)
	mf := fields(m.Ask(c.Op))
	v.Tags = append(v.Tags, fmt.Sprintf("enum:histories-of-full-length=%d", leaves))
	if mf["nodes"] != strconv.Itoa(nodes) || mf["h"] != strconv.FormatUint(h, 10) {
		msg := fmt.Sprintf("model and testdrv differ below prefix %s: model nodes=%s h=%s impl nodes=%d h=%d",
			p17ShowOps(pre), mf["nodes"], mf["h"], nodes, h)
		// find one history on which they differ
		if p17Localised < 3 {
			p17Localised++
			msg += "; " + p17Localise(pre, depth, m)
		}
		v.Mismatch = append(v.Mismatch, msg)
	}
	if mf["snodes"] != strconv.Itoa(snodes) || mf["hs"] != strconv.FormatUint(hs, 10) {
		v.Mismatch = append(v.Mismatch, fmt.Sprintf("Lean contract and Go contract differ below prefix %s: lean snodes=%s hs=%s go snodes=%d hs=%d",
			p17ShowOps(pre), mf["snodes"], mf["hs"], snodes, hs))
	}
	return
}

// p17Localise asks the model for every full-length history below the prefix until one differs.
func p17Localise(pre []p17Op, depth int, m *Model) string {
	path := append([]p17Op{}, pre...)
	found := ""
	var rec func()
	rec = func() {
		if found != "" {
			return
		}
		if len(path) == len(pre)+depth {
			impl := p17ShowObs(p17RunImpl(path, nil))
			op := "ports.hist ops=" + p17ShowOps(path)
			if r := fields(m.Ask(op))["r"]; r != impl {
				found = "first differing history: " + op + " model " + r + " impl " + impl
			}
			return
		}
		j := len(path)
		for _, o := range p17Alphabet(p17CountListens(path), j) {
			path = append(path, o)
			rec()
			path = path[:j]
		}
	}
	rec()
	if found == "" {
		return "no single history differs (digest bookkeeping?)"
	}
	return found
}
