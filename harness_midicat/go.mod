module verifharnessmidicat

go 1.22.2

require gitlab.com/gomidi/midi/v2 v2.0.0

replace gitlab.com/gomidi/midi/v2 => /repo/v2
