package main

// C12: playback sends every playable event once, in file order, never early.
//
// Case op (never sent to the model verbatim; it describes a file and a way of playing it):
//   c12.play api=multi res=<ticks/quarter> sel=<ints|-> pm=<key:port,…|-> t=<delta>:<hex>,…,<delta>:x t=…
//   c12.play api=one open=<0|1> port=<n> res=… sel=… t=…
//   c12.playable <hex>
// One `t=` token per track: the arguments of the Track.Add calls, closed by Track.Close(<delta>) (`<delta>:x`).
// The file is built through the public API, written, read back with smf.ReadTracksFrom and played on recording
// fakes that implement drivers.Out. The model is asked with what TracksReader.Do hands out for the *whole* file
// (per event: AbsMicroSeconds and bytes), the selection and the port map:
//   play.multi sel=… pm=… t=<µs>:<hex>,… t=…   →   r=ok n=<k> seq=<track>.<idx>.<port>,… sl=<ns>,…  |  r=error

import (
	"bytes"
	"fmt"
	"io"
	"sort"
	"strconv"
	"strings"
	"time"

	"gitlab.com/gomidi/midi/v2/drivers"
	"gitlab.com/gomidi/midi/v2/smf"
)

func init() {
	register(&Prop{
		ID: "C12",
		Rule: "multi-track files built with smf.NewSMF1/Track.Add/Close/SMF.Add from the seeded PRNG: bursts of up to 16 events per " +
			"track on ticks shared by all tracks (13 and more equal sort keys in an unsorted concatenation), round-robin and " +
			"random-walk tick patterns, exactly 12/13/14 events, meta/sysex events mixed in, tempo changes in any track, resolutions " +
			"1..32767, total duration at most 45 ms; every kind of track selection (all, subsets, single, out of range, duplicates) and " +
			"port map (default only, full, partial with and without the -1 default, foreign keys, empty) plus Play(out) with working and " +
			"failing Open; a second stream probes IsPlayable on all 256 first bytes; non-trivial = at least two selected, mapped " +
			"tracks have channel messages on one common tick (the sort sees equal keys from different tracks); distinct by op text",
		Gen: genC12,
		Run: runC12,
	})
	factWriters = append(factWriters, c12Facts)
}

// c12Facts dumps smf.Message{b,0,0}.IsPlayable() for all 256 first bytes from the compiled library.
func c12Facts(w io.Writer) {
	fmt.Fprintln(w, "/-- `smf.Message{b, 0, 0}.IsPlayable()` for b = 0..255, from the compiled library -/")
	var xs []string
	for b := 0; b < 256; b++ {
		xs = append(xs, strconv.FormatBool(smf.Message{byte(b), 0, 0}.IsPlayable()))
	}
	fmt.Fprintf(w, "def playableFirstByte : List Bool := [%s]\n", strings.Join(xs, ", "))
	fmt.Fprintln(w, "/-- `smf.Message{}.IsPlayable()` -/")
	fmt.Fprintf(w, "def playableEmpty : Bool := %v\n", smf.Message{}.IsPlayable())
}

// ---------- op ----------

type c12Ev struct {
	delta uint32
	msg   []byte
}

type c12Track struct {
	evs        []c12Ev
	closeDelta uint32
}

type c12Case struct {
	api    string // multi | one
	res    int
	sel    []int
	pm     [][2]int // key, port (distinct keys)
	open   bool     // api=one: Open succeeds
	port   int      // api=one
	tracks []c12Track
}

func intsStr(xs []int) string {
	if len(xs) == 0 {
		return "-"
	}
	var p []string
	for _, x := range xs {
		p = append(p, strconv.Itoa(x))
	}
	return strings.Join(p, ",")
}

func pmStr(pm [][2]int) string {
	if len(pm) == 0 {
		return "-"
	}
	var p []string
	for _, kv := range pm {
		p = append(p, fmt.Sprintf("%d:%d", kv[0], kv[1]))
	}
	return strings.Join(p, ",")
}

func (c *c12Case) String() string {
	var sb strings.Builder
	if c.api == "one" {
		o := 0
		if c.open {
			o = 1
		}
		fmt.Fprintf(&sb, "c12.play api=one open=%d port=%d res=%d sel=%s", o, c.port, c.res, intsStr(c.sel))
	} else {
		fmt.Fprintf(&sb, "c12.play api=multi res=%d sel=%s pm=%s", c.res, intsStr(c.sel), pmStr(c.pm))
	}
	for _, t := range c.tracks {
		sb.WriteString(" t=")
		for _, e := range t.evs {
			fmt.Fprintf(&sb, "%d:%s,", e.delta, hx(e.msg))
		}
		fmt.Fprintf(&sb, "%d:x", t.closeDelta)
	}
	return sb.String()
}

func parseC12(op string) (*c12Case, error) {
	c := &c12Case{api: "multi", open: true}
	for _, tok := range strings.Fields(op)[1:] {
		i := strings.IndexByte(tok, '=')
		if i < 0 {
			return nil, fmt.Errorf("bad token %q", tok)
		}
		k, v := tok[:i], tok[i+1:]
		switch k {
		case "api":
			c.api = v
		case "res":
			c.res, _ = strconv.Atoi(v)
		case "open":
			c.open = v == "1"
		case "port":
			c.port, _ = strconv.Atoi(v)
		case "sel":
			if v != "-" {
				for _, s := range strings.Split(v, ",") {
					n, err := strconv.Atoi(s)
					if err != nil {
						return nil, err
					}
					c.sel = append(c.sel, n)
				}
			}
		case "pm":
			if v != "-" {
				for _, s := range strings.Split(v, ",") {
					kv := strings.Split(s, ":")
					if len(kv) != 2 {
						return nil, fmt.Errorf("bad port map entry %q", s)
					}
					a, e1 := strconv.Atoi(kv[0])
					b, e2 := strconv.Atoi(kv[1])
					if e1 != nil || e2 != nil {
						return nil, fmt.Errorf("bad port map entry %q", s)
					}
					c.pm = append(c.pm, [2]int{a, b})
				}
			}
		case "t":
			var t c12Track
			closed := false
			for _, s := range strings.Split(v, ",") {
				dm := strings.Split(s, ":")
				if len(dm) != 2 || closed {
					return nil, fmt.Errorf("bad event %q", s)
				}
				d, err := strconv.ParseUint(dm[0], 10, 32)
				if err != nil {
					return nil, err
				}
				if dm[1] == "x" {
					t.closeDelta = uint32(d)
					closed = true
				} else {
					t.evs = append(t.evs, c12Ev{uint32(d), unhx(dm[1])})
				}
			}
			if !closed {
				return nil, fmt.Errorf("track without close")
			}
			c.tracks = append(c.tracks, t)
		default:
			return nil, fmt.Errorf("unknown key %q", k)
		}
	}
	if c.api == "one" {
		c.pm = [][2]int{{-1, c.port}}
	}
	return c, nil
}

// ---------- generator ----------

type c12Item struct {
	tick int
	msg  []byte
}

// c12Msgs hands out messages whose byte strings are pairwise distinct within one file, so that every Send can be
// attributed to its (track, index).
type c12Msgs struct {
	used   map[string]bool
	serial int
}

func (g *c12Msgs) take(b []byte) bool {
	k := string(b)
	if g.used[k] {
		return false
	}
	g.used[k] = true
	return true
}

func (g *c12Msgs) channel(r *Rng) []byte {
	for {
		if r.Chance(1, 8) {
			// one data byte: program change / channel pressure (bank select before program change is the musical case)
			m := []byte{byte(r.Pick(0xC0, 0xD0) | r.Intn(16)), byte(r.Intn(128))}
			if g.take(m) {
				return m
			}
			continue
		}
		g.serial++
		st := byte(r.Pick(0x80, 0x90, 0x90, 0xA0, 0xB0, 0xB0, 0xE0) | r.Intn(16))
		m := []byte{st, byte(g.serial >> 7 & 0x7F), byte(g.serial & 0x7F)}
		if g.take(m) {
			return m
		}
	}
}

func (g *c12Msgs) text(r *Rng) []byte {
	for {
		g.serial++
		s := fmt.Sprintf("m%d", g.serial)
		m := append([]byte{0xFF, byte(r.Pick(0x01, 0x03, 0x05, 0x06, 0x7F)), byte(len(s))}, s...)
		if g.take(m) {
			return m
		}
	}
}

func (g *c12Msgs) otherMeta(r *Rng) []byte {
	switch r.Intn(4) {
	case 0:
		return []byte{0xFF, 0x58, 0x04, byte(r.Range(1, 12)), byte(r.Intn(5)), 24, 8}
	case 1:
		return []byte{0xFF, 0x59, 0x02, byte(r.Intn(8)), byte(r.Intn(2))}
	case 2:
		return []byte{0xFF, 0x20, 0x01, byte(r.Intn(16))}
	default:
		return []byte{0xFF, 0x00, 0x02, byte(r.Intn(128)), byte(r.Intn(128))}
	}
}

func (g *c12Msgs) sysex(r *Rng) []byte {
	for {
		g.serial++
		m := []byte{byte(r.Pick(0xF0, 0xF0, 0xF7)), 0x7D, byte(g.serial >> 7 & 0x7F), byte(g.serial & 0x7F), 0xF7}
		if g.take(m) {
			return m
		}
	}
}

func c12Tempo(us int) []byte {
	return []byte{0xFF, 0x51, 0x03, byte(us >> 16), byte(us >> 8), byte(us)}
}

// genC12Ticks returns per track a non-decreasing list of absolute ticks (one entry per event) and the pattern name.
func genC12Ticks(r *Rng, ntr int, big bool) ([][]int, string) {
	ticks := make([][]int, ntr)
	burst := func(maxPer int) {
		k := r.Range(2, 4)
		shared := map[int]bool{}
		for len(shared) < k {
			shared[r.Intn(24)] = true
		}
		var sh []int
		for s := range shared {
			sh = append(sh, s)
		}
		sort.Ints(sh)
		for i := range ticks {
			for _, s := range sh {
				if r.Chance(1, 6) {
					continue
				}
				n := r.Range(1, maxPer)
				if r.Chance(1, 3) {
					n = r.Pick(6, 7, 12, 13, maxPer)
				}
				for j := 0; j < n; j++ {
					ticks[i] = append(ticks[i], s)
				}
			}
		}
	}
	walk := func(maxLen int) {
		for i := range ticks {
			t := 0
			if len(ticks[i]) > 0 {
				t = ticks[i][len(ticks[i])-1]
			}
			n := r.Intn(maxLen + 1)
			for j := 0; j < n; j++ {
				if !r.Chance(3, 5) {
					t += r.Pick(1, 1, 2, 5)
				}
				ticks[i] = append(ticks[i], t)
			}
		}
	}
	maxPer := 16
	if big {
		maxPer = 40
	}
	switch p := r.Intn(10); {
	case p < 4:
		burst(maxPer)
		return ticks, "burst"
	case p < 5:
		// round robin: in round j track i plays on tick j*ntr+i, or all tracks share tick j
		rounds := r.Range(2, 8)
		share := r.Bool()
		for j := 0; j < rounds; j++ {
			for i := range ticks {
				t := j*ntr + i
				if share {
					t = j
				}
				for n := r.Range(1, 3); n > 0; n-- {
					ticks[i] = append(ticks[i], t)
				}
			}
		}
		return ticks, "roundrobin"
	case p < 7:
		walk(30)
		return ticks, "walk"
	case p < 9:
		burst(maxPer)
		walk(12)
		return ticks, "burst+walk"
	default:
		// exactly 12, 13 or 14 events, nearly all on one tick, concatenation not sorted
		total := r.Pick(12, 13, 13, 14)
		s := r.Range(1, 5)
		for j := 0; j < total; j++ {
			i := r.Intn(ntr)
			ticks[i] = append(ticks[i], s)
		}
		i := r.Intn(ntr)
		if ntr > 1 {
			i = r.Range(1, ntr-1)
		}
		ticks[i] = append([]int{r.Intn(s)}, ticks[i]...)
		return ticks, "boundary13"
	}
}

func genC12Case(r *Rng, tier string) (*c12Case, []string, bool) {
	var tags []string
	big := tier == "thorough" && r.Chance(1, 10)
	ntr := r.Pick(1, 2, 2, 2, 3, 3, 4, 5, 6)
	if r.Chance(1, 25) {
		ntr = r.Range(7, 17)
	}
	many := r.Chance(1, 30)
	if many {
		// more tracks than a machine word has bits
		ntr = r.Pick(31, 32, 33, 63, 64, 65, 66, 70, 100, 128, 129, 130, 257)
		tags = append(tags, "many-tracks")
	}
	ticks, pat := genC12Ticks(r, ntr, big)
	if many {
		for i := range ticks {
			if len(ticks[i]) > 2 {
				ticks[i] = ticks[i][:2]
			}
		}
	}
	tags = append(tags, "pattern="+pat)
	maxTick := 1
	nEv := 0
	for _, tt := range ticks {
		nEv += len(tt)
		for _, t := range tt {
			if t > maxTick {
				maxTick = t
			}
		}
	}
	// time budget: the last event is scheduled no later than budget µs
	budget := r.Pick(200, 1000, 3000, 8000, 15000, 25000, 45000)
	if nEv > 150 {
		budget = r.Pick(200, 1000, 3000, 8000)
	}
	c := &c12Case{api: "multi", open: true}
	useTempo := true
	if r.Chance(1, 7) && maxTick <= 40 {
		// no tempo event at all: 120 BPM, resolution high enough for the budget
		useTempo = false
		c.res = r.Pick(960, 4800, 9600, 32767)
		for maxTick*500000/c.res > 45000 {
			c.res = 32767
		}
		tags = append(tags, "no-tempo")
	} else {
		c.res = r.Pick(1, 24, 96, 96, 120, 480, 960, 32767)
	}
	tempoCap := budget * c.res / maxTick
	if tempoCap < 1 {
		tempoCap = 1
	}
	if tempoCap > 0xFFFFFF {
		tempoCap = 0xFFFFFF
	}
	pickTempo := func() int {
		switch r.Intn(4) {
		case 0:
			return tempoCap
		case 1:
			return r.Range(1, tempoCap)
		case 2:
			return r.Range((tempoCap+1)/2, tempoCap)
		default:
			return r.Pick(1, tempoCap) // 1 µs per quarter: different ticks collapse onto one microsecond
		}
	}
	g := &c12Msgs{used: map[string]bool{}}
	items := make([][]c12Item, ntr)
	hasMeta, hasSysex := false, false
	for i, tt := range ticks {
		for _, t := range tt {
			var m []byte
			switch p := r.Intn(100); {
			case p < 80:
				m = g.channel(r)
			case p < 90:
				m = g.text(r)
				hasMeta = true
			case p < 96:
				m = g.otherMeta(r)
				hasMeta = true
			default:
				m = g.sysex(r)
				hasSysex = true
			}
			items[i] = append(items[i], c12Item{t, m})
		}
	}
	if useTempo {
		// initial tempo at tick 0 in some track, further tempo changes anywhere (all at most tempoCap)
		i := r.Intn(ntr)
		items[i] = append([]c12Item{{0, c12Tempo(pickTempo())}}, items[i]...)
		tags = append(tags, "tempo-at-0")
		nch := r.Pick(0, 0, 1, 2, 4)
		if nch > 0 {
			tags = append(tags, "tempo-changes")
		}
		var tempoTicks []int
		for ; nch > 0; nch-- {
			i := r.Intn(ntr)
			at := r.Intn(maxTick + 1)
			if len(tempoTicks) > 0 && r.Chance(1, 3) {
				at = tempoTicks[r.Intn(len(tempoTicks))] // several tempo changes on one tick: the last one counts
				tags = append(tags, "tempo-changes-on-one-tick")
			}
			tempoTicks = append(tempoTicks, at)
			pos := sort.Search(len(items[i]), func(j int) bool { return items[i][j].tick > at })
			if r.Bool() {
				pos = sort.Search(len(items[i]), func(j int) bool { return items[i][j].tick >= at })
			}
			ins := c12Item{at, c12Tempo(pickTempo())}
			items[i] = append(items[i][:pos], append([]c12Item{ins}, items[i][pos:]...)...)
			hasMeta = true
		}
	}
	if hasMeta {
		tags = append(tags, "meta-mixed")
	}
	if hasSysex {
		tags = append(tags, "sysex")
	}
	for i := range items {
		var t c12Track
		last := 0
		for _, it := range items[i] {
			t.evs = append(t.evs, c12Ev{uint32(it.tick - last), it.msg})
			last = it.tick
		}
		if r.Chance(1, 3) && last < maxTick {
			t.closeDelta = uint32(r.Intn(maxTick - last + 1))
		}
		c.tracks = append(c.tracks, t)
	}
	// selection
	switch p := r.Intn(10); {
	case p < 4:
		tags = append(tags, "sel=all")
	case p < 6:
		for i := 0; i < ntr; i++ {
			if r.Bool() {
				c.sel = append(c.sel, i)
			}
		}
		if len(c.sel) == 0 {
			c.sel = []int{r.Intn(ntr)}
		}
		tags = append(tags, "sel=subset")
	case p < 7:
		c.sel = []int{r.Intn(ntr)}
		tags = append(tags, "sel=single")
	case p < 8:
		// first / last track only: off-by-one in the filter shows here
		c.sel = []int{r.Pick(0, ntr-1)}
		tags = append(tags, "sel=edge")
	case p < 9:
		c.sel = []int{r.Intn(ntr), ntr, r.Pick(-1, -2, 99)}
		if r.Bool() {
			c.sel = []int{ntr}
		}
		tags = append(tags, "sel=out-of-range")
	default:
		a := r.Intn(ntr)
		c.sel = []int{a, a, r.Intn(ntr)}
		tags = append(tags, "sel=duplicates")
	}
	// port map
	np := r.Range(1, 3)
	pmKind := r.Intn(11)
	if r.Chance(1, 30) {
		pmKind = 11
	}
	switch p := pmKind; {
	case p < 3:
		c.pm = [][2]int{{-1, r.Intn(np)}}
		tags = append(tags, "pm=default-only")
	case p < 5:
		for i := 0; i < ntr; i++ {
			c.pm = append(c.pm, [2]int{i, r.Intn(np)})
		}
		tags = append(tags, "pm=full-no-default")
	case p < 7:
		for i := 0; i < ntr; i++ {
			if r.Bool() {
				c.pm = append(c.pm, [2]int{i, r.Intn(np)})
			}
		}
		if len(c.pm) == 0 {
			c.pm = [][2]int{{r.Intn(ntr), 0}}
		}
		tags = append(tags, "pm=partial-no-default")
	case p < 10:
		for i := 0; i < ntr; i++ {
			if r.Bool() {
				c.pm = append(c.pm, [2]int{i, r.Intn(np)})
			}
		}
		c.pm = append(c.pm, [2]int{-1, r.Intn(np)})
		tags = append(tags, "pm=partial+default")
	case p < 11:
		// keys that are no track of the file (and no default): nothing may be sent for them
		c.pm = [][2]int{{ntr, 0}, {r.Pick(-2, 99), r.Intn(np)}}
		if r.Bool() {
			c.pm = append(c.pm, [2]int{r.Intn(ntr), r.Intn(np)})
		}
		tags = append(tags, "pm=foreign-keys")
	default:
		c.pm = nil
		tags = append(tags, "pm=empty")
	}
	// shuffle the textual order of the map entries (a Go map has none)
	for i := len(c.pm) - 1; i > 0; i-- {
		j := r.Intn(i + 1)
		c.pm[i], c.pm[j] = c.pm[j], c.pm[i]
	}
	if r.Chance(1, 12) {
		c.api = "one"
		c.open = !r.Chance(1, 4)
		c.port = r.Intn(3)
		c.pm = [][2]int{{-1, c.port}}
		tags = append(tags, "api=Play")
		if !c.open {
			tags = append(tags, "open-fails")
		}
	}
	// non-trivial: two selected, mapped tracks have channel messages on a common tick
	seenTick := map[int]int{} // tick -> first track seen +1
	nt := false
	maxTie := 0
	tie := map[int]int{}
	for i := range items {
		if !c12Selected(c.sel, i) {
			continue
		}
		if _, ok := c12Port(c.pm, i); !ok {
			continue
		}
		for _, it := range items[i] {
			if it.msg[0] >= 0x80 && it.msg[0] <= 0xEF {
				tie[it.tick]++
				if tie[it.tick] > maxTie {
					maxTie = tie[it.tick]
				}
				if tr, ok := seenTick[it.tick]; ok && tr != i+1 {
					nt = true
				} else if !ok {
					seenTick[it.tick] = i + 1
				}
			}
		}
	}
	if c.api == "one" && !c.open {
		nt = false
	}
	if maxTie >= 13 && nt {
		tags = append(tags, "equal-ticks>=13")
	}
	tags = append(tags, fmt.Sprintf("tracks=%d", min(ntr, 7)))
	return c, tags, nt
}

func genC12(r *Rng, tier string, emit func(Case)) {
	// NewRng(seed) starts seed n exactly n-1 outputs further down the *same* splitmix sequence as seed 1, and
	// generators that consume a data-dependent number of values re-synchronise on it (seeds 1, 3, 4, 5 gave
	// identical files). Fork first: the forked state is a mixed output, unrelated between seeds.
	r = r.Fork()
	rPlay := r.Fork()
	// IsPlayable on every first byte, three shapes each
	for b := 0; b < 256; b++ {
		for _, m := range [][]byte{{byte(b)}, {byte(b), byte(r.Intn(128)), byte(r.Intn(128))}, append([]byte{byte(b)}, r.Bytes(r.Range(1, 6))...)} {
			emit(Case{Op: "c12.playable " + hx(m), Tags: []string{"playable-probe"}})
		}
	}
	emit(Case{Op: "c12.playable -", Tags: []string{"playable-probe"}})
	// very many events on one tick
	huge := []int{3000, 70000}
	if tier == "thorough" {
		huge = []int{3000, 70000, 1<<20 + 60, 1<<21 + 60}
	}
	for i, hn := range huge {
		emit(Case{Op: fmt.Sprintf("c12.huge n=%d via=%s", hn, []string{"play", "multi"}[i%2]), Tags: []string{"huge-tick"}, NonTrivial: true})
	}
	n := 700
	if tier == "thorough" {
		n = 5000
	}
	for i := 0; i < n; i++ {
		c, tags, nt := genC12Case(rPlay, tier)
		emit(Case{Op: c.String(), Tags: tags, NonTrivial: nt})
	}
}

// ---------- what the property says (independent of the model) ----------

func c12Selected(sel []int, k int) bool {
	if len(sel) == 0 {
		return true
	}
	for _, s := range sel {
		if s == k {
			return true
		}
	}
	return false
}

func c12Port(pm [][2]int, k int) (int, bool) {
	for _, kv := range pm {
		if kv[0] == k {
			return kv[1], true
		}
	}
	for _, kv := range pm {
		if kv[0] == -1 {
			return kv[1], true
		}
	}
	return 0, false
}

// ---------- recording fakes ----------

type c12Send struct {
	port int
	data []byte
	at   time.Time
}

type c12Recorder struct{ sends []c12Send }

type c12Out struct {
	id      int
	rec     *c12Recorder
	openErr error
	opened  bool
}

func (o *c12Out) Open() error {
	if o.openErr != nil {
		return o.openErr
	}
	o.opened = true
	return nil
}
func (o *c12Out) Close() error            { o.opened = false; return nil }
func (o *c12Out) IsOpen() bool            { return o.opened }
func (o *c12Out) Number() int             { return o.id }
func (o *c12Out) String() string          { return "rec" + strconv.Itoa(o.id) }
func (o *c12Out) Underlying() interface{} { return nil }
func (o *c12Out) Send(data []byte) error {
	now := time.Now()
	o.rec.sends = append(o.rec.sends, c12Send{o.id, append([]byte(nil), data...), now})
	return nil
}

var _ drivers.Out = (*c12Out)(nil)

// ---------- run ----------

type c12Pos struct{ track, idx int }

func runC12(c Case, m *Model) (v Verdict) {
	if strings.HasPrefix(c.Op, "c12.playable ") {
		return runC12Playable(c, m)
	}
	if strings.HasPrefix(c.Op, "c12.huge ") {
		return runC12Huge(c, m)
	}
	cs, err := parseC12(c.Op)
	if err != nil {
		v.Note = "unparsable op: " + err.Error()
		v.Mismatch = append(v.Mismatch, v.Note)
		return
	}
	// 1. build the file through the public API, write it
	var file bytes.Buffer
	var werr error
	if p := try(func() {
		s := smf.NewSMF1()
		s.TimeFormat = smf.MetricTicks(cs.res)
		for _, t := range cs.tracks {
			var tr smf.Track
			for _, e := range t.evs {
				tr.Add(e.delta, e.msg)
			}
			tr.Close(t.closeDelta)
			s.Add(tr)
		}
		_, werr = s.WriteTo(&file)
	}); p != "" || werr != nil {
		v.Mismatch = append(v.Mismatch, fmt.Sprintf("the file could not be built/written (panic %q, error %v): nothing to play", p, werr))
		return
	}
	// 2. what Do hands out for the whole file: per track (AbsMicroSeconds, bytes)
	type doEv struct {
		us  int64
		msg []byte
	}
	var doTracks [][]doEv
	var rerr error
	if p := try(func() {
		rd := smf.ReadTracksFrom(bytes.NewReader(file.Bytes()))
		rerr = rd.Error()
		if rerr != nil {
			return
		}
		doTracks = make([][]doEv, len(rd.SMF().Tracks))
		rd.Do(func(te smf.TrackEvent) {
			if te.TrackNo >= 0 && te.TrackNo < len(doTracks) {
				doTracks[te.TrackNo] = append(doTracks[te.TrackNo], doEv{te.AbsMicroSeconds, append([]byte(nil), te.Message...)})
			}
		})
	}); p != "" || rerr != nil {
		v.Mismatch = append(v.Mismatch, fmt.Sprintf("the written file could not be read back (panic %q, error %v)", p, rerr))
		return
	}
	// hypotheses of the theorems, checked on what the library hands out (they are C11's business)
	var maxUs int64
	for k, tr := range doTracks {
		var last int64
		for i, e := range tr {
			if e.us < 0 || e.us < last {
				v.Mismatch = append(v.Mismatch, fmt.Sprintf("hypothesis FileMono/InRange not met by the library: track %d event %d has time %d after %d", k, i, e.us, last))
				return
			}
			last = e.us
			if e.us > maxUs {
				maxUs = e.us
			}
		}
	}
	if maxUs > 1000000 {
		v.Mismatch = append(v.Mismatch, fmt.Sprintf("the library schedules the last event at %d µs; the generator builds files of at most 45 ms (tempo map broken?)", maxUs))
		return
	}
	// position of every message: as built (oracle) and as read back (model comparison)
	builtPos := map[string]c12Pos{}
	ambiguous := false
	builtTick := map[c12Pos]int64{}
	for k, t := range cs.tracks {
		var tick int64
		for i, e := range t.evs {
			tick += int64(e.delta)
			key := string(e.msg)
			if len(e.msg) == 0 || e.msg[0] == 0xFF {
				continue // meta events are never attributed: sending one is a violation whatever its position
			}
			if _, dup := builtPos[key]; dup {
				ambiguous = true
			}
			builtPos[key] = c12Pos{k, i}
			builtTick[c12Pos{k, i}] = tick
		}
	}
	if ambiguous {
		v.Note = "op with repeated byte strings: sends cannot be attributed"
		v.Mismatch = append(v.Mismatch, v.Note)
		return
	}
	readPos := map[string]c12Pos{}
	usOf := map[c12Pos]int64{}
	for k, tr := range doTracks {
		for i, e := range tr {
			if len(e.msg) == 0 || e.msg[0] == 0xFF {
				continue
			}
			readPos[string(e.msg)] = c12Pos{k, i}
			usOf[c12Pos{k, i}] = e.us
		}
	}
	// 2b. the scheduled times against the tempo map of the file, computed here from the built case with exact integer
	// arithmetic (a tempo event acts from its tick on; of several on one tick of one track the last one counts; when
	// two tracks change the tempo on the same tick to different values the file is ambiguous and not judged)
	{
		type tch struct{ tick, track, pos, us int }
		var tcs []tch
		for k, t := range cs.tracks {
			tick := 0
			for i, e := range t.evs {
				tick += int(e.delta)
				if len(e.msg) == 6 && e.msg[0] == 0xFF && e.msg[1] == 0x51 && e.msg[2] == 3 {
					tcs = append(tcs, tch{tick, k, i, int(e.msg[3])<<16 | int(e.msg[4])<<8 | int(e.msg[5])})
				}
			}
		}
		sort.SliceStable(tcs, func(a, b int) bool {
			if tcs[a].tick != tcs[b].tick {
				return tcs[a].tick < tcs[b].tick
			}
			if tcs[a].track != tcs[b].track {
				return tcs[a].track < tcs[b].track
			}
			return tcs[a].pos < tcs[b].pos
		})
		ambiguous := len(tcs) > 12
		for i := 1; i < len(tcs); i++ {
			if tcs[i].tick == tcs[i-1].tick && tcs[i].track != tcs[i-1].track && tcs[i].us != tcs[i-1].us {
				ambiguous = true
			}
			if tcs[i].us == 0 || tcs[0].us == 0 {
				ambiguous = true // tempo 0: infinitely fast, not judged here
			}
		}
		if !ambiguous {
			// numerator of the time of a tick over the denominator res
			timeNum := func(tick int) int64 {
				var num int64
				cur, last := 500000, 0
				for i := 0; i < len(tcs); i++ {
					if tcs[i].tick >= tick {
						break
					}
					// the last change on this tick
					j := i
					for j+1 < len(tcs) && tcs[j+1].tick == tcs[i].tick {
						j++
					}
					num += int64(tcs[i].tick-last) * int64(cur)
					cur, last = tcs[j].us, tcs[i].tick
					i = j
				}
				return num + int64(tick-last)*int64(cur)
			}
			for k, t := range cs.tracks {
				tick := 0
				for i, e := range t.evs {
					tick += int(e.delta)
					us, has := usOf[c12Pos{k, i}]
					if !has {
						continue
					}
					num := timeNum(tick)
					lo, hi := num/int64(cs.res)-int64(len(tcs))-2, num/int64(cs.res)+int64(len(tcs))+2
					if us < lo || us > hi {
						v.Oracle = append(v.Oracle, fmt.Sprintf("track %d event %d (% X) on tick %d is scheduled at %d µs, the tempo map of the file puts it at %d µs :: %s", k, i, e.msg, tick, us, num/int64(cs.res), short(c.Op)))
						return
					}
				}
			}
			v.Counts = map[string]int{"schedule-vs-tempo-map": 1}
		}
	}
	// 3. the model
	var sb strings.Builder
	if cs.api == "one" {
		o := 0
		if cs.open {
			o = 1
		}
		fmt.Fprintf(&sb, "play.one sel=%s open=%d port=%d", intsStr(cs.sel), o, cs.port)
	} else {
		fmt.Fprintf(&sb, "play.multi sel=%s pm=%s", intsStr(cs.sel), pmStr(cs.pm))
	}
	for _, tr := range doTracks {
		sb.WriteString(" t=")
		if len(tr) == 0 {
			sb.WriteString("-")
		}
		for i, e := range tr {
			if i > 0 {
				sb.WriteByte(',')
			}
			fmt.Fprintf(&sb, "%d:%s", e.us, hx(e.msg))
		}
	}
	mf := fields(m.Ask(sb.String()))
	// 4. play on the recording fakes
	type played struct {
		sends []c12Send
		t0    time.Time
		err   error
		panic string
	}
	playOnce := func() (p played) {
		rec := &c12Recorder{sends: make([]c12Send, 0, 1024)}
		outs := map[int]*c12Out{}
		out := func(id int) *c12Out {
			if outs[id] == nil {
				outs[id] = &c12Out{id: id, rec: rec}
			}
			return outs[id]
		}
		p.panic = try(func() {
			rd := smf.ReadTracksFrom(bytes.NewReader(file.Bytes()), cs.sel...)
			if cs.api == "one" {
				o := out(cs.port)
				if !cs.open {
					o.openErr = fmt.Errorf("cannot open")
				}
				p.t0 = time.Now()
				p.err = rd.Play(o)
			} else {
				pm := map[int]drivers.Out{}
				for _, kv := range cs.pm {
					pm[kv[0]] = out(kv[1])
				}
				p.t0 = time.Now()
				p.err = rd.MultiPlay(pm)
			}
		})
		p.sends = rec.sends
		return
	}
	// never early (one-sided): against the instant just before the call, and against the first send
	timing := func(p played) (bad []string) {
		if len(p.sends) == 0 {
			return
		}
		sched := make([]int64, len(p.sends))
		for i, s := range p.sends {
			pos, ok := readPos[string(s.data)]
			if !ok {
				return // reported by the content oracle
			}
			sched[i] = usOf[pos]
		}
		first := p.sends[0].at
		for i, s := range p.sends {
			want := time.Duration(sched[i]) * time.Microsecond
			if got := s.at.Sub(p.t0); got < want {
				bad = append(bad, fmt.Sprintf("send %d (% X) left %v after the start of playback, scheduled at %v: early", i, s.data, got, want))
				break
			}
			wantRel := time.Duration(sched[i]-sched[0]) * time.Microsecond
			if got := s.at.Sub(first); got < wantRel {
				bad = append(bad, fmt.Sprintf("send %d (% X) left %v after the first send, scheduled %v after it: early", i, s.data, got, wantRel))
				break
			}
		}
		return
	}
	p := playOnce()
	if p.panic != "" {
		v.Oracle = append(v.Oracle, "playback panicked: "+p.panic)
		return
	}
	if bad := timing(p); len(bad) > 0 {
		// once more, alone, before reporting (machine load must not raise an alarm; a real defect reproduces)
		time.Sleep(20 * time.Millisecond)
		p2 := playOnce()
		if bad2 := timing(p2); len(bad2) > 0 && p2.panic == "" {
			v.Oracle = append(v.Oracle, bad[0], "again on the repeated run: "+bad2[0])
		} else {
			v.Tags = append(v.Tags, "timing-alarm-not-reproduced")
		}
	}
	// 4b. the same reader used again with other ports (every third case): the second playback must send the same
	// messages in the same order to the ports of ITS map (port ids shifted by 100)
	if hk := len(c.Op); hk%3 == 0 && p.err == nil && len(p.sends) > 0 {
		var second []c12Send
		var err2 error
		pn := try(func() {
			rd := smf.ReadTracksFrom(bytes.NewReader(file.Bytes()), cs.sel...)
			rec1 := &c12Recorder{sends: make([]c12Send, 0, 1024)}
			rec2 := &c12Recorder{sends: make([]c12Send, 0, 1024)}
			mk := func(rec *c12Recorder, shift int) (drivers.Out, map[int]drivers.Out) {
				outs := map[int]*c12Out{}
				get := func(id int) *c12Out {
					if outs[id] == nil {
						outs[id] = &c12Out{id: id + shift, rec: rec}
					}
					return outs[id]
				}
				pm := map[int]drivers.Out{}
				for _, kv := range cs.pm {
					pm[kv[0]] = get(kv[1])
				}
				return get(cs.port), pm
			}
			o1, pm1 := mk(rec1, 0)
			o2, pm2 := mk(rec2, 100)
			if cs.api == "one" {
				if rd.Play(o1) == nil {
					err2 = rd.Play(o2)
				}
			} else {
				if rd.MultiPlay(pm1) == nil {
					err2 = rd.MultiPlay(pm2)
				}
			}
			second = rec2.sends
		})
		v.Tags = append(v.Tags, "reader-played-twice")
		switch {
		case pn != "":
			v.Oracle = append(v.Oracle, "second playback on the same reader panicked: "+pn)
		case err2 != nil:
			v.Oracle = append(v.Oracle, "second playback on the same reader failed: "+err2.Error())
		case len(second) != len(p.sends):
			v.Oracle = append(v.Oracle, fmt.Sprintf("second playback on the same reader (ports shifted by 100) sent %d messages to its ports, the first %d", len(second), len(p.sends)))
		default:
			for i := range second {
				if string(second[i].data) != string(p.sends[i].data) || second[i].port != p.sends[i].port+100 {
					v.Oracle = append(v.Oracle, fmt.Sprintf("second playback on the same reader: send %d is % X to port %d, expected % X to port %d",
						i, second[i].data, second[i].port, p.sends[i].data, p.sends[i].port+100))
					break
				}
			}
		}
	}
	// 5. the property, judged on the recorded sends from the file as built
	count := map[string]int{}
	lastIdx := map[int]int{}
	var lastUs int64 = -1
	var lastTick int64 = -1
	for i, s := range p.sends {
		key := string(s.data)
		if len(s.data) > 0 && s.data[0] == 0xFF {
			v.Oracle = append(v.Oracle, fmt.Sprintf("send %d is a meta event: % X", i, s.data))
			continue
		}
		pos, ok := builtPos[key]
		if !ok {
			v.Oracle = append(v.Oracle, fmt.Sprintf("send %d (% X) is no message of the file", i, s.data))
			continue
		}
		count[key]++
		if count[key] == 2 {
			v.Oracle = append(v.Oracle, fmt.Sprintf("message % X of track %d sent more than once", s.data, pos.track))
		}
		if !c12Selected(cs.sel, pos.track) {
			v.Oracle = append(v.Oracle, fmt.Sprintf("send %d (% X) belongs to track %d which is not selected (%s)", i, s.data, pos.track, intsStr(cs.sel)))
		}
		if want, ok := c12Port(cs.pm, pos.track); !ok {
			v.Oracle = append(v.Oracle, fmt.Sprintf("send %d (% X) belongs to track %d which has no port and there is no default", i, s.data, pos.track))
		} else if want != s.port {
			v.Oracle = append(v.Oracle, fmt.Sprintf("send %d (% X) of track %d went to port %d, mapped port is %d", i, s.data, pos.track, s.port, want))
		}
		if li, seen := lastIdx[pos.track]; seen && pos.idx <= li {
			v.Oracle = append(v.Oracle, fmt.Sprintf("track %d out of file order: event %d (% X) sent after event %d", pos.track, pos.idx, s.data, li))
		}
		lastIdx[pos.track] = pos.idx
		us := usOf[pos]
		tick := builtTick[pos]
		if us < lastUs {
			v.Oracle = append(v.Oracle, fmt.Sprintf("send %d (% X, tick %d, %d µs) after an event at %d µs (tick %d): not merged by time", i, s.data, tick, us, lastUs, lastTick))
		}
		lastUs, lastTick = us, tick
	}
	wantSends := 0
	for k, t := range cs.tracks {
		if !c12Selected(cs.sel, k) {
			continue
		}
		if _, ok := c12Port(cs.pm, k); !ok {
			continue
		}
		for _, e := range t.evs {
			if e.msg[0] >= 0x80 && e.msg[0] <= 0xEF {
				wantSends++
				if p.err == nil && count[string(e.msg)] == 0 {
					v.Oracle = append(v.Oracle, fmt.Sprintf("channel message % X of track %d was never sent", e.msg, k))
				}
			}
		}
	}
	if len(v.Oracle) > 6 {
		v.Oracle = append(v.Oracle[:6], fmt.Sprintf("… %d more", len(v.Oracle)-6))
	}
	// 6. correspondence: result class, send sequence (track.idx.port), and the sleeps (one-sided)
	implR := "ok"
	if p.err != nil {
		implR = "error"
	}
	if mf["r"] != implR {
		v.Mismatch = append(v.Mismatch, "result class: model "+mf["r"]+" impl "+implR)
	}
	var seq []string
	for _, s := range p.sends {
		if pos, ok := readPos[string(s.data)]; ok {
			seq = append(seq, fmt.Sprintf("%d.%d.%d", pos.track, pos.idx, s.port))
		} else {
			seq = append(seq, "?"+hx(s.data))
		}
	}
	implSeq := "-"
	if len(seq) > 0 {
		implSeq = strings.Join(seq, ",")
	}
	modelSeq := mf["seq"]
	if mf["r"] == "error" {
		modelSeq = "-"
	}
	if modelSeq != implSeq {
		v.Mismatch = append(v.Mismatch, "send sequence differs: model "+short(modelSeq)+" impl "+short(implSeq))
	} else if mf["r"] == "ok" && mf["sl"] != "-" && len(p.sends) > 0 {
		sl := strings.Split(mf["sl"], ",")
		if len(sl) == len(p.sends) {
			prev := p.t0
			for i, s := range p.sends {
				ns, _ := strconv.ParseInt(sl[i], 10, 64)
				if gap := s.at.Sub(prev); gap < time.Duration(ns) {
					v.Mismatch = append(v.Mismatch, fmt.Sprintf("send %d left %v after the previous one; the model sleeps %v before it", i, gap, time.Duration(ns)))
					break
				}
				prev = s.at
			}
		} else {
			v.Mismatch = append(v.Mismatch, "number of sleeps differs from the number of sends")
		}
	}
	// branches reached
	switch {
	case p.err != nil:
		v.Tags = append(v.Tags, "result=error")
	case len(p.sends) == 0:
		v.Tags = append(v.Tags, "sends=0")
	case len(p.sends) < 13:
		v.Tags = append(v.Tags, "sends=1..12")
	default:
		v.Tags = append(v.Tags, "sends>=13")
	}
	eq := map[int64]int{}
	maxEq := 0
	ports := map[int]bool{}
	for _, s := range p.sends {
		if pos, ok := readPos[string(s.data)]; ok {
			eq[usOf[pos]]++
			if eq[usOf[pos]] > maxEq {
				maxEq = eq[usOf[pos]]
			}
		}
		ports[s.port] = true
	}
	if maxEq >= 13 {
		v.Tags = append(v.Tags, "equal-time-keys>=13")
	}
	if len(ports) > 1 {
		v.Tags = append(v.Tags, "several-ports-used")
	}
	if wantSends > len(p.sends) && p.err == nil {
		v.Tags = append(v.Tags, "fewer-sends-than-channel-messages")
	}
	return
}

func runC12Playable(c Case, m *Model) (v Verdict) {
	f := strings.Fields(c.Op)
	if len(f) != 2 {
		v.Mismatch = append(v.Mismatch, "unparsable op")
		return
	}
	b := unhx(f[1])
	impl := "0"
	if p := try(func() {
		if smf.Message(b).IsPlayable() {
			impl = "1"
		}
	}); p != "" {
		v.Oracle = append(v.Oracle, "IsPlayable panicked: "+p)
		return
	}
	if len(b) > 0 && b[0] == 0xFF && impl == "1" {
		v.Oracle = append(v.Oracle, fmt.Sprintf("meta event % X is playable", b))
	}
	if len(b) > 0 && b[0] >= 0x80 && b[0] <= 0xEF && impl == "0" {
		v.Oracle = append(v.Oracle, fmt.Sprintf("channel message % X is not playable", b))
	}
	if ans := m.Ask("play.playable " + f[1]); ans != impl {
		v.Mismatch = append(v.Mismatch, "IsPlayable: model "+ans+" impl "+impl)
	}
	return
}
