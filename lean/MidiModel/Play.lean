import MidiModel.Basic
/-!
# Playback: `TracksReader.Do`, `MultiPlay`, `Play`, `play` (v2/smf/track.go), `Message.IsPlayable` (v2/smf/message.go)

The model follows the code as it is now, statement by statement:

* `Do` walks the tracks in file order, skips the tracks `doTrack` rejects (empty selection = all tracks,
  otherwise membership in the selection map) and hands every event of a kept track to the callback together
  with its track number and its absolute time in µs. The absolute time is the business of the tempo map
  (property C11); here it is an *input*: a file is given as, per track, the list of `(AbsMicroSeconds, bytes)`
  that `Do` hands out. The position of an event inside its track (`idx`) is what "file order" means.
* the callback of `MultiPlay` keeps an event iff `IsPlayable` and an out port is found: the port mapped to the
  track, else the port under key `-1`, else the event is dropped.
* `sort.Stable(pl)` with `Less a b = a.absTime < b.absTime`. Recorded trusted assumption: `sort.Stable` *is*
  a stable sort, i.e. it yields the sorted permutation in which elements with equal keys keep their order.
  That permutation is what `List.mergeSort` with `≤` on the key computes (`List.sublist_mergeSort`).
* the pacing loop `last = t.play(last, pl[i])`: `current = time.Microsecond * Duration(absTime)` (int64
  nanoseconds, wrap made explicit), `time.Sleep(current - last)`, `Send`, `return current`.
-/
namespace Midi.Play

/-! ## `smf.Message.IsPlayable` -/

/-- `Message.IsMeta`: non-empty and first byte `0xFF` -/
def isMeta : Bytes → Bool
  | [] => false
  | b :: _ => b == 0xFF

/-- `midi.Message(m).Type() > midi.UnknownMsg` as a function of the first byte (`getType` looks at nothing else):
    channel status bytes, the four defined system common bytes, the real-time bytes that have a type.
    `F0`/`F7` give `SysExMsg`, a *category* constant that sorts below `UnknownMsg`: not playable.
    (`0xFF` would be `ResetMsg`, but `IsMeta` answers first.) -/
def typeKnown (b : Nat) : Bool :=
  (0x80 ≤ b && b ≤ 0xEF) || b == 0xF1 || b == 0xF2 || b == 0xF3 || b == 0xF6 ||
  (0xF8 ≤ b && b ≤ 0xFC) || b == 0xFE || b == 0xFF

/-- `IsPlayable` of a message starting with byte `b` -/
def playableByte (b : Nat) : Bool := if b == 0xFF then false else typeKnown b

/-- `Message.IsPlayable` -/
def isPlayable (m : Bytes) : Bool :=
  if isMeta m then false
  else match m with
    | [] => false                 -- `getType`: `len(msg) == 0` → `UnknownMsg`
    | b :: _ => typeKnown b

/-! ## `TracksReader.Do` -/

/-- what the callback of `Do` sees of one event (`TrackEvent`): track number, position in the track,
    `AbsMicroSeconds`, message bytes -/
structure Ev where
  track : Nat
  idx : Nat
  time : Int
  bytes : Bytes
deriving DecidableEq, Repr, Inhabited

/-- one track as `Do` hands it out: per event `(AbsMicroSeconds, bytes)`, in file order -/
abbrev TrackIn := List (Int × Bytes)
/-- a file: its tracks in file order -/
abbrev FileIn := List TrackIn

/-- `doTrack`: `len(t.tracks) == 0` → true, else `t.tracks[tr]` (a missing key reads as false).
    `sel` lists the keys of the map (the variadic `tracks ...int` of `ReadTracks*`). -/
def doTrack (sel : List Int) (no : Nat) : Bool :=
  sel.isEmpty || sel.contains (no : Int)

/-- inner loop of `Do` over one track: events numbered from `i` -/
def enumFrom (no : Nat) : Nat → TrackIn → List Ev
  | _, [] => []
  | i, (t, b) :: r => ⟨no, i, t, b⟩ :: enumFrom no (i + 1) r

/-- outer loop of `Do`: tracks numbered from `no` -/
def doFrom (sel : List Int) : Nat → FileIn → List Ev
  | _, [] => []
  | no, tr :: rest => (if doTrack sel no then enumFrom no 0 tr else []) ++ doFrom sel (no + 1) rest

/-- the sequence of callback invocations of `Do` (no type filter set) -/
def doAll (sel : List Int) (f : FileIn) : List Ev := doFrom sel 0 f

/-! ## `MultiPlay` -/

/-- `map[int]drivers.Out`: keys are track numbers or `-1`; ports are identified by a number -/
abbrev PortMap := List (Int × Nat)

/-- port selection in the callback: `trackouts[te.TrackNo]`, else `trackouts[-1]`, else none (event skipped) -/
def outFor (pm : PortMap) (no : Nat) : Option Nat :=
  match pm.lookup (no : Int) with
  | some o => some o
  | none => pm.lookup (-1)

/-- `playEvent` -/
structure PlayEv where
  ev : Ev
  port : Nat
deriving DecidableEq, Repr, Inhabited

/-- body of the callback: `Some` = appended to `pl` -/
def collectOne (pm : PortMap) (e : Ev) : Option PlayEv :=
  if isPlayable e.bytes then
    match outFor pm e.track with
    | some o => some ⟨e, o⟩
    | none => none
  else none

/-- `pl` after `t.Do(...)` -/
def collect (f : FileIn) (sel : List Int) (pm : PortMap) : List PlayEv :=
  (doAll sel f).filterMap (collectOne pm)

/-- `¬ Less b a`, i.e. `a.absTime ≤ b.absTime` -/
def le (a b : PlayEv) : Bool := decide (a.ev.time ≤ b.ev.time)

/-- `pl` after `sort.Stable(pl)` (trusted: `sort.Stable` is a stable sort) -/
def play (f : FileIn) (sel : List Int) (pm : PortMap) : List PlayEv :=
  (collect f sel pm).mergeSort le

/-- `MultiPlay`: `none` = "trackouts not set" (nothing is sent), `some l` = the `Send` calls in order -/
def multiPlay (f : FileIn) (sel : List Int) (pm : PortMap) : Option (List PlayEv) :=
  if pm.isEmpty then none else some (play f sel pm)

/-- `Play(out)`: `out.Open()` failing returns the error before anything is sent,
    otherwise `MultiPlay(map[int]drivers.Out{-1: out})` -/
def playOne (f : FileIn) (sel : List Int) (openFails : Bool) (port : Nat) : Option (List PlayEv) :=
  if openFails then none else multiPlay f sel [(-1, port)]

/-! ## pacing -/

/-- int64 wrap-around -/
def wrap64 (x : Int) : Int := (x + 9223372036854775808) % 18446744073709551616 - 9223372036854775808

/-- `time.Microsecond * time.Duration(p.absTime)` in nanoseconds -/
def nanos (t : Int) : Int := wrap64 (1000 * t)

/-- the arguments of the successive `time.Sleep` calls (ns), `last` as in the Go loop -/
def sleeps : Int → List PlayEv → List Int
  | _, [] => []
  | last, p :: r => wrap64 (nanos p.ev.time - last) :: sleeps (nanos p.ev.time) r

/-- sleeps of a whole playback (`var last time.Duration = 0`) -/
def schedule (l : List PlayEv) : List Int := sleeps 0 l

/-! ## line protocol -/

def parseInts (s : String) : Option (List Int) :=
  if s = "-" then some [] else (s.splitOn ",").mapM intOfString

def parsePair (s : String) : Option (Int × Nat) :=
  match s.splitOn ":" with
  | [k, p] => do
    let k ← intOfString k
    let p ← p.toNat?
    pure (k, p)
  | _ => none

def parsePortMap (s : String) : Option PortMap :=
  if s = "-" then some [] else (s.splitOn ",").mapM parsePair

def parseEvent (s : String) : Option (Int × Bytes) :=
  match s.splitOn ":" with
  | [t, h] => do
    let t ← intOfString t
    let b ← unhex h
    pure (t, b)
  | _ => none

def parseTrack (s : String) : Option TrackIn :=
  if s = "-" then some [] else (s.splitOn ",").mapM parseEvent

def parseFile (args : List String) : Option FileIn :=
  (args.filter (·.startsWith "t=")).mapM (fun a => parseTrack (a.drop 2).toString)

def keysDistinct : PortMap → Bool
  | [] => true
  | (k, _) :: r => !(r.any (·.1 == k)) && keysDistinct r

def showPlayEv (p : PlayEv) : String := s!"{p.ev.track}.{p.ev.idx}.{p.port}"

def showList (l : List String) : String := if l.isEmpty then "-" else joinWith "," l

def showResult : Option (List PlayEv) → String
  | none => "r=error"
  | some l => s!"r=ok n={l.length} seq={showList (l.map showPlayEv)} sl={showList ((schedule l).map toString)}"

--@driver play. Play.handle
/-- line protocol:
    `play.multi sel=<ints|-> pm=<key:port,…|-> t=<µs>:<hex>,… t=…`  (one `t=` token per track, `t=-` = empty track)
    `play.one sel=<ints|-> open=<0|1> port=<n> t=…`
    `play.playable <hex>` -/
def handle (op : String) (args : List String) : String :=
  match op with
  | "play.multi" =>
    match (field "sel" args).bind parseInts, (field "pm" args).bind parsePortMap, parseFile args with
    | some sel, some pm, some f =>
      if keysDistinct pm then showResult (multiPlay f sel pm) else "bad-op"
    | _, _, _ => "bad-op"
  | "play.one" =>
    match (field "sel" args).bind parseInts, natField "open" args, natField "port" args, parseFile args with
    | some sel, some o, some p, some f =>
      if o ≤ 1 then showResult (playOne f sel (o == 0) p) else "bad-op"
    | _, _, _, _ => "bad-op"
  | "play.playable" =>
    match args with
    | [h] => match unhex h with
      | some b => if isPlayable b then "1" else "0"
      | none => "bad-op"
    | _ => "bad-op"
  | _ => "bad-op"

end Midi.Play
