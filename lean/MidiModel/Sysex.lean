import MidiModel.Basic
/-!
# Checksummed and fixed-layout sysex helpers

Model of `v2/sysex/sysex.go` (`Manufacturer`: `SysEx`, `Checksum`, `Parse` — the Roland-style data-set /
data-request messages), of `v2/mmc/mmc.go` (`Message.SysEx/Parse`, `GoTo.SysEx/Parse`) and of
`midi.SysEx` (`v2/sysex.go`), statement by statement.

* Go indexing `bt[i]` / slicing `bt[lo:hi]` is modelled by `idx` / `slice`, which answer `none` when Go
  would panic; the parsers map that to the explicit outcome `.panic` (the length guards of the Go code
  are what makes it unreachable, and that is a theorem, not a convention).
* `Checksum` sums in `int32`: `sumU32` wraps after every addition (modulo 2^32 on the two's-complement
  pattern, read back as a signed value by `toI32`), the remainder is Go's truncated `%`
  (`Int.tmod`), the result is converted with `byte(...)` (`% 256`).
* `mmc.Message.Parse` and `mmc.GoTo.Parse` have pointer receivers and update the receiver field by
  field; an error leaves the fields written so far. The model therefore takes the receiver's old value
  and returns the new one also in the error case.
-/
namespace Midi.Sysex

/-! ## Go slices -/

/-- `bt[i]` (`none` = index out of range panic) -/
def idx (bt : Bytes) (i : Nat) : Option Nat := bt[i]?

/-- `bt[lo:hi]` (`none` = slice bounds out of range panic) -/
def slice (bt : Bytes) (lo hi : Nat) : Option Bytes :=
  if lo ≤ hi ∧ hi ≤ bt.length then some ((bt.take hi).drop lo) else none

/-! ## `midi.SysEx` (v2/sysex.go) -/

/-- `midi.SysEx(inner)`: start byte, the inner bytes, end byte -/
def wrap (inner : Bytes) : Bytes := [0xF0] ++ inner ++ [0xF7]

/-! ## `sysex.Manufacturer` (v2/sysex/sysex.go) -/

/-- the Go struct: `Address` and `NumReqBytes` are `[3]byte` -/
structure Manufacturer where
  manu : Nat
  dev : Nat
  model : Nat
  req : Bool
  a0 : Nat
  a1 : Nat
  a2 : Nat
  data : Bytes
  n0 : Nat
  n1 : Nat
  n2 : Nat
deriving DecidableEq, Repr

/-- `for _, b := range bt { su += int32(b) }` on the two's-complement bit pattern of `su`
    (a `Nat` below 2^32: addition of `int32` values is addition modulo 2^32 on the patterns) -/
def sumU32 : Bytes → Nat → Nat
  | [], acc => acc
  | b :: r, acc => sumU32 r ((acc + b) % 4294967296)

/-- the `int32` value of a bit pattern -/
def toI32 (n : Nat) : Int := if n < 2147483648 then (n : Int) else (n : Int) - 4294967296

/-- the value of `su` after the loop -/
def sumI32 (l : Bytes) : Int := toI32 (sumU32 l 0)

/-- the bytes `Checksum` sums: the address, then the request size or the payload -/
def body (s : Manufacturer) : Bytes := if s.req then [s.n0, s.n1, s.n2] else s.data

def summed (s : Manufacturer) : Bytes := [s.a0, s.a1, s.a2] ++ body s

/-- the arithmetic of `Checksum` on the list of summed bytes -/
def cksumOf (l : Bytes) : Nat :=
  let rem := Int.tmod (sumI32 l) 128
  if rem = 0 then 0 else ((128 - rem) % 256).toNat

/-- `Manufacturer.Checksum()` -/
def checksum (s : Manufacturer) : Nat := cksumOf (summed s)

/-- `Manufacturer.SysEx()` -/
def build (s : Manufacturer) : Bytes :=
  [0xF0, s.manu, s.dev, s.model, (if s.req then 0x11 else 0x12), s.a0, s.a1, s.a2] ++ body s ++ [checksum s, 0xF7]

inductive PErr where
  | tooShort | noStart | badKind | reqShort | badSum | noEnd
deriving DecidableEq, Repr

inductive PRes where
  | ok (m : Manufacturer)
  | err (e : PErr)
  | panic
deriving DecidableEq, Repr

/-- the part of `Parse` after the send/request byte has been classified -/
def parseTail (bt : Bytes) (s : Manufacturer) : PRes :=
  -- checksum := bt[len(bt)-2]
  match idx bt (bt.length - 2), idx bt (bt.length - 1) with
  | some c, some e =>
    if c ≠ checksum s then .err .badSum
    else if e ≠ 0xF7 then .err .noEnd
    else .ok s
  | _, _ => .panic

/-- `sysex.Parse(bt)` -/
def parse (bt : Bytes) : PRes :=
  if bt.length < 11 then .err .tooShort else
  match idx bt 0, idx bt 1, idx bt 2, idx bt 3, idx bt 4, idx bt 5, idx bt 6, idx bt 7 with
  | some b0, some b1, some b2, some b3, some b4, some b5, some b6, some b7 =>
    if b0 ≠ 0xF0 then .err .noStart else
    if b4 ≠ 0x11 ∧ b4 ≠ 0x12 then .err .badKind else
    let s : Manufacturer :=
      { manu := b1, dev := b2, model := b3, req := (b4 == 0x11), a0 := b5, a1 := b6, a2 := b7,
        data := [], n0 := 0, n1 := 0, n2 := 0 }
    if b4 = 0x11 then
      if bt.length < 13 then .err .reqShort else
      match idx bt 8, idx bt 9, idx bt 10 with
      | some n0, some n1, some n2 => parseTail bt { s with n0 := n0, n1 := n1, n2 := n2 }
      | _, _, _ => .panic
    else
      match slice bt 8 (bt.length - 2) with
      | some d => parseTail bt { s with data := d }
      | none => .panic
  | _, _, _, _, _, _, _, _ => .panic

/-- what `Parse` can return at best for a built value: the field the message kind does not carry is
    the zero value (`NumReqBytes` of a data-set message, `SendingData` of a data request) -/
def Manufacturer.norm (s : Manufacturer) : Manufacturer :=
  if s.req then { s with data := [] } else { s with n0 := 0, n1 := 0, n2 := 0 }

/-! ## MMC (v2/mmc/mmc.go) -/

structure Message where
  dev : Nat
  cmd : Nat
  resp : Bool
  data : Bytes
deriving DecidableEq, Repr

inductive MRes (α : Type) where
  | ok (g : α)
  | err (g : α)      -- an error was returned; `g` = the receiver as the call left it
  | panic
deriving DecidableEq, Repr

/-- `Message.SysEx()`: device ids 0 and above 127 become 127, `IsResponse` and `Data` are not written -/
def Message.build (m : Message) : Bytes :=
  let d := if m.dev = 0 ∨ m.dev > 127 then 127 else m.dev
  [0xF0, 0x7F, d, 0x06, m.cmd, 0xF7]

/-- `(*Message).Parse(bt)` with receiver value `g` -/
def Message.parse (g : Message) (bt : Bytes) : MRes Message :=
  if bt.length < 5 then .err g else
  match idx bt 0, idx bt 1, idx bt (bt.length - 1), idx bt 2, idx bt 3 with
  | some b0, some b1, some bl, some b2, some b3 =>
    if b0 ≠ 0xF0 then .err g else
    if b1 ≠ 0x7F then .err g else
    if bl ≠ 0xF7 then .err g else
    let g := { g with dev := b2 }
    if b3 = 0x06 then
      let g := { g with resp := false }
      if bt.length < 6 then .err g else
      match idx bt 4 with
      | none => .panic
      | some b4 =>
        let g := { g with cmd := b4 }
        if b4 ≥ 0x40 then
          if bt.length < 8 then .err g else
          match slice bt 5 (bt.length - 2) with
          | some d => .ok { g with data := d }
          | none => .panic
        else .ok g
    else if b3 = 0x07 then
      let g := { g with resp := true }
      if bt.length > 5 then
        match slice bt 4 (bt.length - 2) with
        | some d => .ok { g with data := d }
        | none => .panic
      else .ok { g with data := [] }
    else .ok g
  | _, _, _, _, _ => .panic

structure GoTo where
  dev : Nat
  hour : Nat
  minute : Nat
  second : Nat
  frame : Nat
  sub : Nat
deriving DecidableEq, Repr

/-- `GoTo.SysEx()` -/
def GoTo.build (g : GoTo) : Bytes :=
  [0xF0, 0x7F, g.dev, 0x06, 0x44, 0x06, 0x01, g.hour, g.minute, g.second, g.frame, g.sub, 0xF7]

/-- `(*GoTo).Parse(bt)` with receiver value `g` -/
def GoTo.parse (g : GoTo) (bt : Bytes) : MRes GoTo :=
  if bt.length ≠ 13 then .err g else
  match idx bt 0, idx bt 1, idx bt 2, idx bt 3, idx bt 4, idx bt 5, idx bt 6 with
  | some b0, some b1, some b2, some b3, some b4, some b5, some b6 =>
    if b0 ≠ 0xF0 then .err g else
    if b1 ≠ 0x7F then .err g else
    let g := { g with dev := b2 }
    if b3 ≠ 0x06 then .err g else
    if b4 ≠ 0x44 then .err g else
    if b5 ≠ 0x06 then .err g else
    if b6 ≠ 0x01 then .err g else
    match idx bt 7, idx bt 8, idx bt 9, idx bt 10, idx bt 11, idx bt 12 with
    | some h, some mi, some s, some f, some sf, some e =>
      let g := { g with hour := h, minute := mi, second := s, frame := f, sub := sf }
      if e ≠ 0xF7 then .err g else .ok g
    | _, _, _, _, _, _ => .panic
  | _, _, _, _, _, _, _ => .panic

/-! ## Line protocol -/

def b01 (b : Bool) : String := if b then "1" else "0"

def showManu (s : Manufacturer) : String :=
  s!"{s.manu},{s.dev},{s.model},{b01 s.req},{hex [s.a0, s.a1, s.a2]},{hex s.data},{hex [s.n0, s.n1, s.n2]}"

def showPRes : PRes → String
  | .ok s => "ok:" ++ showManu s
  | .err _ => "err"
  | .panic => "panic"

/-- finer error class (used for the branch histogram only, never compared) -/
def showPErr : PRes → String
  | .ok _ => "ok"
  | .err .tooShort => "tooShort"
  | .err .noStart => "noStart"
  | .err .badKind => "badKind"
  | .err .reqShort => "reqShort"
  | .err .badSum => "badSum"
  | .err .noEnd => "noEnd"
  | .panic => "panic"

def showMsg (m : Message) : String := s!"{m.dev},{m.cmd},{b01 m.resp},{hex m.data}"
def showGoTo (g : GoTo) : String := s!"{g.dev},{g.hour},{g.minute},{g.second},{g.frame},{g.sub}"

def showMRes {α : Type} (f : α → String) : MRes α → String
  | .ok g => "ok:" ++ f g
  | .err g => "err:" ++ f g
  | .panic => "panic"

def byteOf (s : String) : Option Nat := s.toNat?.bind (fun n => if n < 256 then some n else none)

def boolOf (s : String) : Option Bool := if s = "1" then some true else if s = "0" then some false else none

def triple (s : String) : Option (Nat × Nat × Nat) :=
  match unhex s with
  | some [a, b, c] => some (a, b, c)
  | _ => none

def manuOfArgs (args : List String) : Option Manufacturer := do
  let manu ← (field "man" args).bind byteOf
  let dev ← (field "dev" args).bind byteOf
  let model ← (field "model" args).bind byteOf
  let req ← (field "req" args).bind boolOf
  let (a0, a1, a2) ← (field "addr" args).bind triple
  let data ← (field "data" args).bind unhex
  let (n0, n1, n2) ← (field "nreq" args).bind triple
  pure { manu, dev, model, req, a0, a1, a2, data, n0, n1, n2 }

def msgOfString (s : String) : Option Message :=
  match s.splitOn "," with
  | [d, c, r, h] => do
    let dev ← byteOf d
    let cmd ← byteOf c
    let resp ← boolOf r
    let data ← unhex h
    pure { dev, cmd, resp, data }
  | _ => none

def gotoOfString (s : String) : Option GoTo :=
  match (s.splitOn ",").mapM byteOf with
  | some [dev, hour, minute, second, frame, sub] => some { dev, hour, minute, second, frame, sub }
  | _ => none

/-- single-byte corruptions of `bt` at the positions `5 .. len-2` (address, payload / request size,
    checksum) whose byte is 7-bit: the byte becomes `(b + d) % 128` for every `d` of `deltas`
    (`1 ≤ d ≤ 127`, so the new value is another 7-bit value); answers (accepted, tried) -/
def corruptCount (bt : Bytes) (deltas : List Nat) : Nat × Nat :=
  let positions := (List.range bt.length).filter (fun i => 5 ≤ i ∧ i + 2 ≤ bt.length)
  positions.foldl (fun (acc : Nat × Nat) i =>
    match bt[i]? with
    | some b =>
      if b < 128 then
        deltas.foldl (fun (acc : Nat × Nat) d =>
          match parse (bt.set i ((b + d) % 128)) with
          | .ok _ => (acc.1 + 1, acc.2 + 1)
          | _ => (acc.1, acc.2 + 1)) acc
      else acc
    | none => acc) (0, 0)

def deltasOf (s : String) : Option (List Nat) :=
  if s = "all" then some ((List.range 127).map (· + 1))
  else ((s.splitOn ",").mapM String.toNat?).bind (fun l => if l.all (fun d => 1 ≤ d ∧ d ≤ 127) then some l else none)

--@driver roland. Sysex.handle
--@driver mmc. Sysex.handle
--@driver sysex. Sysex.handle
/-- line protocol -/
def handle (op : String) (args : List String) : String :=
  match op with
  | "sysex.wrap" => match args with
    | [h] => match unhex h with
      | some bs => "w=" ++ hex (wrap bs)
      | none => "bad-op"
    | _ => "bad-op"
  | "roland.build" => match manuOfArgs args with
    | some s =>
      let w := build s
      s!"w={hex w} cks={checksum s} rb={showPRes (parse w)}"
    | none => "bad-op"
  | "roland.parse" => match args with
    | [h] => match unhex h with
      | some bs => let r := parse bs; s!"r={showPRes r} br={showPErr r}"
      | none => "bad-op"
    | _ => "bad-op"
  | "roland.corrupt" => match (field "d" args).bind deltasOf, (field "w" args).bind unhex with
    | some ds, some bs => let (a, n) := corruptCount bs ds; s!"acc={a} n={n}"
    | _, _ => "bad-op"
  | "roland.cksrep" =>
    -- checksum of a data-set value whose payload is `n` copies of the byte `b`
    match (field "addr" args).bind triple, (field "b" args).bind byteOf, natField "n" args with
    | some (a0, a1, a2), some b, some n =>
      if n ≤ 20000000 then
        let s : Manufacturer := { manu := 0, dev := 0, model := 0, req := false, a0, a1, a2,
                                   data := List.replicate n b, n0 := 0, n1 := 0, n2 := 0 }
        s!"cks={checksum s}"
      else "bad-op"
    | _, _, _ => "bad-op"
  | "mmc.goto.build" => match (field "v" args).bind gotoOfString, (field "g" args).bind gotoOfString with
    | some v, some g => let w := v.build; s!"w={hex w} rb={showMRes showGoTo (GoTo.parse g w)}"
    | _, _ => "bad-op"
  | "mmc.goto.parse" => match (field "g" args).bind gotoOfString, (field "w" args).bind unhex with
    | some g, some bs => "r=" ++ showMRes showGoTo (GoTo.parse g bs)
    | _, _ => "bad-op"
  | "mmc.msg.build" => match (field "v" args).bind msgOfString, (field "g" args).bind msgOfString with
    | some v, some g => let w := v.build; s!"w={hex w} rb={showMRes showMsg (Message.parse g w)}"
    | _, _ => "bad-op"
  | "mmc.msg.parse" => match (field "g" args).bind msgOfString, (field "w" args).bind unhex with
    | some g, some bs => "r=" ++ showMRes showMsg (Message.parse g bs)
    | _, _ => "bad-op"
  | _ => "bad-op"

end Midi.Sysex
