import Proofs.Msg
/-! Constructors of `MidiModel/Msg.lean`: byte layout, and what the accessors return on it (C07). -/
namespace Midi.Msg

theorem channelMessage2_eq (c st a b : Nat) (hst : st < 16) :
    channelMessage2 (clampHi c 15) st a b = [st * 16 + min c 15, a, b] := by
  simp only [channelMessage2, clampHi_eq]
  rw [getCompleteStatus_eq st hst (min c 15) (by omega)]

theorem channelMessage1_eq (c st a : Nat) (hst : st < 16) :
    channelMessage1 (clampHi c 15) st a = [st * 16 + min c 15, a] := by
  simp only [channelMessage1, clampHi_eq]
  rw [getCompleteStatus_eq st hst (min c 15) (by omega)]

theorem noteOn_eq (ch k v : Nat) : noteOn ch k v = [0x90 + min ch 15, min k 127, min v 127] := by
  simp only [noteOn, clampHi_eq k, clampHi_eq v]; rw [channelMessage2_eq _ _ _ _ (by omega)]
theorem noteOffVelocity_eq (ch k v : Nat) : noteOffVelocity ch k v = [0x80 + min ch 15, min k 127, min v 127] := by
  simp only [noteOffVelocity, clampHi_eq k, clampHi_eq v]; rw [channelMessage2_eq _ _ _ _ (by omega)]
theorem noteOff_eq (ch k : Nat) : noteOff ch k = [0x80 + min ch 15, min k 127, 0] := by
  simp only [noteOff, clampHi_eq k]; rw [channelMessage2_eq _ _ _ _ (by omega)]
theorem polyAfterTouch_eq (ch k p : Nat) : polyAfterTouch ch k p = [0xA0 + min ch 15, min k 127, min p 127] := by
  simp only [polyAfterTouch, clampHi_eq k, clampHi_eq p]; rw [channelMessage2_eq _ _ _ _ (by omega)]
theorem controlChange_eq (ch c v : Nat) : controlChange ch c v = [0xB0 + min ch 15, min c 127, min v 127] := by
  simp only [controlChange, clampHi_eq c, clampHi_eq v]; rw [channelMessage2_eq _ _ _ _ (by omega)]
theorem programChange_eq (ch p : Nat) : programChange ch p = [0xC0 + min ch 15, min p 127] := by
  simp only [programChange, clampHi_eq p]; rw [channelMessage1_eq _ _ _ (by omega)]
theorem afterTouch_eq (ch p : Nat) : afterTouch ch p = [0xD0 + min ch 15, min p 127] := by
  simp only [afterTouch, clampHi_eq p]; rw [channelMessage1_eq _ _ _ (by omega)]

theorem pitchbend_eq (ch : Nat) (v : Int) :
    pitchbend ch v = some [0xE0 + min ch 15, (clampPitch v + 8192).toNat % 128, (clampPitch v + 8192).toNat / 128] := by
  have hc := clampPitch_eq v
  have h1 : -8192 ≤ clampPitch v := by omega
  have h2 : clampPitch v ≤ 8191 := by omega
  unfold pitchbend
  rw [msbLsbSigned_eq _ h1 h2]
  have hu : (clampPitch v + 8192).toNat < 16384 := by omega
  generalize (clampPitch v + 8192).toNat = u at hu ⊢
  have e := swap_bytes u hu
  simp only [Nat.shiftRight_eq_div_pow, Nat.reducePow, e.1, e.2]
  rw [channelMessage2_eq _ _ _ _ (by omega)]

theorem spp_eq (p : Nat) : spp p = [0xF2, p % 128, p / 128 % 128] := by
  simp only [spp, and7f, Nat.shiftRight_eq_div_pow, Nat.reducePow]
  congr 2
  · omega
  · congr 1; omega

theorem songSelect_eq (s : Nat) : songSelect s = [0xF3, s % 128] := by simp only [songSelect, and7f]
theorem mtc_eq (m : Nat) : mtc m = [0xF1, m % 128] := by
  simp only [mtc, and7f]; congr 2; omega

/-! types of the status bytes the constructors emit -/
theorem type_8x : ∀ c < 16, typeOfStatus (0x80 + c) = NoteOffMsg := by decide
theorem type_9x : ∀ c < 16, typeOfStatus (0x90 + c) = NoteOnMsg := by decide
theorem type_Ax : ∀ c < 16, typeOfStatus (0xA0 + c) = PolyAfterTouchMsg := by decide
theorem type_Bx : ∀ c < 16, typeOfStatus (0xB0 + c) = ControlChangeMsg := by decide
theorem type_Cx : ∀ c < 16, typeOfStatus (0xC0 + c) = ProgramChangeMsg := by decide
theorem type_Dx : ∀ c < 16, typeOfStatus (0xD0 + c) = AfterTouchMsg := by decide
theorem type_Ex : ∀ c < 16, typeOfStatus (0xE0 + c) = PitchBendMsg := by decide

theorem chan_of_status (hi c : Nat) (hhi : hi < 16) (hc : c < 16) : (parseStatus (hi * 16 + c)).2 = c := by
  rw [parseStatus_eq _ (by omega)]; simp only; omega

theorem msgIs_cons (b : Nat) (r : Bytes) (T : Int) : msgIs .midi (b :: r) T = some (typeIs (typeOfStatus b) T) := by
  simp [msgIs, typeOf]

theorem typeIs_self (T : Int) (h : 0 < T) : typeIs T T = true := (typeIs_specific T T h).2 rfl

/-- `get3` on a three-byte message of its own type -/
theorem get3_own (T : Int) (hT : 0 < T) (s a b : Nat) (hs : typeOfStatus s = T) :
    get3 T [s, a, b] = .yes ((parseStatus s).2, a % 128, b % 128) := by
  simp [get3, msgIs_cons, hs, typeIs_self T hT, parseUint7_eq]

theorem get2_own (T : Int) (hT : 0 < T) (s a : Nat) (hs : typeOfStatus s = T) :
    get2 T [s, a] = .yes ((parseStatus s).2, a % 128) := by
  simp [get2, msgIs_cons, hs, typeIs_self T hT, parseUint7_eq]

theorem get1_own (T : Int) (hT : 0 < T) (s a : Nat) (hs : typeOfStatus s = T) :
    get1 T [s, a] = .yes (a % 128) := by
  simp [get1, msgIs_cons, hs, typeIs_self T hT, parseUint7_eq]

theorem min127_mod (k : Nat) : min k 127 % 128 = min k 127 := by omega

/-- accessor of a three-byte channel constructor -/
theorem get3_chan (T : Int) (hT : 0 < T) (hi ch a b : Nat) (hhi : hi < 16)
    (hty : ∀ c < 16, typeOfStatus (hi * 16 + c) = T) :
    get3 T [hi * 16 + min ch 15, min a 127, min b 127] = .yes (min ch 15, min a 127, min b 127) := by
  rw [get3_own T hT _ _ _ (hty _ (by omega)), chan_of_status hi _ hhi (by omega), min127_mod, min127_mod]

theorem get2_chan (T : Int) (hT : 0 < T) (hi ch a : Nat) (hhi : hi < 16)
    (hty : ∀ c < 16, typeOfStatus (hi * 16 + c) = T) :
    get2 T [hi * 16 + min ch 15, min a 127] = .yes (min ch 15, min a 127) := by
  rw [get2_own T hT _ _ (hty _ (by omega)), chan_of_status hi _ hhi (by omega), min127_mod]

theorem getNoteOn_noteOn (ch k v : Nat) : getNoteOn (noteOn ch k v) = .yes (min ch 15, min k 127, min v 127) := by
  rw [noteOn_eq]; exact get3_chan NoteOnMsg (by decide) 9 ch k v (by omega) type_9x

theorem getNoteOff_noteOffVelocity (ch k v : Nat) :
    getNoteOff (noteOffVelocity ch k v) = .yes (min ch 15, min k 127, min v 127) := by
  rw [noteOffVelocity_eq]; exact get3_chan NoteOffMsg (by decide) 8 ch k v (by omega) type_8x

theorem getNoteOff_noteOff (ch k : Nat) : getNoteOff (noteOff ch k) = .yes (min ch 15, min k 127, 0) := by
  rw [noteOff_eq]; exact get3_chan NoteOffMsg (by decide) 8 ch k 0 (by omega) type_8x

theorem getPolyAfterTouch_polyAfterTouch (ch k p : Nat) :
    getPolyAfterTouch (polyAfterTouch ch k p) = .yes (min ch 15, min k 127, min p 127) := by
  rw [polyAfterTouch_eq]; exact get3_chan PolyAfterTouchMsg (by decide) 10 ch k p (by omega) type_Ax

theorem getControlChange_controlChange (ch c v : Nat) :
    getControlChange (controlChange ch c v) = .yes (min ch 15, min c 127, min v 127) := by
  rw [controlChange_eq]; exact get3_chan ControlChangeMsg (by decide) 11 ch c v (by omega) type_Bx

theorem getProgramChange_programChange (ch p : Nat) :
    getProgramChange (programChange ch p) = .yes (min ch 15, min p 127) := by
  rw [programChange_eq]; exact get2_chan ProgramChangeMsg (by decide) 12 ch p (by omega) type_Cx

theorem getAfterTouch_afterTouch (ch p : Nat) : getAfterTouch (afterTouch ch p) = .yes (min ch 15, min p 127) := by
  rw [afterTouch_eq]; exact get2_chan AfterTouchMsg (by decide) 13 ch p (by omega) type_Dx

theorem getPitchBend_pitchbend (ch : Nat) (v : Int) :
    ∃ bs, pitchbend ch v = some bs ∧
      getPitchBend bs = .yes (min ch 15, clampPitch v, (clampPitch v + 8192).toNat) := by
  refine ⟨_, pitchbend_eq ch v, ?_⟩
  have hc := clampPitch_eq v
  have hu : (clampPitch v + 8192).toNat < 16384 := by omega
  have hv : clampPitch v = ((clampPitch v + 8192).toNat : Int) - 8192 := by omega
  generalize (clampPitch v + 8192).toNat = u at hu hv ⊢
  rw [hv]
  have hs := type_Ex (min ch 15) (by omega)
  have hch := chan_of_status 14 (min ch 15) (by omega) (by omega)
  simp only [getPitchBend, msgIs_cons, hs, typeIs_self PitchBendMsg (by decide), parsePitchWheelVals_eq]
  simp only [show (0xE0 : Nat) = 14 * 16 from rfl] at hs hch ⊢
  simp [hch]
  omega

theorem getSPP_spp (p : Nat) : getSPP (spp p) = .yes (p % 16384) := by
  rw [spp_eq]
  have hs : typeOfStatus 0xF2 = SPPMsg := by decide
  simp only [getSPP, msgIs_cons, hs, typeIs_self SPPMsg (by decide), parsePitchWheelVals_eq]
  simp
  omega

theorem getMTC_mtc (m : Nat) : getMTC (mtc m) = .yes (m % 128) := by
  rw [mtc_eq, getMTC, get1_own _ (by decide) _ _ (by decide)]; congr 1; omega

theorem getSongSelect_songSelect (s : Nat) : getSongSelect (songSelect s) = .yes (s % 128) := by
  rw [songSelect_eq, getSongSelect, get1_own _ (by decide) _ _ (by decide)]; congr 1; omega

end Midi.Msg
