import MidiModel.GoSem
/-!
# Translated loops whose body is itself a program (further loops, throwing conditions, `break`)

`tools/go2lean` emits `for _ in [0:Go.loopFuel] do …`; when the body is not of the `if ¬cond then break; step` shape of
`Proofs/GoLoops.lean` (for instance `utils.VlqDecode`, whose loop conditions index the slice), the loop is `loopF`:
`fuel` rounds of a body returning `ForInStep`. `loopF_succ` unrolls one round and hides the rest behind `loopK`, a
constant that only reduces on a constructor — so `simp` evaluates a loop lazily, as far as the state is known, and never
unrolls the literal fuel. None of these lemmas is proved by `rfl`: `simp` would use them as definitional steps and
leave the kernel to re-discover 1024 levels of structural recursion on its own (deterministic timeout).
-/
namespace Go
/-- a translated loop whose body may `break`, throw, and contains further loops: `fuel` rounds of the body -/
def loopF {σ : Type} (f : σ → Except String (ForInStep σ)) : Nat → σ → Except String σ
  | 0, s => pure s
  | n + 1, s => f s >>= fun r => match r with
      | .done b => pure b
      | .yield b => loopF f n b
/-- what happens after one round -/
def loopK {σ : Type} (f : σ → Except String (ForInStep σ)) (n : Nat) (r : ForInStep σ) : Except String σ :=
  match r with
  | .done b => pure b
  | .yield b => loopF f n b
theorem loopF_succ {σ : Type} (f : σ → Except String (ForInStep σ)) (n : Nat) (s : σ) :
    loopF f (n + 1) s = f s >>= loopK f n := by
  unfold loopK; conv => lhs; unfold loopF
@[simp] theorem loopK_done {σ : Type} (f : σ → Except String (ForInStep σ)) (n : Nat) (b : σ) : loopK f n (.done b) = pure b := by unfold loopK; simp only []
@[simp] theorem loopK_yield {σ : Type} (f : σ → Except String (ForInStep σ)) (n : Nat) (b : σ) : loopK f n (.yield b) = loopF f n b := by unfold loopK; simp only []
theorem forIn_list_loopF {σ : Type} (f : σ → Except String (ForInStep σ)) :
    ∀ (l : List Nat) (s : σ), forIn l s (fun _ => f) = loopF f l.length s := by
  intro l
  induction l with
  | nil => intro s; rfl
  | cons a r ih =>
    intro s
    rw [List.forIn_cons]
    simp only [List.length_cons, loopF]
    congr 1
    funext x
    cases x with
    | done b => rfl
    | yield b => exact ih b
theorem forIn_range_loopF {σ : Type} (f : σ → Except String (ForInStep σ)) (fuel : Nat) (s : σ) :
    forIn [:fuel] s (fun _ => f) = loopF f fuel s := by
  rw [Std.Legacy.Range.forIn_eq_forIn_range']
  have := forIn_list_loopF f (List.range' 0 fuel 1) s
  simpa [Std.Legacy.Range.size] using this
end Go
