import MidiModel.Smf
import MidiModel.Generated.SmfMetaGo
import Props.C03_Code
import Props.C18_Parse
/-!
# C01, tie to the source: the track API the histories of C01 are made of — `Track.IsClosed`, `IsEmpty`, `Close`, `Add`
(`smf/track.go`, with the package variable `EOT` read as its initialiser `_MetaMessage(byteEndOfTrack, nil)` and
`reflect.DeepEqual` on two byte slices as equality) — as translated by `tools/go2lean` on every run is the model's
`Track.isClosed` / `close` / `add` (`MidiModel/Smf.lean`), for every track, delta and list of messages.
-/
open Midi Midi.Go
set_option linter.unusedSimpArgs false
set_option linter.unusedVariables false
namespace Midi.C01

/-- the package variable `EOT` (= `_MetaMessage(byteEndOfTrack, nil)`, read as its initialiser) is `FF 2F 00` -/
theorem code_EOT : smf.u_MetaMessage 47 [] = .ok Smf.EOT := by
  unfold smf.u_MetaMessage
  have : Go.toU 32 (([] : List Nat).length : Int) = 0 := by decide
  rw [this, Midi.C03.code_VlqEncode 0 (by decide)]
  rfl

def toGoEv (e : Smf.Event) : smf.Event := { Delta := e.delta, Message := e.msg }
def toGo (t : Smf.Track) : List smf.Event := t.map toGoEv

theorem code_IsClosed (t : Smf.Track) (h : t.length < 4611686018427387904) :
    smf.Track.IsClosed (toGo t) = .ok t.isClosed := by
  unfold smf.Track.IsClosed Smf.Track.isClosed
  rcases List.eq_nil_or_concat t with rfl | ⟨ini, e, rfl⟩
  · rfl
  · have hl : (toGo (ini ++ [e])).length = ini.length + 1 := by simp [toGo]
    have hw : Go.wrapS 64 (((toGo (ini ++ [e])).length : Int) - (1 : Int)) = ((ini.length : Nat) : Int) := by
      have := Midi.C18.wrapS64_sub (ini.length + 1) 1 (by omega) (by simp at h; omega)
      rw [hl]; simpa using this
    have hg : (toGo (ini ++ [e]))[ini.length]? = some (toGoEv e) := by simp [toGo]
    have hn : ¬ (((toGo (ini ++ [e])).length : Int) = 0) := by rw [hl]; omega
    have hne : toGo (ini ++ [e]) ≠ [] := by simp [toGo]
    simp [Go.idx, hg, hw, hne, code_EOT, bind, Except.bind, pure, Except.pure, toGoEv, List.getLast?_append]
    by_cases he : e.msg = Smf.EOT <;> simp [he]


theorem code_Close (t : Smf.Track) (δ : Nat) (h : t.length < 4611686018427387904) :
    smf.Track.Close (toGo t) δ = .ok (toGo (t.close δ)) := by
  unfold smf.Track.Close Smf.Track.close
  simp only [code_IsClosed t h]
  cases t.isClosed <;> simp [bind, Except.bind, pure, Except.pure, code_EOT, toGo, toGoEv]

theorem add_loop (msgs : List (List Nat)) : ∀ (acc : Smf.Track) (δ : Nat),
    (forIn msgs (toGo acc, δ) (fun msg (r : List smf.Event × Nat) =>
        (Except.ok (ForInStep.yield (r.fst ++ [({ Delta := r.snd, Message := msg } : smf.Event)], 0)) : Except String _)))
      = .ok (toGo (acc ++ Smf.addEvents δ msgs), if msgs = [] then δ else 0) := by
  induction msgs with
  | nil => intro acc δ; simp [Smf.addEvents]; rfl
  | cons m ms ih =>
    intro acc δ
    rw [List.forIn_cons]
    have hstep : toGo acc ++ [({ Delta := δ, Message := m } : smf.Event)] = toGo (acc ++ [⟨δ, m⟩]) := by
      simp [toGo, toGoEv]
    simp only [bind, Except.bind, hstep]
    rw [ih]
    cases ms <;> simp [Smf.addEvents, List.append_assoc]

theorem code_Add (t : Smf.Track) (δ : Nat) (msgs : List (List Nat)) (h : t.length < 4611686018427387904) :
    smf.Track.Add (toGo t) δ msgs = .ok (toGo (t.add δ msgs)) := by
  unfold smf.Track.Add Smf.Track.add
  simp only [code_IsClosed t h]
  cases t.isClosed
  · simp only [bind, Except.bind, pure, Except.pure]
    rw [add_loop msgs t δ]
    simp
  · simp [bind, Except.bind, pure, Except.pure]

end Midi.C01
